#!/venv/bin/python
"""Translator (code): predicate / kernel functions of the pure-Python implementation -> Lean.

On every run the CURRENT source text of `$BEZIER_REPO/src/python/bezier/hazmat/*.py` (default
/repo) is parsed with `ast` (the package is NOT imported), every function listed in `SIGS` is
translated statement by statement into a Lean definition, and the result is written to
lean/BezierVerif/Generated/SrcPy.lean (namespace `BezierVerif.Src.Py`).  The kernel then re-proves,
in lean/BezierVerif/Tables/SrcPy.lean, Tables/SrcPyReal.lean (phase 1) and Tables/SrcPyKernels.lean
(phase 2: loops, lists, stateful pieces, evaluation kernels), that each generated definition equals the
hand-written model definition (Model/Helpers.lean, Model/Solve2x2.lean, Model/Geometric.lean,
Model/Curve.lean) on the stated domain.  A semantic change of the source changes the generated term
and breaks the theorem.

Anything the translator does not understand gives `EXTRACT-PROBLEM srcpy: <function>: <what>` on
stdout and NO definition (so the theorem about it cannot build); nothing is skipped silently.
Exit status 0 even then.  Output is deterministic and only rewritten when it changes.

usage:  translate_py.py [--out FILE]        (env BEZIER_REPO = source tree)

------------------------------------------------------------------------------------------------
TRUSTED PART (everything else is re-checked by the kernel through the equality theorems)

 * `SIGS`: the parameter kinds of every translated function
       S    float scalar                        -> K
       S1   NumPy array with ONE entry          -> K      (see "one parameter value" below)
       N    int known to be >= 0                -> Nat
       P    1-D array with exactly 2 entries    -> Pt K = K x K          (v[0] = v.1, v[1] = v.2)
       V    1-D array of any length             -> List K
       C    d x 1 array                         -> List K (its d entries)
       M22  2 x 2 array                         -> List (List K), rows;  shape checked where indexed
       M2N  2 x N array (N free)                -> List (List K), rows;  shape checked where indexed
       MN   d x N array                         -> List (List K), rows
       SUB  SubdividedCurve object              -> Model.SubCurve K (.start, .end -> stop, .nodes)
       ("list", k)   Python list (read only)    -> List _
       ("mlist", k)  Python list that the function UPDATES IN PLACE: it is an argument and (the final
                     contents) a result of the generated definition; `f(.., lst)` as a statement re-binds `lst`
   An argument that violates the declared shape (M22 / M2N) gives `Err.badInput`.
   Default values of parameters (numeric constants only) are emitted as `<fn>_default_<param> : Rat`
   and filled in at calls that omit the argument.
 * `MODULES`: which source file a module alias of an `import` statement denotes (pure-Python
   configuration: the shim `bezier._helpers` binds `hazmat/helpers.py`).
 * `EXC`: exception class -> `Model.Err` constructor (the message is not modelled).
 * `ABSTRACT`: functions / classes that are CALLED by translated functions but not translated themselves
   (`newton_iterate`, the constructors `NewtonSimpleRoot(...)`, `NewtonDoubleRoot(...)`) are explicit parameters of the
   generated definitions of their (transitive) callers, like `sqrt`; the table only fixes their parameter / result
   kinds (kind EV = an `evaluate_fn` object = `Model.NewtonEval K`); nothing is assumed about them - the theorems
   state what they need as hypotheses.
 * methods: `("mod", "Class.method", kinds)` translates `Class.method(self, ...)` as a function of the object's fields
   (the parameters of `__init__`, which must do nothing but `self.x = x` for each of them) followed by the method's
   parameters; `self.x` reads the field.  Lean name `Class.call` for `__call__`.
 * a function name listed twice in `SIGS` keeps its plain Lean name for the first module and is `<module>.<name>` for
   the others (`intersection_helpers.newton_refine`).
 * the meaning given to the supported NumPy / builtin primitives (`RUNTIME` below and `prim_call`):
   np.min/np.max(axis=1), np.abs/abs, min/max (also on +-inf), np.vdot, np.dot, .T, np.asfortranarray/np.array,
   np.all, np.linalg.norm(ord=2) (= an ABSTRACT `sqrt : K -> K` applied to the sum of squares), np.inf, np.nan,
   np.zeros / np.ones / np.empty, .shape / np.shape, len, float, range, bisect.bisect_left (= Model.bisectLeft, the
   transcription of the library routine), elementwise `+ - *` and `<=` on arrays (1-D arrays with NumPy's length-1
   broadcasting; 2-D arrays of EQUAL shapes only - any other pair of shapes is `Err.badInput`, NumPy's 2-D
   broadcasting is not modelled), Python slices `a[:, lo:hi]` (clamping, negative bounds).
 * ONE PARAMETER VALUE: the evaluation kernels of curve_helpers.py broadcast over a vector of parameter values
   (`lambda1`, `s_vals` of shape `(num_vals,)`).  Every operation they use acts entry by entry along that axis,
   so they are translated for `num_vals = 1`: kind S1 (a one-entry array IS a number of K, `x[np.newaxis, :]` and
   `x[0]` are that number, `x.shape == (1,)`), a `d x 1` result is the list of its d entries (kind C), a
   `d x 1 x k` work array is a `d x k` array (three subscripts, the middle one `:` or `0`).  That the multi-value
   routine is the map of the one-value routine over the parameters is NumPy's broadcasting rule, not proved here.
 * float arithmetic `+ - * /` and comparisons are translated to the operations of the number type
   K (exact semantics; rounding is the subject of the correspondence scripts, not of this tie).
   Division by zero (IEEE inf / NaN in the code) is K's total `/`.  Python ints are `Int` (`Nat` where
   declared / derived from a length, a shape, a range); an int used with floats is converted (`Rt.ofInt`).
 * `None` / `np.nan` in a result position make that position an `Option`; using a maybe-`None`
   value as a number (`TypeError` in Python) is `Rt.unwrap` = `Err.badInput` on `none`; an
   out-of-range index (`IndexError`) is `Err.badInput` as well.
 * a function some statement of which can raise (listed exception, NumPy primitive on a zero-size /
   mis-shaped array, maybe-`None` value used as a number, shape check of an M22 / M2N parameter that is
   indexed) returns `Except Err _`; raising sub-computations are sequenced in Python's evaluation order
   with `Rt.bind` (`and` / `or` stay lazy, a lazily evaluated operand of a chained comparison that can
   raise is refused).
 * arrays that the code overwrites in place (`np.empty` + `x[:] = e`, `x[:, 0, :] = e`, `x[:, :, :j] = e`, a `np.empty((2, 2))` filled by
   the two column assignments `x[:, :1] = c0`, `x[:, 1:] = c1` - unusable until both are done,
   `np.zeros` + `x += e`) are re-bound; this is sound because such an array must have been created in the
   function and every second name for it (`y = x`, storing it in a tuple / list) is refused.

 * PHASE 4 (pytri: the triangle kernels of triangle_helpers.py / triangle_intersection.py) adds to the trusted part:
     - `x = np.empty((d, k))` that the code fills COLUMN BY COLUMN (`x[:, j] = <1-D array>`, or `x[0, j] = <number>` when d is
       the constant 1): the list of the d rows written so far (`Rt.mcNew`, `Rt.pushCol`); the entries of `np.empty` are
       unspecified, therefore a column may only be written directly after the columns written so far, with exactly d
       entries (no broadcasting), and the variable may only be READ (returned, used in an expression: `Rt.mcFreeze`) when
       all k columns are there; anything else is `Err.badInput` (the theorems state `.ok`, so they would break).  The same
       array filled by the two row blocks `x[:a, :] = A; x[a:, :] = B` (same variable `a`, A first on the untouched
       array: `Rt.mcRows0`, `Rt.asShape`) is `A ++ B`.
     - `x[:, 0] op= v` for a `d x 1` array created in the function (`Rt.vzipInto`: v has d entries or one).
     - int running variables of loops (`index = 0` ... `index += 1`): Nat / Int as for every Python int; `a // b` of two
       naturals is Nat division; `range(a, -1, -1)`; `enumerate(xs)` (`Rt.enum`); `for row in <2-D array>` iterates over its
       rows; `for i, (a, b) in ...` unpacks; `a, b, c = <1-D array>` / `(x,), (y,) = <d x 1 array>` need exactly that
       many entries (`ValueError` in Python, `Err.badInput` here).
     - `nodes[:, j]` with a computed int j (`Rt.idx` / `Rt.idxI` on every row), `m[i, :]` (`Rt.rowI`), `+ *` of 1-D arrays
       (`Rt.vzip`), number * 1-D array, `np.repeat(m, n, axis=1)` (`Rt.repeatCols`).
     - an int expression passed where the signature table says N: a negative value is `Err.badInput` (`Rt.toNatE`); a 2-D
       array passed where it says M22: shape checked at the call (`Rt.asM22`).
     - `np.asfortranarray(x)` of a variable x holding an array that is never updated in place returns x (an alias of an
       immutable value is harmless).
     - module-level array constants `NAME = np.asfortranarray(<literal list(s) of numbers>[, dtype=_FLOAT64]) [/ c]` become
       `tbl.<module>.<NAME>` (every entry exact in binary64, else refused); `m op= c` (`*`, `/`) on a 2-D array that is the
       value of a call of a translated function all of whose `return`s build a new array.
     - `ABSTRACT` gains `specialize_triangle` (dictionaries: not translated), a parameter of `subdivide_nodes`.
     - `lst.extend((a, b, ...))` with a literal tuple / list is `lst.append(a); lst.append(b); ...`; a 2-entry array (kind P)
       passed where a 1-D array (kind V) is declared is the list of its two entries; a parameter kind may be a tuple.
PHASE 4 (builder pypipeline) - additions to the trusted part, every one marked `phase 4 (pypipeline)` in the code
 * kinds: ("fn", parameter kinds, result kind, can raise?) - a callable PARAMETER (`evaluate_fn` of `newton_iterate`): its
   Lean type is the function type, a call is an application (bound with `Rt.bind` when it can raise);
   LIN / OSUB / SHAPE - `Linearization` objects, `SubdividedCurve` objects with all four slots, and "either of the
   two" (`Rt.PyLin`, `Rt.PySub`, `Rt.PyShape`): slots are fields (`end` is `stop`); a slot read from a SHAPE value is
   `Rt.PyShape.asLin` / `.asSub` (`AttributeError` = `Err.badInput` on the other class); `x.__class__ is Linearization` is
   `Rt.PyShape.isLin`; `SubdividedCurve(a, b, ...)` is the structure literal (`OBJECTS`: `__init__` must only store its
   parameters; missing arguments = its numeric defaults); an OSUB / LIN value where SHAPE is declared is injected.
 * `x = None` gives `x` no Lean binding; it gets the type `Option _` where it meets a value (loop state, `if` arm); a value
   that is ALWAYS None used as a number is `Rt.unwrap none` (TypeError).  `x is None` / `x is not None` of a maybe-None
   value is `Option.isNone` / `isSome` (no narrowing: a later use as a number unwraps again).  A maybe-NaN value
   (`np.nan`) used as a number is `Rt.unwrapNaN` = `Err.badInput`: NaN has no meaning in K; the theorems show that the
   branch is not taken.  A maybe-None array where a translated callee expects an array is unwrapped the same way.
 * loops: `break` / `continue` (`Rt.Step`, `Rt.loopE`, `Rt.loopM`; `continue` alone uses the existing `Sum.inr` step); a
   loop-carried variable that starts as an int constant (`count = 0`) is a Python int (Nat / Int) when the body keeps it
   one, otherwise a number of K as before; a loop over a literal tuple / `range(c <= 4)` with `break` / `continue` is refused.
 * arrays: `np.empty((r, c))` with constants r, c <= 4 filled by `x[i, j] = scalar`, `x[i, :] = scalar`,
   `x[a:b, j0:j1] = <2 x 1 array>` is tracked cell by cell (`grid_assign`): no value until every cell is assigned once, then
   the r x c array of the cells; `if c: x[i, j] = a` / `else: x[i, j] = b` with the SAME cell in both arms is
   `t = a if c else b; x[i, j] = t`; `A == c` for a 2-D array (entry by entry, consumed by `np.all`), `m[lo:hi, :]`, `m.size`,
   `np.empty((d, 0))` as a value (d empty rows), a `d x 1` literal `[[a], [b]]`, `v.reshape((n, 1), order="F")` of a 1-D
   array (`Rt.reshapeCol`: ValueError unless it has n entries), `m.ravel(order="F")` (`Rt.ravelF` = columns one after the
   other), `np.array(pairs, order="C").T` of a list of pairs (`Rt.pairsT`), a 2 x 2 array where any 2-D array may come,
   a list literal of tuples, a tuple-valued variable assigned in both arms of an `if`.
 * untranslated callees (`ABSTRACT.update`): `elevate_nodes`, `locate_point`, `specialize_curve`, `convex_hull_collide`, the
   class method `Linearization.from_shape`, `intersect_one_round` (its list argument that is updated in place comes back next to
   the result: `x = f(.., lst)` re-binds `x` and `lst`); parameters of the generated definitions, nothing assumed.
 * two assignment forms of `all_intersections`: `msg = TEMPLATE.format(CONSTANTS)` (a message string that only a `raise`
   uses) is skipped; `lst = pairs` where `lst` holds a list of pairs and `pairs` is a (maybe-None) pair of pairs of
   (maybe-None) numbers is the list of the two pairs - that is how `np.array` reads either.
 * PHASE 4 (pyclassify) - decision logic of the triangle-triangle intersection (`hazmat/triangle_helpers.py`,
   `hazmat/triangle_intersection.py`; theorems in Tables/SrcPyClassify.lean).  New parameter kinds:
       B     bool                                                    -> Bool
       CLS   member of `IntersectionClassification`, or None          -> Option Model.Classify.Cls
             (`CLASSIFICATION_T.X`, also through module-level names such as `UNUSED_T`, is `Cls.ofCode <integer read from
             the class body>`: the integers are pinned by `classification_codes_src`; `==`, `!=`, `in (..)` are identity)
       INT   `Intersection` object (only its slots are read)          -> Model.Classify.Intersection K; each slot may hold None:
             `x.s == 1.0` is `x.s = some 1` (None == number is False), a slot used as a number / index / in `<` is
             `Rt.unwrap` (TypeError = `Err.badInput`); `Intersection(a, b, c, d, interior_curve=e)` is the record (checked:
             `__init__` only stores its five parameters)
       OL    the Python list `intersections` whose elements have IDENTITY -> List (Intersection K); iterating it yields
       REF   object references `Model.Walk.WNode K`: `pos = some i` iff the object IS `intersections[i]` (`Rt.refs`);
             a new `Intersection(...)` returned where references are returned is `Rt.newRef` (`pos = none`)
       ("mlist", "POS")  a Python list of ELEMENTS OF `intersections` (`unused`), kept as the list of their positions;
             `node in unused` / `unused.remove(node)` are identity tests (`Intersection` has no `__eq__`): `Rt.refIn`,
             `Rt.refRemove`.  TRUSTED: the caller passes a list all of whose entries are (distinct) elements of `intersections`.
       CSET  a Python set of classifications -> List Cls (duplicate-free list); `len`, truth value, and `.pop()` ONLY for a
             one-element set (`Rt.setPop1`; otherwise `badInput`); a set that was popped from / passed to a translated
             function must not be read again (refused)
   New primitives: `np.sign` (`Rt.sign`, also through the module alias `_SIGN`), int `%` positive constant, `x.ravel(order="F")`
   of a `d x 1` array, `x = f(..); x *= c` for the fresh result of a translated function all of whose `return`s deliver an
   arithmetic expression, `x = None` (kind settled by unification), `is None` / `is not None`, keyword arguments that directly
   follow the positional ones, bool defaults, a function-level `from bezier.hazmat import <listed module>`, `RET_HINT` (result
   kind where only `[]` / None literals are returned).  New ABSTRACT callees: `curve_helpers.get_curvature`,
   `triangle_intersection.locate_point`, `triangle_helpers.basic_interior_combine`.

ACCEPTED PYTHON (per function body; docstrings ignored)
   statements : `x = e`, `a, b, _ = e` (tuple / 2-entry array unpacking), `x op= e` (numbers, arrays created in the
                function), `if/elif/else`, `return e`, `return (e, ...)`, `raise Exc(...)`, `pass`,
                `for x in <iterable>:` (no else / break / continue), `lst.append(e)`, `f(.., lst)` for a translated
                `f` that updates `lst` in place, the in-place array assignments listed above
   iterables  : a literal tuple / `range(c)` with a constant c <= 4 (unrolled), `range(n)`, `range(a, n)` with a
                constant a >= 0, `range(a, b, -1)` with a constant b >= 0, a list variable, a 1-D array
   loops      : the variables that are defined before the loop and re-bound in it form the loop state (in the order
                of their definition); no `return` inside and nothing that can raise -> `List.foldl`; can raise ->
                `Rt.foldM`; `return` inside -> `Rt.forE` / `Rt.forM` (the step answers `Sum.inl result` or
                `Sum.inr state`); variables first bound inside the loop are unbound after it
   expressions: float/int/bool/None constants (int and float constants alike are numbers of K), constant
                arithmetic incl. `**` (folded exactly),
                names (parameters, locals, numeric module constants), `+ - * /`, unary `-`, `not`,
                `and` / `or` (short-circuit kept when the right operand can raise), comparisons
                incl. chains, `v[0]`, `m[i, j]`, `m[:, j]`, `m[:, [j]]`, `m[i, -1]`, `m[:, -1]`, `m[:, lo:hi]`,
                `m[:, ::-1]`, `lst[i]`, `tup[i]`, tuples, list literals, `[]`, `obj.start/.end/.nodes`, `m.T`, `m.shape`,
                `Class.ATTR` of a plain class with int attributes (enum),
                calls of other translated functions (positional arguments) and of the
                primitives listed above; truth value of a list (`if not lst`).
   control    : early `return` = the remainder of the block becomes the `else` branch; an `if`
                without `return`/`raise` inside = simultaneous `let (x, y) := if .. then .. else ..`
                over the variables assigned in it (both arms must define them, or they must be
                defined before); an `if` some arm of which falls through while another returns =
                the remainder is translated once per falling-through arm.
"""
import ast
import os
import sys
from fractions import Fraction as Fr

REPO = os.environ.get("BEZIER_REPO", "/repo")
HERE = os.path.dirname(os.path.abspath(__file__))
OUT = os.path.join(os.path.dirname(HERE), "lean", "BezierVerif", "Generated", "SrcPy.lean")

# ------------------------------------------------------------------ trusted tables
SIGS = [
    ("helpers", "in_interval", ["S", "S", "S"]),
    ("helpers", "cross_product", ["P", "P"]),
    ("helpers", "cross_product_compare", ["P", "P", "P"]),
    ("helpers", "wiggle_interval", ["S", "S"]),
    ("helpers", "vector_close", ["V", "V", "S"]),
    ("helpers", "bbox", ["M2N"]),
    ("helpers", "contains_nd", ["MN", "V"]),
    ("helpers", "solve2x2", ["M22", "P"]),
    ("geometric_intersection", "bbox_intersect", ["M2N", "M2N"]),
    ("geometric_intersection", "segment_intersection", ["P", "P", "P", "P"]),
    ("geometric_intersection", "parallel_lines_parameters", ["P", "P", "P", "P"]),
    ("geometric_intersection", "line_line_collide", ["M22", "M22"]),
    ("geometric_intersection", "bbox_line_intersect", ["M2N", "P", "P"]),
    ("clipping", "compute_implicit_line", ["M2N"]),
    ("clipping", "_update_parameters", ["S", "S", "P", "P", "P", "P"]),
    ("triangle_helpers", "two_by_two_det", ["M22"]),
    # phase 2: loops and the small stateful pieces of the intersection pipeline
    ("helpers", "is_separating", ["P", "M2N", "M2N"]),
    ("helpers", "polygon_collide", ["M2N", "M2N"]),
    ("helpers", "in_sorted", [("list", "N"), "N"]),
    ("helpers", "matrix_product", ["MN", "MN"]),
    ("geometric_intersection", "linearization_error", ["MN"]),
    ("curve_helpers", "de_casteljau_one_round", ["MN", "S", "S"]),
    ("curve_helpers", "evaluate_multi_vs", ["MN", "S1", "S1"]),
    ("curve_helpers", "evaluate_multi_de_casteljau", ["MN", "S1", "S1"]),
    ("curve_helpers", "evaluate_multi_barycentric", ["MN", "S1", "S1"]),
    ("curve_helpers", "evaluate_multi", ["MN", "S1"]),
    ("curve_helpers", "evaluate_hodograph", ["S", "MN"]),
    ("curve_helpers", "newton_refine", ["MN", "C", "S"]),
    # phase 3
    ("intersection_helpers", "full_newton_nonzero", ["S", "MN", "S", "MN"]),
    ("intersection_helpers", "full_newton", ["S", "MN", "S", "MN"]),
    ("intersection_helpers", "newton_refine", ["S", "MN", "S", "MN"]),
    ("intersection_helpers", "NewtonSimpleRoot.__call__", ["MN", "MN", "MN", "MN", "S", "S"]),
    ("geometric_intersection", "add_intersection", ["S", "S", ("mlist", ("tuple", ("S", "S")))]),
    ("geometric_intersection", "endpoint_check", ["SUB", "V", "S", "SUB", "V", "S", ("mlist", ("tuple", ("S", "S")))]),
    ("geometric_intersection", "tangent_bbox_intersection", ["SUB", "SUB", ("mlist", ("tuple", ("S", "S")))]),
    # phase 4 (pytri): the pure-Python triangle kernels
    ("triangle_helpers", "de_casteljau_one_round", ["MN", "N", "S", "S", "S"]),
    ("triangle_helpers", "evaluate_barycentric", ["MN", "N", "S", "S", "S"]),
    ("triangle_helpers", "evaluate_barycentric_multi", ["MN", "N", "MN", "N"]),
    ("triangle_helpers", "evaluate_cartesian_multi", ["MN", "N", "MN", "N"]),
    ("triangle_helpers", "jacobian_s", ["MN", "N", "N"]),
    ("triangle_helpers", "jacobian_t", ["MN", "N", "N"]),
    ("triangle_helpers", "jacobian_both", ["MN", "N", "N"]),
    ("triangle_helpers", "jacobian_det", ["MN", "N", "MN"]),
    ("triangle_intersection", "newton_refine_solve", ["C", "S", "S", "S", "S"]),
    ("triangle_intersection", "newton_refine", ["MN", "N", "S", "S", "S", "S"]),
    ("triangle_helpers", "quadratic_jacobian_polynomial", ["MN"]),
    ("triangle_helpers", "cubic_jacobian_polynomial", ["MN"]),
    ("triangle_helpers", "subdivide_nodes", ["MN", "N"]),
    ("triangle_intersection", "mean_centroid", [("list", ("tuple", ("S", "S", "S", "MN")))]),
    ("triangle_intersection", "update_locate_candidates",
     [("tuple", ("S", "S", "S", "MN")), ("mlist", ("tuple", ("S", "S", "S", "MN"))), "S", "S", "N"]),
    # phase 4 (pypipeline)
    ("intersection_helpers", "newton_iterate", [("fn", ("S", "S"), ("tuple", (("opt", "M22", "none"), "C")), True), "S", "S"]),
    ("intersection_helpers", "NewtonDoubleRoot.__call__", ["MN", "MN", "MN", "MN", "MN", "MN", "S", "S"]),
    ("geometric_intersection", "make_same_degree", ["MN", "MN"]),
    ("geometric_intersection", "coincident_parameters", ["MN", "MN"]),
    ("geometric_intersection", "from_linearized", ["LIN", "LIN", ("mlist", ("tuple", ("S", "S")))]),
    ("geometric_intersection", "prune_candidates", [("list", ("tuple", ("SHAPE", "SHAPE")))]),
    ("geometric_intersection", "check_lines", ["SHAPE", "SHAPE"]),
    ("geometric_intersection", "all_intersections", ["MN", "MN"]),
    ("geometric_intersection", "SubdividedCurve.subdivide", ["MN", "MN", "S", "S"]),
    ("geometric_intersection", "Linearization.from_shape", ["SHAPE"]),
    # phase 4 (pyclassify): decision logic of the triangle-triangle intersection (hazmat/triangle_helpers.py)
    ("triangle_helpers", "handle_ends", ["N", "S", "N", "S"]),
    ("triangle_helpers", "is_first", ["CLS"]),
    ("triangle_helpers", "is_second", ["CLS"]),
    ("triangle_helpers", "ignored_edge_corner", ["C", "C", "MN"]),
    ("triangle_helpers", "ignored_double_corner", ["INT", "C", "C", ("list", "MN"), ("list", "MN")]),
    ("triangle_helpers", "ignored_corner", ["INT", "C", "C", ("list", "MN"), ("list", "MN")]),
    ("triangle_helpers", "classify_tangent_intersection", ["INT", "MN", "C", "MN", "C"]),
    ("triangle_helpers", "classify_intersection", ["INT", ("list", "MN"), ("list", "MN")]),
    ("triangle_helpers", "ends_to_curve", ["INT", "INT"]),
    ("triangle_helpers", "get_next_first", ["INT", "OL", "B"]),
    ("triangle_helpers", "get_next_second", ["INT", "OL", "B"]),
    ("triangle_helpers", "get_next_coincident", ["INT", "OL"]),
    ("triangle_helpers", "get_next", ["INT", "OL", ("mlist", "POS")]),
    ("triangle_helpers", "to_front", ["REF", "OL", ("mlist", "POS")]),
    ("triangle_helpers", "tangent_only_intersections", ["CSET"]),
    ("triangle_helpers", "no_intersections", ["M2N", "N", "M2N", "N"]),
    ("triangle_helpers", "combine_intersections", ["OL", "M2N", "N", "M2N", "N", "CSET"]),
    ("triangle_intersection", "classify_coincident", ["M2N", "B"]),
    ("triangle_intersection", "should_use", ["INT"]),
    ("triangle_intersection", "check_unused", ["INT", ("mlist", "INT"), "OL"]),
    # phase 4 (pycurve)
    ("curve_helpers", "make_subdivision_matrices", ["I"]),
    ("curve_helpers", "subdivide_nodes", ["MN"]),
    ("curve_helpers", "reduce_pseudo_inverse", ["MN"]),
    ("curve_helpers", "elevate_nodes", ["MN"]),
    ("curve_helpers", "get_curvature", ["MN", "C", "S"]),
    ("curve_helpers", "projection_error", ["MN", "MN"]),
    ("curve_helpers", "maybe_reduce", ["MN"]),
    ("curve_helpers", "full_reduce", ["MN"]),
    ("curve_helpers", "vec_size", ["MN", "S"]),
    ("curve_helpers", "compute_length", ["MN"]),
    # phase 4 (pyalgebraic)
    ("algebraic_intersection", "_evaluate3", ["M2N", "S", "S"]),
    ("algebraic_intersection", "evaluate", ["M2N", "S", "S"]),
    ("algebraic_intersection", "eval_intersection_polynomial", ["M2N", "MN", "S"]),
    ("algebraic_intersection", "_to_power_basis11", ["M2N", "MN"]),
    ("algebraic_intersection", "_to_power_basis12", ["M2N", "MN"]),
    ("algebraic_intersection", "_to_power_basis13", ["M2N", "MN"]),
    ("algebraic_intersection", "_to_power_basis_degree4", ["M2N", "MN"]),
    ("algebraic_intersection", "_to_power_basis23", ["M2N", "MN"]),
    ("algebraic_intersection", "_to_power_basis_degree8", ["M2N", "MN"]),
    ("algebraic_intersection", "_to_power_basis33", ["M2N", "MN"]),
    ("algebraic_intersection", "to_power_basis", ["M2N", "MN"]),
    ("algebraic_intersection", "polynomial_norm", ["V"]),
    ("algebraic_intersection", "normalize_polynomial", ["VW", "S"]),
    ("algebraic_intersection", "poly_to_power_basis", ["V"]),
    ("algebraic_intersection", "_get_sigma_coeffs", ["V"]),
    ("algebraic_intersection", "bernstein_companion", ["V"]),
    ("algebraic_intersection", "lu_companion", ["V", "S"]),
    ("algebraic_intersection", "all_intersections", ["M2N", "M2N"]),
    ("algebraic_intersection", "roots_in_unit_interval", ["V"]),
    ("algebraic_intersection", "_strip_leading_zeros", ["V", "S"]),
    ("algebraic_intersection", "bezier_roots", ["V"]),
    ("algebraic_intersection", "_reciprocal_condition_number", ["MN", "S"]),
    ("algebraic_intersection", "bezier_value_check", ["V", "S", "S"]),
    ("algebraic_intersection", "locate_point", ["M2N", "S", "S"]),
    ("algebraic_intersection", "_check_non_simple", ["V"]),
    ("algebraic_intersection", "_resolve_and_add", ["MN", "S", ("mlist", ("opt", "S", "nan")), "MN", "S", ("mlist", ("opt", "S", "nan"))]),
]
# phase 4 (pyclassify): the kind of the result where the returned literals alone do not determine it (`([], None)`)
OUTCOME = ("tuple", (("opt", ("list", ("list", ("tuple", ("N", "S", "S")))), "none"), ("opt", "B", "none")))
RET_HINT = {
    ("triangle_helpers", "tangent_only_intersections"): OUTCOME,
    ("triangle_helpers", "no_intersections"): OUTCOME,
}
MODULES = {
    "bezier.hazmat.helpers": "helpers",
    "bezier.hazmat.geometric_intersection": "geometric_intersection",
    "bezier.hazmat.clipping": "clipping",
    "bezier.hazmat.triangle_helpers": "triangle_helpers",
    "bezier.hazmat.intersection_helpers": "intersection_helpers",
    "bezier.hazmat.curve_helpers": "curve_helpers",
    "bezier.hazmat.triangle_intersection": "triangle_intersection",
    "bezier._helpers": "helpers",                      # shim, pure-Python configuration
    "bezier.hazmat.triangle_intersection": "triangle_intersection",      # phase 4 (pyclassify)
}
# functions that are CALLED by translated functions but not translated themselves: the generated definitions of their
# (transitive) callers take them as an explicit parameter, like `sqrt`; nothing is assumed about them
ABSTRACT = {     # (module, name) -> (parameter kinds, result kind, can raise?)
    ("intersection_helpers", "NewtonSimpleRoot"): (["MN", "MN", "MN", "MN"], "EV", False),
    ("intersection_helpers", "NewtonDoubleRoot"): (["MN", "MN", "MN", "MN", "MN", "MN"], "EV", False),
    ("intersection_helpers", "newton_iterate"): (["EV", "S", "S"], ("tuple", ("B", "S", "S")), True),
    # phase 4 (pytri): the dictionary-based generic path of subdivide_nodes is a parameter of its caller
    ("triangle_helpers", "specialize_triangle"): (["MN", "N", "V", "V", "V"], "MN", True),
    # phase 4 (pyclassify)
    ("curve_helpers", "get_curvature"): (["MN", "C", "S"], "S", False),
    ("triangle_intersection", "locate_point"): (["M2N", "N", "S", "S"], ("opt", ("tuple", ("S", "S")), "none"), False),
    ("triangle_helpers", "basic_interior_combine"): (["OL"], OUTCOME, True),
}
# phase 4 (pypipeline): callees of the pipeline that are not translated (parameters of the generated definitions)
ABSTRACT.update({
    ("curve_helpers", "elevate_nodes"): (["MN"], "MN", False),
    ("curve_helpers", "locate_point"): (["MN", "C"], ("opt", "S", "none"), True),
    ("curve_helpers", "specialize_curve"): (["MN", "S", "S"], "MN", False),
    ("geometric_intersection", "convex_hull_collide"): (["MN", "MN"], "B", False),
    ("geometric_intersection", "Linearization.from_shape"): (["SHAPE"], "SHAPE", False),
    ("curve_helpers", "subdivide_nodes"): (["MN"], ("tuple", ("MN", "MN")), False),
    # a list argument that the callee updates in place (kind mlist) is handed back next to the result
    ("geometric_intersection", "intersect_one_round"): (
        [("list", ("tuple", ("SHAPE", "SHAPE"))), ("mlist", ("tuple", ("S", "S")))],
        ("list", ("tuple", ("SHAPE", "SHAPE"))), True),
})
# phase 4 (pypipeline): classes whose objects are built by the translated code: class -> (kind, Lean structure, slots -> fields)
OBJECTS = {"SubdividedCurve": ("OSUB", "Rt.PySub", [("nodes", "nodes", "MN"), ("original_nodes", "original_nodes", "MN"),
                                                   ("start", "start", "S"), ("end", "stop", "S")])}


def abstract_lean_type(ak, ar, can_raise):
    """Lean type of an untranslated callee: mutable list arguments come back next to the result"""
    muts = [k for k in ak if isinstance(k, tuple) and k[0] == "mlist"]
    rk = ar if not muts else ("tuple", tuple([ar] + [("list", k[1]) for k in muts]))
    return " → ".join([atom(lty(k)) for k in ak] + [("Except Err %s" % atom(lty(rk))) if can_raise else lty(rk)])
EXC = {"NotImplementedError": "notImplemented", "ValueError": "valueError",
       "RuntimeError": "runtimeError", "UnsupportedDegree": "unsupportedDegree"}

RUNTIME = """\
/-! ## runtime: the meaning of the supported NumPy primitives (fixed text, part of the trusted base) -/
namespace Rt

/-- `np.min(row)`: `ValueError` on a zero-size array -/
def npMin (r : List K) : Except Err K :=
  match r with
  | [] => .error .valueError
  | x :: xs => .ok (Model.minOf x xs)

/-- `np.max(row)`: `ValueError` on a zero-size array -/
def npMax (r : List K) : Except Err K :=
  match r with
  | [] => .error .valueError
  | x :: xs => .ok (Model.maxOf x xs)

/-- sequencing: an exception raised by the first computation propagates -/
def bind {α β : Type} (m : Except Err α) (f : α → Except Err β) : Except Err β :=
  match m with
  | .error e => .error e
  | .ok v => f v

@[simp] theorem bind_ok {α β : Type} (v : α) (f : α → Except Err β) : bind (.ok v) f = f v := rfl
@[simp] theorem bind_error {α β : Type} (e : Err) (f : α → Except Err β) : bind (.error e) f = .error e := rfl

/-- a maybe-`None` value used where a float is required (`TypeError`) -/
def unwrap {α : Type} (x : Option α) : Except Err α :=
  match x with
  | some v => .ok v
  | none => .error .badInput

/-- `row[i]` with a constant `i ≥ 0` (`IndexError`) -/
def idx (r : List K) (i : Nat) : Except Err K :=
  match r[i]? with
  | some v => .ok v
  | none => .error .badInput

/-- `row[-1]` (`IndexError`) -/
def idxLast (r : List K) : Except Err K :=
  match r.getLast? with
  | some v => .ok v
  | none => .error .badInput

/-- elementwise binary operation of two 1-D arrays with NumPy broadcasting (equal lengths, or one
    of them of length 1); otherwise `ValueError` -/
def vzip {β : Type} (f : K → K → β) (a b : List K) : Except Err (List β) :=
  if a.length = b.length then .ok (List.zipWith f a b)
  else match a, b with
    | [x], _ => .ok (b.map (fun y => f x y))
    | _, [y] => .ok (a.map (fun x => f x y))
    | _, _ => .error .valueError

/-! ### phase 2: Python ints, `±inf`, lists, shapes, loops -/

/-- a Python int used in float arithmetic -/
def ofInt (i : Int) : K := if i < 0 then -((i.natAbs : Nat) : K) else ((i.natAbs : Nat) : K)

/-- `row[j]` with a Python int `j`: negative `j` counts from the end; `IndexError` outside `-len .. len-1` -/
def idxI (r : List K) (j : Int) : Except Err K :=
  if 0 ≤ j then idx r j.toNat
  else if -(r.length : Int) ≤ j then idx r ((r.length : Int) + j).toNat
  else .error .badInput

/-- `lst[i]` of a Python list, `i ≥ 0` (`IndexError`) -/
def lidx {α : Type} (l : List α) (i : Nat) : Except Err α :=
  match l[i]? with
  | some v => .ok v
  | none => .error .badInput

/-- `nodes.shape[1]` of a `2 × N` array: both rows have `N` entries (anything else is not an array: `badInput`) -/
def shape2 (r0 r1 : List K) : Except Err Nat :=
  if r0.length = r1.length then .ok r0.length else .error .badInput

/-- `nodes.shape` of a `d × N` array given by its rows (rows of unequal length are not an array: `badInput`;
    zero rows: `(0, 0)`) -/
def shape (m : List (List K)) : Except Err (Nat × Nat) :=
  match m with
  | [] => .ok (0, 0)
  | r :: rs => if rs.all (fun x => x.length == r.length) then .ok (rs.length + 1, r.length) else .error .badInput

/-- `lst[lo:hi]` of Python (bounds clamped, negative bounds count from the end; never raises) -/
def sliceIdx (n : Nat) (i : Int) : Nat := if i < 0 then ((n : Int) + i).toNat else min i.toNat n

def slice {α : Type} (r : List α) (lo hi : Option Int) : List α :=
  let a := match lo with
    | none => 0
    | some i => sliceIdx r.length i
  let b := match hi with
    | none => r.length
    | some i => sliceIdx r.length i
  (r.drop a).take (b - a)

/-- `nodes[:, lo:hi]` of a `d × N` array -/
def cols (m : List (List K)) (lo hi : Option Int) : List (List K) := m.map fun r => slice r lo hi

/-- a 1-D array / a `d × 1` array used where exactly two entries are required (anything else: `badInput`) -/
def asPt (v : List K) : Except Err (Pt K) :=
  match v with
  | [a, b] => .ok (a, b)
  | _ => .error .badInput

/-- `nodes[:, ::-1]`: every row reversed -/
def mrev (m : List (List K)) : List (List K) := m.map List.reverse

/-- entrywise function of a `d × N` array (`c * A`, `A * c`, `np.abs(A)`) -/
def mmap (f : K → K) (m : List (List K)) : List (List K) := m.map fun r => r.map f

/-- `A + B` / `A - B` of two 2-D arrays OF THE SAME SHAPE (NumPy's broadcasting of 2-D arrays is not modelled:
    any other pair of shapes is `Err.badInput`) -/
def mzip (f : K → K → K) : List (List K) → List (List K) → Except Err (List (List K))
  | [], [] => .ok []
  | ra :: a, rb :: b =>
    if ra.length = rb.length then bind (mzip f a b) fun rest => .ok (List.zipWith f ra rb :: rest)
    else .error .badInput
  | _, _ => .error .badInput

/-- the `d × k` array all of whose entries are `c` (`x[...] = c`) -/
def mfill (d k : Nat) (c : K) : List (List K) := List.replicate d (List.replicate k c)

/-- `x[...] = e` for an array `x` of shape `d × k`: `e` must have that shape (broadcasting of `e` is not modelled: `badInput`) -/
def asShape (d k : Nat) (e : List (List K)) : Except Err (List (List K)) :=
  if e.length = d ∧ e.all (fun r => r.length == k) = true then .ok e else .error .badInput

/-- `x[:, lo:hi] = e` row by row: the replaced stretch and the row of `e` must have the same length (`badInput`) -/
def setCols (m : List (List K)) (lo hi : Option Int) : List (List K) → Except Err (List (List K)) :=
  fun e => match m, e with
  | [], [] => .ok []
  | r :: m', er :: e' =>
    let a := match lo with
      | none => 0
      | some i => sliceIdx r.length i
    let b := match hi with
      | none => r.length
      | some i => sliceIdx r.length i
    if er.length = b - a then bind (setCols m' lo hi e') fun rest => .ok ((r.take a ++ er ++ r.drop (max a b)) :: rest)
    else .error .badInput
  | _, _ => .error .badInput

/-- `np.dot(A, B)` of two 2-D arrays: every row of `A` must have as many entries as `B` has rows (`ValueError`) -/
def npDot (a b : List (List K)) : Except Err (List (List K)) :=
  if a.all (fun r => r.length == b.length) then .ok (Model.matMul a b) else .error .valueError

/-- a float that may be `-inf` / `+inf` (`np.inf`) -/
inductive Ext (K : Type) where
  | ninf
  | fin (x : K)
  | pinf

/-- `a < b` on possibly infinite values -/
def Ext.lt : Ext K → Ext K → Bool
  | .ninf, .ninf => false
  | .ninf, _ => true
  | .fin _, .ninf => false
  | .fin a, .fin b => decide (a < b)
  | .fin _, .pinf => true
  | .pinf, _ => false

/-- the builtin `min(a, b)`: `b if b < a else a` -/
def Ext.min (a b : Ext K) : Ext K := if Ext.lt b a then b else a

/-- the builtin `max(a, b)`: `b if b > a else a` -/
def Ext.max (a b : Ext K) : Ext K := if Ext.lt a b then b else a

def Ext.neg : Ext K → Ext K
  | .ninf => .pinf
  | .fin x => .fin (-x)
  | .pinf => .ninf

/-- `for x in xs: state = step(state, x)` where the step can raise -/
def foldM {α σ : Type} (xs : List α) (init : σ) (step : σ → α → Except Err σ) : Except Err σ :=
  match xs with
  | [] => .ok init
  | x :: xs => bind (step init x) fun s => foldM xs s step

/-- `for x in xs:` with early `return`: the step answers `Sum.inl r` (return `r`) or `Sum.inr state` (go on) -/
def forE {α σ ρ : Type} (xs : List α) (init : σ) (step : σ → α → ρ ⊕ σ) : ρ ⊕ σ :=
  match xs with
  | [] => .inr init
  | x :: xs =>
    match step init x with
    | .inl r => .inl r
    | .inr s => forE xs s step

/-- the same where the step can raise -/
def forM {α σ ρ : Type} (xs : List α) (init : σ) (step : σ → α → Except Err (ρ ⊕ σ)) : Except Err (ρ ⊕ σ) :=
  match xs with
  | [] => .ok (.inr init)
  | x :: xs =>
    bind (step init x) fun res =>
      match res with
      | .inl r => .ok (.inl r)
      | .inr s => forM xs s step

/-! ### phase 4 (pytri): arrays filled column by column, `enumerate`, ints declared non-negative -/

/-- `x = np.empty((d, k))` that the code fills COLUMN BY COLUMN: the `d` rows written so far (nothing yet).  The
    entries of `np.empty` are unspecified, so a column may only be written at the position directly after the
    columns written so far and the array may only be read when all `k` columns are there (`mcFreeze`);
    anything else is `Err.badInput` -/
def mcNew (d : Nat) : List (List K) := List.replicate d []

/-- `x[:, j] = col` for such an array with `k` columns: `col` must have one entry per row (NumPy's broadcasting
    of a shorter `col` is not modelled) and `j` must be the number of columns written so far -/
def pushCol (k : Nat) (m : List (List K)) (j : Int) (col : List K) : Except Err (List (List K)) :=
  if 0 ≤ j ∧ j < (k : Int) ∧ col.length = m.length ∧ (m.all fun r => (r.length : Int) == j) = true then
    .ok (List.zipWith (fun r x => r ++ [x]) m col)
  else .error .badInput

/-- reading such an array (returning it, using it in an expression): all `k` columns must have been written -/
def mcFreeze (k : Nat) (m : List (List K)) : Except Err (List (List K)) :=
  if (m.all fun r => r.length == k) = true then .ok m else .error .badInput

/-- `x[:, 0] op= v` for a `d × 1` array `x` and a 1-D array `v`: `v` has `d` entries or one (broadcast); the
    result cannot grow (`ValueError`) -/
def vzipInto (f : K → K → K) (x v : List K) : Except Err (List K) :=
  if x.length = v.length then .ok (List.zipWith f x v)
  else match v with
    | [y] => .ok (x.map fun a => f a y)
    | _ => .error .valueError

/-- `x[:a, :] = e` as the FIRST assignment to such an array (`a` at most the number of rows): its first `a` rows -/
def mcRows0 (m : List (List K)) (a k : Nat) (e : List (List K)) : Except Err (List (List K)) :=
  if a ≤ m.length ∧ (m.all fun r => r.isEmpty) = true then asShape a k e else .error .badInput

/-- `enumerate(xs)` -/
def enum {α : Type} (xs : List α) : List (Nat × α) := List.zip (List.range xs.length) xs

/-- an int passed where the signature table declares a non-negative int (kind N): a negative value violates the
    declared kind (`badInput`) -/
def toNatE (i : Int) : Except Err Nat := if 0 ≤ i then .ok i.toNat else .error .badInput

/-- `m[i, :]`: row `i` of a 2-D array (`IndexError`) -/
def rowI (m : List (List K)) (i : Nat) : Except Err (List K) :=
  match m[i]? with
  | some r => .ok r
  | none => .error .badInput

/-- a 2-D array passed where the signature table declares a `2 × 2` array (kind M22) -/
def asM22 (m : List (List K)) : Except Err (List (List K)) :=
  match m with
  | [[_, _], [_, _]] => .ok m
  | _ => .error .badInput

/-- `np.repeat(m, n, axis=1)`: every column `n` times in a row -/
def repeatCols (m : List (List K)) (n : Nat) : List (List K) := m.map fun r => r.flatMap fun x => List.replicate n x
/-! ### phase 4 (pyclassify): decision logic of the triangle-triangle intersection -/

/-- `np.sign(x)` of a float: `-1.0`, `0.0` or `1.0` -/
def sign (x : K) : K := if 0 < x then 1 else if x < 0 then -1 else 0

/-- the elements of the Python list `intersections` as object references: the element at position `i` IS
    `intersections[i]` (`pos = some i`) -/
def refsFrom : List (Model.Classify.Intersection K) → Nat → List (Model.Walk.WNode K)
  | [], _ => []
  | x :: xs, i => { pos := some i, val := x } :: refsFrom xs (i + 1)

def refs (l : List (Model.Classify.Intersection K)) : List (Model.Walk.WNode K) := refsFrom l 0

/-- a new `Intersection(...)` object: it is none of the elements of `intersections` -/
def newRef (x : Model.Classify.Intersection K) : Model.Walk.WNode K := { pos := none, val := x }

/-- `node in unused` for a list `unused` of elements of `intersections` kept as the list of their positions (no `__eq__` on
    `Intersection`: membership is identity); a new object is never in it -/
def refIn (n : Model.Walk.WNode K) (unused : List Nat) : Bool :=
  match n.pos with
  | some i => unused.contains i
  | none => false

/-- `all_types.pop()` of a set of classifications, modelled for a ONE-element set only (the element); for any other size
    the popped element is arbitrary (not modelled: `badInput`) -/
def setPop1 (s : List Model.Classify.Cls) : Except Err (Option Model.Classify.Cls) :=
  match s with
  | [c] => .ok (some c)
  | _ => .error .badInput

/-- `unused.remove(node)` (only reached after `node in unused`; `ValueError` otherwise) -/
def refRemove (n : Model.Walk.WNode K) (unused : List Nat) : Except Err (List Nat) :=
  match n.pos with
  | some i => if unused.contains i then .ok (unused.erase i) else .error .valueError
  | none => .error .valueError

end Rt
"""

LEAN_KEYWORDS = {"end", "at", "from", "then", "else", "do", "open", "show", "have", "fun", "match", "with",
                 "in", "if", "let", "def", "theorem", "by", "where", "import", "namespace", "section",
                 "variable", "universe", "instance", "class", "structure", "inductive", "return", "for",
                 "mut", "using", "calc", "suffices", "obtain", "deriving", "extends", "Type", "Prop", "Sort",
                 "e", "K", "sqrt", "Model", "Rt", "Err", "Pt", "some", "none", "true", "false", "id", "decide",
                 "List", "Except", "Option", "Nat", "Bool", "Src", "Py", "BezierVerif"}
# a local variable must not capture a generated global either
LEAN_KEYWORDS |= {fn for _, fn, _ in SIGS} | {fn for _, fn in ABSTRACT}

# phase 4 (pypipeline): loops with `break` (appended to the runtime text; nothing above is changed)
RUNTIME = RUNTIME[:RUNTIME.rindex("end Rt")] + """\
/-! ### phase 4 (pypipeline): loops with `break` -/

/-- what one iteration of a loop with `break` answers: `return r`, `break` with the state, or go on with the state -/
inductive Step (ρ σ : Type) where
  | ret (r : ρ)
  | brk (s : σ)
  | next (s : σ)

/-- `for x in xs:` with early `return` and `break`: `Sum.inl r` (the function returns `r`) or `Sum.inr state` (the loop
    was left by `break` or ran out; the statements after the loop follow) -/
def loopE {α σ ρ : Type} (xs : List α) (init : σ) (step : σ → α → Step ρ σ) : ρ ⊕ σ :=
  match xs with
  | [] => .inr init
  | x :: xs =>
    match step init x with
    | .ret r => .inl r
    | .brk s => .inr s
    | .next s => loopE xs s step

/-- the same where the step can raise -/
def loopM {α σ ρ : Type} (xs : List α) (init : σ) (step : σ → α → Except Err (Step ρ σ)) : Except Err (ρ ⊕ σ) :=
  match xs with
  | [] => .ok (.inr init)
  | x :: xs =>
    bind (step init x) fun res =>
      match res with
      | .ret r => .ok (.inl r)
      | .brk s => .ok (.inr s)
      | .next s => loopM xs s step

/-- a `SubdividedCurve` object with its four slots (kind OSUB; `end` is `stop`) -/
structure PySub (κ : Type) where
  nodes : List (List κ)
  original_nodes : List (List κ)
  start : κ
  stop : κ

/-- a `Linearization` object with its four slots (kind LIN) -/
structure PyLin (κ : Type) where
  curve : PySub κ
  error : κ
  start_node : List κ
  end_node : List κ

/-- a candidate of the subdivision process: a `SubdividedCurve` or a `Linearization` object (kind SHAPE) -/
inductive PyShape (κ : Type) where
  | sub (c : PySub κ)
  | lin (l : PyLin κ)

/-- `x.__class__ is Linearization` -/
def PyShape.isLin {κ : Type} : PyShape κ → Bool
  | .sub _ => false
  | .lin _ => true

/-- a slot of `Linearization` read from a candidate (`AttributeError` on a `SubdividedCurve`) -/
def PyShape.asLin {κ : Type} : PyShape κ → Except Err (PyLin κ)
  | .sub _ => .error .badInput
  | .lin l => .ok l

/-- a slot of `SubdividedCurve` read from a candidate (`AttributeError` on a `Linearization`) -/
def PyShape.asSub {κ : Type} : PyShape κ → Except Err (PySub κ)
  | .sub c => .ok c
  | .lin _ => .error .badInput

/-- a value that may be NaN (`np.nan`) used as a number: NaN is outside the number type `K` -/
def unwrapNaN {α : Type} (x : Option α) : Except Err α :=
  match x with
  | some v => .ok v
  | none => .error .badInput

/-- `v.reshape((n, 1), order="F")` of a 1-D array: it must have `n` entries (`ValueError`) -/
def reshapeCol (n : Nat) (v : List K) : Except Err (List K) :=
  if v.length = n then .ok v else .error .valueError

/-- `np.array(pairs, order="C").T` of a non-empty list of pairs: the `2 × N` array of first / second entries -/
def pairsT (l : List (K × K)) : List (List K) := [l.map (·.1), l.map (·.2)]

/-- `m.ravel(order="F")` of a 2-D array: column after column -/
def ravelF (m : List (List K)) : List K := (Model.transpose m).flatten

end Rt
"""
# ------------------------------------------------------------------ phase 4 (pyalgebraic): hazmat/algebraic_intersection.py
# TRUSTED additions of this phase
#  * parameter kind VW: a 1-D array (List K) that the function may overwrite in place (`coeffs /= l2_norm`): the new
#    contents are the value of the variable from then on (and what `return coeffs` delivers); that the CALLER's array
#    is changed as well is a side effect that is NOT modelled - a translated call site must pass a fresh temporary
#    (an argument that is a plain variable is refused).
#  * shims of the pure-Python configuration: `bezier._curve_helpers` etc. bind the hazmat modules.
#  * external numerics called by the translated functions are explicit parameters of the generated definitions
#    (nothing is assumed about them): `np.linalg.det` -> `np_linalg_det : List (List K) → K`,
#    `numpy.polynomial.polynomial.polyfit(x, y, deg)` -> `polyfit : List K → List K → Nat → List K`, `np.sqrt` -> `sqrt`.
#  * module constants that are 1-D array literals (`_CHEB7 = np.asfortranarray([float.fromhex(..), ..])`) are emitted
#    as `<module>.<NAME without leading _> : List K` with the exact binary64 values; a list comprehension over such a
#    constant is unrolled (like a loop over a literal tuple).
#  * meaning of the new primitives: see RUNTIME_PYALGEBRAIC; unpacking a 1-D array into n names is `Rt.unpackN`
#    (`ValueError` unless it has exactly n entries); `2-row array - np.asfortranarray([[a], [b]])` subtracts `a` from
#    row 0 and `b` from row 1 (NumPy broadcasting of a 2 x 1 column against a 2 x N array); `v op s` / `s op v` of a
#    1-D array and a scalar acts entry by entry; `np.zeros(v.shape)` is as many zeros as `v` has entries; `np.zeros((a, b))`
#    is the a x b zero array; `x[r0:r1, c0:c1] = e` (x created in the function) requires e of exactly that shape
#    (`badInput` otherwise: broadcasting of e is not modelled); `x[:, lo:hi] *= c` scales those columns.
#  * further statements / expressions of this phase (each refused outside the stated form):
#      `x = None` + `if x is None:` / `is not None` (a maybe-None variable; inside the other arm it is a plain value),
#      `break` in a `for` (not together with `return` / `raise` in the same loop) -> `Rt.forB` / `Rt.forBM`,
#      `while test(x): x = e(x)` for ONE 1-D array x -> `Rt.whileA` (merge: renamed, `Rt.whileM` is the pycurve loop) with fuel `len(x) + 1` (`Err.recursion` beyond: an answer
#      the code cannot give, so the equality theorem shows the fuel suffices),
#      `range(a, -1, -1)` (a, .., 0), `range(i + 1, n)`, truth value of a Python int, `[c] * n` (list repetition, as a 1-D
#      array; any other arithmetic with a list LITERAL is refused), `v[i]`, `v[lo:hi]`, `v[::-1]`, `-v`, `v[i] op= c`,
#      `x[i, j] = c` / `x[i, j]` (Python index conventions, `IndexError` = `badInput`), `x[i, :] = v`,
#      `x.flat[start::step] = c` (row-major positions), `np.empty((0,))`, `np.empty((d, 0))`, `np.hstack([a, b])`,
#      1-D COMPLEX arrays (kind VC = List (K x K), entries (re, im)): `.real`, `.imag`, `z + c`, `c + z`, `z / w`
#      (textbook formula `Rt.cdiv`), `np.abs(z)` = `sqrt (re*re + im*im)` with the abstract `sqrt`, a real array where a complex
#      one is expected is embedded with imaginary part 0; boolean arrays: `v < c`, `c < v`, `a & b`, `x[mask]`;
#      a module constant naming an enum member of another module (`_DISJOINT`), comparison of enum members by their integers;
#      `import <external module>` inside a function and `_f = <external module>.<function>` (a local name for an ABSTRACT
#      function, bound once); `return None, 0, 0` next to `return x, degree, n`: an integer CONSTANT in a tuple position where
#      another `return` delivers a Python int is that int.
MODULES.update({
    "bezier._curve_helpers": "curve_helpers",                  # shims, pure-Python configuration
    "bezier._geometric_intersection": "geometric_intersection",
    "bezier._intersection_helpers": "intersection_helpers",
    "bezier.hazmat.algebraic_intersection": "algebraic_intersection",
    "numpy.polynomial.polynomial": "numpy.polynomial",         # external: only ABSTRACT callees
})
ABSTRACT.update({
    ("algebraic_intersection", "intersect_curves"): (["MN", "MN"], "MN", True),
    ("numpy", "np_linalg_det"): (["MN"], "S", False),
    ("numpy", "np_linalg_eigvals"): (["MN"], "VC", False),
    ("numpy.polynomial", "polyfit"): (["V", "V", "N"], "V", False),
    ("numpy.polynomial", "polyroots"): (["V"], "VC", False),
    ("numpy.polynomial", "polyval"): (["V", "V"], "V", False),
    ("numpy.polynomial", "polyder"): (["V"], "V", False),
    ("numpy.polynomial", "polycompanion"): (["V"], "MN", False),
    ("numpy", "np_linalg_matrix_rank"): (["MN"], "N", False),
    ("curve_helpers", "full_reduce"): (["MN"], "MN", True),
    ("scipy.linalg.lapack", "dgecon"): (["MN", "S"], ("tuple", ("S", "I")), False),
})
LEAN_KEYWORDS |= {fn for _, fn in ABSTRACT}

# external modules whose `import` inside a function body is skipped (an import has no effect on the values computed), and
# whose functions may be bound to a local name (`_dgecon = scipy.linalg.lapack.dgecon`): calls through that name are calls
# of the ABSTRACT function
EXTERNAL_IMPORTS = {"scipy.linalg.lapack"}

RUNTIME_PYALGEBRAIC = """\

/-! ### phase 4 (pyalgebraic): unpacking, blocks of a 2-D array -/
namespace Rt

/-- `a, b = v` for a 1-D array `v` (`ValueError` unless it has exactly two entries) -/
def unpack2 (v : List K) : Except Err (K × K) :=
  match v with
  | [a, b] => .ok (a, b)
  | _ => .error .valueError

/-- `a, b, c = v` -/
def unpack3 (v : List K) : Except Err (K × K × K) :=
  match v with
  | [a, b, c] => .ok (a, b, c)
  | _ => .error .valueError

/-- `a, b, c, d = v` -/
def unpack4 (v : List K) : Except Err (K × K × K × K) :=
  match v with
  | [a, b, c, d] => .ok (a, b, c, d)
  | _ => .error .valueError

/-- `x[:, lo:hi] op= c` row by row: the entries of the stretch are replaced by their images under `f` -/
def mapCols (f : K → K) (m : List (List K)) (lo hi : Option Int) : List (List K) :=
  m.map fun r =>
    let a := match lo with
      | none => 0
      | some i => sliceIdx r.length i
    let b := match hi with
      | none => r.length
      | some i => sliceIdx r.length i
    r.take a ++ ((r.drop a).take (b - a)).map f ++ r.drop (max a b)

/-- `x[rlo:rhi, clo:chi] = e`: `e` must have exactly the shape of the replaced block (`badInput`; broadcasting of `e`
    is not modelled) -/
def setBlock (m : List (List K)) (rlo rhi clo chi : Option Int) (e : List (List K)) : Except Err (List (List K)) :=
  let a := match rlo with
    | none => 0
    | some i => sliceIdx m.length i
  let b := match rhi with
    | none => m.length
    | some i => sliceIdx m.length i
  if e.length = b - a then
    bind (setCols ((m.drop a).take (b - a)) clo chi e) fun mid => .ok (m.take a ++ mid ++ m.drop (max a b))
  else .error .badInput

/-- `for x in xs:` with `break`: the step answers `Sum.inl state` (leave the loop) or `Sum.inr state` (go on) -/
def forB {α σ : Type} (xs : List α) (init : σ) (step : σ → α → σ ⊕ σ) : σ :=
  match xs with
  | [] => init
  | x :: xs =>
    match step init x with
    | .inl s => s
    | .inr s => forB xs s step

/-- the same where the step can raise -/
def forBM {α σ : Type} (xs : List α) (init : σ) (step : σ → α → Except Err (σ ⊕ σ)) : Except Err σ :=
  match xs with
  | [] => .ok init
  | x :: xs =>
    bind (step init x) fun res =>
      match res with
      | .inl s => .ok s
      | .inr s => forBM xs s step

/-- `x.flat[start::step] = c` for a 2-D array (rows of the length of the first row): the entries at the row-major
    positions `start, start + step, ...` (`ValueError` for `step = 0`) -/
def setFlat (m : List (List K)) (start step : Nat) (c : K) : Except Err (List (List K)) :=
  if step = 0 then .error .valueError
  else
    let nc := (m.headD []).length
    .ok (m.mapIdx fun r row => row.mapIdx fun j x =>
      if start ≤ r * nc + j ∧ (r * nc + j - start) % step = 0 then c else x)

/-- `x[i, :] = v`: `v` must have as many entries as the row (`ValueError`; broadcasting of a one-entry `v` is not
    modelled), `IndexError` (`badInput`) without such a row -/
def setRow (m : List (List K)) (i : Nat) (v : List K) : Except Err (List (List K)) :=
  match m[i]? with
  | none => .error .badInput
  | some r => if r.length = v.length then .ok (m.set i v) else .error .valueError

/-- `while test(s): s = step(s)` with at most `fuel` rounds (`Err.recursion` when they do not suffice) -/
def whileA {σ : Type} (fuel : Nat) (s : σ) (test : σ → Except Err Bool) (step : σ → Except Err σ) : Except Err σ :=
  match fuel with
  | 0 => .error .recursion
  | f + 1 => bind (test s) fun c => if c then bind (step s) fun s' => whileA f s' test step else .ok s

/-- complex division `(a + bi) / (c + di)` by the textbook formula (exact arithmetic; NumPy's scaling against overflow is
    a matter of rounding) -/
def cdiv (z w : K × K) : K × K :=
  let n := w.1 * w.1 + w.2 * w.2
  ((z.1 * w.1 + z.2 * w.2) / n, (z.2 * w.1 - z.1 * w.2) / n)

/-- elementwise operation of two 1-D complex arrays of equal length (anything else `ValueError`) -/
def czip (f : K × K → K × K → K × K) (a b : List (K × K)) : Except Err (List (K × K)) :=
  if a.length = b.length then .ok (List.zipWith f a b) else .error .valueError

/-- `np.argmin(v)`: index of the first minimum (`ValueError` on an empty array) -/
def argmin (v : List K) : Except Err Nat :=
  match v with
  | [] => .error .valueError
  | x :: rest =>
    .ok (rest.foldl (fun (st : Nat × K × Nat) y =>
      if y < st.2.1 then (st.2.2, y, st.2.2 + 1) else (st.1, st.2.1, st.2.2 + 1)) (0, x, 1)).1

/-- `a & b` of two boolean arrays (equal lengths; anything else `ValueError`: broadcasting is not modelled) -/
def band (a b : List Bool) : Except Err (List Bool) :=
  if a.length = b.length then .ok (List.zipWith (fun x y => x && y) a b) else .error .valueError

/-- `x[mask]` with a boolean array of the same length (`IndexError`: `badInput`) -/
def mask {α : Type} (x : List α) (m : List Bool) : Except Err (List α) :=
  if x.length = m.length then .ok (((x.zip m).filter fun p => p.2).map fun p => p.1) else .error .badInput

/-- position of the Python index `i` in a sequence of length `n` (negative indices count from the end) -/
def pyIdx (n : Nat) (i : Int) : Option Nat :=
  if 0 ≤ i then (if i.toNat < n then some i.toNat else none)
  else if -(n : Int) ≤ i then some ((n : Int) + i).toNat
  else none

/-- `x[i, j] = c` for a 2-D array created in the function (`IndexError`: `badInput`) -/
def setCell (m : List (List K)) (i j : Int) (c : K) : Except Err (List (List K)) :=
  match pyIdx m.length i with
  | none => .error .badInput
  | some r =>
    match m[r]? with
    | none => .error .badInput
    | some row =>
      match pyIdx row.length j with
      | none => .error .badInput
      | some k => .ok (m.set r (row.set k c))

/-- `x[i, j]` of a 2-D array (`IndexError`: `badInput`) -/
def getCell (m : List (List K)) (i j : Int) : Except Err K :=
  match pyIdx m.length i with
  | none => .error .badInput
  | some r =>
    match m[r]? with
    | none => .error .badInput
    | some row => idxI row j

/-- `v[i] op= c` for a 1-D array created in the function (`IndexError`: `badInput`) -/
def updIdx (f : K → K) (v : List K) (i : Nat) : Except Err (List K) :=
  match v[i]? with
  | some x => .ok (v.set i (f x))
  | none => .error .badInput

end Rt
"""
RUNTIME += RUNTIME_PYALGEBRAIC


class Problem(Exception):
    pass


def lean_fn_name(mod, fn):
    first = next(m for m, f, _ in SIGS if f == fn)
    fn = fn.replace(".__call__", ".call")
    return fn if first == mod else "%s.%s" % (mod, fn)


def lname(n):
    if n == "_":
        return "_"
    if n in LEAN_KEYWORDS or n in CLASS_NAMES:
        return n + "_"
    return n


CLASS_NAMES = set()      # names of the plain classes of the parsed modules (enum holders)


# ------------------------------------------------------------------ kinds
def opt(k, why):
    return ("opt", k, why)


def is_opt(k):
    return isinstance(k, tuple) and k[0] == "opt"


def is_tuple(k):
    return isinstance(k, tuple) and k[0] == "tuple"


def is_list(k):
    return isinstance(k, tuple) and k[0] == "list"


def is_fn(k):
    """phase 4 (pypipeline): ("fn", parameter kinds, result kind, can raise?) - a callable handed in as an argument"""
    return isinstance(k, tuple) and k[0] == "fn"


def kstr(k):
    """kind as written in the doc comment of a generated definition"""
    if isinstance(k, str):
        return k
    if k[0] == "mlist":
        return "L!(%s)" % kstr(k[1])
    if k[0] == "list":
        return "L(%s)" % ("?" if k[1] is None else kstr(k[1]))
    if k[0] == "tuple":
        return "(" + ",".join(kstr(c) for c in k[1]) + ")"
    if k[0] == "fn":            # phase 4 (pypipeline): a callable parameter
        return "FN(%s->%s%s)" % (",".join(kstr(c) for c in k[1]), kstr(k[2]), "!" if k[3] else "")
    if k[0] == "opt":
        return "%s?" % kstr(k[1])
    return repr(k)


def lty(k):
    base = {"S": "K", "B": "Bool", "E": "Nat", "P": "Pt K", "V": "List K", "VB": "List Bool",
            "M22": "List (List K)", "M2N": "List (List K)", "MN": "List (List K)",
            "I": "Int", "N": "Nat", "X": "Rt.Ext K", "SUB": "Model.SubCurve K", "C": "List K", "S1": "K",
            "EV": "Model.NewtonEval K", "LIN": "Rt.PyLin K", "OSUB": "Rt.PySub K", "SHAPE": "Rt.PyShape K",
            "CLS": "Option Model.Classify.Cls", "INT": "Model.Classify.Intersection K",
            "REF": "Model.Walk.WNode K", "OL": "List (Model.Classify.Intersection K)", "POS": "Nat",
            "CSET": "List Model.Classify.Cls"}
    base["MC"] = "List (List K)"          # phase 4 (pytri)
    if k == "MO":                      # phase 4 (pycurve): a 2-D `np.empty` array that is being filled
        return "List (List (Option K))"
    if k == "R":                       # phase 4 (pycurve): a 1 x n array (row vector)
        return "List K"
    base["VW"] = "List K"              # phase 4 (pyalgebraic)
    base["VC"] = "List (K × K)"        # phase 4 (pyalgebraic): 1-D complex array, entries (re, im)
    base["unit"] = "Unit"              # phase 4 (pyalgebraic): a function every `return` of which delivers None
    if isinstance(k, str) and k in base:
        return base[k]
    if isinstance(k, tuple) and k[0] == "mlist":
        return lty(("list", k[1]))
    if is_list(k):
        if k[1] is None:
            raise Problem("a list whose element kind is never determined")
        return "List %s" % atom(lty(k[1]))
    if is_opt(k):
        return "Option %s" % atom(lty(k[1]))
    if is_tuple(k):
        return " × ".join(("(%s)" % lty(c)) if is_tuple(c) else lty(c) for c in k[1])
    if is_fn(k):                # phase 4 (pypipeline)
        return " → ".join([atom(lty(a)) for a in k[1]] + [("Except Err %s" % atom(lty(k[2]))) if k[3] else lty(k[2])])
    raise Problem("result position is always None / nan: no Lean type (%r)" % (k,))


def unify(a, b):
    if a == b:
        return a
    if {a, b} == {"S", "X"}:
        return "X"
    if {a, b} == {"N", "I"}:
        return "I"
    if {a, b} == {"MN", "M22"}:         # phase 4 (pypipeline): a 2 x 2 array where any 2-D array may come
        return "MN"
    if "SHAPE" in (a, b) and {a, b} <= {"SHAPE", "LIN", "OSUB"}:      # an object where a candidate may come
        return "SHAPE"
    if {a, b} == {"REF", "INT"}:          # phase 4 (pyclassify): a new Intersection object where references are returned
        return "REF"
    if {a, b} == {"CLS", "none"}:         # a classification or None: `Option Cls` already has the value None
        return "CLS"
    if {a, b} == {"P", "V"}:           # phase 4 (pyalgebraic): a 2-entry array literal next to longer ones
        return "V"
    if {a, b} == {"V", "VC"}:          # phase 4 (pyalgebraic): a real array where the other arm has a complex one
        return "VC"
    if is_list(a) and is_list(b):
        if a[1] is None or b[1] is None:
            return a if b[1] is None else b
        return ("list", unify(a[1], b[1]))
    if a in ("none", "nan"):
        a, b = b, a
    if b == "none":
        if a == "nan":
            return opt("S", "nan")
        if is_opt(a):
            return a
        return opt(a, "none")
    if b == "nan":
        if a == "S":
            return opt("S", "nan")
        if is_opt(a) and a[1] == "S":
            return opt("S", "nan")
        raise Problem("np.nan and %r in the same result position" % (a,))
    if is_opt(a) and not is_opt(b):
        return opt(unify(a[1], b), a[2])
    if is_opt(b) and not is_opt(a):
        return opt(unify(a, b[1]), b[2])
    if is_opt(a) and is_opt(b):
        return opt(unify(a[1], b[1]), "nan" if "nan" in (a[2], b[2]) else "none")
    if is_tuple(a) and is_tuple(b) and len(a[1]) == len(b[1]):
        return ("tuple", tuple(unify(x, y) for x, y in zip(a[1], b[1])))
    raise Problem("results of different kinds: %r and %r" % (a, b))


def atom(code):
    """parenthesise unless obviously atomic"""
    c = code.strip()
    if c and (c.replace("_", "a").replace(".", "a").replace("'", "a").isalnum()) and not c[0].isdigit():
        return c
    if c.startswith("(") and c.endswith(")"):
        depth = 0
        for i, ch in enumerate(c):
            depth += ch == "("
            depth -= ch == ")"
            if depth == 0 and i < len(c) - 1:
                break
        else:
            return c
    if c.startswith("[") and c.endswith("]") and c.count("[") == 1:
        return c
    return "(" + c + ")"


class Val:
    def __init__(self, kind, code, comps=None, prop=None, cells=None, rows=None, intval=None, inplace=False):
        self.intval = intval      # S: the value of an integer-typed constant expression (Python int)
        self.unit = False         # S: a NumPy array with a single entry (all of its dimensions are 1)
        self.owned = False        # a fresh array (np.zeros): the variable it is bound to may be updated with `op=`
        self.wide = False         # MN: a 3-D array d x 1 x k (one parameter value), indexed with three subscripts
        self.inplace = inplace    # an array that the function overwrites in place (must not be aliased)
        self.kind = kind
        self.code = code          # Lean term of type lty(kind)
        self.comps = comps        # tuple: [Val]; P: [code, code]
        self.prop = prop          # B: the same condition as a Prop (comparisons and their connectives)
        self.cells = cells        # M22: [[code, code], [code, code]]
        self.rows = rows          # M2N: [code, code]


def lit(x):
    x = Fr(x)
    if x < 0:
        return "(-%s : K)" % lit(-x)
    if x.denominator == 1:
        n = x.numerator
        if n in (0, 1):
            return "(%d : K)" % n
        return "((%d : Nat) : K)" % n
    return "(Model.q %d %d : K)" % (x.numerator, x.denominator)


# ------------------------------------------------------------------ IR of a function body
class Leaf:                       # `return val`
    def __init__(self, val):
        self.val = val


class Yield:                      # value of an `if` arm (phi) / of a short-circuit operand
    def __init__(self, code):
        self.code = code


class Let:
    def __init__(self, pat, code, body):
        self.pat, self.code, self.body = pat, code, body


class Bind:                       # match code with | .error e => .error e | .ok pat => body
    def __init__(self, pat, code, body):
        self.pat, self.code, self.body = pat, code, body


class MIf:                        # scrutinee of a Bind: `if cond then A else B` of type Except Err _
    def __init__(self, cond, then, els, ty):
        self.cond, self.then, self.els, self.ty = cond, then, els, ty


class Shape:                      # match code with | pat => body | _ => .error .badInput
    def __init__(self, code, pat, body):
        self.code, self.pat, self.body = code, pat, body


class Ite:
    def __init__(self, cond, then, els):
        self.cond, self.then, self.els = cond, then, els


class Phi:                        # (pat) := if cond then A else B ; body      (A, B end in Yield)
    def __init__(self, pat, cond, then, els, body, ty):
        self.pat, self.cond, self.then, self.els, self.body, self.ty = pat, cond, then, els, body, ty


class Fail:
    def __init__(self, err):
        self.err = err


class Next:                       # end of the body of a loop with early exit: continue with this state
    def __init__(self, code):
        self.code = code


class Brk(Next):                  # phase 4 (pypipeline): `break` - leave the loop with this state
    pass


class BrkA(Next):                  # phase 4 (pyalgebraic): `break`: leave the enclosing loop with this state
    pass


class WhileIR:                    # phase 4 (pyalgebraic): while test(x): x = step(x) ; rest   (x a 1-D array, fuel len(x) + 1)
    def __init__(self, var, init, test, step, rest):
        self.var, self.init, self.test, self.step, self.rest = var, init, test, step, rest


class MatchOpt:                   # phase 4 (pyalgebraic): match code with | none => then | some pat => els
    def __init__(self, code, then, pat, els):
        self.code, self.then, self.pat, self.els = code, then, pat, els


class Loop:
    """for target in iter: body ; rest.   state = the variables carried from one iteration to the next"""
    def __init__(self, it, target, spat, init, sty, body, rest, has_exit, r, res):
        self.it, self.target, self.spat, self.init, self.sty = it, target, spat, init, sty
        self.body, self.rest, self.has_exit, self.r, self.res = body, rest, has_exit, r, res


class P4While:                    # phase 4 (pycurve): `while cond: body ; rest` with an explicit bound `fuel`
    def __init__(self, cond, spat, init, sty, body, rest):
        self.cond, self.spat, self.init, self.sty, self.body, self.rest = cond, spat, init, sty, body, rest


def impure(ir):
    if isinstance(ir, WhileIR):           # phase 4 (pyalgebraic)
        return True
    if isinstance(ir, MatchOpt):          # phase 4 (pyalgebraic)
        return impure(ir.then) or impure(ir.els)
    if isinstance(ir, (Bind, Shape, Fail)):
        return True
    if isinstance(ir, (Leaf, Yield, Next)):
        return False
    if isinstance(ir, Loop):
        return impure(ir.body) or impure(ir.rest)
    if isinstance(ir, Let):
        return impure(ir.body)
    if isinstance(ir, Ite):
        return impure(ir.then) or impure(ir.els)
    if isinstance(ir, Phi):
        return impure(ir.then) or impure(ir.els) or impure(ir.body)
    if isinstance(ir, P4While):          # phase 4 (pycurve)
        return True
    raise AssertionError(ir)


def wrap(binds, ir):
    for kind, pat, code in reversed(binds):
        ir = Bind(pat, code, ir) if kind == "bind" else Let(pat, code, ir)
    return ir


# ------------------------------------------------------------------ module level
class Module:
    def __init__(self, name):
        self.name = name
        path = os.path.join(REPO, "src/python/bezier/hazmat", name + ".py")
        with open(path) as fh:
            self.tree = ast.parse(fh.read())
        self.funcs = {}
        self.aliases = {}      # local name -> module name (source file) or "numpy"
        self.consts = {}       # NAME -> ast expression (module level)
        self.classes = {}      # Class -> {ATTR: int}
        self.methods = {}      # (Class, method) -> FunctionDef
        for node in self.tree.body:
            if isinstance(node, ast.FunctionDef):
                self.funcs[node.name] = node
            elif isinstance(node, ast.Import):
                for a in node.names:
                    if a.name in ("numpy", "bisect"):
                        self.aliases[a.asname or a.name] = a.name
            elif isinstance(node, ast.ImportFrom) and node.level == 0:
                for a in node.names:
                    full = "%s.%s" % (node.module, a.name)
                    if full in MODULES:
                        self.aliases[a.asname or a.name] = MODULES[full]
            elif isinstance(node, ast.Assign) and len(node.targets) == 1 and isinstance(node.targets[0], ast.Name):
                self.consts[node.targets[0].id] = node.value
            elif isinstance(node, ast.ClassDef):
                attrs = {}
                for st in node.body:
                    if isinstance(st, ast.Assign) and len(st.targets) == 1 and isinstance(st.targets[0], ast.Name) \
                            and isinstance(st.value, ast.Constant) and isinstance(st.value.value, int) \
                            and not isinstance(st.value.value, bool):
                        attrs[st.targets[0].id] = st.value.value
                self.classes[node.name] = attrs
                CLASS_NAMES.add(node.name)
                for st in node.body:
                    if isinstance(st, ast.FunctionDef):
                        self.methods[(node.name, st.name)] = st


class Translated:
    def __init__(self, name, params, kinds, ret, monadic, uses_sqrt, text, defaults=(), mut=(), ret_none=False):
        self.name, self.params, self.kinds, self.ret = name, params, kinds, ret
        self.monadic, self.uses_sqrt, self.text = monadic, uses_sqrt, text   # uses_sqrt: the abstract parameters, in order
        self.defaults = dict(defaults)     # parameter -> exact default value
        self.mut = list(mut)               # positions of the list parameters the function updates in place
        self.ret_none = ret_none           # every `return` delivers None


class Translator:
    def __init__(self):
        self.modules = {}
        self.done = {}           # (mod, fn) -> Translated | None
        self.order = []
        self.problems = []
        self.enums = {}          # "Class.ATTR" -> int
        self.tables = {}         # phase 4: Lean name -> (type, term, source name) of module-level array constants
        self.sigs = {(m, f): k for m, f, k in SIGS}
        self.stack = []

    def module(self, name):
        if name not in self.modules:
            self.modules[name] = Module(name)
        return self.modules[name]

    # -------------------------------------------------------------- functions
    def function(self, mod, fn):
        key = (mod, fn)
        if key in self.done:
            return self.done[key]
        if key in self.stack:
            raise Problem("recursive call of %s" % fn)
        self.stack.append(key)
        try:
            tr = FunctionTranslator(self, mod, fn).run()
            self.done[key] = tr
            self.order.append(key)
        except Problem as exc:
            self.done[key] = None
            self.order.append(key)
            self.problems.append("%s: %s" % (fn, exc))
        except (OSError, SyntaxError) as exc:
            self.done[key] = None
            self.order.append(key)
            self.problems.append("%s: cannot read / parse %s.py: %r" % (fn, mod, exc))
        except Exception as exc:  # noqa  (a construct that trips the translator is a problem, not a crash)
            self.done[key] = None
            self.order.append(key)
            self.problems.append("%s: translator internal error %r" % (fn, exc))
        finally:
            self.stack.pop()
        return self.done[key]


def contains_exit(stmts):
    for st in stmts:
        for node in ast.walk(st):
            if isinstance(node, (ast.Return, ast.Raise, ast.Break, ast.Continue)):
                return True
    return False


def has_loop_jump(stmts, kinds=(ast.Break, ast.Continue)):
    """phase 4 (pypipeline): a `break` / `continue` that belongs to the loop whose body `stmts` is (nested loops excluded)"""
    for st in stmts:
        if isinstance(st, kinds):
            return True
        if isinstance(st, ast.If) and (has_loop_jump(st.body, kinds) or has_loop_jump(st.orelse, kinds)):
            return True
        if isinstance(st, (ast.With, ast.Try, ast.While)):
            return True                      # refused elsewhere
    return False
def contains_exit_alg(stmts):     # merge: `contains_exit` as pyalgebraic knows it (a `break` is handled separately there)
    return any(isinstance(node, (ast.Return, ast.Raise)) for st in stmts for node in ast.walk(st))


def contains_break(stmts):        # phase 4 (pyalgebraic)
    return any(isinstance(node, ast.Break) for st in stmts for node in ast.walk(st))


def assigned_names(stmts, env):
    """names (re-)bound somewhere in the block, in order of first occurrence"""
    out = []

    def targets(t):
        if isinstance(t, ast.Name):
            if t.id != "_" and t.id not in out:
                out.append(t.id)
        elif isinstance(t, (ast.Tuple, ast.List)):
            for e in t.elts:
                targets(e)
        elif isinstance(t, ast.Subscript) and isinstance(t.value, ast.Name):
            targets(t.value)                       # x[...] = e  re-binds x
        else:
            raise Problem("assignment target %s" % ast.dump(t)[:60])

    def walk(block):
        for st in block:
            if isinstance(st, ast.Assign):
                for t in st.targets:
                    targets(t)
            elif isinstance(st, ast.AugAssign):
                targets(st.target)
            elif isinstance(st, ast.If):
                walk(st.body)
                walk(st.orelse)
            elif isinstance(st, ast.For):
                targets(st.target)
                walk(st.body)
                walk(st.orelse)
            elif isinstance(st, ast.Expr) and isinstance(st.value, ast.Call):
                # x.append(e) and f(.., x, ..) re-bind a list variable x
                c = st.value
                if isinstance(c.func, ast.Attribute) and isinstance(c.func.value, ast.Name) and c.func.attr == "extend":
                    targets(c.func.value)          # phase 4 (pytri)
                if isinstance(c.func, ast.Attribute) and isinstance(c.func.value, ast.Name) and \
                        c.func.attr in ("append", "remove"):
                    targets(c.func.value)
                for a in c.args:
                    if isinstance(a, ast.Name) and a.id in env and is_list(env[a.id].kind) and a.id not in out:
                        out.append(a.id)
            elif isinstance(st, (ast.AnnAssign, ast.While, ast.With, ast.Try)):
                raise Problem("statement %s (line %d)" % (type(st).__name__, st.lineno))
    walk(stmts)
    return out


def definitely_assigned(stmts):
    out = set()
    for st in stmts:
        if isinstance(st, ast.Assign):
            for t in st.targets:
                for n in ast.walk(t):
                    if isinstance(n, ast.Name):
                        out.add(n.id)
        elif isinstance(st, ast.AugAssign):
            for n in ast.walk(st.target):
                if isinstance(n, ast.Name):
                    out.add(n.id)
        elif isinstance(st, ast.If):
            out |= definitely_assigned(st.body) & definitely_assigned(st.orelse)
    return out


class FunctionTranslator:
    def __init__(self, tr, mod, fn):
        self.tr, self.modname, self.fn = tr, mod, fn
        self.mod = tr.module(mod)
        self.extra = []          # abstract parameters of the generated definition: "sqrt", untranslated callees
        self.ntmp = 0
        self.names = set()
        self.struct_used = set()
        self.locals_ = set()
        self.prealloc = {}       # name -> kind of an array created by np.empty (no value until overwritten)
        self.mut_params = []     # list parameters that are updated in place (their final value is returned)
        self.ro_lists = set()    # list parameters that are NOT declared mutable
        self.plain_rets = []
        self.guarded = set()     # shape entries already checked to be non-negative
        self.p4 = (mod, fn) in P4_KEYS      # phase 4 (pycurve): the additional handlers are active for these functions only

    def tmp(self):
        while True:
            self.ntmp += 1
            n = "t%d" % self.ntmp
            if n not in self.names:
                return n

    def run(self):
        self.fields = None
        if "." in self.fn:
            # a method `Class.method(self, ...)`: the generated definition takes the fields of the object (the
            # parameters of `__init__`, which must store each of them as `self.<name> = <name>` and do nothing else)
            # followed by the parameters of the method; `self.<name>` reads the field
            cls, meth = self.fn.split(".", 1)
            node = self.mod.methods.get((cls, meth))
            init = self.mod.methods.get((cls, "__init__"))
            if node is None or init is None:
                raise Problem("method not found in %s.py" % self.modname)
            if [ast.unparse(d_) for d_ in node.decorator_list] == ["classmethod"] and node.args.args \
                    and node.args.args[0].arg == "cls":
                # phase 4 (pypipeline): a class method: no object fields; `cls` is the class itself
                self.cls_name = cls
                node = ast.FunctionDef(name=node.name, args=ast.arguments(
                    posonlyargs=[], args=node.args.args[1:], vararg=node.args.vararg, kwonlyargs=node.args.kwonlyargs,
                    kw_defaults=node.args.kw_defaults, kwarg=node.args.kwarg, defaults=node.args.defaults),
                    body=node.body, decorator_list=[], returns=None, type_comment=None, lineno=node.lineno,
                    col_offset=node.col_offset, end_lineno=node.end_lineno, end_col_offset=node.end_col_offset)
                init = None
            ia = init.args if init is not None else None
            fields = [x.arg for x in ia.args][1:] if init is not None else None
            body = [st for st in init.body if not (isinstance(st, ast.Expr) and isinstance(st.value, ast.Constant))] \
                if init is not None else []
            cls_obj = init is not None and cls in OBJECTS       # phase 4: `__init__` of an OBJECTS class may have defaults
            ok = init is None or (len(body) == len(fields) and not (ia.vararg or ia.kwarg or ia.kwonlyargs
                                                                     or (ia.defaults and not cls_obj)))
            for st, f in zip(body, fields or []):
                ok = ok and isinstance(st, ast.Assign) and len(st.targets) == 1 and \
                    ast.unparse(st.targets[0]) == "self.%s" % f and ast.unparse(st.value) == f
            if init is not None and (not ok or not node.args.args or node.args.args[0].arg != "self"):
                raise Problem("__init__ does more than storing its parameters")
            self.fields = fields
        else:
            node = self.mod.funcs.get(self.fn)
        if node is None:
            raise Problem("function not found in %s.py" % self.modname)
        self.fn_node = node
        kinds = self.tr.sigs[(self.modname, self.fn)]
        a = node.args
        if a.vararg or a.kwarg or a.kwonlyargs or a.posonlyargs:
            raise Problem("unsupported parameter list")
        params = [x.arg for x in a.args]
        if self.fields is None and "." in self.fn:
            pass                                         # a class method (see above)
        elif self.fields is not None:
            if set(self.fields) & set(params[1:]):
                raise Problem("a field and a parameter of the method have the same name")
            params = self.fields + params[1:]
        if len(params) != len(kinds):
            raise Problem("has %d parameters, signature table says %d" % (len(params), len(kinds)))
        if node.decorator_list:
            raise Problem("decorated function")
        defaults = []
        for p, d in zip(params[len(params) - len(a.defaults):], a.defaults):
            v = self.const_eval(d)
            if v is None and isinstance(d, ast.Constant) and isinstance(d.value, bool):
                v = d.value                      # phase 4 (pyclassify): a bool default (`to_end=True`)
            if v is None:
                raise Problem("default value of parameter %s is not a numeric constant" % p)
            defaults.append((p, v))
        self.locals_ = set()
        for n in ast.walk(node):
            if isinstance(n, ast.Name):
                self.names.add(n.id)
                if not isinstance(n.ctx, ast.Load):
                    self.locals_.add(n.id)
            elif isinstance(n, ast.arg):
                self.names.add(n.arg)
                self.locals_.add(n.arg)
        for n in list(self.names):
            if lname(n) != n and lname(n) in self.names:
                raise Problem("names %s and %s would collide after renaming" % (n, lname(n)))
        env = {}
        shapes = []
        self.param_names = {lname(p) for p in params}
        for p, k in zip(params, kinds):
            lp = lname(p)
            if k == "M22":
                cells = [["%s_%d%d" % (lp, i, j) for j in range(2)] for i in range(2)]
                if set(cells[0] + cells[1]) & self.names:
                    raise Problem("a local name collides with the generated names %s_ij" % lp)
                env[p] = Val(k, lp, cells=cells)
                shapes.append((lp, "[[%s, %s], [%s, %s]]" % (cells[0][0], cells[0][1], cells[1][0], cells[1][1]),
                               cells[0] + cells[1]))
            elif k == "M2N":
                rows = ["%s_r0" % lp, "%s_r1" % lp]
                if set(rows) & self.names:
                    raise Problem("a local name collides with the generated names %s_r0/_r1" % lp)
                env[p] = Val(k, lp, rows=rows)
                shapes.append((lp, "[%s, %s]" % (rows[0], rows[1]), rows))
            elif isinstance(k, tuple) and k[0] == "mlist":
                env[p] = Val(("list", k[1]), lp)
                self.mut_params.append(p)
            elif k == "S1":
                env[p] = Val("S", lp)
                env[p].unit = True
            elif k == "VW":                   # phase 4 (pyalgebraic)
                env[p] = Val("V", lp)
                env[p].writable = True
            else:
                env[p] = Val(k, lp)
                if is_list(k):
                    self.ro_lists.add(p)
        body = list(node.body)
        self.ret_kinds = []
        ir = self.block(body, env, lambda e: self.leaf(Val("none", "none"), e, "end of the function"))
        for lp, pat, names in reversed(shapes):
            if self.struct_used & set(names):      # only parameters that are indexed here (callees check theirs)
                ir = Shape(lp, pat, ir)
        self.harmonize_int_returns(ir)           # phase 4 (pyalgebraic)
        ret = None
        for k in self.ret_kinds:
            ret = k if ret is None else unify(ret, k)
        if ret is None:
            raise Problem("no result")
        if (self.modname, self.fn) in RET_HINT:
            ret = unify(ret, RET_HINT[(self.modname, self.fn)])
        if ret == "none" and not self.mut_params and self.modname == "algebraic_intersection":        # phase 4 (pyalgebraic): called for its exceptions only
            ret = "unit"
        self.ret = ret
        rty = lty(ret)
        monadic = impure(ir)
        text = self.render(ir, monadic, 1)
        binders = []
        for x in self.extra:
            if x == "sqrt":
                binders.append("(sqrt : K → K)")
            elif x == "fuel":            # phase 4 (pycurve): bound of the `while` loops
                binders.append("(fuel : Nat)")
            elif x == "quad":            # phase 4 (pycurve): scipy.integrate.quad(f, a, b) -> (value, error estimate)
                binders.append("(quad : (K → Except Err K) → K → K → Except Err (K × K))")
            else:
                ak, ar, can_raise = ABSTRACT[x]
                if "." in x[1] or any(isinstance(k_, tuple) and k_[0] == "mlist" for k_ in ak):     # phase 4 (pypipeline)
                    binders.append("(%s : %s)" % (x[1].replace(".", "_"), abstract_lean_type(ak, ar, can_raise)))
                    continue
                binders.append("(%s : %s → %s)" % (x[1], " → ".join(atom(lty(k)) for k in ak),
                                                  ("Except Err %s" % atom(lty(ar))) if can_raise else lty(ar)))
        i = 0
        while i < len(params):            # group consecutive parameters of the same kind
            j = i
            while j + 1 < len(params) and kinds[j + 1] == kinds[i]:
                j += 1
            binders.append("(%s : %s)" % (" ".join(lname(p) for p in params[i:j + 1]), lty(kinds[i])))
            i = j + 1
        head = "/-- `%s.%s(%s)` (hazmat/%s.py), parameter kinds %s -/\ndef %s %s : %s :=\n" % (
            self.modname, self.fn, ", ".join(params), self.modname, " ".join(kstr(k) for k in kinds), lean_fn_name(self.modname, self.fn), " ".join(binders),
            ("Except Err %s" % atom(rty)) if monadic else rty)
        dtext = "".join("/-- default value of parameter `%s` of `%s` -/\ndef %s_default_%s : Rat := %s\n\n"
                        % (p, self.fn, self.fn, p, "(%d : Rat) / %d" % (v.numerator, v.denominator))
                        for p, v in defaults if not isinstance(v, bool))
        dtext += "".join("/-- default value of parameter `%s` of `%s` -/\ndef %s_default_%s : Bool := %s\n\n"
                         % (p, self.fn, self.fn, p, "true" if v else "false") for p, v in defaults if isinstance(v, bool))
        return Translated(self.fn, params, kinds, ret, monadic, list(self.extra), dtext + head + text, defaults=defaults,
                          mut=[i for i, p in enumerate(params) if p in self.mut_params],
                          ret_none=all(kd == "none" for kd in self.plain_rets))

    def leaf(self, val, env, where):
        """`return val`: with mutable list parameters the function delivers their final contents as well"""
        if is_list(val.kind) and val.kind[1] is None:
            raise Problem("return of an untyped empty list (%s)" % where)
        self.plain_rets.append(val.kind)
        if self.mut_params:
            comps = ([] if val.kind == "none" else [val]) + [env[p] for p in self.mut_params]
            val = comps[0] if len(comps) == 1 else Val(("tuple", tuple(c.kind for c in comps)),
                                                       "(" + ", ".join(c.code for c in comps) + ")", comps=comps)
        self.ret_kinds.append(val.kind)
        return Leaf(val)

    # -------------------------------------------------------------- rendering
    def coerce(self, val, target):
        k = val.kind
        if k == target:
            return val.code
        if k == "S" and target == "X":
            return "Rt.Ext.fin %s" % atom(val.code)
        if k == "N" and target == "I":
            return "(%s : Int)" % val.code
        if k == "M22" and target == "MN":
            return val.code
        if target == "SHAPE" and k in ("LIN", "OSUB"):
            return "Rt.PyShape.%s %s" % ("lin" if k == "LIN" else "sub", atom(val.code))
        if k == "S" and val.intval is not None and target in ("N", "I") and (target == "I" or val.intval >= 0):
            return self.as_nat(val) if target == "N" else self.as_int(val)      # phase 4: int counters of loops
        if k == "INT" and target == "REF":
            return "Rt.newRef %s" % atom(val.code)
        if k == "none" and target == "CLS":
            return "none"
        if k == "none" and target == "unit":     # phase 4 (pyalgebraic)
            return "()"
        if k == "V" and target == "VC":      # phase 4 (pyalgebraic): real numbers as complex numbers
            return "List.map (fun x => (x, (0 : K))) %s" % atom(val.code)
        if k == "P" and target == "V":       # phase 4 (pyalgebraic)
            if val.comps is not None:
                return "[%s, %s]" % (val.comps[0], val.comps[1])
            return "[%s.1, %s.2]" % (atom(val.code), atom(val.code))
        if is_list(k) and is_list(target) and (k[1] is None or k[1] == target[1]):
            return val.code
        if is_opt(target):
            if k in ("none", "nan"):
                return "none"
            if is_opt(k):
                if k[1] == target[1] or (k[1], target[1]) == ("M22", "MN"):
                    return val.code
                raise Problem("cannot convert %r to %r" % (k, target))
            return "some %s" % atom(self.coerce(val, target[1]))
        if is_tuple(target) and is_tuple(k) and val.comps is None and len(k[1]) == len(target[1]):
            n = len(k[1])                  # phase 4 (pypipeline): a tuple variable: its components are projections
            comps = [Val(k[1][i], atom(val.code) + ".2" * i + (".1" if i < n - 1 else "")) for i in range(n)]
            return "(" + ", ".join(self.coerce(c, t) for c, t in zip(comps, target[1])) + ")"
        if is_tuple(target) and is_tuple(k) and val.comps is not None and len(val.comps) == len(target[1]):
            return "(" + ", ".join(self.coerce(c, t) for c, t in zip(val.comps, target[1])) + ")"
        raise Problem("cannot convert result of kind %r to %r" % (k, target))

    def render(self, ir, monadic, ind, ctx="fn"):
        """ctx = "fn": a `return` ends the function;  "loop": it ends the enclosing loop with `Sum.inl value`"""
        pad = "  " * ind

        def ok(code):
            return (".ok %s" % atom(code)) if monadic else code

        if ctx == "loopb" and isinstance(ir, (Leaf, Next)):       # phase 4 (pypipeline): body of a loop with `break`
            if isinstance(ir, Leaf):
                return pad + ok("Rt.Step.ret %s" % atom(self.coerce(ir.val, self.ret))) + "\n"
            return pad + ok("Rt.Step.%s %s" % ("brk" if isinstance(ir, Brk) else "next", atom(ir.code))) + "\n"
        if isinstance(ir, WhileIR):             # phase 4 (pyalgebraic)
            assert monadic
            return (pad + "Rt.bind (Rt.whileA (List.length %s + 1) %s (fun %s =>\n" % (atom(ir.init), atom(ir.init), ir.var)
                    + self.render(ir.test, True, ind + 2, ctx).rstrip("\n") + ") (fun %s =>\n" % ir.var
                    + self.render(ir.step, True, ind + 2, ctx).rstrip("\n") + ")) fun %s =>\n" % ir.var
                    + self.render(ir.rest, monadic, ind, ctx))
        if isinstance(ir, BrkA):                 # phase 4 (pyalgebraic)
            return pad + ok("Sum.inl %s" % atom(ir.code)) + "\n"
        if isinstance(ir, MatchOpt):            # phase 4 (pyalgebraic)
            return (pad + "(match %s with\n" % ir.code + pad + "| none =>\n" + self.render(ir.then, monadic, ind + 1, ctx)
                    + pad + "| some %s =>\n" % ir.pat + self.render(ir.els, monadic, ind + 1, ctx).rstrip("\n") + ")\n")
        if isinstance(ir, Loop) and getattr(ir, "has_break", False):          # phase 4 (pyalgebraic)
            bm = impure(ir.body)
            init = "(%s : %s)" % (ir.init, ir.sty)
            body = self.render(ir.body, bm, ind + 2, ctx).rstrip("\n")
            if not bm:
                return (pad + "let %s :=\n" % ir.spat + pad + "  Rt.forB %s %s (fun %s %s =>\n" % (atom(ir.it), init, ir.spat, ir.target)
                        + body + ")\n" + self.render(ir.rest, monadic, ind, ctx))
            assert monadic
            return (pad + "Rt.bind (Rt.forBM %s %s fun %s %s =>\n" % (atom(ir.it), init, ir.spat, ir.target)
                    + body + ") fun %s =>\n" % ir.spat + self.render(ir.rest, monadic, ind, ctx))
        if isinstance(ir, Leaf):
            c = self.coerce(ir.val, self.ret)
            return pad + ok(c if ctx == "fn" else "Sum.inl %s" % atom(c)) + "\n"
        if isinstance(ir, Yield):
            return pad + ok(ir.code) + "\n"
        if isinstance(ir, Next):
            return pad + ok("Sum.inr %s" % atom(ir.code)) + "\n"
        if isinstance(ir, Fail):
            return pad + ".error .%s\n" % ir.err
        if isinstance(ir, Let):
            return pad + "let %s := %s\n" % (ir.pat, ir.code) + self.render(ir.body, monadic, ind, ctx)
        if isinstance(ir, Bind):
            assert monadic
            if isinstance(ir.code, MIf):
                scrut = (pad + "  (if %s then\n" % ir.code.cond + self.render(ir.code.then, True, ind + 2, ctx)
                         + pad + "  else\n" + self.render(ir.code.els, True, ind + 2, ctx).rstrip("\n")
                         + " : Except Err %s)" % atom(ir.code.ty))
            else:
                scrut = ir.code
            # `m >>= pure` is `m`
            b = ir.body
            if (isinstance(b, Yield) and b.code == ir.pat) or \
                    (isinstance(b, Leaf) and ctx == "fn" and b.val.code == ir.pat and b.val.kind == self.ret):
                return pad + scrut.lstrip() + "\n"
            if isinstance(ir.code, MIf):
                return (pad + "Rt.bind\n" + scrut + " fun %s =>\n" % ir.pat + self.render(ir.body, monadic, ind, ctx))
            return pad + "Rt.bind (%s) fun %s =>\n" % (scrut, ir.pat) + self.render(ir.body, monadic, ind, ctx)
        if isinstance(ir, Shape):
            assert monadic
            return (pad + "(match %s with\n" % ir.code + pad + "| %s =>\n" % ir.pat
                    + self.render(ir.body, monadic, ind + 1, ctx) + pad + "| _ => .error .badInput)\n")
        if isinstance(ir, Ite):
            return (pad + "if %s then\n" % ir.cond + self.render(ir.then, monadic, ind + 1, ctx) + pad + "else\n"
                    + self.render(ir.els, monadic, ind + 1, ctx))
        if isinstance(ir, Phi):
            arms_m = impure(ir.then) or impure(ir.els)
            if arms_m:
                assert monadic
                return self.render(Bind(ir.pat, MIf(ir.cond, ir.then, ir.els, ir.ty), ir.body), monadic, ind, ctx)
            cond = (pad + "  (if %s then\n" % ir.cond + self.render(ir.then, arms_m, ind + 2, ctx) + pad + "  else\n"
                    + self.render(ir.els, arms_m, ind + 2, ctx).rstrip("\n") + ")\n")
            return pad + "let %s :=\n" % ir.pat + cond + self.render(ir.body, monadic, ind, ctx)
        if isinstance(ir, Loop):
            bm = impure(ir.body)
            init = "(%s : %s)" % (ir.init, ir.sty)
            if not ir.has_exit:
                body = self.render(ir.body, bm, ind + 2, ctx).rstrip("\n")
                if not bm:
                    return (pad + "let %s :=\n" % ir.spat + pad + "  List.foldl (fun %s %s =>\n" % (ir.spat, ir.target)
                            + body + ") %s %s\n" % (init, atom(ir.it)) + self.render(ir.rest, monadic, ind, ctx))
                assert monadic
                return (pad + "Rt.bind (Rt.foldM %s %s fun %s %s =>\n" % (atom(ir.it), init, ir.spat, ir.target)
                        + body + ") fun %s =>\n" % ir.spat + self.render(ir.rest, monadic, ind, ctx))
            rho = atom(lty(self.ret))
            brk = getattr(ir, "brk", False)           # phase 4 (pypipeline): the loop contains `break`
            body = self.render(ir.body, bm, ind + 2, "loopb" if brk else "loop").rstrip("\n")
            leave = ok(ir.r if ctx == "fn" else ("Rt.Step.ret %s" if ctx == "loopb" else "Sum.inl %s") % ir.r)
            if brk and not bm:
                return (pad + "(match Rt.loopE (ρ := %s) %s %s (fun %s %s =>\n" % (rho, atom(ir.it), init, ir.spat, ir.target)
                        + body + ") with\n" + pad + "| .inl %s => %s\n" % (ir.r, leave)
                        + pad + "| .inr %s =>\n" % ir.spat + self.render(ir.rest, monadic, ind + 1, ctx).rstrip("\n") + ")\n")
            if brk:
                assert monadic
                return (pad + "Rt.bind (Rt.loopM (ρ := %s) %s %s fun %s %s =>\n" % (rho, atom(ir.it), init, ir.spat, ir.target)
                        + body + ") fun %s =>\n" % ir.res
                        + pad + "(match %s with\n" % ir.res + pad + "| .inl %s => %s\n" % (ir.r, leave)
                        + pad + "| .inr %s =>\n" % ir.spat + self.render(ir.rest, monadic, ind + 1, ctx).rstrip("\n") + ")\n")
            if not bm:
                return (pad + "(match Rt.forE (ρ := %s) %s %s (fun %s %s =>\n" % (rho, atom(ir.it), init, ir.spat, ir.target)
                        + body + ") with\n" + pad + "| .inl %s => %s\n" % (ir.r, leave)
                        + pad + "| .inr %s =>\n" % ir.spat + self.render(ir.rest, monadic, ind + 1, ctx).rstrip("\n") + ")\n")
            assert monadic
            return (pad + "Rt.bind (Rt.forM (ρ := %s) %s %s fun %s %s =>\n" % (rho, atom(ir.it), init, ir.spat, ir.target)
                    + body + ") fun %s =>\n" % ir.res
                    + pad + "(match %s with\n" % ir.res + pad + "| .inl %s => %s\n" % (ir.r, leave)
                    + pad + "| .inr %s =>\n" % ir.spat + self.render(ir.rest, monadic, ind + 1, ctx).rstrip("\n") + ")\n")
        if isinstance(ir, P4While):      # phase 4 (pycurve)
            assert monadic
            return (pad + "Rt.bind (Rt.whileM fuel (%s : %s) (fun %s => %s) fun %s =>\n" % (ir.init, ir.sty, ir.spat, ir.cond, ir.spat)
                    + self.render(ir.body, True, ind + 2, ctx).rstrip("\n") + ") fun %s =>\n" % ir.spat
                    + self.render(ir.rest, monadic, ind, ctx))
        raise AssertionError(ir)

    # -------------------------------------------------------------- statements
    def block(self, stmts, env, k):
        if not stmts:
            return k(env)
        st, rest = stmts[0], stmts[1:]
        where = "line %d" % st.lineno
        if self.p4:                                    # phase 4 (pycurve)
            r4 = self.p4_stmt(st, rest, env, k, where)
            if r4 is not None:
                return r4
        if isinstance(st, ast.Pass):
            return self.block(rest, env, k)
        if isinstance(st, ast.ImportFrom) and st.level == 0 and all(
                "%s.%s" % (st.module, a.name) in MODULES and (a.asname or a.name) not in env and
                (a.asname or a.name) not in self.locals_ and
                self.mod.aliases.get(a.asname or a.name, MODULES["%s.%s" % (st.module, a.name)]) ==
                MODULES["%s.%s" % (st.module, a.name)] for a in st.names):
            # phase 4 (pyclassify): a function-level `from bezier.hazmat import <listed module>`
            for a in st.names:
                self.mod.aliases[a.asname or a.name] = MODULES["%s.%s" % (st.module, a.name)]
            return self.block(rest, env, k)
        if isinstance(st, ast.Expr) and isinstance(st.value, ast.Constant) and isinstance(st.value.value, str):
            return self.block(rest, env, k)            # docstring / bare string
        if isinstance(st, ast.Import) and all(a.name in EXTERNAL_IMPORTS and a.asname is None for a in st.names):
            return self.block(rest, env, k)        # phase 4 (pyalgebraic): `import scipy.linalg.lapack` in a function body
        if isinstance(st, ast.Assign) and len(st.targets) == 1 and isinstance(st.targets[0], ast.Name) \
                and isinstance(st.value, ast.Attribute) and ast.unparse(st.value).rsplit(".", 1)[0] in EXTERNAL_IMPORTS \
                and (ast.unparse(st.value).rsplit(".", 1)[0], st.value.attr) in ABSTRACT \
                and ast.unparse(st.value).split(".")[0] not in env and st.targets[0].id not in env:
            # phase 4 (pyalgebraic): `_dgecon = scipy.linalg.lapack.dgecon`: a local name for an external function; it must
            # be bound exactly once in the function
            name = st.targets[0].id
            nstores = sum(1 for n in ast.walk(self.mod.funcs.get(self.fn, st)) if isinstance(n, ast.Name) and n.id == name
                          and not isinstance(n.ctx, ast.Load))
            if nstores != 1 or "." in self.fn:
                raise Problem("the local name %s of an external function is bound more than once (%s)" % (name, where))
            self.__dict__.setdefault("fn_alias", {})[name] = (ast.unparse(st.value).rsplit(".", 1)[0], st.value.attr)
            return self.block(rest, env, k)
        if isinstance(st, ast.Break) and self.modname == "algebraic_intersection":              # phase 4 (pyalgebraic)
            if rest:
                raise Problem("unreachable statements after break (%s)" % where)
            if not getattr(self, "break_stack", None):
                raise Problem("break outside of a translated loop (%s)" % where)
            return self.break_stack[-1](env)
        if isinstance(st, ast.Return):
            if rest:
                raise Problem("unreachable statements after return (%s)" % where)
            if st.value is None:
                return self.leaf(Val("none", "none"), env, where)
            if isinstance(st.value, ast.Tuple) and self.modname == "algebraic_intersection":    # phase 4 (pyalgebraic): nothing is updated in place after the return
                env = self.release_inplace(env)
            binds, v = self.tx(st.value, env)
            return wrap(binds, self.leaf(v, env, where))
        if isinstance(st, (ast.Break, ast.Continue)):        # phase 4 (pypipeline)
            if rest:
                raise Problem("unreachable statements after break / continue (%s)" % where)
            if not getattr(self, "loop_ctx", None):
                raise Problem("break / continue outside a loop that is translated as a loop (%s)" % where)
            code = self.loop_ctx[-1](env)
            return Brk(code) if isinstance(st, ast.Break) else Next(code)
        if isinstance(st, ast.Raise):
            if rest:
                raise Problem("unreachable statements after raise (%s)" % where)
            exc = st.exc
            if isinstance(exc, ast.Call):
                exc = exc.func
            if isinstance(exc, ast.Attribute) and isinstance(exc.value, ast.Name) and exc.value.id not in env \
                    and self.mod.aliases.get(exc.value.id) not in (None, "numpy", "bisect"):
                exc = ast.Name(id=exc.attr, ctx=ast.Load())      # phase 4 (pyalgebraic): `_py_helpers.UnsupportedDegree`
            if st.cause is not None or not isinstance(exc, ast.Name) or exc.id not in EXC:
                raise Problem("raise of an unlisted exception (%s)" % where)
            return Fail(EXC[exc.id])
        if isinstance(st, ast.Assign):
            if len(st.targets) != 1:
                raise Problem("chained assignment (%s)" % where)
            return self.assign(st.targets[0], st.value, rest, env, k, where)
        if isinstance(st, ast.AugAssign) and isinstance(st.target, ast.Subscript) and isinstance(st.target.value, ast.Name) \
                and st.target.value.id in env and env[st.target.value.id].kind == "C" and env[st.target.value.id].inplace \
                and isinstance(st.op, (ast.Add, ast.Sub, ast.Mult)) and isinstance(st.target.slice, ast.Tuple) \
                and len(st.target.slice.elts) == 2 and isinstance(st.target.slice.elts[0], ast.Slice) \
                and ast.unparse(st.target.slice.elts[0]) == ":" and self.const_index_opt(st.target.slice.elts[1]) == 0:
            # phase 4: `x[:, 0] += v` for a d x 1 array x created in this function and a 1-D array v
            name = st.target.value.id
            binds, v = self.tx(st.value, env)
            if v.kind not in ("V", "C"):
                raise Problem("`%s[:, 0] op= ...` with a value of kind %r (%s)" % (name, v.kind, where))
            opc = {ast.Add: "+", ast.Sub: "-", ast.Mult: "*"}[type(st.op)]
            binds.append(("bind", lname(name), "Rt.vzipInto (fun x y => x %s y) %s %s" % (opc, lname(name), atom(v.code))))
            env2 = dict(env)
            env2[name] = Val("C", lname(name), inplace=True)
            return wrap(binds, self.block(rest, env2, k))
        if isinstance(st, ast.AugAssign):
            if isinstance(st.target, ast.Subscript):          # phase 4 (pyalgebraic)
                return self.aug_subscript(st, rest, env, k, where)
            if isinstance(st.target, ast.Name) and st.target.id in env and env[st.target.id].kind == "V" \
                    and getattr(env[st.target.id], "writable", False):
                new = ast.Assign(targets=[ast.Name(id=st.target.id, ctx=ast.Store())],
                                 value=ast.BinOp(left=ast.Name(id=st.target.id, ctx=ast.Load()), op=st.op, right=st.value))
                ast.copy_location(new, st)
                ast.fix_missing_locations(new)
                return self.block([new] + rest, env, k)
            ok_aug = isinstance(st.target, ast.Name) and st.target.id in env and (
                env[st.target.id].kind in ("S", "I", "N") or (env[st.target.id].kind == "C" and env[st.target.id].inplace))
            ok_aug = ok_aug or (isinstance(st.target, ast.Name) and st.target.id in env     # phase 4 (pytri)
                                and env[st.target.id].kind == "MN" and getattr(env[st.target.id], "fresh", False)
                                and isinstance(st.op, (ast.Mult, ast.Div)))
            # (phase 4: a `d x 1` array bound to the fresh result of a translated function is `inplace` as well, see `assign`)
            if not ok_aug:
                raise Problem("augmented assignment to something else than a number variable or an array created in "
                              "this function (%s)" % where)
            self.aug_owner = st.target.id if env[st.target.id].kind == "C" else None
            new = ast.Assign(targets=[ast.Name(id=st.target.id, ctx=ast.Store())],
                             value=ast.BinOp(left=ast.Name(id=st.target.id, ctx=ast.Load()), op=st.op, right=st.value))
            ast.copy_location(new, st)
            ast.fix_missing_locations(new)
            return self.block([new] + rest, env, k)
        if isinstance(st, ast.Expr) and isinstance(st.value, ast.Call):
            return self.call_stmt(st.value, rest, env, k, where)
        if isinstance(st, ast.For):
            return self.for_loop(st, rest, env, k, where)
        if isinstance(st, ast.If) and len(st.body) == 1 and len(st.orelse) == 1 \
                and all(isinstance(x, ast.Assign) and len(x.targets) == 1 and isinstance(x.targets[0], ast.Subscript)
                        and isinstance(x.targets[0].value, ast.Name) for x in (st.body[0], st.orelse[0])) \
                and ast.dump(st.body[0].targets[0]) == ast.dump(st.orelse[0].targets[0]) \
                and isinstance(self.prealloc.get(st.body[0].targets[0].value.id), tuple) \
                and self.prealloc[st.body[0].targets[0].value.id][0] == "G":
            # phase 4 (pypipeline): `if c: x[i, j] = a` / `else: x[i, j] = b` (the same cell of a grid array in both arms)
            # is `t = a if c else b` (arms still evaluated lazily) followed by `x[i, j] = t`
            t = self.tmp()
            self.names.add(t)
            arms = []
            for x in (st.body[0], st.orelse[0]):
                a = ast.Assign(targets=[ast.Name(id=t, ctx=ast.Store())], value=x.value)
                ast.copy_location(a, x)
                arms.append(a)
            new_if = ast.If(test=st.test, body=[arms[0]], orelse=[arms[1]])
            put = ast.Assign(targets=[st.body[0].targets[0]], value=ast.Name(id=t, ctx=ast.Load()))
            for n in (new_if, put):
                ast.copy_location(n, st)
                ast.fix_missing_locations(n)
            return self.block([new_if, put] + rest, env, k)
        if isinstance(st, ast.If) and self.none_test(st.test, env) is not None:      # phase 4 (pyalgebraic)
            # `if x is None:` / `if x is not None:` for a maybe-None variable: inside the other arm x is a plain value
            name, positive = self.none_test(st.test, env)
            e_none, e_some = dict(env), dict(env)
            e_none[name] = Val("none", "none")
            e_some[name] = Val(env[name].kind[1], lname(name))

            def kk(e):
                return self.block(rest, e, k)
            a_none, a_some = (st.body, st.orelse) if positive else (st.orelse, st.body)
            return MatchOpt(env[name].code, self.block(a_none, e_none, kk), lname(name), self.block(a_some, e_some, kk))
        if isinstance(st, ast.If):
            binds, c = self.tx(st.test, env)
            c = self.truth(c)
            if c.kind != "B":
                raise Problem("condition of kind %r (%s)" % (c.kind, where))
            cond = c.prop if c.prop is not None else c.code
            if contains_exit(st.body) or contains_exit(st.orelse) or contains_break(st.body + st.orelse):
                def kk(e):
                    return self.block(rest, e, k)
                return wrap(binds, Ite(cond, self.block(st.body, dict(env), kk), self.block(st.orelse, dict(env), kk)))
            names = assigned_names(st.body + st.orelse, env)
            both = definitely_assigned(st.body) & definitely_assigned(st.orelse)
            phi = [n for n in names if n in env or n in both]
            lost = [n for n in names if n not in phi]

            def arm(stmts_, kinds):
                got = {}

                def yk(e):
                    got["env"] = e
                    if not phi:
                        return Yield("()")
                    if kinds is None:
                        return Yield("?")
                    cs = [self.coerce(e[n], kinds[n]) for n in phi]
                    return Yield(cs[0] if len(phi) == 1 else "(" + ", ".join(cs) + ")")
                ir_ = self.block(stmts_, dict(env), yk)
                return ir_, got["env"]
            # first pass: the kinds of the variables at the end of each arm; second pass: code
            keep = (self.ntmp, len(self.ret_kinds))
            _, env_a = arm(st.body, None)
            _, env_b = arm(st.orelse, None)
            self.ntmp = keep[0]
            del self.ret_kinds[keep[1]:]
            env2 = dict(env)
            for n in lost:
                env2.pop(n, None)
            retry = [n for n in phi if {env_a[n].kind, env_b[n].kind} in ({"S", "N"}, {"S", "I"})
                     and n not in getattr(self, "int_vars", set())]
            if retry:
                # phase 4 (pyalgebraic): `rank = 1` / `rank = 0` in one arm, a Python int in the other: the constants are ints
                self.__dict__.setdefault("int_vars", set()).update(retry)
                return self.block(stmts, env, k)
            kinds = {}
            for n in phi:
                kd = unify(env_a[n].kind, env_b[n].kind)
                if kd in ("none", "nan", "VB"):       # phase 4 (pypipeline): tuple kinds are allowed (see `coerce`)
                    raise Problem("variable %s has kind %r after the if (%s)" % (n, kd, where))
                kinds[n] = kd
                env2[n] = Val(kd, lname(n))
            ir_a, _ = arm(st.body, kinds)
            ir_b, _ = arm(st.orelse, kinds)
            if not phi:
                raise Problem("`if` that neither returns nor assigns a (definitely defined) variable (%s)" % where)
            pat = lname(phi[0]) if len(phi) == 1 else "(" + ", ".join(lname(n) for n in phi) + ")"
            ty = lty(("tuple", tuple(kinds[n] for n in phi))) if len(phi) != 1 else lty(kinds[phi[0]])
            return wrap(binds, Phi(pat, cond, ir_a, ir_b, self.block(rest, env2, k), ty if phi else "Unit"))
        if isinstance(st, ast.While):             # phase 4 (pyalgebraic)
            # only `while test(x): x = e(x)` for ONE 1-D array x; at most len(x) + 1 rounds are made (more: `Err.recursion`,
            # an answer the code cannot give - the equality theorem has to show that it never occurs)
            ok = not st.orelse and len(st.body) == 1 and isinstance(st.body[0], ast.Assign) and len(st.body[0].targets) == 1 \
                and isinstance(st.body[0].targets[0], ast.Name) and st.body[0].targets[0].id in env \
                and env[st.body[0].targets[0].id].kind == "V" and not env[st.body[0].targets[0].id].inplace
            if not ok:
                raise Problem("while loop of this form (%s)" % where)
            name = st.body[0].targets[0].id
            e0 = dict(env)
            e0[name] = Val("V", lname(name))
            tb, tc = self.tx(st.test, e0)
            if tc.kind != "B":
                raise Problem("condition of kind %r (%s)" % (tc.kind, where))
            sb, sv = self.tx(st.body[0].value, e0)
            if sv.kind != "V":
                raise Problem("while body assigns a value of kind %r (%s)" % (sv.kind, where))
            env2 = dict(env)
            env2[name] = Val("V", lname(name))
            return WhileIR(lname(name), env[name].code, wrap(tb, Yield(tc.code)), wrap(sb, Yield(sv.code)),
                           self.block(rest, env2, k))
        raise Problem("statement %s (%s)" % (type(st).__name__, where))

    def truth(self, c):
        """truth value of a list: non-empty"""
        if is_list(c.kind) or c.kind in ("OL", "CSET"):
            return Val("B", "!(List.isEmpty %s)" % atom(c.code))
        if c.kind in ("N", "I"):            # phase 4 (pyalgebraic): truth value of a Python int
            zero = "(0 : Nat)" if c.kind == "N" else "(0 : Int)"
            return Val("B", "decide (%s ≠ %s)" % (atom(c.code), zero), prop="%s ≠ %s" % (atom(c.code), zero))
        return c

    def call_stmt(self, c, rest, env, k, where):
        f = c.func
        if isinstance(f, ast.Attribute) and f.attr == "extend" and isinstance(f.value, ast.Name) and f.value.id in env \
                and is_list(env[f.value.id].kind) and len(c.args) == 1 and not c.keywords \
                and isinstance(c.args[0], (ast.Tuple, ast.List)) \
                and not any(isinstance(e, ast.Starred) for e in c.args[0].elts):
            # phase 4 (pytri): `lst.extend((a, b, ...))` with a literal tuple / list = `lst.append(a); lst.append(b); ...`
            # (Python evaluates a, b, ... before appending; the entries are expressions without side effects here and an
            # exception raised by a later entry leaves no partly extended list behind, since it ends the function)
            new = []
            for e in c.args[0].elts:
                a = ast.Expr(value=ast.Call(func=ast.Attribute(value=ast.Name(id=f.value.id, ctx=ast.Load()), attr="append",
                                                               ctx=ast.Load()), args=[e], keywords=[]))
                ast.copy_location(a, c)
                ast.fix_missing_locations(a)
                new.append(a)
            return self.block(new + rest, env, k)
        if isinstance(f, ast.Attribute) and f.attr == "append" and isinstance(f.value, ast.Name) and f.value.id in env \
                and is_list(env[f.value.id].kind):
            name = f.value.id
            if len(c.args) != 1 or c.keywords:
                raise Problem("append with this argument list (%s)" % where)
            if name in self.ro_lists:
                raise Problem("append to the list parameter %s, which the signature table does not declare mutable (%s)"
                              % (name, where))
            cur = env[name]
            binds, v = self.tx(c.args[0], env)
            if v.inplace or v.kind in ("none", "nan", "VB"):
                raise Problem("append of a value of kind %r / of an array overwritten in place (%s)" % (v.kind, where))
            ek = v.kind if cur.kind[1] is None else cur.kind[1]
            if unify(ek, v.kind) != ek:
                raise Problem("list %s of kind %r gets an element of kind %r (%s)" % (name, ek, v.kind, where))
            env2 = dict(env)
            env2[name] = Val(("list", ek), lname(name))
            return wrap(binds, Let(lname(name), "%s ++ [%s]" % (atom(cur.code), self.coerce(v, ek)),
                                   self.block(rest, env2, k)))
        if isinstance(f, ast.Attribute) and f.attr == "remove" and isinstance(f.value, ast.Name) and f.value.id in env \
                and env[f.value.id].kind == ("list", "POS"):
            # phase 4 (pyclassify): `unused.remove(node)` on the list of positions
            name = f.value.id
            if len(c.args) != 1 or c.keywords or name in self.ro_lists:
                raise Problem("remove with this argument list / on a read-only list (%s)" % where)
            binds, v = self.tx(c.args[0], env)
            if is_opt(v.kind) and v.kind[1] == "REF":
                v = self.need(binds, v, "REF", "argument of remove (%s)" % where)
            if v.kind != "REF":
                raise Problem("remove of a value of kind %r (%s)" % (v.kind, where))
            env2 = dict(env)
            env2[name] = Val(("list", "POS"), lname(name))
            binds.append(("bind", lname(name), "Rt.refRemove %s %s" % (atom(v.code), atom(env[name].code))))
            return wrap(binds, self.block(rest, env2, k))
        binds, v, muts = self.call(c, env, where, stmt=True)
        if not muts:
            raise Problem("call whose result is discarded (%s)" % where)
        env2 = dict(env)
        for n, kd in muts:
            env2[n] = Val(kd, lname(n))
        pat = lname(muts[0][0]) if len(muts) == 1 else "(" + ", ".join(lname(n) for n, _ in muts) + ")"
        if binds and binds[-1][0] == "bind" and binds[-1][1] == v.code:
            binds = binds[:-1] + [("bind", pat, binds[-1][2])]
            return wrap(binds, self.block(rest, env2, k))
        return wrap(binds, Let(pat, v.code, self.block(rest, env2, k)))

    def iterable(self, it, env, where):
        """(binds, Lean list, kind of the elements)"""
        if isinstance(it, ast.Call) and isinstance(it.func, ast.Name) and it.func.id == "range" and "range" not in env:
            if not it.keywords and len(it.args) == 3 and self.const_int(it.args[2]) == -1:
                # range(a, b, -1) = a, a-1, ..., b+1   with a constant b >= 0
                binds, av = self.tx(it.args[0], env)
                b2, bv = self.tx(it.args[1], env)
                binds += b2
                if self.is_int(av) and bv.intval == -1 and self.modname == "algebraic_intersection":
                    # phase 4 (pyalgebraic): a, a-1, ..., 0 (nothing for a < 0)
                    n_code = ("%s + 1" % atom(self.as_nat(av))) if self.natlike(av) else \
                        "Int.toNat (%s + 1)" % atom(self.as_int(av))
                    return binds, "List.reverse (List.range (%s))" % n_code, "N"
                if self.is_int(av) and bv.intval == -1:
                    # phase 4: range(a, -1, -1) = a, a-1, ..., 0   (nothing for a < 0)
                    return binds, "List.reverse (List.range (Int.toNat (%s + 1)))" % atom(self.as_int(av)), "N"
                if not self.is_int(av) or bv.intval is None or bv.intval < 0:
                    raise Problem("descending range with these bounds (%s)" % where)
                return binds, "List.reverse (List.range' %d (%s - %d))" % (bv.intval + 1, self.dim_nat(av), bv.intval), "N"
            if it.keywords or not 1 <= len(it.args) <= 2:
                raise Problem("range with this argument list (%s)" % where)
            binds, vals = [], []
            for a in it.args:
                b, v = self.tx(a, env)
                binds += b
                if not self.is_int(v):
                    raise Problem("range over a value of kind %r (%s)" % (v.kind, where))
                vals.append(v)
            stop = vals[-1]
            stop_code = self.as_nat(stop) if self.natlike(stop) else "Int.toNat %s" % atom(self.as_int(stop))
            if len(vals) == 1:
                return binds, "List.range %s" % atom(stop_code), "N"
            if vals[0].intval is None and vals[0].kind == "N":         # phase 4 (pyalgebraic): range(i + 1, n)
                return binds, "List.range' %s (%s - %s)" % (atom(vals[0].code), stop_code, atom(vals[0].code)), "N"
            if vals[0].intval is None or vals[0].intval < 0:
                raise Problem("the start of a range must be a non-negative integer constant (%s)" % where)
            return binds, "List.range' %d (%s - %d)" % (vals[0].intval, stop_code, vals[0].intval), "N"
        if isinstance(it, ast.Call) and isinstance(it.func, ast.Name) and it.func.id == "enumerate" \
                and "enumerate" not in env and len(it.args) == 1 and not it.keywords:
            binds, code, ek = self.iterable(it.args[0], env, where)          # phase 4
            return binds, "Rt.enum %s" % atom(code), ("tuple", ("N", ek))
        binds, v = self.tx(it, env)
        if v.kind == "MN" and not v.wide and not v.inplace:
            return binds, v.code, "V"                                        # phase 4: the rows of a 2-D array
        if v.kind == "OL":            # phase 4 (pyclassify): the elements as object references
            return binds, "Rt.refs %s" % atom(v.code), "REF"
        if is_list(v.kind) and v.kind[1] is not None:
            return binds, v.code, v.kind[1]
        if v.kind == "V":
            return binds, v.code, "S"
        raise Problem("loop over a value of kind %r (%s)" % (v.kind, where))

    def for_loop(self, st, rest, env, k, where):
        if self.modname == "algebraic_intersection":      # merge: pyalgebraic renders `for` (with `break`) its own way
            return self.for_loop_alg(st, rest, env, k, where)
        if st.orelse:
            raise Problem("for ... else (%s)" % where)
        it = st.iter
        self.unroll_guard = has_loop_jump(st.body)      # phase 4 (pypipeline): `break` / `continue` need a real loop
        if isinstance(it, (ast.Tuple, ast.List)):
            if self.unroll_guard:
                raise Problem("break / continue in a loop over a literal tuple (%s)" % where)
            # a loop over a literal tuple is unrolled: target = e1; body; target = e2; body; ...
            new = []
            for e in it.elts:
                a = ast.Assign(targets=[st.target], value=e)
                ast.copy_location(a, st)
                ast.fix_missing_locations(a)
                new.append(a)
                new.extend(st.body)
            return self.block(new + rest, env, k)
        if isinstance(it, ast.Call) and isinstance(it.func, ast.Name) and it.func.id == "range" and "range" not in env \
                and len(it.args) == 1 and not it.keywords:
            b0, n0 = self.tx(it.args[0], env)
            if not b0 and n0.kind == "S" and n0.intval is not None and 0 <= n0.intval <= 4:
                if self.unroll_guard:
                    raise Problem("break / continue in a loop over range(%d) (%s)" % (n0.intval, where))
                new = []                        # range(c) with a small constant c is unrolled as well
                for c in range(n0.intval):
                    a = ast.Assign(targets=[st.target], value=ast.Constant(value=c))
                    ast.copy_location(a, st)
                    ast.fix_missing_locations(a)
                    new.append(a)
                    new.extend(st.body)
                return self.block(new + rest, env, k)
        if isinstance(st.target, ast.Tuple) and any(isinstance(e, ast.Tuple) for e in st.target.elts):
            # phase 4: `for index, (a, b, c) in ...` = `for index, tN in ...: (a, b, c) = tN; ...`
            elts, pre = [], []
            for e in st.target.elts:
                if isinstance(e, ast.Tuple):
                    tn = self.tmp()
                    self.names.add(tn)
                    a = ast.Assign(targets=[e], value=ast.Name(id=tn, ctx=ast.Load()))
                    ast.copy_location(a, st)
                    ast.fix_missing_locations(a)
                    pre.append(a)
                    e = ast.Name(id=tn, ctx=ast.Store())
                elts.append(e)
            new = ast.For(target=ast.Tuple(elts=elts, ctx=ast.Store()), iter=st.iter, body=pre + st.body, orelse=[])
            ast.copy_location(new, st)
            ast.fix_missing_locations(new)
            return self.for_loop(new, rest, env, k, where)
        binds, it_code, ek = self.iterable(it, env, where)
        if isinstance(st.target, ast.Name):
            tnames, tkinds, tpat = [st.target.id], [ek], lname(st.target.id)
        elif isinstance(st.target, ast.Tuple) and all(isinstance(e, ast.Name) for e in st.target.elts) \
                and is_tuple(ek) and len(ek[1]) == len(st.target.elts):
            tnames, tkinds = [e.id for e in st.target.elts], list(ek[1])
            tpat = "(" + ", ".join(lname(n) for n in tnames) + ")"
        else:
            raise Problem("loop target does not fit elements of kind %r (%s)" % (ek, where))
        has_exit = contains_exit(st.body)
        names = assigned_names(st.body, env)
        if any(n in tnames for n in names):
            raise Problem("the loop variable is re-bound in the loop (%s)" % where)
        carried = [n for n in env if n in names]      # in the order of their definition before the loop
        lost = [n for n in names if n not in carried] + [n for n in tnames if n != "_"]
        kinds = {n: env[n].kind for n in carried}
        for n in carried:                              # phase 4: `index = 0` ... `index += 1`
            if env[n].kind == "S" and env[n].intval is not None and not env[n].unit:
                kinds[n] = "N" if env[n].intval >= 0 else "I"

        def run_body(final):
            envs = []

            def state_code(e):          # phase 4 (pypipeline): also the state at a `break` / `continue`
                envs.append(e)
                if not final:
                    return "?"
                cs = [self.coerce(e[n], kinds[n]) for n in carried]
                return "()" if not cs else cs[0] if len(cs) == 1 else "(" + ", ".join(cs) + ")"

            def kb(e):
                code = state_code(e)
                if not final:
                    return Yield("?")
                return Next(code) if has_exit else Yield(code)
            e0 = dict(env)
            for n in carried:
                e0[n] = Val(kinds[n], lname(n), inplace=env[n].inplace)
                e0[n].unit, e0[n].wide = env[n].unit, env[n].wide
            for n, kd in zip(tnames, tkinds):
                if n != "_":
                    e0[n] = Val(kd, lname(n))
            if not hasattr(self, "loop_ctx"):
                self.loop_ctx = []
            self.loop_ctx.append(state_code)
            try:
                return self.block(st.body, e0, kb), envs
            finally:
                self.loop_ctx.pop()
        keep = (self.ntmp, len(self.ret_kinds), len(self.plain_rets))

        def settle(kinds):
            for _ in range(4):
                _, envs = run_body(False)
                self.ntmp = keep[0]
                del self.ret_kinds[keep[1]:]
                del self.plain_rets[keep[2]:]
                new = dict(kinds)
                for e in envs:
                    for n in carried:
                        if n not in e:
                            raise Problem("variable %s may be unbound after an iteration (%s)" % (n, where))
                        new[n] = unify(new[n], e[n].kind)
                if new == kinds:
                    return kinds
                kinds.clear()
                kinds.update(new)
            raise Problem("the kinds of the loop-carried variables do not settle (%s)" % where)
        # phase 4 (pypipeline): a carried variable that starts as an int constant (`count = 0`) is first tried as a Python
        # int (Nat / Int); when that does not settle (it is mixed with floats) it is a number of K, as before
        ints = {n: ("N" if env[n].intval >= 0 else "I") for n in carried if env[n].kind == "S" and env[n].intval is not None}
        done = False
        if ints:
            kinds.update(ints)
            try:
                settle(kinds)
                done = all(kinds[n] in ("N", "I") for n in ints)
            except Problem:
                pass
            if not done:
                self.ntmp = keep[0]
                del self.ret_kinds[keep[1]:]
                del self.plain_rets[keep[2]:]
                kinds.clear()
                kinds.update({n: env[n].kind for n in carried})
        if not done:
            settle(kinds)
        for n in carried:
            if is_tuple(kinds[n]) or kinds[n] in ("none", "nan", "VB") or (is_list(kinds[n]) and kinds[n][1] is None):
                raise Problem("loop-carried variable %s of kind %r (%s)" % (n, kinds[n], where))
        body_ir, _ = run_body(True)
        if not carried and not has_exit and not impure(body_ir):
            raise Problem("loop without effect (%s)" % where)
        env2 = dict(env)
        for n in lost:
            env2.pop(n, None)
        for n in carried:
            env2[n] = Val(kinds[n], lname(n), inplace=env[n].inplace)
            env2[n].unit, env2[n].wide = env[n].unit, env[n].wide
        inits = [self.coerce(env[n], kinds[n]) for n in carried]
        if not carried:
            spat, init, sty = "()", "()", "Unit"
        elif len(carried) == 1:
            spat, init, sty = lname(carried[0]), inits[0], lty(kinds[carried[0]])
        else:
            spat = "(" + ", ".join(lname(n) for n in carried) + ")"
            init = "(" + ", ".join(inits) + ")"
            sty = lty(("tuple", tuple(kinds[n] for n in carried)))
        r, res = self.tmp(), self.tmp()
        loop = Loop(it_code, tpat, spat, init, sty, body_ir, self.block(rest, env2, k), has_exit, r, res)
        loop.brk = has_loop_jump(st.body, (ast.Break,))         # phase 4 (pypipeline)
        return wrap(binds, loop)

    def assign_special(self, target, value, rest, env, k, where):
        """phase 4 (pypipeline): three assignment forms of `all_intersections`"""
        if not isinstance(target, ast.Name) or target.id == "_":
            return None
        # (a) `msg = TEMPLATE.format(CONSTANT, ...)`: a message string built from module constants; no effect, not modelled
        if isinstance(value, ast.Call) and isinstance(value.func, ast.Attribute) and value.func.attr == "format" \
                and isinstance(value.func.value, ast.Name) and value.func.value.id not in env \
                and isinstance(self.mod.consts.get(value.func.value.id), ast.Constant) \
                and isinstance(self.mod.consts[value.func.value.id].value, str) and not value.keywords \
                and all(isinstance(a, ast.Name) and a.id not in env and a.id in self.mod.consts for a in value.args):
            uses = sum(1 for st in rest for n in ast.walk(st) if isinstance(n, ast.Name) and n.id == target.id)
            in_raise = sum(1 for st in rest for r in ast.walk(st) if isinstance(r, ast.Raise) and r.exc is not None
                           for n in ast.walk(r.exc) if isinstance(n, ast.Name) and n.id == target.id)
            if uses != in_raise:
                raise Problem("the message string %s is used outside a raise (%s)" % (target.id, where))
            return self.block(rest, env, k)
        # (b) `x = f(.., lst)` for an untranslated `f` that updates the list `lst` in place
        if isinstance(value, ast.Call) and isinstance(value.func, ast.Name) and value.func.id not in env \
                and (self.modname, value.func.id) in ABSTRACT \
                and any(isinstance(kd, tuple) and kd[0] == "mlist" for kd in ABSTRACT[(self.modname, value.func.id)][0]):
            fn = value.func.id
            ak, ar, can_raise = ABSTRACT[(self.modname, fn)]
            if value.keywords or len(value.args) != len(ak) or not can_raise:
                raise Problem("call of %s with this argument list (%s)" % (fn, where))
            binds, args, muts = [], [], []
            for a, kd in zip(value.args, ak):
                b, v = self.tx(a, env)
                binds += b
                if isinstance(kd, tuple) and kd[0] == "mlist":
                    if not (isinstance(a, ast.Name) and is_list(v.kind)) or a.id in self.ro_lists or a.id == target.id:
                        raise Problem("argument of %s that is updated in place must be a list variable (%s)" % (fn, where))
                    muts.append(a.id)
                    v = self.need(binds, v, ("list", kd[1]), "argument of %s (%s)" % (fn, where))
                else:
                    v = self.need(binds, v, kd, "argument of %s (%s)" % (fn, where))
                args.append(atom(v.code))
            self.use_extra((self.modname, fn))
            env2 = dict(env)
            env2[target.id] = Val(ar, lname(target.id))
            for (n, kd) in [(m_, ("list", kd_[1])) for m_, kd_ in zip(muts, [x for x in ak if isinstance(x, tuple) and x[0] == "mlist"])]:
                env2[n] = Val(kd, lname(n))
            pat = "(" + ", ".join([lname(target.id)] + [lname(m_) for m_ in muts]) + ")"
            binds.append(("bind", pat, "%s %s" % (fn, " ".join(args))))
            return wrap(binds, self.block(rest, env2, k))
        # (c) `lst = pairs` where `lst` holds a list of pairs and `pairs` is a (maybe-None) pair of pairs of (maybe-None)
        #     numbers: the list of the two pairs (that is how `np.array` reads either); None anywhere is a TypeError
        if isinstance(value, ast.Name) and value.id in env and target.id in env and is_list(env[target.id].kind) \
                and env[target.id].kind[1] in (None, ("tuple", ("S", "S"))):
            v = env[value.id]
            inner = v.kind[1] if is_opt(v.kind) else v.kind
            if is_tuple(inner) and len(inner[1]) == 2 and all(is_tuple(c) and len(c[1]) == 2 for c in inner[1]):
                binds = []
                v = self.need(binds, v, inner, "value assigned to the list %s (%s)" % (target.id, where))
                cs = []
                for i, proj in enumerate((".1.1", ".1.2", ".2.1", ".2.2")):
                    ck = inner[1][i // 2][1][i % 2]
                    cs.append(self.need(binds, Val(ck, atom(v.code) + proj), "S", "entry of %s (%s)" % (value.id, where)).code)
                env2 = dict(env)
                env2[target.id] = Val(("list", ("tuple", ("S", "S"))), lname(target.id))
                return wrap(binds, Let(lname(target.id), "[(%s, %s), (%s, %s)]" % tuple(cs), self.block(rest, env2, k)))
        return None

    def for_loop_alg(self, st, rest, env, k, where):
        if st.orelse:
            raise Problem("for ... else (%s)" % where)
        it = st.iter
        if isinstance(it, (ast.Tuple, ast.List)):
            # a loop over a literal tuple is unrolled: target = e1; body; target = e2; body; ...
            new = []
            for e in it.elts:
                a = ast.Assign(targets=[st.target], value=e)
                ast.copy_location(a, st)
                ast.fix_missing_locations(a)
                new.append(a)
                new.extend(st.body)
            return self.block(new + rest, env, k)
        if isinstance(it, ast.Call) and isinstance(it.func, ast.Name) and it.func.id == "range" and "range" not in env \
                and len(it.args) == 1 and not it.keywords:
            b0, n0 = self.tx(it.args[0], env)
            if not b0 and n0.kind == "S" and n0.intval is not None and 0 <= n0.intval <= 4:
                new = []                        # range(c) with a small constant c is unrolled as well
                for c in range(n0.intval):
                    a = ast.Assign(targets=[st.target], value=ast.Constant(value=c))
                    ast.copy_location(a, st)
                    ast.fix_missing_locations(a)
                    new.append(a)
                    new.extend(st.body)
                return self.block(new + rest, env, k)
        binds, it_code, ek = self.iterable(it, env, where)
        if isinstance(st.target, ast.Name):
            tnames, tkinds, tpat = [st.target.id], [ek], lname(st.target.id)
        elif isinstance(st.target, ast.Tuple) and all(isinstance(e, ast.Name) for e in st.target.elts) \
                and is_tuple(ek) and len(ek[1]) == len(st.target.elts):
            tnames, tkinds = [e.id for e in st.target.elts], list(ek[1])
            tpat = "(" + ", ".join(lname(n) for n in tnames) + ")"
        else:
            raise Problem("loop target does not fit elements of kind %r (%s)" % (ek, where))
        has_exit = contains_exit_alg(st.body)

        def own_break(stmts_):              # phase 4 (pyalgebraic): a `break` of THIS loop (not of a nested one)
            for s_ in stmts_:
                if isinstance(s_, ast.Break):
                    return True
                if isinstance(s_, ast.If) and (own_break(s_.body) or own_break(s_.orelse)):
                    return True
            return False
        has_break = own_break(st.body)
        if has_break and has_exit:
            raise Problem("a loop with both `break` and `return` / `raise` (%s)" % where)
        if contains_break(st.body) and not has_break:
            raise Problem("`break` in a nested position that is not understood (%s)" % where)
        names = assigned_names(st.body, env)
        if any(n in tnames for n in names):
            raise Problem("the loop variable is re-bound in the loop (%s)" % where)
        carried = [n for n in env if n in names]      # in the order of their definition before the loop
        lost = [n for n in names if n not in carried] + [n for n in tnames if n != "_"]
        kinds = {n: env[n].kind for n in carried}

        def run_body(final):
            envs = []

            def kb(e):
                envs.append(e)
                if not final:
                    return Yield("?")
                cs = [self.coerce(e[n], kinds[n]) for n in carried]
                code = "()" if not cs else cs[0] if len(cs) == 1 else "(" + ", ".join(cs) + ")"
                return Next(code) if (has_exit or has_break) else Yield(code)

            def kbrk(e):                    # phase 4 (pyalgebraic): `break` leaves the loop with the current state
                envs.append(e)
                if not final:
                    return Yield("?")
                cs = [self.coerce(e[n], kinds[n]) for n in carried]
                return BrkA("()" if not cs else cs[0] if len(cs) == 1 else "(" + ", ".join(cs) + ")")
            e0 = dict(env)
            for n in carried:
                e0[n] = Val(kinds[n], lname(n), inplace=env[n].inplace)
                e0[n].unit, e0[n].wide = env[n].unit, env[n].wide
            for n, kd in zip(tnames, tkinds):
                if n != "_":
                    e0[n] = Val(kd, lname(n))
            if has_break:
                self.__dict__.setdefault("break_stack", []).append(kbrk)
                try:
                    return self.block(st.body, e0, kb), envs
                finally:
                    self.break_stack.pop()
            return self.block(st.body, e0, kb), envs
        keep = (self.ntmp, len(self.ret_kinds), len(self.plain_rets))
        for _ in range(4):
            _, envs = run_body(False)
            self.ntmp = keep[0]
            del self.ret_kinds[keep[1]:]
            del self.plain_rets[keep[2]:]
            new = dict(kinds)
            for e in envs:
                for n in carried:
                    if n not in e:
                        raise Problem("variable %s may be unbound after an iteration (%s)" % (n, where))
                    new[n] = unify(new[n], e[n].kind)
            if new == kinds:
                break
            kinds = new
        else:
            raise Problem("the kinds of the loop-carried variables do not settle (%s)" % where)
        for n in carried:
            if is_tuple(kinds[n]) or kinds[n] in ("none", "nan", "VB") or (is_list(kinds[n]) and kinds[n][1] is None):
                raise Problem("loop-carried variable %s of kind %r (%s)" % (n, kinds[n], where))
        body_ir, _ = run_body(True)
        if not carried and not has_exit and not impure(body_ir):
            raise Problem("loop without effect (%s)" % where)
        env2 = dict(env)
        for n in lost:
            env2.pop(n, None)
        for n in carried:
            env2[n] = Val(kinds[n], lname(n), inplace=env[n].inplace)
            env2[n].unit, env2[n].wide = env[n].unit, env[n].wide
        inits = [self.coerce(env[n], kinds[n]) for n in carried]
        if not carried:
            spat, init, sty = "()", "()", "Unit"
        elif len(carried) == 1:
            spat, init, sty = lname(carried[0]), inits[0], lty(kinds[carried[0]])
        else:
            spat = "(" + ", ".join(lname(n) for n in carried) + ")"
            init = "(" + ", ".join(inits) + ")"
            sty = lty(("tuple", tuple(kinds[n] for n in carried)))
        r, res = self.tmp(), self.tmp()
        loop_ir = Loop(it_code, tpat, spat, init, sty, body_ir, self.block(rest, env2, k), has_exit, r, res)
        loop_ir.has_break = has_break       # phase 4 (pyalgebraic)
        return wrap(binds, loop_ir)

    def slice_assign(self, target, value, rest, env, k, where):
        """`x[:] = e` for an array x created by np.empty: x is (re-)bound to e"""
        sl = target.slice
        if isinstance(target.value, ast.Name) and isinstance(self.prealloc.get(target.value.id), tuple) \
                and self.prealloc[target.value.id][0] == "G":
            return self.grid_assign(target.value.id, sl, value, rest, env, k, where)      # phase 4 (pypipeline)
        if self.p4:                                    # phase 4 (pycurve)
            r4 = self.p4_slice_assign(target, value, rest, env, k, where)
            if r4 is not None:
                return r4

        def is_full(x):
            return isinstance(x, ast.Slice) and x.lower is None and x.upper is None and x.step is None
        full = is_full(sl)
        if isinstance(target.value, ast.Name) and target.value.id in env and env[target.value.id].kind in ("MC", "MR"):
            return self.mc_assign(target.value.id, sl, value, rest, env, k, where)
        if isinstance(target.value, ast.Attribute) and target.value.attr == "flat" and isinstance(target.value.value, ast.Name) \
                and target.value.value.id in env and env[target.value.value.id].kind == "MN" \
                and env[target.value.value.id].inplace and not env[target.value.value.id].wide \
                and isinstance(sl, ast.Slice) and sl.lower is not None and sl.upper is None and sl.step is not None:
            # phase 4 (pyalgebraic): `x.flat[start::step] = c` for a 2-D array x created in this function
            name = target.value.value.id
            binds, a = self.tx(sl.lower, env)
            b2, b = self.tx(sl.step, env)
            binds += b2
            b3, c = self.tx(value, env)
            binds += b3
            if not (self.natlike(a) and self.natlike(b)):
                raise Problem("flat slice with bounds of kinds %r, %r (%s)" % (a.kind, b.kind, where))
            c = self.as_scalar(binds, c, "array entry (%s)" % where)
            binds.append(("bind", lname(name), "Rt.setFlat %s %s %s %s"
                          % (lname(name), atom(self.as_nat(a)), atom(self.as_nat(b)), atom(c.code))))
            env2 = dict(env)
            env2[name] = Val("MN", lname(name), inplace=True)
            return wrap(binds, self.block(rest, env2, k))
        if isinstance(target.value, ast.Name) and target.value.id in env and env[target.value.id].kind == "MN" \
                and env[target.value.id].inplace and not env[target.value.id].wide and target.value.id not in self.prealloc \
                and isinstance(sl, ast.Tuple) and len(sl.elts) == 2 and not any(isinstance(x, ast.Slice) for x in sl.elts):
            # phase 4 (pyalgebraic): `x[i, j] = c` for a 2-D array x created in this function
            name = target.value.id
            binds, iv = self.tx(sl.elts[0], env)
            b2, jv = self.tx(sl.elts[1], env)
            binds += b2
            b3, c = self.tx(value, env)
            binds += b3
            if not (self.is_int(iv) and self.is_int(jv)):
                raise Problem("cell assignment with indices of kinds %r, %r (%s)" % (iv.kind, jv.kind, where))
            c = self.as_scalar(binds, c, "array entry (%s)" % where)
            binds.append(("bind", lname(name), "Rt.setCell %s %s %s %s"
                          % (lname(name), atom(self.as_int(iv)), atom(self.as_int(jv)), atom(c.code))))
            env2 = dict(env)
            env2[name] = Val("MN", lname(name), inplace=True)
            return wrap(binds, self.block(rest, env2, k))
        if isinstance(target.value, ast.Name) and target.value.id in env and env[target.value.id].kind == "MN" \
                and env[target.value.id].inplace and not env[target.value.id].wide and target.value.id not in self.prealloc \
                and isinstance(sl, ast.Tuple) and len(sl.elts) == 2 and is_full(sl.elts[1]) \
                and not isinstance(sl.elts[0], ast.Slice):
            # phase 4 (pyalgebraic): `x[i, :] = v` for a 2-D array x created in this function
            name = target.value.id
            binds, iv = self.tx(sl.elts[0], env)
            b2, v = self.tx(value, env)
            binds += b2
            if not self.natlike(iv) or v.kind != "V":
                raise Problem("row assignment with index of kind %r and value of kind %r (%s)" % (iv.kind, v.kind, where))
            binds.append(("bind", lname(name), "Rt.setRow %s %s %s" % (lname(name), atom(self.as_nat(iv)), atom(v.code))))
            env2 = dict(env)
            env2[name] = Val("MN", lname(name), inplace=True)
            return wrap(binds, self.block(rest, env2, k))
        if isinstance(target.value, ast.Name) and target.value.id in env and env[target.value.id].kind == "MN" \
                and env[target.value.id].inplace and not env[target.value.id].wide and target.value.id not in self.prealloc \
                and isinstance(sl, ast.Tuple) and len(sl.elts) == 2 and all(isinstance(x, ast.Slice) for x in sl.elts):
            # phase 4 (pyalgebraic): `x[r0:r1, c0:c1] = e` for a 2-D array x created in this function (np.zeros)
            name = target.value.id
            binds, v = self.tx(value, env)
            if v.kind != "MN" or v.wide:
                raise Problem("block assignment of a value of kind %r (%s)" % (v.kind, where))
            rlo, rhi = self.slice_bounds(binds, sl.elts[0], env, where)
            clo, chi = self.slice_bounds(binds, sl.elts[1], env, where)
            binds.append(("bind", lname(name), "Rt.setBlock %s %s %s %s %s %s"
                          % (lname(name), rlo, rhi, clo, chi, atom(v.code))))
            env2 = dict(env)
            env2[name] = Val("MN", lname(name), inplace=True)
            return wrap(binds, self.block(rest, env2, k))
        if isinstance(target.value, ast.Name) and isinstance(self.prealloc.get(target.value.id), tuple) \
                and isinstance(sl, ast.Tuple) and len(sl.elts) == 3 and is_full(sl.elts[0]):
            return self.wide_assign(target.value.id, sl.elts[1], sl.elts[2], value, rest, env, k, where)
        if isinstance(target.value, ast.Name) and self.prealloc.get(target.value.id) == "J22" \
                and isinstance(sl, ast.Tuple) and len(sl.elts) == 2 and is_full(sl.elts[0]) \
                and isinstance(sl.elts[1], ast.Slice) and sl.elts[1].step is None:
            # a 2 x 2 array filled by columns: `x[:, :1] = c0`, `x[:, 1:] = c1` with d x 1 arrays c0, c1 (d must be 2)
            lo, hi = sl.elts[1].lower, sl.elts[1].upper
            col = 0 if (lo is None and self.const_int(hi) == 1) else 1 if (hi is None and self.const_int(lo) == 1) else None
            name = target.value.id
            binds, v = self.tx(value, env)
            if col is None or v.kind != "C":
                raise Problem("assignment target %s / value of kind %r (%s)" % (ast.unparse(target), v.kind, where))
            t = self.tmp()
            binds.append(("bind", t, "Rt.asPt %s" % atom(v.code)))
            cur = dict(env[name].cols) if name in env and env[name].kind == "J22" else {}
            cur[col] = t
            env2 = dict(env)
            if len(cur) == 2:
                cells = [["%s.1" % cur[0], "%s.1" % cur[1]], ["%s.2" % cur[0], "%s.2" % cur[1]]]
                code = "[[%s, %s], [%s, %s]]" % (cells[0][0], cells[0][1], cells[1][0], cells[1][1])
                env2[name] = Val("M22", lname(name), cells=None)
                return wrap(binds, Let(lname(name), code, self.block(rest, env2, k)))
            part = Val("J22", "?")
            part.cols = cur
            env2[name] = part
            return wrap(binds, self.block(rest, env2, k))
        if not (isinstance(target.value, ast.Name) and full and target.value.id in self.prealloc):
            raise Problem("assignment target %s (%s)" % (ast.unparse(target), where))
        name = target.value.id
        if name in env and not env[name].inplace:
            raise Problem("slice assignment to %s (%s)" % (name, where))
        binds, v = self.tx(value, env)
        if v.kind != self.prealloc[name] or v.inplace:
            raise Problem("`%s[:] = ...` with a value of kind %r (%s)" % (name, v.kind, where))
        env2 = dict(env)
        env2[name] = Val(v.kind, lname(name), inplace=True)
        return wrap(binds, Let(lname(name), v.code, self.block(rest, env2, k)))

    # phase 4 (pytri): `x = np.empty((d, k))` filled column by column (`x[:, j] = col`, `x[0, j] = number` when d is the
    # constant 1) or by the two row blocks `x[:a, :] = A`, `x[a:, :] = B`.  Kind MC: the rows written so far
    # (Rt.mcNew / Rt.pushCol); reading the variable is Rt.mcFreeze.  Kind MR: only the first row block is there.
    def mc_create(self, name, pk, rest, env, k, where):
        _, dv, kv = pk
        td, tk = self.tmp(), self.tmp()
        if not hasattr(self, "mc_dims"):
            self.mc_dims = {}
        self.mc_dims[name] = (td, tk, dv.intval if dv.kind == "S" else None)
        env2 = dict(env)
        env2[name] = Val("MC", lname(name), inplace=True)
        ir = Let(td, self.dim_nat(dv), Let(tk, self.dim_nat(kv),
                 Let(lname(name), "(Rt.mcNew %s : List (List K))" % td, self.block(rest, env2, k))))
        for dim in (kv, dv):                            # a negative dimension: ValueError
            if not self.natlike(dim):
                ir = Ite("%s < 0" % atom(self.as_int(dim)), Fail("valueError"), ir)
        return ir

    def mc_assign(self, name, sl, value, rest, env, k, where):
        def is_full(x):
            return isinstance(x, ast.Slice) and x.lower is None and x.upper is None and x.step is None
        cur = env[name]
        td, tk, dconst = self.mc_dims[name]
        if not (isinstance(sl, ast.Tuple) and len(sl.elts) == 2):
            raise Problem("assignment target %s[...] (%s)" % (name, where))
        first, second = sl.elts
        binds, v = self.tx(value, env)
        if v.inplace and isinstance(value, ast.Name):
            raise Problem("copy of an array that is updated in place (%s)" % where)
        env2 = dict(env)
        if cur.kind == "MC" and not isinstance(second, ast.Slice) and (is_full(first) or (
                dconst == 1 and self.const_index_opt(first) == 0)):
            b2, jv = self.tx(second, env)
            binds += b2
            if not self.is_int(jv):
                raise Problem("column index of kind %r (%s)" % (jv.kind, where))
            if is_full(first):
                if v.kind == "P":
                    col = "[%s.1, %s.2]" % (atom(v.code), atom(v.code))
                elif v.kind in ("V", "C"):
                    col = atom(v.code)
                else:
                    raise Problem("`%s[:, j] = ...` with a value of kind %r (%s)" % (name, v.kind, where))
            else:
                col = "[%s]" % self.as_scalar(binds, v, "array entry (%s)" % where).code
            binds.append(("bind", lname(name), "Rt.pushCol %s %s %s %s" % (tk, lname(name), atom(self.as_int(jv)), col)))
            env2[name] = Val("MC", lname(name), inplace=True)
            return wrap(binds, self.block(rest, env2, k))
        if is_full(second) and isinstance(first, ast.Slice) and first.step is None and v.kind == "MN":
            lo, hi = first.lower, first.upper
            if cur.kind == "MC" and lo is None and isinstance(hi, ast.Name) and hi.id in env and self.natlike(env[hi.id]):
                a = atom(self.as_nat(env[hi.id]))
                new = Val("MR", lname(name), inplace=True)
                new.split = (hi.id, env[hi.id])
                env2[name] = new
                binds.append(("bind", lname(name), "Rt.mcRows0 %s %s %s %s" % (lname(name), a, tk, atom(v.code))))
                return wrap(binds, self.block(rest, env2, k))
            if cur.kind == "MR" and hi is None and isinstance(lo, ast.Name) and cur.split[0] == lo.id \
                    and env.get(lo.id) is cur.split[1]:
                a = atom(self.as_nat(env[lo.id]))
                t = self.tmp()
                binds.append(("bind", t, "Rt.asShape (%s - %s) %s %s" % (td, a, tk, atom(v.code))))
                env2[name] = Val("MN", lname(name), inplace=True)
                return wrap(binds, Let(lname(name), "%s ++ %s" % (lname(name), t), self.block(rest, env2, k)))
        raise Problem("assignment target %s[%s] (%s)" % (name, ast.unparse(sl), where))

    def fresh_call(self, value):
        """phase 4: is `value` a call of a translated function all of whose `return` expressions build a new array
        (a call, possibly followed by `.T`), so that nothing else can refer to the result?"""
        if not (isinstance(value, ast.Call) and isinstance(value.func, (ast.Name, ast.Attribute))):
            return False
        f = value.func
        if isinstance(f, ast.Name):
            mod, fn = self.modname, f.id
        elif isinstance(f.value, ast.Name) and self.mod.aliases.get(f.value.id) not in (None, "numpy", "bisect"):
            mod, fn = self.mod.aliases[f.value.id], f.attr
        else:
            return False
        if (mod, fn) not in self.tr.sigs:
            return False
        node = self.tr.module(mod).funcs.get(fn)
        if node is None:
            return False
        rets = [n for n in ast.walk(node) if isinstance(n, ast.Return)]
        for r in rets:
            e = r.value
            while isinstance(e, ast.Attribute) and e.attr == "T":
                e = e.value
            if not isinstance(e, ast.Call):
                return False
        return bool(rets)
    def grid_assign(self, name, sl, value, rest, env, k, where):
        """phase 4 (pypipeline): `x = np.empty((r, c))` with constant r, c <= 4, filled by `x[i, j] = scalar`,
        `x[i, :] = scalar`, `x[a:b, j0:j1] = <d x 1 array>` (a region of 2 rows and 1 column).  The cells are tracked
        one by one; `x` has no value until every cell is assigned (reading it before is refused), then it is the
        r x c array of the cells (kind MN); a cell assigned twice or an assignment after that is refused."""
        _, r, c = self.prealloc[name]
        if not (isinstance(sl, ast.Tuple) and len(sl.elts) == 2):
            raise Problem("assignment target %s[%s] (%s)" % (name, ast.unparse(sl), where))

        def rng(x, n):
            if isinstance(x, ast.Slice):
                if x.step is not None:
                    raise Problem("slice with a step (%s)" % where)
                lo = None if x.lower is None else self.const_int(x.lower)
                hi = None if x.upper is None else self.const_int(x.upper)
                if (x.lower is not None and lo is None) or (x.upper is not None and hi is None):
                    raise Problem("non-constant slice bound (%s)" % where)
                return list(range(n))[slice(lo, hi)], True
            i = self.const_int(x)
            if i is None or not -n <= i < n:
                raise Problem("index %s into an axis of length %d (%s)" % (ast.unparse(x), n, where))
            return [i % n], False
        rows, rs = rng(sl.elts[0], r)
        cols, cs = rng(sl.elts[1], c)
        if not rows or not cols:
            raise Problem("empty region %s[%s] (%s)" % (name, ast.unparse(sl), where))
        if name in env and env[name].kind != "G":
            raise Problem("assignment to %s after all of its cells have been assigned (%s)" % (name, where))
        cur = dict(env[name].cells) if name in env else {}
        binds, v = self.tx(value, env)
        if v.kind in ("S", "I", "N"):
            v = self.as_scalar(binds, v, "array entry (%s)" % where)
            t = self.tmp()
            binds.append(("let", t, v.code))
            new = {(i, j): t for i in rows for j in cols}
        elif v.kind == "C" and rs and cs and len(rows) == 2 and len(cols) == 1:
            t = self.tmp()
            binds.append(("bind", t, "Rt.asPt %s" % atom(v.code)))     # a 2 x 1 value (anything else: badInput)
            new = {(rows[0], cols[0]): "%s.1" % t, (rows[1], cols[0]): "%s.2" % t}
        else:
            raise Problem("assignment of a value of kind %r to the region %s[%s] (%s)" % (v.kind, name, ast.unparse(sl), where))
        if set(new) & set(cur):
            raise Problem("a cell of %s is assigned twice (%s)" % (name, where))
        cur.update(new)
        env2 = dict(env)
        if len(cur) == r * c:
            code = "[" + ", ".join("[" + ", ".join(cur[(i, j)] for j in range(c)) + "]" for i in range(r)) + "]"
            env2[name] = Val("MN", lname(name))
            return wrap(binds, Let(lname(name), code, self.block(rest, env2, k)))
        part = Val("G", "?")
        part.cells = cur
        env2[name] = part
        return wrap(binds, self.block(rest, env2, k))

    def release_inplace(self, env):
        """phase 4 (pyalgebraic): the environment of a `return (..)` expression: arrays created in the function are plain values"""
        out = dict(env)
        for n, v in env.items():
            if v.inplace and v.kind in ("V", "MN") and not v.wide:
                c = Val(v.kind, v.code)
                out[n] = c
        return out

    def none_test(self, test, env):
        """phase 4 (pyalgebraic): `x is None` -> (x, True), `x is not None` -> (x, False) for a maybe-None variable x"""
        if self.modname != "algebraic_intersection":      # merge: the other modules render `is None` their own way
            return None
        if isinstance(test, ast.Compare) and len(test.ops) == 1 and isinstance(test.ops[0], (ast.Is, ast.IsNot)) \
                and isinstance(test.left, ast.Name) and test.left.id in env and isinstance(test.comparators[0], ast.Constant) \
                and test.comparators[0].value is None and is_opt(env[test.left.id].kind) and env[test.left.id].kind[2] == "none" \
                and env[test.left.id].code == lname(test.left.id):
            return test.left.id, isinstance(test.ops[0], ast.Is)
        return None

    def harmonize_int_returns(self, ir):
        """phase 4 (pyalgebraic): `return None, 0, 0` next to `return x, degree, n`: an integer CONSTANT in a position of a
        returned tuple where another `return` delivers a Python int is that int (not a float)"""
        leaves = []

        def walk(x):
            if isinstance(x, Leaf):
                leaves.append(x)
            elif isinstance(x, (Let, Shape)):
                walk(x.body)
            elif isinstance(x, Bind):
                if isinstance(x.code, MIf):
                    walk(x.code.then)
                    walk(x.code.els)
                walk(x.body)
            elif isinstance(x, (Ite, MatchOpt)):
                walk(x.then)
                walk(x.els)
            elif isinstance(x, Phi):
                walk(x.then)
                walk(x.els)
                walk(x.body)
            elif isinstance(x, Loop):
                walk(x.body)
                walk(x.rest)
            elif isinstance(x, WhileIR):
                walk(x.rest)
        walk(ir)
        vals = [l.val for l in leaves]
        if len(vals) < 2 or not all(is_tuple(v.kind) and v.comps and all(isinstance(c, Val) for c in v.comps) for v in vals) \
                or len({len(v.comps) for v in vals}) != 1 or self.mut_params:
            return
        changed = False
        for i in range(len(vals[0].comps)):
            kinds_i = [v.comps[i].kind for v in vals]
            if any(kd in ("I", "N") for kd in kinds_i) and any(kd == "S" for kd in kinds_i):
                for v in vals:
                    c = v.comps[i]
                    if c.kind == "S" and c.intval is not None:
                        v.comps[i] = Val("N", "(%d : Nat)" % c.intval) if c.intval >= 0 else Val("I", "(%d : Int)" % c.intval)
                        changed = True
        if changed:
            for v in vals:
                v.kind = ("tuple", tuple(c.kind for c in v.comps))
                v.code = "(" + ", ".join(c.code for c in v.comps) + ")"
            self.ret_kinds = [v.kind for v in vals]

    def aug_subscript(self, st, rest, env, k, where):
        """phase 4 (pyalgebraic): `x[:, lo:hi] *= c` / `/= c` for a 2-D array x created in this function"""
        t = st.target
        sl = t.slice
        if isinstance(t.value, ast.Name) and t.value.id in env and env[t.value.id].kind == "V" and env[t.value.id].inplace \
                and not isinstance(sl, (ast.Tuple, ast.Slice)) and isinstance(st.op, (ast.Mult, ast.Div, ast.Add, ast.Sub)):
            # `v[i] op= c` for a 1-D array created in this function
            name = t.value.id
            binds, iv = self.tx(sl, env)
            if not self.natlike(iv):
                raise Problem("index of kind %r in an augmented assignment (%s)" % (iv.kind, where))
            b2, c = self.tx(st.value, env)
            binds += b2
            c = self.as_scalar(binds, c, "operand of an augmented assignment (%s)" % where)
            op = {ast.Mult: "*", ast.Div: "/", ast.Add: "+", ast.Sub: "-"}[type(st.op)]
            binds.append(("bind", lname(name), "Rt.updIdx (fun x => x %s %s) %s %s"
                          % (op, atom(c.code), lname(name), atom(self.as_nat(iv)))))
            env2 = dict(env)
            env2[name] = Val("V", lname(name), inplace=True)
            return wrap(binds, self.block(rest, env2, k))
        ok = isinstance(t.value, ast.Name) and t.value.id in env and env[t.value.id].kind == "MN" \
            and env[t.value.id].inplace and not env[t.value.id].wide and isinstance(sl, ast.Tuple) and len(sl.elts) == 2 \
            and isinstance(sl.elts[0], ast.Slice) and sl.elts[0].lower is None and sl.elts[0].upper is None \
            and sl.elts[0].step is None and isinstance(sl.elts[1], ast.Slice) and isinstance(st.op, (ast.Mult, ast.Div))
        if not ok:
            raise Problem("augmented assignment to %s (%s)" % (ast.unparse(t), where))
        name = t.value.id
        binds, c = self.tx(st.value, env)
        c = self.as_scalar(binds, c, "factor of an array (%s)" % where)
        lo, hi = self.slice_bounds(binds, sl.elts[1], env, where)
        op = "*" if isinstance(st.op, ast.Mult) else "/"
        env2 = dict(env)
        env2[name] = Val("MN", lname(name), inplace=True)
        return wrap(binds, Let(lname(name), "Rt.mapCols (fun x => x %s %s) %s %s %s" % (op, atom(c.code), lname(name), lo, hi),
                               self.block(rest, env2, k)))

    def const_array(self, node):
        """phase 4 (pyalgebraic): a module constant that is a 1-D array literal -> (Lean name, exact values) or None"""
        if not (isinstance(node, ast.Name) and node.id in self.mod.consts and node.id not in self.locals_):
            return None
        e = self.mod.consts[node.id]
        if not (isinstance(e, ast.Call) and isinstance(e.func, ast.Attribute) and e.func.attr in ("asfortranarray", "array")
                and isinstance(e.func.value, ast.Name) and self.mod.aliases.get(e.func.value.id) == "numpy"
                and len(e.args) == 1 and not e.keywords and isinstance(e.args[0], ast.List) and e.args[0].elts):
            return None
        vals = []
        for x in e.args[0].elts:
            if isinstance(x, ast.Call) and isinstance(x.func, ast.Attribute) and x.func.attr == "fromhex" \
                    and isinstance(x.func.value, ast.Name) and x.func.value.id == "float" and len(x.args) == 1 \
                    and not x.keywords and isinstance(x.args[0], ast.Constant) and isinstance(x.args[0].value, str):
                try:
                    f = float.fromhex(x.args[0].value)
                except ValueError:
                    return None
                if f != f or f in (float("inf"), float("-inf")):
                    return None
                vals.append(Fr(f))
            else:
                c = self.const_eval(x)
                if c is None:
                    return None
                vals.append(c)
        lean = "%s.%s" % (self.modname, node.id.lstrip("_"))
        table = self.tr.__dict__.setdefault("const_arrays", {})
        if lean in table and table[lean][0] != (self.modname, node.id):
            raise Problem("module constants %s and %s get the same Lean name" % (node.id, table[lean][0][1]))
        table[lean] = ((self.modname, node.id), vals)
        return lean, vals

    def dim_nat(self, v):
        return self.as_nat(v) if self.natlike(v) else "Int.toNat %s" % atom(self.as_int(v))

    def slice_bounds(self, binds, sl, env, where):
        if not isinstance(sl, ast.Slice) or sl.step is not None:
            raise Problem("slice %s (%s)" % (ast.unparse(sl), where))
        out = []
        for bnd in (sl.lower, sl.upper):
            if bnd is None:
                out.append("none")
            else:
                b2, bv = self.tx(bnd, env)
                binds += b2
                if not self.is_int(bv):
                    raise Problem("slice bound of kind %r (%s)" % (bv.kind, where))
                out.append("(some %s)" % atom(self.as_int(bv)))
        return out

    def wide_assign(self, name, mid, last, value, rest, env, k, where):
        """assignments to an array `x = np.empty((d, 1, k))`:  `x[:, 0, :] = e` (all of it), `x[:, :, lo:hi] = e`"""
        _, dv, kv = self.prealloc[name]
        binds, v = self.tx(value, env)
        if v.inplace and isinstance(value, ast.Name):
            raise Problem("copy of an array that is updated in place (%s)" % where)
        env2 = dict(env)
        new = Val("MN", lname(name), inplace=True)
        new.wide = True
        env2[name] = new
        mid_full = isinstance(mid, ast.Slice) and mid.lower is None and mid.upper is None and mid.step is None
        last_full = isinstance(last, ast.Slice) and last.lower is None and last.upper is None and last.step is None
        if not mid_full and last_full:
            b2, mv = self.tx(mid, env)
            if b2 or not (mv.kind == "S" and mv.intval == 0):
                raise Problem("index %s into an axis of length 1 (%s)" % (ast.unparse(mid), where))
            d, kk = atom(self.dim_nat(dv)), atom(self.dim_nat(kv))
            if v.kind in ("S", "I", "N"):
                v = self.as_scalar(binds, v, "array entry (%s)" % where)
                return wrap(binds, Let(lname(name), "Rt.mfill %s %s %s" % (d, kk, atom(v.code)), self.block(rest, env2, k)))
            if v.kind == "MN":
                binds.append(("bind", lname(name), "Rt.asShape %s %s %s" % (d, kk, atom(v.code))))
                return wrap(binds, self.block(rest, env2, k))
            raise Problem("assignment of a value of kind %r to a 3-D array (%s)" % (v.kind, where))
        if mid_full and not last_full:
            if name not in env or not (env[name].wide and env[name].inplace) or v.kind != "MN":
                raise Problem("partial assignment to %s (%s)" % (name, where))
            lo, hi = self.slice_bounds(binds, last, env, where)
            binds.append(("bind", lname(name), "Rt.setCols %s %s %s %s" % (lname(name), lo, hi, atom(v.code))))
            return wrap(binds, self.block(rest, env2, k))
        raise Problem("assignment target %s[...] (%s)" % (name, where))

    def assign(self, target, value, rest, env, k, where):
        if isinstance(target, ast.Subscript):
            return self.slice_assign(target, value, rest, env, k, where)
        if self.p4:                                    # phase 4 (pycurve)
            r4 = self.p4_assign(target, value, rest, env, k, where)
            if r4 is not None:
                return r4
        if isinstance(target, ast.Name) and self.np_empty_kind(value, env) is not None:
            # np.empty(...): no value until the array is overwritten (`x[:] = ...`); reading it before is refused
            pk = self.np_empty_kind(value, env)
            if isinstance(pk, tuple) and pk[0] == "MC":
                return self.mc_create(target.id, pk, rest, env, k, where)
            self.prealloc[target.id] = pk
            env2 = dict(env)
            env2.pop(target.id, None)
            ir = self.block(rest, env2, k)
            if isinstance(pk, tuple) and pk[0] == "W":
                for dim in (pk[2], pk[1]):          # a negative dimension: ValueError
                    if not self.natlike(dim) and (dim.code, id(env.get(dim.code))) not in self.guarded:
                        self.guarded.add((dim.code, id(env.get(dim.code))))
                        ir = Ite("%s < 0" % atom(self.as_int(dim)), Fail("valueError"), ir)
            return ir
        sp = self.assign_special(target, value, rest, env, k, where)        # phase 4 (pypipeline)
        if sp is not None:
            return sp
        binds, v = self.tx(value, env)
        env2 = dict(env)
        if isinstance(value, ast.Name) and (v.inplace or is_list(v.kind)):
            raise Problem("a second name for a list / an array that is updated in place (%s)" % where)
        if getattr(v, "view", False) and v.inplace:
            raise Problem("a name for a view (`.ravel`) of an array that is updated in place (%s)" % where)
        if isinstance(target, ast.Name) and getattr(v, "fresh", False) and v.kind == "C" and any(
                isinstance(n, ast.AugAssign) and isinstance(n.target, ast.Name) and n.target.id == target.id
                for n in ast.walk(self.fn_node)):
            # phase 4 (pyclassify): `x = f(..)` followed by `x *= c`: the result of `f` is a new array (every `return` of
            # `f` delivers the value of an arithmetic expression), so `x` is its only name and may be updated in place
            v.owned = True
        if isinstance(target, ast.Name) and target.id != "_" and v.kind == "none" and (
                isinstance(value, ast.Constant) or (not binds and isinstance(value, ast.Name))):
            # phase 4 (pypipeline, pyclassify): `x = None` - no Lean binding; x is the literal None until it is re-bound / meets a
            # value (loop-carried variable, `if` arm: kind settled by unification); used as a number it is a TypeError
            # (`Err.badInput`, see `need`)
            env2[target.id] = Val("none", "none")
            return self.block(rest, env2, k)
        if isinstance(target, ast.Name) and v.kind == "none" and isinstance(value, ast.Constant) and not binds \
                and target.id != "_":
            # phase 4 (pyalgebraic): `x = None`: x is a maybe-None variable once a loop / an if gives it a value
            env2[target.id] = Val("none", "none")
            return self.block(rest, env2, k)
        if isinstance(target, ast.Name) and target.id in getattr(self, "int_vars", set()) and v.kind == "S" \
                and v.intval is not None and not binds:
            # phase 4 (pyalgebraic): an integer constant assigned to a variable that holds a Python int elsewhere
            v = Val("N", "(%d : Nat)" % v.intval) if v.intval >= 0 else Val("I", "(%d : Int)" % v.intval)
        if isinstance(target, ast.Name) and v.kind == "VB" and target.id != "_":
            # phase 4 (pyalgebraic): a boolean array bound to a name (`real_inds = np.abs(..) < ..`)
            env2[target.id] = Val("VB", lname(target.id))
            if binds and binds[-1][0] == "bind" and binds[-1][1] == v.code:
                binds = binds[:-1] + [("bind", lname(target.id), binds[-1][2])]
                return wrap(binds, self.block(rest, env2, k))
            return wrap(binds, Let(lname(target.id), v.code, self.block(rest, env2, k)))
        if isinstance(target, ast.Name):
            if v.kind in ("none", "nan") or v.kind == "VB":
                raise Problem("assignment of a value of kind %r (%s)" % (v.kind, where))
            n = lname(target.id)
            if target.id == "_":
                raise Problem("assignment to _ (%s)" % where)
            if is_tuple(v.kind):
                env2[target.id] = Val(v.kind, n)
            else:
                # components / cells are NOT remembered: the names they mention may be re-bound later
                # (rows / cells of a parameter are fresh names bound once at entry, so an alias may keep them)
                is_param_struct = v.code in self.param_names
                env2[target.id] = Val(v.kind, n, cells=v.cells if is_param_struct else None,
                                      rows=v.rows if is_param_struct else None,
                                      inplace=v.owned or getattr(self, "aug_owner", None) == target.id)
                env2[target.id].unit = v.unit and v.kind == "S"
                env2[target.id].intval = v.intval if v.kind == "S" else None
                env2[target.id].wide = v.wide and is_param_struct
                # phase 4: the value of a call of a translated function whose every `return` delivers a new array
                env2[target.id].fresh = v.kind == "MN" and (self.fresh_call(value) or (
                    isinstance(value, ast.BinOp) and isinstance(value.left, ast.Name) and value.left.id == target.id
                    and getattr(env.get(target.id), "fresh", False)))
                self.aug_owner = None
            if binds and binds[-1][0] == "bind" and binds[-1][1] == v.code:
                binds = binds[:-1] + [("bind", n, binds[-1][2])]
                return wrap(binds, self.block(rest, env2, k))
            return wrap(binds, Let(n, v.code, self.block(rest, env2, k)))
        if self.modname == "algebraic_intersection" and isinstance(target, (ast.Tuple, ast.List)) and v.kind == "C" and all(
                isinstance(e, (ast.Tuple, ast.List)) and len(e.elts) == 1 and isinstance(e.elts[0], ast.Name)
                for e in target.elts):
            # phase 4 (pyalgebraic): `(x,), (y,) = <d x 1 array>`: every row has exactly one entry
            target = ast.Tuple(elts=[e.elts[0] for e in target.elts], ctx=ast.Store())
        if isinstance(target, (ast.Tuple, ast.List)):
            names = []
            if len(target.elts) == 2 and v.kind == "C" and all(
                    isinstance(e, ast.Tuple) and len(e.elts) == 1 and isinstance(e.elts[0], ast.Name)
                    and e.elts[0].id != "_" for e in target.elts):
                # phase 4: `(x,), (y,) = <d x 1 array>`: d must be 2
                for e in target.elts:
                    env2[e.elts[0].id] = Val("S", lname(e.elts[0].id))
                binds.append(("bind", "(%s, %s)" % tuple(lname(e.elts[0].id) for e in target.elts),
                              "Rt.asPt %s" % atom(v.code)))
                return wrap(binds, self.block(rest, env2, k))
            for e in target.elts:
                if not isinstance(e, ast.Name):
                    raise Problem("nested unpacking (%s)" % where)
                names.append(e.id)
            if is_tuple(v.kind):
                kinds = list(v.kind[1])
            elif v.kind == "P":
                kinds = ["S", "S"]
            elif v.kind in ("V", "C") and 2 <= len(names) <= 4 and self.modname == "algebraic_intersection":        # phase 4 (pyalgebraic)
                t = self.tmp()
                binds.append(("bind", t, "Rt.unpack%d %s" % (len(names), atom(v.code))))
                kinds = ["S"] * len(names)
                v = Val(("tuple", tuple(kinds)), t)
            elif v.kind == "V" and all(n == "_" or lname(n) == n for n in names):
                # phase 4: `a, b, c = <1-D array>`: exactly that many entries (ValueError otherwise; here badInput)
                for n in names:
                    if n != "_":
                        env2[n] = Val("S", n)
                return wrap(binds, Shape(v.code, "[" + ", ".join(names) + "]", self.block(rest, env2, k)))
            else:
                raise Problem("unpacking a value of kind %r (%s)" % (v.kind, where))
            if len(kinds) != len(names):
                raise Problem("unpacking %d values into %d names (%s)" % (len(kinds), len(names), where))
            for i, (n, kd) in enumerate(zip(names, kinds)):
                if n != "_":
                    if kd in ("none", "nan"):
                        raise Problem("unpacked position is always None (%s)" % where)
                    env2[n] = Val(kd, lname(n), intval=v.comps[i].intval if v.comps and isinstance(v.comps[i], Val) else None)
            pat = "(" + ", ".join(lname(n) for n in names) + ")" if len(names) > 1 else lname(names[0])
            if len(names) == 1 and v.comps:
                v = v.comps[0]
            if binds and binds[-1][0] == "bind" and binds[-1][1] == v.code:
                binds = binds[:-1] + [("bind", pat, binds[-1][2])]
                return wrap(binds, self.block(rest, env2, k))
            return wrap(binds, Let(pat, v.code, self.block(rest, env2, k)))
        raise Problem("assignment target %s (%s)" % (type(target).__name__, where))

    # -------------------------------------------------------------- expressions
    def const_eval(self, node, mod=None, depth=0):
        """exact value of a constant numeric expression (or None); the float evaluation must be exact"""
        mod = mod or self.mod
        if depth > 8:
            return None
        if isinstance(node, ast.Constant):
            v = node.value
            if isinstance(v, bool) or not isinstance(v, (int, float)):
                return None
            if isinstance(v, float) and (v != v or v in (float("inf"), float("-inf"))):
                return None
            return Fr(v)
        if isinstance(node, ast.UnaryOp) and isinstance(node.op, ast.USub):
            v = self.const_eval(node.operand, mod, depth + 1)
            return None if v is None else -v
        if isinstance(node, ast.BinOp):
            a = self.const_eval(node.left, mod, depth + 1)
            b = self.const_eval(node.right, mod, depth + 1)
            if a is None or b is None:
                return None
            try:
                if isinstance(node.op, ast.Add):
                    r = a + b
                elif isinstance(node.op, ast.Sub):
                    r = a - b
                elif isinstance(node.op, ast.Mult):
                    r = a * b
                elif isinstance(node.op, ast.Div):
                    r = a / b
                elif isinstance(node.op, ast.Pow) and b.denominator == 1 and abs(b) <= 1100:
                    r = a ** int(b)
                else:
                    return None
                if Fr(float(r)) != r:
                    raise Problem("constant expression is not exact in binary64 (line %d)" % node.lineno)
            except (ZeroDivisionError, OverflowError):
                raise Problem("constant expression cannot be evaluated (line %d)" % node.lineno)
            return r
        if isinstance(node, ast.Name) and node.id in mod.consts and (mod is not self.mod or node.id not in self.locals_):
            return self.const_eval(mod.consts[node.id], mod, depth + 1)
        if isinstance(node, ast.Attribute) and isinstance(node.value, ast.Name):
            al = mod.aliases.get(node.value.id)
            if al and al != "numpy":
                other = self.tr.module(al)
                if node.attr in other.consts:
                    return self.const_eval(other.consts[node.attr], other, depth + 1)
        return None

    def array_const(self, node):
        """phase 4: `np.asfortranarray(<list of numbers | list of equally long lists of numbers>[, dtype=NAME])`, optionally
        divided by a numeric constant -> ("V", [values]) / ("MN", [[values]]); every entry must be exact in binary64"""
        div = Fr(1)
        if isinstance(node, ast.BinOp) and isinstance(node.op, ast.Div):
            div = self.const_eval(node.right)
            node = node.left
            if div is None or div == 0:
                return None
        if not (isinstance(node, ast.Call) and isinstance(node.func, ast.Attribute) and node.func.attr == "asfortranarray"
                and isinstance(node.func.value, ast.Name) and self.mod.aliases.get(node.func.value.id) == "numpy"
                and len(node.args) == 1 and isinstance(node.args[0], ast.List) and node.args[0].elts
                and all(k.arg == "dtype" and isinstance(k.value, ast.Name) and k.value.id in ("_FLOAT64", "FLOAT64")
                        for k in node.keywords)):
            return None

        def num(e):
            if isinstance(e, ast.UnaryOp) and isinstance(e.op, ast.USub):
                v = num(e.operand)
                return None if v is None else -v
            if isinstance(e, ast.Constant) and isinstance(e.value, (int, float)) and not isinstance(e.value, bool):
                v = Fr(e.value) / div
                return v if Fr(float(v)) == v else None
            return None
        elts = node.args[0].elts
        if all(isinstance(e, ast.List) for e in elts):
            rows = [[num(x) for x in e.elts] for e in elts]
            if any(len(r) != len(rows[0]) or not r or None in r for r in rows):
                return None
            return "MN", rows
        vals = [num(e) for e in elts]
        if None in vals:
            return None
        return "V", vals

    def const_int(self, node, mod=None, depth=0):
        """value of an integer-typed constant expression (Python int arithmetic), or None"""
        mod = mod or self.mod
        if depth > 8:
            return None
        if isinstance(node, ast.Constant):
            return node.value if isinstance(node.value, int) and not isinstance(node.value, bool) else None
        if isinstance(node, ast.UnaryOp) and isinstance(node.op, ast.USub):
            v = self.const_int(node.operand, mod, depth + 1)
            return None if v is None else -v
        if isinstance(node, ast.BinOp) and isinstance(node.op, (ast.Add, ast.Sub, ast.Mult)):
            a = self.const_int(node.left, mod, depth + 1)
            b = self.const_int(node.right, mod, depth + 1)
            if a is None or b is None:
                return None
            return a + b if isinstance(node.op, ast.Add) else a - b if isinstance(node.op, ast.Sub) else a * b
        if isinstance(node, ast.Name) and node.id in mod.consts and (mod is not self.mod or node.id not in self.locals_):
            return self.const_int(mod.consts[node.id], mod, depth + 1)
        return None

    # Python ints: kind N (a natural number: a length, a shape entry, a range index) or I (any int); an
    # integer-typed constant is a number literal that remembers its value
    @staticmethod
    def is_int(v):
        return v.kind in ("I", "N") or (v.kind == "S" and v.intval is not None)

    @staticmethod
    def natlike(v):
        return v.kind == "N" or (v.kind == "S" and v.intval is not None and v.intval >= 0)

    @staticmethod
    def as_int(v):
        if v.kind == "I":
            return v.code
        if v.kind == "N":
            return "(%s : Int)" % v.code
        return "(%d : Int)" % v.intval

    @staticmethod
    def as_nat(v):
        return v.code if v.kind == "N" else "(%d : Nat)" % v.intval

    def as_scalar(self, binds, v, what):
        """a number of K (ints are converted as Python does in mixed arithmetic)"""
        if v.kind == "I":
            return Val("S", "Rt.ofInt %s" % atom(v.code))
        if v.kind == "N":
            return Val("S", "((%s : Nat) : K)" % v.code)
        return self.need(binds, v, "S", what)

    def need(self, binds, v, kind, what):
        """convert v to `kind` (unwrapping a maybe-None value raises)"""
        if v.kind == kind:
            return v
        if kind == "S" and v.kind in ("I", "N"):
            return self.as_scalar(binds, v, what)
        if kind == "I" and self.is_int(v):
            return Val("I", self.as_int(v))
        if kind == "N" and self.natlike(v):
            return Val("N", self.as_nat(v))
        if kind == "N" and v.kind == "I":               # phase 4: a negative value violates the declared kind
            t = self.tmp()
            binds.append(("bind", t, "Rt.toNatE %s" % atom(v.code)))
            return Val("N", t)
        if kind == "X" and v.kind == "S":
            return Val("X", "Rt.Ext.fin %s" % atom(v.code))
        if kind == "V" and v.kind == "P":               # phase 4 (pytri): a 2-entry array as a 1-D array
            return Val("V", "[%s.1, %s.2]" % (atom(v.code), atom(v.code)))
        if kind == "P" and v.kind in ("V", "C"):
            t = self.tmp()
            binds.append(("bind", t, "Rt.asPt %s" % atom(v.code)))
            return Val("P", t)
        if is_list(kind) and is_list(v.kind) and v.kind[1] is None:
            return Val(kind, "(%s : %s)" % (v.code, lty(kind)))
        if is_opt(v.kind) and v.kind[1] == kind:
            t = self.tmp()
            # phase 4 (pypipeline): a maybe-NaN value used as a number is `Rt.unwrapNaN` (NaN has no meaning in K)
            binds.append(("bind", t, "Rt.%s %s" % ("unwrap" if v.kind[2] == "none" else "unwrapNaN", atom(v.code))))
            return Val(kind, t)
        if v.kind == "none" and kind in ("S", "M22", "MN", "C", "V"):
            # phase 4 (pypipeline): a value that is always None used as a number / an array: TypeError
            t = self.tmp()
            binds.append(("bind", t, "Rt.unwrap (none : Option %s)" % atom(lty(kind))))
            return Val(kind, t)
        raise Problem("%s: kind %r where %r is required" % (what, v.kind, kind))

    def tx(self, node, env):
        where = "line %d" % getattr(node, "lineno", 0)
        if self.p4:                                    # phase 4 (pycurve)
            r4 = self.p4_tx(node, env, where)
            if r4 is not None:
                return r4
        if not (isinstance(node, ast.Name) and node.id in env):
            c = self.const_eval(node)
            if c is not None:
                return [], Val("S", lit(c), intval=self.const_int(node))
        if isinstance(node, ast.Constant):
            if node.value is None:
                return [], Val("none", "none")
            if isinstance(node.value, bool):
                return [], Val("B", "true" if node.value else "false")
            raise Problem("constant %r (%s)" % (node.value, where))
        if self.modname != "algebraic_intersection" and isinstance(node, ast.Name) and node.id not in env and node.id not in self.locals_ \
                and node.id in self.mod.consts and self.array_const(self.mod.consts[node.id]) is not None:
            # phase 4: a module-level array constant `NAME = np.asfortranarray(<literal>, dtype=...) [/ c]`
            kind, rows = self.array_const(self.mod.consts[node.id])
            cname = "tbl.%s.%s" % (self.modname, node.id)
            if kind == "MN":
                code = "[" + ",\n   ".join("[" + ", ".join(lit(x) for x in r) + "]" for r in rows) + "]"
                self.tr.tables[cname] = ("List (List K)", code, "%s.%s" % (self.modname, node.id))
            else:
                self.tr.tables[cname] = ("List K", "[" + ", ".join(lit(x) for x in rows) + "]",
                                         "%s.%s" % (self.modname, node.id))
            return [], Val(kind, "(%s : %s)" % (cname, "List (List K)" if kind == "MN" else "List K"))
        if self.modname == "algebraic_intersection" and isinstance(node, ast.Name) and node.id not in env and node.id not in self.locals_ and node.id in self.mod.consts \
                and isinstance(self.mod.consts[node.id], ast.Attribute) and isinstance(self.mod.consts[node.id].value, ast.Attribute) \
                and isinstance(self.mod.consts[node.id].value.value, ast.Name):
            # phase 4 (pyalgebraic): `_DISJOINT = geometric_intersection.BoxIntersectionType.DISJOINT`
            e = self.mod.consts[node.id]
            al = self.mod.aliases.get(e.value.value.id)
            if al is not None and al not in ("numpy", "bisect"):
                other = self.tr.module(al)
                cls, attr = e.value.attr, e.attr
                if cls in other.classes and attr in other.classes[cls]:
                    name = "%s.%s" % (cls, attr)
                    if self.tr.enums.get(name, other.classes[cls][attr]) != other.classes[cls][attr]:
                        raise Problem("two enum classes named %s (%s)" % (cls, where))
                    self.tr.enums[name] = other.classes[cls][attr]
                    return [], Val("E", name)
        if self.modname == "algebraic_intersection" and isinstance(node, ast.Name) and node.id not in env and self.const_array(node) is not None:
            return [], Val("V", "(%s : List K)" % self.const_array(node)[0])       # phase 4 (pyalgebraic)
        if self.modname == "algebraic_intersection" and isinstance(node, ast.ListComp):                                          # phase 4 (pyalgebraic)
            if len(node.generators) != 1 or node.generators[0].ifs or node.generators[0].is_async \
                    or not isinstance(node.generators[0].target, ast.Name):
                raise Problem("list comprehension of this form (%s)" % where)
            gen = node.generators[0]
            ca = None if (isinstance(gen.iter, ast.Name) and gen.iter.id in env) else self.const_array(gen.iter)
            if ca is None or gen.target.id in env or gen.target.id == "_":
                raise Problem("list comprehension over something else than a module constant array (%s)" % where)
            binds, cs = [], []
            for c in ca[1]:                      # unrolled, in order
                env2 = dict(env)
                env2[gen.target.id] = Val("S", lit(c))
                b, v = self.tx(node.elt, env2)
                binds += b
                cs.append(self.as_scalar(binds, v, "entry of a list of numbers (%s)" % where).code)
            return binds, Val("V", "[" + ", ".join(cs) + "]")
        if isinstance(node, ast.Name):
            if node.id in env and env[node.id].kind == "MR":
                raise Problem("array %s is used before its second block of rows is assigned (%s)" % (node.id, where))
            if node.id in env and env[node.id].kind == "MC":
                t = self.tmp()                  # phase 4: all columns must have been written
                return [("bind", t, "Rt.mcFreeze %s %s" % (self.mc_dims[node.id][1], lname(node.id)))], \
                    Val("MN", t, inplace=True)
            if node.id in getattr(self, "dead_names", ()):
                raise Problem("%s is read after it was changed in place (pop / passed to a function that pops) (%s)"
                              % (node.id, where))
            if node.id in env:
                return [], env[node.id]
            c = self.mod.consts.get(node.id)
            if node.id not in self.locals_ and isinstance(c, (ast.Attribute, ast.Tuple)) and \
                    getattr(self, "const_depth", 0) < 4:
                # phase 4 (pyclassify): a module-level name for an enum member / a tuple of enum members
                # (`UNUSED_T = CLASSIFICATION_T.COINCIDENT_UNUSED`, `ACCEPTABLE_CLASSIFICATIONS = (...)`)
                self.const_depth = getattr(self, "const_depth", 0) + 1
                try:
                    b, v = self.tx(c, {})
                finally:
                    self.const_depth -= 1
                if not b and (v.kind == "CLS" or (is_tuple(v.kind) and v.comps and all(x.kind == "CLS" for x in v.comps))):
                    return [], v
            raise Problem("name %s is not a parameter, a (definitely assigned) local or a numeric module constant (%s)"
                          % (node.id, where))
        if isinstance(node, ast.List):
            if not node.elts:
                return [], Val(("list", None), "[]")
            if all(isinstance(e, ast.Tuple) for e in node.elts):
                binds, vs = [], []              # phase 4 (pypipeline): a list of tuples (all of one kind)
                for e in node.elts:
                    b, v = self.tx(e, env)
                    binds += b
                    vs.append(v)
                if any(v.kind != vs[0].kind for v in vs):
                    raise Problem("list of tuples of different kinds (%s)" % where)
                return binds, Val(("list", vs[0].kind), "[" + ", ".join(v.code for v in vs) + "]")
            binds, cs = [], []
            for e in node.elts:
                b, v = self.tx(e, env)
                binds += b
                cs.append(self.as_scalar(binds, v, "entry of a list of numbers (%s)" % where).code)
            return binds, Val("V", "[" + ", ".join(cs) + "]")
        if isinstance(node, ast.Attribute) and isinstance(node.value, ast.Name) and node.value.id == "self" \
                and self.fields is not None and "self" not in env:
            if node.attr in self.fields and node.attr in env:
                return [], env[node.attr]
            raise Problem("attribute %s (%s)" % (ast.unparse(node), where))
        if isinstance(node, ast.Attribute):
            if not (isinstance(node.value, ast.Name) and node.value.id not in env):
                return self.attribute(node, env, where)
            if isinstance(node.value, ast.Name) and node.value.id not in env:
                base = node.value.id
                if self.mod.aliases.get(base) == "numpy" and node.attr == "inf":
                    return [], Val("X", "(Rt.Ext.pinf : Rt.Ext K)")
                if self.mod.aliases.get(base) == "numpy" and node.attr == "nan":
                    return [], Val("nan", "none")
                if base in self.mod.classes and node.attr in self.mod.classes[base]:
                    name = "%s.%s" % (base, node.attr)
                    self.tr.enums[name] = self.mod.classes[base][node.attr]
                    return [], Val("E", name)
                cls = self.enum_class(base)
                if cls is not None and node.attr in cls[1]:
                    # phase 4 (pyclassify): a member of `IntersectionClassification`, named through a module-level alias
                    # (`CLASSIFICATION_T = intersection_helpers.IntersectionClassification`); the integer value is read
                    # from the class body and mapped to the model's constructor by `Model.Classify.Cls.ofCode`
                    name = "%s.%s" % (cls[0], node.attr)
                    self.tr.enums[name] = cls[1][node.attr]
                    return [], Val("CLS", "Model.Classify.Cls.ofCode %s" % name)
            raise Problem("attribute %s (%s)" % (ast.unparse(node), where))
        if isinstance(node, ast.Tuple):
            binds, comps = [], []
            for e in node.elts:
                b, v = self.tx(e, env)
                binds += b
                if v.inplace or (is_list(v.kind) and not (isinstance(e, ast.List) and not e.elts)):   # (`[]` literal: no alias)
                    raise Problem("a list / an array overwritten in place inside a tuple (%s)" % where)
                comps.append(v)
            return binds, Val(("tuple", tuple(c.kind for c in comps)),
                              "(" + ", ".join(c.code for c in comps) + ")", comps=comps)
        if isinstance(node, ast.UnaryOp):
            binds, v = self.tx(node.operand, env)
            if isinstance(node.op, ast.USub):
                if v.kind == "X":
                    return binds, Val("X", "Rt.Ext.neg %s" % atom(v.code))
                if v.kind in ("I", "N"):
                    return binds, Val("I", "-%s" % atom(self.as_int(v)))
                if v.kind == "C":
                    return binds, Val("C", "List.map (fun x => -x) %s" % atom(v.code))
                if v.kind == "V":                # phase 4 (pyalgebraic)
                    return binds, Val("V", "List.map (fun x => -x) %s" % atom(v.code))
                v = self.need(binds, v, "S", "operand of unary - (%s)" % where)
                return binds, Val("S", "-%s" % atom(v.code))
            if isinstance(node.op, ast.Not):
                if is_list(v.kind):
                    return binds, Val("B", "List.isEmpty %s" % atom(v.code))
                if v.kind != "B":
                    raise Problem("`not` of kind %r (%s)" % (v.kind, where))
                return binds, Val("B", "!%s" % atom(v.code), prop=("¬ %s" % atom(v.prop)) if v.prop else None)
            raise Problem("unary operator (%s)" % where)
        if isinstance(node, ast.BinOp) and (isinstance(node.left, ast.List) or isinstance(node.right, ast.List)):
            # phase 4 (pyalgebraic): a Python list literal in arithmetic: only `[c] * n` (repetition), as a 1-D array
            if not (isinstance(node.op, ast.Mult) and isinstance(node.left, ast.List) and len(node.left.elts) == 1):
                raise Problem("arithmetic with a list literal (%s)" % where)
            binds, c = self.tx(node.left.elts[0], env)
            c = self.as_scalar(binds, c, "entry of a list of numbers (%s)" % where)
            b2, n = self.tx(node.right, env)
            binds += b2
            if not self.is_int(n):
                raise Problem("list repeated a number of times of kind %r (%s)" % (n.kind, where))
            return binds, Val("V", "List.replicate %s %s" % (atom(self.dim_nat(n)), atom(c.code)))
        if isinstance(node, ast.BinOp):
            binds, a = self.tx(node.left, env)
            b2, b = self.tx(node.right, env)
            binds += b2
            if isinstance(node.op, ast.BitAnd) and a.kind == "VB" and b.kind == "VB":      # phase 4 (pyalgebraic)
                t = self.tmp()
                binds.append(("bind", t, "Rt.band %s %s" % (atom(a.code), atom(b.code))))
                return binds, Val("VB", t)
            ops = {ast.Add: "+", ast.Sub: "-", ast.Mult: "*", ast.Div: "/"}
            op = ops.get(type(node.op))
            # phase 4 (pyclassify): a maybe-None int used in int arithmetic (`TypeError` on None = `Rt.unwrap`)
            if is_opt(a.kind) and a.kind[1] in ("N", "I") and a.kind[2] == "none":
                a = self.need(binds, a, a.kind[1], "left operand (%s)" % where)
            if is_opt(b.kind) and b.kind[1] in ("N", "I") and b.kind[2] == "none":
                b = self.need(binds, b, b.kind[1], "right operand (%s)" % where)
            if isinstance(node.op, ast.Mod):
                # phase 4 (pyclassify): Python's `a % c` of ints with a constant c > 0 is the remainder in `0 .. c-1`
                if not (self.is_int(a) and b.kind == "S" and b.intval is not None and b.intval > 0):
                    raise Problem("`%%` other than int %% positive int constant (%s)" % where)
                if self.natlike(a):
                    return binds, Val("N", "%s %% %d" % (atom(self.as_nat(a)), b.intval))
                return binds, Val("N", "Int.toNat (Int.emod %s %d)" % (atom(self.as_int(a)), b.intval))
            if isinstance(node.op, ast.FloorDiv) and self.natlike(a) and self.natlike(b):
                return binds, Val("N", "%s / %s" % (atom(self.as_nat(a)), atom(self.as_nat(b))))    # phase 4
            if op is None:
                raise Problem("operator %s (%s)" % (type(node.op).__name__, where))
            if a.kind == "V" and b.kind == "V" and op in "+*":                                     # phase 4
                t = self.tmp()
                binds.append(("bind", t, "Rt.vzip (fun x y => x %s y) %s %s" % (op, atom(a.code), atom(b.code))))
                return binds, Val("V", t)
            if op == "*" and b.kind == "V" and a.kind in ("S", "I", "N") and not a.unit:         # phase 4
                a = self.as_scalar(binds, a, "factor of an array (%s)" % where)
                return binds, Val("V", "List.map (fun x => %s * x) %s" % (atom(a.code), atom(b.code)))
            if a.kind == "P" and b.kind == "P" and op == "-":
                return binds, Val("P", "Model.psub %s %s" % (atom(a.code), atom(b.code)))
            if a.kind == "V" and b.kind == "V" and op == "-":
                t = self.tmp()
                binds.append(("bind", t, "Rt.vzip (fun x y => x - y) %s %s" % (atom(a.code), atom(b.code))))
                return binds, Val("V", t)
            if a.kind == "C" and b.kind == "C" and op in "+-":
                t = self.tmp()
                binds.append(("bind", t, "Rt.vzip (fun x y => x %s y) %s %s" % (op, atom(a.code), atom(b.code))))
                return binds, Val("C", t)
            if op == "*" and b.kind == "C" and a.kind in ("S", "I", "N"):
                a = self.as_scalar(binds, a, "factor of an array (%s)" % where)
                return binds, Val("C", "List.map (fun x => %s * x) %s" % (atom(a.code), atom(b.code)))
            if op in "*/" and a.kind == "C" and b.kind in ("S", "I", "N"):
                b = self.as_scalar(binds, b, "factor of an array (%s)" % where)
                return binds, Val("C", "List.map (fun x => x %s %s) %s" % (op, atom(b.code), atom(a.code)))
            if a.kind == "MN" and b.kind == "MN" and op in "+-*":
                t = self.tmp()
                binds.append(("bind", t, "Rt.mzip (fun x y => x %s y) %s %s" % (op, atom(a.code), atom(b.code))))
                r = Val("MN", t)
                r.wide = a.wide and b.wide
                return binds, r
            if op == "*" and b.kind == "MN" and a.kind in ("S", "I", "N"):
                a = self.as_scalar(binds, a, "factor of an array (%s)" % where)
                return binds, Val("MN", "Rt.mmap (fun x => %s * x) %s" % (atom(a.code), atom(b.code)))
            if op in "+-" and a.kind == "MN" and not a.wide and b.kind in ("S", "I", "N") and not b.unit:    # phase 4 (pyalgebraic)
                b = self.as_scalar(binds, b, "right operand of %s (%s)" % (op, where))
                return binds, Val("MN", "Rt.mmap (fun x => x %s %s) %s" % (op, atom(b.code), atom(a.code)))
            if op in "*/" and a.kind == "MN" and b.kind in ("S", "I", "N"):
                b = self.as_scalar(binds, b, "factor of an array (%s)" % where)
                return binds, Val("MN", "Rt.mmap (fun x => x %s %s) %s" % (op, atom(b.code), atom(a.code)))
            if a.kind == "VC" and b.kind in ("S", "I", "N") and not b.unit and op in "+-":      # phase 4 (pyalgebraic)
                b = self.as_scalar(binds, b, "right operand of %s (%s)" % (op, where))
                return binds, Val("VC", "List.map (fun z => (z.1 %s %s, z.2)) %s" % (op, atom(b.code), atom(a.code)))
            if b.kind == "VC" and a.kind in ("S", "I", "N") and not a.unit and op == "+":         # phase 4 (pyalgebraic)
                a = self.as_scalar(binds, a, "left operand of %s (%s)" % (op, where))
                return binds, Val("VC", "List.map (fun z => (%s + z.1, z.2)) %s" % (atom(a.code), atom(b.code)))
            if a.kind == "VC" and b.kind == "VC" and op == "/":                                   # phase 4 (pyalgebraic)
                t = self.tmp()
                binds.append(("bind", t, "Rt.czip Rt.cdiv %s %s" % (atom(a.code), atom(b.code))))
                return binds, Val("VC", t)
            if a.kind == "V" and b.kind in ("S", "I", "N") and not b.unit:        # phase 4 (pyalgebraic)
                b = self.as_scalar(binds, b, "right operand of %s (%s)" % (op, where))
                r = Val("V", "List.map (fun x => x %s %s) %s" % (op, atom(b.code), atom(a.code)))
                r.owned = True                   # a fresh array
                return binds, r
            if b.kind == "V" and a.kind in ("S", "I", "N") and not a.unit:        # phase 4 (pyalgebraic)
                a = self.as_scalar(binds, a, "left operand of %s (%s)" % (op, where))
                return binds, Val("V", "List.map (fun x => %s %s x) %s" % (atom(a.code), op, atom(b.code)))
            if a.kind == "M2N" and a.rows is not None and b.kind == "C" and b.comps is not None and len(b.comps) == 2 \
                    and op in "+-":                                                # phase 4 (pyalgebraic)
                self.struct_used |= set(a.rows)
                r = Val("MN", "[List.map (fun x => x %s %s) %s, List.map (fun x => x %s %s) %s]"
                        % (op, atom(b.comps[0]), a.rows[0], op, atom(b.comps[1]), a.rows[1]))
                r.owned = True                   # a fresh array
                return binds, r
            if self.is_int(a) and self.is_int(b) and op != "/":
                if op in "+*" and self.natlike(a) and self.natlike(b):
                    return binds, Val("N", "%s %s %s" % (atom(self.as_nat(a)), op, atom(self.as_nat(b))))
                return binds, Val("I", "%s %s %s" % (atom(self.as_int(a)), op, atom(self.as_int(b))))
            unit = a.unit or b.unit            # scalar (op) one-entry array = one-entry array
            a = self.as_scalar(binds, a, "left operand of %s (%s)" % (op, where))
            b = self.as_scalar(binds, b, "right operand of %s (%s)" % (op, where))
            r = Val("S", "%s %s %s" % (atom(a.code), op, atom(b.code)))
            r.unit = unit
            return binds, r
        if isinstance(node, ast.Compare):
            return self.compare(node, env, where)
        if isinstance(node, ast.BoolOp):
            return self.boolop(node, env, where)
        if isinstance(node, ast.Subscript):
            return self.subscript(node, env, where)
        if isinstance(node, ast.Call):
            return self.call(node, env, where)
        raise Problem("expression %s (%s)" % (type(node).__name__, where))

    SUB_FIELDS = {"start": ("S", "start"), "end": ("S", "stop"), "nodes": ("MN", "nodes")}
    # phase 4 (pyclassify): the slots of an `Intersection` object; every one of them may hold None
    INT_FIELDS = {"index_first": (("opt", "N", "none"), "indexFirst"), "s": (("opt", "S", "none"), "s"),
                  "index_second": (("opt", "N", "none"), "indexSecond"), "t": (("opt", "S", "none"), "t"),
                  "interior_curve": ("CLS", "interior")}
    INT_CLASS = ("intersection_helpers", "Intersection")
    CLS_CLASS = ("intersection_helpers", "IntersectionClassification")

    def enum_class(self, name):
        """phase 4 (pyclassify): `name` is a module-level alias `NAME = <module alias>.IntersectionClassification`
        -> (class name, {member: int}); None otherwise"""
        node = self.mod.consts.get(name)
        if name in self.locals_ or not (isinstance(node, ast.Attribute) and isinstance(node.value, ast.Name)):
            return None
        al = self.mod.aliases.get(node.value.id)
        if (al, node.attr) != self.CLS_CLASS:
            return None
        other = self.tr.module(al)
        if node.attr not in other.classes:
            return None
        return node.attr, other.classes[node.attr]

    def shape_of(self, binds, v, where):
        """`.shape` / `np.shape(.)`: a tuple of natural numbers (the rows of a 2-D array must have equal lengths)"""
        if v.kind == "M2N" and v.rows is not None:
            self.struct_used |= set(v.rows)
            t = self.tmp()
            binds.append(("bind", t, "Rt.shape2 %s %s" % (v.rows[0], v.rows[1])))
            comps = [Val("N", "(2 : Nat)"), Val("N", t)]
        elif v.kind == "MN":
            t = self.tmp()
            binds.append(("bind", t, "Rt.shape %s" % atom(v.code)))
            comps = [Val("N", "%s.1" % t), Val("N", "%s.2" % t)]
        elif v.kind == "S" and v.unit:
            comps = [Val("S", lit(1), intval=1)]
        elif v.kind == "V":
            comps = [Val("N", "List.length %s" % atom(v.code))]
        else:
            raise Problem("shape of a value of kind %r (%s)" % (v.kind, where))
        return Val(("tuple", tuple(c.kind for c in comps)), "(" + ", ".join(c.code for c in comps) + ")", comps=comps)

    def attribute(self, node, env, where):
        c = node.value
        if node.attr == "T" and isinstance(c, ast.Call) and isinstance(c.func, ast.Attribute) and c.func.attr == "array" \
                and isinstance(c.func.value, ast.Name) and self.mod.aliases.get(c.func.value.id) == "numpy" \
                and c.func.value.id not in env and len(c.args) == 1 and [k_.arg for k_ in c.keywords] == ["order"] \
                and isinstance(c.keywords[0].value, ast.Constant) and c.keywords[0].value.value == "C":
            b, v = self.tx(c.args[0], env)
            if v.kind == ("list", ("tuple", ("S", "S"))):
                # phase 4 (pypipeline): `np.array(pairs, order="C").T` (the caller has checked that the list is not empty)
                return b, Val("MN", "Rt.pairsT %s" % atom(v.code))
            raise Problem("np.array(...).T of a value of kind %r (%s)" % (v.kind, where))
        binds, base = self.tx(node.value, env)
        if node.attr == "shape":
            return binds, self.shape_of(binds, base, where)
        if base.kind == "V" and node.attr == "size":                       # phase 4 (pyalgebraic)
            return binds, Val("N", "List.length %s" % atom(base.code))
        if base.kind == "VC" and node.attr in ("real", "imag"):            # phase 4 (pyalgebraic)
            return binds, Val("V", "List.map (fun z => z.%d) %s" % (1 if node.attr == "real" else 2, atom(base.code)))
        if base.kind == "MN" and node.attr == "T":
            return binds, Val("MN", "Model.transpose %s" % atom(base.code))
        if base.kind == "MN" and node.attr == "size":          # phase 4 (pypipeline): number of entries
            t = self.tmp()
            binds.append(("bind", t, "Rt.shape %s" % atom(base.code)))
            return binds, Val("N", "%s.1 * %s.2" % (t, t))
        # phase 4 (pypipeline): the slots of `Linearization` / `SubdividedCurve` objects (kinds LIN / OSUB)
        lin_fields = {"curve": ("OSUB", "curve"), "error": ("S", "error"), "start_node": ("V", "start_node"),
                      "end_node": ("V", "end_node")}
        osub_fields = {"nodes": ("MN", "nodes"), "original_nodes": ("MN", "original_nodes"), "start": ("S", "start"),
                       "end": ("S", "stop")}
        if base.kind == "SHAPE" and (node.attr in lin_fields or node.attr in osub_fields):
            t = self.tmp()
            if node.attr in lin_fields:
                binds.append(("bind", t, "Rt.PyShape.asLin %s" % atom(base.code)))
                base = Val("LIN", t)
            else:
                binds.append(("bind", t, "Rt.PyShape.asSub %s" % atom(base.code)))
                base = Val("OSUB", t)
        if base.kind == "LIN" and node.attr in lin_fields:
            kd, field = lin_fields[node.attr]
            return binds, Val(kd, "%s.%s" % (atom(base.code), field))
        if base.kind == "OSUB" and node.attr in osub_fields:
            kd, field = osub_fields[node.attr]
            return binds, Val(kd, "%s.%s" % (atom(base.code), field))
        if base.kind == "SUB" and node.attr in self.SUB_FIELDS:
            kd, field = self.SUB_FIELDS[node.attr]
            return binds, Val(kd, "%s.%s" % (atom(base.code), field))
        if base.kind == "INT" and node.attr in self.INT_FIELDS:
            kd, field = self.INT_FIELDS[node.attr]
            return binds, Val(kd, "%s.%s" % (atom(base.code), field))
        if base.kind == "none" and node.attr in self.INT_FIELDS:
            # the literal None: AttributeError
            kd = self.INT_FIELDS[node.attr][0]
            t = self.tmp()
            binds.append(("bind", t, "(.error .badInput : Except Err %s)" % atom(lty(kd))))
            return binds, Val(kd, t)
        if is_opt(base.kind) and base.kind[1] == "REF" and base.kind[2] == "none" and node.attr in self.INT_FIELDS:
            base = self.need(binds, base, "REF", "attribute of a maybe-None object (%s)" % where)      # AttributeError
        if base.kind == "REF" and node.attr in self.INT_FIELDS:
            kd, field = self.INT_FIELDS[node.attr]
            return binds, Val(kd, "%s.val.%s" % (atom(base.code), field))
        raise Problem("attribute %s of a value of kind %r (%s)" % (node.attr, base.kind, where))

    def np_empty_kind(self, node, env=None):
        """`np.empty((2,), order="F")` -> "P" (the kind of the array once it is filled);
        `np.empty((d, 1, k), order="F")` -> ("W", d, k)"""
        if not (isinstance(node, ast.Call) and isinstance(node.func, ast.Attribute) and node.func.attr == "empty"
                and isinstance(node.func.value, ast.Name) and self.mod.aliases.get(node.func.value.id) == "numpy"):
            return None
        kw = {k.arg: k.value for k in node.keywords}
        if len(node.args) == 1 and set(kw) <= {"order"} and isinstance(node.args[0], ast.Tuple) and node.args[0].elts \
                and self.const_int(node.args[0].elts[-1]) == 0 and len(node.args[0].elts) <= 2:
            return None                         # phase 4 (pyalgebraic): an array without entries is a value (see prim_call)
        if len(node.args) == 1 and set(kw) <= {"order"} and isinstance(node.args[0], ast.Tuple) \
                and len(node.args[0].elts) == 1 and self.const_int(node.args[0].elts[0]) == 2:
            return "P"
        if len(node.args) == 1 and set(kw) <= {"order"} and isinstance(node.args[0], ast.Tuple) \
                and [self.const_int(e) for e in node.args[0].elts] == [2, 2]:
            return "J22"
        if len(node.args) == 1 and set(kw) <= {"order"} and isinstance(node.args[0], ast.Tuple) \
                and len(node.args[0].elts) == 3 and env is not None:
            vals = []
            for e in node.args[0].elts:
                b, v = self.tx(e, env)
                if b or not self.is_int(v):
                    raise Problem("np.empty with this shape (line %d)" % node.lineno)
                vals.append(v)
            if vals[1].kind == "S" and vals[1].intval == 1:
                return ("W", vals[0], vals[2])
        if len(node.args) == 1 and set(kw) <= {"order"} and isinstance(node.args[0], ast.Tuple) \
                and len(node.args[0].elts) == 2:
            # phase 4 (pypipeline): an r x c array with constant r, c that is filled region by region (`grid_assign`) - used for the
            # modules of the intersection pipeline; phase 4 (pytri): ("MC", d, k) filled column by column, see `mc_create` - elsewhere
            rc = [self.const_int(e) for e in node.args[0].elts]
            if self.modname in ("intersection_helpers", "geometric_intersection") \
                    and all(isinstance(x, int) and 1 <= x <= 4 for x in rc):
                return ("G", rc[0], rc[1])
            if env is not None:
                vals = []
                for e in node.args[0].elts:
                    b, v = self.tx(e, env)
                    if b or not self.is_int(v):
                        raise Problem("np.empty with this shape (line %d)" % node.lineno)
                    vals.append(v)
                return ("MC", vals[0], vals[1])
        raise Problem("np.empty with this shape (line %d)" % node.lineno)

    def compare(self, node, env, where):
        if len(node.ops) == 1 and isinstance(node.ops[0], ast.Is) and isinstance(node.left, ast.Attribute) \
                and node.left.attr == "__class__" and isinstance(node.comparators[0], ast.Name) \
                and (node.comparators[0].id == "Linearization"
                     or (node.comparators[0].id == "cls" and getattr(self, "cls_name", None) == "Linearization")) \
                and "Linearization" in self.mod.classes and "Linearization" not in env and "cls" not in env:
            # phase 4 (pypipeline): `x.__class__ is Linearization` of a candidate (kind SHAPE)
            binds, v = self.tx(node.left.value, env)
            if v.kind != "SHAPE":
                raise Problem("`__class__ is Linearization` of a value of kind %r (%s)" % (v.kind, where))
            return binds, Val("B", "Rt.PyShape.isLin %s" % atom(v.code))
        if len(node.ops) == 1 and isinstance(node.ops[0], (ast.Is, ast.IsNot)) \
                and isinstance(node.comparators[0], ast.Constant) and node.comparators[0].value is None \
                and self.modname in ("intersection_helpers", "geometric_intersection"):
            # phase 4 (pypipeline): `x is None` / `x is not None` of a maybe-None value (in the modules of the intersection pipeline;
            # elsewhere `compare_obj` of phase 4 (pyclassify) renders it as `x = none` / `x ≠ none`)
            binds, v = self.tx(node.left, env)
            neg = isinstance(node.ops[0], ast.IsNot)
            if v.kind == "none":
                return binds, Val("B", "false" if neg else "true")
            if is_opt(v.kind) and v.kind[2] == "none":
                return binds, Val("B", "Option.%s %s" % ("isSome" if neg else "isNone", atom(v.code)))
            raise Problem("`is None` of a value of kind %r (%s)" % (v.kind, where))
        binds = []
        vals = []
        for i, e in enumerate([node.left] + node.comparators):
            b, v = self.tx(e, env)
            if b and i >= 2:
                raise Problem("a later operand of a chained comparison can raise (it is evaluated lazily) (%s)" % where)
            binds += b
            vals.append(v)
        if len(vals) == 2 and isinstance(node.ops[0], (ast.Lt, ast.LtE, ast.Gt, ast.GtE)) and \
                all(v.kind in ("S", "N", "I") or (is_opt(v.kind) and v.kind[1] in ("S", "N", "I") and v.kind[2] == "none")
                    for v in vals) and any(is_opt(v.kind) for v in vals):
            # phase 4 (pyclassify): `a < b` with a maybe-None operand: `TypeError` on None (`Rt.unwrap`), both operands are
            # evaluated before the comparison
            vals = [self.need(binds, v, v.kind[1], "operand of a comparison (%s)" % where) if is_opt(v.kind) else v for v in vals]
        elif any(is_opt(v.kind) or v.kind in ("CLS", "INT", "REF", "none") for v in vals) or \
                any(isinstance(o, (ast.In, ast.NotIn, ast.Is, ast.IsNot)) for o in node.ops):
            return self.compare_obj(node, vals, binds, where)
        if len(vals) == 2 and vals[0].kind == "V" and vals[1].kind == "V":
            if not isinstance(node.ops[0], ast.LtE):
                raise Problem("array comparison other than <= (%s)" % where)
            t = self.tmp()
            binds.append(("bind", t, "Rt.vzip (fun x y => decide (x ≤ y)) %s %s" % (atom(vals[0].code), atom(vals[1].code))))
            return binds, Val("VB", t)
        if len(vals) == 2 and vals[0].kind == "MN" and not vals[0].wide and isinstance(node.ops[0], ast.Eq) \
                and vals[1].kind == "S":
            # phase 4 (pypipeline): `A == c` entry by entry (only `np.all` consumes it: the order of the entries is immaterial)
            return binds, Val("VB", "List.map (fun x => decide (x = %s)) (List.flatten %s)"
                              % (atom(vals[1].code), atom(vals[0].code)))
        if len(vals) == 2 and {vals[0].kind, vals[1].kind} == {"V", "S"} and not (vals[0].unit or vals[1].unit) \
                and isinstance(node.ops[0], (ast.Lt, ast.Gt, ast.LtE, ast.GtE)):
            # phase 4 (pyalgebraic): a 1-D array compared with a number, entry by entry
            op = node.ops[0]
            vfirst = vals[0].kind == "V"
            arr, num = (vals[0], vals[1]) if vfirst else (vals[1], vals[0])
            l, r = ("x", atom(num.code)) if vfirst else (atom(num.code), "x")
            if isinstance(op, (ast.Gt, ast.GtE)):
                l, r = r, l                       # a > b  is  b < a
            rel = "<" if isinstance(op, (ast.Lt, ast.Gt)) else "≤"
            return binds, Val("VB", "List.map (fun x => decide (%s %s %s)) %s" % (l, rel, r, atom(arr.code)))
        if len(vals) == 2 and vals[0].kind in ("C", "V") and isinstance(node.ops[0], ast.Eq) \
                and vals[1].kind == "S":
            return binds, Val("VB", "List.map (fun x => decide (x = %s)) %s" % (atom(vals[1].code), atom(vals[0].code)))
        if any(v.kind == "X" for v in vals):
            codes = []
            for op, a, b in zip(node.ops, vals, vals[1:]):
                x = atom(self.need(binds, a, "X", "operand of a comparison (%s)" % where).code)
                y = atom(self.need(binds, b, "X", "operand of a comparison (%s)" % where).code)
                if isinstance(op, ast.Lt):
                    codes.append("Rt.Ext.lt %s %s" % (x, y))
                elif isinstance(op, ast.Gt):
                    codes.append("Rt.Ext.lt %s %s" % (y, x))
                else:
                    raise Problem("comparison other than < / > with a possibly infinite operand (%s)" % where)
            return binds, Val("B", " && ".join(atom(c) if len(codes) > 1 else c for c in codes))
        if len(vals) == 2 and vals[0].kind == "E" and vals[1].kind == "E" and isinstance(node.ops[0], (ast.Eq, ast.NotEq)):
            vals = [Val("N", v.code) for v in vals]          # phase 4 (pyalgebraic): enum members are their integers
        if all(self.is_int(v) for v in vals):
            if all(self.natlike(v) for v in vals):
                vals = [Val("N", self.as_nat(v)) for v in vals]
            else:
                vals = [Val("I", self.as_int(v)) for v in vals]
        else:
            vals = [self.as_scalar(binds, v, "operand of a comparison (%s)" % where) for v in vals]
        props = []
        for op, a, b in zip(node.ops, vals, vals[1:]):
            x, y = atom(a.code), atom(b.code)
            if isinstance(op, ast.Lt):
                props.append("%s < %s" % (x, y))
            elif isinstance(op, ast.LtE):
                props.append("%s ≤ %s" % (x, y))
            elif isinstance(op, ast.Gt):
                props.append("%s < %s" % (y, x))          # a > b  is  b < a
            elif isinstance(op, ast.GtE):
                props.append("%s ≤ %s" % (y, x))
            elif isinstance(op, ast.Eq):
                props.append("%s = %s" % (x, y))
            elif isinstance(op, ast.NotEq):
                props.append("%s ≠ %s" % (x, y))
            else:
                raise Problem("comparison operator %s (%s)" % (type(op).__name__, where))
        code = " && ".join("decide (%s)" % p for p in props)
        prop = " ∧ ".join(props)
        return binds, Val("B", code, prop=prop)

    def opt_term(self, v, base, where):
        """phase 4 (pyclassify): Lean term of type `Option <base>` for a value that may be None"""
        if v.kind == "none":
            return "none"
        if is_opt(v.kind):
            if v.kind[1] != base or v.kind[2] != "none":
                raise Problem("comparison of maybe-None values of kinds %r and %r (%s)" % (v.kind, base, where))
            return v.code
        if base == "N" and self.natlike(v):
            return "some %s" % atom(self.as_nat(v))
        if base == "I" and self.is_int(v):
            return "some %s" % atom(self.as_int(v))
        if base == "S" and v.kind == "S" and not v.unit:
            return "some %s" % atom(v.code)
        if base == v.kind and base in ("INT",):
            return "some %s" % atom(v.code)
        raise Problem("comparison of a maybe-None value of kind %r with a value of kind %r (%s)" % (base, v.kind, where))

    def compare_obj(self, node, vals, binds, where):
        """phase 4 (pyclassify): `==` / `!=` where an operand may be None (Python: `None == x` is False, no exception),
        `==` / `!=` / `in (..)` on members of `IntersectionClassification` (identity of enum members), `is None`"""
        if len(vals) != 2:
            raise Problem("chained comparison of maybe-None values / enum members (%s)" % where)
        op, a, b = node.ops[0], vals[0], vals[1]
        if isinstance(op, ast.In) and b.kind == ("list", "POS") and (a.kind == "REF" or a.kind == ("opt", "REF", "none")):
            if a.kind == "REF":
                return binds, Val("B", "Rt.refIn %s %s" % (atom(a.code), atom(b.code)))
            return binds, Val("B", "(match %s with | some r => Rt.refIn r %s | none => false)" % (a.code, atom(b.code)))
        if isinstance(op, (ast.In, ast.NotIn)):
            if not (a.kind == "CLS" and is_tuple(b.kind) and b.comps and all(c.kind == "CLS" for c in b.comps)):
                raise Problem("`in` other than <classification> in (<members>) (%s)" % where)
            prop = " ∨ ".join("%s = %s" % (atom(a.code), atom(c.code)) for c in b.comps)
            if isinstance(op, ast.NotIn):
                prop = "¬ (%s)" % prop
            return binds, Val("B", "decide (%s)" % prop, prop=prop)
        if isinstance(op, (ast.Is, ast.IsNot)) and a.kind == "none" and b.kind == "none":
            return binds, Val("B", "true" if isinstance(op, ast.Is) else "false", prop="True" if isinstance(op, ast.Is) else "False")
        if isinstance(op, (ast.Is, ast.IsNot)):
            if b.kind != "none" or not (is_opt(a.kind) or a.kind == "CLS"):
                raise Problem("`is` other than <maybe-None value> is None (%s)" % where)
            prop = "%s %s none" % (atom(a.code), "=" if isinstance(op, ast.Is) else "≠")
            return binds, Val("B", "decide (%s)" % prop, prop=prop)
        if not isinstance(op, (ast.Eq, ast.NotEq)):
            raise Problem("ordering comparison of a maybe-None value (it must be unwrapped first) (%s)" % where)
        sym = "=" if isinstance(op, ast.Eq) else "≠"
        if a.kind == "CLS" or b.kind == "CLS":
            if not all(v.kind in ("CLS", "none") for v in (a, b)):
                raise Problem("comparison of a classification with a value of another kind (%s)" % where)
            prop = "%s %s %s" % (atom(a.code), sym, atom(b.code))
            return binds, Val("B", "decide (%s)" % prop, prop=prop)
        bases = [v.kind[1] for v in (a, b) if is_opt(v.kind)]
        if not bases or a.kind == "INT" or b.kind == "INT":
            raise Problem("comparison of values of kinds %r, %r (%s)" % (a.kind, b.kind, where))
        prop = "%s %s %s" % (atom(self.opt_term(a, bases[0], where)), sym, atom(self.opt_term(b, bases[0], where)))
        return binds, Val("B", "decide (%s)" % prop, prop=prop)

    def boolop(self, node, env, where):
        is_and = isinstance(node.op, ast.And)
        parts = []
        for e in node.values:
            b, v = self.tx(e, env)
            if v.kind != "B":
                raise Problem("operand of and/or of kind %r (%s)" % (v.kind, where))
            parts.append((b, v))
        # fold from the right; an operand that can raise is only evaluated when reached
        b_acc, v_acc = parts[-1]
        for b, v in reversed(parts[:-1]):
            if not b_acc:
                code = "%s %s %s" % (atom(v.code), "&&" if is_and else "||", atom(v_acc.code))
                prop = None
                if v.prop is not None and v_acc.prop is not None:
                    prop = "%s %s %s" % (atom(v.prop), "∧" if is_and else "∨", atom(v_acc.prop))
                b_acc, v_acc = b, Val("B", code, prop=prop)
            else:
                inner = wrap(b_acc, Yield(v_acc.code))
                cond = v.prop if v.prop is not None else v.code
                if is_and:
                    code = MIf(cond, inner, Yield("false"), "Bool")
                else:
                    code = MIf(cond, Yield("true"), inner, "Bool")
                t = self.tmp()
                b_acc, v_acc = b + [("bind", t, code)], Val("B", t)
        return b_acc, v_acc

    def const_index(self, node, where):
        if isinstance(node, ast.Constant) and isinstance(node.value, int) and not isinstance(node.value, bool):
            return node.value
        if isinstance(node, ast.UnaryOp) and isinstance(node.op, ast.USub) and isinstance(node.operand, ast.Constant) \
                and isinstance(node.operand.value, int):
            return -node.operand.value
        raise Problem("non-constant index (%s)" % where)

    def const_index_opt(self, node):
        try:
            return self.const_index(node, "")
        except Problem:
            return None

    def row_read(self, binds, row, j, where):
        t = self.tmp()
        if j >= 0:
            binds.append(("bind", t, "Rt.idx %s %d" % (row, j)))
        elif j == -1:
            binds.append(("bind", t, "Rt.idxLast %s" % row))
        else:
            raise Problem("negative index %d (%s)" % (j, where))
        return t

    def subscript(self, node, env, where):
        binds, base = self.tx(node.value, env)
        sl = node.slice
        if self.modname == "algebraic_intersection" and is_opt(base.kind) and base.kind[2] == "none" and base.kind[1] in ("V", "MN"):
            # phase 4 (pyalgebraic): subscript of a maybe-None array (`TypeError` on None)
            base = self.need(binds, base, base.kind[1], "subscripted value (%s)" % where)
        if self.modname == "algebraic_intersection" and base.kind == "MN" and not base.wide and isinstance(sl, ast.Tuple) and len(sl.elts) == 2 \
                and isinstance(sl.elts[1], ast.Slice) and sl.elts[1].lower is None and sl.elts[1].upper is None \
                and sl.elts[1].step is None and self.const_index_opt(sl.elts[0]) is not None \
                and self.const_index_opt(sl.elts[0]) >= 0:
            # phase 4 (pyalgebraic): `m[i, :]` = row i of a 2-D array (`IndexError`: `badInput`)
            t = self.tmp()
            binds.append(("bind", t, "Rt.lidx %s %d" % (atom(base.code), self.const_index_opt(sl.elts[0]))))
            return binds, Val("V", t)
        if base.kind == "P":
            i = self.const_index(sl, where)
            if i not in (0, 1):
                raise Problem("index %d into a 2-entry array (%s)" % (i, where))
            if base.comps is not None:
                return binds, Val("S", base.comps[i])
            return binds, Val("S", "%s.%d" % (atom(base.code), i + 1))
        if base.kind == "MN" and base.wide:
            if not (isinstance(sl, ast.Tuple) and len(sl.elts) == 3 and all(
                    isinstance(x, ast.Slice) and x.lower is None and x.upper is None and x.step is None for x in sl.elts[:2])):
                raise Problem("subscript %s of a 3-D array (%s)" % (ast.unparse(node), where))
            last = sl.elts[2]
            if isinstance(last, ast.Slice):
                lo, hi = self.slice_bounds(binds, last, env, where)
                r = Val("MN", "Rt.cols %s %s %s" % (atom(base.code), lo, hi))
                r.wide = True
                return binds, r
            j = self.const_index(last, where)
            if j < 0:
                raise Problem("negative index %d (%s)" % (j, where))
            t = self.tmp()
            binds.append(("bind", t, "List.mapM (fun r => Rt.idx r %d) %s" % (j, atom(base.code))))
            return binds, Val("C", t)
        if base.kind == "S" and base.unit and not isinstance(sl, ast.Tuple):
            b2, iv = self.tx(sl, env)
            if not b2 and iv.kind == "S" and iv.intval == 0:
                return binds, base                   # the only entry
            raise Problem("subscript %s of a one-entry array (%s)" % (ast.unparse(node), where))
        if base.kind == "S" and base.unit:
            # a one-entry array: `x[np.newaxis, :]` is again a one-entry array
            if isinstance(sl, ast.Tuple) and len(sl.elts) == 2 and isinstance(sl.elts[1], ast.Slice) \
                    and sl.elts[1].lower is None and sl.elts[1].upper is None and sl.elts[1].step is None \
                    and isinstance(sl.elts[0], ast.Attribute) and sl.elts[0].attr == "newaxis" \
                    and isinstance(sl.elts[0].value, ast.Name) and self.mod.aliases.get(sl.elts[0].value.id) == "numpy":
                return binds, base
            raise Problem("subscript %s of a one-entry array (%s)" % (ast.unparse(node), where))
        if base.kind == "C" and isinstance(sl, ast.Tuple) and len(sl.elts) == 2:
            first, second = sl.elts
            if isinstance(first, ast.Slice) and first.lower is None and first.upper is None and first.step is None \
                    and self.const_index_opt(second) == 0:
                return binds, Val("V", base.code)
            raise Problem("subscript %s of a d x 1 array (%s)" % (ast.unparse(node), where))
        if base.kind == "MN" and isinstance(sl, ast.Tuple) and len(sl.elts) == 2 and isinstance(sl.elts[1], ast.List) \
                and len(sl.elts[1].elts) == 1:
            first = sl.elts[0]
            if not (isinstance(first, ast.Slice) and first.lower is None and first.upper is None and first.step is None):
                raise Problem("subscript %s (%s)" % (ast.unparse(node), where))
            b2, jv = self.tx(sl.elts[1].elts[0], env)
            binds += b2
            if not self.is_int(jv):
                raise Problem("column index of kind %r (%s)" % (jv.kind, where))
            t = self.tmp()
            if self.natlike(jv):
                binds.append(("bind", t, "List.mapM (fun r => Rt.idx r %s) %s" % (atom(self.as_nat(jv)), atom(base.code))))
            else:
                binds.append(("bind", t, "List.mapM (fun r => Rt.idxI r %s) %s" % (atom(self.as_int(jv)), atom(base.code))))
            return binds, Val("C", t)
        if is_tuple(base.kind):
            i = self.const_index(sl, where)
            n = len(base.kind[1])
            if not 0 <= i < n:
                raise Problem("index %d into a tuple of %d (%s)" % (i, n, where))
            if base.comps is not None:
                return binds, base.comps[i]
            proj = ".2" * i + (".1" if i < n - 1 else "")
            return binds, Val(base.kind[1][i], atom(base.code) + proj)
        if is_list(base.kind) and base.kind[1] is not None:
            b2, iv = self.tx(sl, env)
            binds += b2
            if is_opt(iv.kind) and iv.kind[1] == "N" and iv.kind[2] == "none":      # phase 4: `lst[None]` is a TypeError
                iv = self.need(binds, iv, "N", "list index (%s)" % where)
            if not self.natlike(iv):
                raise Problem("index of kind %r into a list (%s)" % (iv.kind, where))
            t = self.tmp()
            binds.append(("bind", t, "Rt.lidx %s %s" % (atom(base.code), atom(self.as_nat(iv)))))
            return binds, Val(base.kind[1], t)
        if base.kind == "MN" and isinstance(sl, ast.Tuple) and len(sl.elts) == 2 and isinstance(sl.elts[1], ast.Slice) \
                and sl.elts[1].lower is None and sl.elts[1].upper is None and sl.elts[1].step is None \
                and self.const_index_opt(sl.elts[0]) is not None and self.const_index_opt(sl.elts[0]) >= 0:
            t = self.tmp()                            # phase 4: `m[i, :]` with a constant i >= 0
            binds.append(("bind", t, "Rt.rowI %s %d" % (atom(base.code), self.const_index_opt(sl.elts[0]))))
            return binds, Val("V", t)
        if base.kind == "MN" and not base.wide and isinstance(sl, ast.Tuple) and len(sl.elts) == 2 \
                and all(isinstance(x, ast.Slice) and x.step is None for x in sl.elts) \
                and sl.elts[1].lower is None and sl.elts[1].upper is None \
                and not (sl.elts[0].lower is None and sl.elts[0].upper is None):
            # phase 4 (pypipeline): `m[lo:hi, :]` - a range of rows
            lo, hi = self.slice_bounds(binds, sl.elts[0], env, where)
            return binds, Val("MN", "Rt.slice %s %s %s" % (atom(base.code), lo, hi))
        if base.kind == "MN" and isinstance(sl, ast.Tuple) and len(sl.elts) == 2 and isinstance(sl.elts[1], ast.Slice):
            first, second = sl.elts
            if isinstance(first, ast.Slice) and first.lower is None and first.upper is None and first.step is None \
                    and second.lower is None and second.upper is None and self.const_int(second.step) == -1:
                return binds, Val("MN", "Rt.mrev %s" % atom(base.code))          # nodes[:, ::-1]
            if not (isinstance(first, ast.Slice) and first.lower is None and first.upper is None and first.step is None) \
                    or second.step is not None:
                raise Problem("subscript %s (%s)" % (ast.unparse(node), where))
            bounds = []
            for bnd in (second.lower, second.upper):
                if bnd is None:
                    bounds.append("none")
                else:
                    b2, bv = self.tx(bnd, env)
                    binds += b2
                    if not self.is_int(bv):
                        raise Problem("slice bound of kind %r (%s)" % (bv.kind, where))
                    bounds.append("(some %s)" % atom(self.as_int(bv)))
            return binds, Val("MN", "Rt.cols %s %s %s" % (atom(base.code), bounds[0], bounds[1]))
        if base.kind == "MN" and isinstance(sl, ast.Tuple) and len(sl.elts) == 2 \
                and not isinstance(sl.elts[1], (ast.Slice, ast.List)) and self.const_index_opt(sl.elts[1]) is None \
                and isinstance(sl.elts[0], ast.Slice) and sl.elts[0].lower is None and sl.elts[0].upper is None \
                and sl.elts[0].step is None:
            b2, jv = self.tx(sl.elts[1], env)         # phase 4: `nodes[:, j]` with a computed int j
            binds += b2
            if not self.is_int(jv):
                raise Problem("column index of kind %r (%s)" % (jv.kind, where))
            t = self.tmp()
            if self.natlike(jv):
                binds.append(("bind", t, "List.mapM (fun r => Rt.idx r %s) %s" % (atom(self.as_nat(jv)), atom(base.code))))
            else:
                binds.append(("bind", t, "List.mapM (fun r => Rt.idxI r %s) %s" % (atom(self.as_int(jv)), atom(base.code))))
            return binds, Val("V", t)
        if base.kind == "MN" and isinstance(sl, ast.Tuple) and len(sl.elts) == 2:
            first, second = sl.elts
            full = isinstance(first, ast.Slice) and first.lower is None and first.upper is None and first.step is None
            if full and not isinstance(second, ast.Slice):
                j = self.const_index(second, where)
                t = self.tmp()
                if j >= 0:
                    binds.append(("bind", t, "List.mapM (fun r => Rt.idx r %d) %s" % (j, atom(base.code))))
                elif j == -1:
                    binds.append(("bind", t, "List.mapM Rt.idxLast %s" % atom(base.code)))
                else:
                    raise Problem("negative index %d (%s)" % (j, where))
                return binds, Val("V", t)
        if base.kind == "M2N" and isinstance(sl, ast.Tuple) and len(sl.elts) == 2 and base.rows is not None \
                and isinstance(sl.elts[0], ast.Slice) and self.const_index_opt(sl.elts[1]) is None \
                and not isinstance(sl.elts[1], ast.Slice):
            first, second = sl.elts
            if not (first.lower is None and first.upper is None and first.step is None):
                raise Problem("subscript %s (%s)" % (ast.unparse(node), where))
            b2, jv = self.tx(second, env)
            binds += b2
            if not self.is_int(jv):
                raise Problem("column index of kind %r (%s)" % (jv.kind, where))
            self.struct_used |= set(base.rows)
            a, b = self.tmp(), self.tmp()
            prim = ("Rt.idx %s " + atom(jv.code)) if jv.kind == "N" else ("Rt.idxI %s " + atom(self.as_int(jv)))
            binds += [("bind", a, prim % base.rows[0]), ("bind", b, prim % base.rows[1])]
            return binds, Val("P", "(%s, %s)" % (a, b), comps=[a, b])
        if base.kind == "M2N" and base.rows is not None and isinstance(sl, ast.Tuple) and len(sl.elts) == 2 \
                and isinstance(sl.elts[1], ast.Slice) and sl.elts[1].lower is None and sl.elts[1].upper is None \
                and sl.elts[1].step is None and isinstance(sl.elts[0], ast.List) and len(sl.elts[0].elts) == 1 \
                and self.const_index_opt(sl.elts[0].elts[0]) in (0, 1):
            # phase 4 (pyalgebraic): `nodes[[i], :]` = the one-row array holding row i
            self.struct_used |= set(base.rows)
            return binds, Val("MN", "[%s]" % base.rows[self.const_index_opt(sl.elts[0].elts[0])])
        if base.kind == "M2N" and base.rows is not None and isinstance(sl, ast.Tuple) and len(sl.elts) == 2 \
                and isinstance(sl.elts[1], ast.Slice) and sl.elts[1].lower is None and sl.elts[1].upper is None \
                and sl.elts[1].step is None and self.const_index_opt(sl.elts[0]) in (0, 1, -1, -2):
            # phase 4 (pyalgebraic): `nodes[i, :]` = row i
            self.struct_used |= set(base.rows)
            return binds, Val("V", base.rows[self.const_index_opt(sl.elts[0]) % 2])
        if base.kind == "MN" and not base.wide and isinstance(sl, ast.Tuple) and len(sl.elts) == 2 \
                and not any(isinstance(x, (ast.Slice, ast.List)) for x in sl.elts):
            # phase 4 (pyalgebraic): `x[i, j]` of a 2-D array
            b2, iv = self.tx(sl.elts[0], env)
            b3, jv = self.tx(sl.elts[1], env)
            binds += b2 + b3
            if not (self.is_int(iv) and self.is_int(jv)):
                raise Problem("cell of a 2-D array with indices of kinds %r, %r (%s)" % (iv.kind, jv.kind, where))
            t = self.tmp()
            binds.append(("bind", t, "Rt.getCell %s %s %s" % (atom(base.code), atom(self.as_int(iv)), atom(self.as_int(jv)))))
            return binds, Val("S", t)
        if base.kind == "VC" and not isinstance(sl, (ast.Tuple, ast.Slice)):
            # phase 4 (pyalgebraic): `z[mask]` of a 1-D complex array
            b2, iv = self.tx(sl, env)
            binds += b2
            if iv.kind != "VB":
                raise Problem("index of kind %r into a complex array (%s)" % (iv.kind, where))
            t = self.tmp()
            binds.append(("bind", t, "Rt.mask %s %s" % (atom(base.code), atom(iv.code))))
            return binds, Val("VC", t)
        if base.kind == "V" and isinstance(sl, ast.Slice):
            # phase 4 (pyalgebraic): `v[lo:hi]`, `v[::-1]` of a 1-D array
            if sl.lower is None and sl.upper is None and self.const_int(sl.step) == -1:
                return binds, Val("V", "List.reverse %s" % atom(base.code))
            lo, hi = self.slice_bounds(binds, sl, env, where)
            return binds, Val("V", "Rt.slice %s %s %s" % (atom(base.code), lo, hi))
        if base.kind == "V" and not isinstance(sl, (ast.Tuple, ast.Slice)):
            # phase 4 (pyalgebraic): `v[i]` of a 1-D array
            b2, iv = self.tx(sl, env)
            binds += b2
            if iv.kind == "VB":                  # `v[mask]`
                t = self.tmp()
                binds.append(("bind", t, "Rt.mask %s %s" % (atom(base.code), atom(iv.code))))
                return binds, Val("V", t)
            if not self.is_int(iv):
                raise Problem("index of kind %r into a 1-D array (%s)" % (iv.kind, where))
            t = self.tmp()
            if self.natlike(iv):
                binds.append(("bind", t, "Rt.idx %s %s" % (atom(base.code), atom(self.as_nat(iv)))))
            else:
                binds.append(("bind", t, "Rt.idxI %s %s" % (atom(base.code), atom(self.as_int(iv)))))
            return binds, Val("S", t)
        if base.kind in ("M22", "M2N") and isinstance(sl, ast.Tuple) and len(sl.elts) == 2:
            first, second = sl.elts
            full = isinstance(first, ast.Slice) and first.lower is None and first.upper is None and first.step is None
            j = self.const_index(second, where)
            if base.kind == "M22":
                if base.cells is None:
                    raise Problem("index into a 2x2 array that is not a parameter / literal (%s)" % where)
                if j not in (0, 1, -1, -2):
                    raise Problem("column %d of a 2x2 array (%s)" % (j, where))
                j %= 2
                self.struct_used |= set(base.cells[0] + base.cells[1])
                if full:
                    return binds, Val("P", "(%s, %s)" % (base.cells[0][j], base.cells[1][j]),
                                      comps=[base.cells[0][j], base.cells[1][j]])
                i = self.const_index(first, where)
                if i not in (0, 1, -1, -2):
                    raise Problem("row %d of a 2x2 array (%s)" % (i, where))
                return binds, Val("S", base.cells[i % 2][j])
            if base.rows is None:
                raise Problem("index into a 2xN array that is not a parameter (%s)" % where)
            self.struct_used |= set(base.rows)
            if full:
                a = self.row_read(binds, base.rows[0], j, where)
                b = self.row_read(binds, base.rows[1], j, where)
                return binds, Val("P", "(%s, %s)" % (a, b), comps=[a, b])
            i = self.const_index(first, where)
            if i not in (0, 1, -1, -2):
                raise Problem("row %d of a 2xN array (%s)" % (i, where))
            return binds, Val("S", self.row_read(binds, base.rows[i % 2], j, where))
        raise Problem("subscript %s of a value of kind %r (%s)" % (ast.unparse(node), base.kind, where))

    # -------------------------------------------------------------- calls
    def call(self, node, env, where, stmt=False):
        f = node.func
        target = None          # ("fn", module, name) | ("np", dotted) | ("builtin", name)
        if isinstance(f, ast.Name) and f.id not in env and f.id in getattr(self, "fn_alias", {}):
            if stmt:                                 # phase 4 (pyalgebraic): call through a local name of an external function
                raise Problem("call whose result is discarded (%s)" % where)
            return self.abstract_call(node, self.fn_alias[f.id][0], self.fn_alias[f.id][1], env, where)
        if not stmt and isinstance(f, ast.Attribute) and f.attr == "ravel" and \
                not (isinstance(f.value, ast.Name) and f.value.id not in env):
            # phase 4 (pyclassify): `x.ravel(order="F")` of a `d x 1` array: the 1-D array of its d entries (a view)
            kw = {k.arg: k.value for k in node.keywords}
            binds, v = self.tx(f.value, env)
            if v.kind == "C":
                if node.args or not set(kw) <= {"order"} or \
                        ("order" in kw and not (isinstance(kw["order"], ast.Constant) and kw["order"].value in ("F", "C", "A", "K"))):
                    raise Problem("ravel of a value of kind %r / with these arguments (%s)" % (v.kind, where))
                r = Val("V", v.code, inplace=v.inplace)
                r.view = True
                return binds, r
            # any other kind: the `reshape` / `ravel` handler of phase 4 (pypipeline) below decides (or refuses)
        if not stmt and isinstance(f, ast.Attribute) and f.attr == "pop" and isinstance(f.value, ast.Name) and \
                f.value.id in env and env[f.value.id].kind == "CSET":
            # phase 4 (pyclassify): `all_types.pop()`; the set is changed in place: the variable must not be read again
            if node.args or node.keywords:
                raise Problem("pop with arguments (%s)" % where)
            t = self.tmp()
            self.dead_names = getattr(self, "dead_names", set()) | {f.value.id}
            return [("bind", t, "Rt.setPop1 %s" % atom(env[f.value.id].code))], Val("CLS", t)
        if isinstance(f, ast.Name) and f.id not in env and f.id not in self.mod.funcs and f.id not in self.locals_ \
                and isinstance(self.mod.consts.get(f.id), ast.Attribute):
            # phase 4 (pyclassify): a module-level alias of a NumPy function (`_SIGN = np.sign`)
            c = self.mod.consts[f.id]
            if isinstance(c.value, ast.Name) and self.mod.aliases.get(c.value.id) == "numpy" and c.attr == "sign":
                target = ("np", "sign")
        if isinstance(f, ast.Attribute) and isinstance(f.value, ast.Name) and f.value.id not in env and \
                (self.mod.aliases.get(f.value.id), f.attr) == self.INT_CLASS and not stmt:
            return self.make_intersection(node, env, where)
        if target is not None:
            pass
        elif isinstance(f, ast.Name) and f.id not in env:
            if f.id in self.mod.funcs or (self.modname, f.id) in ABSTRACT:
                target = ("fn", self.modname, f.id)
            elif f.id in ("abs", "min", "max", "len", "float"):
                target = ("builtin", f.id)
        elif isinstance(f, ast.Attribute):
            chain = []
            cur = f
            while isinstance(cur, ast.Attribute):
                chain.append(cur.attr)
                cur = cur.value
            if isinstance(cur, ast.Name) and cur.id not in env:
                chain.reverse()
                al = self.mod.aliases.get(cur.id)
                if al == "numpy":
                    target = ("np", ".".join(chain))
                elif al == "bisect":
                    target = ("bisect", ".".join(chain))
                elif al is not None and len(chain) == 1:
                    target = ("fn", al, chain[0])
        if target is None and isinstance(f, ast.Attribute) and isinstance(f.value, ast.Name) and f.value.id not in env \
                and f.value.id in self.mod.classes and (self.modname, "%s.%s" % (f.value.id, f.attr)) in ABSTRACT and not stmt:
            # phase 4 (pypipeline): an untranslated class method `Class.method(args)`
            return self.abstract_call(node, self.modname, "%s.%s" % (f.value.id, f.attr), env, where)
        if target is None and isinstance(f, ast.Name) and f.id not in env and f.id in OBJECTS and f.id in self.mod.classes \
                and not stmt:
            return self.construct(node, f.id, env, where)
        if target is None and isinstance(f, ast.Name) and f.id not in env and not stmt and "Linearization" in self.mod.classes \
                and (f.id == "Linearization" or (f.id == "cls" and getattr(self, "cls_name", None) == "Linearization")):
            return self.construct_lin(node, env, where)
        if target is None and isinstance(f, ast.Attribute) and f.attr in ("reshape", "ravel") and not stmt:
            # phase 4 (pypipeline): `v.reshape((n, 1), order="F")` of a 1-D array, `m.ravel(order="F")` of a 2-D array
            kw = {k_.arg: k_.value for k_ in node.keywords}
            if set(kw) != {"order"} or not (isinstance(kw["order"], ast.Constant) and kw["order"].value == "F"):
                raise Problem("%s without order=\"F\" (%s)" % (f.attr, where))
            binds, v = self.tx(f.value, env)
            if f.attr == "ravel" and not node.args and v.kind == "MN" and not v.wide:
                return binds, Val("V", "Rt.ravelF %s" % atom(v.code))
            if f.attr == "reshape" and len(node.args) == 1 and isinstance(node.args[0], ast.Tuple) \
                    and len(node.args[0].elts) == 2 and self.const_int(node.args[0].elts[1]) == 1 and v.kind == "V":
                n = self.const_int(node.args[0].elts[0])
                if n is not None and n >= 1:
                    t = self.tmp()
                    binds.append(("bind", t, "Rt.reshapeCol %d %s" % (n, atom(v.code))))
                    return binds, Val("C", t)
            raise Problem("call of %s of a value of kind %r with this argument list (%s)" % (f.attr, v.kind, where))
        if target is None and isinstance(f, ast.Name) and f.id in env and is_fn(env[f.id].kind) and not stmt:
            # phase 4 (pypipeline): call of a callable parameter (positional arguments of the declared kinds)
            _, akinds, rk, can_raise = env[f.id].kind
            if node.keywords or len(node.args) != len(akinds):
                raise Problem("call of %s with this argument list (%s)" % (f.id, where))
            binds, args = [], []
            for a, kd in zip(node.args, akinds):
                b, v = self.tx(a, env)
                binds += b
                v = self.need(binds, v, kd, "argument of %s (%s)" % (f.id, where))
                args.append(atom(v.code))
            code = "%s %s" % (env[f.id].code, " ".join(args))
            if can_raise:
                t = self.tmp()
                binds.append(("bind", t, code))
                code = t
            return binds, Val(rk, code)
        if target is None:
            raise Problem("call of %s (%s)" % (ast.unparse(f), where))
        if target[0] == "fn":
            return self.fn_call(node, target[1], target[2], env, where, stmt)
        if stmt:
            raise Problem("call whose result is discarded (%s)" % where)
        return self.prim_call(node, target, env, where)

    def construct(self, node, cls, env, where):
        """phase 4 (pypipeline): `SubdividedCurve(a, b, ...)`: `__init__` must do nothing but `self.<slot> = <parameter>`
        for each slot; missing arguments take the numeric defaults of `__init__`"""
        kind, struct, slots = OBJECTS[cls]
        init = self.mod.methods.get((cls, "__init__"))
        if init is None:
            raise Problem("class %s has no __init__ (%s)" % (cls, where))
        ia = init.args
        params = [x.arg for x in ia.args][1:]
        body = [st for st in init.body if not (isinstance(st, ast.Expr) and isinstance(st.value, ast.Constant))]
        ok = params == [sl for sl, _, _ in slots] and len(body) == len(params) and not (ia.vararg or ia.kwarg or ia.kwonlyargs)
        for st, f in zip(body, params):
            ok = ok and isinstance(st, ast.Assign) and len(st.targets) == 1 and \
                ast.unparse(st.targets[0]) == "self.%s" % f and ast.unparse(st.value) == f
        if not ok:
            raise Problem("%s.__init__ does more than storing its parameters in the slots %s (%s)"
                          % (cls, [sl for sl, _, _ in slots], where))
        defaults = dict(zip(params[len(params) - len(ia.defaults):], ia.defaults))
        given = {}
        if len(node.args) > len(params):
            raise Problem("too many arguments for %s (%s)" % (cls, where))
        for pn, a in zip(params, node.args):
            given[pn] = a
        for kw_ in node.keywords:
            if kw_.arg is None or kw_.arg not in params or kw_.arg in given:
                raise Problem("keyword argument of %s (%s)" % (cls, where))
            given[kw_.arg] = kw_.value
        binds, fields = [], []
        for sl, field, kd in slots:           # NOTE: Python evaluates positional arguments, then keywords, left to right
            if sl in given:
                b, v = self.tx(given[sl], env)
                if b:
                    raise Problem("an argument of %s that can raise (%s)" % (cls, where))
                v = self.as_scalar(binds, v, "argument of %s (%s)" % (cls, where)) if kd == "S" else v
                if v.kind != kd:
                    raise Problem("argument %s of %s: kind %r where %r is required (%s)" % (sl, cls, v.kind, kd, where))
                code = v.code
            else:
                if sl not in defaults or self.const_eval(defaults[sl]) is None:
                    raise Problem("argument %s of %s is missing (%s)" % (sl, cls, where))
                code = lit(self.const_eval(defaults[sl]))
            fields.append("%s := %s" % (field, code))
        return binds, Val(kind, "({ %s } : %s K)" % (", ".join(fields), struct))

    LIN_INIT = ["self.curve = curve", "self.error = error", "self.start_node = curve.nodes[:, 0]",
                "self.end_node = curve.nodes[:, -1]"]

    def construct_lin(self, node, env, where):
        """phase 4 (pypipeline): `Linearization(curve, error)`: `__init__` must be exactly `LIN_INIT` (checked on the
        source text): the two arguments are stored and `start_node` / `end_node` are the first / last column of the
        curve's nodes (IndexError on an empty row); a candidate (SHAPE) given as `curve` must be a SubdividedCurve"""
        init = self.mod.methods.get(("Linearization", "__init__"))
        body = [] if init is None else [ast.unparse(st) for st in init.body
                                        if not (isinstance(st, ast.Expr) and isinstance(st.value, ast.Constant))]
        if init is None or [x.arg for x in init.args.args] != ["self", "curve", "error"] or init.args.defaults \
                or body != self.LIN_INIT:
            raise Problem("Linearization.__init__ is not the expected one (%s)" % where)
        if node.keywords or len(node.args) != 2:
            raise Problem("Linearization(...) with this argument list (%s)" % where)
        binds, c = self.tx(node.args[0], env)
        if c.kind == "SHAPE":
            t = self.tmp()
            binds.append(("bind", t, "Rt.PyShape.asSub %s" % atom(c.code)))
            c = Val("OSUB", t)
        if c.kind != "OSUB":
            raise Problem("Linearization(curve, ..): kind %r (%s)" % (c.kind, where))
        b2, e = self.tx(node.args[1], env)
        binds += b2
        e = self.as_scalar(binds, e, "error of a Linearization (%s)" % where)
        a, b = self.tmp(), self.tmp()
        binds.append(("bind", a, "List.mapM (fun r => Rt.idx r 0) %s.nodes" % atom(c.code)))
        binds.append(("bind", b, "List.mapM Rt.idxLast %s.nodes" % atom(c.code)))
        return binds, Val("LIN", "({ curve := %s, error := %s, start_node := %s, end_node := %s } : Rt.PyLin K)"
                          % (c.code, e.code, a, b))
    def make_intersection(self, node, env, where):
        """phase 4 (pyclassify): `intersection_helpers.Intersection(index_first, s, index_second, t, interior_curve=None)`:
        the constructor must do nothing but store its five parameters in the slots of the same names"""
        other = self.tr.module(self.INT_CLASS[0])
        init = other.methods.get((self.INT_CLASS[1], "__init__"))
        names = list(self.INT_FIELDS)
        ok = init is not None and [x.arg for x in init.args.args] == ["self"] + names and \
            not (init.args.vararg or init.args.kwarg or init.args.kwonlyargs or init.args.posonlyargs) and \
            len(init.args.defaults) == 1 and isinstance(init.args.defaults[0], ast.Constant) and \
            init.args.defaults[0].value is None
        if ok:
            body = [st for st in init.body if not (isinstance(st, ast.Expr) and isinstance(st.value, ast.Constant))]
            ok = len(body) == len(names)
            for st, f in zip(body, names):
                ok = ok and isinstance(st, ast.Assign) and len(st.targets) == 1 and \
                    ast.unparse(st.targets[0]) == "self.%s" % f and ast.unparse(st.value) == f
        if not ok:
            raise Problem("Intersection.__init__ is not the plain five-slot constructor (%s)" % where)
        given = dict(zip(names, node.args))
        for k in node.keywords:
            if k.arg not in names or k.arg in given:
                raise Problem("Intersection(...) with this argument list (%s)" % where)
            given[k.arg] = k.value
        if len(node.args) > 5 or any(isinstance(a, ast.Starred) for a in node.args) or set(names[:4]) - set(given):
            raise Problem("Intersection(...) with this argument list (%s)" % where)
        binds, parts = [], []
        for f in names:
            kd, field = self.INT_FIELDS[f]
            if f not in given:
                parts.append("%s := none" % field)
                continue
            b, v = self.tx(given[f], env)
            binds += b
            if kd == "CLS":
                if v.kind not in ("CLS", "none"):
                    raise Problem("Intersection(...): %s of kind %r (%s)" % (f, v.kind, where))
                parts.append("%s := %s" % (field, v.code))
            else:
                parts.append("%s := %s" % (field, self.opt_term(v, kd[1], where)))
        return binds, Val("INT", "({ %s } : Model.Classify.Intersection K)" % ", ".join(parts))

    def use_extra(self, x):
        if x not in self.extra:
            self.extra.append(x)
            self.extra.sort(key=lambda y: (y != "sqrt", y != "fuel", y != "quad", y if isinstance(y, tuple) else ()))

    def abstract_call(self, node, mod, fn, env, where):
        kinds, ret, can_raise = ABSTRACT[(mod, fn)]
        if node.keywords or len(node.args) != len(kinds):
            raise Problem("call of %s with this argument list (%s)" % (fn, where))
        binds, args = [], []
        for a, kd in zip(node.args, kinds):
            b, v = self.tx(a, env)
            binds += b
            want = "S" if kd == "S1" else kd
            if kd == "S1" and not v.unit:
                raise Problem("argument of %s must be a one-entry array (%s)" % (fn, where))
            if want == "S":
                v = self.as_scalar(binds, v, "argument of %s (%s)" % (fn, where))
            if want == "SHAPE" and v.kind in ("OSUB", "LIN"):        # phase 4 (pypipeline): an object as a candidate
                v = Val("SHAPE", "Rt.PyShape.%s %s" % ("sub" if v.kind == "OSUB" else "lin", atom(v.code)))
            if want == "N" and self.natlike(v) and self.modname == "algebraic_intersection":                  # phase 4 (pyalgebraic)
                v = Val("N", self.as_nat(v))
            if want == "MN" and v.kind == "M2N":                 # phase 4 (pyalgebraic): a 2 x N array is a 2-D array
                v = Val("MN", v.code)
            if v.kind != want:
                raise Problem("argument of %s: kind %r where %r is required (%s)" % (fn, v.kind, kd, where))
            args.append(atom(v.code))
        self.use_extra((mod, fn))
        fn = fn.replace(".", "_")
        if not can_raise:
            return binds, Val(ret, "%s %s" % (fn, " ".join(args)))
        t = self.tmp()
        binds.append(("bind", t, "%s %s" % (fn, " ".join(args))))
        return binds, Val(ret, t)

    def fn_call(self, node, mod, fn, env, where, stmt=False):
        if (mod, fn) in ABSTRACT and not stmt:
            return self.abstract_call(node, mod, fn, env, where)
        if (mod, fn) not in self.tr.sigs:
            raise Problem("call of %s.%s, which is not in the signature table (%s)" % (mod, fn, where))
        callee = self.tr.function(mod, fn)
        if callee is None:
            raise Problem("call of %s, which could not be translated (%s)" % (fn, where))
        missing = callee.params[len(node.args):]
        kwargs = {}
        if node.keywords and all(k.arg in missing for k in node.keywords) and \
                len({k.arg for k in node.keywords}) == len(node.keywords) and \
                all(p in callee.defaults for p in missing) and \
                [p for p in missing if p in {k.arg for k in node.keywords}] == missing[:len(node.keywords)]:
            # phase 4 (pyclassify): keyword arguments for the parameters that directly follow the positional ones
            # (`get_next_first(intersection, intersections, to_end=False)`) are read as positional arguments
            node = ast.Call(func=node.func, args=list(node.args) + [k.value for k in sorted(
                node.keywords, key=lambda k: missing.index(k.arg))], keywords=[])
            missing = callee.params[len(node.args):]
        if node.keywords or len(node.args) > len(callee.kinds) or any(isinstance(a, ast.Starred) for a in node.args) \
                or any(p not in callee.defaults for p in missing):
            raise Problem("call of %s with keyword / starred / missing arguments (%s)" % (fn, where))
        if callee.mut and not stmt:
            raise Problem("call of %s, which updates a list argument in place, inside an expression (%s)" % (fn, where))
        if stmt and not (callee.mut and callee.ret_none):
            raise Problem("call of %s whose result is discarded (%s)" % (fn, where))
        binds, args, muts = [], [], []
        for i, (a, kd, pn) in enumerate(zip(node.args, callee.kinds, callee.params)):
            b, v = self.tx(a, env)
            binds += b
            if i in callee.mut:
                if not (isinstance(a, ast.Name) and is_list(v.kind)) or a.id in self.ro_lists or \
                        any(n == a.id for n, _ in muts):
                    raise Problem("argument %s of %s is updated in place: it must be a list variable that this function "
                                  "may change (%s)" % (pn, fn, where))
                muts.append((a.id, ("list", kd[1])))
                v = self.need(binds, v, ("list", kd[1]), "argument %s of %s (%s)" % (pn, fn, where))
            elif kd == "S1":
                if not (v.kind == "S" and v.unit):
                    raise Problem("argument %s of %s must be a one-entry array (%s)" % (pn, fn, where))
            elif kd == "VW":                                     # phase 4 (pyalgebraic)
                if isinstance(a, ast.Name) or v.kind != "V":
                    raise Problem("argument %s of %s is overwritten in place: it must be a fresh 1-D array, not a variable "
                                  "(%s)" % (pn, fn, where))
            elif kd == "M22" and v.kind == "MN" and not v.wide:
                t = self.tmp()                        # phase 4: the shape is checked at the call
                binds.append(("bind", t, "Rt.asM22 %s" % atom(v.code)))
                v = Val("M22", t)
            elif kd in ("M22", "M2N", "MN", "SUB", "C", "INT", "CLS", "OL", "REF", "CSET"):
                if kd == "CSET" and isinstance(a, ast.Name):         # the callee may pop from it
                    self.dead_names = getattr(self, "dead_names", set()) | {a.id}
                if kd == "INT" and v.kind == "REF":          # only the slots of the object are read
                    v = Val("INT", "%s.val" % atom(v.code))
                if is_opt(v.kind) and v.kind[1] == kd and v.kind[2] == "none":
                    v = self.need(binds, v, kd, "argument %s of %s (%s)" % (pn, fn, where))     # phase 4: TypeError on None
                if v.kind != kd:
                    raise Problem("argument %s of %s: kind %r where %r is required (%s)" % (pn, fn, v.kind, kd, where))
            else:
                v = self.need(binds, v, kd, "argument %s of %s (%s)" % (pn, fn, where))
            args.append(atom(v.code))
        for pn in missing:
            dv = callee.defaults[pn]
            args.append(("true" if dv else "false") if isinstance(dv, bool) else lit(dv))
        for x in callee.uses_sqrt:
            self.use_extra(x)
        args = [x if x in ("sqrt", "fuel", "quad") else x[1].replace(".", "_") for x in callee.uses_sqrt] + args
        code = "%s %s" % (lean_fn_name(mod, fn), " ".join(args))
        if callee.monadic:
            t = self.tmp()
            binds.append(("bind", t, code))
            code = t
        if stmt:
            return binds, Val(callee.ret, code), muts
        r = Val(callee.ret, code)
        cnode = self.tr.module(mod).funcs.get(fn)
        # phase 4 (pyclassify): every `return` of the callee delivers the value of an arithmetic expression = a new array
        r.fresh = cnode is not None and all(isinstance(n.value, (ast.BinOp, ast.UnaryOp))
                                            for n in ast.walk(cnode) if isinstance(n, ast.Return))
        return binds, r

    def prim_call(self, node, target, env, where):
        name = target[1]
        kw = {k.arg: k.value for k in node.keywords}
        if None in kw:
            raise Problem("**kwargs (%s)" % where)
        if self.p4:                                    # phase 4 (pycurve)
            r4 = self.p4_prim(node, target, kw, env, where)
            if r4 is not None:
                return r4

        def kw_is(key, value):
            return key in kw and isinstance(kw[key], ast.Constant) and kw[key].value == value and \
                type(kw[key].value) is type(value)
        if target[0] == "np" and name in ("asfortranarray", "array") and len(node.args) == 1 and not kw \
                and isinstance(node.args[0], ast.List) and len(node.args[0].elts) != 1:
            elts = node.args[0].elts
            binds = []
            if len(elts) == 2 and all(isinstance(e, ast.List) and len(e.elts) == 2 for e in elts):
                cells = []
                for r in elts:
                    row = []
                    for e in r.elts:
                        b, v = self.tx(e, env)
                        binds += b
                        row.append(atom(self.need(binds, v, "S", "array entry (%s)" % where).code))
                    cells.append(row)
                return binds, Val("M22", "[[%s, %s], [%s, %s]]" % (cells[0][0], cells[0][1], cells[1][0], cells[1][1]),
                                  cells=cells)
            if len(elts) == 2 and not any(isinstance(e, (ast.List, ast.Tuple, ast.Starred)) for e in elts):
                comps = []
                for e in elts:
                    b, v = self.tx(e, env)
                    binds += b
                    comps.append(atom(self.need(binds, v, "S", "array entry (%s)" % where).code))
                return binds, Val("P", "(%s, %s)" % (comps[0], comps[1]), comps=comps)
            if self.modname == "algebraic_intersection" and len(elts) == 2 and all(isinstance(e, ast.List) and len(e.elts) == 1 and not isinstance(
                    e.elts[0], (ast.List, ast.Tuple, ast.Starred)) for e in elts):
                # phase 4 (pyalgebraic): `[[a], [b]]`, a 2 x 1 column
                comps = []
                for e in elts:
                    b, v = self.tx(e.elts[0], env)
                    binds += b
                    comps.append(atom(self.need(binds, v, "S", "array entry (%s)" % where).code))
                return binds, Val("C", "[%s, %s]" % (comps[0], comps[1]), comps=comps)
            if len(elts) >= 3 and not any(isinstance(e, (ast.List, ast.Tuple, ast.Starred)) for e in elts):
                # phase 4 (pyalgebraic): a 1-D array literal with three or more entries
                cs = []
                for e in elts:
                    b, v = self.tx(e, env)
                    binds += b
                    cs.append(self.as_scalar(binds, v, "array entry (%s)" % where).code)
                return binds, Val("V", "[" + ", ".join(cs) + "]")
            if len(elts) >= 1 and all(isinstance(e, ast.List) and len(e.elts) == 1 for e in elts):
                rows = []              # phase 4 (pypipeline): a d x 1 literal `[[a], [b]]` as a 2-D array
                for r in elts:
                    b, v = self.tx(r.elts[0], env)
                    binds += b
                    rows.append("[%s]" % self.need(binds, v, "S", "array entry (%s)" % where).code)
                return binds, Val("MN", "[" + ", ".join(rows) + "]")
            raise Problem("array literal of unsupported shape (%s)" % where)
        if target[0] == "np" and name == "empty" and len(node.args) == 1 and set(kw) <= {"order"} \
                and isinstance(node.args[0], ast.Tuple) and len(node.args[0].elts) == 2 \
                and self.const_int(node.args[0].elts[1]) == 0 and (self.const_int(node.args[0].elts[0]) or 0) >= 1 \
                and not (self.modname == "algebraic_intersection" and self.const_int(node.args[0].elts[0]) <= 4):
            # phase 4 (pypipeline): `np.empty((d, 0))` has no entries: d empty rows (merge: pyalgebraic writes the rows out, below)
            return [], Val("MN", "(List.replicate %d [] : List (List K))" % self.const_int(node.args[0].elts[0]))
        if target[0] == "np" and name in ("min", "max") and len(node.args) == 1 and set(kw) == {"axis"} and kw_is("axis", 1):
            binds, v = self.tx(node.args[0], env)
            prim = "Rt.npMin" if name == "min" else "Rt.npMax"
            if v.kind == "M2N" and v.rows is not None:
                self.struct_used |= set(v.rows)
                a, b = self.tmp(), self.tmp()
                binds += [("bind", a, "%s %s" % (prim, v.rows[0])), ("bind", b, "%s %s" % (prim, v.rows[1]))]
                return binds, Val("P", "(%s, %s)" % (a, b), comps=[a, b])
            if v.kind == "MN":
                t = self.tmp()
                binds.append(("bind", t, "List.mapM %s %s" % (prim, atom(v.code))))
                return binds, Val("V", t)
            raise Problem("np.%s(axis=1) of a value of kind %r (%s)" % (name, v.kind, where))
        if target[0] == "np" and name in ("asfortranarray", "array") and len(node.args) == 1 and not kw \
                and isinstance(node.args[0], ast.List) and len(node.args[0].elts) == 1 \
                and not isinstance(node.args[0].elts[0], (ast.List, ast.Tuple, ast.Starred)):
            binds, v = self.tx(node.args[0].elts[0], env)
            v = self.as_scalar(binds, v, "array entry (%s)" % where)
            r = Val("S", v.code)
            r.unit = True
            return binds, r
        if target[0] == "np" and name == "zeros" and len(node.args) == 1 and set(kw) <= {"order"} \
                and isinstance(node.args[0], ast.Attribute) and node.args[0].attr == "shape":
            # phase 4 (pyalgebraic): `np.zeros(v.shape)` for a 1-D array v
            binds, v = self.tx(node.args[0].value, env)
            if v.kind != "V":
                raise Problem("np.zeros(x.shape) of a value of kind %r (%s)" % (v.kind, where))
            return binds, Val("V", "List.replicate (List.length %s) (0 : K)" % atom(v.code))
        if target[0] == "np" and name == "empty" and len(node.args) == 1 and set(kw) <= {"order"} \
                and isinstance(node.args[0], ast.Tuple) and [self.const_int(e) for e in node.args[0].elts] == [0, 0]:
            # phase 4 (pyalgebraic): the array without entries
            return [], Val("MN", "([] : List (List K))")
        if target[0] == "np" and name == "empty" and len(node.args) == 1 and set(kw) <= {"order"} \
                and isinstance(node.args[0], ast.Tuple) and len(node.args[0].elts) == 2 \
                and self.const_int(node.args[0].elts[0]) is not None and 0 <= self.const_int(node.args[0].elts[0]) <= 4 \
                and self.const_int(node.args[0].elts[1]) == 0:
            # phase 4 (pyalgebraic): `np.empty((d, 0))`: d rows without entries
            return [], Val("MN", "([%s] : List (List K))" % ", ".join(["[]"] * self.const_int(node.args[0].elts[0])))
        if target[0] == "np" and name == "empty" and len(node.args) == 1 and set(kw) <= {"order"} \
                and isinstance(node.args[0], ast.Tuple) and [self.const_int(e) for e in node.args[0].elts] == [0]:
            # phase 4 (pyalgebraic): the 1-D array without entries
            return [], Val("V", "([] : List K)")
        if target[0] == "np" and name == "hstack" and len(node.args) == 1 and not kw and isinstance(node.args[0], ast.List) \
                and len(node.args[0].elts) == 2:
            # phase 4 (pyalgebraic): concatenation of two 1-D arrays (a real one next to a complex one is converted)
            binds, a = self.tx(node.args[0].elts[0], env)
            b2, b = self.tx(node.args[0].elts[1], env)
            binds += b2
            if a.kind not in ("V", "VC") or b.kind not in ("V", "VC"):
                raise Problem("np.hstack of kinds %r, %r (%s)" % (a.kind, b.kind, where))
            kd = unify(a.kind, b.kind)
            return binds, Val(kd, "%s ++ %s" % (atom(self.coerce(a, kd)), atom(self.coerce(b, kd))))
        if target[0] == "np" and name == "linalg.eigvals" and len(node.args) == 1 and not kw:
            # phase 4 (pyalgebraic): external, an explicit parameter of the generated definition
            binds, v = self.tx(node.args[0], env)
            if v.kind != "MN" or v.wide:
                raise Problem("np.linalg.eigvals of a value of kind %r (%s)" % (v.kind, where))
            self.use_extra(("numpy", "np_linalg_eigvals"))
            return binds, Val("VC", "np_linalg_eigvals %s" % atom(v.code))
        if target[0] == "np" and name == "eye" and len(node.args) == 1 and set(kw) <= {"order"}:
            # phase 4 (pyalgebraic): the identity matrix
            binds, v = self.tx(node.args[0], env)
            if not self.natlike(v):
                raise Problem("np.eye of a value of kind %r (%s)" % (v.kind, where))
            return binds, Val("MN", "Model.identity %s" % atom(self.as_nat(v)))
        if target[0] == "np" and name == "linalg.matrix_rank" and len(node.args) == 1 and not kw:
            # phase 4 (pyalgebraic): external, an explicit parameter of the generated definition
            binds, v = self.tx(node.args[0], env)
            if v.kind != "MN" or v.wide:
                raise Problem("np.linalg.matrix_rank of a value of kind %r (%s)" % (v.kind, where))
            self.use_extra(("numpy", "np_linalg_matrix_rank"))
            return binds, Val("N", "np_linalg_matrix_rank %s" % atom(v.code))
        if target[0] == "np" and name == "argmin" and len(node.args) == 1 and not kw:
            # phase 4 (pyalgebraic)
            binds, v = self.tx(node.args[0], env)
            if v.kind != "V":
                raise Problem("np.argmin of a value of kind %r (%s)" % (v.kind, where))
            t = self.tmp()
            binds.append(("bind", t, "Rt.argmin %s" % atom(v.code)))
            return binds, Val("N", t)
        if target[0] == "np" and name == "sqrt" and len(node.args) == 1 and not kw:
            # phase 4 (pyalgebraic): the abstract `sqrt`
            binds, v = self.tx(node.args[0], env)
            v = self.as_scalar(binds, v, "argument of np.sqrt (%s)" % where)
            self.use_extra("sqrt")
            return binds, Val("S", "sqrt %s" % atom(v.code))
        if target[0] == "np" and name == "linalg.det" and len(node.args) == 1 and not kw:
            # phase 4 (pyalgebraic): external, an explicit parameter of the generated definition
            binds, v = self.tx(node.args[0], env)
            if v.kind != "MN" or v.wide:
                raise Problem("np.linalg.det of a value of kind %r (%s)" % (v.kind, where))
            self.use_extra(("numpy", "np_linalg_det"))
            return binds, Val("S", "np_linalg_det %s" % atom(v.code))
        if target[0] == "np" and name in ("zeros", "ones") and len(node.args) == 1 and set(kw) <= {"order"} \
                and isinstance(node.args[0], ast.Tuple) and len(node.args[0].elts) == 2:
            binds, d0 = self.tx(node.args[0].elts[0], env)
            b2, d1 = self.tx(node.args[0].elts[1], env)
            binds += b2
            if name == "zeros" and self.natlike(d0) and self.natlike(d1) and not (d1.kind == "S" and d1.intval == 1):
                # phase 4 (pyalgebraic): the a x b zero array, created here (may be overwritten in place)
                r = Val("MN", "Rt.mfill %s %s (0 : K)" % (atom(self.as_nat(d0)), atom(self.as_nat(d1))))
                r.owned = True
                return binds, r
            if d1.kind == "S" and d1.intval == 1 and name == "zeros" and self.natlike(d0):
                r = Val("C", "List.replicate %s (0 : K)" % atom(self.as_nat(d0)))
                r.owned = True
                return binds, r
            if d1.kind == "S" and d1.intval == 1 and d0.kind == "S" and d0.intval == 1 and name == "ones":
                r = Val("S", "(1 : K)")
                r.unit = True
                return binds, r
            raise Problem("np.%s with this shape (%s)" % (name, where))
        if target[0] == "np" and name in ("asfortranarray", "array") and len(node.args) == 1 and not kw \
                and not isinstance(node.args[0], ast.List):
            binds, v = self.tx(node.args[0], env)
            if v.kind == "MN" and isinstance(node.args[0], ast.Name) and not v.inplace and not v.wide \
                    and node.args[0].id not in self.prealloc:
                return binds, v       # phase 4: an array that is never updated in place (a possible alias is harmless)
            if v.kind != "MN" or isinstance(node.args[0], ast.Name):
                raise Problem("np.%s of a value of kind %r / of a variable (a possible alias) (%s)" % (name, v.kind, where))
            return binds, v
        if ((target[0] == "np" and name in ("abs", "absolute")) or target == ("builtin", "abs")) and len(node.args) == 1 and not kw:
            binds, v = self.tx(node.args[0], env)
            if v.kind == "MN" and target[0] == "np":
                return binds, Val("MN", "Rt.mmap Model.absK %s" % atom(v.code))
            if v.kind == "V" and target[0] == "np":          # phase 4 (pyalgebraic)
                return binds, Val("V", "List.map Model.absK %s" % atom(v.code))
            if v.kind == "VC" and target[0] == "np":         # phase 4 (pyalgebraic): modulus through the abstract sqrt
                self.use_extra("sqrt")
                return binds, Val("V", "List.map (fun z => sqrt (z.1 * z.1 + z.2 * z.2)) %s" % atom(v.code))
            v = self.need(binds, v, "S", "argument of abs (%s)" % where)
            return binds, Val("S", "Model.absK %s" % atom(v.code))
        if target == ("bisect", "bisect_left") and len(node.args) == 2 and not kw:
            # the standard-library routine, as transcribed in Model.bisectLeft (lo = 0, hi = len, fuel = len + 1)
            binds, a = self.tx(node.args[0], env)
            b2, b = self.tx(node.args[1], env)
            binds += b2
            if a.kind != ("list", "N") or not self.natlike(b):
                raise Problem("bisect_left of kinds %r, %r (%s)" % (a.kind, b.kind, where))
            la = atom(a.code)
            return binds, Val("N", "Model.bisectLeft %s %s (List.length %s + 1) 0 (List.length %s)"
                              % (la, atom(self.as_nat(b)), la, la))
        if target == ("builtin", "len") and len(node.args) == 1 and not kw:
            binds, v = self.tx(node.args[0], env)
            if not (is_list(v.kind) or v.kind in ("V", "CSET", "OL")):
                raise Problem("len of a value of kind %r (%s)" % (v.kind, where))
            return binds, Val("N", "List.length %s" % atom(v.code))
        if target == ("builtin", "float") and len(node.args) == 1 and not kw:
            binds, v = self.tx(node.args[0], env)
            return binds, self.as_scalar(binds, v, "argument of float (%s)" % where)
        if target == ("np", "shape") and len(node.args) == 1 and not kw:
            binds, v = self.tx(node.args[0], env)
            return binds, self.shape_of(binds, v, where)
        if target[0] == "builtin" and name in ("min", "max") and len(node.args) == 2 and not kw:
            binds, a = self.tx(node.args[0], env)
            b2, b = self.tx(node.args[1], env)
            binds += b2
            if a.kind == "X" or b.kind == "X":
                a = self.need(binds, a, "X", "argument of %s (%s)" % (name, where))
                b = self.need(binds, b, "X", "argument of %s (%s)" % (name, where))
                return binds, Val("X", "Rt.Ext.%s %s %s" % (name, atom(a.code), atom(b.code)))
            a = self.need(binds, a, "S", "argument of %s (%s)" % (name, where))
            b = self.need(binds, b, "S", "argument of %s (%s)" % (name, where))
            return binds, Val("S", "Model.%sK %s %s" % (name, atom(a.code), atom(b.code)))
        if target == ("np", "sign") and len(node.args) == 1 and not kw:
            # phase 4 (pyclassify): np.sign of a float / of a list literal of floats (then: the tuple of the signs)
            if isinstance(node.args[0], ast.List) and node.args[0].elts:
                binds, comps = [], []
                for e in node.args[0].elts:
                    b, v = self.tx(e, env)
                    binds += b
                    v = self.need(binds, v, "S", "argument of np.sign (%s)" % where)
                    comps.append(Val("S", "Rt.sign %s" % atom(v.code)))
                return binds, Val(("tuple", tuple("S" for _ in comps)), "(" + ", ".join(c.code for c in comps) + ")",
                                  comps=comps)
            binds, v = self.tx(node.args[0], env)
            v = self.need(binds, v, "S", "argument of np.sign (%s)" % where)
            return binds, Val("S", "Rt.sign %s" % atom(v.code))
        if target[0] == "np" and name == "vdot" and len(node.args) == 2 and not kw:
            binds, a = self.tx(node.args[0], env)
            b2, b = self.tx(node.args[1], env)
            binds += b2
            if a.kind == "V" and b.kind == "V":
                return binds, Val("S", "Model.dot %s %s" % (atom(a.code), atom(b.code)))
            if a.kind != "P" or b.kind != "P":
                raise Problem("np.vdot of kinds %r, %r (%s)" % (a.kind, b.kind, where))
            return binds, Val("S", "Model.dot2 %s %s" % (atom(a.code), atom(b.code)))
        if target[0] == "np" and name == "dot" and len(node.args) == 2 and not kw:
            binds, a = self.tx(node.args[0], env)
            b2, b = self.tx(node.args[1], env)
            binds += b2
            if a.kind != "MN" or b.kind != "MN":
                raise Problem("np.dot of kinds %r, %r (%s)" % (a.kind, b.kind, where))
            t = self.tmp()
            binds.append(("bind", t, "Rt.npDot %s %s" % (atom(a.code), atom(b.code))))
            return binds, Val("MN", t)
        if target[0] == "np" and name == "repeat" and len(node.args) == 2 and set(kw) == {"axis"} and kw_is("axis", 1):
            binds, v = self.tx(node.args[0], env)            # phase 4
            b2, n = self.tx(node.args[1], env)
            binds += b2
            if v.kind != "MN" or v.wide or not self.natlike(n):
                raise Problem("np.repeat of kinds %r, %r (%s)" % (v.kind, n.kind, where))
            return binds, Val("MN", "Rt.repeatCols %s %s" % (atom(v.code), atom(self.as_nat(n))))
        if target[0] == "np" and name == "all" and len(node.args) == 1 and not kw:
            binds, v = self.tx(node.args[0], env)
            if v.kind != "VB":
                raise Problem("np.all of kind %r (%s)" % (v.kind, where))
            return binds, Val("B", "List.all %s id" % atom(v.code))
        if target[0] == "np" and name == "linalg.norm" and len(node.args) == 1 and set(kw) == {"ord"} and kw_is("ord", 2):
            binds, v = self.tx(node.args[0], env)
            if v.kind != "V":
                raise Problem("np.linalg.norm of kind %r (%s)" % (v.kind, where))
            self.use_extra("sqrt")
            return binds, Val("S", "sqrt (Model.normSq %s)" % atom(v.code))
        raise Problem("call of %s%s with this argument list is not a supported primitive (%s)"
                      % ("np." if target[0] == "np" else "bisect." if target[0] == "bisect" else "", name, where))


# ====================================================================================================================
# phase 4 (pycurve): the remainder of hazmat/curve_helpers.py
#
# TRUSTED ADDITIONS (active only for the functions of `P4_KEYS`; the emission of every other function is unchanged)
#  * module-level constant arrays `NAME = np.asfortranarray([[c, ...], ...])` (numeric constants only) are emitted as
#    `<module>.NAME : List (List K)` (rows) and may be read by name.
#  * ARRAYS THAT ARE UPDATED IN PLACE.  `x[:, j] = v`, `x[:, [j]] = c`, `x[:, lo:hi] = e`, `x[i, j] = c`, `x[lo:hi, j] = v`,
#    `x[lo:hi, j] += v`, `x *= c`, `x /= c` re-bind `x` (the new value is the old one with the stated entries replaced).
#    This is sound only if no other name / view of `x` exists; it is accepted only for a local `x` that passes the
#    SYNTACTIC, flow-insensitive check `p4_mutable_ok`:
#      - every binding of `x` in the function is a fresh array: `np.zeros / np.empty`, an arithmetic expression, `np.dot`,
#        the result (or a component of the tuple result) of a translated function all of whose `return`s deliver fresh
#        arrays (`p4_returns_fresh`: `matrix_product`, `make_subdivision_matrices`);
#      - `x` (also as `x[...]`, `x.T`) never occurs in a position that can create a second reference: right-hand side of
#        an assignment to a name, element of a tuple / list / dict display outside `return`, argument of a call other
#        than a fresh-returning translated function or a NumPy reduction, receiver of a method call, iterable of a
#        `for`, anywhere in a comprehension / lambda.  (Operands of arithmetic and the right-hand side of a slice
#        assignment are copied by NumPy.)
#  * `np.empty((d, n))` / `np.empty(a.shape)` (2-D): kind MO = an array of `Option K`, no entry has a value; slice / column
#    assignments fill entries, `x /= c` acts on the filled entries (NumPy divides the garbage too: no exception, and
#    unobservable once every entry is overwritten).  READING the array (any use of the name as a value, e.g. `return x`)
#    requires every entry to have been assigned (`Rt.oget`, otherwise `Err.badInput`): the result never depends on
#    uninitialised memory.
#  * `np.arange(a, n, dtype=np.float64)[np.newaxis, :]`: kind R = a `1 x (n - a)` array, the numbers a, a+1, ..;
#    `R * A`, `A * R` for a 2-D array `A` with as many columns (anything else: `badInput`), `c - R`, `c + R`, `c * R`.
#  * `c * v`, `v * c`, `v / c` for a 1-D array `v`; `x ** k` for a constant integer 2 <= k <= 4 is the k-fold product
#    (left-associated); `a.ravel(order="F")` of a `d x 1` array is the 1-D array of its entries.
#  * `raise mod.Exc(...)` for a module alias `mod` and a class of `EXC` (the listed exception classes live in helpers.py).
#  * `np.zeros((a, b))` (2-D, `ValueError` for a negative dimension); `np.linalg.norm(A, ord="fro")` = `sqrt (Model.frobSq A)`.
#  * `while cond: body` (no break / continue / return inside, `cond` cannot raise) = `Rt.whileM fuel`: the generated definition
#    takes an explicit bound `fuel : Nat` and answers `Err.recursion` when the condition still holds after `fuel` iterations
#    (NOT a behaviour of the code: the theorems are stated for a sufficient `fuel`).
#  * a local `import scipy.integrate` has no effect; `g = functools.partial(f, a)` for a translated `f(a, x)` is the closure
#    `fun x => f a x` (kind CL, known in the environment only); `scipy.integrate.quad(g, lo, hi)` is an ABSTRACT parameter
#    `quad : (K → Except Err K) → K → K → Except Err (K × K)` of the generated definition (nothing is assumed about it).
P4_KEYS = {
    ("curve_helpers", "make_subdivision_matrices"),
    ("curve_helpers", "subdivide_nodes"),
    ("curve_helpers", "reduce_pseudo_inverse"),
    ("curve_helpers", "elevate_nodes"),
    ("curve_helpers", "get_curvature"),
    ("curve_helpers", "projection_error"),
    ("curve_helpers", "maybe_reduce"),
    ("curve_helpers", "full_reduce"),
    ("curve_helpers", "compute_length"),
}

RUNTIME_P4 = """\
/-! ### phase 4 (pycurve): arrays updated in place, partially filled `np.empty` arrays, row vectors -/

/-- position of the Python index `j` in a sequence of length `n` (`IndexError` outside `-n .. n-1`) -/
def pos (n : Nat) (j : Int) : Except Err Nat :=
  if 0 ≤ j then (if j.toNat < n then .ok j.toNat else .error .badInput)
  else if -(n : Int) ≤ j then .ok ((n : Int) + j).toNat
  else .error .badInput

/-- `row[j] = x` -/
def setAt {α : Type} (r : List α) (j : Int) (x : α) : Except Err (List α) :=
  bind (pos r.length j) fun p => .ok (r.set p x)

/-- `x[:, j] = v` for a 2-D array `x` (rows) and a 1-D array `v` with one entry per row (NumPy's broadcasting of a
    one-entry `v` is not modelled: `badInput`) -/
def setColA {α : Type} : List (List α) → Int → List α → Except Err (List (List α))
  | [], _, [] => .ok []
  | r :: m, j, x :: v => bind (setAt r j x) fun r' => bind (setColA m j v) fun m' => .ok (r' :: m')
  | _, _, _ => .error .badInput

/-- `row[lo:hi] = e` (the replaced stretch and `e` must have the same length: `badInput`) -/
def setSeg {α : Type} (r : List α) (lo hi : Option Int) (e : List α) : Except Err (List α) :=
  let a := match lo with
    | none => 0
    | some i => sliceIdx r.length i
  let b := match hi with
    | none => r.length
    | some i => sliceIdx r.length i
  if e.length = b - a then .ok (r.take a ++ e ++ r.drop (max a b)) else .error .badInput

/-- `x[:, lo:hi] = e` row by row -/
def setColsA {α : Type} : List (List α) → Option Int → Option Int → List (List α) → Except Err (List (List α))
  | [], _, _, [] => .ok []
  | r :: m, lo, hi, er :: e => bind (setSeg r lo hi er) fun r' => bind (setColsA m lo hi e) fun m' => .ok (r' :: m')
  | _, _, _, _ => .error .badInput

/-- `np.empty((d, n))`: no entry has a value yet -/
def oempty (d n : Nat) : List (List (Option K)) := List.replicate d (List.replicate n none)

/-- `x[:, lo:hi] = e` for a partially filled array -/
def osetCols (m : List (List (Option K))) (lo hi : Option Int) (e : List (List K)) : Except Err (List (List (Option K))) :=
  setColsA m lo hi (e.map fun r => r.map some)

/-- `x[:, j] = v` for a partially filled array -/
def osetCol (m : List (List (Option K))) (j : Int) (v : List K) : Except Err (List (List (Option K))) :=
  setColA m j (v.map some)

/-- `x op= c` on a partially filled array: the filled entries are updated (the others still have no value) -/
def omap (f : K → K) (m : List (List (Option K))) : List (List (Option K)) := m.map fun r => r.map fun x => x.map f

/-- reading a `np.empty` array: every entry must have been assigned (`badInput` otherwise) -/
def oget (m : List (List (Option K))) : Except Err (List (List K)) := m.mapM fun r => r.mapM unwrap

/-- `m[lo:hi, j]`: the entries of column `j` in the rows `lo:hi` -/
def colSeg (m : List (List K)) (lo hi : Option Int) (j : Int) : Except Err (List K) :=
  (slice m lo hi).mapM fun r => idxI r j

/-- `m[lo:hi, j] = v` (as many entries as rows in the stretch: `badInput` otherwise) -/
def setColSeg (m : List (List K)) (lo hi : Option Int) (j : Int) (v : List K) : Except Err (List (List K)) :=
  let a := match lo with
    | none => 0
    | some i => sliceIdx m.length i
  let b := match hi with
    | none => m.length
    | some i => sliceIdx m.length i
  if v.length = b - a then
    bind (setColA ((m.drop a).take (b - a)) j v) fun mid => .ok (m.take a ++ mid ++ m.drop (max a b))
  else .error .badInput

/-- `m[i, j] = c` -/
def setEntry (m : List (List K)) (i j : Int) (c : K) : Except Err (List (List K)) :=
  bind (pos m.length i) fun p =>
    match m[p]? with
    | none => .error .badInput
    | some r => bind (setAt r j c) fun r' => .ok (m.set p r')

/-- `while cond(state): state = step(state)`, at most `fuel` iterations: if the condition still holds after `fuel`
    iterations the answer is `Err.recursion` (NOT a behaviour of the code: the theorems are stated for a sufficient `fuel`) -/
def whileM {σ : Type} (fuel : Nat) (init : σ) (cond : σ → Bool) (step : σ → Except Err σ) : Except Err σ :=
  match fuel with
  | 0 => if cond init then .error .recursion else .ok init
  | f + 1 => if cond init then bind (step init) fun s => whileM f s cond step else .ok init

/-- `np.arange(a, n, dtype=float64)`: the numbers `a, a+1, .., n-1` -/
def arange (a n : Nat) : List K := (List.range' a (n - a)).map fun i => ((i : Nat) : K)

/-- `r * A` (`f r_j a_ij`) for a `1 × n` array `r` and a `d × n` array `A` (other shapes: `badInput`) -/
def rowZip (f : K → K → K) (r : List K) (m : List (List K)) : Except Err (List (List K)) :=
  if m.all (fun x => x.length == r.length) then .ok (m.map fun x => List.zipWith f r x) else .error .badInput

"""
RUNTIME = RUNTIME.replace("end Rt\n", RUNTIME_P4 + "end Rt\n", 1)     # merge: the FIRST `namespace Rt` block (pyalgebraic opens a second one)


def p4_const_text(tr):
    out = ""
    for (mod, name), rows in sorted(getattr(tr, "p4_consts", {}).items()):
        body = ",\n   ".join("[" + ", ".join(lit(c) for c in r) + "]" for r in rows)
        out += "/-- `%s.%s` (module-level constant array, rows) -/\ndef %s.%s : List (List K) :=\n  [%s]\n\n" % (
            mod, name, mod, name, body)
    if out:
        out = "/-! ## module-level constant arrays -/\n" + out
    return out


def _p4_strip(e):
    """the name an expression is a view of (`x`, `x[...]`, `x.T`), or None"""
    while True:
        if isinstance(e, ast.Subscript):
            sl = e.slice
            if isinstance(sl, ast.Tuple) and len(sl.elts) == 2 and not any(
                    isinstance(x, (ast.Slice, ast.List, ast.Tuple)) for x in sl.elts):
                return None                    # x[i, j]: a number
            e = e.value
        elif isinstance(e, ast.Attribute) and e.attr == "T":
            e = e.value
        else:
            break
    return e.id if isinstance(e, ast.Name) else None


_P4_NP_REDUCTIONS = {"dot", "vdot", "shape", "linalg.norm", "min", "max", "abs", "all", "std", "mean", "sum"}


def _p4_np_name(mod, f):
    chain, cur = [], f
    while isinstance(cur, ast.Attribute):
        chain.append(cur.attr)
        cur = cur.value
    if isinstance(cur, ast.Name) and mod.aliases.get(cur.id) == "numpy":
        return ".".join(reversed(chain))
    return None


def _p4_callee(tr, mod, f):
    """(module, function) of a call of a function of a parsed hazmat module, or None"""
    if isinstance(f, ast.Name) and f.id in mod.funcs:
        return (mod.name, f.id)
    if isinstance(f, ast.Attribute) and isinstance(f.value, ast.Name):
        al = mod.aliases.get(f.value.id)
        if al and al not in ("numpy", "bisect"):
            other = tr.module(al)
            if f.attr in other.funcs:
                return (al, f.attr)
    return None


def p4_analysis(tr, modname, fn, stack=()):
    """syntactic alias analysis of one function: {"mutable": names that may be updated in place,
    "ret_fresh": None | "array" | ("tuple", n)}"""
    cache = tr.__dict__.setdefault("p4_cache", {})
    key = (modname, fn)
    if key in cache:
        return cache[key]
    if key in stack:
        return {"mutable": set(), "ret_fresh": None}
    mod = tr.module(modname)
    node = mod.funcs.get(fn)
    if node is None:
        return {"mutable": set(), "ret_fresh": None}
    params = {a.arg for a in node.args.args}
    bindings = {}          # name -> [expr | ("unpack", expr, i, n) | "other"]
    aliasable = set()

    def fresh_expr(e):
        if isinstance(e, ast.BinOp):
            return True
        if isinstance(e, ast.Attribute) and e.attr == "T":
            return fresh_expr(e.value)
        if isinstance(e, ast.Call):
            nm = _p4_np_name(mod, e.func)
            if nm in ("zeros", "empty", "ones", "dot"):
                return True
            cal = _p4_callee(tr, mod, e.func)
            if cal is not None:
                return p4_analysis(tr, cal[0], cal[1], stack + (key,))["ret_fresh"] == "array"
        return False

    def fresh_binding(b):
        if b == "other":
            return False
        if isinstance(b, tuple):
            _, e, i, n = b
            if isinstance(e, ast.Call):
                cal = _p4_callee(tr, mod, e.func)
                if cal is not None:
                    return p4_analysis(tr, cal[0], cal[1], stack + (key,))["ret_fresh"] == ("tuple", n)
            return False
        return fresh_expr(b)

    def mark(e):
        n = _p4_strip(e)
        if n is not None:
            aliasable.add(n)

    returns = []
    for st in ast.walk(node):
        if isinstance(st, ast.Assign):
            for t in st.targets:
                if isinstance(t, ast.Name):
                    bindings.setdefault(t.id, []).append(st.value)
                    mark(st.value)
                elif isinstance(t, (ast.Tuple, ast.List)):
                    for i, el in enumerate(t.elts):
                        if isinstance(el, ast.Name):
                            bindings.setdefault(el.id, []).append(("unpack", st.value, i, len(t.elts)))
                        else:
                            for x in ast.walk(el):
                                if isinstance(x, ast.Name):
                                    bindings.setdefault(x.id, []).append("other")
                    mark(st.value)
                # a subscript target copies the value
        elif isinstance(st, (ast.AnnAssign, ast.NamedExpr)):
            for x in ast.walk(st):
                if isinstance(x, ast.Name):
                    bindings.setdefault(x.id, []).append("other")
                    aliasable.add(x.id)
        elif isinstance(st, ast.For):
            for x in ast.walk(st.target):
                if isinstance(x, ast.Name):
                    bindings.setdefault(x.id, []).append("other")
            for x in ast.walk(st.iter):
                if isinstance(x, ast.Name):
                    aliasable.add(x.id)
        elif isinstance(st, (ast.ListComp, ast.SetComp, ast.DictComp, ast.GeneratorExp, ast.Lambda, ast.Starred,
                             ast.With, ast.Global, ast.Nonlocal, ast.Yield, ast.YieldFrom, ast.IfExp)):
            for x in ast.walk(st):
                if isinstance(x, ast.Name):
                    aliasable.add(x.id)
        elif isinstance(st, ast.Return):
            returns.append(st.value)
        elif isinstance(st, ast.Call):
            ok = False
            nm = _p4_np_name(mod, st.func)
            if nm in _P4_NP_REDUCTIONS:
                ok = True
            cal = _p4_callee(tr, mod, st.func)
            if cal is not None and p4_analysis(tr, cal[0], cal[1], stack + (key,))["ret_fresh"] is not None:
                ok = True
            if not ok:
                for a in list(st.args) + [kw_.value for kw_ in st.keywords]:
                    mark(a)
            if isinstance(st.func, ast.Attribute):
                n = _p4_strip(st.func.value)
                if n is not None and mod.aliases.get(n) is None:
                    aliasable.add(n)           # receiver of a method call
    # displays outside `return`
    ret_nodes = set()
    for r in returns:
        if isinstance(r, ast.Tuple):
            ret_nodes.add(id(r))
    for st in ast.walk(node):
        if isinstance(st, (ast.Tuple, ast.List, ast.Set)) and id(st) not in ret_nodes \
                and not isinstance(getattr(st, "ctx", None), ast.Store):
            for el in st.elts:
                mark(el)
        elif isinstance(st, ast.Dict):
            for el in list(st.keys) + list(st.values):
                if el is not None:
                    mark(el)
    mutable = {n for n, bs in bindings.items()
               if n not in params and n not in aliasable and bs and all(fresh_binding(b) for b in bs)}

    def fresh_ret(e):
        if e is None:
            return False
        if isinstance(e, ast.Name):
            return e.id in mutable
        return fresh_expr(e)
    ret = None
    if returns:
        if all(isinstance(r, ast.Tuple) for r in returns) and len({len(r.elts) for r in returns}) == 1 \
                and all(fresh_ret(el) for r in returns for el in r.elts):
            names = [el.id for r in returns for el in r.elts if isinstance(el, ast.Name)]
            if len(names) == len(set(names)) or len(returns) > 1:
                ret = ("tuple", len(returns[0].elts))
        elif all(fresh_ret(r) for r in returns):
            ret = "array"
    cache[key] = {"mutable": mutable, "ret_fresh": ret}
    return cache[key]


def _is_full(x):
    return isinstance(x, ast.Slice) and x.lower is None and x.upper is None and x.step is None


def p4_mutable_ok(self, name, env, where):
    if name not in p4_analysis(self.tr, self.modname, self.fn)["mutable"]:
        raise Problem("in-place update of %s, which is not certainly a fresh array without a second reference (%s)"
                      % (name, where))
    if name not in env or env[name].kind not in ("MN", "MO"):
        raise Problem("in-place update of %s of kind %r (%s)" % (name, env[name].kind if name in env else None, where))
    if env[name].wide or env[name].inplace:
        raise Problem("in-place update of %s (%s)" % (name, where))
    return env[name]


def p4_int_code(self, binds, node, env, where):
    b, v = self.tx(node, env)
    binds += b
    if not self.is_int(v):
        raise Problem("index of kind %r (%s)" % (v.kind, where))
    return atom(self.as_int(v))


def p4_bounds(self, binds, sl, env, where):
    if not isinstance(sl, ast.Slice) or sl.step is not None:
        raise Problem("slice %s (%s)" % (ast.unparse(sl), where))
    out = []
    for bnd in (sl.lower, sl.upper):
        out.append("none" if bnd is None else "(some %s)" % self.p4_int_code(binds, bnd, env, where))
    return out


def p4_rebind(self, name, kind, binds, code, rest, env, k):
    env2 = dict(env)
    env2[name] = Val(kind, lname(name))
    binds.append(("bind", lname(name), code))
    return wrap(binds, self.block(rest, env2, k))


def p4_slice_assign(self, target, value, rest, env, k, where):
    if not isinstance(target.value, ast.Name):
        return None
    name = target.value.id
    if name not in env or env[name].kind not in ("MN", "MO") or name in self.prealloc:
        return None
    cur = self.p4_mutable_ok(name, env, where)
    sl = target.slice
    if not (isinstance(sl, ast.Tuple) and len(sl.elts) == 2):
        raise Problem("assignment target %s (%s)" % (ast.unparse(target), where))
    first, second = sl.elts
    binds, v = self.tx(value, env)
    x = lname(name)
    o = "o" if cur.kind == "MO" else ""
    if _is_full(first) and isinstance(second, ast.Slice):
        lo, hi = self.p4_bounds(binds, second, env, where)
        if v.kind != "MN":
            raise Problem("`%s = ...` with a value of kind %r (%s)" % (ast.unparse(target), v.kind, where))
        prim = "Rt.osetCols" if o else "Rt.setColsA"
        return self.p4_rebind(name, cur.kind, binds, "%s %s %s %s %s" % (prim, x, lo, hi, atom(v.code)), rest, env, k)
    if _is_full(first):
        if isinstance(second, ast.List) and len(second.elts) == 1:
            second = second.elts[0]
            want = ("C",)
        else:
            want = ("V", "C") if False else ("V",)
        if v.kind not in want:
            raise Problem("`%s = ...` with a value of kind %r (%s)" % (ast.unparse(target), v.kind, where))
        j = self.p4_int_code(binds, second, env, where)
        prim = "Rt.osetCol" if o else "Rt.setColA"
        return self.p4_rebind(name, cur.kind, binds, "%s %s %s %s" % (prim, x, j, atom(v.code)), rest, env, k)
    if cur.kind != "MN":
        raise Problem("assignment target %s of a np.empty array (%s)" % (ast.unparse(target), where))
    if isinstance(first, ast.Slice):
        lo, hi = self.p4_bounds(binds, first, env, where)
        j = self.p4_int_code(binds, second, env, where)
        if v.kind != "V":
            raise Problem("`%s = ...` with a value of kind %r (%s)" % (ast.unparse(target), v.kind, where))
        return self.p4_rebind(name, "MN", binds, "Rt.setColSeg %s %s %s %s %s" % (x, lo, hi, j, atom(v.code)), rest, env, k)
    i = self.p4_int_code(binds, first, env, where)
    j = self.p4_int_code(binds, second, env, where)
    v = self.as_scalar(binds, v, "array entry (%s)" % where)
    return self.p4_rebind(name, "MN", binds, "Rt.setEntry %s %s %s %s" % (x, i, j, atom(v.code)), rest, env, k)


def p4_partial(self, target, value, rest, env, k, where):
    """`g = functools.partial(f, a)` for a translated two-parameter function `f(a, x)` with a float `x`: the closure
    `fun x => f a x` (known in the environment only; it can be handed to `scipy.integrate.quad`)"""
    f = value.func
    if not (isinstance(f, ast.Attribute) and f.attr == "partial" and isinstance(f.value, ast.Name) and f.value.id == "functools"
            and "functools" not in env and "functools" not in self.locals_):
        return None
    if value.keywords or len(value.args) != 2 or not isinstance(value.args[0], ast.Name) \
            or value.args[0].id in env or (self.modname, value.args[0].id) not in self.tr.sigs:
        raise Problem("functools.partial with this argument list (%s)" % where)
    fn = value.args[0].id
    callee = self.tr.function(self.modname, fn)
    if callee is None or len(callee.kinds) != 2 or callee.kinds[1] != "S" or callee.mut or callee.ret != "S":
        raise Problem("functools.partial of %s (%s)" % (fn, where))
    binds, a = self.tx(value.args[1], env)
    if a.kind != callee.kinds[0] or a.kind != "MN" or a.inplace:
        raise Problem("functools.partial: argument of kind %r (%s)" % (a.kind, where))
    for x in callee.uses_sqrt:
        self.use_extra(x)
    ex = " ".join(x if x in ("sqrt", "fuel", "quad") else x[1] for x in callee.uses_sqrt)
    call = "%s %s %s x" % (lean_fn_name(self.modname, fn), ex, atom(a.code))
    code = "(fun (x : K) => %s)" % (call if callee.monadic else "(.ok (%s) : Except Err K)" % call)
    env2 = dict(env)
    env2[target.id] = Val("CL", lname(target.id))
    return wrap(binds, Let("%s : K → Except Err K" % lname(target.id), code, self.block(rest, env2, k)))


def p4_assign(self, target, value, rest, env, k, where):
    """`x = np.empty((d, n))` / `np.empty(a.shape)`: a 2-D array no entry of which has a value"""
    if isinstance(target, ast.Name) and isinstance(value, ast.Call):
        r = self.p4_partial(target, value, rest, env, k, where)
        if r is not None:
            return r
    if not (isinstance(target, ast.Name) and isinstance(value, ast.Call) and _p4_np_name(self.mod, value.func) == "empty"):
        return None
    kw = {kk.arg: kk.value for kk in value.keywords}
    if len(value.args) != 1 or not set(kw) <= {"order"}:
        return None
    shp = value.args[0]
    if isinstance(shp, ast.Tuple):
        if len(shp.elts) != 2 or [self.const_int(e) for e in shp.elts] == [2, 2]:
            return None
        binds, dims = [], []
        for e in shp.elts:
            b, v = self.tx(e, env)
            binds += b
            dims.append(v)
    else:
        binds, sv = self.tx(shp, env)
        if not (is_tuple(sv.kind) and len(sv.kind[1]) == 2 and sv.comps):
            return None
        dims = list(sv.comps)
    if not all(self.natlike(d) for d in dims):
        raise Problem("np.empty with a dimension that is not known to be >= 0 (%s)" % where)
    self.p4_mutable_ok_name(target.id, where)
    env2 = dict(env)
    env2[target.id] = Val("MO", lname(target.id))
    code = "(Rt.oempty %s %s : List (List (Option K)))" % (atom(self.as_nat(dims[0])), atom(self.as_nat(dims[1])))
    return wrap(binds, Let(lname(target.id), code, self.block(rest, env2, k)))


def p4_mutable_ok_name(self, name, where):
    if name not in p4_analysis(self.tr, self.modname, self.fn)["mutable"]:
        raise Problem("np.empty array %s may get a second reference (%s)" % (name, where))


def p4_while(self, st, rest, env, k, where):
    if st.orelse:
        raise Problem("while ... else (%s)" % where)
    for n in ast.walk(st):
        if isinstance(n, (ast.Break, ast.Continue, ast.Return)):
            raise Problem("break / continue / return inside a while loop (%s)" % where)
    names = assigned_names(st.body, env)
    carried = [n for n in env if n in names]
    kinds = {n: env[n].kind for n in carried}
    for n in carried:
        if env[n].inplace or env[n].wide or is_list(kinds[n]) or is_tuple(kinds[n]) or kinds[n] in ("none", "nan", "VB", "MO"):
            raise Problem("while-carried variable %s of kind %r (%s)" % (n, kinds[n], where))
    e0 = dict(env)
    for n in carried:
        e0[n] = Val(kinds[n], lname(n))
    for n in names:
        if n not in carried:
            e0.pop(n, None)
    cb, c = self.tx(st.test, e0)
    c = self.truth(c)
    if cb or c.kind != "B":
        raise Problem("while condition of kind %r / that can raise (%s)" % (c.kind, where))
    got = []

    def kb(e):
        got.append(e)
        for n in carried:
            if n not in e or e[n].kind != kinds[n]:
                raise Problem("variable %s changes its kind in the while loop (%s)" % (n, where))
        cs = [e[n].code for n in carried]
        return Yield(cs[0] if len(cs) == 1 else "(" + ", ".join(cs) + ")")
    if not carried:
        raise Problem("while loop without state (%s)" % where)
    body = self.block(st.body, e0, kb)
    spat = lname(carried[0]) if len(carried) == 1 else "(" + ", ".join(lname(n) for n in carried) + ")"
    init = env[carried[0]].code if len(carried) == 1 else "(" + ", ".join(env[n].code for n in carried) + ")"
    sty = lty(kinds[carried[0]]) if len(carried) == 1 else lty(("tuple", tuple(kinds[n] for n in carried)))
    env2 = dict(env)
    for n in names:
        if n not in carried:
            env2.pop(n, None)
    for n in carried:
        env2[n] = Val(kinds[n], lname(n))
    self.use_extra("fuel")
    return P4While(c.code, spat, init, sty, body, self.block(rest, env2, k))


def p4_stmt(self, st, rest, env, k, where):
    if isinstance(st, ast.Import) and [a.name for a in st.names] == ["scipy.integrate"] and st.names[0].asname is None \
            and "scipy" not in env:
        self.p4_scipy = True             # a local import: no effect other than binding the name `scipy`
        return self.block(rest, env, k)
    if isinstance(st, ast.While):
        return self.p4_while(st, rest, env, k, where)
    if isinstance(st, ast.Raise) and not rest and st.cause is None:
        exc = st.exc.func if isinstance(st.exc, ast.Call) else st.exc
        if isinstance(exc, ast.Attribute) and isinstance(exc.value, ast.Name) and exc.value.id not in env \
                and self.mod.aliases.get(exc.value.id) == "helpers" and exc.attr in EXC \
                and exc.attr in self.tr.module("helpers").classes:
            return Fail(EXC[exc.attr])
        return None
    if isinstance(st, ast.AugAssign) and isinstance(st.target, ast.Name) and st.target.id in env \
            and env[st.target.id].kind in ("MN", "MO") and isinstance(st.op, (ast.Mult, ast.Div)):
        name = st.target.id
        cur = self.p4_mutable_ok(name, env, where)
        binds, v = self.tx(st.value, env)
        v = self.as_scalar(binds, v, "right operand of an in-place array update (%s)" % where)
        op = "*" if isinstance(st.op, ast.Mult) else "/"
        t = self.tmp()
        binds.append(("let", t, v.code))
        env2 = dict(env)
        env2[name] = Val(cur.kind, lname(name))
        prim = "Rt.omap" if cur.kind == "MO" else "Rt.mmap"
        return wrap(binds, Let(lname(name), "%s (fun x => x %s %s) %s" % (prim, op, t, lname(name)), self.block(rest, env2, k)))
    if isinstance(st, ast.AugAssign) and isinstance(st.target, ast.Subscript) and isinstance(st.target.value, ast.Name) \
            and isinstance(st.op, (ast.Add, ast.Sub)):
        name = st.target.value.id
        if name not in env or env[name].kind != "MN":
            return None
        self.p4_mutable_ok(name, env, where)
        sl = st.target.slice
        if not (isinstance(sl, ast.Tuple) and len(sl.elts) == 2 and isinstance(sl.elts[0], ast.Slice)
                and not isinstance(sl.elts[1], ast.Slice)):
            raise Problem("augmented assignment target %s (%s)" % (ast.unparse(st.target), where))
        binds = []
        lo, hi = self.p4_bounds(binds, sl.elts[0], env, where)
        j = self.p4_int_code(binds, sl.elts[1], env, where)
        b2, v = self.tx(st.value, env)
        binds += b2
        if v.kind != "V":
            raise Problem("`%s op= ...` with a value of kind %r (%s)" % (ast.unparse(st.target), v.kind, where))
        x = lname(name)
        t1, t2 = self.tmp(), self.tmp()
        op = "+" if isinstance(st.op, ast.Add) else "-"
        binds.append(("bind", t1, "Rt.colSeg %s %s %s %s" % (x, lo, hi, j)))
        binds.append(("bind", t2, "Rt.vzip (fun x y => x %s y) %s %s" % (op, t1, atom(v.code))))
        return self.p4_rebind(name, "MN", binds, "Rt.setColSeg %s %s %s %s %s" % (x, lo, hi, j, t2), rest, env, k)
    return None


def p4_tx(self, node, env, where):
    if isinstance(node, ast.Name):
        if node.id in env and env[node.id].kind == "MO":
            t = self.tmp()                     # reading a np.empty array: every entry must have been assigned
            return [("bind", t, "Rt.oget %s" % env[node.id].code)], Val("MN", t)
        if node.id not in env and node.id in self.mod.consts and node.id not in self.locals_:
            rows = self.p4_const_array(self.mod.consts[node.id])
            if rows is not None:
                self.tr.__dict__.setdefault("p4_consts", {})[(self.modname, node.id)] = rows
                return [], Val("MN", "(%s.%s : List (List K))" % (self.modname, node.id))
        return None
    if isinstance(node, ast.BinOp) and isinstance(node.op, ast.Pow):
        kk = self.const_int(node.right)
        if kk is None or not 2 <= kk <= 4 or self.const_eval(node.left) is not None:
            return None
        binds, a = self.tx(node.left, env)
        a = self.as_scalar(binds, a, "base of ** (%s)" % where)
        t = self.tmp()
        binds.append(("let", t, a.code))
        code = t
        for _ in range(kk - 1):
            code = "(%s * %s)" % (code, t)
        return binds, Val("S", code)
    if isinstance(node, ast.BinOp) and isinstance(node.op, (ast.Add, ast.Sub, ast.Mult, ast.Div)):
        keep = self.ntmp
        binds, a = self.tx(node.left, env)
        b2, b = self.tx(node.right, env)
        binds += b2
        op = {ast.Add: "+", ast.Sub: "-", ast.Mult: "*", ast.Div: "/"}[type(node.op)]
        sc = ("S", "I", "N")
        if a.kind == "R" and b.kind == "MN" and op == "*":
            t = self.tmp()
            binds.append(("bind", t, "Rt.rowZip (fun x y => x * y) %s %s" % (atom(a.code), atom(b.code))))
            return binds, Val("MN", t)
        if a.kind == "MN" and b.kind == "R" and op == "*":
            t = self.tmp()
            binds.append(("bind", t, "Rt.rowZip (fun y x => x * y) %s %s" % (atom(b.code), atom(a.code))))
            return binds, Val("MN", t)
        if a.kind in sc and b.kind in ("R", "V") and op in "+-*":
            a = self.as_scalar(binds, a, "operand of %s (%s)" % (op, where))
            return binds, Val(b.kind, "List.map (fun x => %s %s x) %s" % (atom(a.code), op, atom(b.code)))
        if a.kind in ("R", "V") and b.kind in sc:
            b = self.as_scalar(binds, b, "operand of %s (%s)" % (op, where))
            return binds, Val(a.kind, "List.map (fun x => x %s %s) %s" % (op, atom(b.code), atom(a.code)))
        self.ntmp = keep
        return None
    if isinstance(node, ast.Subscript):
        sl = node.slice
        # V[np.newaxis, :]
        if isinstance(sl, ast.Tuple) and len(sl.elts) == 2 and _is_full(sl.elts[1]) \
                and isinstance(sl.elts[0], ast.Attribute) and sl.elts[0].attr == "newaxis" \
                and isinstance(sl.elts[0].value, ast.Name) and self.mod.aliases.get(sl.elts[0].value.id) == "numpy":
            keep = self.ntmp
            binds, base = self.tx(node.value, env)
            if base.kind == "V":
                return binds, Val("R", base.code)
            self.ntmp = keep
            return None
        # m[lo:hi, j]
        if isinstance(sl, ast.Tuple) and len(sl.elts) == 2 and isinstance(sl.elts[0], ast.Slice) \
                and not _is_full(sl.elts[0]) and not isinstance(sl.elts[1], (ast.Slice, ast.List)):
            keep = self.ntmp
            binds, base = self.tx(node.value, env)
            if base.kind != "MN" or base.wide:
                self.ntmp = keep
                return None
            lo, hi = self.p4_bounds(binds, sl.elts[0], env, where)
            j = self.p4_int_code(binds, sl.elts[1], env, where)
            t = self.tmp()
            binds.append(("bind", t, "Rt.colSeg %s %s %s %s" % (atom(base.code), lo, hi, j)))
            return binds, Val("V", t)
        return None
    if isinstance(node, ast.Call) and ast.unparse(node.func) == "scipy.integrate.quad" and getattr(self, "p4_scipy", False) \
            and "scipy" not in env:
        if node.keywords or len(node.args) != 3 or not isinstance(node.args[0], ast.Name) \
                or node.args[0].id not in env or env[node.args[0].id].kind != "CL":
            raise Problem("scipy.integrate.quad with this argument list (%s)" % where)
        binds, a = self.tx(node.args[1], env)
        b2, b = self.tx(node.args[2], env)
        binds += b2
        a = self.as_scalar(binds, a, "integration bound (%s)" % where)
        b = self.as_scalar(binds, b, "integration bound (%s)" % where)
        self.use_extra("quad")
        t = self.tmp()
        binds.append(("bind", t, "quad %s %s %s" % (env[node.args[0].id].code, atom(a.code), atom(b.code))))
        return binds, Val(("tuple", ("S", "S")), t)
    if isinstance(node, ast.Call) and isinstance(node.func, ast.Attribute) and node.func.attr == "ravel" \
            and not node.args and [kk.arg for kk in node.keywords] == ["order"] \
            and isinstance(node.keywords[0].value, ast.Constant) and node.keywords[0].value.value == "F":
        keep = self.ntmp
        binds, base = self.tx(node.func.value, env)
        if base.kind == "C":
            return binds, Val("V", base.code)
        self.ntmp = keep
        return None
    return None


def p4_const_array(self, e):
    if not (isinstance(e, ast.Call) and _p4_np_name(self.mod, e.func) in ("asfortranarray", "array")
            and len(e.args) == 1 and not e.keywords and isinstance(e.args[0], ast.List) and e.args[0].elts):
        return None
    rows = []
    for r in e.args[0].elts:
        if not isinstance(r, ast.List) or not r.elts:
            return None
        row = [self.const_eval(c) for c in r.elts]
        if any(c is None for c in row):
            return None
        rows.append(row)
    if len({len(r) for r in rows}) != 1:
        return None
    return rows


def p4_prim(self, node, target, kw, env, where):
    name = target[1]
    if target[0] == "np" and name == "zeros" and len(node.args) == 1 and set(kw) <= {"order"} \
            and isinstance(node.args[0], ast.Tuple) and len(node.args[0].elts) == 2:
        keep = self.ntmp
        binds, d0 = self.tx(node.args[0].elts[0], env)
        b2, d1 = self.tx(node.args[0].elts[1], env)
        binds += b2
        if d1.kind == "S" and d1.intval == 1:
            self.ntmp = keep
            return None
        if not (self.is_int(d0) and self.is_int(d1)):
            raise Problem("np.zeros with this shape (%s)" % where)
        for d in (d0, d1):
            if not self.natlike(d):
                t = self.tmp()
                binds.append(("bind", t, "(if %s < 0 then .error .valueError else .ok () : Except Err Unit)" % atom(self.as_int(d))))
        return binds, Val("MN", "Rt.mfill %s %s (0 : K)" % (atom(self.dim_nat(d0)), atom(self.dim_nat(d1))))
    if target[0] == "np" and name == "linalg.norm" and len(node.args) == 1 and set(kw) == {"ord"} \
            and isinstance(kw["ord"], ast.Constant) and kw["ord"].value == "fro":
        binds, v = self.tx(node.args[0], env)
        if v.kind != "MN":
            raise Problem("Frobenius norm of a value of kind %r (%s)" % (v.kind, where))
        self.use_extra("sqrt")
        return binds, Val("S", "sqrt (Model.frobSq %s)" % atom(v.code))
    if target[0] == "np" and name == "arange" and len(node.args) == 2 and set(kw) <= {"dtype"}:
        if "dtype" in kw:
            d = kw["dtype"]
            if isinstance(d, ast.Name) and d.id in self.mod.consts and d.id not in self.locals_:
                d = self.mod.consts[d.id]
            if _p4_np_name(self.mod, d) != "float64":
                raise Problem("np.arange with this dtype (%s)" % where)
        else:
            raise Problem("np.arange without dtype=float64 (integer array) (%s)" % where)
        a = self.const_int(node.args[0])
        binds, n = self.tx(node.args[1], env)
        if a is None or a < 0 or not self.is_int(n):
            raise Problem("np.arange with these bounds (%s)" % where)
        return binds, Val("V", "(Rt.arange %d %s : List K)" % (a, atom(self.dim_nat(n))))
    return None


for _f in (p4_partial, p4_while, p4_mutable_ok, p4_int_code, p4_bounds, p4_rebind, p4_slice_assign, p4_assign, p4_mutable_ok_name, p4_stmt,
           p4_tx, p4_const_array, p4_prim):
    setattr(FunctionTranslator, _f.__name__, _f)

HEADER = """\
/- GENERATED by harness/translate_py.py from the pure-Python sources of /repo's working tree on every
   run; do not edit.  One definition per translated function; the equalities with the hand-written
   model are proved in Tables/SrcPy.lean, Tables/SrcPyReal.lean and Tables/SrcPyKernels.lean. -/
import BezierVerif.Model.Basic
import BezierVerif.Model.Curve
import BezierVerif.Model.Solve2x2
import BezierVerif.Model.Helpers
import BezierVerif.Model.Geometric
import BezierVerif.Model.Newton
import BezierVerif.Model.Classify
import BezierVerif.Model.Walk

set_option linter.unusedVariables false

namespace BezierVerif.Src.Py

open BezierVerif
open BezierVerif.Model (Err Pt)

variable {K : Type} [Add K] [Sub K] [Mul K] [Div K] [Neg K] [OfNat K 0] [OfNat K 1] [NatCast K]
  [LT K] [DecidableLT K] [LE K] [DecidableLE K] [DecidableEq K]

"""


def main():
    out = OUT
    argv = sys.argv[1:]
    if len(argv) == 2 and argv[0] == "--out":
        out = argv[1]
    elif argv:
        print("usage: translate_py.py [--out FILE]")
        sys.exit(2)
    tr = Translator()
    for mod, fn, _ in SIGS:
        tr.function(mod, fn)
    parts = []
    n_ok = 0
    for key in tr.order:
        t = tr.done[key]
        if t is None:
            parts.append("-- NOT TRANSLATED: %s.%s (see the EXTRACT-PROBLEM line of this run)\n" % key)
        else:
            parts.append(t.text)
            n_ok += 1
    enums = "".join("def %s : Nat := %d\n" % (n, v) for n, v in sorted(tr.enums.items()))
    if enums:
        enums = "/-! ## integer attributes of plain classes (enum values) -/\n" + enums + "\n"
    if tr.tables:
        enums += "/-! ## module-level array constants -/\n" + "".join(
            "/-- `%s` -/\ndef %s : %s :=\n  %s\n\n" % (src, n, ty, code) for n, (ty, code, src) in sorted(tr.tables.items()))
    enums += p4_const_text(tr)                         # phase 4 (pycurve): module-level constant arrays
    for lean, ((cmod, cname), vals) in sorted(getattr(tr, "const_arrays", {}).items()):      # phase 4 (pyalgebraic)
        enums += "/-- module constant `%s` of hazmat/%s.py (exact binary64 values) -/\ndef %s : List K :=\n  [%s]\n\n" % (
            cname, cmod, lean, ",\n   ".join(lit(v) for v in vals))
    text = HEADER + RUNTIME + "\n" + enums + "/-! ## translated functions -/\n\n" + "\n".join(parts) + "\nend BezierVerif.Src.Py\n"
    old = None
    if os.path.exists(out):
        with open(out) as fh:
            old = fh.read()
    if old != text:
        os.makedirs(os.path.dirname(out), exist_ok=True)
        with open(out + ".tmp", "w") as fh:
            fh.write(text)
        os.replace(out + ".tmp", out)
    for p in tr.problems:
        print("EXTRACT-PROBLEM srcpy: " + p)
    print("translated %d of %d functions (%s)" % (n_ok, len(SIGS), "changed" if old != text else "unchanged"))


if __name__ == "__main__":
    main()
