#!/venv/bin/python
"""Translator (code): scalar / planar predicate functions of the pure-Python implementation -> Lean.

On every run the CURRENT source text of `$BEZIER_REPO/src/python/bezier/hazmat/*.py` (default
/repo) is parsed with `ast` (the package is NOT imported), every function listed in `SIGS` is
translated statement by statement into a Lean definition, and the result is written to
lean/BezierVerif/Generated/SrcPy.lean (namespace `BezierVerif.Src.Py`).  The kernel then re-proves,
in lean/BezierVerif/Tables/SrcPy.lean, that each generated definition equals the hand-written model
definition (Model/Helpers.lean, Model/Solve2x2.lean) on all inputs.  A semantic change of the
source changes the generated term and breaks the theorem.

Anything the translator does not understand gives `EXTRACT-PROBLEM srcpy: <function>: <what>` on
stdout and NO definition (so the theorem about it cannot build); nothing is skipped silently.
Exit status 0 even then.  Output is deterministic and only rewritten when it changes.

usage:  translate_py.py [--out FILE]        (env BEZIER_REPO = source tree)

------------------------------------------------------------------------------------------------
TRUSTED PART (everything else is re-checked by the kernel through the equality theorems)

 * `SIGS`: the parameter kinds of every translated function
       S    float scalar                        -> K
       P    1-D array with exactly 2 entries    -> Pt K = K x K          (v[0] = v.1, v[1] = v.2)
       V    1-D array of any length             -> List K
       M22  2 x 2 array                         -> List (List K), rows;  shape checked where indexed
       M2N  2 x N array (N free)                -> List (List K), rows;  shape checked where indexed
       MN   d x N array                         -> List (List K), rows
   An argument that violates the declared shape (M22 / M2N) gives `Err.badInput`.
   Default values of parameters (numeric constants only) are emitted as `<fn>_default_<param> : Rat`;
   calls that rely on a default are not accepted.
 * `MODULES`: which source file a module alias of an `import` statement denotes (pure-Python
   configuration: the shim `bezier._helpers` binds `hazmat/helpers.py`).
 * `EXC`: exception class -> `Model.Err` constructor (the message is not modelled).
 * the meaning given to the supported NumPy / builtin primitives (`RUNTIME` below and `prim_call`):
   np.min/np.max(axis=1), np.abs/abs, min/max, np.vdot, np.asfortranarray/np.array literals,
   np.all, np.linalg.norm(ord=2) (= an ABSTRACT `sqrt : K -> K` applied to the sum of squares),
   elementwise `-` / `<=` on 1-D arrays (with NumPy's length-1 broadcasting), np.nan.
 * float arithmetic `+ - * /` and comparisons are translated to the operations of the number type
   K (exact semantics; rounding is the subject of the correspondence scripts, not of this tie).
   Division by zero (IEEE inf / NaN in the code) is K's total `/`.
 * `None` / `np.nan` in a result position make that position an `Option`; using a maybe-`None`
   value as a number (`TypeError` in Python) is `Rt.unwrap` = `Err.badInput` on `none`; an
   out-of-range constant index (`IndexError`) is `Err.badInput` as well.
 * a function some statement of which can raise (listed exception, NumPy primitive on a zero-size /
   mis-shaped array, maybe-`None` value used as a number, shape check of an M22 / M2N parameter that is
   indexed) returns `Except Err _`; raising sub-computations are sequenced in Python's evaluation order
   with `Rt.bind` (`and` / `or` stay lazy, a lazily evaluated operand of a chained comparison that can
   raise is refused).

ACCEPTED PYTHON (per function body; docstrings ignored)
   statements : `x = e`, `a, b, _ = e` (tuple / 2-entry array unpacking), `if/elif/else`,
                `return e`, `return (e, ...)`, `raise Exc(...)`, `pass`
   expressions: float/int/bool/None constants (int and float constants alike are numbers of K), constant arithmetic incl. `**` (folded exactly),
                names (parameters, locals, numeric module constants), `+ - * /`, unary `-`, `not`,
                `and` / `or` (short-circuit kept when the right operand can raise), comparisons
                incl. chains, `v[0]`, `m[i, j]`, `m[:, j]`, `m[i, -1]`, `m[:, -1]` with constant
                indices, tuples, `Class.ATTR` of a plain class with int attributes (enum),
                calls of other translated functions (positional arguments only) and of the
                primitives listed above.
   control    : early `return` = the remainder of the block becomes the `else` branch; an `if`
                without `return`/`raise` inside = simultaneous `let (x, y) := if .. then .. else ..`
                over the variables assigned in it (both arms must define them, or they must be
                defined before); an `if` some arm of which falls through while another returns =
                the remainder is translated once per falling-through arm.
"""
import ast
import os
import sys
from fractions import Fraction as Fr

REPO = os.environ.get("BEZIER_REPO", "/repo")
HERE = os.path.dirname(os.path.abspath(__file__))
OUT = os.path.join(os.path.dirname(HERE), "lean", "BezierVerif", "Generated", "SrcPy.lean")

# ------------------------------------------------------------------ trusted tables
SIGS = [
    ("helpers", "in_interval", ["S", "S", "S"]),
    ("helpers", "cross_product", ["P", "P"]),
    ("helpers", "cross_product_compare", ["P", "P", "P"]),
    ("helpers", "wiggle_interval", ["S", "S"]),
    ("helpers", "vector_close", ["V", "V", "S"]),
    ("helpers", "bbox", ["M2N"]),
    ("helpers", "contains_nd", ["MN", "V"]),
    ("helpers", "solve2x2", ["M22", "P"]),
    ("geometric_intersection", "bbox_intersect", ["M2N", "M2N"]),
    ("geometric_intersection", "segment_intersection", ["P", "P", "P", "P"]),
    ("geometric_intersection", "parallel_lines_parameters", ["P", "P", "P", "P"]),
    ("geometric_intersection", "line_line_collide", ["M22", "M22"]),
    ("geometric_intersection", "bbox_line_intersect", ["M2N", "P", "P"]),
    ("clipping", "compute_implicit_line", ["M2N"]),
    ("clipping", "_update_parameters", ["S", "S", "P", "P", "P", "P"]),
    ("triangle_helpers", "two_by_two_det", ["M22"]),
]
MODULES = {
    "bezier.hazmat.helpers": "helpers",
    "bezier.hazmat.geometric_intersection": "geometric_intersection",
    "bezier.hazmat.clipping": "clipping",
    "bezier.hazmat.triangle_helpers": "triangle_helpers",
    "bezier._helpers": "helpers",                      # shim, pure-Python configuration
}
EXC = {"NotImplementedError": "notImplemented", "ValueError": "valueError",
       "RuntimeError": "runtimeError", "UnsupportedDegree": "unsupportedDegree"}

RUNTIME = """\
/-! ## runtime: the meaning of the supported NumPy primitives (fixed text, part of the trusted base) -/
namespace Rt

/-- `np.min(row)`: `ValueError` on a zero-size array -/
def npMin (r : List K) : Except Err K :=
  match r with
  | [] => .error .valueError
  | x :: xs => .ok (Model.minOf x xs)

/-- `np.max(row)`: `ValueError` on a zero-size array -/
def npMax (r : List K) : Except Err K :=
  match r with
  | [] => .error .valueError
  | x :: xs => .ok (Model.maxOf x xs)

/-- sequencing: an exception raised by the first computation propagates -/
def bind {α β : Type} (m : Except Err α) (f : α → Except Err β) : Except Err β :=
  match m with
  | .error e => .error e
  | .ok v => f v

@[simp] theorem bind_ok {α β : Type} (v : α) (f : α → Except Err β) : bind (.ok v) f = f v := rfl
@[simp] theorem bind_error {α β : Type} (e : Err) (f : α → Except Err β) : bind (.error e) f = .error e := rfl

/-- a maybe-`None` value used where a float is required (`TypeError`) -/
def unwrap {α : Type} (x : Option α) : Except Err α :=
  match x with
  | some v => .ok v
  | none => .error .badInput

/-- `row[i]` with a constant `i ≥ 0` (`IndexError`) -/
def idx (r : List K) (i : Nat) : Except Err K :=
  match r[i]? with
  | some v => .ok v
  | none => .error .badInput

/-- `row[-1]` (`IndexError`) -/
def idxLast (r : List K) : Except Err K :=
  match r.getLast? with
  | some v => .ok v
  | none => .error .badInput

/-- elementwise binary operation of two 1-D arrays with NumPy broadcasting (equal lengths, or one
    of them of length 1); otherwise `ValueError` -/
def vzip {β : Type} (f : K → K → β) (a b : List K) : Except Err (List β) :=
  if a.length = b.length then .ok (List.zipWith f a b)
  else match a, b with
    | [x], _ => .ok (b.map (fun y => f x y))
    | _, [y] => .ok (a.map (fun x => f x y))
    | _, _ => .error .valueError

end Rt
"""

LEAN_KEYWORDS = {"end", "at", "from", "then", "else", "do", "open", "show", "have", "fun", "match", "with",
                 "in", "if", "let", "def", "theorem", "by", "where", "import", "namespace", "section",
                 "variable", "universe", "instance", "class", "structure", "inductive", "return", "for",
                 "mut", "using", "calc", "suffices", "obtain", "deriving", "extends", "Type", "Prop", "Sort",
                 "e", "K", "sqrt", "Model", "Rt", "Err", "Pt", "some", "none", "true", "false", "id", "decide",
                 "List", "Except", "Option", "Nat", "Bool", "Src", "Py", "BezierVerif"}
# a local variable must not capture a generated global either
LEAN_KEYWORDS |= {fn for _, fn, _ in SIGS}


class Problem(Exception):
    pass


def lname(n):
    if n == "_":
        return "_"
    if n in LEAN_KEYWORDS or n in CLASS_NAMES:
        return n + "_"
    return n


CLASS_NAMES = set()      # names of the plain classes of the parsed modules (enum holders)


# ------------------------------------------------------------------ kinds
def opt(k, why):
    return ("opt", k, why)


def is_opt(k):
    return isinstance(k, tuple) and k[0] == "opt"


def is_tuple(k):
    return isinstance(k, tuple) and k[0] == "tuple"


def lty(k):
    base = {"S": "K", "B": "Bool", "E": "Nat", "P": "Pt K", "V": "List K", "VB": "List Bool",
            "M22": "List (List K)", "M2N": "List (List K)", "MN": "List (List K)"}
    if k in base:
        return base[k]
    if is_opt(k):
        return "Option %s" % atom(lty(k[1]))
    if is_tuple(k):
        return " × ".join(("(%s)" % lty(c)) if is_tuple(c) else lty(c) for c in k[1])
    raise Problem("result position is always None / nan: no Lean type (%r)" % (k,))


def unify(a, b):
    if a == b:
        return a
    if a in ("none", "nan"):
        a, b = b, a
    if b == "none":
        if a == "nan":
            return opt("S", "nan")
        if is_opt(a):
            return a
        return opt(a, "none")
    if b == "nan":
        if a == "S":
            return opt("S", "nan")
        if is_opt(a) and a[1] == "S":
            return opt("S", "nan")
        raise Problem("np.nan and %r in the same result position" % (a,))
    if is_opt(a) and not is_opt(b):
        return opt(unify(a[1], b), a[2])
    if is_opt(b) and not is_opt(a):
        return opt(unify(a, b[1]), b[2])
    if is_opt(a) and is_opt(b):
        return opt(unify(a[1], b[1]), "nan" if "nan" in (a[2], b[2]) else "none")
    if is_tuple(a) and is_tuple(b) and len(a[1]) == len(b[1]):
        return ("tuple", tuple(unify(x, y) for x, y in zip(a[1], b[1])))
    raise Problem("results of different kinds: %r and %r" % (a, b))


def atom(code):
    """parenthesise unless obviously atomic"""
    c = code.strip()
    if c and (c.replace("_", "a").replace(".", "a").replace("'", "a").isalnum()) and not c[0].isdigit():
        return c
    if c.startswith("(") and c.endswith(")"):
        depth = 0
        for i, ch in enumerate(c):
            depth += ch == "("
            depth -= ch == ")"
            if depth == 0 and i < len(c) - 1:
                break
        else:
            return c
    if c.startswith("[") and c.endswith("]") and c.count("[") == 1:
        return c
    return "(" + c + ")"


class Val:
    def __init__(self, kind, code, comps=None, prop=None, cells=None, rows=None):
        self.kind = kind
        self.code = code          # Lean term of type lty(kind)
        self.comps = comps        # tuple: [Val]; P: [code, code]
        self.prop = prop          # B: the same condition as a Prop (comparisons and their connectives)
        self.cells = cells        # M22: [[code, code], [code, code]]
        self.rows = rows          # M2N: [code, code]


def lit(x):
    x = Fr(x)
    if x < 0:
        return "(-%s : K)" % lit(-x)
    if x.denominator == 1:
        n = x.numerator
        if n in (0, 1):
            return "(%d : K)" % n
        return "((%d : Nat) : K)" % n
    return "(Model.q %d %d : K)" % (x.numerator, x.denominator)


# ------------------------------------------------------------------ IR of a function body
class Leaf:                       # `return val`
    def __init__(self, val):
        self.val = val


class Yield:                      # value of an `if` arm (phi) / of a short-circuit operand
    def __init__(self, code):
        self.code = code


class Let:
    def __init__(self, pat, code, body):
        self.pat, self.code, self.body = pat, code, body


class Bind:                       # match code with | .error e => .error e | .ok pat => body
    def __init__(self, pat, code, body):
        self.pat, self.code, self.body = pat, code, body


class MIf:                        # scrutinee of a Bind: `if cond then A else B` of type Except Err _
    def __init__(self, cond, then, els, ty):
        self.cond, self.then, self.els, self.ty = cond, then, els, ty


class Shape:                      # match code with | pat => body | _ => .error .badInput
    def __init__(self, code, pat, body):
        self.code, self.pat, self.body = code, pat, body


class Ite:
    def __init__(self, cond, then, els):
        self.cond, self.then, self.els = cond, then, els


class Phi:                        # (pat) := if cond then A else B ; body      (A, B end in Yield)
    def __init__(self, pat, cond, then, els, body, ty):
        self.pat, self.cond, self.then, self.els, self.body, self.ty = pat, cond, then, els, body, ty


class Fail:
    def __init__(self, err):
        self.err = err


def impure(ir):
    if isinstance(ir, (Bind, Shape, Fail)):
        return True
    if isinstance(ir, (Leaf, Yield)):
        return False
    if isinstance(ir, Let):
        return impure(ir.body)
    if isinstance(ir, Ite):
        return impure(ir.then) or impure(ir.els)
    if isinstance(ir, Phi):
        return impure(ir.then) or impure(ir.els) or impure(ir.body)
    raise AssertionError(ir)


def wrap(binds, ir):
    for kind, pat, code in reversed(binds):
        ir = Bind(pat, code, ir) if kind == "bind" else Let(pat, code, ir)
    return ir


# ------------------------------------------------------------------ module level
class Module:
    def __init__(self, name):
        self.name = name
        path = os.path.join(REPO, "src/python/bezier/hazmat", name + ".py")
        with open(path) as fh:
            self.tree = ast.parse(fh.read())
        self.funcs = {}
        self.aliases = {}      # local name -> module name (source file) or "numpy"
        self.consts = {}       # NAME -> ast expression (module level)
        self.classes = {}      # Class -> {ATTR: int}
        for node in self.tree.body:
            if isinstance(node, ast.FunctionDef):
                self.funcs[node.name] = node
            elif isinstance(node, ast.Import):
                for a in node.names:
                    if a.name == "numpy":
                        self.aliases[a.asname or a.name] = "numpy"
            elif isinstance(node, ast.ImportFrom) and node.level == 0:
                for a in node.names:
                    full = "%s.%s" % (node.module, a.name)
                    if full in MODULES:
                        self.aliases[a.asname or a.name] = MODULES[full]
            elif isinstance(node, ast.Assign) and len(node.targets) == 1 and isinstance(node.targets[0], ast.Name):
                self.consts[node.targets[0].id] = node.value
            elif isinstance(node, ast.ClassDef):
                attrs = {}
                for st in node.body:
                    if isinstance(st, ast.Assign) and len(st.targets) == 1 and isinstance(st.targets[0], ast.Name) \
                            and isinstance(st.value, ast.Constant) and isinstance(st.value.value, int) \
                            and not isinstance(st.value.value, bool):
                        attrs[st.targets[0].id] = st.value.value
                self.classes[node.name] = attrs
                CLASS_NAMES.add(node.name)


class Translated:
    def __init__(self, name, params, kinds, ret, monadic, uses_sqrt, text):
        self.name, self.params, self.kinds, self.ret = name, params, kinds, ret
        self.monadic, self.uses_sqrt, self.text = monadic, uses_sqrt, text


class Translator:
    def __init__(self):
        self.modules = {}
        self.done = {}           # (mod, fn) -> Translated | None
        self.order = []
        self.problems = []
        self.enums = {}          # "Class.ATTR" -> int
        self.sigs = {(m, f): k for m, f, k in SIGS}
        self.stack = []

    def module(self, name):
        if name not in self.modules:
            self.modules[name] = Module(name)
        return self.modules[name]

    # -------------------------------------------------------------- functions
    def function(self, mod, fn):
        key = (mod, fn)
        if key in self.done:
            return self.done[key]
        if key in self.stack:
            raise Problem("recursive call of %s" % fn)
        self.stack.append(key)
        try:
            tr = FunctionTranslator(self, mod, fn).run()
            self.done[key] = tr
            self.order.append(key)
        except Problem as exc:
            self.done[key] = None
            self.order.append(key)
            self.problems.append("%s: %s" % (fn, exc))
        except (OSError, SyntaxError) as exc:
            self.done[key] = None
            self.order.append(key)
            self.problems.append("%s: cannot read / parse %s.py: %r" % (fn, mod, exc))
        except Exception as exc:  # noqa  (a construct that trips the translator is a problem, not a crash)
            self.done[key] = None
            self.order.append(key)
            self.problems.append("%s: translator internal error %r" % (fn, exc))
        finally:
            self.stack.pop()
        return self.done[key]


def contains_exit(stmts):
    for st in stmts:
        for node in ast.walk(st):
            if isinstance(node, (ast.Return, ast.Raise)):
                return True
    return False


def assigned_names(stmts):
    """names assigned somewhere in the block, in order of first occurrence"""
    out = []

    def targets(t):
        if isinstance(t, ast.Name):
            if t.id != "_" and t.id not in out:
                out.append(t.id)
        elif isinstance(t, (ast.Tuple, ast.List)):
            for e in t.elts:
                targets(e)
        else:
            raise Problem("assignment target %s" % ast.dump(t)[:60])

    def walk(block):
        for st in block:
            if isinstance(st, ast.Assign):
                for t in st.targets:
                    targets(t)
            elif isinstance(st, ast.If):
                walk(st.body)
                walk(st.orelse)
            elif isinstance(st, (ast.AugAssign, ast.AnnAssign, ast.For, ast.While, ast.With, ast.Try)):
                raise Problem("statement %s (line %d)" % (type(st).__name__, st.lineno))
    walk(stmts)
    return out


def definitely_assigned(stmts):
    out = set()
    for st in stmts:
        if isinstance(st, ast.Assign):
            for t in st.targets:
                for n in ast.walk(t):
                    if isinstance(n, ast.Name):
                        out.add(n.id)
        elif isinstance(st, ast.If):
            out |= definitely_assigned(st.body) & definitely_assigned(st.orelse)
    return out


class FunctionTranslator:
    def __init__(self, tr, mod, fn):
        self.tr, self.modname, self.fn = tr, mod, fn
        self.mod = tr.module(mod)
        self.uses_sqrt = False
        self.ntmp = 0
        self.names = set()
        self.struct_used = set()
        self.locals_ = set()

    def tmp(self):
        while True:
            self.ntmp += 1
            n = "t%d" % self.ntmp
            if n not in self.names:
                return n

    def run(self):
        node = self.mod.funcs.get(self.fn)
        if node is None:
            raise Problem("function not found in %s.py" % self.modname)
        kinds = self.tr.sigs[(self.modname, self.fn)]
        a = node.args
        if a.vararg or a.kwarg or a.kwonlyargs or a.posonlyargs:
            raise Problem("unsupported parameter list")
        params = [x.arg for x in a.args]
        if len(params) != len(kinds):
            raise Problem("has %d parameters, signature table says %d" % (len(params), len(kinds)))
        if node.decorator_list:
            raise Problem("decorated function")
        defaults = []
        for p, d in zip(params[len(params) - len(a.defaults):], a.defaults):
            v = self.const_eval(d)
            if v is None:
                raise Problem("default value of parameter %s is not a numeric constant" % p)
            defaults.append((p, v))
        self.locals_ = set()
        for n in ast.walk(node):
            if isinstance(n, ast.Name):
                self.names.add(n.id)
                if not isinstance(n.ctx, ast.Load):
                    self.locals_.add(n.id)
            elif isinstance(n, ast.arg):
                self.names.add(n.arg)
                self.locals_.add(n.arg)
        for n in list(self.names):
            if lname(n) != n and lname(n) in self.names:
                raise Problem("names %s and %s would collide after renaming" % (n, lname(n)))
        env = {}
        shapes = []
        self.param_names = {lname(p) for p in params}
        for p, k in zip(params, kinds):
            lp = lname(p)
            if k == "M22":
                cells = [["%s_%d%d" % (lp, i, j) for j in range(2)] for i in range(2)]
                if set(cells[0] + cells[1]) & self.names:
                    raise Problem("a local name collides with the generated names %s_ij" % lp)
                env[p] = Val(k, lp, cells=cells)
                shapes.append((lp, "[[%s, %s], [%s, %s]]" % (cells[0][0], cells[0][1], cells[1][0], cells[1][1]),
                               cells[0] + cells[1]))
            elif k == "M2N":
                rows = ["%s_r0" % lp, "%s_r1" % lp]
                if set(rows) & self.names:
                    raise Problem("a local name collides with the generated names %s_r0/_r1" % lp)
                env[p] = Val(k, lp, rows=rows)
                shapes.append((lp, "[%s, %s]" % (rows[0], rows[1]), rows))
            else:
                env[p] = Val(k, lp)
        body = list(node.body)
        self.ret_kinds = []
        ir = self.block(body, env, lambda e: self.leaf(Val("none", "none")))
        for lp, pat, names in reversed(shapes):
            if self.struct_used & set(names):      # only parameters that are indexed here (callees check theirs)
                ir = Shape(lp, pat, ir)
        ret = None
        for k in self.ret_kinds:
            ret = k if ret is None else unify(ret, k)
        if ret is None:
            raise Problem("no result")
        self.ret = ret
        rty = lty(ret)
        monadic = impure(ir)
        text = self.render(ir, monadic, 1)
        binders = []
        if self.uses_sqrt:
            binders.append("(sqrt : K → K)")
        i = 0
        while i < len(params):            # group consecutive parameters of the same kind
            j = i
            while j + 1 < len(params) and kinds[j + 1] == kinds[i]:
                j += 1
            binders.append("(%s : %s)" % (" ".join(lname(p) for p in params[i:j + 1]), lty(kinds[i])))
            i = j + 1
        head = "/-- `%s.%s(%s)` (hazmat/%s.py), parameter kinds %s -/\ndef %s %s : %s :=\n" % (
            self.modname, self.fn, ", ".join(params), self.modname, " ".join(kinds), self.fn, " ".join(binders),
            ("Except Err %s" % atom(rty)) if monadic else rty)
        dtext = "".join("/-- default value of parameter `%s` of `%s` -/\ndef %s_default_%s : Rat := %s\n\n"
                        % (p, self.fn, self.fn, p, "(%d : Rat) / %d" % (v.numerator, v.denominator))
                        for p, v in defaults)
        return Translated(self.fn, params, kinds, ret, monadic, self.uses_sqrt, dtext + head + text)

    def leaf(self, val):
        self.ret_kinds.append(val.kind)
        return Leaf(val)

    # -------------------------------------------------------------- rendering
    def coerce(self, val, target):
        k = val.kind
        if k == target:
            return val.code
        if is_opt(target):
            if k in ("none", "nan"):
                return "none"
            if is_opt(k):
                if k[1] == target[1]:
                    return val.code
                raise Problem("cannot convert %r to %r" % (k, target))
            return "some %s" % atom(self.coerce(val, target[1]))
        if is_tuple(target) and is_tuple(k) and val.comps is not None and len(val.comps) == len(target[1]):
            return "(" + ", ".join(self.coerce(c, t) for c, t in zip(val.comps, target[1])) + ")"
        raise Problem("cannot convert result of kind %r to %r" % (k, target))

    def render(self, ir, monadic, ind):
        pad = "  " * ind

        def ok(code):
            return (".ok %s" % atom(code)) if monadic else code

        if isinstance(ir, Leaf):
            return pad + ok(self.coerce(ir.val, self.ret)) + "\n"
        if isinstance(ir, Yield):
            return pad + ok(ir.code) + "\n"
        if isinstance(ir, Fail):
            return pad + ".error .%s\n" % ir.err
        if isinstance(ir, Let):
            return pad + "let %s := %s\n" % (ir.pat, ir.code) + self.render(ir.body, monadic, ind)
        if isinstance(ir, Bind):
            assert monadic
            if isinstance(ir.code, MIf):
                scrut = (pad + "  (if %s then\n" % ir.code.cond + self.render(ir.code.then, True, ind + 2)
                         + pad + "  else\n" + self.render(ir.code.els, True, ind + 2).rstrip("\n")
                         + " : Except Err %s)" % atom(ir.code.ty))
            else:
                scrut = ir.code
            # `m >>= pure` is `m`
            b = ir.body
            if (isinstance(b, Yield) and b.code == ir.pat) or \
                    (isinstance(b, Leaf) and b.val.code == ir.pat and b.val.kind == self.ret):
                return pad + scrut.lstrip() + "\n"
            if isinstance(ir.code, MIf):
                return (pad + "Rt.bind\n" + scrut + " fun %s =>\n" % ir.pat + self.render(ir.body, monadic, ind))
            return pad + "Rt.bind (%s) fun %s =>\n" % (scrut, ir.pat) + self.render(ir.body, monadic, ind)
        if isinstance(ir, Shape):
            assert monadic
            return (pad + "(match %s with\n" % ir.code + pad + "| %s =>\n" % ir.pat
                    + self.render(ir.body, monadic, ind + 1) + pad + "| _ => .error .badInput)\n")
        if isinstance(ir, Ite):
            return (pad + "if %s then\n" % ir.cond + self.render(ir.then, monadic, ind + 1) + pad + "else\n"
                    + self.render(ir.els, monadic, ind + 1))
        if isinstance(ir, Phi):
            arms_m = impure(ir.then) or impure(ir.els)
            if arms_m:
                assert monadic
                return self.render(Bind(ir.pat, MIf(ir.cond, ir.then, ir.els, ir.ty), ir.body), monadic, ind)
            cond = (pad + "  (if %s then\n" % ir.cond + self.render(ir.then, arms_m, ind + 2) + pad + "  else\n"
                    + self.render(ir.els, arms_m, ind + 2).rstrip("\n") + ")\n")
            return pad + "let %s :=\n" % ir.pat + cond + self.render(ir.body, monadic, ind)
        raise AssertionError(ir)

    # -------------------------------------------------------------- statements
    def block(self, stmts, env, k):
        if not stmts:
            return k(env)
        st, rest = stmts[0], stmts[1:]
        where = "line %d" % st.lineno
        if isinstance(st, ast.Pass):
            return self.block(rest, env, k)
        if isinstance(st, ast.Expr) and isinstance(st.value, ast.Constant) and isinstance(st.value.value, str):
            return self.block(rest, env, k)            # docstring / bare string
        if isinstance(st, ast.Return):
            if rest:
                raise Problem("unreachable statements after return (%s)" % where)
            if st.value is None:
                return self.leaf(Val("none", "none"))
            binds, v = self.tx(st.value, env)
            return wrap(binds, self.leaf(v))
        if isinstance(st, ast.Raise):
            if rest:
                raise Problem("unreachable statements after raise (%s)" % where)
            exc = st.exc
            if isinstance(exc, ast.Call):
                exc = exc.func
            if st.cause is not None or not isinstance(exc, ast.Name) or exc.id not in EXC:
                raise Problem("raise of an unlisted exception (%s)" % where)
            return Fail(EXC[exc.id])
        if isinstance(st, ast.Assign):
            if len(st.targets) != 1:
                raise Problem("chained assignment (%s)" % where)
            return self.assign(st.targets[0], st.value, rest, env, k, where)
        if isinstance(st, ast.If):
            binds, c = self.tx(st.test, env)
            if c.kind != "B":
                raise Problem("condition of kind %r (%s)" % (c.kind, where))
            cond = c.prop if c.prop is not None else c.code
            if contains_exit(st.body) or contains_exit(st.orelse):
                def kk(e):
                    return self.block(rest, e, k)
                return wrap(binds, Ite(cond, self.block(st.body, dict(env), kk), self.block(st.orelse, dict(env), kk)))
            names = assigned_names(st.body + st.orelse)
            both = definitely_assigned(st.body) & definitely_assigned(st.orelse)
            phi = [n for n in names if n in env or n in both]
            lost = [n for n in names if n not in phi]

            def arm(stmts_, kinds):
                got = {}

                def yk(e):
                    got["env"] = e
                    if not phi:
                        return Yield("()")
                    if kinds is None:
                        return Yield("?")
                    cs = [self.coerce(e[n], kinds[n]) for n in phi]
                    return Yield(cs[0] if len(phi) == 1 else "(" + ", ".join(cs) + ")")
                ir_ = self.block(stmts_, dict(env), yk)
                return ir_, got["env"]
            # first pass: the kinds of the variables at the end of each arm; second pass: code
            keep = (self.ntmp, len(self.ret_kinds))
            _, env_a = arm(st.body, None)
            _, env_b = arm(st.orelse, None)
            self.ntmp = keep[0]
            del self.ret_kinds[keep[1]:]
            env2 = dict(env)
            for n in lost:
                env2.pop(n, None)
            kinds = {}
            for n in phi:
                kd = unify(env_a[n].kind, env_b[n].kind)
                if is_tuple(kd) or kd in ("none", "nan", "VB"):
                    raise Problem("variable %s has kind %r after the if (%s)" % (n, kd, where))
                kinds[n] = kd
                env2[n] = Val(kd, lname(n))
            ir_a, _ = arm(st.body, kinds)
            ir_b, _ = arm(st.orelse, kinds)
            if not phi:
                raise Problem("`if` that neither returns nor assigns a (definitely defined) variable (%s)" % where)
            pat = lname(phi[0]) if len(phi) == 1 else "(" + ", ".join(lname(n) for n in phi) + ")"
            ty = lty(("tuple", tuple(kinds[n] for n in phi))) if len(phi) != 1 else lty(kinds[phi[0]])
            return wrap(binds, Phi(pat, cond, ir_a, ir_b, self.block(rest, env2, k), ty if phi else "Unit"))
        raise Problem("statement %s (%s)" % (type(st).__name__, where))

    def assign(self, target, value, rest, env, k, where):
        binds, v = self.tx(value, env)
        env2 = dict(env)
        if isinstance(target, ast.Name):
            if v.kind in ("none", "nan") or v.kind == "VB":
                raise Problem("assignment of a value of kind %r (%s)" % (v.kind, where))
            n = lname(target.id)
            if target.id == "_":
                raise Problem("assignment to _ (%s)" % where)
            if is_tuple(v.kind):
                env2[target.id] = Val(v.kind, n)
            else:
                # components / cells are NOT remembered: the names they mention may be re-bound later
                # (rows / cells of a parameter are fresh names bound once at entry, so an alias may keep them)
                is_param_struct = v.code in self.param_names
                env2[target.id] = Val(v.kind, n, cells=v.cells if is_param_struct else None,
                                      rows=v.rows if is_param_struct else None)
            if binds and binds[-1][0] == "bind" and binds[-1][1] == v.code:
                binds = binds[:-1] + [("bind", n, binds[-1][2])]
                return wrap(binds, self.block(rest, env2, k))
            return wrap(binds, Let(n, v.code, self.block(rest, env2, k)))
        if isinstance(target, (ast.Tuple, ast.List)):
            names = []
            for e in target.elts:
                if not isinstance(e, ast.Name):
                    raise Problem("nested unpacking (%s)" % where)
                names.append(e.id)
            if is_tuple(v.kind):
                kinds = list(v.kind[1])
            elif v.kind == "P":
                kinds = ["S", "S"]
            else:
                raise Problem("unpacking a value of kind %r (%s)" % (v.kind, where))
            if len(kinds) != len(names):
                raise Problem("unpacking %d values into %d names (%s)" % (len(kinds), len(names), where))
            for n, kd in zip(names, kinds):
                if n != "_":
                    if kd in ("none", "nan"):
                        raise Problem("unpacked position is always None (%s)" % where)
                    env2[n] = Val(kd, lname(n))
            pat = "(" + ", ".join(lname(n) for n in names) + ")"
            if binds and binds[-1][0] == "bind" and binds[-1][1] == v.code:
                binds = binds[:-1] + [("bind", pat, binds[-1][2])]
                return wrap(binds, self.block(rest, env2, k))
            return wrap(binds, Let(pat, v.code, self.block(rest, env2, k)))
        raise Problem("assignment target %s (%s)" % (type(target).__name__, where))

    # -------------------------------------------------------------- expressions
    def const_eval(self, node, mod=None, depth=0):
        """exact value of a constant numeric expression (or None); the float evaluation must be exact"""
        mod = mod or self.mod
        if depth > 8:
            return None
        if isinstance(node, ast.Constant):
            v = node.value
            if isinstance(v, bool) or not isinstance(v, (int, float)):
                return None
            if isinstance(v, float) and (v != v or v in (float("inf"), float("-inf"))):
                return None
            return Fr(v)
        if isinstance(node, ast.UnaryOp) and isinstance(node.op, ast.USub):
            v = self.const_eval(node.operand, mod, depth + 1)
            return None if v is None else -v
        if isinstance(node, ast.BinOp):
            a = self.const_eval(node.left, mod, depth + 1)
            b = self.const_eval(node.right, mod, depth + 1)
            if a is None or b is None:
                return None
            try:
                if isinstance(node.op, ast.Add):
                    r = a + b
                elif isinstance(node.op, ast.Sub):
                    r = a - b
                elif isinstance(node.op, ast.Mult):
                    r = a * b
                elif isinstance(node.op, ast.Div):
                    r = a / b
                elif isinstance(node.op, ast.Pow) and b.denominator == 1 and abs(b) <= 1100:
                    r = a ** int(b)
                else:
                    return None
                if Fr(float(r)) != r:
                    raise Problem("constant expression is not exact in binary64 (line %d)" % node.lineno)
            except (ZeroDivisionError, OverflowError):
                raise Problem("constant expression cannot be evaluated (line %d)" % node.lineno)
            return r
        if isinstance(node, ast.Name) and node.id in mod.consts and (mod is not self.mod or node.id not in self.locals_):
            return self.const_eval(mod.consts[node.id], mod, depth + 1)
        if isinstance(node, ast.Attribute) and isinstance(node.value, ast.Name):
            al = mod.aliases.get(node.value.id)
            if al and al != "numpy":
                other = self.tr.module(al)
                if node.attr in other.consts:
                    return self.const_eval(other.consts[node.attr], other, depth + 1)
        return None

    def need(self, binds, v, kind, what):
        """convert v to `kind` (unwrapping a maybe-None value raises)"""
        if v.kind == kind:
            return v
        if is_opt(v.kind) and v.kind[1] == kind:
            if v.kind[2] != "none":
                raise Problem("a maybe-NaN value is used as a number (%s)" % what)
            t = self.tmp()
            binds.append(("bind", t, "Rt.unwrap %s" % atom(v.code)))
            return Val(kind, t)
        raise Problem("%s: kind %r where %r is required" % (what, v.kind, kind))

    def tx(self, node, env):
        where = "line %d" % getattr(node, "lineno", 0)
        if not (isinstance(node, ast.Name) and node.id in env):
            c = self.const_eval(node)
            if c is not None:
                return [], Val("S", lit(c))
        if isinstance(node, ast.Constant):
            if node.value is None:
                return [], Val("none", "none")
            if isinstance(node.value, bool):
                return [], Val("B", "true" if node.value else "false")
            raise Problem("constant %r (%s)" % (node.value, where))
        if isinstance(node, ast.Name):
            if node.id in env:
                return [], env[node.id]
            raise Problem("name %s is not a parameter, a (definitely assigned) local or a numeric module constant (%s)"
                          % (node.id, where))
        if isinstance(node, ast.Attribute):
            if isinstance(node.value, ast.Name) and node.value.id not in env:
                base = node.value.id
                if self.mod.aliases.get(base) == "numpy" and node.attr == "nan":
                    return [], Val("nan", "none")
                if base in self.mod.classes and node.attr in self.mod.classes[base]:
                    name = "%s.%s" % (base, node.attr)
                    self.tr.enums[name] = self.mod.classes[base][node.attr]
                    return [], Val("E", name)
            raise Problem("attribute %s (%s)" % (ast.unparse(node), where))
        if isinstance(node, ast.Tuple):
            binds, comps = [], []
            for e in node.elts:
                b, v = self.tx(e, env)
                binds += b
                comps.append(v)
            return binds, Val(("tuple", tuple(c.kind for c in comps)),
                              "(" + ", ".join(c.code for c in comps) + ")", comps=comps)
        if isinstance(node, ast.UnaryOp):
            binds, v = self.tx(node.operand, env)
            if isinstance(node.op, ast.USub):
                v = self.need(binds, v, "S", "operand of unary - (%s)" % where)
                return binds, Val("S", "-%s" % atom(v.code))
            if isinstance(node.op, ast.Not):
                if v.kind != "B":
                    raise Problem("`not` of kind %r (%s)" % (v.kind, where))
                return binds, Val("B", "!%s" % atom(v.code), prop=("¬ %s" % atom(v.prop)) if v.prop else None)
            raise Problem("unary operator (%s)" % where)
        if isinstance(node, ast.BinOp):
            binds, a = self.tx(node.left, env)
            b2, b = self.tx(node.right, env)
            binds += b2
            ops = {ast.Add: "+", ast.Sub: "-", ast.Mult: "*", ast.Div: "/"}
            op = ops.get(type(node.op))
            if op is None:
                raise Problem("operator %s (%s)" % (type(node.op).__name__, where))
            if a.kind == "P" and b.kind == "P" and op == "-":
                return binds, Val("P", "Model.psub %s %s" % (atom(a.code), atom(b.code)))
            if a.kind == "V" and b.kind == "V" and op == "-":
                t = self.tmp()
                binds.append(("bind", t, "Rt.vzip (fun x y => x - y) %s %s" % (atom(a.code), atom(b.code))))
                return binds, Val("V", t)
            a = self.need(binds, a, "S", "left operand of %s (%s)" % (op, where))
            b = self.need(binds, b, "S", "right operand of %s (%s)" % (op, where))
            return binds, Val("S", "%s %s %s" % (atom(a.code), op, atom(b.code)))
        if isinstance(node, ast.Compare):
            return self.compare(node, env, where)
        if isinstance(node, ast.BoolOp):
            return self.boolop(node, env, where)
        if isinstance(node, ast.Subscript):
            return self.subscript(node, env, where)
        if isinstance(node, ast.Call):
            return self.call(node, env, where)
        raise Problem("expression %s (%s)" % (type(node).__name__, where))

    def compare(self, node, env, where):
        binds = []
        vals = []
        for i, e in enumerate([node.left] + node.comparators):
            b, v = self.tx(e, env)
            if b and i >= 2:
                raise Problem("a later operand of a chained comparison can raise (it is evaluated lazily) (%s)" % where)
            binds += b
            vals.append(v)
        if len(vals) == 2 and vals[0].kind == "V" and vals[1].kind == "V":
            if not isinstance(node.ops[0], ast.LtE):
                raise Problem("array comparison other than <= (%s)" % where)
            t = self.tmp()
            binds.append(("bind", t, "Rt.vzip (fun x y => decide (x ≤ y)) %s %s" % (atom(vals[0].code), atom(vals[1].code))))
            return binds, Val("VB", t)
        vals = [self.need(binds, v, "S", "operand of a comparison (%s)" % where) for v in vals]
        props = []
        for op, a, b in zip(node.ops, vals, vals[1:]):
            x, y = atom(a.code), atom(b.code)
            if isinstance(op, ast.Lt):
                props.append("%s < %s" % (x, y))
            elif isinstance(op, ast.LtE):
                props.append("%s ≤ %s" % (x, y))
            elif isinstance(op, ast.Gt):
                props.append("%s < %s" % (y, x))          # a > b  is  b < a
            elif isinstance(op, ast.GtE):
                props.append("%s ≤ %s" % (y, x))
            elif isinstance(op, ast.Eq):
                props.append("%s = %s" % (x, y))
            elif isinstance(op, ast.NotEq):
                props.append("%s ≠ %s" % (x, y))
            else:
                raise Problem("comparison operator %s (%s)" % (type(op).__name__, where))
        code = " && ".join("decide (%s)" % p for p in props)
        prop = " ∧ ".join(props)
        return binds, Val("B", code, prop=prop)

    def boolop(self, node, env, where):
        is_and = isinstance(node.op, ast.And)
        parts = []
        for e in node.values:
            b, v = self.tx(e, env)
            if v.kind != "B":
                raise Problem("operand of and/or of kind %r (%s)" % (v.kind, where))
            parts.append((b, v))
        # fold from the right; an operand that can raise is only evaluated when reached
        b_acc, v_acc = parts[-1]
        for b, v in reversed(parts[:-1]):
            if not b_acc:
                code = "%s %s %s" % (atom(v.code), "&&" if is_and else "||", atom(v_acc.code))
                prop = None
                if v.prop is not None and v_acc.prop is not None:
                    prop = "%s %s %s" % (atom(v.prop), "∧" if is_and else "∨", atom(v_acc.prop))
                b_acc, v_acc = b, Val("B", code, prop=prop)
            else:
                inner = wrap(b_acc, Yield(v_acc.code))
                cond = v.prop if v.prop is not None else v.code
                if is_and:
                    code = MIf(cond, inner, Yield("false"), "Bool")
                else:
                    code = MIf(cond, Yield("true"), inner, "Bool")
                t = self.tmp()
                b_acc, v_acc = b + [("bind", t, code)], Val("B", t)
        return b_acc, v_acc

    def const_index(self, node, where):
        if isinstance(node, ast.Constant) and isinstance(node.value, int) and not isinstance(node.value, bool):
            return node.value
        if isinstance(node, ast.UnaryOp) and isinstance(node.op, ast.USub) and isinstance(node.operand, ast.Constant) \
                and isinstance(node.operand.value, int):
            return -node.operand.value
        raise Problem("non-constant index (%s)" % where)

    def row_read(self, binds, row, j, where):
        t = self.tmp()
        if j >= 0:
            binds.append(("bind", t, "Rt.idx %s %d" % (row, j)))
        elif j == -1:
            binds.append(("bind", t, "Rt.idxLast %s" % row))
        else:
            raise Problem("negative index %d (%s)" % (j, where))
        return t

    def subscript(self, node, env, where):
        binds, base = self.tx(node.value, env)
        sl = node.slice
        if base.kind == "P":
            i = self.const_index(sl, where)
            if i not in (0, 1):
                raise Problem("index %d into a 2-entry array (%s)" % (i, where))
            if base.comps is not None:
                return binds, Val("S", base.comps[i])
            return binds, Val("S", "%s.%d" % (atom(base.code), i + 1))
        if base.kind in ("M22", "M2N") and isinstance(sl, ast.Tuple) and len(sl.elts) == 2:
            first, second = sl.elts
            full = isinstance(first, ast.Slice) and first.lower is None and first.upper is None and first.step is None
            j = self.const_index(second, where)
            if base.kind == "M22":
                if base.cells is None:
                    raise Problem("index into a 2x2 array that is not a parameter / literal (%s)" % where)
                if j not in (0, 1, -1, -2):
                    raise Problem("column %d of a 2x2 array (%s)" % (j, where))
                j %= 2
                self.struct_used |= set(base.cells[0] + base.cells[1])
                if full:
                    return binds, Val("P", "(%s, %s)" % (base.cells[0][j], base.cells[1][j]),
                                      comps=[base.cells[0][j], base.cells[1][j]])
                i = self.const_index(first, where)
                if i not in (0, 1, -1, -2):
                    raise Problem("row %d of a 2x2 array (%s)" % (i, where))
                return binds, Val("S", base.cells[i % 2][j])
            if base.rows is None:
                raise Problem("index into a 2xN array that is not a parameter (%s)" % where)
            self.struct_used |= set(base.rows)
            if full:
                a = self.row_read(binds, base.rows[0], j, where)
                b = self.row_read(binds, base.rows[1], j, where)
                return binds, Val("P", "(%s, %s)" % (a, b), comps=[a, b])
            i = self.const_index(first, where)
            if i not in (0, 1, -1, -2):
                raise Problem("row %d of a 2xN array (%s)" % (i, where))
            return binds, Val("S", self.row_read(binds, base.rows[i % 2], j, where))
        raise Problem("subscript %s of a value of kind %r (%s)" % (ast.unparse(node), base.kind, where))

    # -------------------------------------------------------------- calls
    def call(self, node, env, where):
        f = node.func
        target = None          # ("fn", module, name) | ("np", dotted) | ("builtin", name)
        if isinstance(f, ast.Name) and f.id not in env:
            if f.id in self.mod.funcs:
                target = ("fn", self.modname, f.id)
            elif f.id in ("abs", "min", "max"):
                target = ("builtin", f.id)
        elif isinstance(f, ast.Attribute):
            chain = []
            cur = f
            while isinstance(cur, ast.Attribute):
                chain.append(cur.attr)
                cur = cur.value
            if isinstance(cur, ast.Name) and cur.id not in env:
                chain.reverse()
                al = self.mod.aliases.get(cur.id)
                if al == "numpy":
                    target = ("np", ".".join(chain))
                elif al is not None and len(chain) == 1:
                    target = ("fn", al, chain[0])
        if target is None:
            raise Problem("call of %s (%s)" % (ast.unparse(f), where))
        if target[0] == "fn":
            return self.fn_call(node, target[1], target[2], env, where)
        return self.prim_call(node, target, env, where)

    def fn_call(self, node, mod, fn, env, where):
        if (mod, fn) not in self.tr.sigs:
            raise Problem("call of %s.%s, which is not in the signature table (%s)" % (mod, fn, where))
        callee = self.tr.function(mod, fn)
        if callee is None:
            raise Problem("call of %s, which could not be translated (%s)" % (fn, where))
        if node.keywords or len(node.args) != len(callee.kinds) or any(isinstance(a, ast.Starred) for a in node.args):
            raise Problem("call of %s with keyword / default / starred arguments (%s)" % (fn, where))
        binds, args = [], []
        for a, kd, pn in zip(node.args, callee.kinds, callee.params):
            b, v = self.tx(a, env)
            binds += b
            if kd in ("M22", "M2N", "MN"):
                if v.kind != kd:
                    raise Problem("argument %s of %s: kind %r where %r is required (%s)" % (pn, fn, v.kind, kd, where))
            else:
                v = self.need(binds, v, kd, "argument %s of %s (%s)" % (pn, fn, where))
            args.append(atom(v.code))
        if callee.uses_sqrt:
            self.uses_sqrt = True
            args.insert(0, "sqrt")
        code = "%s %s" % (fn, " ".join(args))
        if callee.monadic:
            t = self.tmp()
            binds.append(("bind", t, code))
            return binds, Val(callee.ret, t)
        return binds, Val(callee.ret, code)

    def prim_call(self, node, target, env, where):
        name = target[1]
        kw = {k.arg: k.value for k in node.keywords}
        if None in kw:
            raise Problem("**kwargs (%s)" % where)

        def kw_is(key, value):
            return key in kw and isinstance(kw[key], ast.Constant) and kw[key].value == value and \
                type(kw[key].value) is type(value)
        if target[0] == "np" and name in ("asfortranarray", "array") and len(node.args) == 1 and not kw \
                and isinstance(node.args[0], ast.List):
            elts = node.args[0].elts
            binds = []
            if len(elts) == 2 and all(isinstance(e, ast.List) and len(e.elts) == 2 for e in elts):
                cells = []
                for r in elts:
                    row = []
                    for e in r.elts:
                        b, v = self.tx(e, env)
                        binds += b
                        row.append(atom(self.need(binds, v, "S", "array entry (%s)" % where).code))
                    cells.append(row)
                return binds, Val("M22", "[[%s, %s], [%s, %s]]" % (cells[0][0], cells[0][1], cells[1][0], cells[1][1]),
                                  cells=cells)
            if len(elts) == 2 and not any(isinstance(e, (ast.List, ast.Tuple, ast.Starred)) for e in elts):
                comps = []
                for e in elts:
                    b, v = self.tx(e, env)
                    binds += b
                    comps.append(atom(self.need(binds, v, "S", "array entry (%s)" % where).code))
                return binds, Val("P", "(%s, %s)" % (comps[0], comps[1]), comps=comps)
            raise Problem("array literal of unsupported shape (%s)" % where)
        if target[0] == "np" and name in ("min", "max") and len(node.args) == 1 and set(kw) == {"axis"} and kw_is("axis", 1):
            binds, v = self.tx(node.args[0], env)
            prim = "Rt.npMin" if name == "min" else "Rt.npMax"
            if v.kind == "M2N" and v.rows is not None:
                self.struct_used |= set(v.rows)
                a, b = self.tmp(), self.tmp()
                binds += [("bind", a, "%s %s" % (prim, v.rows[0])), ("bind", b, "%s %s" % (prim, v.rows[1]))]
                return binds, Val("P", "(%s, %s)" % (a, b), comps=[a, b])
            if v.kind == "MN":
                t = self.tmp()
                binds.append(("bind", t, "List.mapM %s %s" % (prim, atom(v.code))))
                return binds, Val("V", t)
            raise Problem("np.%s(axis=1) of a value of kind %r (%s)" % (name, v.kind, where))
        if ((target[0] == "np" and name in ("abs", "absolute")) or target == ("builtin", "abs")) and len(node.args) == 1 and not kw:
            binds, v = self.tx(node.args[0], env)
            v = self.need(binds, v, "S", "argument of abs (%s)" % where)
            return binds, Val("S", "Model.absK %s" % atom(v.code))
        if target[0] == "builtin" and name in ("min", "max") and len(node.args) == 2 and not kw:
            binds, a = self.tx(node.args[0], env)
            b2, b = self.tx(node.args[1], env)
            binds += b2
            a = self.need(binds, a, "S", "argument of %s (%s)" % (name, where))
            b = self.need(binds, b, "S", "argument of %s (%s)" % (name, where))
            return binds, Val("S", "Model.%sK %s %s" % (name, atom(a.code), atom(b.code)))
        if target[0] == "np" and name == "vdot" and len(node.args) == 2 and not kw:
            binds, a = self.tx(node.args[0], env)
            b2, b = self.tx(node.args[1], env)
            binds += b2
            if a.kind != "P" or b.kind != "P":
                raise Problem("np.vdot of kinds %r, %r (%s)" % (a.kind, b.kind, where))
            return binds, Val("S", "Model.dot2 %s %s" % (atom(a.code), atom(b.code)))
        if target[0] == "np" and name == "all" and len(node.args) == 1 and not kw:
            binds, v = self.tx(node.args[0], env)
            if v.kind != "VB":
                raise Problem("np.all of kind %r (%s)" % (v.kind, where))
            return binds, Val("B", "List.all %s id" % atom(v.code))
        if target[0] == "np" and name == "linalg.norm" and len(node.args) == 1 and set(kw) == {"ord"} and kw_is("ord", 2):
            binds, v = self.tx(node.args[0], env)
            if v.kind != "V":
                raise Problem("np.linalg.norm of kind %r (%s)" % (v.kind, where))
            self.uses_sqrt = True
            return binds, Val("S", "sqrt (Model.normSq %s)" % atom(v.code))
        raise Problem("call of %s%s with this argument list is not a supported primitive (%s)"
                      % ("np." if target[0] == "np" else "", name, where))


HEADER = """\
/- GENERATED by harness/translate_py.py from the pure-Python sources of /repo's working tree on every
   run; do not edit.  One definition per translated function; the equalities with the hand-written
   model are proved in Tables/SrcPy.lean. -/
import BezierVerif.Model.Basic
import BezierVerif.Model.Curve
import BezierVerif.Model.Solve2x2
import BezierVerif.Model.Helpers

set_option linter.unusedVariables false

namespace BezierVerif.Src.Py

open BezierVerif
open BezierVerif.Model (Err Pt)

variable {K : Type} [Add K] [Sub K] [Mul K] [Div K] [Neg K] [OfNat K 0] [OfNat K 1] [NatCast K]
  [LT K] [DecidableLT K] [LE K] [DecidableLE K] [DecidableEq K]

"""


def main():
    out = OUT
    argv = sys.argv[1:]
    if len(argv) == 2 and argv[0] == "--out":
        out = argv[1]
    elif argv:
        print("usage: translate_py.py [--out FILE]")
        sys.exit(2)
    tr = Translator()
    for mod, fn, _ in SIGS:
        tr.function(mod, fn)
    parts = []
    n_ok = 0
    for key in tr.order:
        t = tr.done[key]
        if t is None:
            parts.append("-- NOT TRANSLATED: %s.%s (see the EXTRACT-PROBLEM line of this run)\n" % key)
        else:
            parts.append(t.text)
            n_ok += 1
    enums = "".join("def %s : Nat := %d\n" % (n, v) for n, v in sorted(tr.enums.items()))
    if enums:
        enums = "/-! ## integer attributes of plain classes (enum values) -/\n" + enums + "\n"
    text = HEADER + RUNTIME + "\n" + enums + "/-! ## translated functions -/\n\n" + "\n".join(parts) + "\nend BezierVerif.Src.Py\n"
    old = None
    if os.path.exists(out):
        with open(out) as fh:
            old = fh.read()
    if old != text:
        os.makedirs(os.path.dirname(out), exist_ok=True)
        with open(out + ".tmp", "w") as fh:
            fh.write(text)
        os.replace(out + ".tmp", out)
    for p in tr.problems:
        print("EXTRACT-PROBLEM srcpy: " + p)
    print("translated %d of %d functions (%s)" % (n_ok, len(SIGS), "changed" if old != text else "unchanged"))


if __name__ == "__main__":
    main()
