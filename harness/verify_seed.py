#!/venv/bin/python
"""Confirm a seeded change produced by an independent sub-agent and record it under seeded/<NAME>/.

usage: verify_seed.py <candidate dir with patch.diff, demo.py, README.md> <PROPERTY ID> [<check tier>] [extra property ids...]

Steps (all in a scratch worktree of /repo under /tmp, removed afterwards; /repo itself is only patched
for the duration of our own check and restored with `git checkout -- .`):
  1. the patch applies to /repo's HEAD;
  2. the patched tree builds; the repository's test-suite, run against the patched build, has the same
     pass set as on the clean build (the 7 environment-related baseline failures excepted);
  3. demo.py exits 0 on the clean build and non-zero on the patched build;
  4. our check(s) for the property are run against /repo with the patch applied; outcome recorded.
Writes seeded/<NAME>/{patch.diff, demo.py, README.md, meta.json}.
"""
import json
import os
import re
import shutil
import subprocess
import sys
import time

VERIF = os.path.dirname(os.path.dirname(os.path.abspath(__file__)))
PY = "/venv/bin/python"
BUILD_TOOL = os.path.join(VERIF, "harness", "build_repo.py")
SEEDBUILD = "/var/tmp/bezier-seedcheck-%d" % os.getpid()      # private: several verifications may run side by side


def sh(cmd, **kw):
    return subprocess.run(cmd, stdout=subprocess.PIPE, stderr=subprocess.STDOUT, text=True, **kw)


def build(tree):
    env = dict(os.environ, BEZIER_REPO=tree, BEZIER_VERIF_BUILD=SEEDBUILD)
    r = sh([PY, BUILD_TOOL], env=env)
    if r.returncode != 0:
        return None, r.stdout[-2000:]
    return r.stdout.strip().split("\n")[-1], ""


def run_tests(tree, bld):
    env = dict(os.environ, PYTHONPATH=os.path.join(bld, "pkg_speedup"))
    r = sh([PY, "-m", "pytest", "-q", "-p", "no:cacheprovider", "--timeout=900", "-x", "--co", "-q", "tests/unit"], cwd=tree, env=env)
    r = sh([PY, "-m", "pytest", "-q", "-p", "no:cacheprovider", "--timeout=900", "-rf", "tests/unit", "tests/functional"], cwd=tree, env=env)
    failed = sorted(set(re.findall(r"^FAILED (\S+(?: \S+)*?)(?: - .*)?$", r.stdout, flags=re.M)))
    summary = [l for l in r.stdout.strip().split("\n") if re.search(r"\d+ (passed|failed)", l)][-1:] or [r.stdout[-300:]]
    return failed, summary[0]


def main():
    cand = os.path.abspath(sys.argv[1])
    prop = sys.argv[2]
    tier = sys.argv[3] if len(sys.argv) > 3 and sys.argv[3] in ("quick", "thorough") else "quick"
    extra = [a for a in sys.argv[3:] if re.fullmatch(r"C\d+", a)]
    name = os.path.basename(cand.rstrip("/"))
    patch = os.path.join(cand, "patch.diff")
    meta = {"name": name, "property": prop, "also_checked": extra, "verified_at": time.strftime("%Y-%m-%dT%H:%M:%S"), "steps": {}}
    wt = "/tmp/seedcheck_wt_%d" % os.getpid()
    sh(["git", "-C", "/repo", "worktree", "add", "--detach", wt, "HEAD"])
    try:
        clean_build, err = build(wt)
        clean_failed, clean_summary = run_tests(wt, clean_build)
        r = sh(["git", "apply", "--check", patch], cwd=wt)
        meta["steps"]["applies"] = r.returncode == 0
        if r.returncode != 0:
            meta["steps"]["apply_error"] = r.stdout[-500:]
            print(json.dumps(meta, indent=1))
            return 1
        sh(["git", "apply", patch], cwd=wt)
        pat_build, err = build(wt)
        meta["steps"]["builds"] = pat_build is not None
        if not pat_build:
            meta["steps"]["build_error"] = err
            print(json.dumps(meta, indent=1))
            return 1
        pat_failed, pat_summary = run_tests(wt, pat_build)
        meta["steps"]["tests_clean"] = clean_summary
        meta["steps"]["tests_patched"] = pat_summary
        meta["steps"]["new_test_failures"] = sorted(set(pat_failed) - set(clean_failed))
        demo = os.path.join(cand, "demo.py")
        # the demonstration is run in both configurations (PYTHONPATH = the build's package tree; older demos take the
        # build directory as argv[1]); it must pass on the clean build in every configuration in which it fails patched
        def demo_run(bld, cfg):
            env = dict(os.environ, PYTHONPATH=os.path.join(bld, "pkg_" + cfg), BEZIER_DEMO_CONFIG=cfg)
            return sh([PY, demo, bld], cwd=cand, env=env)
        rc_clean, rc_pat, tail = {}, {}, ""
        for cfg in ("speedup", "pure"):
            rc_clean[cfg] = demo_run(clean_build, cfg).returncode
            rp = demo_run(pat_build, cfg)
            rc_pat[cfg] = rp.returncode
            if rp.returncode != 0 and not tail:
                tail = rp.stdout[-400:]
        # a configuration in which the demonstration declares itself not applicable (same non-zero exit code on the clean and
        # on the patched build, e.g. "needs the compiled build") neither confirms nor refutes
        failing = [c for c in rc_pat if rc_pat[c] != 0 and rc_pat[c] != rc_clean[c]]
        meta["steps"]["demo_rc_by_config"] = {"clean": rc_clean, "patched": rc_pat}
        meta["steps"]["demo_clean_rc"] = max([rc_clean[c] for c in failing] or [max(rc_clean.values())])
        meta["steps"]["demo_patched_rc"] = 1 if failing else 0
        meta["steps"]["demo_patched_tail"] = tail
    except Exception:
        sh(["git", "-C", "/repo", "worktree", "remove", "--force", wt])
        shutil.rmtree(SEEDBUILD, ignore_errors=True)
        raise
    ok = meta["steps"]["applies"] and meta["steps"]["builds"] and not meta["steps"]["new_test_failures"] \
        and meta["steps"]["demo_clean_rc"] == 0 and meta["steps"]["demo_patched_rc"] != 0
    meta["confirmed"] = ok
    # our checks against /repo with the patch applied
    # (other workers may be building from /repo concurrently, so the patched tree is a scratch worktree of
    #  /repo's HEAD and the checks are pointed at it with BEZIER_REPO; equivalent to `git -C /repo apply`)
    meta["checks"] = {}
    os.environ["BEZIER_REPO"] = wt
    # the checks run in a private copy of the framework (own Generated data, own lake build, own evidence), so that they can
    # run next to checks of the clean tree; only the replay files are brought back
    priv = "/var/tmp/verif-seed-%d/verif" % os.getpid()
    shutil.rmtree(os.path.dirname(priv), ignore_errors=True)
    os.makedirs(priv)
    sh(["rsync", "-a", "--exclude", ".git", "--exclude", "replays", "--exclude", "evidence/.tmp", VERIF + "/", priv + "/"])
    try:
        for p in [prop] + extra:
            t0 = time.time()
            r = sh([os.path.join(priv, "check"), p, tier], cwd=priv, env=dict(os.environ, BEZIER_VERIF_BUILD=SEEDBUILD))
            rp = os.path.join(priv, "replays")
            if os.path.isdir(rp):
                os.makedirs(os.path.join(VERIF, "replays"), exist_ok=True)
                for f in os.listdir(rp):
                    shutil.copy(os.path.join(rp, f), os.path.join(VERIF, "replays", f))
            lines = [l for l in r.stdout.split("\n") if l.startswith(("VIOLATION", "KNOWN-FINDING", "INFRASTRUCTURE"))]
            meta["checks"][p] = {"tier": tier, "rc": r.returncode, "lines": lines[:12], "wall_s": round(time.time() - t0, 1),
                                 "detected": r.returncode == 1 and any(l.startswith("VIOLATION") for l in lines),
                                 "with_failing_input": any(l.startswith("VIOLATION") and "no-failing-input-found" not in l for l in lines)}
            # keep the replay files of this run next to the seed
    finally:
        os.environ.pop("BEZIER_REPO", None)
        sh(["git", "-C", "/repo", "worktree", "remove", "--force", wt])
        shutil.rmtree(SEEDBUILD, ignore_errors=True)
        shutil.rmtree(os.path.dirname(priv), ignore_errors=True)
    dest = os.path.join(VERIF, "seeded", name)
    os.makedirs(dest, exist_ok=True)
    for f in ("patch.diff", "demo.py", "README.md"):
        if os.path.exists(os.path.join(cand, f)):
            shutil.copy(os.path.join(cand, f), os.path.join(dest, f))
    with open(os.path.join(dest, "meta.json"), "w") as fh:
        json.dump(meta, fh, indent=1)
    print(json.dumps(meta, indent=1))
    return 0


if __name__ == "__main__":
    sys.exit(main())
