import BezierVerif.Model.Algebraic
import BezierVerif.Lemmas.Shift
import BezierVerif.Lemmas.Elevate
import Mathlib.Tactic.Ring
import Mathlib.Tactic.LinearCombination
import Mathlib.Tactic.FieldSimp
import Mathlib.Tactic.FinCases
import Mathlib.Tactic.NormNum
import Mathlib.Algebra.BigOperators.Intervals
import Mathlib.Algebra.BigOperators.Fin
import Mathlib.Algebra.CharZero.Defs
import Mathlib.Data.Nat.Cast.Field
import Mathlib.Data.Nat.Choose.Basic
import Mathlib.LinearAlgebra.Matrix.Determinant.Basic
import Mathlib.LinearAlgebra.Matrix.ToLinearEquiv
import Mathlib.Algebra.Polynomial.Basic
import Mathlib.Algebra.Polynomial.Eval.Defs
import Mathlib.Algebra.Polynomial.Coeff
import Mathlib.Algebra.Order.Field.Basic

/-!
# Lemmas/Algebraic — helper lemmas about `Model/Algebraic.lean`

* the list determinant `Alg.det` is `Matrix.det` (every size);
* `foldl` loops are `Finset` sums;
* σ-substitution (re-homed seed), the running binomial ratio of `_get_sigma_coeffs`;
* the double loop of `polynomial_norm` is the symmetric double sum;
* list linear algebra behind the interpolation schemes.
-/

set_option linter.unusedSectionVars false

namespace BezierVerif.AlgLemmas

open Finset Model Model.Alg

section Field
variable {K : Type} [Field K]

/-! ### loops as sums -/

theorem foldl_add_eq_sum (f : ℕ → K) (n : ℕ) (init : K) :
    (List.range n).foldl (fun acc j => acc + f j) init = init + ∑ j ∈ range n, f j := by
  induction n with
  | zero => simp
  | succ n ih => rw [List.range_succ, List.foldl_append, ih, Finset.sum_range_succ]; simp [add_assoc]

theorem nat_eq (n : ℕ) : (nat n : K) = (n : K) := rfl

theorem powK_eq (x : K) (n : ℕ) : powK x n = x ^ n := by
  induction n with
  | zero => simp [powK]
  | succ n ih => rw [powK, ih, pow_succ]

theorem seq_cons_zero (a : K) (l : List K) : seq (a :: l) 0 = a := rfl
theorem seq_cons_succ (a : K) (l : List K) (j : ℕ) : seq (a :: l) (j + 1) = seq l j := rfl
theorem seq_nil (j : ℕ) : seq ([] : List K) j = 0 := by simp [seq]

theorem seq_append_left (l r : List K) (j : ℕ) (h : j < l.length) : seq (l ++ r) j = seq l j := by
  unfold seq
  rw [List.getD_eq_getElem?_getD, List.getD_eq_getElem?_getD, List.getElem?_append_left h]

theorem seq_append_right (l r : List K) : seq (l ++ r) l.length = seq r 0 := by
  unfold seq
  rw [List.getD_eq_getElem?_getD, List.getD_eq_getElem?_getD, List.getElem?_append_right (le_refl _)]
  simp

/-! ### the list determinant is `Matrix.det` -/

/-- the leading `n × n` part of a list of rows as a matrix -/
def toMatrix (n : ℕ) (m : List (List K)) : Matrix (Fin n) (Fin n) K :=
  fun i j => seq (m.getD i []) j

theorem altSign_eq (j : ℕ) (x : K) : altSign j x = (-1) ^ j * x := by
  unfold altSign
  rcases Nat.even_or_odd j with h | h
  · rw [if_pos (Nat.even_iff.mp h), h.neg_one_pow, one_mul]
  · rw [if_neg (by rw [Nat.odd_iff.mp h]; decide), h.neg_one_pow]; ring

theorem seq_eraseIdx (r : List K) (j k : ℕ) :
    seq (r.eraseIdx j) k = seq r (if k < j then k else k + 1) := by
  unfold seq
  rw [List.getD_eq_getElem?_getD, List.getD_eq_getElem?_getD, List.getElem?_eraseIdx]
  split <;> rfl

theorem toMatrix_minor (n : ℕ) (m : List (List K)) (j : Fin (n + 1)) :
    toMatrix n (m.tail.map (fun r => r.eraseIdx j)) =
      (toMatrix (n + 1) m).submatrix Fin.succ j.succAbove := by
  ext i k
  simp only [toMatrix, Matrix.submatrix_apply]
  have h1 : (m.tail.map (fun r => r.eraseIdx (j : ℕ))).getD i [] = (m.getD (i + 1) []).eraseIdx j := by
    cases m with
    | nil => simp
    | cons a t =>
      simp only [List.tail_cons, List.getD_eq_getElem?_getD, List.getElem?_map, List.getElem?_cons_succ]
      cases t[(i : ℕ)]? <;> simp
  rw [h1, seq_eraseIdx]
  congr 1
  simp only [Fin.succAbove, Fin.lt_def, Fin.val_castSucc]
  split <;> simp

/-- **the executable Laplace determinant is the determinant**, every size, every matrix -/
theorem det_eq_matrix_det : ∀ (n : ℕ) (m : List (List K)), det n m = (toMatrix n m).det
  | 0, m => by simp [det]
  | n + 1, m => by
    rw [Matrix.det_succ_row_zero]
    unfold det
    simp only
    rw [foldl_add_eq_sum, zero_add, ← Fin.sum_univ_eq_sum_range
      (fun j => altSign j (seq (m.headD []) j * det n (m.tail.map (fun r => r.eraseIdx j))))]
    apply Finset.sum_congr rfl
    intro j _
    rw [altSign_eq, det_eq_matrix_det n, toMatrix_minor]
    have : seq (m.headD []) j = toMatrix (n + 1) m 0 j := by
      unfold toMatrix; cases m <;> simp
    rw [this]; ring

/-! ### implicit functions vanish on their curve -/

theorem evaluate1_vanishes (x0 x1 y0 y1 s : K) :
    evaluate1 x0 x1 y0 y1 (bern 1 (1 - s) s (seq [x0, x1])) (bern 1 (1 - s) s (seq [y0, y1])) = 0 := by
  simp [evaluate1, bern, Finset.sum_range_succ, seq]
  ring

theorem evaluate2_vanishes (x0 x1 x2 y0 y1 y2 s : K) :
    evaluate2 x0 x1 x2 y0 y1 y2 (bern 2 (1 - s) s (seq [x0, x1, x2]))
      (bern 2 (1 - s) s (seq [y0, y1, y2])) = 0 := by
  simp [evaluate2, bern, Finset.sum_range_succ, seq, nat, Nat.choose]
  ring

/-- the vector `((1-s)^5, (1-s)^4 s, …, s^5)` is in the kernel of the 6×6 matrix of
    `_evaluate3` when `(x, y)` is the point of the cubic at `s`; hence its determinant is `0` -/
theorem evaluate3_vanishes (x0 x1 x2 x3 y0 y1 y2 y3 s : K) :
    evaluate3 [x0, x1, x2, x3] [y0, y1, y2, y3]
      (bern 3 (1 - s) s (seq [x0, x1, x2, x3])) (bern 3 (1 - s) s (seq [y0, y1, y2, y3])) = 0 := by
  unfold evaluate3
  rw [det_eq_matrix_det]
  apply Matrix.exists_mulVec_eq_zero_iff.mp
  refine ⟨fun k => (1 - s) ^ (5 - (k : ℕ)) * s ^ (k : ℕ), ?_, ?_⟩
  · intro h
    by_cases hs : s = 0
    · have := congrFun h 0
      simp [hs] at this
    · have := congrFun h 5
      simp [hs] at this
  · ext i
    fin_cases i <;>
      simp [Matrix.mulVec, dotProduct, Fin.sum_univ_succ, toMatrix, sylvester3, shiftRow, delta3, seq, nat,
        bern, Finset.sum_range_succ, Nat.choose, List.range_succ] <;> ring

/-! ### `mapE` -/

theorem mapE_ok {α β : Type} (f : α → Except Err β) (g : α → β) :
    ∀ l : List α, (∀ a ∈ l, f a = .ok (g a)) → mapE f l = .ok (l.map g)
  | [], _ => rfl
  | a :: rest, h => by
    rw [mapE, h a (by simp), mapE_ok f g rest (fun b hb => h b (by simp [hb]))]
    rfl

end Field

section Field
variable {K : Type} [Field K]

/-! ### `poly_to_power_basis`, interpolation schemes -/

theorem polyval_nil (x : K) : polyval ([] : List K) x = 0 := rfl
theorem polyval_cons (a : K) (l : List K) (x : K) : polyval (a :: l) x = a + polyval l x * x := rfl

theorem polyToPowerBasis_eval (c : List K) (h1 : 1 ≤ c.length) (h4 : c.length ≤ 4) (s : K) :
    ∃ p, polyToPowerBasis c = .ok p ∧ p.length = c.length ∧
      polyval p s = bern (c.length - 1) (1 - s) s (seq c) := by
  match c, h1, h4 with
  | [c0], _, _ => exact ⟨_, rfl, rfl, by simp [polyval, bern, seq]⟩
  | [c0, c1], _, _ =>
    exact ⟨_, rfl, rfl, by simp [polyval, bern, seq, Finset.sum_range_succ]; ring⟩
  | [c0, c1, c2], _, _ =>
    exact ⟨_, rfl, rfl, by simp [polyval, bern, seq, Finset.sum_range_succ, nat, Nat.choose]; ring⟩
  | [c0, c1, c2, c3], _, _ =>
    exact ⟨_, rfl, rfl, by simp [polyval, bern, seq, Finset.sum_range_succ, nat, Nat.choose]; ring⟩

theorem polyToPowerBasis_unsupported (c : List K) (h : c.length = 0 ∨ 5 ≤ c.length) :
    polyToPowerBasis c = .error .unsupportedDegree := by
  match c, h with
  | [], _ => rfl
  | [_], h => simp at h
  | [_, _], h => simp at h
  | [_, _, _], h => simp at h
  | [_, _, _, _], h => simp at h
  | _ :: _ :: _ :: _ :: _ :: _, _ => rfl

variable [CharZero K]

theorem pbCombine11_exact (p0 p1 : K) :
    pbCombine11 (pbNodes11.map (polyval [p0, p1])) = [p0, p1] := by
  simp [pbCombine11, pbNodes11, polyval]

theorem pbCombine12_exact (p0 p1 p2 : K) :
    pbCombine12 (pbNodes12.map (polyval [p0, p1, p2])) = [p0, p1, p2] := by
  simp only [pbCombine12, pbNodes12, polyval, q, nat, List.map_cons, List.map_nil, List.foldr_cons, List.foldr_nil]
  refine congrArg₂ _ ?_ (congrArg₂ _ ?_ (congrArg₂ _ ?_ rfl)) <;> · push_cast; field_simp; ring

theorem pbCombine13_exact (p0 p1 p2 p3 : K) :
    pbCombine13 (pbNodes13.map (polyval [p0, p1, p2, p3])) = [3 * p0, 3 * p1, 3 * p2, 3 * p3] := by
  simp only [pbCombine13, pbNodes13, polyval, q, nat, List.map_cons, List.map_nil, List.foldr_cons, List.foldr_nil]
  refine congrArg₂ _ ?_ (congrArg₂ _ ?_ (congrArg₂ _ ?_ (congrArg₂ _ ?_ rfl))) <;> · push_cast; field_simp; ring

theorem pbCombine4_exact (p0 p1 p2 p3 p4 : K) :
    pbCombine4 (pbNodes4.map (polyval [p0, p1, p2, p3, p4])) = [3 * p0, 3 * p1, 3 * p2, 3 * p3, 3 * p4] := by
  simp only [pbCombine4, pbNodes4, polyval, q, nat, List.map_cons, List.map_nil, List.foldr_cons, List.foldr_nil]
  refine congrArg₂ _ ?_ (congrArg₂ _ ?_ (congrArg₂ _ ?_ (congrArg₂ _ ?_ (congrArg₂ _ ?_ rfl)))) <;>
    · push_cast; field_simp; ring

end Field

section Field
variable {K : Type} [Field K]

/-! ### σ-substitution and `_get_sigma_coeffs` -/

/-- for `s ≠ 1` and `σ = s/(1-s)`: `bern n (1-s) s c = (1-s)^n · Σ C(n,j) σ^j c_j` (re-homed seed) -/
theorem sigma_substitution (n : ℕ) (s : K) (hs : 1 - s ≠ 0) (c : ℕ → K) :
    bern n (1 - s) s c = (1 - s) ^ n * ∑ j ∈ range (n + 1), (n.choose j : K) * (s / (1 - s)) ^ j * c j := by
  unfold bern
  rw [Finset.mul_sum]
  apply Finset.sum_congr rfl
  intro j hj
  have hj' : j ≤ n := by have := mem_range.mp hj; omega
  have e : (1 - s) ^ n = (1 - s) ^ (n - j) * (1 - s) ^ j := by rw [← pow_add]; congr 1; omega
  rw [e, div_pow]
  field_simp

variable [DecidableEq K]

theorem effectiveDegree_none (v : ℕ → K) : ∀ k, effectiveDegree v k = none ↔ ∀ j < k, v j = 0
  | 0 => by simp [effectiveDegree]
  | k + 1 => by
    rw [effectiveDegree]
    split
    · next h =>
      simp only [reduceCtorEq, false_iff, not_forall]
      exact ⟨k, Nat.lt_succ_self k, h⟩
    · next h =>
      rw [effectiveDegree_none v k]
      have h := not_not.mp h
      constructor
      · intro hk j hj
        rcases Nat.lt_succ_iff_lt_or_eq.mp hj with h1 | h1
        · exact hk j h1
        · rw [h1]; exact h
      · intro hk j hj; exact hk j (Nat.lt_succ_of_lt hj)

theorem effectiveDegree_some (v : ℕ → K) (e : ℕ) :
    ∀ k, effectiveDegree v k = some e ↔ (e < k ∧ v e ≠ 0 ∧ ∀ j, e < j → j < k → v j = 0)
  | 0 => by simp [effectiveDegree]
  | k + 1 => by
    rw [effectiveDegree]
    split
    · next h =>
      simp only [Option.some.injEq]
      constructor
      · rintro rfl
        exact ⟨Nat.lt_succ_self _, h, fun j h1 h2 => absurd h2 (by omega)⟩
      · rintro ⟨h1, h2, h3⟩
        by_contra hne
        have : e < k := by omega
        exact h (h3 k this (Nat.lt_succ_self k))
    · next h =>
      have h := not_not.mp h
      rw [effectiveDegree_some v e k]
      constructor
      · rintro ⟨h1, h2, h3⟩
        refine ⟨Nat.lt_succ_of_lt h1, h2, fun j hj1 hj2 => ?_⟩
        rcases Nat.lt_succ_iff_lt_or_eq.mp hj2 with h4 | h4
        · exact h3 j hj1 h4
        · rw [h4]; exact h
      · rintro ⟨h1, h2, h3⟩
        have : e ≠ k := fun he => h2 (he ▸ h)
        exact ⟨by omega, h2, fun j hj1 hj2 => h3 j hj1 (Nat.lt_succ_of_lt hj2)⟩

variable [CharZero K]

/-- the running integers of the loop keep `num / den = C(n,k) / C(n,e)`; hence entry `j` of the
    result times `C(n,e)` is `v j · C(n,j)` -/
theorem sigmaScale_spec (n e : ℕ) (v : ℕ → K) : ∀ (m num den : ℕ), m ≤ n → 0 < den →
    (∀ k, m = k + 1 → num * n.choose e = den * n.choose k) →
    (sigmaScale n v m num den).length = m ∧
      ∀ j < m, seq (sigmaScale n v m num den) j * (n.choose e : K) = v j * (n.choose j : K)
  | 0, _, _, _, _, _ => by simp [sigmaScale]
  | k + 1, num, den, hm, hden, hinv => by
    have hk := hinv k rfl
    have ih := sigmaScale_spec n e v k (num * k) (den * (n - k + 1)) (by omega) (by positivity)
      (by
        intro k' hk'
        subst hk'
        have h1 := Nat.choose_succ_right_eq n k'
        have h2 : n - (k' + 1) + 1 = n - k' := by omega
        rw [h2]
        calc num * (k' + 1) * n.choose e = (num * n.choose e) * (k' + 1) := by ring
          _ = den * (n.choose (k' + 1) * (k' + 1)) := by rw [hk]; ring
          _ = den * (n - k') * n.choose k' := by rw [h1]; ring)
    constructor
    · rw [sigmaScale, List.length_append, ih.1]; rfl
    · intro j hj
      rw [sigmaScale]
      rcases Nat.lt_succ_iff_lt_or_eq.mp hj with h1 | h1
      · rw [seq_append_left _ _ _ (by rw [ih.1]; exact h1)]
        exact ih.2 j h1
      · subst h1
        have hl : (sigmaScale n v j (num * j) (den * (n - j + 1))).length = j := ih.1
        have h2 := seq_append_right (sigmaScale n v j (num * j) (den * (n - j + 1))) [(v j * nat num) / nat den]
        rw [hl] at h2
        rw [h2, seq_cons_zero, nat_eq, nat_eq]
        have hd : (den : K) ≠ 0 := Nat.cast_ne_zero.mpr (by omega)
        have hkK : (num : K) * (n.choose e : K) = (den : K) * (n.choose j : K) := by exact_mod_cast hk
        field_simp
        linear_combination (v j) * hkK

theorem getSigmaCoeffs_zero_poly (c : List K) (h : ∀ j < c.length, seq c j = 0) :
    getSigmaCoeffs c = (none, 0, 0) := by
  unfold getSigmaCoeffs
  rw [(effectiveDegree_none (seq c) c.length).mpr h]

theorem getSigmaCoeffs_const (c : List K) (h0 : seq c 0 ≠ 0) (hlen : 1 ≤ c.length)
    (h : ∀ j, 0 < j → j < c.length → seq c j = 0) :
    getSigmaCoeffs c = (none, c.length - 1, 0) := by
  unfold getSigmaCoeffs
  rw [(effectiveDegree_some (seq c) 0 c.length).mpr ⟨by omega, h0, h⟩]
  rfl

/-- `_get_sigma_coeffs` on a polynomial of effective degree `e ≥ 1` -/
theorem getSigmaCoeffs_spec (c : List K) (n e : ℕ) (hlen : c.length = n + 1) (he1 : 1 ≤ e) (hen : e ≤ n)
    (hlead : seq c e ≠ 0) (hz : ∀ j, e < j → j ≤ n → seq c j = 0) :
    ∃ sc : List K, getSigmaCoeffs c = (some sc, n, e) ∧ sc.length = e ∧
      ∀ j < e, seq sc j * (n.choose e : K) = seq c j / seq c e * (n.choose j : K) := by
  obtain ⟨e', rfl⟩ : ∃ e', e = e' + 1 := ⟨e - 1, by omega⟩
  have hE : effectiveDegree (seq c) c.length = some (e' + 1) :=
    (effectiveDegree_some (seq c) (e' + 1) c.length).mpr
      ⟨by omega, hlead, fun j h1 h2 => hz j h1 (by omega)⟩
  have hspec := sigmaScale_spec n (e' + 1) (fun i => seq c i / seq c (e' + 1)) (e' + 1) (e' + 1)
    (n - (e' + 1) + 1) hen (by omega)
    (by
      intro k hk
      have : k = e' := by omega
      subst this
      have h1 := Nat.choose_succ_right_eq n k
      have h2 : n - (k + 1) + 1 = n - k := by omega
      rw [h2, Nat.mul_comm, h1, Nat.mul_comm])
  refine ⟨_, ?_, hspec.1, hspec.2⟩
  unfold getSigmaCoeffs
  rw [hE, hlen]
  rfl

/-- **the σ-polynomial**: for `s ≠ 1`, with `σ = s/(1-s)`,
    `B(s) = (1-s)^n · (C(n,e) c_e) · (σ^e + Σ_{k<e} sc_k σ^k)` -/
theorem bern_eq_sigma_poly (c : List K) (n e : ℕ) (hen : e ≤ n) (hlead : seq c e ≠ 0)
    (hz : ∀ j, e < j → j ≤ n → seq c j = 0) (sc : List K)
    (hsc : ∀ j < e, seq sc j * (n.choose e : K) = seq c j / seq c e * (n.choose j : K))
    (s : K) (hs : 1 - s ≠ 0) :
    bern n (1 - s) s (seq c) =
      (1 - s) ^ n * ((n.choose e : K) * seq c e) *
        ((s / (1 - s)) ^ e + ∑ k ∈ range e, seq sc k * (s / (1 - s)) ^ k) := by
  rw [sigma_substitution n s hs, mul_assoc]
  congr 1
  obtain ⟨d, rfl⟩ : ∃ d, n = e + d := ⟨n - e, by omega⟩
  rw [show e + d + 1 = (e + 1) + d by ring, Finset.sum_range_add]
  have hzero : ∑ x ∈ range d, ((e + d).choose (e + 1 + x) : K) * (s / (1 - s)) ^ (e + 1 + x) * seq c (e + 1 + x) = 0 := by
    apply Finset.sum_eq_zero
    intro x hx
    rw [hz (e + 1 + x) (by omega) (by have := mem_range.mp hx; omega), mul_zero]
  rw [hzero, add_zero, Finset.sum_range_succ, mul_add, Finset.mul_sum, add_comm]
  congr 1
  · ring
  · apply Finset.sum_congr rfl
    intro j hj
    have := hsc j (mem_range.mp hj)
    field_simp at this
    linear_combination (-((s / (1 - s)) ^ j)) * this

/-- `n - e` is the multiplicity of the root `s = 1`: `B = a^(n-e) · R` with `R(0, 1) = C(n,e) c_e ≠ 0` -/
theorem bern_factor_root_at_one (c : ℕ → K) (n e : ℕ) (hen : e ≤ n)
    (hz : ∀ j, e < j → j ≤ n → c j = 0) (a b : K) :
    bern n a b c = a ^ (n - e) * ∑ j ∈ range (e + 1), (n.choose j : K) * a ^ (e - j) * b ^ j * c j := by
  unfold bern
  obtain ⟨d, rfl⟩ : ∃ d, n = e + d := ⟨n - e, by omega⟩
  rw [show e + d + 1 = (e + 1) + d by ring, Finset.sum_range_add]
  have hzero : ∑ x ∈ range d, ((e + d).choose (e + 1 + x) : K) * a ^ (e + d - (e + 1 + x)) * b ^ (e + 1 + x) * c (e + 1 + x) = 0 := by
    apply Finset.sum_eq_zero
    intro x hx
    rw [hz (e + 1 + x) (by omega) (by have := mem_range.mp hx; omega), mul_zero]
  rw [hzero, add_zero, Finset.mul_sum]
  apply Finset.sum_congr rfl
  intro j hj
  have hj' : j ≤ e := by have := mem_range.mp hj; omega
  have e1 : e + d - j = (e + d - e) + (e - j) := by omega
  rw [e1, pow_add]; ring

theorem cofactor_at_one (c : ℕ → K) (n e : ℕ) :
    ∑ j ∈ range (e + 1), (n.choose j : K) * (0 : K) ^ (e - j) * (1 : K) ^ j * c j = (n.choose e : K) * c e := by
  rw [Finset.sum_range_succ, Finset.sum_eq_zero]
  · simp
  · intro j hj
    have : e - j ≠ 0 := by have := mem_range.mp hj; omega
    simp [this]

end Field

section Field
variable {K : Type} [Field K]

/-! ### `polynomial_norm` -/

theorem foldl_add2_eq_sum (f g : ℕ → K) (n : ℕ) (init : K) :
    (List.range n).foldl (fun acc j => acc + f j + g j) init = init + ∑ j ∈ range n, (f j + g j) := by
  have := foldl_add_eq_sum (fun j => f j + g j) n init
  simp only [← add_assoc] at this
  exact this

/-- the two nested loops as nested sums -/
theorem polynomialNormSq_eq_sums (c : List K) :
    polynomialNormSq c = ∑ i ∈ range c.length,
      (seq c i * seq c i / (2 * (i : K) + 1) +
        ∑ dj ∈ range (c.length - (i + 1)),
          2 * seq c i * seq c (i + 1 + dj) / (((i + (i + 1 + dj) : ℕ) : K) + 1)) := by
  unfold polynomialNormSq
  simp only [foldl_add_eq_sum, nat_eq]
  rw [foldl_add2_eq_sum, zero_add]
  simp

/-- a symmetric double sum: diagonal plus twice the strict upper triangle, in the loop's indexing -/
theorem sum_sym_split (f : ℕ → ℕ → K) (hf : ∀ i j, f i j = f j i) : ∀ n : ℕ,
    ∑ i ∈ range n, ∑ j ∈ range n, f i j =
      ∑ i ∈ range n, (f i i + ∑ dj ∈ range (n - (i + 1)), 2 * f i (i + 1 + dj))
  | 0 => by simp
  | n + 1 => by
    have ih := sum_sym_split f hf n
    rw [Finset.sum_range_succ, Finset.sum_range_succ (fun i => f i i + _)]
    simp only [Finset.sum_range_succ (fun j => f _ j), Finset.sum_add_distrib]
    rw [ih]
    have hcol : ∑ x ∈ range n, f n x = ∑ x ∈ range n, f x n :=
      Finset.sum_congr rfl (fun x _ => hf n x)
    have hinner : ∀ i ∈ range n, ∑ dj ∈ range (n + 1 - (i + 1)), 2 * f i (i + 1 + dj)
        = ∑ dj ∈ range (n - (i + 1)), 2 * f i (i + 1 + dj) + 2 * f i n := by
      intro i hi
      have hi' := mem_range.mp hi
      have e : n + 1 - (i + 1) = (n - (i + 1)) + 1 := by omega
      rw [e, Finset.sum_range_succ]
      congr 3
      omega
    rw [Finset.sum_congr rfl hinner, hcol]
    simp only [Finset.sum_add_distrib, Nat.sub_self, Finset.range_zero, Finset.sum_empty,
      ← Finset.mul_sum]
    ring

/-- `polynomial_norm² = Σ_{i,j} c_i c_j / (i + j + 1)` -/
theorem polynomialNormSq_eq_double_sum [CharZero K] (c : List K) :
    polynomialNormSq c =
      ∑ i ∈ range c.length, ∑ j ∈ range c.length, seq c i * seq c j / (((i + j : ℕ) : K) + 1) := by
  rw [polynomialNormSq_eq_sums,
    sum_sym_split (fun i j => seq c i * seq c j / (((i + j : ℕ) : K) + 1))
      (fun i j => by rw [mul_comm, Nat.add_comm])]
  apply Finset.sum_congr rfl
  intro i _
  congr 1
  · congr 1; push_cast; ring
  · apply Finset.sum_congr rfl
    intro dj _
    ring

/-- the formal integral over `[0, 1]`: `Σ a_k / (k + 1)`, as a linear functional on `K[X]` -/
noncomputable def formalInt : Polynomial K →ₗ[K] K :=
  Polynomial.lsum (fun k => (((k : K) + 1)⁻¹) • (LinearMap.id : K →ₗ[K] K))

theorem formalInt_monomial (k : ℕ) (a : K) : formalInt (Polynomial.monomial k a) = a / ((k : K) + 1) := by
  unfold formalInt
  rw [Polynomial.lsum_apply, Polynomial.sum_monomial_index] <;> simp [div_eq_inv_mul]

/-- `Σ c_k X^k` -/
noncomputable def listPoly (c : List K) : Polynomial K :=
  ∑ k ∈ range c.length, Polynomial.monomial k (seq c k)

theorem formalInt_sq [CharZero K] (c : List K) :
    formalInt (listPoly c * listPoly c) =
      ∑ i ∈ range c.length, ∑ j ∈ range c.length, seq c i * seq c j / (((i + j : ℕ) : K) + 1) := by
  unfold listPoly
  rw [Finset.sum_mul_sum, map_sum]
  apply Finset.sum_congr rfl
  intro i _
  rw [map_sum]
  apply Finset.sum_congr rfl
  intro j _
  rw [Polynomial.monomial_mul_monomial, formalInt_monomial]

end Field

section Ordered
variable {K : Type} [Field K] [LinearOrder K]

/-! ### `lu_companion`: the last pivot is the Horner value -/

theorem luLoop_succ (value a : K) (top : ℕ → K) (st0 : LUState K) (m : ℕ) :
    luLoop value a top st0 (m + 1) = luStep value a top (luLoop value a top st0 m) (m + 1) := by
  simp [luLoop, List.range_succ]

theorem luLoop_spec (value a : K) (top : ℕ → K) (st0 : LUState K) : ∀ m : ℕ,
    (luLoop value a top st0 m).horner =
        value ^ m * st0.horner + ∑ i ∈ range m, top (i + 1) * value ^ (m - 1 - i) ∧
    (luLoop value a top st0 m).hs.length = st0.hs.length + m
  | 0 => by simp [luLoop]
  | m + 1 => by
    obtain ⟨h1, h2⟩ := luLoop_spec value a top st0 m
    rw [luLoop_succ]
    constructor
    · show value * (luLoop value a top st0 m).horner + top (m + 1) = _
      rw [h1, Finset.sum_range_succ, mul_add, Finset.mul_sum]
      have : ∀ i ∈ range m, value * (top (i + 1) * value ^ (m - 1 - i)) = top (i + 1) * value ^ (m + 1 - 1 - i) := by
        intro i hi
        have hi' := mem_range.mp hi
        have e : m + 1 - 1 - i = (m - 1 - i) + 1 := by omega
        rw [e, pow_succ]; ring
      rw [Finset.sum_congr rfl this]
      simp
      ring
    · show ((luLoop value a top st0 m).hs ++ [_]).length = _
      rw [List.length_append, h2]; simp; ring

theorem luMatrix_last (d : ℕ) (hd : 1 ≤ d) (value : K) (hs : List K) :
    seq ((luMatrix d value hs).getD (d - 1) []) (d - 1) = seq hs (d - 1) := by
  unfold luMatrix
  rw [List.getD_eq_getElem?_getD, List.getElem?_map, List.getElem?_range (by omega)]
  simp only [Option.map_some, Option.getD_some, if_true]
  unfold seq
  rw [List.getD_eq_getElem?_getD, List.getElem?_map, List.getElem?_range (by omega)]
  simp

/-- the last pivot of the LU factors of `companion − value·I` is the Horner value
    `Σ_k top_k value^(d-1-k) − value^d` -/
theorem luCompanion_last_pivot (top : List K) (value : K) (hd : 1 ≤ top.length) :
    ∃ mat norm, luCompanion top value = .ok (mat, norm) ∧
      seq (mat.getD (top.length - 1) []) (top.length - 1) =
        ∑ k ∈ range top.length, seq top k * value ^ (top.length - 1 - k) - value ^ top.length := by
  unfold luCompanion
  rcases Nat.lt_or_ge top.length 2 with h | h
  · have h1 : top.length = 1 := by omega
    simp [h1, seq]
  · obtain ⟨m, hm⟩ : ∃ m, top.length = m + 2 := ⟨top.length - 2, by omega⟩
    simp only
    rw [if_neg (by omega), if_neg (by omega)]
    refine ⟨_, _, rfl, ?_⟩
    rw [luMatrix_last _ hd]
    obtain ⟨h1, h2⟩ := luLoop_spec value (1 + absK value) (seq top)
      { horner := seq top 0 - value, oneNorm := 1 + absK (seq top 0 - value), hs := [seq top 0 - value] } m
    rw [hm] at *
    simp only [Nat.add_sub_cancel] at *
    have hl : (luLoop value (1 + absK value) (seq top)
        { horner := seq top 0 - value, oneNorm := 1 + absK (seq top 0 - value), hs := [seq top 0 - value] } m).hs.length
        = m + 2 - 1 := by rw [h2]; simp; omega
    rw [← hl, seq_append_right, seq_cons_zero, h1, hl]
    rw [Finset.sum_range_succ' _ (m + 1), Finset.sum_range_succ]
    have e : ∀ i ∈ range m, seq top (i + 1) * value ^ (m + 2 - 1 - (i + 1)) = value * (seq top (i + 1) * value ^ (m - 1 - i)) := by
      intro i hi
      have hi' := mem_range.mp hi
      have e : m + 2 - 1 - (i + 1) = (m - 1 - i) + 1 := by omega
      rw [e, pow_succ]; ring
    rw [Finset.sum_congr rfl e, ← Finset.mul_sum]
    simp
    ring

end Ordered

section Field
variable {K : Type} [Field K]

/-- `lam · I − m` on the leading `n × n` part -/
def charMatrix (n : ℕ) (lam : K) (m : List (List K)) : List (List K) :=
  (List.range n).map (fun i => (List.range n).map (fun j =>
    (if i = j then lam else 0) - seq (m.getD i []) j))

theorem companion_charpoly_1 (s0 lam : K) :
    det 1 (charMatrix 1 lam (companionOfSigma [s0] 1)) = lam + s0 := by
  simp [det, charMatrix, companionOfSigma, unitVec, List.range_succ, altSign, seq]

theorem companion_charpoly_2 (s0 s1 lam : K) :
    det 2 (charMatrix 2 lam (companionOfSigma [s0, s1] 2)) = lam ^ 2 + s1 * lam + s0 := by
  simp [det, charMatrix, companionOfSigma, unitVec, List.range_succ, altSign, seq]
  ring

theorem companion_charpoly_3 (s0 s1 s2 lam : K) :
    det 3 (charMatrix 3 lam (companionOfSigma [s0, s1, s2] 3)) = lam ^ 3 + s2 * lam ^ 2 + s1 * lam + s0 := by
  simp [det, charMatrix, companionOfSigma, unitVec, List.range_succ, altSign, seq]
  ring

theorem companion_charpoly_4 (s0 s1 s2 s3 lam : K) :
    det 4 (charMatrix 4 lam (companionOfSigma [s0, s1, s2, s3] 4)) =
      lam ^ 4 + s3 * lam ^ 3 + s2 * lam ^ 2 + s1 * lam + s0 := by
  simp [det, charMatrix, companionOfSigma, unitVec, List.range_succ, altSign, seq]
  ring

end Field

/-! ### dispatch of `to_power_basis` -/

theorem pbKind_isSome_iff (a b : ℕ) :
    (pbKind a b).isSome ↔
      (a, b) ∈ [(2, 2), (2, 3), (2, 4), (2, 5), (3, 3), (3, 4), (3, 5), (4, 4)] := by
  unfold pbKind
  split <;> simp_all

theorem pbKind_none_iff (a b : ℕ) :
    pbKind a b = none ↔
      (a, b) ∉ [(2, 2), (2, 3), (2, 4), (2, 5), (3, 3), (3, 4), (3, 5), (4, 4)] := by
  rw [← pbKind_isSome_iff]; cases pbKind a b <;> simp

section Field
variable {K : Type} [Field K]

/-! ### list linear algebra behind the interpolation schemes -/

theorem foldl_zipWith_mul (x y : List K) : ∀ (init : K),
    (List.zipWith (· * ·) x y).foldl (· + ·) init =
      init + ∑ k ∈ range (min x.length y.length), seq x k * seq y k := by
  induction x generalizing y with
  | nil => intro init; simp
  | cons a l ih =>
    intro init
    cases y with
    | nil => simp
    | cons b m =>
      simp only [List.zipWith_cons_cons, List.foldl_cons, List.length_cons]
      rw [ih m, Nat.succ_min_succ, Finset.sum_range_succ']
      simp only [seq_cons_zero, seq_cons_succ]
      ring

theorem dot_eq_sum (x y : List K) (n : ℕ) (hx : x.length = n) (hy : y.length = n) :
    dot x y = ∑ k ∈ range n, seq x k * seq y k := by
  unfold dot
  rw [foldl_zipWith_mul, hx, hy, min_self, zero_add]

theorem polyval_eq_sum (p : List K) (t : K) :
    polyval p t = ∑ k ∈ range p.length, seq p k * t ^ k := by
  induction p with
  | nil => simp [polyval]
  | cons a l ih =>
    rw [polyval_cons, ih, List.length_cons, Finset.sum_range_succ', Finset.sum_mul]
    simp only [seq_cons_zero, seq_cons_succ, pow_zero, mul_one]
    rw [add_comm]
    congr 1
    apply Finset.sum_congr rfl
    intro k _
    rw [pow_succ]; ring

theorem seq_map (f : K → K) (l : List K) (j : ℕ) (hj : j < l.length) : seq (l.map f) j = f (seq l j) := by
  unfold seq
  rw [List.getD_eq_getElem?_getD, List.getD_eq_getElem?_getD, List.getElem?_map, List.getElem?_eq_getElem hj]
  rfl

theorem list_ext_seq (a b : List K) (h : a.length = b.length) (hs : ∀ j < a.length, seq a j = seq b j) : a = b := by
  apply List.ext_getElem h
  intro j h1 h2
  have := hs j h1
  unfold seq at this
  rw [List.getD_eq_getElem?_getD, List.getD_eq_getElem?_getD, List.getElem?_eq_getElem h1,
    List.getElem?_eq_getElem h2] at this
  exact this

/-- entry `(i, c)` of `M · V(nodes)` is `Σ_k M_ik t_k^c` -/
theorem matMul_vandermonde_entry (M : List (List K)) (nodes : List K) (n : ℕ) (hn : nodes.length = n)
    (i c : ℕ) (hi : i < M.length) (hc : c < n) (hrow : (M.getD i []).length = n) :
    seq ((matMul M (vandermonde nodes)).getD i []) c =
      ∑ k ∈ range n, seq (M.getD i []) k * seq nodes k ^ c := by
  have hn0 : 0 < n := by omega
  have hncols : ncols (vandermonde nodes) = n := by
    unfold ncols vandermonde
    cases nodes with
    | nil => simp at hn; omega
    | cons t ts => simp [hn]
  unfold matMul
  rw [List.getD_eq_getElem?_getD, List.getElem?_map, List.getElem?_eq_getElem hi]
  simp only [Option.map_some, Option.getD_some]
  unfold rowMul
  rw [hncols, seq_map_range n _ c hc]
  have hMi : M[i] = M.getD i [] := by
    rw [List.getD_eq_getElem?_getD, List.getElem?_eq_getElem hi]; rfl
  rw [hMi]
  have hcol : col (vandermonde nodes) c = nodes.map (fun t => t ^ c) := by
    unfold col vandermonde
    rw [List.map_map]
    apply List.map_congr_left
    intro t _
    simp only [Function.comp]
    have := getD_map_range nodes.length (fun k => powK t k) (0 : K) c (by omega)
    rw [this, powK_eq]
  rw [hcol, dot_eq_sum _ _ n hrow (by rw [List.length_map, hn])]
  apply Finset.sum_congr rfl
  intro k hk
  rw [seq_map (fun t => t ^ c) nodes k (by rw [hn]; exact mem_range.mp hk)]

theorem seq_scaled_identity (cst : K) (n i j : ℕ) (hi : i < n) (hj : j < n) :
    seq ((scaleMat cst (identity n : List (List K))).getD i []) j = if j = i then cst else 0 := by
  unfold scaleMat identity
  rw [List.map_map, List.getD_eq_getElem?_getD, List.getElem?_map, List.getElem?_range hi]
  simp only [Option.map_some, Option.getD_some, Function.comp, scaleRow, unitVec]
  rw [List.map_map, seq_map_range n _ j hj]
  simp only [Function.comp]
  split <;> simp

/-- **interpolation from the Vandermonde table fact**: if `M · V(nodes) = c · I` then for every
    polynomial `p` with `nodes.length` coefficients, `M` applied to the samples of `p` at the
    nodes is `c · p` -/
theorem matVec_samples_of_vandermonde (M : List (List K)) (nodes p : List K) (cst : K) (n : ℕ)
    (hn : nodes.length = n) (hp : p.length = n) (hM : M.length = n) (hrows : ∀ r ∈ M, r.length = n)
    (h : matMul M (vandermonde nodes) = scaleMat cst (identity n)) :
    matVec M (nodes.map (polyval p)) = p.map (fun a => cst * a) := by
  apply list_ext_seq
  · unfold matVec; rw [List.length_map, List.length_map, hM, hp]
  · intro i hi
    have hi' : i < n := by unfold matVec at hi; rw [List.length_map, hM] at hi; exact hi
    have hrow : (M.getD i []).length = n := by
      apply hrows
      rw [List.getD_eq_getElem?_getD, List.getElem?_eq_getElem (by omega)]
      exact List.getElem_mem _
    have hMi : M[i]'(by omega) = M.getD i [] := by
      rw [List.getD_eq_getElem?_getD, List.getElem?_eq_getElem (by omega)]; rfl
    unfold matVec
    unfold seq
    rw [List.getD_eq_getElem?_getD, List.getElem?_map, List.getElem?_eq_getElem (by omega)]
    simp only [Option.map_some, Option.getD_some]
    rw [hMi, dot_eq_sum _ _ n hrow (by rw [List.length_map, hn])]
    have e1 : ∀ k ∈ range n, seq (M.getD i []) k * seq (nodes.map (polyval p)) k =
        ∑ c ∈ range n, seq p c * (seq (M.getD i []) k * seq nodes k ^ c) := by
      intro k hk
      rw [seq_map (polyval p) nodes k (by rw [hn]; exact mem_range.mp hk), polyval_eq_sum, hp, Finset.mul_sum]
      apply Finset.sum_congr rfl
      intro c _; ring
    rw [Finset.sum_congr rfl e1, Finset.sum_comm]
    have e2 : ∀ c ∈ range n, ∑ k ∈ range n, seq p c * (seq (M.getD i []) k * seq nodes k ^ c) =
        seq p c * (if c = i then cst else 0) := by
      intro c hc
      rw [← Finset.mul_sum, ← matMul_vandermonde_entry M nodes n hn i c (by omega) (mem_range.mp hc) hrow, h,
        seq_scaled_identity cst n i c hi' (mem_range.mp hc)]
    rw [Finset.sum_congr rfl e2]
    simp only [mul_ite, mul_zero]
    rw [Finset.sum_ite_eq' (range n) i, if_pos (mem_range.mpr hi')]
    change _ = (p.map (fun a => cst * a)).getD i 0
    have := seq_map (fun a => cst * a) p i (by omega)
    unfold seq at this
    rw [this]; unfold seq; ring


theorem invVandermonde_rows (nodes : List K) : ∀ r ∈ invVandermonde nodes, r.length = nodes.length := by
  intro r hr
  unfold invVandermonde transpose at hr
  rw [List.mem_map] at hr
  obtain ⟨c, _, rfl⟩ := hr
  unfold col
  rw [List.length_map, List.length_map, List.length_range]

theorem scaleMat_one (m : List (List K)) : scaleMat 1 m = m := by
  unfold scaleMat scaleRow
  simp

/-- exact interpolation recovers the coefficients when `V⁻¹ V = I` holds for the nodes (a
    `Tables` fact for the extracted Chebyshev nodes) -/
theorem interpolate_samples (nodes p : List K) (n : ℕ) (hn : nodes.length = n) (hp : p.length = n)
    (hV : matMul (invVandermonde nodes) (vandermonde nodes) = identity n) :
    interpolate nodes (nodes.map (polyval p)) = p := by
  unfold interpolate
  have hlen : (invVandermonde nodes).length = n := by
    have := congrArg List.length hV
    unfold matMul identity at this
    rw [List.length_map, List.length_map, List.length_range] at this
    exact this
  have := matVec_samples_of_vandermonde (invVandermonde nodes) nodes p 1 n hn hp hlen
    (fun r hr => by rw [invVandermonde_rows nodes r hr, hn]) (by rw [scaleMat_one]; exact hV)
  rw [this]
  simp


end Field

section Field
variable {K : Type} [Field K]

/-! ### eigenvalues of the companion matrix are the roots of `q` (every size) -/

theorem seq_reverse (l : List K) (j : ℕ) (hj : j < l.length) : seq l.reverse j = seq l (l.length - 1 - j) := by
  unfold seq
  rw [List.getD_eq_getElem?_getD, List.getD_eq_getElem?_getD, List.getElem?_reverse hj]

/-- entries of `lam·I − companion` -/
theorem charMatrix_companion_entry (sc : List K) (e : ℕ) (hlen : sc.length = e) (lam : K)
    (i j : ℕ) (hi : i < e) (hj : j < e) :
    seq ((charMatrix e lam (companionOfSigma sc e)).getD i []) j =
      if i = 0 then (if j = 0 then lam else 0) + seq sc (e - 1 - j)
      else (if i = j then lam else 0) - (if j + 1 = i then 1 else 0) := by
  unfold charMatrix
  rw [List.getD_eq_getElem?_getD, List.getElem?_map, List.getElem?_range hi]
  simp only [Option.map_some, Option.getD_some]
  rw [seq_map_range e _ j hj]
  unfold companionOfSigma
  cases i with
  | zero =>
    simp only [List.getD_cons_zero, if_true]
    rw [seq_map (fun x => -x) sc.reverse j (by rw [List.length_reverse, hlen]; exact hj),
      seq_reverse sc j (by omega), hlen]
    by_cases h0 : j = 0
    · subst h0; simp
    · have : ¬ (0 = j) := fun h => h0 h.symm
      simp [h0, this]
  | succ i =>
    simp only [List.getD_cons_succ, Nat.succ_ne_zero, if_false]
    rw [List.getD_eq_getElem?_getD, List.getElem?_map, List.getElem?_range (by omega)]
    simp only [Option.map_some, Option.getD_some]
    unfold unitVec
    rw [seq_map_range e _ j hj]
    by_cases h1 : j = i
    · subst h1; simp
    · have : ¬ (j + 1 = i + 1) := by omega
      simp [h1, this]

/-- `(lam·I − C) · (lam^(e-1), …, lam, 1) = (q(lam), 0, …, 0)` -/
theorem charMatrix_companion_mulVec (sc : List K) (e : ℕ) (he : 1 ≤ e) (hlen : sc.length = e) (lam : K)
    (i : Fin e) :
    Matrix.mulVec (toMatrix e (charMatrix e lam (companionOfSigma sc e)))
        (fun k : Fin e => lam ^ (e - 1 - (k : ℕ))) i =
      if (i : ℕ) = 0 then lam ^ e + ∑ k ∈ range e, seq sc k * lam ^ k else 0 := by
  simp only [Matrix.mulVec, dotProduct, toMatrix]
  rw [Fin.sum_univ_eq_sum_range
    (fun j => seq ((charMatrix e lam (companionOfSigma sc e)).getD i []) j * lam ^ (e - 1 - j)) e]
  have hi := i.isLt
  have hent : ∀ j ∈ range e, seq ((charMatrix e lam (companionOfSigma sc e)).getD i []) j * lam ^ (e - 1 - j)
      = (if (i : ℕ) = 0 then (if j = 0 then lam else 0) + seq sc (e - 1 - j)
          else (if (i : ℕ) = j then lam else 0) - (if j + 1 = (i : ℕ) then 1 else 0)) * lam ^ (e - 1 - j) := by
    intro j hj
    rw [charMatrix_companion_entry sc e hlen lam i j hi (mem_range.mp hj)]
  rw [Finset.sum_congr rfl hent]
  by_cases h0 : (i : ℕ) = 0
  · simp only [h0, if_true, add_mul, Finset.sum_add_distrib]
    congr 1
    · rw [Finset.sum_eq_single 0]
      · simp only [if_true, Nat.sub_zero]
        rw [← pow_succ']; congr 1; omega
      · intro j _ hj; simp [hj]
      · intro h; exact absurd (mem_range.mpr (by omega)) h
    · rw [← Finset.sum_range_reflect]
      apply Finset.sum_congr rfl
      intro j hj
      have := mem_range.mp hj
      have e1 : e - 1 - (e - 1 - j) = j := by omega
      rw [e1]
  · simp only [h0, if_false, sub_mul, Finset.sum_sub_distrib]
    rw [Finset.sum_eq_single (i : ℕ), Finset.sum_eq_single ((i : ℕ) - 1)]
    · have h1 : (i : ℕ) - 1 + 1 = (i : ℕ) := by omega
      simp only [if_true, h1, one_mul]
      have h2 : e - 1 - ((i : ℕ) - 1) = (e - 1 - (i : ℕ)) + 1 := by omega
      rw [h2, pow_succ]; ring
    · intro j _ hj
      have : ¬ (j + 1 = (i : ℕ)) := by omega
      simp [this]
    · intro h; exact absurd (mem_range.mpr (by omega)) h
    · intro j _ hj
      have : ¬ ((i : ℕ) = j) := fun h => hj h.symm
      simp [this]
    · intro h; exact absurd (mem_range.mpr hi) h

/-- **every root of `q` is an eigenvalue of the companion matrix**, every size:
    `q(lam) = 0 → det (lam·I − companion) = 0` -/
theorem companion_root_is_eigenvalue (sc : List K) (e : ℕ) (he : 1 ≤ e) (hlen : sc.length = e) (lam : K)
    (hq : lam ^ e + ∑ k ∈ range e, seq sc k * lam ^ k = 0) :
    det e (charMatrix e lam (companionOfSigma sc e)) = 0 := by
  rw [det_eq_matrix_det]
  apply Matrix.exists_mulVec_eq_zero_iff.mp
  refine ⟨fun k : Fin e => lam ^ (e - 1 - (k : ℕ)), ?_, ?_⟩
  · intro h
    have := congrFun h ⟨e - 1, by omega⟩
    simp at this
  · ext i
    rw [charMatrix_companion_mulVec sc e he hlen lam i, hq]
    simp

/-- … and conversely: an eigenvalue of the companion matrix is a root of `q` -/
theorem companion_eigenvalue_is_root (sc : List K) (e : ℕ) (he : 1 ≤ e) (hlen : sc.length = e) (lam : K)
    (hdet : det e (charMatrix e lam (companionOfSigma sc e)) = 0) :
    lam ^ e + ∑ k ∈ range e, seq sc k * lam ^ k = 0 := by
  rw [det_eq_matrix_det] at hdet
  obtain ⟨w, hw0, hw⟩ := Matrix.exists_mulVec_eq_zero_iff.mpr hdet
  -- rows i+1: w_i = lam * w_{i+1}; hence w_k = lam^(e-1-k) * w_{e-1}
  set W : ℕ → K := fun k => if h : k < e then w ⟨k, h⟩ else 0 with hW
  have hsum : ∀ r : ℕ, (∑ j : Fin e, seq ((charMatrix e lam (companionOfSigma sc e)).getD r []) (j : ℕ) * w j)
      = ∑ j ∈ range e, seq ((charMatrix e lam (companionOfSigma sc e)).getD r []) j * W j := by
    intro r
    rw [← Fin.sum_univ_eq_sum_range
      (fun j => seq ((charMatrix e lam (companionOfSigma sc e)).getD r []) j * W j) e]
    apply Finset.sum_congr rfl
    intro j _
    simp only [hW, j.isLt, dif_pos]
  have hrow : ∀ i, i + 1 < e → W i = lam * W (i + 1) := by
    intro i hi
    have := congrFun hw ⟨i + 1, hi⟩
    simp only [Matrix.mulVec, dotProduct, toMatrix, Pi.zero_apply] at this
    rw [hsum (i + 1)] at this
    have hent : ∀ j ∈ range e, seq ((charMatrix e lam (companionOfSigma sc e)).getD (i + 1) []) j * W j
        = ((if i + 1 = j then lam else 0) - (if j + 1 = i + 1 then 1 else 0)) * W j := by
      intro j hj
      rw [charMatrix_companion_entry sc e hlen lam (i + 1) j hi (mem_range.mp hj), if_neg (Nat.succ_ne_zero i)]
    rw [Finset.sum_congr rfl hent] at this
    simp only [sub_mul, Finset.sum_sub_distrib] at this
    rw [Finset.sum_eq_single (i + 1), Finset.sum_eq_single i] at this
    · simp only [if_true, one_mul] at this
      linear_combination -this
    · intro j _ hj
      rw [if_neg (by omega), zero_mul]
    · intro h; exact absurd (mem_range.mpr (by omega)) h
    · intro j _ hj
      have : ¬ (i + 1 = j) := fun h => hj h.symm
      simp [this]
    · intro h; exact absurd (mem_range.mpr hi) h
  have hpow : ∀ d, d < e → W (e - 1 - d) = lam ^ d * W (e - 1) := by
    intro d
    induction d with
    | zero => intro _; simp
    | succ d ih =>
      intro hd
      have h1 : e - 1 - (d + 1) + 1 = e - 1 - d := by omega
      rw [hrow (e - 1 - (d + 1)) (by omega), h1, ih (by omega), pow_succ]; ring
  have hlast : W (e - 1) ≠ 0 := by
    intro h0
    apply hw0
    ext k
    have hk := k.isLt
    have := hpow (e - 1 - (k : ℕ)) (by omega)
    have e1 : e - 1 - (e - 1 - (k : ℕ)) = (k : ℕ) := by omega
    rw [e1, h0, mul_zero] at this
    simp only [hW, hk, dif_pos] at this
    exact this
  -- row 0
  have h0 := congrFun hw ⟨0, by omega⟩
  simp only [Matrix.mulVec, dotProduct, toMatrix, Pi.zero_apply] at h0
  rw [hsum 0] at h0
  have hent0 : ∀ j ∈ range e, seq ((charMatrix e lam (companionOfSigma sc e)).getD 0 []) j * W j
      = ((if j = 0 then lam else 0) + seq sc (e - 1 - j)) * (lam ^ (e - 1 - j) * W (e - 1)) := by
    intro j hj
    have hj' := mem_range.mp hj
    rw [charMatrix_companion_entry sc e hlen lam 0 j (by omega) hj', if_pos rfl]
    have := hpow (e - 1 - j) (by omega)
    have e1 : e - 1 - (e - 1 - j) = j := by omega
    rw [e1] at this
    rw [this]
  rw [Finset.sum_congr rfl hent0] at h0
  have key : (lam ^ e + ∑ k ∈ range e, seq sc k * lam ^ k) * W (e - 1) = 0 := by
    rw [← h0]
    simp only [add_mul, Finset.sum_add_distrib]
    congr 1
    · rw [Finset.sum_eq_single 0]
      · simp only [if_true, Nat.sub_zero]
        have hp : lam ^ e = lam * lam ^ (e - 1) := by rw [← pow_succ']; congr 1; omega
        rw [hp]; ring
      · intro j _ hj; simp [hj]
      · intro h; exact absurd (mem_range.mpr (by omega)) h
    · rw [Finset.sum_mul, ← Finset.sum_range_reflect]
      apply Finset.sum_congr rfl
      intro j _
      ring
  exact (mul_eq_zero.mp key).resolve_right hlast


end Field

end BezierVerif.AlgLemmas
