import BezierVerif.Lemmas.Algebraic
import Mathlib.Analysis.SpecialFunctions.Integrals.Basic
import Mathlib.Algebra.Polynomial.Inductions
import Mathlib.Topology.Algebra.Polynomial

/-!
# Lemmas/AlgebraicIntegral — the formal integral `Σ a_k/(k+1)` is the integral over `[0, 1]` (K = ℝ)
-/

namespace BezierVerif.AlgLemmas

open Finset Model Model.Alg

theorem formalInt_eq_integral (p : Polynomial ℝ) : formalInt p = ∫ x in (0:ℝ)..1, p.eval x := by
  induction p using Polynomial.induction_on' with
  | add p q hp hq =>
    rw [map_add, hp, hq]
    simp only [Polynomial.eval_add]
    rw [intervalIntegral.integral_add]
    · exact (Polynomial.continuous p).intervalIntegrable _ _
    · exact (Polynomial.continuous q).intervalIntegrable _ _
  | monomial n a =>
    rw [formalInt_monomial]
    simp only [Polynomial.eval_monomial]
    rw [intervalIntegral.integral_const_mul, integral_pow]
    simp
    ring

theorem listPoly_eval (c : List ℝ) (x : ℝ) :
    (listPoly c).eval x = ∑ k ∈ range c.length, seq c k * x ^ k := by
  unfold listPoly
  rw [Polynomial.eval_finsetSum]
  simp [Polynomial.eval_monomial]

end BezierVerif.AlgLemmas
