import BezierVerif.Model.AlgebraicAssembly
import BezierVerif.Lemmas.Resultant
import Mathlib.Algebra.Polynomial.RingDivision
import Mathlib.Algebra.Polynomial.Div
import Mathlib.Algebra.Squarefree.Basic
import Mathlib.Algebra.Order.Field.Basic
import Mathlib.Tactic.Ring
import Mathlib.Tactic.Linarith

/-!
# Lemmas/AlgebraicSound — helpers for the soundness / completeness theorems of the algebraic strategy

* `polyval` under scaling, complex Horner evaluation on pairs (`cpolyval`), exactness predicate `ExactEig`
  of the root oracle at one coefficient list, `NoNearReal`, `ExactLocate`, `CompleteLocate`;
* membership and multiplicity in `unitIntervalFilter`;
* inversion of `intersectCurvesPrepare` (`prepare_inv`), roots survive `normalize_polynomial`;
* `newton_refine` is the identity at an exact solution; the loop of `intersect_curves` as a `filterMap`
  (`stepPair`, `loop_spec`);
* the error inventory of every stage (`fullReduce`, `locatePoint`, `resolveAndAdd`, the loop).
-/

set_option linter.unusedSectionVars false
set_option linter.unusedVariables false

namespace BezierVerif.AlgSound

open Model Model.Alg Polynomial BezierVerif.AlgLemmas BezierVerif.ResLemmas

/-! ### `polyval` under scaling; complex Horner evaluation -/

section Field
variable {K : Type} [Field K]

theorem polyval_map_mul (c : K) (p : List K) (t : K) :
    polyval (p.map (fun a => c * a)) t = c * polyval p t := by
  induction p with
  | nil => simp [polyval_nil]
  | cons a l ih => rw [List.map_cons, polyval_cons, polyval_cons, ih]; ring

theorem polyval_divRow (p : List K) (l t : K) : polyval (divRow p l) t = polyval p t / l := by
  unfold divRow
  induction p with
  | nil => simp [polyval_nil]
  | cons a r ih => rw [List.map_cons, polyval_cons, polyval_cons, ih]; ring

/-- complex multiplication on pairs `(re, im)` -/
def cmul (z w : K × K) : K × K := (z.1 * w.1 - z.2 * w.2, z.1 * w.2 + z.2 * w.1)

/-- Horner evaluation of a real coefficient list at a complex number (pairs `(re, im)`) -/
def cpolyval (c : List K) (z : K × K) : K × K :=
  c.foldr (fun a acc => (a + (cmul acc z).1, (cmul acc z).2)) (0, 0)

theorem cpolyval_real (c : List K) (r : K) : cpolyval c (r, 0) = (polyval c r, 0) := by
  induction c with
  | nil => rfl
  | cons a l ih =>
    have : cpolyval (a :: l) (r, 0) = (a + (cmul (cpolyval l (r, 0)) (r, 0)).1, (cmul (cpolyval l (r, 0)) (r, 0)).2) := rfl
    rw [this, ih, polyval_cons]
    simp [cmul]

theorem listPoly_ne_zero (c : List K) (h : ∃ j, j < c.length ∧ seq c j ≠ 0) : listPoly c ≠ 0 := by
  obtain ⟨j, hj, hne⟩ := h
  intro h0
  have := coeff_listPoly c j hj
  rw [h0, coeff_zero] at this
  exact hne this.symm

theorem exists_seq_ne_zero_of_not_all (c : List K) [DecidableEq K]
    (h : ¬ (c.all (fun x => decide (x = 0)) = true)) : ∃ j, j < c.length ∧ seq c j ≠ 0 := by
  rw [List.all_eq_true] at h
  push Not at h
  obtain ⟨x, hx, hne⟩ := h
  obtain ⟨j, hj, rfl⟩ := List.getElem_of_mem hx
  refine ⟨j, hj, ?_⟩
  have : seq c j = c[j] := by simp [seq, List.getD_eq_getElem?_getD, List.getElem?_eq_getElem hj]
  rw [this]
  simpa using hne

/-- a square-free polynomial has only simple roots -/
theorem rootMultiplicity_le_one_of_squarefree {p : K[X]} (hp : Squarefree p) (r : K) :
    p.rootMultiplicity r ≤ 1 := by
  by_contra h
  push Not at h
  have hd : (X - C r) ^ 2 ∣ p := dvd_trans (pow_dvd_pow _ h) (pow_rootMultiplicity_dvd p r)
  rw [pow_two] at hd
  have hu := hp _ hd
  exact not_isUnit_X_sub_C r hu

end Field

/-! ### exactness predicates -/

section Ordered
variable {K : Type} [Field K] [LinearOrder K] [IsStrictOrderedRing K]

/-- the root oracle (`numpy.polynomial.polynomial.polyroots` = eigenvalues of numpy's companion matrix) is
    EXACT at the coefficient list `c`: every returned complex number is a root (complex Horner evaluation on
    pairs), and every real number occurs as `(r, 0)` exactly as often as its multiplicity as a root of
    `Σ c_k X^k` (so non-roots do not occur) -/
structure ExactEig (ext : Externals K) (c : List K) : Prop where
  sound : ∀ z ∈ ext.polyroots c, cpolyval c z = (0, 0)
  mult : ∀ r : K, (ext.polyroots c).count (r, 0) = (listPoly c).rootMultiplicity r

/-- no returned non-real root passes the window of `roots_in_unit_interval` (real part strictly between the
    two wiggle bounds, `|im| < _IMAGINARY_WIGGLE`) — otherwise its real part would be kept as a "root" -/
def NoNearReal (par : Params K) (roots : List (K × K)) : Prop :=
  ∀ z ∈ roots, par.wiggleStart < z.1 → z.1 < par.wiggleEnd → Alg.absK z.2 < par.imagWiggle → z.2 = 0

/-- at the points `B₂(t)`, `t ∈ ts`, `locate_point` on curve 1 only answers with a true pre-image.
    (Not a consequence of exact roots: the model's `locate_point` accepts `|f₂(s)| < _ZERO_THRESHOLD` after an L2
    normalisation that zeroes `f₂` when its norm is below `_L2_THRESHOLD`; see the decided example
    `locate accepts a point off the curve` in `Props/C15Algebraic`.) -/
def ExactLocate (ext : Externals K) (par : Params K) (nodes1 nodes2 : List (List K)) (ts : List K) : Prop :=
  ∀ t ∈ ts, ∀ s,
    locatePoint ext par nodes1 (seq (evalPoint par.vsThr nodes2 t) 0) (seq (evalPoint par.vsThr nodes2 t) 1)
      = .ok (some s) →
    evalPoint par.vsThr nodes1 s = [seq (evalPoint par.vsThr nodes2 t) 0, seq (evalPoint par.vsThr nodes2 t) 1]

/-- `locate_point` answers at the point `pt` of curve 1 -/
def LocateAnswers (ext : Externals K) (par : Params K) (nodes1 : List (List K)) (pt : List K) : Prop :=
  ∃ s', locatePoint ext par nodes1 (seq pt 0) (seq pt 1) = .ok (some s')

theorem absK_zero : Alg.absK (0 : K) = 0 := by simp [Alg.absK]

theorem ExactEig.real_root {ext : Externals K} {c : List K} (h : ExactEig ext c) (r : K)
    (hr : (r, (0 : K)) ∈ ext.polyroots c) : polyval c r = 0 := by
  have := h.sound _ hr
  rw [cpolyval_real] at this
  exact (Prod.mk.inj this).1

theorem ExactEig.mem_of_root {ext : Externals K} {c : List K} (h : ExactEig ext c)
    (hc : listPoly c ≠ 0) (r : K) (hr : polyval c r = 0) : (r, (0 : K)) ∈ ext.polyroots c := by
  have hm := h.mult r
  have hpos : 0 < (listPoly c).rootMultiplicity r :=
    (rootMultiplicity_pos hc).mpr (by rw [IsRoot, eval_listPoly]; exact hr)
  rw [← hm] at hpos
  exact List.count_pos_iff.mp hpos

theorem ExactEig.count_eq_one {ext : Externals K} {c : List K} (h : ExactEig ext c)
    (hc : listPoly c ≠ 0) (hsq : Squarefree (listPoly c)) (r : K) (hr : polyval c r = 0) :
    (ext.polyroots c).count (r, (0 : K)) = 1 := by
  have hm := h.mult r
  have hpos : 0 < (listPoly c).rootMultiplicity r :=
    (rootMultiplicity_pos hc).mpr (by rw [IsRoot, eval_listPoly]; exact hr)
  have hle := rootMultiplicity_le_one_of_squarefree hsq r
  omega

/-! ### `roots_in_unit_interval` -/

theorem mem_unitIntervalFilter (par : Params K) (roots : List (K × K)) (t : K) :
    t ∈ unitIntervalFilter par roots ↔
      ∃ z ∈ roots, z.1 = t ∧ par.wiggleStart < z.1 ∧ z.1 < par.wiggleEnd ∧ Alg.absK z.2 < par.imagWiggle := by
  unfold unitIntervalFilter
  simp only [List.mem_map, List.mem_filter, Bool.and_eq_true, decide_eq_true_eq]
  constructor
  · rintro ⟨z, ⟨⟨hz, h1, h2⟩, h3⟩, rfl⟩
    exact ⟨z, hz, rfl, h1, h2, h3⟩
  · rintro ⟨z, hz, rfl, h1, h2, h3⟩
    exact ⟨z, ⟨⟨hz, h1, h2⟩, h3⟩, rfl⟩

/-- a real number of the window is kept exactly as often as it occurs as `(t, 0)` among the roots, provided no
    non-real root passes the window -/
theorem count_unitIntervalFilter (par : Params K) (roots : List (K × K)) (hnr : NoNearReal par roots)
    (himag : 0 < par.imagWiggle) (t : K) (h1 : par.wiggleStart < t) (h2 : t < par.wiggleEnd) :
    (unitIntervalFilter par roots).count t = roots.count (t, 0) := by
  unfold unitIntervalFilter
  rw [List.count_eq_countP, List.countP_map, List.countP_filter, List.countP_filter, List.count_eq_countP]
  apply List.countP_congr
  intro z hz
  simp only [Function.comp, beq_iff_eq, Bool.and_eq_true, decide_eq_true_eq]
  constructor
  · rintro ⟨⟨hzt, h3⟩, h4, h5⟩
    have := hnr z hz h4 h5 h3
    exact Prod.ext hzt this
  · rintro rfl
    exact ⟨⟨rfl, by simpa [absK_zero] using himag⟩, h1, h2⟩

/-! ### inversion of `intersect_curves` up to the root finding -/

theorem prepare_inv (ext : Externals K) (par : Params K) (A B : List (List K)) (p : Prepared K)
    (h : intersectCurvesPrepare ext par A B = .ok p) :
    ∃ r1 r2 raw, fullReduce par.reduceThrSq A = .ok r1 ∧ fullReduce par.reduceThrSq B = .ok r2 ∧
      p.swapped = decide (ncols r1 > ncols r2) ∧
      p.nodes1 = (if decide (ncols r1 > ncols r2) = true then r2 else r1) ∧
      p.nodes2 = (if decide (ncols r1 > ncols r2) = true then r1 else r2) ∧
      toPowerBasis ext par p.nodes1 p.nodes2 = .ok raw ∧
      p.coeffs = normalizePolynomial par.l2ThrSq (ext.sqrt (polynomialNormSq raw)) raw ∧
      ¬ (p.coeffs.all (fun x => decide (x = 0)) = true) ∧ checkNonSimple ext par p.coeffs = .ok () := by
  unfold intersectCurvesPrepare at h
  split at h
  · cases h
  · next r1 h1 =>
    split at h
    · cases h
    · next r2 h2 =>
      dsimp only at h
      split at h
      · cases h
      · next raw hraw =>
        split at h
        · cases h
        · next hnz =>
          split at h
          · cases h
          · next hcs =>
            injection h with h
            subst h
            exact ⟨r1, r2, raw, h1, h2, rfl, rfl, rfl, hraw, rfl, hnz, hcs⟩

/-- the roots of the intersection polynomial survive `normalize_polynomial` whenever `intersect_curves` does
    not stop with "coincident curves" (in particular the external `sqrt` did not return `0`) -/
theorem normalize_roots (thrSq l2 : K) (raw : List K)
    (hnz : ¬ ((normalizePolynomial thrSq l2 raw).all (fun x => decide (x = 0)) = true)) (t : K) :
    polyval (normalizePolynomial thrSq l2 raw) t = 0 ↔ polyval raw t = 0 := by
  unfold normalizePolynomial at hnz ⊢
  split_ifs at hnz ⊢ with hsmall
  · exact absurd (by simp) hnz
  · have hl : l2 ≠ 0 := by
      rintro rfl
      apply hnz
      simp [divRow]
    rw [polyval_divRow, div_eq_zero_iff]
    constructor
    · rintro (h | h)
      · exact h
      · exact absurd h hl
    · exact Or.inl

/-! ### the Newton polish at an exact solution, `_resolve_and_add`, the loop -/

theorem subRow_self_all_zero (l : List K) : (subRow l l).all (fun v => decide (v = 0)) = true := by
  unfold subRow
  induction l with
  | nil => rfl
  | cons a r ih => simpa using ih

/-- `newton_refine` returns its arguments when `B₁(s) = B₂(t)` exactly (the `np.all(func_val == 0.0)` exit) -/
theorem newtonRefineCurves_fixed (thr : ℕ) (s t : K) (n1 n2 : List (List K))
    (h : evalPoint thr n1 s = evalPoint thr n2 t) : newtonRefineCurves thr s n1 t n2 = .ok (s, t) := by
  unfold newtonRefineCurves
  rw [h]
  dsimp only
  rw [if_pos (subRow_self_all_zero _)]

/-- what one pass of the loop body appends (`none`: nothing appended or an exception) -/
def stepPair (ext : Externals K) (par : Params K) (w : K) (n1 n2 : List (List K)) (t : K) : Option (K × K) :=
  match locatePoint ext par n1 (seq (evalPoint par.vsThr n2 t) 0) (seq (evalPoint par.vsThr n2 t) 1) with
  | .ok (some s) =>
    match newtonRefineCurves par.vsThr s n1 t n2 with
    | .ok (s', t') =>
      match wiggleInterval w s', wiggleInterval w t' with
      | some a, some b => some (a, b)
      | _, _ => none
    | .error _ => none
  | _ => none

/-- a successful run of the loop appends exactly the `stepPair`s, in the order of the `t`-roots, to both lists -/
theorem loop_spec (ext : Externals K) (par : Params K) (w : K) (n1 n2 : List (List K)) :
    ∀ (ts : List K) (acc acc' : List K × List K),
      intersectLoop ext par w n1 n2 ts acc = .ok acc' → acc.1.length = acc.2.length →
      acc'.1.length = acc'.2.length ∧
        acc'.1.zip acc'.2 = acc.1.zip acc.2 ++ ts.filterMap (stepPair ext par w n1 n2) := by
  intro ts
  induction ts with
  | nil =>
    intro acc acc' h hl
    simp only [intersectLoop] at h
    injection h with h
    subst h
    exact ⟨hl, by simp⟩
  | cons t rest ih =>
    intro acc acc' h hl
    simp only [intersectLoop] at h
    rw [List.filterMap_cons]
    split at h
    · cases h
    · next hloc =>
      have hst : stepPair ext par w n1 n2 t = none := by simp only [stepPair, hloc]
      rw [hst]
      exact ih acc acc' h hl
    · next s hloc =>
      unfold resolveAndAdd at h
      split at h
      · cases h
      · next accN hres =>
        split at hres
        · cases hres
        · next s' t' hnr =>
          split at hres
          · next a b ha hb =>
            injection hres with hres
            subst hres
            have hst : stepPair ext par w n1 n2 t = some (a, b) := by simp only [stepPair, hloc, hnr, ha, hb]
            rw [hst]
            obtain ⟨h1, h2⟩ := ih _ acc' h (by simp [hl])
            refine ⟨h1, ?_⟩
            rw [h2]
            dsimp only
            rw [List.zip_append hl]
            simp
          · next hno =>
            injection hres with hres
            subst hres
            have hst : stepPair ext par w n1 n2 t = none := by
              simp only [stepPair, hloc, hnr]
            rw [hst]
            exact ih acc acc' h hl

/-- when `locate_point` is exact at `B₂(t)` the Newton polish is the identity inside the loop body: the appended
    pair is the snapped `(locate(B₂(t)), t)` -/
theorem stepPair_exact (ext : Externals K) (par : Params K) (w : K) (n1 : List (List K)) (xs2 ys2 : List K)
    (ts : List K) (hloc : ExactLocate ext par n1 [xs2, ys2] ts) (t : K) (ht : t ∈ ts) (a b : K) :
    stepPair ext par w n1 [xs2, ys2] t = some (a, b) ↔
      ∃ s, locatePoint ext par n1 (seq (evalPoint par.vsThr [xs2, ys2] t) 0)
          (seq (evalPoint par.vsThr [xs2, ys2] t) 1) = .ok (some s) ∧
        evalPoint par.vsThr n1 s = evalPoint par.vsThr [xs2, ys2] t ∧
        wiggleInterval w s = some a ∧ wiggleInterval w t = some b := by
  have hshape : ∀ t, evalPoint par.vsThr [xs2, ys2] t =
      [seq (evalPoint par.vsThr [xs2, ys2] t) 0, seq (evalPoint par.vsThr [xs2, ys2] t) 1] := fun _ => rfl
  unfold stepPair
  constructor
  · intro h
    split at h
    · next s hl =>
      have hpt := (hloc t ht s hl).trans (hshape t).symm
      rw [newtonRefineCurves_fixed _ _ _ _ _ hpt] at h
      dsimp only at h
      split at h
      · next a' b' ha hb =>
        injection h with h
        injection h with h1 h2
        subst h1; subst h2
        exact ⟨s, hl, hpt, ha, hb⟩
      · cases h
    · cases h
  · rintro ⟨s, hl, hpt, ha, hb⟩
    rw [hl]
    dsimp only
    rw [newtonRefineCurves_fixed _ _ _ _ _ hpt]
    dsimp only
    rw [ha, hb]

/-! ### error inventory of the stages -/

theorem canReduce_error (thrSq : K) (nodes : List (List K)) (e : Err)
    (h : canReduce thrSq nodes = .error e) : e = .unsupportedDegree := by
  unfold canReduce at h
  dsimp only at h
  split_ifs at h
  split at h
  · injection h with h; exact h.symm
  · cases h

theorem reducePinv_error (nodes : List (List K)) (e : Err) (h : reducePinv nodes = .error e) :
    e = .unsupportedDegree := by
  unfold reducePinv at h
  split at h
  · cases h
  · injection h with h; exact h.symm

theorem fullReduce_go_error (thrSq : K) (e : Err) : ∀ (fuel : ℕ) (cur : List (List K)),
    fullReduce.go thrSq fuel cur = .error e → e = .unsupportedDegree := by
  intro fuel
  induction fuel with
  | zero => intro cur h; simp [fullReduce.go] at h
  | succ n ih =>
    intro cur h
    simp only [fullReduce.go] at h
    split at h
    · next e' he => injection h with h; subst h; exact canReduce_error _ _ _ he
    · cases h
    · split at h
      · next e' he => injection h with h; subst h; exact reducePinv_error _ _ he
      · exact ih _ h

/-- `full_reduce` only raises `UnsupportedDegree` (from `reduce_pseudo_inverse` / the projection table) -/
theorem fullReduce_error (thrSq : K) (nodes : List (List K)) (e : Err)
    (h : fullReduce thrSq nodes = .error e) : e = .unsupportedDegree :=
  fullReduce_go_error thrSq e _ _ h

theorem polyToPowerBasis_error (c : List K) (e : Err) (h : polyToPowerBasis c = .error e) :
    e = .unsupportedDegree := by
  unfold polyToPowerBasis at h
  split at h <;> first | (cases h; done) | (cases h; rfl)

/-- `locate_point` only raises `UnsupportedDegree` -/
theorem locatePoint_error (ext : Externals K) (par : Params K) (nodes : List (List K)) (x y : K) (e : Err)
    (h : locatePoint ext par nodes x y = .error e) : e = .unsupportedDegree := by
  unfold locatePoint at h
  split at h
  · next e' _ he => injection h with h; subst h; exact fullReduce_error _ _ _ he
  · next e' he _ => injection h with h; subst h; exact fullReduce_error _ _ _ he
  · dsimp only at h
    split at h
    · next e' he => injection h with h; subst h; exact polyToPowerBasis_error _ _ he
    · split at h
      · cases h
      · split at h
        · next e' he => injection h with h; subst h; exact polyToPowerBasis_error _ _ he
        · split at h <;> cases h

theorem newtonRefineCurves_error (thr : ℕ) (s t : K) (n1 n2 : List (List K)) (e : Err)
    (h : newtonRefineCurves thr s n1 t n2 = .error e) : e = .valueError := by
  unfold newtonRefineCurves at h
  dsimp only at h
  split_ifs at h
  split at h
  · injection h with h; exact h.symm
  · cases h

/-- `_resolve_and_add` only raises `ValueError` (singular Jacobian in `newton_refine`) -/
theorem resolveAndAdd_error (thr : ℕ) (w : K) (n1 n2 : List (List K)) (s t : K) (fs ft : List K) (e : Err)
    (h : resolveAndAdd thr w n1 s fs n2 t ft = .error e) : e = .valueError := by
  unfold resolveAndAdd at h
  split at h
  · next e' he => injection h with h; subst h; exact newtonRefineCurves_error _ _ _ _ _ _ he
  · split at h <;> cases h

/-- the loop of `intersect_curves` raises only what `locate_point` (`UnsupportedDegree`) or the Newton polish
    (`ValueError`) raise -/
theorem loop_error (ext : Externals K) (par : Params K) (w : K) (n1 n2 : List (List K)) (e : Err) :
    ∀ (ts : List K) (acc : List K × List K), intersectLoop ext par w n1 n2 ts acc = .error e →
      (e = .unsupportedDegree ∧ ∃ t ∈ ts, locatePoint ext par n1 (seq (evalPoint par.vsThr n2 t) 0)
        (seq (evalPoint par.vsThr n2 t) 1) = .error e) ∨
      (e = .valueError ∧ ∃ t ∈ ts, ∃ s, locatePoint ext par n1 (seq (evalPoint par.vsThr n2 t) 0)
        (seq (evalPoint par.vsThr n2 t) 1) = .ok (some s) ∧
        newtonRefineCurves par.vsThr s n1 t n2 = .error .valueError) := by
  intro ts
  induction ts with
  | nil => intro acc h; simp [intersectLoop] at h
  | cons t rest ih =>
    intro acc h
    simp only [intersectLoop] at h
    have lift : ∀ {P : K → Prop}, (∃ t' ∈ rest, P t') → ∃ t' ∈ t :: rest, P t' := by
      rintro P ⟨t', ht', hp⟩
      exact ⟨t', List.mem_cons_of_mem _ ht', hp⟩
    split at h
    · next e' he =>
      injection h with h; subst h
      exact Or.inl ⟨locatePoint_error _ _ _ _ _ _ he, t, List.mem_cons_self, he⟩
    · rcases ih _ h with ⟨h1, h2⟩ | ⟨h1, h2⟩
      · exact Or.inl ⟨h1, lift h2⟩
      · exact Or.inr ⟨h1, lift h2⟩
    · next s hloc =>
      split at h
      · next e' he =>
        injection h with h; subst h
        have hv := resolveAndAdd_error _ _ _ _ _ _ _ _ _ he
        subst hv
        refine Or.inr ⟨rfl, t, List.mem_cons_self, s, hloc, ?_⟩
        unfold resolveAndAdd at he
        split at he
        · next e'' he' =>
          injection he with he; subst he; exact he'
        · split at he <;> cases he
      · rcases ih _ h with ⟨h1, h2⟩ | ⟨h1, h2⟩
        · exact Or.inl ⟨h1, lift h2⟩
        · exact Or.inr ⟨h1, lift h2⟩

theorem stripRev_error (thr : K) (e : Err) : ∀ l : List K, stripRev thr l = .error e →
    e = .badInput ∧ ∀ x ∈ l, Alg.absK x < thr := by
  intro l
  induction l with
  | nil => intro h; simp only [stripRev] at h; injection h with h; exact ⟨h.symm, by simp⟩
  | cons x rest ih =>
    intro h
    simp only [stripRev] at h
    split_ifs at h with hx
    obtain ⟨h1, h2⟩ := ih h
    refine ⟨h1, ?_⟩
    intro y hy
    rcases List.mem_cons.mp hy with rfl | hy
    · exact hx
    · exact h2 y hy

/-- `_check_non_simple` raises `NotImplementedError` (rank deficient) or the `IndexError` of
    `_strip_leading_zeros` running off an array whose entries are all below `_COEFFICIENT_THRESHOLD` -/
theorem checkNonSimple_error (ext : Externals K) (par : Params K) (coeffs : List K) (e : Err)
    (h : checkNonSimple ext par coeffs = .error e) :
    (e = .badInput ∧ ∀ x ∈ coeffs, Alg.absK x < par.coeffThr) ∨
    (e = .notImplemented ∧ ∃ cs, stripLeadingZeros par.coeffThr coeffs = .ok cs ∧ 3 ≤ cs.length ∧
      (if (polyCompanionT (polyder cs)).length = 1 then
          (if par.nonSimpleThr < Alg.absK (seq ((polyAtMatrix cs (polyCompanionT (polyder cs))).headD []) 0)
            then 1 else 0)
        else ext.rank (polyAtMatrix cs (polyCompanionT (polyder cs))))
        < (polyCompanionT (polyder cs)).length) := by
  unfold checkNonSimple at h
  split at h
  · next e' he =>
    injection h with h; subst h
    unfold stripLeadingZeros at he
    split at he
    · cases he
    · next e'' he' =>
      injection he with he; subst he
      obtain ⟨h1, h2⟩ := stripRev_error _ _ _ he'
      exact Or.inl ⟨h1, fun x hx => h2 x (List.mem_reverse.mpr hx)⟩
  · next cs hcs =>
    split_ifs at h with h3
    dsimp only at h
    by_cases hr : (if (polyCompanionT (polyder cs)).length = 1 then
          (if par.nonSimpleThr < Alg.absK (seq ((polyAtMatrix cs (polyCompanionT (polyder cs))).headD []) 0)
            then 1 else 0)
        else ext.rank (polyAtMatrix cs (polyCompanionT (polyder cs))))
        < (polyCompanionT (polyder cs)).length
    · rw [if_pos hr] at h
      injection h with h
      exact Or.inr ⟨h.symm, cs, hcs, by omega, hr⟩
    · rw [if_neg hr] at h
      cases h

/-- inside the dispatch table `to_power_basis` always answers (`evaluate` is total on 2, 3, 4 nodes) -/
theorem toPowerBasis_error (ext : Externals K) (par : Params K) (nodes1 nodes2 : List (List K)) (e : Err)
    (h : toPowerBasis ext par nodes1 nodes2 = .error e) :
    e = .notImplemented ∧ pbKind (ncols nodes1) (ncols nodes2) = none := by
  unfold toPowerBasis at h
  cases hk : pbKind (ncols nodes1) (ncols nodes2) with
  | none => rw [hk] at h; injection h with h; exact ⟨h.symm, rfl⟩
  | some k =>
    exfalso
    rw [hk] at h
    have hn1 : ncols nodes1 = 2 ∨ ncols nodes1 = 3 ∨ ncols nodes1 = 4 := by
      have := (pbKind_isSome_iff (ncols nodes1) (ncols nodes2)).mp (by rw [hk]; rfl)
      simp only [List.mem_cons, Prod.mk.injEq, List.mem_nil_iff, or_false] at this
      omega
    have hev : ∀ t, ∃ v, evalIntersectionPolynomial par.vsThr nodes1 nodes2 t = .ok v := by
      intro t
      unfold evalIntersectionPolynomial evaluate
      rcases hn1 with h' | h' | h' <;> rw [h'] <;> exact ⟨_, rfl⟩
    have hmap : ∀ l : List K, ∃ vs, mapE (evalIntersectionPolynomial par.vsThr nodes1 nodes2) l = .ok vs := by
      intro l
      induction l with
      | nil => exact ⟨[], rfl⟩
      | cons a rest ih =>
        obtain ⟨v, hv⟩ := hev a
        obtain ⟨vs, hvs⟩ := ih
        exact ⟨v :: vs, by rw [mapE, hv, hvs]⟩
    cases k <;> simp only [pbApply] at h
    · obtain ⟨vs, hvs⟩ := hmap pbNodes11; rw [hvs] at h; cases h
    · obtain ⟨vs, hvs⟩ := hmap pbNodes12; rw [hvs] at h; cases h
    · obtain ⟨vs, hvs⟩ := hmap pbNodes13; rw [hvs] at h; cases h
    · obtain ⟨vs, hvs⟩ := hmap pbNodes4; rw [hvs] at h; cases h
    · obtain ⟨vs, hvs⟩ := hmap par.cheb7; rw [hvs] at h; cases h
    · obtain ⟨vs, hvs⟩ := hmap par.cheb9; rw [hvs] at h; cases h
    · obtain ⟨vs, hvs⟩ := hmap par.cheb10; rw [hvs] at h; cases h

/-- every way `intersect_curves` can stop before the root finding -/
theorem prepare_error (ext : Externals K) (par : Params K) (A B : List (List K)) (e : Err)
    (h : intersectCurvesPrepare ext par A B = .error e) :
    (e = .unsupportedDegree ∧ (fullReduce par.reduceThrSq A = .error e ∨
      fullReduce par.reduceThrSq B = .error e)) ∨
    ∃ r1 r2, fullReduce par.reduceThrSq A = .ok r1 ∧ fullReduce par.reduceThrSq B = .ok r2 ∧
      ((e = .notImplemented ∧ pbKind (min (ncols r1) (ncols r2)) (max (ncols r1) (ncols r2)) = none) ∨
       ∃ raw, toPowerBasis ext par (if decide (ncols r1 > ncols r2) = true then r2 else r1)
            (if decide (ncols r1 > ncols r2) = true then r1 else r2) = .ok raw ∧
          ((e = .notImplemented ∧
              (normalizePolynomial par.l2ThrSq (ext.sqrt (polynomialNormSq raw)) raw).all
                (fun x => decide (x = 0)) = true) ∨
           (¬ ((normalizePolynomial par.l2ThrSq (ext.sqrt (polynomialNormSq raw)) raw).all
                (fun x => decide (x = 0)) = true) ∧
             checkNonSimple ext par
               (normalizePolynomial par.l2ThrSq (ext.sqrt (polynomialNormSq raw)) raw) = .error e))) := by
  unfold intersectCurvesPrepare at h
  split at h
  · next e' he =>
    injection h with h; subst h
    exact Or.inl ⟨fullReduce_error _ _ _ he, Or.inl he⟩
  · next r1 h1 =>
    split at h
    · next e' he =>
      injection h with h; subst h
      exact Or.inl ⟨fullReduce_error _ _ _ he, Or.inr he⟩
    · next r2 h2 =>
      refine Or.inr ⟨r1, r2, h1, h2, ?_⟩
      dsimp only at h
      split at h
      · next e' he =>
        injection h with h; subst h
        obtain ⟨he1, he2⟩ := toPowerBasis_error _ _ _ _ _ he
        refine Or.inl ⟨he1, ?_⟩
        by_cases hc : ncols r1 > ncols r2
        · simp only [hc, decide_true, if_true] at he2
          rwa [min_eq_right (le_of_lt hc), max_eq_left (le_of_lt hc)]
        · simp only [hc, decide_false, Bool.false_eq_true, if_false] at he2
          rwa [min_eq_left (not_lt.mp hc), max_eq_right (not_lt.mp hc)]
      · next raw hraw =>
        refine Or.inr ⟨raw, hraw, ?_⟩
        split at h
        · next hz => injection h with h; exact Or.inl ⟨h.symm, hz⟩
        · next hnz =>
          split at h
          · next e' he => injection h with h; subst h; exact Or.inr ⟨hnz, he⟩
          · cases h

/-! ### `locate_point` factors through `locatePolys` (the oracle queries named by the driver) -/

theorem locatePoint_factors (ext : Externals K) (par : Params K) (nodes : List (List K)) (x y : K) :
    locatePoint ext par nodes x y =
      match locatePolys par nodes x y with
      | .error e => .error e
      | .ok (pb1, z2) => locateFinish ext par pb1 z2 := by
  unfold locatePoint locatePolys locateFinish
  cases h1 : fullReduce par.reduceThrSq [nodes.getD 0 []] with
  | error e => rfl
  | ok r1 =>
    cases h2 : fullReduce par.reduceThrSq [nodes.getD 1 []] with
    | error e => rfl
    | ok r2 =>
      dsimp only
      split
      · next e he => rw [he]
      · next pb1 he => rw [he]; rfl

/-! ### `wiggle_interval` on interior values; the inventory of refusals -/

theorem wiggle_interior (w v : K) (hw0 : 0 < w) (h1 : w ≤ v) (h2 : v ≤ 1 - w) : wiggleInterval w v = some v := by
  unfold wiggleInterval
  rw [if_neg (by rintro ⟨_, h⟩; exact absurd h (not_lt.mpr h1)), if_pos ⟨h1, h2⟩]

/-- the documented ways in which `all_intersections` (algebraic) stops with an exception; the index is the
    exception (`unsupportedDegree` = `UnsupportedDegree`, `notImplemented` = `NotImplementedError`,
    `valueError` = `ValueError("Jacobian is singular.")`, `badInput` = `IndexError`) -/
inductive Refusal (ext : Externals K) (par : Params K) (w : K) (A B : List (List K)) : Err → Prop
  /-- `full_reduce` of the first curve raises (degree above the reduction table) -/
  | reduceFirst : fullReduce par.reduceThrSq A = .error .unsupportedDegree → Refusal ext par w A B .unsupportedDegree
  /-- `full_reduce` of the second curve raises -/
  | reduceSecond : fullReduce par.reduceThrSq B = .error .unsupportedDegree → Refusal ext par w A B .unsupportedDegree
  /-- the reduced, degree-ordered pair of node counts has no `to_power_basis` helper -/
  | unsupportedPair (r1 r2 : List (List K)) : fullReduce par.reduceThrSq A = .ok r1 →
      fullReduce par.reduceThrSq B = .ok r2 →
      pbKind (min (ncols r1) (ncols r2)) (max (ncols r1) (ncols r2)) = none → Refusal ext par w A B .notImplemented
  /-- the normalised intersection polynomial is identically zero: "coincident curves" -/
  | coincident (r1 r2 : List (List K)) (raw : List K) : fullReduce par.reduceThrSq A = .ok r1 →
      fullReduce par.reduceThrSq B = .ok r2 →
      toPowerBasis ext par (if decide (ncols r1 > ncols r2) = true then r2 else r1)
        (if decide (ncols r1 > ncols r2) = true then r1 else r2) = .ok raw →
      (normalizePolynomial par.l2ThrSq (ext.sqrt (polynomialNormSq raw)) raw).all (fun x => decide (x = 0)) = true →
      Refusal ext par w A B .notImplemented
  /-- `_check_non_simple`: `f(companion of f')` is rank deficient: "non-simple roots" -/
  | nonSimple (r1 r2 : List (List K)) (raw cs : List K) : fullReduce par.reduceThrSq A = .ok r1 →
      fullReduce par.reduceThrSq B = .ok r2 →
      toPowerBasis ext par (if decide (ncols r1 > ncols r2) = true then r2 else r1)
        (if decide (ncols r1 > ncols r2) = true then r1 else r2) = .ok raw →
      stripLeadingZeros par.coeffThr (normalizePolynomial par.l2ThrSq (ext.sqrt (polynomialNormSq raw)) raw) = .ok cs →
      3 ≤ cs.length →
      (if (polyCompanionT (polyder cs)).length = 1 then
          (if par.nonSimpleThr < Alg.absK (seq ((polyAtMatrix cs (polyCompanionT (polyder cs))).headD []) 0)
            then 1 else 0)
        else ext.rank (polyAtMatrix cs (polyCompanionT (polyder cs))))
        < (polyCompanionT (polyder cs)).length →
      Refusal ext par w A B .notImplemented
  /-- `_strip_leading_zeros` runs off the array: the polynomial is not identically zero but every normalised
      coefficient is below `_COEFFICIENT_THRESHOLD` (impossible when `sqrt` is exact; the model's external
      `sqrt` is arbitrary) -/
  | stripOverrun (r1 r2 : List (List K)) (raw : List K) : fullReduce par.reduceThrSq A = .ok r1 →
      fullReduce par.reduceThrSq B = .ok r2 →
      toPowerBasis ext par (if decide (ncols r1 > ncols r2) = true then r2 else r1)
        (if decide (ncols r1 > ncols r2) = true then r1 else r2) = .ok raw →
      (∀ x ∈ normalizePolynomial par.l2ThrSq (ext.sqrt (polynomialNormSq raw)) raw, Alg.absK x < par.coeffThr) →
      Refusal ext par w A B .badInput
  /-- `locate_point` raises for the point of a `t`-root (a coordinate row it cannot convert) -/
  | locateDegree (p : Prepared K) (t : K) : intersectCurvesPrepare ext par A B = .ok p →
      t ∈ rootsInUnitInterval ext par p.coeffs →
      locatePoint ext par p.nodes1 (seq (evalPoint par.vsThr p.nodes2 t) 0) (seq (evalPoint par.vsThr p.nodes2 t) 1)
        = .error .unsupportedDegree →
      Refusal ext par w A B .unsupportedDegree
  /-- the Newton polish of a located pair meets a singular Jacobian (only away from an exact solution) -/
  | singularJacobian (p : Prepared K) (t s : K) : intersectCurvesPrepare ext par A B = .ok p →
      t ∈ rootsInUnitInterval ext par p.coeffs →
      locatePoint ext par p.nodes1 (seq (evalPoint par.vsThr p.nodes2 t) 0) (seq (evalPoint par.vsThr p.nodes2 t) 1)
        = .ok (some s) →
      newtonRefineCurves par.vsThr s p.nodes1 t p.nodes2 = .error .valueError →
      Refusal ext par w A B .valueError

end Ordered

/-! ### concrete data over `ℚ` for the non-vacuity examples of `Props/C15Algebraic`

The line `y = 3/8` (`exA`) against the parabola `(t, 2t(1-t))` (`exB`): two crossings at `s = t = 1/4, 3/4`.
`exPar`: the library's thresholds (squares where the model compares squares).  `exExt`: exact roots for linear
polynomials and for the intersection polynomial `-3/8 + 2t - 2t²`; `sqrt := 1` (no normalisation), `rank := 1`. -/

deriving instance DecidableEq for BezierVerif.Model.Alg.Prepared

def exPar : Params ℚ :=
  { vsThr := 55, cheb7 := [], cheb9 := [], cheb10 := [], reduceThrSq := 1 / 2 ^ 52, l2ThrSq := 1 / 2 ^ 80,
    coeffThr := 1 / 2 ^ 26, nonSimpleThr := 1 / 2 ^ 48, sigmaThrSq := 1 / 2 ^ 40, wiggleStart := -1 / 2 ^ 13,
    wiggleEnd := 1 + 1 / 2 ^ 13, imagWiggle := 1 / 2 ^ 13, zeroThr := 1 / 2 ^ 38 }

def exExt : Externals ℚ :=
  { fit := fun _ _ _ => [], sqrt := fun _ => 1, rank := fun _ => 1, eigvals := fun _ => [],
    polyroots := fun c => match c with
      | [a, b] => if b = 0 then [] else [(-a / b, 0)]
      | [a, b, c] => if a = -3 / 8 ∧ b = 2 ∧ c = -2 then [(1 / 4, 0), (3 / 4, 0)] else []
      | _ => [] }

def exA : List (List ℚ) := [[0, 1], [3 / 8, 3 / 8]]
def exB : List (List ℚ) := [[0, 1 / 2, 1], [0, 1, 0]]
def exW : ℚ := 1 / 2 ^ 44
def exPrep : Prepared ℚ := { nodes1 := exA, nodes2 := exB, swapped := false, coeffs := [-3 / 8, 2, -2] }


theorem ex_listPoly : listPoly ([-3 / 8, 2, -2] : List ℚ) = C (-2 : ℚ) * ((X - C (1 / 4)) * (X - C (3 / 4))) := by
  apply Polynomial.funext
  intro x
  rw [eval_listPoly]
  simp [polyval]
  ring

theorem ex_exactEig : ExactEig exExt exPrep.coeffs := by
  refine ⟨?_, ?_⟩
  · intro z hz
    have : z = (1 / 4, 0) ∨ z = (3 / 4, 0) := by simpa [exExt, exPrep] using hz
    rcases this with rfl | rfl <;> decide +kernel
  · intro r
    have hne : (C (-2 : ℚ) * ((X - C (1 / 4 : ℚ)) * (X - C (3 / 4 : ℚ)))) ≠ 0 :=
      mul_ne_zero (by simp) (mul_ne_zero (X_sub_C_ne_zero _) (X_sub_C_ne_zero _))
    have hr : exExt.polyroots exPrep.coeffs = [(1 / 4, 0), (3 / 4, 0)] := by decide +kernel
    rw [hr]
    rw [show exPrep.coeffs = [-3 / 8, 2, -2] from rfl, ex_listPoly, rootMultiplicity_mul hne, rootMultiplicity_C,
      rootMultiplicity_mul (right_ne_zero_of_mul hne), rootMultiplicity_X_sub_C, rootMultiplicity_X_sub_C]
    simp only [List.count_cons, List.count_nil, beq_iff_eq, Prod.mk.injEq, and_true, zero_add]
    have e1 : ((1 / 4 : ℚ) = r) ↔ (r = 1 / 4) := eq_comm
    have e2 : ((3 / 4 : ℚ) = r) ↔ (r = 3 / 4) := eq_comm
    simp only [e1, e2]
    ring

theorem ex_noNearReal : NoNearReal exPar (exExt.polyroots exPrep.coeffs) := by
  intro z hz _ _ _
  have : z = (1 / 4, 0) ∨ z = (3 / 4, 0) := by simpa [exExt, exPrep] using hz
  rcases this with rfl | rfl <;> rfl

theorem ex_squarefree : Squarefree (listPoly exPrep.coeffs) := by
  rw [show exPrep.coeffs = [-3 / 8, 2, -2] from rfl, ex_listPoly]
  have hu : IsUnit (C (-2 : ℚ)) := Polynomial.isUnit_C.mpr (by simp)
  refine (squarefree_mul_iff).mpr ⟨hu.isRelPrime_left, hu.squarefree, ?_⟩
  refine (squarefree_mul_iff).mpr ⟨?_, (irreducible_X_sub_C _).squarefree, (irreducible_X_sub_C _).squarefree⟩
  exact (isCoprime_X_sub_C_of_isUnit_sub (by norm_num : IsUnit ((1 / 4 : ℚ) - 3 / 4))).isRelPrime

theorem ex_roots : rootsInUnitInterval exExt exPar exPrep.coeffs = [1 / 4, 3 / 4] := by decide +kernel

theorem ex_exactLocate : ExactLocate exExt exPar exPrep.nodes1 exPrep.nodes2 (rootsInUnitInterval exExt exPar exPrep.coeffs) := by
  rw [ex_roots]
  intro t ht s hs
  have : t = 1 / 4 ∨ t = 3 / 4 := by simpa using ht
  rcases this with rfl | rfl
  · have h : locatePoint exExt exPar exPrep.nodes1 (seq (evalPoint exPar.vsThr exPrep.nodes2 (1 / 4)) 0)
        (seq (evalPoint exPar.vsThr exPrep.nodes2 (1 / 4)) 1) = .ok (some (1 / 4)) := by decide +kernel
    rw [h] at hs
    injection hs with hs; injection hs with hs; subst hs
    decide +kernel
  · have h : locatePoint exExt exPar exPrep.nodes1 (seq (evalPoint exPar.vsThr exPrep.nodes2 (3 / 4)) 0)
        (seq (evalPoint exPar.vsThr exPrep.nodes2 (3 / 4)) 1) = .ok (some (3 / 4)) := by decide +kernel
    rw [h] at hs
    injection hs with hs; injection hs with hs; subst hs
    decide +kernel

theorem ex_inj (s0 : ℚ) : ∀ s', evalPoint exPar.vsThr exPrep.nodes1 s' = evalPoint exPar.vsThr exPrep.nodes1 s0 → s' = s0 := by
  intro s' h
  have h0 := congrArg (fun l => seq l 0) h
  simp only [exPrep, exA, evalPoint, List.map_cons, seq_cons_zero] at h0
  rw [evalBary_eq_bern _ _ (by decide), evalBary_eq_bern _ _ (by decide)] at h0
  simpa [bern, Finset.sum_range_succ, seq] using h0

theorem ex_prepare : intersectCurvesPrepare exExt exPar exA exB = .ok exPrep := by decide +kernel

theorem ex_result : algIntersectCurves exExt exPar exW exA exB = .ok ([1 / 4, 3 / 4], [1 / 4, 3 / 4]) := by
  decide +kernel

theorem ex_locateAnswers (t : ℚ) (ht : t = 1 / 4 ∨ t = 3 / 4) :
    LocateAnswers exExt exPar exPrep.nodes1 (evalPoint exPar.vsThr exPrep.nodes2 t) := by
  rcases ht with rfl | rfl
  · exact ⟨1 / 4, by decide +kernel⟩
  · exact ⟨3 / 4, by decide +kernel⟩

end BezierVerif.AlgSound
