import BezierVerif.Lemmas.Predicates
import Mathlib.Algebra.Order.Field.Rat
import Mathlib.Tactic.NormNum

/-!
# Lemmas/BoxLine — exactness of `bbox_line_intersect`

`bbox_line_intersect(nodes, line_start, line_end)` (`hazmat/geometric_intersection.py`) tests the
start point, the end point, then `segment_intersection` of the BOTTOM, the RIGHT and the TOP edge of
the bounding box with the segment; the LEFT edge is skipped on purpose.  For a box with interior
(`left < right`, `bottom < top`) this is nevertheless exact:

* `bboxLineIntersect_exact`: the answer is `intersection` iff the closed segment meets the closed box,
* `bboxLineIntersect_disjoint_iff`, `bboxLineIntersect_ne_tangent`, `bboxLineIntersect_error_iff`,
* `bboxLineIntersect_sound`: `intersection` is never a false alarm, for every box `bbox` returns,
* `bboxLineIntersect_general`: what the routine decides on an arbitrary (possibly degenerate) box –
  an edge of zero length or an edge parallel to the segment is never "hit".

The geometric core (`segment_box_tested_edge`) is a first-exit argument (Liang–Barsky): following the
segment from a common point towards `E` the first constraint left is `x ≤ right`, `bottom ≤ y`,
`y ≤ top` (all tested, all crossed transversally) or `left ≤ x`; in the last case the segment runs
to the left, and followed towards `S` it cannot leave through `left ≤ x` again.
-/

set_option linter.unusedSectionVars false
set_option linter.unusedVariables false

namespace BezierVerif.BoxLine

open BezierVerif Model BezierVerif.Predicates

variable {K : Type} [Field K] [LinearOrder K] [IsStrictOrderedRing K]

/-! ### the routine, with its local function named -/

/-- the local function `hit` of `bboxLineIntersect`: `segment_intersection` succeeds and both
    parameters are in `[0, 1]` -/
def edgeHit (e0 e1 S E : Pt K) : Bool :=
  match segmentIntersection e0 e1 S E with
  | some (s, t) => inInterval s 0 1 && inInterval t 0 1
  | none => false

/-- the end point test of `bboxLineIntersect` -/
def inBoxB (box : K × K × K × K) (p : Pt K) : Bool :=
  inInterval p.1 box.1 box.2.1 && inInterval p.2 box.2.2.1 box.2.2.2

/-- `bboxLineIntersect` on a box: the five tests in the order of the code -/
theorem bboxLineIntersect_ok (nodes : List (List K)) (S E : Pt K) (l r b t : K)
    (hb : bbox nodes = .ok (l, r, b, t)) :
    bboxLineIntersect nodes S E =
      if inBoxB (l, r, b, t) S then .ok .intersection
      else if inBoxB (l, r, b, t) E then .ok .intersection
      else if edgeHit (l, b) (r, b) S E then .ok .intersection
      else if edgeHit (r, b) (r, t) S E then .ok .intersection
      else if edgeHit (r, t) (l, t) S E then .ok .intersection
      else .ok .disjoint := by
  unfold bboxLineIntersect
  rw [hb]
  rfl

theorem inBoxB_iff (box : K × K × K × K) (p : Pt K) : inBoxB box p = true ↔ InBox box p := by
  simp [inBoxB, inInterval, InBox, and_assoc]

/-! ### affine functions on an interval -/

/-- an affine function that is `≥ 0` at both ends of an interval is `≥ 0` inside -/
theorem affine_between (a d u w τ : K) (hu : 0 ≤ a + u * d) (hw : 0 ≤ a + w * d)
    (h1 : u ≤ τ) (h2 : τ ≤ w) : 0 ≤ a + τ * d := by
  rcases le_total 0 d with hd | hd
  · nlinarith [mul_nonneg (sub_nonneg.mpr h1) hd]
  · nlinarith [mul_nonneg (sub_nonneg.mpr h2) (neg_nonneg.mpr hd)]

/-- `≥ 0` at `u`, `< 0` at `w ≥ u`: the slope is negative and there is a zero in `[u, w]` -/
theorem affine_cross (a d u w : K) (hu : 0 ≤ a + u * d) (hw : a + w * d < 0) (huw : u ≤ w) :
    ∃ τ, u ≤ τ ∧ τ ≤ w ∧ a + τ * d = 0 ∧ d < 0 := by
  have hd : d < 0 := by
    by_contra h
    have h' : 0 ≤ d := not_lt.mp h
    nlinarith [mul_nonneg (sub_nonneg.mpr huw) h']
  refine ⟨-a / d, ?_, ?_, ?_, hd⟩
  · rw [le_div_iff_of_neg hd]; linarith
  · rw [div_le_iff_of_neg hd]; linarith
  · rw [div_mul_cancel₀ _ hd.ne]; ring

/-- first exit: finitely many affine constraints `a + τ d ≥ 0` (pairs `(a, d)`) that hold at `u`;
    going towards `v ≥ u` either all of them hold up to `v`, or there is a `τ ∈ [u, v]` where all still
    hold and one of them, with negative slope, is tight -/
theorem first_exit (cs : List (K × K)) (u v : K) (huv : u ≤ v)
    (h0 : ∀ c ∈ cs, 0 ≤ c.1 + u * c.2) :
    ∃ τ, u ≤ τ ∧ τ ≤ v ∧ (∀ c ∈ cs, 0 ≤ c.1 + τ * c.2) ∧
      (τ = v ∨ ∃ c ∈ cs, c.1 + τ * c.2 = 0 ∧ c.2 < 0) := by
  induction cs with
  | nil => exact ⟨v, huv, le_rfl, by simp, Or.inl rfl⟩
  | cons c rest ih =>
    have h0r : ∀ c' ∈ rest, 0 ≤ c'.1 + u * c'.2 := fun c' hc' => h0 c' (List.mem_cons_of_mem _ hc')
    have h0c : 0 ≤ c.1 + u * c.2 := h0 c (by simp)
    obtain ⟨τ0, h1, h2, hall, hlast⟩ := ih h0r
    by_cases hc : 0 ≤ c.1 + τ0 * c.2
    · refine ⟨τ0, h1, h2, ?_, ?_⟩
      · intro c' hc'
        rcases List.mem_cons.mp hc' with rfl | h
        · exact hc
        · exact hall c' h
      · rcases hlast with h | ⟨c', hc', e, s⟩
        · exact Or.inl h
        · exact Or.inr ⟨c', List.mem_cons_of_mem _ hc', e, s⟩
    · obtain ⟨τ1, g1, g2, g3, g4⟩ := affine_cross c.1 c.2 u τ0 h0c (not_le.mp hc) h1
      refine ⟨τ1, g1, le_trans g2 h2, ?_, Or.inr ⟨c, by simp, g3, g4⟩⟩
      intro c' hc'
      rcases List.mem_cons.mp hc' with rfl | h
      · exact le_of_eq g3.symm
      · exact affine_between c'.1 c'.2 u τ0 τ1 (h0r c' h) (hall c' h) g1 g2

/-! ### one edge -/

/-- `hit` ⇔ the edge and the segment are not parallel and share a point (parameters in `[0,1]`) -/
theorem edgeHit_iff (e0 e1 S E : Pt K) :
    edgeHit e0 e1 S E = true ↔
      cross (psub e1 e0) (psub E S) ≠ 0 ∧
      ∃ s τ : K, 0 ≤ s ∧ s ≤ 1 ∧ 0 ≤ τ ∧ τ ≤ 1 ∧
        e0.1 + s * (e1.1 - e0.1) = S.1 + τ * (E.1 - S.1) ∧
        e0.2 + s * (e1.2 - e0.2) = S.2 + τ * (E.2 - S.2) := by
  unfold edgeHit segmentIntersection
  simp only
  split_ifs with hc
  · simp [hc]
  · simp only [inInterval, Bool.and_eq_true, decide_eq_true_eq]
    constructor
    · rintro ⟨⟨hs0, hs1⟩, ht0, ht1⟩
      have hs' := div_mul_cancel₀ (cross (psub S e0) (psub E S)) hc
      have ht' := div_mul_cancel₀ (cross (psub S e0) (psub e1 e0)) hc
      refine ⟨hc, _, _, hs0, hs1, ht0, ht1, ?_, ?_⟩
      · apply mul_right_cancel₀ hc
        generalize cross (psub S e0) (psub E S) / cross (psub e1 e0) (psub E S) = s at hs' ⊢
        generalize cross (psub S e0) (psub e1 e0) / cross (psub e1 e0) (psub E S) = t at ht' ⊢
        simp only [cross, psub] at hs' ht' ⊢
        linear_combination (e1.1 - e0.1) * hs' - (E.1 - S.1) * ht'
      · apply mul_right_cancel₀ hc
        generalize cross (psub S e0) (psub E S) / cross (psub e1 e0) (psub E S) = s at hs' ⊢
        generalize cross (psub S e0) (psub e1 e0) / cross (psub e1 e0) (psub E S) = t at ht' ⊢
        simp only [cross, psub] at hs' ht' ⊢
        linear_combination (e1.2 - e0.2) * hs' - (E.2 - S.2) * ht'
    · rintro ⟨_, s, τ, hs0, hs1, ht0, ht1, e1', e2'⟩
      have hs : cross (psub S e0) (psub E S) / cross (psub e1 e0) (psub E S) = s := by
        simp only [cross, psub] at hc ⊢
        rw [div_eq_iff hc]
        linear_combination (-(E.2 - S.2)) * e1' + (E.1 - S.1) * e2'
      have ht : cross (psub S e0) (psub e1 e0) / cross (psub e1 e0) (psub E S) = τ := by
        simp only [cross, psub] at hc ⊢
        rw [div_eq_iff hc]
        linear_combination (-(e1.2 - e0.2)) * e1' + (e1.1 - e0.1) * e2'
      rw [hs, ht]
      exact ⟨⟨hs0, hs1⟩, ht0, ht1⟩

/-- the points `p + s (q - p)`, `s ∈ [0,1]`, of a non-degenerate interval -/
theorem seg_param_iff (p q x : K) (h : p < q) :
    (∃ s : K, 0 ≤ s ∧ s ≤ 1 ∧ p + s * (q - p) = x) ↔ p ≤ x ∧ x ≤ q := by
  have hpos : 0 < q - p := sub_pos.mpr h
  constructor
  · rintro ⟨s, hs0, hs1, rfl⟩
    constructor
    · nlinarith [mul_nonneg hs0 hpos.le]
    · nlinarith [mul_nonneg (sub_nonneg.mpr hs1) hpos.le]
  · rintro ⟨h1, h2⟩
    refine ⟨(x - p) / (q - p), div_nonneg (by linarith) hpos.le, ?_, ?_⟩
    · rw [div_le_one hpos]; linarith
    · rw [div_mul_cancel₀ _ hpos.ne']; ring

/-- the same interval run through backwards -/
theorem seg_param_iff' (p q x : K) (h : p < q) :
    (∃ s : K, 0 ≤ s ∧ s ≤ 1 ∧ q + s * (p - q) = x) ↔ p ≤ x ∧ x ≤ q := by
  rw [← seg_param_iff p q x h]
  constructor
  · rintro ⟨s, hs0, hs1, rfl⟩
    exact ⟨1 - s, by linarith, by linarith, by ring⟩
  · rintro ⟨s, hs0, hs1, rfl⟩
    exact ⟨1 - s, by linarith, by linarith, by ring⟩

/-- a horizontal edge `(x0, y) → (x1, y)` -/
theorem horizontal_hit_iff (S E : Pt K) (x0 x1 y : K) :
    edgeHit (x0, y) (x1, y) S E = true ↔
      x0 ≠ x1 ∧ E.2 - S.2 ≠ 0 ∧ ∃ τ : K, 0 ≤ τ ∧ τ ≤ 1 ∧ S.2 + τ * (E.2 - S.2) = y ∧
        ∃ s : K, 0 ≤ s ∧ s ≤ 1 ∧ x0 + s * (x1 - x0) = S.1 + τ * (E.1 - S.1) := by
  rw [edgeHit_iff]
  have hcross : cross (psub (x1, y) (x0, y)) (psub E S) = (x1 - x0) * (E.2 - S.2) := by
    simp only [cross, psub]; ring
  rw [hcross, mul_ne_zero_iff, sub_ne_zero, and_assoc]
  constructor
  · rintro ⟨h1, h2, s, τ, hs0, hs1, ht0, ht1, e1, e2⟩
    refine ⟨h1.symm, h2, τ, ht0, ht1, ?_, s, hs0, hs1, e1⟩
    simp only at e2
    linear_combination -e2
  · rintro ⟨h1, h2, τ, ht0, ht1, e2, s, hs0, hs1, e1⟩
    refine ⟨h1.symm, h2, s, τ, hs0, hs1, ht0, ht1, e1, ?_⟩
    simp only
    linear_combination -e2

/-- a vertical edge `(x, y0) → (x, y1)` -/
theorem vertical_hit_iff (S E : Pt K) (x y0 y1 : K) :
    edgeHit (x, y0) (x, y1) S E = true ↔
      y0 ≠ y1 ∧ E.1 - S.1 ≠ 0 ∧ ∃ τ : K, 0 ≤ τ ∧ τ ≤ 1 ∧ S.1 + τ * (E.1 - S.1) = x ∧
        ∃ s : K, 0 ≤ s ∧ s ≤ 1 ∧ y0 + s * (y1 - y0) = S.2 + τ * (E.2 - S.2) := by
  rw [edgeHit_iff]
  have hcross : cross (psub (x, y1) (x, y0)) (psub E S) = -((y1 - y0) * (E.1 - S.1)) := by
    simp only [cross, psub]; ring
  rw [hcross, neg_ne_zero, mul_ne_zero_iff, sub_ne_zero, and_assoc]
  constructor
  · rintro ⟨h1, h2, s, τ, hs0, hs1, ht0, ht1, e1, e2⟩
    refine ⟨h1.symm, h2, τ, ht0, ht1, ?_, s, hs0, hs1, e2⟩
    simp only at e1
    linear_combination -e1
  · rintro ⟨h1, h2, τ, ht0, ht1, e1, s, hs0, hs1, e2⟩
    refine ⟨h1.symm, h2, s, τ, hs0, hs1, ht0, ht1, ?_, e2⟩
    simp only
    linear_combination -e1

/-- a point of the segment `S → E` at parameter `τ ∈ [0,1]` on the bottom (`y = b`) or top (`y = t`)
    edge line, within `[l, r]` -/
def OnHorizontal (S E : Pt K) (l r y : K) : Prop :=
  E.2 - S.2 ≠ 0 ∧ ∃ τ : K, 0 ≤ τ ∧ τ ≤ 1 ∧ S.2 + τ * (E.2 - S.2) = y ∧
    l ≤ S.1 + τ * (E.1 - S.1) ∧ S.1 + τ * (E.1 - S.1) ≤ r

/-- a point of the segment at parameter `τ ∈ [0,1]` on the vertical line `x`, within `[b, t]` -/
def OnVertical (S E : Pt K) (x b t : K) : Prop :=
  E.1 - S.1 ≠ 0 ∧ ∃ τ : K, 0 ≤ τ ∧ τ ≤ 1 ∧ S.1 + τ * (E.1 - S.1) = x ∧
    b ≤ S.2 + τ * (E.2 - S.2) ∧ S.2 + τ * (E.2 - S.2) ≤ t

/-- bottom edge `(l, b) → (r, b)`, `l ≤ r`: hit ⇔ it has positive length and the segment crosses the
    line `y = b` transversally at a point of the edge -/
theorem bottom_hit_iff (S E : Pt K) (l r b : K) (hle : l ≤ r) :
    edgeHit (l, b) (r, b) S E = true ↔ l < r ∧ OnHorizontal S E l r b := by
  rw [horizontal_hit_iff, OnHorizontal]
  constructor
  · rintro ⟨h1, h2, τ, ht0, ht1, e, hs⟩
    have hlt : l < r := lt_of_le_of_ne hle h1
    exact ⟨hlt, h2, τ, ht0, ht1, e, (seg_param_iff l r _ hlt).mp hs⟩
  · rintro ⟨hlt, h2, τ, ht0, ht1, e, hx⟩
    exact ⟨hlt.ne, h2, τ, ht0, ht1, e, (seg_param_iff l r _ hlt).mpr hx⟩

/-- top edge `(r, t) → (l, t)`, `l ≤ r` -/
theorem top_hit_iff (S E : Pt K) (l r t : K) (hle : l ≤ r) :
    edgeHit (r, t) (l, t) S E = true ↔ l < r ∧ OnHorizontal S E l r t := by
  rw [horizontal_hit_iff, OnHorizontal]
  constructor
  · rintro ⟨h1, h2, τ, ht0, ht1, e, hs⟩
    have hlt : l < r := lt_of_le_of_ne hle h1.symm
    exact ⟨hlt, h2, τ, ht0, ht1, e, (seg_param_iff' l r _ hlt).mp hs⟩
  · rintro ⟨hlt, h2, τ, ht0, ht1, e, hx⟩
    exact ⟨hlt.ne', h2, τ, ht0, ht1, e, (seg_param_iff' l r _ hlt).mpr hx⟩

/-- right edge `(r, b) → (r, t)`, `b ≤ t` -/
theorem right_hit_iff (S E : Pt K) (r b t : K) (hle : b ≤ t) :
    edgeHit (r, b) (r, t) S E = true ↔ b < t ∧ OnVertical S E r b t := by
  rw [vertical_hit_iff, OnVertical]
  constructor
  · rintro ⟨h1, h2, τ, ht0, ht1, e, hs⟩
    have hlt : b < t := lt_of_le_of_ne hle h1
    exact ⟨hlt, h2, τ, ht0, ht1, e, (seg_param_iff b t _ hlt).mp hs⟩
  · rintro ⟨hlt, h2, τ, ht0, ht1, e, hy⟩
    exact ⟨hlt.ne, h2, τ, ht0, ht1, e, (seg_param_iff b t _ hlt).mpr hy⟩

/-! ### geometric core: first exit from the box along the segment -/

/-- from a point of the segment inside the box towards an end point `E` outside: the last common
    point lies on an edge whose constraint is left transversally -/
theorem exit_towards_end (S E : Pt K) (l r b t u : K) (hu1 : u ≤ 1)
    (hin : InBox (l, r, b, t) (S.1 + u * (E.1 - S.1), S.2 + u * (E.2 - S.2)))
    (hE : ¬ InBox (l, r, b, t) E) :
    ∃ τ : K, u ≤ τ ∧ τ ≤ 1 ∧
      InBox (l, r, b, t) (S.1 + τ * (E.1 - S.1), S.2 + τ * (E.2 - S.2)) ∧
      ((S.1 + τ * (E.1 - S.1) = l ∧ E.1 - S.1 < 0) ∨ (S.1 + τ * (E.1 - S.1) = r ∧ 0 < E.1 - S.1) ∨
       (S.2 + τ * (E.2 - S.2) = b ∧ E.2 - S.2 < 0) ∨ (S.2 + τ * (E.2 - S.2) = t ∧ 0 < E.2 - S.2)) := by
  simp only [InBox] at hin hE ⊢
  obtain ⟨i1, i2, i3, i4⟩ := hin
  obtain ⟨τ, h1, h2, hall, hlast⟩ := first_exit
    [(S.1 - l, E.1 - S.1), (r - S.1, -(E.1 - S.1)), (S.2 - b, E.2 - S.2), (t - S.2, -(E.2 - S.2))]
    u 1 hu1 (by
      simp only [List.mem_cons, List.not_mem_nil, or_false, forall_eq_or_imp, forall_eq]
      refine ⟨?_, ?_, ?_, ?_⟩ <;> linarith)
  simp only [List.mem_cons, List.not_mem_nil, or_false, forall_eq_or_imp, forall_eq] at hall
  simp only [List.mem_cons, List.not_mem_nil, or_false, exists_eq_or_imp, exists_eq_left] at hlast
  obtain ⟨a1, a2, a3, a4⟩ := hall
  refine ⟨τ, h1, h2, ⟨by linarith, by linarith, by linarith, by linarith⟩, ?_⟩
  rcases hlast with rfl | ⟨e, s⟩ | ⟨e, s⟩ | ⟨e, s⟩ | ⟨e, s⟩
  · exfalso
    apply hE
    refine ⟨?_, ?_, ?_, ?_⟩ <;> linarith
  · exact Or.inl ⟨by linarith, s⟩
  · exact Or.inr (Or.inl ⟨by linarith, by linarith⟩)
  · exact Or.inr (Or.inr (Or.inl ⟨by linarith, s⟩))
  · exact Or.inr (Or.inr (Or.inr ⟨by linarith, by linarith⟩))

/-- the same towards the start point `S` outside -/
theorem exit_towards_start (S E : Pt K) (l r b t u : K) (hu0 : 0 ≤ u)
    (hin : InBox (l, r, b, t) (S.1 + u * (E.1 - S.1), S.2 + u * (E.2 - S.2)))
    (hS : ¬ InBox (l, r, b, t) S) :
    ∃ τ : K, 0 ≤ τ ∧ τ ≤ u ∧
      InBox (l, r, b, t) (S.1 + τ * (E.1 - S.1), S.2 + τ * (E.2 - S.2)) ∧
      ((S.1 + τ * (E.1 - S.1) = l ∧ 0 < E.1 - S.1) ∨ (S.1 + τ * (E.1 - S.1) = r ∧ E.1 - S.1 < 0) ∨
       (S.2 + τ * (E.2 - S.2) = b ∧ 0 < E.2 - S.2) ∨ (S.2 + τ * (E.2 - S.2) = t ∧ E.2 - S.2 < 0)) := by
  simp only [InBox] at hin hS ⊢
  obtain ⟨i1, i2, i3, i4⟩ := hin
  obtain ⟨τ, h1, h2, hall, hlast⟩ := first_exit
    [(S.1 - l, -(E.1 - S.1)), (r - S.1, E.1 - S.1), (S.2 - b, -(E.2 - S.2)), (t - S.2, E.2 - S.2)]
    (-u) 0 (by linarith) (by
      simp only [List.mem_cons, List.not_mem_nil, or_false, forall_eq_or_imp, forall_eq]
      refine ⟨?_, ?_, ?_, ?_⟩ <;> linarith)
  simp only [List.mem_cons, List.not_mem_nil, or_false, forall_eq_or_imp, forall_eq] at hall
  simp only [List.mem_cons, List.not_mem_nil, or_false, exists_eq_or_imp, exists_eq_left] at hlast
  obtain ⟨a1, a2, a3, a4⟩ := hall
  refine ⟨-τ, by linarith, by linarith, ⟨by linarith, by linarith, by linarith, by linarith⟩, ?_⟩
  rcases hlast with rfl | ⟨e, s⟩ | ⟨e, s⟩ | ⟨e, s⟩ | ⟨e, s⟩
  · exfalso
    apply hS
    refine ⟨?_, ?_, ?_, ?_⟩ <;> linarith
  · exact Or.inl ⟨by linarith, by linarith⟩
  · exact Or.inr (Or.inl ⟨by linarith, s⟩)
  · exact Or.inr (Or.inr (Or.inl ⟨by linarith, by linarith⟩))
  · exact Or.inr (Or.inr (Or.inr ⟨by linarith, s⟩))

/-- a segment that meets the box with both end points outside crosses the bottom, the right or the
    top edge transversally – no hypothesis on the box -/
theorem segment_box_tested_edge (S E : Pt K) (l r b t u : K) (hu0 : 0 ≤ u) (hu1 : u ≤ 1)
    (hin : InBox (l, r, b, t) (S.1 + u * (E.1 - S.1), S.2 + u * (E.2 - S.2)))
    (hS : ¬ InBox (l, r, b, t) S) (hE : ¬ InBox (l, r, b, t) E) :
    OnHorizontal S E l r b ∨ OnVertical S E r b t ∨ OnHorizontal S E l r t := by
  obtain ⟨τ, h1, h2, hbox, hedge⟩ := exit_towards_end S E l r b t u hu1 hin hE
  have hτ0 : 0 ≤ τ := le_trans hu0 h1
  obtain ⟨b1, b2, b3, b4⟩ := hbox
  simp only at b1 b2 b3 b4
  rcases hedge with ⟨e, s⟩ | ⟨e, s⟩ | ⟨e, s⟩ | ⟨e, s⟩
  · -- out through the left edge: the segment runs to the left; look at the other end
    obtain ⟨σ, g1, g2, gbox, gedge⟩ := exit_towards_start S E l r b t u hu0 hin hS
    have hσ1 : σ ≤ 1 := le_trans g2 hu1
    obtain ⟨c1, c2, c3, c4⟩ := gbox
    simp only at c1 c2 c3 c4
    rcases gedge with ⟨e', s'⟩ | ⟨e', s'⟩ | ⟨e', s'⟩ | ⟨e', s'⟩
    · exact absurd s (not_lt.mpr s'.le)
    · exact Or.inr (Or.inl ⟨s'.ne, σ, g1, hσ1, e', c3, c4⟩)
    · exact Or.inl ⟨s'.ne', σ, g1, hσ1, e', c1, c2⟩
    · exact Or.inr (Or.inr ⟨s'.ne, σ, g1, hσ1, e', c1, c2⟩)
  · exact Or.inr (Or.inl ⟨s.ne', τ, hτ0, h2, e, b3, b4⟩)
  · exact Or.inl ⟨s.ne, τ, hτ0, h2, e, b1, b2⟩
  · exact Or.inr (Or.inr ⟨s.ne', τ, hτ0, h2, e, b1, b2⟩)

/-! ### the routine -/

/-- the error branch: exactly the errors of `bbox` -/
theorem bboxLineIntersect_error_iff (nodes : List (List K)) (S E : Pt K) (e : Err) :
    bboxLineIntersect nodes S E = .error e ↔ bbox nodes = .error e := by
  cases h : bbox nodes with
  | error e' => simp [bboxLineIntersect, h]
  | ok box =>
    obtain ⟨l, r, b, t⟩ := box
    rw [bboxLineIntersect_ok nodes S E l r b t h]
    split_ifs <;> simp

/-- the routine never answers `tangent` -/
theorem bboxLineIntersect_ne_tangent (nodes : List (List K)) (S E : Pt K) :
    bboxLineIntersect nodes S E ≠ .ok .tangent := by
  cases h : bbox nodes with
  | error e' => simp [bboxLineIntersect, h]
  | ok box =>
    obtain ⟨l, r, b, t⟩ := box
    rw [bboxLineIntersect_ok nodes S E l r b t h]
    split_ifs <;> simp

/-- on a box the answer is `intersection` or `disjoint` -/
theorem bboxLineIntersect_ok_cases (nodes : List (List K)) (S E : Pt K) (l r b t : K)
    (hb : bbox nodes = .ok (l, r, b, t)) :
    bboxLineIntersect nodes S E = .ok .intersection ∨ bboxLineIntersect nodes S E = .ok .disjoint := by
  rw [bboxLineIntersect_ok nodes S E l r b t hb]
  split_ifs <;> simp

theorem bbox_le (nodes : List (List K)) (l r b t : K) (hb : bbox nodes = .ok (l, r, b, t)) :
    l ≤ r ∧ b ≤ t := by
  obtain ⟨x, xs, y, ys, rfl, h⟩ := bbox_ok_shape nodes _ hb
  simp only [Prod.mk.injEq] at h
  obtain ⟨rfl, rfl, rfl, rfl⟩ := h
  exact ⟨minOf_le_maxOf x xs, minOf_le_maxOf y ys⟩

/-- what the routine decides on EVERY box returned by `bbox` (degenerate or not): an end point in
    the box, or a transversal crossing of a bottom / right / top edge of positive length -/
theorem bboxLineIntersect_general (nodes : List (List K)) (S E : Pt K) (l r b t : K)
    (hb : bbox nodes = .ok (l, r, b, t)) :
    bboxLineIntersect nodes S E = .ok .intersection ↔
      InBox (l, r, b, t) S ∨ InBox (l, r, b, t) E ∨ (l < r ∧ OnHorizontal S E l r b) ∨
        (b < t ∧ OnVertical S E r b t) ∨ (l < r ∧ OnHorizontal S E l r t) := by
  obtain ⟨hlr, hbt⟩ := bbox_le nodes l r b t hb
  rw [bboxLineIntersect_ok nodes S E l r b t hb, ← inBoxB_iff, ← inBoxB_iff,
    ← bottom_hit_iff S E l r b hlr, ← right_hit_iff S E r b t hbt, ← top_hit_iff S E l r t hlr]
  split_ifs <;> simp [*]

/-- soundness on every box returned by `bbox`: `intersection` is only answered when the closed
    segment meets the closed box -/
theorem bboxLineIntersect_sound (nodes : List (List K)) (S E : Pt K) (l r b t : K)
    (hb : bbox nodes = .ok (l, r, b, t))
    (h : bboxLineIntersect nodes S E = .ok .intersection) :
    ∃ u : K, 0 ≤ u ∧ u ≤ 1 ∧ InBox (l, r, b, t) (S.1 + u * (E.1 - S.1), S.2 + u * (E.2 - S.2)) := by
  obtain ⟨hlr, hbt⟩ := bbox_le nodes l r b t hb
  rw [bboxLineIntersect_general nodes S E l r b t hb] at h
  simp only [InBox, OnHorizontal, OnVertical] at h ⊢
  rcases h with ⟨a1, a2, a3, a4⟩ | ⟨a1, a2, a3, a4⟩ | ⟨_, _, τ, t0, t1, e, x1, x2⟩ |
    ⟨_, _, τ, t0, t1, e, y1, y2⟩ | ⟨_, _, τ, t0, t1, e, x1, x2⟩
  · exact ⟨0, le_rfl, zero_le_one, by linarith, by linarith, by linarith, by linarith⟩
  · exact ⟨1, zero_le_one, le_rfl, by linarith, by linarith, by linarith, by linarith⟩
  · exact ⟨τ, t0, t1, x1, x2, by linarith, by linarith⟩
  · exact ⟨τ, t0, t1, by linarith, by linarith, y1, y2⟩
  · exact ⟨τ, t0, t1, x1, x2, by linarith, by linarith⟩

/-- EXACTNESS for a box with interior: the answer is `intersection` iff the closed segment
    `S → E` meets the closed box (although the left edge is never tested) -/
theorem bboxLineIntersect_exact (nodes : List (List K)) (S E : Pt K) (l r b t : K)
    (hb : bbox nodes = .ok (l, r, b, t)) (hlr : l < r) (hbt : b < t) :
    bboxLineIntersect nodes S E = .ok .intersection ↔
      ∃ u : K, 0 ≤ u ∧ u ≤ 1 ∧ InBox (l, r, b, t) (S.1 + u * (E.1 - S.1), S.2 + u * (E.2 - S.2)) := by
  constructor
  · exact bboxLineIntersect_sound nodes S E l r b t hb
  · rintro ⟨u, hu0, hu1, hin⟩
    rw [bboxLineIntersect_general nodes S E l r b t hb]
    by_cases hS : InBox (l, r, b, t) S
    · exact Or.inl hS
    by_cases hE : InBox (l, r, b, t) E
    · exact Or.inr (Or.inl hE)
    rcases segment_box_tested_edge S E l r b t u hu0 hu1 hin hS hE with h | h | h
    · exact Or.inr (Or.inr (Or.inl ⟨hlr, h⟩))
    · exact Or.inr (Or.inr (Or.inr (Or.inl ⟨hbt, h⟩)))
    · exact Or.inr (Or.inr (Or.inr (Or.inr ⟨hlr, h⟩)))

/-- … and `disjoint` iff the closed segment misses the closed box -/
theorem bboxLineIntersect_disjoint_iff (nodes : List (List K)) (S E : Pt K) (l r b t : K)
    (hb : bbox nodes = .ok (l, r, b, t)) (hlr : l < r) (hbt : b < t) :
    bboxLineIntersect nodes S E = .ok .disjoint ↔
      ¬ ∃ u : K, 0 ≤ u ∧ u ≤ 1 ∧
        InBox (l, r, b, t) (S.1 + u * (E.1 - S.1), S.2 + u * (E.2 - S.2)) := by
  rw [← bboxLineIntersect_exact nodes S E l r b t hb hlr hbt]
  rcases bboxLineIntersect_ok_cases nodes S E l r b t hb with h | h <;> simp [h]

/-! ### non-vacuity (the square `[0,2]²`) -/

/-- in through the left edge at `(0,1)`, out through the top edge at `(1,2)` -/
example : bboxLineIntersect ([[0, 2], [0, 2]] : List (List ℚ)) (-1, 0) (2, 3) = .ok .intersection := by
  decide +kernel

/-- in through the left edge at `(0,1)`, ending outside below the box after leaving through the
    bottom edge; reversed: in through the bottom, out through the (untested) left edge -/
example : bboxLineIntersect ([[0, 2], [0, 2]] : List (List ℚ)) (-1, 2) (2, -1) = .ok .intersection ∧
    bboxLineIntersect ([[0, 2], [0, 2]] : List (List ℚ)) (2, -1) (-1, 2) = .ok .intersection := by
  decide +kernel

/-- touching the box in the top-left corner `(0,2)` only -/
example : bboxLineIntersect ([[0, 2], [0, 2]] : List (List ℚ)) (-1, 1) (1, 3) = .ok .intersection := by
  decide +kernel

/-- collinear with the left edge, both ends outside -/
example : bboxLineIntersect ([[0, 2], [0, 2]] : List (List ℚ)) (0, -1) (0, 3) = .ok .intersection := by
  decide +kernel

/-- a miss: the line `y = x + 3` passes above the corner `(0,2)` -/
example : bboxLineIntersect ([[0, 2], [0, 2]] : List (List ℚ)) (-1, 2) (1, 4) = .ok .disjoint := by
  decide +kernel

/-- the line of the first example, stopped before the box -/
example : bboxLineIntersect ([[0, 2], [0, 2]] : List (List ℚ)) (-2, -1) (-1, 0) = .ok .disjoint := by
  decide +kernel

/-- the hypotheses of `bboxLineIntersect_exact` are satisfiable and its conclusion is used -/
example : ∃ u : ℚ, 0 ≤ u ∧ u ≤ 1 ∧
    InBox ((0 : ℚ), (2 : ℚ), (0 : ℚ), (2 : ℚ)) (-1 + u * (2 - -1), 0 + u * (3 - 0)) :=
  (bboxLineIntersect_exact ([[0, 2], [0, 2]] : List (List ℚ)) (-1, 0) (2, 3) 0 2 0 2
    (by decide +kernel) (by norm_num) (by norm_num)).mp (by decide +kernel)

example : bboxLineIntersect ([[0, 2], []] : List (List ℚ)) (-1, 0) (2, 3) = .error .valueError := by
  decide +kernel

end BezierVerif.BoxLine
