import BezierVerif.Model.Curve
import BezierVerif.Lemmas.Shift

/-!
# Lemmas/Bridge — the executable list model is the shift-operator calculus

`Model.dcRound` / `Model.evalDC` on lists equal `(T a b)^n` on the associated sequence; bounds
propagate through rounds with weights in `[0,1]` (convex hull / bounding box).
-/

namespace BezierVerif

open Finset Model

section Field
variable {K : Type} [Field K]

theorem dcRound_length (a b : K) : ∀ l : List K, (dcRound a b l).length = l.length - 1
  | [] => rfl
  | [_] => rfl
  | x :: y :: rest => by
    simp only [dcRound, List.length_cons]
    rw [dcRound_length a b (y :: rest)]; simp

theorem seq_dcRound (a b : K) : ∀ (l : List K) (j : ℕ), j + 1 < l.length →
    seq (dcRound a b l) j = T a b (seq l) j
  | [], j, h => by simp at h
  | [_], j, h => by simp at h
  | x :: y :: rest, 0, _ => by simp [dcRound, seq, T_apply]
  | x :: y :: rest, j+1, h => by
    have ih := seq_dcRound a b (y :: rest) j (by simpa using h)
    simp only [dcRound, seq, T_apply, List.getD_cons_succ] at ih ⊢
    exact ih

/-- locality of `T^m`: the value at `i` only reads indices `i .. i+m` -/
theorem T_pow_local (a b : K) : ∀ (m : ℕ) (u w : ℕ → K) (i : ℕ), (∀ j, i ≤ j → j ≤ i + m → u j = w j) →
    ((T a b)^m) u i = ((T a b)^m) w i := by
  intro m
  induction m with
  | zero => intro u w i h; simpa using h i le_rfl (by omega)
  | succ m ihm =>
    intro u w i h
    rw [pow_succ', Module.End.mul_apply, Module.End.mul_apply, T_apply, T_apply,
      ihm u w i (fun j h1 h2 => h j h1 (by omega)), ihm u w (i+1) (fun j h1 h2 => h j (by omega) (by omega))]

/-- the sequence of an iterated round, below the remaining length -/
theorem seq_iter_dcRound (a b : K) : ∀ (m : ℕ) (l : List K) (j : ℕ), j + m < l.length →
    seq (iter (dcRound a b) m l) j = ((T a b)^m) (seq l) j := by
  intro m
  induction m with
  | zero => intro l j _; simp [iter]
  | succ m ih =>
    intro l j h
    have hlen : (dcRound a b l).length = l.length - 1 := dcRound_length a b l
    rw [iter, ih (dcRound a b l) j (by rw [hlen]; omega), pow_succ, Module.End.mul_apply]
    apply T_pow_local
    intro k _ hk2
    exact seq_dcRound a b l k (by omega)

theorem iter_dcRound_length (a b : K) : ∀ (m : ℕ) (l : List K),
    (iter (dcRound a b) m l).length = l.length - m := by
  intro m
  induction m with
  | zero => intro l; simp [iter]
  | succ m ih => intro l; rw [iter, ih, dcRound_length]; omega

theorem headD_eq_seq (l : List K) : l.headD 0 = seq l 0 := by
  cases l <;> simp [seq]

/-- bridge: list evaluation = operator power applied to the sequence, at index 0 -/
theorem evalDC_eq (a b : K) : ∀ (n : ℕ) (l : List K), l.length = n + 1 →
    evalDC a b n l = ((T a b)^n) (seq l) 0 := by
  intro n
  induction n with
  | zero =>
    intro l hl
    match l, hl with
    | [x], _ => simp [evalDC, seq]
  | succ n ih =>
    intro l hl
    have hlen : (dcRound a b l).length = n + 1 := by rw [dcRound_length, hl]; rfl
    rw [evalDC, ih _ hlen, pow_succ, Module.End.mul_apply]
    apply T_pow_local
    intro j _ hj
    exact seq_dcRound a b l j (by omega)

/-- **de Casteljau = Bernstein sum**, for the list model, every degree -/
theorem evalDC_eq_bern (a b : K) (n : ℕ) (l : List K) (hl : l.length = n + 1) :
    evalDC a b n l = bern n a b (seq l) := by
  rw [evalDC_eq a b n l hl, T_pow_apply_zero]

end Field

section Ordered
variable {K : Type} [Field K] [LinearOrder K] [IsStrictOrderedRing K]

/-- bounds propagate through rounds with weights in [0,1] -/
theorem T_pow_le (t M : K) (ht0 : 0 ≤ t) (ht1 : t ≤ 1) : ∀ (n m : ℕ) (u : ℕ → K),
    (∀ j ≤ m + n, u j ≤ M) → ∀ j ≤ m, ((T (1-t) t)^n) u j ≤ M := by
  intro n
  induction n with
  | zero => intro m u h j hj; simpa using h j (by omega)
  | succ n ih =>
    intro m u h j hj
    rw [pow_succ', Module.End.mul_apply, T_apply]
    have h1 := ih m u (fun j hj => h j (by omega)) j hj
    have h2 := ih (m+1) u (fun j hj => h j (by omega)) (j+1) (by omega)
    nlinarith [mul_le_mul_of_nonneg_left h1 (sub_nonneg.mpr ht1), mul_le_mul_of_nonneg_left h2 ht0]

theorem T_pow_ge (t M : K) (ht0 : 0 ≤ t) (ht1 : t ≤ 1) : ∀ (n m : ℕ) (u : ℕ → K),
    (∀ j ≤ m + n, M ≤ u j) → ∀ j ≤ m, M ≤ ((T (1-t) t)^n) u j := by
  intro n
  induction n with
  | zero => intro m u h j hj; simpa using h j (by omega)
  | succ n ih =>
    intro m u h j hj
    rw [pow_succ', Module.End.mul_apply, T_apply]
    have h1 := ih m u (fun j hj => h j (by omega)) j hj
    have h2 := ih (m+1) u (fun j hj => h j (by omega)) (j+1) (by omega)
    nlinarith [mul_le_mul_of_nonneg_left h1 (sub_nonneg.mpr ht1), mul_le_mul_of_nonneg_left h2 ht0]

theorem seq_mem (l : List K) (j : ℕ) (hj : j < l.length) : seq l j ∈ l := by
  unfold seq
  rw [List.getD_eq_getElem?_getD, List.getElem?_eq_getElem hj]
  exact List.getElem_mem hj

/-- C01/C16: for s ∈ [0,1] the evaluated value lies between any bounds of the control values
    (applied per coordinate this is "the point lies in the bounding box"). -/
theorem evalDC_in_bounds (l : List K) (n : ℕ) (hl : l.length = n + 1) (s lo hi : K)
    (hs0 : 0 ≤ s) (hs1 : s ≤ 1) (hlo : ∀ x ∈ l, lo ≤ x) (hhi : ∀ x ∈ l, x ≤ hi) :
    lo ≤ evalDC (1-s) s n l ∧ evalDC (1-s) s n l ≤ hi := by
  rw [evalDC_eq _ _ n l hl]
  exact ⟨T_pow_ge s lo hs0 hs1 n 0 (seq l) (fun j hj => hlo _ (seq_mem l j (by omega))) 0 le_rfl,
         T_pow_le s hi hs0 hs1 n 0 (seq l) (fun j hj => hhi _ (seq_mem l j (by omega))) 0 le_rfl⟩

/-- strict lower bound -/
theorem T_pow_gt (t M : K) (ht0 : 0 ≤ t) (ht1 : t ≤ 1) : ∀ (n m : ℕ) (u : ℕ → K),
    (∀ j ≤ m + n, M < u j) → ∀ j ≤ m, M < ((T (1-t) t)^n) u j := by
  intro n
  induction n with
  | zero => intro m u h j hj; simpa using h j (by omega)
  | succ n ih =>
    intro m u h j hj
    rw [pow_succ', Module.End.mul_apply, T_apply]
    have h1 := ih m u (fun j hj => h j (by omega)) j hj
    have h2 := ih (m+1) u (fun j hj => h j (by omega)) (j+1) (by omega)
    rcases lt_or_eq_of_le ht1 with hlt | heq
    · nlinarith [mul_pos (sub_pos.mpr hlt) (sub_pos.mpr h1), mul_nonneg ht0 (sub_pos.mpr h2).le]
    · have e1 : (1 - t) * ((T (1-t) t)^n) u j = 0 := by rw [heq]; simp
      have e2 : t * ((T (1-t) t)^n) u (j+1) = ((T (1-t) t)^n) u (j+1) := by rw [heq]; simp
      rw [e1, e2, zero_add]; exact h2

/-- C03/C16 safety: if every x-control value of curve 1 is ≤ c and every x-control value of
    curve 2 is > c (this is `right1 < left2`), the curves never share an x-value on [0,1]². -/
theorem disjoint_ranges_no_meet (l1 l2 : List K) (n1 n2 : ℕ) (h1 : l1.length = n1+1) (h2 : l2.length = n2+1)
    (c : K) (hA : ∀ x ∈ l1, x ≤ c) (hB : ∀ y ∈ l2, c < y)
    (s t : K) (hs0 : 0 ≤ s) (hs1 : s ≤ 1) (ht0 : 0 ≤ t) (ht1 : t ≤ 1) :
    evalDC (1-s) s n1 l1 ≠ evalDC (1-t) t n2 l2 := by
  have a : evalDC (1-s) s n1 l1 ≤ c := by
    rw [evalDC_eq _ _ n1 l1 h1]
    exact T_pow_le s c hs0 hs1 n1 0 (seq l1) (fun j hj => hA _ (seq_mem l1 j (by omega))) 0 le_rfl
  have b : c < evalDC (1-t) t n2 l2 := by
    rw [evalDC_eq _ _ n2 l2 h2]
    exact T_pow_gt t c ht0 ht1 n2 0 (seq l2) (fun j hj => hB _ (seq_mem l2 j (by omega))) 0 le_rfl
  exact ne_of_lt (lt_of_le_of_lt a b)
end Ordered

end BezierVerif
