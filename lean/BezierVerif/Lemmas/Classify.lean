import BezierVerif.Model.Classify
import BezierVerif.Lemmas.Bridge
import Mathlib.Algebra.Order.Field.Basic
import Mathlib.Tactic.Positivity
import Mathlib.Tactic.Linarith
import Mathlib.Tactic.NormNum

/-!
# Lemmas/Classify — helper lemmas for the C06 component theorems

* `almostTangent` is positive;
* `minRow` / `maxRow` bound every entry of a row;
* `findIdx?` returns the first position satisfying the predicate;
* `forM` in `Except Err` succeeds iff every step succeeds.
-/

set_option linter.unusedSectionVars false

namespace BezierVerif.ClassifyLemmas

open Model Model.Classify

section Ordered
variable {K : Type} [Field K] [LinearOrder K] [IsStrictOrderedRing K]

theorem almostTangent_pos : (0 : K) < almostTangent := by
  unfold almostTangent q
  simp only [show ¬ ((1 : Int) < 0) by decide, if_false]
  have h : (0 : K) < ((1125899906842624 : Nat) : K) := by
    exact_mod_cast (by decide : (0 : Nat) < 1125899906842624)
  have h1 : (0 : K) < (((1 : Int).natAbs : Nat) : K) := by
    simp
  exact div_pos h1 h

theorem foldl_max_ge (l : List K) : ∀ init : K,
    init ≤ l.foldl (fun m x => if m < x then x else m) init ∧
    ∀ x ∈ l, x ≤ l.foldl (fun m x => if m < x then x else m) init := by
  induction l with
  | nil => intro init; simp
  | cons a rest ih =>
    intro init
    simp only [List.foldl_cons, List.mem_cons]
    obtain ⟨h1, h2⟩ := ih (if init < a then a else init)
    refine ⟨?_, ?_⟩
    · refine le_trans ?_ h1
      split_ifs with h
      · exact le_of_lt h
      · exact le_rfl
    · intro x hx
      rcases hx with rfl | hx
      · refine le_trans ?_ h1
        split_ifs with h
        · exact le_rfl
        · exact not_lt.mp h
      · exact h2 x hx

theorem foldl_min_le (l : List K) : ∀ init : K,
    l.foldl (fun m x => if x < m then x else m) init ≤ init ∧
    ∀ x ∈ l, l.foldl (fun m x => if x < m then x else m) init ≤ x := by
  induction l with
  | nil => intro init; simp
  | cons a rest ih =>
    intro init
    simp only [List.foldl_cons, List.mem_cons]
    obtain ⟨h1, h2⟩ := ih (if a < init then a else init)
    refine ⟨?_, ?_⟩
    · refine le_trans h1 ?_
      split_ifs with h
      · exact le_of_lt h
      · exact le_rfl
    · intro x hx
      rcases hx with rfl | hx
      · refine le_trans h1 ?_
        split_ifs with h
        · exact le_rfl
        · exact not_lt.mp h
      · exact h2 x hx

/-- every entry of a row is at most `maxRow` -/
theorem le_maxRow (r : List K) (x : K) (hx : x ∈ r) : x ≤ maxRow r := by
  cases r with
  | nil => simp at hx
  | cons a rest =>
    simp only [maxRow, List.tail_cons, List.headD_cons]
    rcases List.mem_cons.mp hx with rfl | h
    · exact (foldl_max_ge rest _).1
    · exact (foldl_max_ge rest a).2 x h

/-- every entry of a row is at least `minRow` -/
theorem minRow_le (r : List K) (x : K) (hx : x ∈ r) : minRow r ≤ x := by
  cases r with
  | nil => simp at hx
  | cons a rest =>
    simp only [minRow, List.tail_cons, List.headD_cons]
    rcases List.mem_cons.mp hx with rfl | h
    · exact (foldl_min_le rest _).1
    · exact (foldl_min_le rest a).2 x h

end Ordered

/-! ### `findIdx?` -/

theorem findIdx?_some {α : Type} (p : α → Bool) : ∀ (l : List α) (i : Nat), Classify.findIdx? p l = some i →
    i < l.length ∧ (∀ h : i < l.length, p (l[i]) = true) ∧ ∀ j, j < i → ∀ h : j < l.length, p (l[j]) = false := by
  intro l
  induction l with
  | nil => intro i h; simp [Classify.findIdx?] at h
  | cons a rest ih =>
    intro i h
    simp only [Classify.findIdx?] at h
    by_cases hp : p a = true
    · simp only [hp, if_true, Option.some.injEq] at h
      subst h
      refine ⟨by simp, fun _ => by simpa using hp, fun j hj => by omega⟩
    · simp only [hp, Bool.false_eq_true, if_false] at h
      cases hr : Classify.findIdx? p rest with
      | none => rw [hr] at h; simp at h
      | some k =>
        rw [hr] at h
        simp only [Option.map_some, Option.some.injEq] at h
        subst h
        obtain ⟨h1, h2, h3⟩ := ih k hr
        refine ⟨by simp; omega, fun _ => by simpa using h2 h1, ?_⟩
        intro j hj hjl
        cases j with
        | zero => simpa using hp
        | succ j =>
          simp only [List.getElem_cons_succ]
          exact h3 j (by omega) (by simp at hjl; omega)

theorem findIdx?_none {α : Type} (p : α → Bool) : ∀ (l : List α), Classify.findIdx? p l = none →
    ∀ x ∈ l, p x = false := by
  intro l
  induction l with
  | nil => intro _ x hx; simp at hx
  | cons a rest ih =>
    intro h x hx
    simp only [Classify.findIdx?] at h
    by_cases hp : p a = true
    · simp [hp] at h
    · simp only [hp, Bool.false_eq_true, if_false, Option.map_eq_none_iff] at h
      rcases List.mem_cons.mp hx with rfl | hx
      · simpa using hp
      · exact ih h x hx

/-! ### `forM` in `Except` -/

theorem forM_ok_iff {α : Type} (f : α → Except Err Unit) : ∀ l : List α,
    l.forM f = .ok () ↔ ∀ x ∈ l, f x = .ok () := by
  intro l
  induction l with
  | nil => simp [List.forM, pure, Except.pure]
  | cons a rest ih =>
    have hc : (a :: rest).forM f = (do f a; rest.forM f) := rfl
    rw [hc]
    constructor
    · intro h
      cases hfa : f a with
      | error e => rw [hfa] at h; simp [bind, Except.bind] at h
      | ok u =>
        rw [hfa] at h
        simp only [bind, Except.bind] at h
        intro x hx
        rcases List.mem_cons.mp hx with rfl | hx
        · exact hfa
        · exact (ih.mp h) x hx
    · intro h
      have ha := h a (by simp)
      rw [ha]
      simp only [bind, Except.bind]
      exact ih.mpr (fun x hx => h x (by simp [hx]))

end BezierVerif.ClassifyLemmas
