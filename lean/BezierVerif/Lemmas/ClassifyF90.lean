import BezierVerif.Model.Classify
import BezierVerif.Model.ClassifyF90
import Mathlib.Algebra.Order.Field.Basic
import Mathlib.Algebra.Order.AbsoluteValue.Basic
import Mathlib.Tactic.Ring
import Mathlib.Tactic.NormNum
import Mathlib.Tactic.Linarith
import Mathlib.Tactic.Positivity
import Mathlib.Tactic.LinearCombination

/-!
# Lemmas/ClassifyF90 — the Fortran `classify_tangent_intersection` on curvature VALUES vs. the model's squared form

`Model/ClassifyF90.lean` transcribes the Fortran routine (`F90.classifyTangentK`: curvature values, two-valued
`sign(1.0_dp, ·)`), `Model/Classify.lean` the Python routine in squared form (`classifyTangent`: `np.sign`,
`c₁² n₂³` vs `c₂² n₁³`).  Over a linearly ordered field they agree for non-vanishing tangents except for opposite
tangents with `κ₁ = 0 ≤ κ₂` (`classifyTangentK_eq_model`), and there they differ (`fortran_python_differ_at_zero_curvature`).
Used by `Tables/SrcF90Classify.lean` (source-level tie of `triangle_intersection.f90`).
-/

set_option linter.unusedSectionVars false
set_option linter.unusedVariables false
set_option linter.unusedSimpArgs false
set_option linter.unusedTactic false
set_option linter.unreachableTactic false

namespace BezierVerif.ClassifyF90

open BezierVerif.Model BezierVerif.Model.Classify

section Ordered
variable {K : Type} [Field K] [LinearOrder K] [IsStrictOrderedRing K]

/-! ## the Fortran routine on curvature values vs. the model's squared comparison

`get_curvature` returns `κ = c / N³` with `c = T × C` and `N = ‖T‖` (`get_curvature_eq`); the model compares
`c₁² n₂³` with `c₂² n₁³` (`n = N²`).  For tangents that do not vanish the two agree EXCEPT where Fortran's two-valued
`sign(1.0_dp, κ)` and NumPy's three-valued `np.sign(κ)` differ: opposite tangents, `κ₁ = 0 ≤ κ₂`. -/

theorem absK_eq_abs (x : K) : absK x = |x| := by
  unfold absK
  split_ifs with h
  · exact (abs_of_neg h).symm
  · exact (abs_of_nonneg (not_lt.mp h)).symm

theorem fsign_one (x : K) : F90.fsign 1 x = if x < 0 then -1 else 1 := by
  unfold F90.fsign
  rw [absK_eq_abs, abs_one]

theorem sgn_pos {x : K} (h : 0 < x) : sgn x = 1 := by simp [sgn, h]
theorem sgn_neg {x : K} (h : x < 0) : sgn x = -1 := by simp [sgn, h, not_lt.mpr h.le]
theorem sgn_zero : sgn (0 : K) = 0 := by simp [sgn]

/-- the heart: the sign of `|c₁ / D₁| - |c₂ / D₂|` (`Dᵢ = Nᵢ³ > 0`) is `absCurvCmp c₁ (N₁²) c₂ (N₂²)` -/
theorem absCurvCmp_spec (c1 c2 N1 N2 : K) (h1 : 0 < N1) (h2 : 0 < N2) :
    (absCurvCmp c1 (N1 * N1) c2 (N2 * N2) = 1 ↔ |c2 / (N2 * N2 * N2)| < |c1 / (N1 * N1 * N1)|) ∧
    (absCurvCmp c1 (N1 * N1) c2 (N2 * N2) = -1 ↔ |c1 / (N1 * N1 * N1)| < |c2 / (N2 * N2 * N2)|) ∧
    (absCurvCmp c1 (N1 * N1) c2 (N2 * N2) = 0 ↔ |c1 / (N1 * N1 * N1)| = |c2 / (N2 * N2 * N2)|) := by
  have hD1 : 0 < N1 * N1 * N1 := by positivity
  have hD2 : 0 < N2 * N2 * N2 := by positivity
  set D1 := N1 * N1 * N1 with hD1def
  set D2 := N2 * N2 * N2 with hD2def
  have hu : 0 ≤ |c1| * D2 := by positivity
  have hv : 0 ≤ |c2| * D1 := by positivity
  have ea : c1 * c1 * (N2 * N2 * (N2 * N2) * (N2 * N2)) = (|c1| * D2) * (|c1| * D2) := by
    rw [hD2def]; linear_combination (-(N2 * N2 * N2 * (N2 * N2 * N2))) * abs_mul_abs_self c1
  have eb : c2 * c2 * (N1 * N1 * (N1 * N1) * (N1 * N1)) = (|c2| * D1) * (|c2| * D1) := by
    rw [hD1def]; linear_combination (-(N1 * N1 * N1 * (N1 * N1 * N1))) * abs_mul_abs_self c2
  have k1 : |c1 / D1| = |c1| / D1 := by rw [abs_div, abs_of_pos hD1]
  have k2 : |c2 / D2| = |c2| / D2 := by rw [abs_div, abs_of_pos hD2]
  have cmp : ∀ x y : K, 0 ≤ x → 0 ≤ y → (x * x < y * y ↔ x < y) := by
    intro x y hx hy
    constructor
    · intro h; by_contra hc; have hc := not_lt.mp hc; nlinarith
    · intro h; nlinarith
  have lt1 : |c2| / D2 < |c1| / D1 ↔ |c2| * D1 < |c1| * D2 := by
    rw [div_lt_div_iff₀ hD2 hD1]
  have lt2 : |c1| / D1 < |c2| / D2 ↔ |c1| * D2 < |c2| * D1 := by
    rw [div_lt_div_iff₀ hD1 hD2]
  unfold absCurvCmp
  simp only [ea, eb, k1, k2, gt_iff_lt]
  rcases lt_trichotomy (|c1| * D2) (|c2| * D1) with h | h | h
  · have hsq := (cmp _ _ hu hv).mpr h
    have : ¬ (|c2| * D1 * (|c2| * D1) < |c1| * D2 * (|c1| * D2)) := not_lt.mpr hsq.le
    refine ⟨?_, ?_, ?_⟩
    · simp [this, hsq, lt1, not_lt.mpr h.le]
    · simp [this, hsq, lt2, h]
    · simp [this, hsq]
      intro heq
      have : |c1| * D2 = |c2| * D1 := by
        have := (div_eq_div_iff hD1.ne' hD2.ne').mp heq
        linarith
      exact absurd this h.ne
  · refine ⟨?_, ?_, ?_⟩
    · simp [h, lt1]
    · simp [h, lt2]
    · simp [h]
      rw [div_eq_div_iff hD1.ne' hD2.ne']
      linarith
  · have hsq := (cmp _ _ hv hu).mpr h
    have : ¬ (|c1| * D2 * (|c1| * D2) < |c2| * D1 * (|c2| * D1)) := not_lt.mpr hsq.le
    refine ⟨?_, ?_, ?_⟩
    · simp [this, hsq, lt1, h]
    · simp [this, hsq, lt2, not_lt.mpr h.le]
    · simp [this, hsq]
      intro heq
      have : |c1| * D2 = |c2| * D1 := by
        have := (div_eq_div_iff hD1.ne' hD2.ne').mp heq
        linarith
      exact absurd this h.ne'

set_option maxHeartbeats 1000000 in
/-- the bridge for `c₁ < 0` -/
theorem classifyTangentK_eq_model_neg (d c1 c2 N1 N2 : K) (h1 : 0 < N1) (h2 : 0 < N2) (hc1 : c1 < 0)
    (hz : ¬ (d < 0 ∧ c1 = 0 ∧ 0 ≤ c2)) :
    F90.classifyTangentK d (c1 / (N1 * N1 * N1)) (c2 / (N2 * N2 * N2)) =
      classifyTangent d c1 (N1 * N1) c2 (N2 * N2) := by
  have hD1 : 0 < N1 * N1 * N1 := by positivity
  have hD2 : 0 < N2 * N2 * N2 := by positivity
  have hn1 : 0 < N1 * N1 := by positivity
  have hn2 : 0 < N2 * N2 := by positivity
  have hm1 : ((-1 : K) = 1) ↔ False := by constructor <;> intro h <;> [linarith; exact h.elim]
  have hm2 : ((1 : K) = -1) ↔ False := by constructor <;> intro h <;> [linarith; exact h.elim]
  obtain ⟨sp1, sm1, s0⟩ := absCurvCmp_spec c1 c2 N1 N2 h1 h2
  have k1neg : c1 / (N1 * N1 * N1) < 0 ↔ c1 < 0 := by rw [div_lt_iff₀ hD1, zero_mul]
  have k1pos : 0 < c1 / (N1 * N1 * N1) ↔ 0 < c1 := by rw [lt_div_iff₀ hD1, zero_mul]
  have k2neg : c2 / (N2 * N2 * N2) < 0 ↔ c2 < 0 := by rw [div_lt_iff₀ hD2, zero_mul]
  have k2pos : 0 < c2 / (N2 * N2 * N2) ↔ 0 < c2 := by rw [lt_div_iff₀ hD2, zero_mul]
  generalize hk1 : c1 / (N1 * N1 * N1) = k1 at *
  generalize hk2 : c2 / (N2 * N2 * N2) = k2 at *
  generalize hA : absCurvCmp c1 (N1 * N1) c2 (N2 * N2) = A at *
  unfold F90.classifyTangentK classifyTangent curvCmp
  simp only [fsign_one, absK_eq_abs, hA, gt_iff_lt, hn1, hn2, and_self, not_true_eq_false, if_false]
  rcases lt_trichotomy c2 0 with hc2 | hc2 | hc2 <;> rcases lt_trichotomy |k1| |k2| with hab | hab | hab
  all_goals
    first
    | (have e1 := k1neg.mpr hc1; have a1 := abs_of_neg e1; rw [sgn_neg hc1])
    | (have e1 := k1pos.mpr hc1; have a1 := abs_of_pos e1; rw [sgn_pos hc1])
    | (subst hc1; have e1 : k1 = 0 := by rw [← hk1]; simp
       have a1 : |k1| = 0 := by rw [e1]; simp
       rw [sgn_zero])
  all_goals
    first
    | (have e2 := k2neg.mpr hc2; have a2 := abs_of_neg e2; rw [sgn_neg hc2])
    | (have e2 := k2pos.mpr hc2; have a2 := abs_of_pos e2; rw [sgn_pos hc2])
    | (subst hc2; have e2 : k2 = 0 := by rw [← hk2]; simp
       have a2 : |k2| = 0 := by rw [e2]; simp
       rw [sgn_zero])
  all_goals
    first
    | (have hAv := sm1.mpr hab)
    | (have hAv := s0.mpr hab)
    | (have hAv := sp1.mpr hab)
  all_goals
    subst hAv
    first
    | (have p5 : |k1| - |k2| = 0 := by linarith only [hab]
       try simp only [p5, if_true])
    | (have p5 : ¬ (|k1| - |k2| = 0) := fun h => by linarith only [hab, h]
       try simp only [p5, if_false])
    first
    | (have p6 : |k1| - |k2| < 0 := by linarith only [hab]
       try simp only [p6, if_true])
    | (have p6 : ¬ (|k1| - |k2| < 0) := by linarith only [hab]
       try simp only [p6, if_false])
    rw [a1, a2] at hab
    try simp only [a1, a2]
    try (have hd : ¬ d < 0 := fun h => hz ⟨h, rfl, by first | exact le_refl _ | exact le_of_lt hc2⟩
         simp only [hd, if_false])
    first
    | (have p1 : k1 < 0 := by linarith only [e1, e2, hab]
       try simp only [p1, if_true])
    | (have p1 : ¬ (k1 < 0) := by linarith only [e1, e2, hab]
       try simp only [p1, if_false])
    first
    | (have p2 : k2 < 0 := by linarith only [e1, e2, hab]
       try simp only [p2, if_true])
    | (have p2 : ¬ (k2 < 0) := by linarith only [e1, e2, hab]
       try simp only [p2, if_false])
    first
    | (have p3 : k2 < k1 := by linarith only [e1, e2, hab]
       try simp only [p3, if_true])
    | (have p3 : ¬ (k2 < k1) := by linarith only [e1, e2, hab]
       try simp only [p3, if_false])
    first
    | (have p4 : k1 < k2 := by linarith only [e1, e2, hab]
       try simp only [p4, if_true])
    | (have p4 : ¬ (k1 < k2) := by linarith only [e1, e2, hab]
       try simp only [p4, if_false])
    try simp only [hm1, hm2, if_true, if_false]
    first
    | rfl
    | (split_ifs <;> first | rfl | (exfalso; linarith only [e1, e2, hab]) | (exfalso; omega) | (exfalso; linarith) | (exfalso; simp only [eq_self_iff_true, not_true_eq_false] at *))

set_option maxHeartbeats 1000000 in
/-- the bridge for `c₁ = 0` -/
theorem classifyTangentK_eq_model_zero (d c1 c2 N1 N2 : K) (h1 : 0 < N1) (h2 : 0 < N2) (hc1 : c1 = 0)
    (hz : ¬ (d < 0 ∧ c1 = 0 ∧ 0 ≤ c2)) :
    F90.classifyTangentK d (c1 / (N1 * N1 * N1)) (c2 / (N2 * N2 * N2)) =
      classifyTangent d c1 (N1 * N1) c2 (N2 * N2) := by
  have hD1 : 0 < N1 * N1 * N1 := by positivity
  have hD2 : 0 < N2 * N2 * N2 := by positivity
  have hn1 : 0 < N1 * N1 := by positivity
  have hn2 : 0 < N2 * N2 := by positivity
  have hm1 : ((-1 : K) = 1) ↔ False := by constructor <;> intro h <;> [linarith; exact h.elim]
  have hm2 : ((1 : K) = -1) ↔ False := by constructor <;> intro h <;> [linarith; exact h.elim]
  obtain ⟨sp1, sm1, s0⟩ := absCurvCmp_spec c1 c2 N1 N2 h1 h2
  have k1neg : c1 / (N1 * N1 * N1) < 0 ↔ c1 < 0 := by rw [div_lt_iff₀ hD1, zero_mul]
  have k1pos : 0 < c1 / (N1 * N1 * N1) ↔ 0 < c1 := by rw [lt_div_iff₀ hD1, zero_mul]
  have k2neg : c2 / (N2 * N2 * N2) < 0 ↔ c2 < 0 := by rw [div_lt_iff₀ hD2, zero_mul]
  have k2pos : 0 < c2 / (N2 * N2 * N2) ↔ 0 < c2 := by rw [lt_div_iff₀ hD2, zero_mul]
  generalize hk1 : c1 / (N1 * N1 * N1) = k1 at *
  generalize hk2 : c2 / (N2 * N2 * N2) = k2 at *
  generalize hA : absCurvCmp c1 (N1 * N1) c2 (N2 * N2) = A at *
  unfold F90.classifyTangentK classifyTangent curvCmp
  simp only [fsign_one, absK_eq_abs, hA, gt_iff_lt, hn1, hn2, and_self, not_true_eq_false, if_false]
  rcases lt_trichotomy c2 0 with hc2 | hc2 | hc2 <;> rcases lt_trichotomy |k1| |k2| with hab | hab | hab
  all_goals
    first
    | (have e1 := k1neg.mpr hc1; have a1 := abs_of_neg e1; rw [sgn_neg hc1])
    | (have e1 := k1pos.mpr hc1; have a1 := abs_of_pos e1; rw [sgn_pos hc1])
    | (subst hc1; have e1 : k1 = 0 := by rw [← hk1]; simp
       have a1 : |k1| = 0 := by rw [e1]; simp
       rw [sgn_zero])
  all_goals
    first
    | (have e2 := k2neg.mpr hc2; have a2 := abs_of_neg e2; rw [sgn_neg hc2])
    | (have e2 := k2pos.mpr hc2; have a2 := abs_of_pos e2; rw [sgn_pos hc2])
    | (subst hc2; have e2 : k2 = 0 := by rw [← hk2]; simp
       have a2 : |k2| = 0 := by rw [e2]; simp
       rw [sgn_zero])
  all_goals
    first
    | (have hAv := sm1.mpr hab)
    | (have hAv := s0.mpr hab)
    | (have hAv := sp1.mpr hab)
  all_goals
    subst hAv
    first
    | (have p5 : |k1| - |k2| = 0 := by linarith only [hab]
       try simp only [p5, if_true])
    | (have p5 : ¬ (|k1| - |k2| = 0) := fun h => by linarith only [hab, h]
       try simp only [p5, if_false])
    first
    | (have p6 : |k1| - |k2| < 0 := by linarith only [hab]
       try simp only [p6, if_true])
    | (have p6 : ¬ (|k1| - |k2| < 0) := by linarith only [hab]
       try simp only [p6, if_false])
    rw [a1, a2] at hab
    try simp only [a1, a2]
    try (have hd : ¬ d < 0 := fun h => hz ⟨h, rfl, by first | exact le_refl _ | exact le_of_lt hc2⟩
         simp only [hd, if_false])
    first
    | (have p1 : k1 < 0 := by linarith only [e1, e2, hab]
       try simp only [p1, if_true])
    | (have p1 : ¬ (k1 < 0) := by linarith only [e1, e2, hab]
       try simp only [p1, if_false])
    first
    | (have p2 : k2 < 0 := by linarith only [e1, e2, hab]
       try simp only [p2, if_true])
    | (have p2 : ¬ (k2 < 0) := by linarith only [e1, e2, hab]
       try simp only [p2, if_false])
    first
    | (have p3 : k2 < k1 := by linarith only [e1, e2, hab]
       try simp only [p3, if_true])
    | (have p3 : ¬ (k2 < k1) := by linarith only [e1, e2, hab]
       try simp only [p3, if_false])
    first
    | (have p4 : k1 < k2 := by linarith only [e1, e2, hab]
       try simp only [p4, if_true])
    | (have p4 : ¬ (k1 < k2) := by linarith only [e1, e2, hab]
       try simp only [p4, if_false])
    try simp only [hm1, hm2, if_true, if_false]
    first
    | rfl
    | (split_ifs <;> first | rfl | (exfalso; linarith only [e1, e2, hab]) | (exfalso; omega) | (exfalso; linarith) | (exfalso; simp only [eq_self_iff_true, not_true_eq_false] at *))

set_option maxHeartbeats 1000000 in
/-- the bridge for `0 < c₁` -/
theorem classifyTangentK_eq_model_pos (d c1 c2 N1 N2 : K) (h1 : 0 < N1) (h2 : 0 < N2) (hc1 : 0 < c1)
    (hz : ¬ (d < 0 ∧ c1 = 0 ∧ 0 ≤ c2)) :
    F90.classifyTangentK d (c1 / (N1 * N1 * N1)) (c2 / (N2 * N2 * N2)) =
      classifyTangent d c1 (N1 * N1) c2 (N2 * N2) := by
  have hD1 : 0 < N1 * N1 * N1 := by positivity
  have hD2 : 0 < N2 * N2 * N2 := by positivity
  have hn1 : 0 < N1 * N1 := by positivity
  have hn2 : 0 < N2 * N2 := by positivity
  have hm1 : ((-1 : K) = 1) ↔ False := by constructor <;> intro h <;> [linarith; exact h.elim]
  have hm2 : ((1 : K) = -1) ↔ False := by constructor <;> intro h <;> [linarith; exact h.elim]
  obtain ⟨sp1, sm1, s0⟩ := absCurvCmp_spec c1 c2 N1 N2 h1 h2
  have k1neg : c1 / (N1 * N1 * N1) < 0 ↔ c1 < 0 := by rw [div_lt_iff₀ hD1, zero_mul]
  have k1pos : 0 < c1 / (N1 * N1 * N1) ↔ 0 < c1 := by rw [lt_div_iff₀ hD1, zero_mul]
  have k2neg : c2 / (N2 * N2 * N2) < 0 ↔ c2 < 0 := by rw [div_lt_iff₀ hD2, zero_mul]
  have k2pos : 0 < c2 / (N2 * N2 * N2) ↔ 0 < c2 := by rw [lt_div_iff₀ hD2, zero_mul]
  generalize hk1 : c1 / (N1 * N1 * N1) = k1 at *
  generalize hk2 : c2 / (N2 * N2 * N2) = k2 at *
  generalize hA : absCurvCmp c1 (N1 * N1) c2 (N2 * N2) = A at *
  unfold F90.classifyTangentK classifyTangent curvCmp
  simp only [fsign_one, absK_eq_abs, hA, gt_iff_lt, hn1, hn2, and_self, not_true_eq_false, if_false]
  rcases lt_trichotomy c2 0 with hc2 | hc2 | hc2 <;> rcases lt_trichotomy |k1| |k2| with hab | hab | hab
  all_goals
    first
    | (have e1 := k1neg.mpr hc1; have a1 := abs_of_neg e1; rw [sgn_neg hc1])
    | (have e1 := k1pos.mpr hc1; have a1 := abs_of_pos e1; rw [sgn_pos hc1])
    | (subst hc1; have e1 : k1 = 0 := by rw [← hk1]; simp
       have a1 : |k1| = 0 := by rw [e1]; simp
       rw [sgn_zero])
  all_goals
    first
    | (have e2 := k2neg.mpr hc2; have a2 := abs_of_neg e2; rw [sgn_neg hc2])
    | (have e2 := k2pos.mpr hc2; have a2 := abs_of_pos e2; rw [sgn_pos hc2])
    | (subst hc2; have e2 : k2 = 0 := by rw [← hk2]; simp
       have a2 : |k2| = 0 := by rw [e2]; simp
       rw [sgn_zero])
  all_goals
    first
    | (have hAv := sm1.mpr hab)
    | (have hAv := s0.mpr hab)
    | (have hAv := sp1.mpr hab)
  all_goals
    subst hAv
    first
    | (have p5 : |k1| - |k2| = 0 := by linarith only [hab]
       try simp only [p5, if_true])
    | (have p5 : ¬ (|k1| - |k2| = 0) := fun h => by linarith only [hab, h]
       try simp only [p5, if_false])
    first
    | (have p6 : |k1| - |k2| < 0 := by linarith only [hab]
       try simp only [p6, if_true])
    | (have p6 : ¬ (|k1| - |k2| < 0) := by linarith only [hab]
       try simp only [p6, if_false])
    rw [a1, a2] at hab
    try simp only [a1, a2]
    try (have hd : ¬ d < 0 := fun h => hz ⟨h, rfl, by first | exact le_refl _ | exact le_of_lt hc2⟩
         simp only [hd, if_false])
    first
    | (have p1 : k1 < 0 := by linarith only [e1, e2, hab]
       try simp only [p1, if_true])
    | (have p1 : ¬ (k1 < 0) := by linarith only [e1, e2, hab]
       try simp only [p1, if_false])
    first
    | (have p2 : k2 < 0 := by linarith only [e1, e2, hab]
       try simp only [p2, if_true])
    | (have p2 : ¬ (k2 < 0) := by linarith only [e1, e2, hab]
       try simp only [p2, if_false])
    first
    | (have p3 : k2 < k1 := by linarith only [e1, e2, hab]
       try simp only [p3, if_true])
    | (have p3 : ¬ (k2 < k1) := by linarith only [e1, e2, hab]
       try simp only [p3, if_false])
    first
    | (have p4 : k1 < k2 := by linarith only [e1, e2, hab]
       try simp only [p4, if_true])
    | (have p4 : ¬ (k1 < k2) := by linarith only [e1, e2, hab]
       try simp only [p4, if_false])
    try simp only [hm1, hm2, if_true, if_false]
    first
    | rfl
    | (split_ifs <;> first | rfl | (exfalso; linarith only [e1, e2, hab]) | (exfalso; omega) | (exfalso; linarith) | (exfalso; simp only [eq_self_iff_true, not_true_eq_false] at *))

/-- **Fortran on curvature values = the model's squared form**, for non-vanishing tangents (`Nᵢ = ‖Tᵢ‖ > 0`), outside
    the one configuration where `sign(1.0_dp, ·)` and `np.sign` differ (opposite tangents, `κ₁ = 0 ≤ κ₂`) -/
theorem classifyTangentK_eq_model (d c1 c2 N1 N2 : K) (h1 : 0 < N1) (h2 : 0 < N2)
    (hz : ¬ (d < 0 ∧ c1 = 0 ∧ 0 ≤ c2)) :
    F90.classifyTangentK d (c1 / (N1 * N1 * N1)) (c2 / (N2 * N2 * N2)) =
      classifyTangent d c1 (N1 * N1) c2 (N2 * N2) := by
  rcases lt_trichotomy c1 0 with hc1 | hc1 | hc1
  · exact classifyTangentK_eq_model_neg d c1 c2 N1 N2 h1 h2 hc1 hz
  · exact classifyTangentK_eq_model_zero d c1 c2 N1 N2 h1 h2 hc1 hz
  · exact classifyTangentK_eq_model_pos d c1 c2 N1 N2 h1 h2 hc1 hz

/-- the decision part: Fortran (curvature values) = model (squared form) -/
theorem classifyWithTangentsK_eq_model (s t : K) (T1 T2 P1 P2 : List K) (c1 c2 N1 N2 : K) (h1 : 0 < N1) (h2 : 0 < N2)
    (hz : ¬ (dot T1 T2 < 0 ∧ c1 = 0 ∧ 0 ≤ c2)) :
    F90.classifyWithTangentsK s t T1 T2 P1 P2 (c1 / (N1 * N1 * N1)) (c2 / (N2 * N2 * N2)) =
      classifyWithTangents s t T1 T2 P1 P2 c1 (N1 * N1) c2 (N2 * N2) := by
  unfold F90.classifyWithTangentsK classifyWithTangents
  rw [classifyTangentK_eq_model _ c1 c2 N1 N2 h1 h2 hz]

/-- … and exactly there they DO differ (`K = ℚ`): a straight edge (`κ₁ = 0`) touched from outside by a curved edge
    (`κ₂ = 2`), opposite tangents.  Fortran answers `OPPOSED` (the triangles only touch; the compiled
    `Triangle.intersect` returns `[]`), Python - and the model `classifyTangent` - `TANGENT_BOTH` (the pure-Python
    `Triangle.intersect` raises `ValueError('Point type not for tangency', TANGENT_BOTH)`). -/
theorem fortran_python_differ_at_zero_curvature :
    F90.classifyTangentK (-1 : ℚ) 0 2 = .ok .opposed ∧ classifyTangent (-1 : ℚ) 0 1 2 1 = .ok .tangentBoth := by
  constructor
  · simp only [F90.classifyTangentK, fsign_one]; norm_num
  · simp only [classifyTangent, sgn, absCurvCmp]; norm_num

end Ordered

end BezierVerif.ClassifyF90
