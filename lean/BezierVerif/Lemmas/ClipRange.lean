import BezierVerif.Model.Helpers
import BezierVerif.Lemmas.Shift
import BezierVerif.Lemmas.Bridge
import BezierVerif.Lemmas.Equivariance
import Mathlib.Algebra.Order.Field.Basic
import Mathlib.Algebra.Order.Field.Rat
import Mathlib.Algebra.Order.BigOperators.Ring.Finset
import Mathlib.Algebra.BigOperators.Ring.Finset
import Mathlib.Algebra.BigOperators.Intervals
import Mathlib.Tactic.Ring
import Mathlib.Tactic.Linarith
import Mathlib.Tactic.FieldSimp
import Mathlib.Tactic.SplitIfs

/-!
# Lemmas/ClipRange — containment for `clip_range` (Bézier clipping, `hazmat/clipping.py`)

`clipRange nodes1 nodes2` (Model/Helpers) intersects every segment `V_i V_j`, `i < j`, of the points
`V_j = (j, d_j)`, `d_j = a x_j + b y_j + c` (`(a, b, c, dMin, dMax)` the fat line of `nodes1`, `(x_j, y_j)`
the nodes of the second curve, `n = degree2`) with the two horizontal lines `y = dMin`, `y = dMax` and keeps
the smallest / largest crossing parameter.  Proved here, about the model as it is:

* `clipRange_facts`   what the double loop guarantees (`ClipFacts`): no pair segment is horizontal, the
  result is below / above every crossing parameter, the start values, `0 ≤ sMin, sMax ≤ 1`
  (`foldlM_ok` / `foldlM_error`: invariant rules for a `foldlM` over `Except`);
* `Side.bound` (via `halfplane_sum`) the geometry of one side: the vertices left of the clipping abscissa
  are strictly outside the strip and all on one side of it, the pairwise crossing inequalities give a
  supporting line through `(sMin · n, dMax)` resp. `(sMin · n, dMin)`; `sMax` is the mirror image;
* `clipRange_contains` **containment**: every convex combination of the `V_j` that lies in the strip
  `dMin ≤ y ≤ dMax` has its abscissa in `[sMin · n, sMax · n]` (`clipRange_contains_div`: divided by `n`,
  `clipRange_contains_list`: weights given as a list);
* `clipRange_contains_bern`, `clipRange_contains_curve` the Bernstein corollary: if the distance
  polynomial `d(t)` (resp. the point `B₂(t)` of the second curve), `0 ≤ t ≤ 1`, is inside the fat line then
  `sMin ≤ t ≤ sMax`;  `fatLine_contains`, `fatLine_contains_curve` + `clipRange_intersection`: a common
  point `B₁(s) = B₂(t)` has `sMin ≤ t ≤ sMax`;
* `clipRange_no_intersection` the result `sMax < sMin` (e.g. the unset markers `(1, 0)`) means that no convex
  combination lies in the strip;
* `computeFatLine_error_iff`, `clipRange_error_fat`, `clipRange_error_iff`, `clipRange_error_cases` the
  error branches.

Nothing is assumed about the data (`dMin ≤ dMax` follows from the existence of a point in the strip; a
single node, `n = 0`, is covered: no pairs, the result is the pair of start values).
-/

set_option linter.unusedSectionVars false
set_option linter.unusedVariables false

namespace BezierVerif.ClipRange

open BezierVerif Model Finset BezierVerif.Equivariance

variable {K : Type} [Field K] [LinearOrder K] [IsStrictOrderedRing K]

/-! ### `foldlM` over `Except` -/

/-- a successful `foldlM` over `Except`: every step succeeded, and a reflexive transitive relation
    that holds across every step links the start, the result of each step and the final result -/
theorem foldlM_ok {α β ε : Type} (f : α → β → Except ε α) (R : α → α → Prop)
    (hrefl : ∀ a, R a a) (htrans : ∀ a b c, R a b → R b c → R a c)
    (hstep : ∀ a b r, f a b = .ok r → R a r) :
    ∀ (l : List β) (a r : α), l.foldlM f a = .ok r →
      R a r ∧ ∀ b ∈ l, ∃ a' r', f a' b = .ok r' ∧ R r' r := by
  intro l
  induction l with
  | nil =>
    intro a r h
    simp only [List.foldlM_nil] at h
    cases h
    exact ⟨hrefl a, fun b hb => by cases hb⟩
  | cons b l ih =>
    intro a r h
    rw [List.foldlM_cons] at h
    cases hfa : f a b with
    | error e => rw [hfa] at h; cases h
    | ok a1 =>
      rw [hfa] at h
      obtain ⟨h1, h2⟩ := ih a1 r h
      refine ⟨htrans _ _ _ (hstep a b a1 hfa) h1, ?_⟩
      intro b' hb'
      rcases List.mem_cons.1 hb' with rfl | hb'
      · exact ⟨a, a1, hfa, h1⟩
      · exact h2 b' hb'

/-- a failed `foldlM` over `Except`: some step returned that error -/
theorem foldlM_error {α β ε : Type} (f : α → β → Except ε α) :
    ∀ (l : List β) (a : α) (e : ε), l.foldlM f a = .error e → ∃ b ∈ l, ∃ a', f a' b = .error e := by
  intro l
  induction l with
  | nil =>
    intro a e h
    simp only [List.foldlM_nil] at h
    cases h
  | cons b l ih =>
    intro a e h
    rw [List.foldlM_cons] at h
    cases hfa : f a b with
    | error e' =>
      rw [hfa] at h
      cases h
      exact ⟨b, List.mem_cons_self, a, hfa⟩
    | ok a1 =>
      rw [hfa] at h
      obtain ⟨b', hb', a', h'⟩ := ih a1 e h
      exact ⟨b', List.mem_cons_of_mem _ hb', a', h'⟩

/-! ### a segment against a horizontal line -/

theorem inInterval_iff (v a b : K) : inInterval v a b = true ↔ a ≤ v ∧ v ≤ b := by
  simp [inInterval]

/-- `segment_intersection` of the horizontal segment `(0, dv) → (n, dv)` with `(xi, di) → (xj, dj)`:
    on success neither segment is degenerate in the relevant direction, `s · n` is the abscissa of the
    crossing and `t` the parameter along the second segment -/
theorem seg_horizontal (n dv xi di xj dj s t : K)
    (h : segmentIntersection ((0 : K), dv) (n, dv) (xi, di) (xj, dj) = some (s, t)) :
    n ≠ 0 ∧ dj ≠ di ∧ s * n = xi + t * (xj - xi) ∧ di + t * (dj - di) = dv := by
  unfold segmentIntersection at h
  simp only at h
  split_ifs at h with hc
  simp only [Option.some.injEq, Prod.mk.injEq] at h
  obtain ⟨hs, ht⟩ := h
  simp only [psub, cross] at hc hs ht
  have hn : n ≠ 0 := by rintro rfl; apply hc; ring
  have hd : dj ≠ di := by intro e; apply hc; rw [e]; ring
  have hdd : dj - di ≠ 0 := sub_ne_zero.mpr hd
  refine ⟨hn, hd, ?_, ?_⟩
  · rw [← hs, ← ht]; field_simp; ring
  · rw [← ht]; field_simp; ring

/-- failure of `segment_intersection` against a horizontal line: `n = 0` or the segment is horizontal -/
theorem seg_horizontal_none (n dv xi di xj dj : K)
    (h : segmentIntersection ((0 : K), dv) (n, dv) (xi, di) (xj, dj) = none) : n = 0 ∨ dj = di := by
  unfold segmentIntersection at h
  simp only at h
  split_ifs at h with hc
  simp only [psub, cross] at hc
  have : n * (dj - di) = 0 := by linear_combination hc
  rcases mul_eq_zero.1 this with h0 | h0
  · exact Or.inl h0
  · exact Or.inr (sub_eq_zero.1 h0)

/-! ### `_update_parameters` -/

/-- the relation between the running pair before and after any number of updates -/
def Widen (p r : K × K) : Prop :=
  r.1 ≤ p.1 ∧ p.2 ≤ r.2 ∧ (0 ≤ p.1 → 0 ≤ r.1) ∧ (p.2 ≤ 1 → r.2 ≤ 1)

theorem Widen.refl (p : K × K) : Widen p p := ⟨le_rfl, le_rfl, id, id⟩

theorem Widen.trans (p q r : K × K) (h1 : Widen p q) (h2 : Widen q r) : Widen p r :=
  ⟨le_trans h2.1 h1.1, le_trans h1.2.1 h2.2.1, fun h => h2.2.2.1 (h1.2.2.1 h), fun h => h2.2.2.2 (h1.2.2.2 h)⟩

/-- an update can only lower `s_min` and raise `s_max`, inside `[0, 1]` (any arguments) -/
theorem update_widen (m1 m2 : K) (S0 E0 S1 E1 : Pt K) (r : K × K)
    (h : updateParameters m1 m2 S0 E0 S1 E1 = .ok r) : Widen (m1, m2) r := by
  unfold updateParameters at h
  cases hseg : segmentIntersection S0 E0 S1 E1 with
  | none => rw [hseg] at h; cases h
  | some st =>
    obtain ⟨s, t⟩ := st
    rw [hseg] at h
    simp only at h
    by_cases hin : inInterval t 0 1 = true
    · rw [if_pos hin] at h
      cases h
      refine ⟨?_, ?_, ?_, ?_⟩ <;> simp only
      · split_ifs with c
        · exact ((inInterval_iff _ _ _).1 c).2
        · exact le_rfl
      · split_ifs with c
        · exact ((inInterval_iff _ _ _).1 c).1
        · exact le_rfl
      · intro h0
        split_ifs with c
        · exact ((inInterval_iff _ _ _).1 c).1
        · exact h0
      · intro h0
        split_ifs with c
        · exact ((inInterval_iff _ _ _).1 c).2
        · exact h0
    · rw [if_neg hin] at h
      cases h
      exact Widen.refl _

/-- an update against the horizontal line `y = dv` succeeds only for a non-horizontal segment and puts the
    crossing abscissa (if the crossing is on the segment) between `s_min · n` and `s_max · n` -/
theorem update_cross (n dv xi di xj dj m1 m2 : K) (r : K × K) (hn : 0 < n) (hxi : 0 ≤ xi) (hij : xi ≤ xj)
    (hxj : xj ≤ n)
    (h : updateParameters m1 m2 ((0 : K), dv) (n, dv) (xi, di) (xj, dj) = .ok r) :
    dj ≠ di ∧ ∀ t, 0 ≤ t → t ≤ 1 → di + t * (dj - di) = dv →
      r.1 * n ≤ xi + t * (xj - xi) ∧ xi + t * (xj - xi) ≤ r.2 * n := by
  unfold updateParameters at h
  cases hseg : segmentIntersection ((0 : K), dv) (n, dv) (xi, di) (xj, dj) with
  | none => rw [hseg] at h; cases h
  | some st =>
    obtain ⟨s, t⟩ := st
    rw [hseg] at h
    simp only at h
    obtain ⟨hn0, hd, hs, ht⟩ := seg_horizontal n dv xi di xj dj s t hseg
    refine ⟨hd, ?_⟩
    intro t' ht0 ht1 hteq
    have hdd : dj - di ≠ 0 := sub_ne_zero.mpr hd
    have htt : t' = t := by
      have : (t' - t) * (dj - di) = 0 := by linear_combination hteq - ht
      rcases mul_eq_zero.1 this with h0 | h0
      · exact sub_eq_zero.1 h0
      · exact absurd h0 hdd
    subst htt
    have hin : inInterval t' 0 1 = true := (inInterval_iff _ _ _).2 ⟨ht0, ht1⟩
    rw [if_pos hin] at h
    cases h
    simp only
    have hX0 : 0 ≤ xi + t' * (xj - xi) := by
      have := mul_nonneg ht0 (sub_nonneg.2 hij); linarith
    have hX1 : xi + t' * (xj - xi) ≤ n := by
      have := mul_nonneg (sub_nonneg.2 ht1) (sub_nonneg.2 hij); nlinarith
    have hs0 : 0 ≤ s := by
      by_contra hneg
      have := mul_neg_of_neg_of_pos (not_le.1 hneg) hn
      linarith
    have hs1 : s ≤ 1 := by
      by_contra hgt
      have := mul_lt_mul_of_pos_right (not_le.1 hgt) hn
      linarith
    rw [← hs]
    constructor
    · apply mul_le_mul_of_nonneg_right _ hn.le
      split_ifs with c
      · exact le_rfl
      · rw [inInterval_iff] at c
        exact (not_le.1 (fun hle => c ⟨hs0, hle⟩)).le
    · apply mul_le_mul_of_nonneg_right _ hn.le
      split_ifs with c
      · exact le_rfl
      · rw [inInterval_iff] at c
        exact (not_le.1 (fun hle => c ⟨hle, hs1⟩)).le

/-! ### the double loop of `clip_range` -/

/-- the control "distance" `d_j = a x_j + b y_j + c` of node `j` -/
def ctrlDist (a b c : K) (nodes : List (Pt K)) (j : ℕ) : K :=
  a * (getP nodes j).1 + b * (getP nodes j).2 + c

theorem getP_polynomial (nodes : List (Pt K)) (a b c : K) (j : ℕ) (hj : j < nodes.length) :
    getP (clipRangePolynomial nodes a b c) j = ((j : K), ctrlDist a b c nodes j) := by
  unfold getP clipRangePolynomial ctrlDist
  rw [List.getD_eq_getElem?_getD, List.getElem?_map, List.getElem?_range hj]
  rfl

/-- body of the double loop: the update against `y = lo` followed by the update against `y = hi` -/
def clipStep (poly : List (Pt K)) (deg lo hi : K) (acc : K × K) (ie : ℕ × ℕ) : Except Err (K × K) :=
  match updateParameters acc.1 acc.2 ((0 : K), lo) (deg, lo) (getP poly ie.1) (getP poly ie.2) with
  | .error e => .error e
  | .ok (m1, m2) => updateParameters m1 m2 ((0 : K), hi) (deg, hi) (getP poly ie.1) (getP poly ie.2)

/-- the index pairs `start_index < end_index ≤ degree2` in loop order -/
def clipPairs (degree2 : ℕ) : List (ℕ × ℕ) :=
  (List.range degree2).flatMap (fun startIndex =>
    (List.range' (startIndex + 1) (degree2 - startIndex)).map (fun endIndex => (startIndex, endIndex)))

theorem mem_clipPairs (n i j : ℕ) : (i, j) ∈ clipPairs n ↔ i < j ∧ j ≤ n := by
  unfold clipPairs
  simp only [List.mem_flatMap, List.mem_range, List.mem_map, List.mem_range'_1, Prod.mk.injEq]
  constructor
  · rintro ⟨i', hi', j', hj', rfl, rfl⟩
    omega
  · rintro ⟨h1, h2⟩
    exact ⟨i, by omega, j, by omega, rfl, rfl⟩

/-- `clipRange` with the loop body and the pair list named -/
theorem clipRange_eq (nodes1 nodes2 : List (Pt K)) :
    clipRange nodes1 nodes2 =
      match computeFatLine nodes1 with
      | .error e => .error e
      | .ok (a, b, c, dMin, dMax) =>
        if nodes2.isEmpty then .error .badInput
        else
          let first := ctrlDist a b c nodes2 0
          let last := ctrlDist a b c nodes2 (nodes2.length - 1)
          (clipPairs (nodes2.length - 1)).foldlM
            (clipStep (clipRangePolynomial nodes2 a b c) ((nodes2.length - 1 : ℕ) : K) dMin dMax)
            ((if dMin ≤ first ∧ first ≤ dMax then (0 : K) else 1),
             (if dMin ≤ last ∧ last ≤ dMax then (1 : K) else 0)) := by
  unfold clipRange
  cases hfat : computeFatLine nodes1 with
  | error e => rfl
  | ok v =>
    obtain ⟨a, b, c, dMin, dMax⟩ := v
    simp only
    cases nodes2 with
    | nil => rfl
    | cons p ps =>
      have h0 := getP_polynomial (p :: ps) a b c 0 (by simp)
      have h1 := getP_polynomial (p :: ps) a b c ((p :: ps).length - 1) (by simp)
      simp only [List.isEmpty_cons, Bool.false_eq_true, if_false] at *
      rw [h0, h1]
      rfl

/-- what the double loop of `clip_range` guarantees about the returned pair; `n = degree2`,
    `d j` the control distances, `lo = d_min`, `hi = d_max` -/
structure ClipFacts (n : ℕ) (d : ℕ → K) (lo hi sMin sMax : K) : Prop where
  /-- no segment `V_i V_j` is horizontal (else `NotImplementedError`) -/
  nonpar : ∀ i j, i < j → j ≤ n → d j ≠ d i
  /-- `s_min = 0` when the first control distance is inside the fat line -/
  min_first : lo ≤ d 0 → d 0 ≤ hi → sMin ≤ 0
  /-- `s_max = 1` when the last control distance is inside the fat line -/
  max_last : lo ≤ d n → d n ≤ hi → 1 ≤ sMax
  min_nonneg : 0 ≤ sMin
  min_le_one : sMin ≤ 1
  max_nonneg : 0 ≤ sMax
  max_le_one : sMax ≤ 1
  /-- every crossing of a segment `V_i V_j` with one of the two lines has abscissa in `[sMin·n, sMax·n]` -/
  cross : ∀ i j, i < j → j ≤ n → ∀ dv, dv = lo ∨ dv = hi → ∀ t, 0 ≤ t → t ≤ 1 →
    d i + t * (d j - d i) = dv →
    sMin * (n : K) ≤ (i : K) + t * ((j : K) - (i : K)) ∧ (i : K) + t * ((j : K) - (i : K)) ≤ sMax * (n : K)

theorem clipStep_widen (poly : List (Pt K)) (deg lo hi : K) (acc r : K × K) (ie : ℕ × ℕ)
    (h : clipStep poly deg lo hi acc ie = .ok r) : Widen acc r := by
  unfold clipStep at h
  cases h1 : updateParameters acc.1 acc.2 ((0 : K), lo) (deg, lo) (getP poly ie.1) (getP poly ie.2) with
  | error e => rw [h1] at h; cases h
  | ok m =>
    obtain ⟨m1, m2⟩ := m
    rw [h1] at h
    simp only at h
    exact Widen.trans _ _ _ (update_widen _ _ _ _ _ _ _ h1) (update_widen _ _ _ _ _ _ _ h)

theorem clipStep_cross (nodes : List (Pt K)) (a b c lo hi : K) (acc r : K × K) (i j : ℕ)
    (hij : i < j) (hj : j ≤ nodes.length - 1)
    (h : clipStep (clipRangePolynomial nodes a b c) ((nodes.length - 1 : ℕ) : K) lo hi acc (i, j) = .ok r) :
    ctrlDist a b c nodes j ≠ ctrlDist a b c nodes i ∧
    ∀ dv, dv = lo ∨ dv = hi → ∀ t, 0 ≤ t → t ≤ 1 →
      ctrlDist a b c nodes i + t * (ctrlDist a b c nodes j - ctrlDist a b c nodes i) = dv →
      r.1 * ((nodes.length - 1 : ℕ) : K) ≤ (i : K) + t * ((j : K) - (i : K)) ∧
      (i : K) + t * ((j : K) - (i : K)) ≤ r.2 * ((nodes.length - 1 : ℕ) : K) := by
  have hn : (0 : K) < ((nodes.length - 1 : ℕ) : K) := Nat.cast_pos.2 (by omega)
  have hxi : (0 : K) ≤ (i : K) := Nat.cast_nonneg i
  have hxij : (i : K) ≤ (j : K) := Nat.cast_le.2 hij.le
  have hxj : (j : K) ≤ ((nodes.length - 1 : ℕ) : K) := Nat.cast_le.2 hj
  unfold clipStep at h
  simp only at h
  rw [getP_polynomial nodes a b c i (by omega), getP_polynomial nodes a b c j (by omega)] at h
  cases h1 : updateParameters acc.1 acc.2 ((0 : K), lo) (((nodes.length - 1 : ℕ) : K), lo)
      ((i : K), ctrlDist a b c nodes i) ((j : K), ctrlDist a b c nodes j) with
  | error e => rw [h1] at h; cases h
  | ok m =>
    obtain ⟨m1, m2⟩ := m
    rw [h1] at h
    simp only at h
    obtain ⟨hd, hlo⟩ := update_cross _ _ _ _ _ _ _ _ _ hn hxi hxij hxj h1
    obtain ⟨_, hhi⟩ := update_cross _ _ _ _ _ _ _ _ _ hn hxi hxij hxj h
    have hw := update_widen _ _ _ _ _ _ _ h
    refine ⟨hd, ?_⟩
    rintro dv (rfl | rfl) t ht0 ht1 hteq
    · obtain ⟨e1, e2⟩ := hlo t ht0 ht1 hteq
      exact ⟨le_trans (mul_le_mul_of_nonneg_right hw.1 hn.le) e1,
        le_trans e2 (mul_le_mul_of_nonneg_right hw.2.1 hn.le)⟩
    · exact hhi t ht0 ht1 hteq

/-- **what the loop guarantees**: a successful `clipRange` returns a pair with the `ClipFacts` -/
theorem clipRange_facts (nodes1 nodes2 : List (Pt K)) (a b c dMin dMax sMin sMax : K)
    (hfat : computeFatLine nodes1 = .ok (a, b, c, dMin, dMax))
    (hclip : clipRange nodes1 nodes2 = .ok (sMin, sMax)) :
    ClipFacts (nodes2.length - 1) (ctrlDist a b c nodes2) dMin dMax sMin sMax := by
  rw [clipRange_eq, hfat] at hclip
  simp only at hclip
  by_cases hemp : nodes2.isEmpty = true
  · rw [if_pos hemp] at hclip; cases hclip
  rw [if_neg hemp] at hclip
  obtain ⟨hW, hall⟩ := foldlM_ok _ Widen Widen.refl Widen.trans
    (fun acc ie r h => clipStep_widen _ _ _ _ acc r ie h) _ _ _ hclip
  have hn0 : (0 : K) ≤ ((nodes2.length - 1 : ℕ) : K) := Nat.cast_nonneg _
  obtain ⟨w1, w2, w3, w4⟩ := hW
  simp only at w1 w2 w3 w4
  have key : ∀ i j, i < j → j ≤ nodes2.length - 1 →
      ctrlDist a b c nodes2 j ≠ ctrlDist a b c nodes2 i ∧
      ∀ dv, dv = dMin ∨ dv = dMax → ∀ t, 0 ≤ t → t ≤ 1 →
        ctrlDist a b c nodes2 i + t * (ctrlDist a b c nodes2 j - ctrlDist a b c nodes2 i) = dv →
        sMin * ((nodes2.length - 1 : ℕ) : K) ≤ (i : K) + t * ((j : K) - (i : K)) ∧
        (i : K) + t * ((j : K) - (i : K)) ≤ sMax * ((nodes2.length - 1 : ℕ) : K) := by
    intro i j hij hj
    obtain ⟨acc, r, hstep, hr⟩ := hall (i, j) ((mem_clipPairs _ _ _).2 ⟨hij, hj⟩)
    obtain ⟨hd, hc⟩ := clipStep_cross nodes2 a b c dMin dMax acc r i j hij hj hstep
    refine ⟨hd, ?_⟩
    intro dv hdv t ht0 ht1 hteq
    obtain ⟨e1, e2⟩ := hc dv hdv t ht0 ht1 hteq
    exact ⟨le_trans (mul_le_mul_of_nonneg_right hr.1 hn0) e1,
      le_trans e2 (mul_le_mul_of_nonneg_right hr.2.1 hn0)⟩
  refine ⟨fun i j hij hj => (key i j hij hj).1, ?_, ?_, ?_, ?_, ?_, ?_,
    fun i j hij hj => (key i j hij hj).2⟩
  · intro h1 h2
    rw [if_pos ⟨h1, h2⟩] at w1
    exact w1
  · intro h1 h2
    rw [if_pos ⟨h1, h2⟩] at w2
    exact w2
  · apply w3
    split_ifs <;> norm_num
  · refine le_trans w1 ?_
    split_ifs <;> norm_num
  · refine le_trans ?_ w2
    split_ifs <;> norm_num
  · apply w4
    split_ifs <;> norm_num

/-! ### geometry: a supporting half-plane from pairwise crossing inequalities -/

/-- the separation step.  `x i` is the signed offset of vertex `i` from the clipping abscissa and
    `y i` its signed height below the relevant boundary line.  If every vertex on the wrong side
    (`x i < 0`) is strictly beyond the line (`y i < 0`) and every segment from such a vertex to a vertex
    on or inside the line crosses the line on the right side (the pairwise inequality), then every
    nonnegative combination that is on or inside the line (`0 ≤ Σ w y`) is on the right side. -/
theorem halfplane_sum {ι : Type} (s : Finset ι) (w x y : ι → K) (hw : ∀ i ∈ s, 0 ≤ w i)
    (h1 : ∀ i ∈ s, x i < 0 → y i < 0)
    (h2 : ∀ i ∈ s, ∀ j ∈ s, x i < 0 → 0 ≤ y j → (-x i) * y j ≤ (-y i) * x j)
    (hY : 0 ≤ ∑ i ∈ s, w i * y i) : 0 ≤ ∑ i ∈ s, w i * x i := by
  classical
  set u : ι → K := fun i => if x i < 0 then -x i else 0 with hu
  set p : ι → K := fun i => if x i < 0 then -y i else 0 with hp
  set q : ι → K := fun i => if 0 ≤ y i then y i else 0 with hq
  set v : ι → K := fun i => if 0 ≤ y i then x i else 0 with hv
  have hxv : ∀ i ∈ s, 0 ≤ y i → 0 ≤ x i := fun i hi hy => by
    by_contra hneg
    exact absurd (h1 i hi (not_le.1 hneg)) (not_lt.2 hy)
  have u0 : ∀ i ∈ s, 0 ≤ u i := fun i hi => by
    simp only [hu]; split_ifs with c
    · linarith
    · exact le_rfl
  have p0 : ∀ i ∈ s, 0 ≤ p i := fun i hi => by
    simp only [hp]; split_ifs with c
    · have := h1 i hi c; linarith
    · exact le_rfl
  have q0 : ∀ i ∈ s, 0 ≤ q i := fun i hi => by
    simp only [hq]; split_ifs with c
    · exact c
    · exact le_rfl
  have v0 : ∀ i ∈ s, 0 ≤ v i := fun i hi => by
    simp only [hv]; split_ifs with c
    · exact hxv i hi c
    · exact le_rfl
  have pu : ∀ i ∈ s, p i = 0 → u i = 0 := fun i hi => by
    simp only [hp, hu]; split_ifs with c
    · intro h0; have := h1 i hi c; linarith
    · intro _; rfl
  have hx : ∀ i ∈ s, v i - u i ≤ x i := fun i hi => by
    simp only [hv, hu]
    by_cases c : x i < 0
    · have := h1 i hi c
      rw [if_neg (not_le.2 this), if_pos c]; linarith
    · rw [if_neg c]
      split_ifs <;> linarith
  have hy : ∀ i ∈ s, y i ≤ q i - p i := fun i hi => by
    simp only [hq, hp]
    by_cases c : x i < 0
    · have := h1 i hi c
      rw [if_neg (not_le.2 this), if_pos c]; linarith
    · rw [if_neg c]
      split_ifs <;> linarith
  have hpair : ∀ i ∈ s, ∀ j ∈ s, u i * q j ≤ p i * v j := fun i hi j hj => by
    simp only [hu, hq, hp, hv]
    by_cases c : x i < 0
    · by_cases c' : 0 ≤ y j
      · rw [if_pos c, if_pos c, if_pos c', if_pos c']
        exact h2 i hi j hj c c'
      · rw [if_neg c', if_neg c']; simp
    · rw [if_neg c, if_neg c]; simp
  -- the four sums
  have hxs : ∑ i ∈ s, w i * v i - ∑ i ∈ s, w i * u i ≤ ∑ i ∈ s, w i * x i := by
    rw [← Finset.sum_sub_distrib]
    apply Finset.sum_le_sum
    intro i hi
    have := mul_le_mul_of_nonneg_left (hx i hi) (hw i hi)
    linarith
  have hys : ∑ i ∈ s, w i * y i ≤ ∑ i ∈ s, w i * q i - ∑ i ∈ s, w i * p i := by
    rw [← Finset.sum_sub_distrib]
    apply Finset.sum_le_sum
    intro i hi
    have := mul_le_mul_of_nonneg_left (hy i hi) (hw i hi)
    linarith
  have hP0 : 0 ≤ ∑ i ∈ s, w i * p i := Finset.sum_nonneg (fun i hi => mul_nonneg (hw i hi) (p0 i hi))
  have hV0 : 0 ≤ ∑ i ∈ s, w i * v i := Finset.sum_nonneg (fun i hi => mul_nonneg (hw i hi) (v0 i hi))
  have hUQ : (∑ i ∈ s, w i * u i) * (∑ j ∈ s, w j * q j) ≤ (∑ i ∈ s, w i * p i) * (∑ j ∈ s, w j * v j) := by
    rw [Finset.sum_mul_sum, Finset.sum_mul_sum]
    apply Finset.sum_le_sum
    intro i hi
    apply Finset.sum_le_sum
    intro j hj
    have := mul_le_mul_of_nonneg_left (hpair i hi j hj) (mul_nonneg (hw i hi) (hw j hj))
    calc w i * u i * (w j * q j) = w i * w j * (u i * q j) := by ring
      _ ≤ w i * w j * (p i * v j) := this
      _ = w i * p i * (w j * v j) := by ring
  have hUV : ∑ i ∈ s, w i * u i ≤ ∑ i ∈ s, w i * v i := by
    rcases hP0.eq_or_lt with hP | hP
    · have hz := (Finset.sum_eq_zero_iff_of_nonneg
        (fun i hi => mul_nonneg (hw i hi) (p0 i hi))).1 hP.symm
      have : ∑ i ∈ s, w i * u i = 0 := by
        apply Finset.sum_eq_zero
        intro i hi
        rcases mul_eq_zero.1 (hz i hi) with h0 | h0
        · rw [h0, zero_mul]
        · rw [pu i hi h0, mul_zero]
      rw [this]; exact hV0
    · have hQ : 0 < ∑ j ∈ s, w j * q j := by linarith
      have hPQ : ∑ i ∈ s, w i * p i ≤ ∑ j ∈ s, w j * q j := by linarith
      have h3 := mul_le_mul_of_nonneg_right hPQ hV0
      exact le_of_mul_le_mul_right (le_trans hUQ (by linarith [mul_comm (∑ j ∈ s, w j * q j) (∑ i ∈ s, w i * v i)])) hQ
  linarith

/-- one side of the clipped range, abstractly: vertices `(ξ j, d j)`, `j ≤ n`; `e` is the vertex of
    least abscissa; `b` is a lower bound for the abscissa of `e` (if `e` is in the strip) and of every
    crossing of a segment between two vertices with the lines `y = lo`, `y = hi`. -/
structure Side (n : ℕ) (ξ d : ℕ → K) (lo hi b : K) (e : ℕ) : Prop where
  he : e ≤ n
  hmin : ∀ j, j ≤ n → ξ e ≤ ξ j
  first : lo ≤ d e → d e ≤ hi → b ≤ ξ e
  nonpar : ∀ i j, i ≤ n → j ≤ n → i ≠ j → d j ≠ d i
  cross : ∀ i j, i ≤ n → j ≤ n → i ≠ j → ∀ dv, dv = lo ∨ dv = hi → ∀ t, 0 ≤ t → t ≤ 1 →
    d i + t * (d j - d i) = dv → b ≤ ξ i + t * (ξ j - ξ i)

/-- a boundary value between two control distances gives a crossing -/
theorem Side.between {n : ℕ} {ξ d : ℕ → K} {lo hi b : K} {e : ℕ} (S : Side n ξ d lo hi b e)
    (i j : ℕ) (hi' : i ≤ n) (hj : j ≤ n) (dv : K) (hdv : dv = lo ∨ dv = hi)
    (h1 : d j ≤ dv) (h2 : dv ≤ d i) (hne : d j < d i) :
    ∃ t, 0 ≤ t ∧ t ≤ 1 ∧ t * (d i - d j) = d i - dv ∧ b ≤ ξ i + t * (ξ j - ξ i) := by
  have hpos : 0 < d i - d j := sub_pos.2 hne
  have hij : i ≠ j := by rintro rfl; exact lt_irrefl _ hne
  refine ⟨(d i - dv) / (d i - d j), div_nonneg (sub_nonneg.2 h2) hpos.le,
    (div_le_one hpos).2 (by linarith), div_mul_cancel₀ _ hpos.ne', ?_⟩
  apply S.cross i j hi' hj hij dv hdv _ (div_nonneg (sub_nonneg.2 h2) hpos.le)
    ((div_le_one hpos).2 (by linarith))
  have := div_mul_cancel₀ (d i - dv) hpos.ne'
  linear_combination -this

/-- **geometry of one side**: every convex combination of the vertices that lies in the strip
    `lo ≤ y ≤ hi` has abscissa at least `b` -/
theorem Side.bound {n : ℕ} {ξ d : ℕ → K} {lo hi b : K} {e : ℕ} (S : Side n ξ d lo hi b e)
    (w : ℕ → K) (hw : ∀ j, j ≤ n → 0 ≤ w j) (hsum : ∑ j ∈ range (n + 1), w j = 1)
    (hlo : lo ≤ ∑ j ∈ range (n + 1), w j * d j) (hhi : ∑ j ∈ range (n + 1), w j * d j ≤ hi) :
    b ≤ ∑ j ∈ range (n + 1), w j * ξ j := by
  have hlohi : lo ≤ hi := le_trans hlo hhi
  have hmem : ∀ j, j ∈ range (n + 1) → j ≤ n := fun j hj => by have := mem_range.1 hj; omega
  -- vertices left of `b` are strictly outside the strip
  have claim1 : ∀ j, j ≤ n → ξ j < b → d j < lo ∨ hi < d j := by
    intro j hj hjb
    by_contra hcon
    obtain ⟨c1', c2'⟩ := not_or.1 hcon
    have c1 := not_lt.1 c1'
    have c2 := not_lt.1 c2'
    have hej := S.hmin j hj
    by_cases hin : lo ≤ d e ∧ d e ≤ hi
    · have := S.first hin.1 hin.2; linarith
    · rcases not_and_or.1 hin with h | h
      · -- `d e < lo ≤ d j`
        have hlt : d e < d j := lt_of_lt_of_le (not_le.1 h) c1
        obtain ⟨t, t0, t1, _, hb⟩ := S.between j e hj S.he lo (Or.inl rfl) (not_le.1 h).le c1 hlt
        nlinarith [mul_nonneg t0 (sub_nonneg.2 hej)]
      · -- `d j ≤ hi < d e`
        have hlt : d j < d e := lt_of_le_of_lt c2 (not_le.1 h)
        obtain ⟨t, t0, t1, _, hb⟩ := S.between e j S.he hj hi (Or.inr rfl) c2 (not_le.1 h).le hlt
        nlinarith [mul_nonneg (sub_nonneg.2 t1) (sub_nonneg.2 hej)]
  -- two vertices left of `b` are on the same side of the strip
  have claim2 : ∀ i j, i ≤ n → j ≤ n → ξ i < b → ξ j < b → hi < d i → d j < lo → False := by
    intro i j hi' hj hib hjb hdi hdj
    have hlt : d j < d i := by linarith
    obtain ⟨t, t0, t1, _, hb⟩ := S.between i j hi' hj hi (Or.inr rfl) (by linarith) hdi.le hlt
    have : ξ i + t * (ξ j - ξ i) < b := by
      nlinarith [mul_nonneg t0 (sub_pos.2 hjb).le, mul_nonneg (sub_nonneg.2 t1) (sub_pos.2 hib).le]
    linarith
  have goal_of : 0 ≤ ∑ j ∈ range (n + 1), w j * (ξ j - b) → b ≤ ∑ j ∈ range (n + 1), w j * ξ j := by
    intro h
    have : ∑ j ∈ range (n + 1), w j * (ξ j - b) = ∑ j ∈ range (n + 1), w j * ξ j - b := by
      simp only [mul_sub, Finset.sum_sub_distrib, ← Finset.sum_mul, hsum, one_mul]
    linarith
  apply goal_of
  by_cases habove : ∃ i, i ≤ n ∧ ξ i < b ∧ hi < d i
  · -- all vertices left of `b` are above the strip: use the line `y = hi`
    obtain ⟨i0, hi0, hi0b, hi0d⟩ := habove
    have allabove : ∀ j, j ≤ n → ξ j < b → hi < d j := by
      intro j hj hjb
      rcases claim1 j hj hjb with h | h
      · exact (claim2 i0 j hi0 hj hi0b hjb hi0d h).elim
      · exact h
    apply halfplane_sum (range (n + 1)) w (fun j => ξ j - b) (fun j => hi - d j)
      (fun j hj => hw j (hmem j hj))
    · intro j hj hx
      have := allabove j (hmem j hj) (by linarith)
      linarith
    · intro i hi' j hj hx hy
      have hdi := allabove i (hmem i hi') (by linarith)
      have hlt : d j < d i := by linarith
      obtain ⟨t, t0, t1, ht, hb⟩ := S.between i j (hmem i hi') (hmem j hj) hi (Or.inr rfl)
        (by linarith) hdi.le hlt
      have h3 : b - ξ i ≤ t * (ξ j - ξ i) := by linarith
      have h4 := mul_le_mul_of_nonneg_right h3 (sub_pos.2 hlt).le
      have h5 : t * (ξ j - ξ i) * (d i - d j) = (d i - hi) * (ξ j - ξ i) := by
        rw [← ht]; ring
      linarith
    · have : ∑ j ∈ range (n + 1), w j * (hi - d j) = hi - ∑ j ∈ range (n + 1), w j * d j := by
        simp only [mul_sub, Finset.sum_sub_distrib, ← Finset.sum_mul, hsum, one_mul]
      rw [this]; linarith
  · -- all vertices left of `b` are below the strip: use the line `y = lo`
    have allbelow : ∀ j, j ≤ n → ξ j < b → d j < lo := by
      intro j hj hjb
      rcases claim1 j hj hjb with h | h
      · exact h
      · exact (habove ⟨j, hj, hjb, h⟩).elim
    apply halfplane_sum (range (n + 1)) w (fun j => ξ j - b) (fun j => d j - lo)
      (fun j hj => hw j (hmem j hj))
    · intro j hj hx
      have := allbelow j (hmem j hj) (by linarith)
      linarith
    · intro i hi' j hj hx hy
      have hdi := allbelow i (hmem i hi') (by linarith)
      have hlt : d i < d j := by linarith
      obtain ⟨t, t0, t1, ht, hb⟩ := S.between j i (hmem j hj) (hmem i hi') lo (Or.inl rfl)
        hdi.le (by linarith) hlt
      -- the crossing seen from `j`: abscissa `ξ j + t (ξ i - ξ j)`
      have h3 : b - ξ i ≤ (1 - t) * (ξ j - ξ i) := by linarith
      have h4 := mul_le_mul_of_nonneg_right h3 (sub_pos.2 hlt).le
      have h5 : (1 - t) * (ξ j - ξ i) * (d j - d i) = (lo - d i) * (ξ j - ξ i) := by
        have : (1 - t) * (d j - d i) = lo - d i := by linear_combination -ht
        rw [← this]; ring
      linarith
    · have : ∑ j ∈ range (n + 1), w j * (d j - lo) = ∑ j ∈ range (n + 1), w j * d j - lo := by
        simp only [mul_sub, Finset.sum_sub_distrib, ← Finset.sum_mul, hsum, one_mul]
      rw [this]; linarith

/-! ### the two sides of the clipped range -/

theorem ClipFacts.side_min {n : ℕ} {d : ℕ → K} {lo hi sMin sMax : K}
    (F : ClipFacts n d lo hi sMin sMax) :
    Side n (fun j => (j : K)) d lo hi (sMin * (n : K)) 0 := by
  have hn0 : (0 : K) ≤ (n : K) := Nat.cast_nonneg n
  refine ⟨Nat.zero_le n, fun j _ => Nat.cast_le.2 (Nat.zero_le j), ?_, ?_, ?_⟩
  · intro h1 h2
    have := mul_le_mul_of_nonneg_right (F.min_first h1 h2) hn0
    simpa using this
  · intro i j hi' hj hij
    rcases Nat.lt_or_gt_of_ne hij with h | h
    · exact F.nonpar i j h hj
    · exact (F.nonpar j i h hi').symm
  · intro i j hi' hj hij dv hdv t t0 t1 hteq
    rcases Nat.lt_or_gt_of_ne hij with h | h
    · exact (F.cross i j h hj dv hdv t t0 t1 hteq).1
    · have := (F.cross j i h hi' dv hdv (1 - t) (sub_nonneg.2 t1) (by linarith)
        (by linear_combination hteq)).1
      linarith

theorem ClipFacts.side_max {n : ℕ} {d : ℕ → K} {lo hi sMin sMax : K}
    (F : ClipFacts n d lo hi sMin sMax) :
    Side n (fun j => -(j : K)) d lo hi (-(sMax * (n : K))) n := by
  have hn0 : (0 : K) ≤ (n : K) := Nat.cast_nonneg n
  refine ⟨le_rfl, fun j hj => neg_le_neg (Nat.cast_le.2 hj), ?_, ?_, ?_⟩
  · intro h1 h2
    have := mul_le_mul_of_nonneg_right (F.max_last h1 h2) hn0
    linarith
  · intro i j hi' hj hij
    rcases Nat.lt_or_gt_of_ne hij with h | h
    · exact F.nonpar i j h hj
    · exact (F.nonpar j i h hi').symm
  · intro i j hi' hj hij dv hdv t t0 t1 hteq
    rcases Nat.lt_or_gt_of_ne hij with h | h
    · have := (F.cross i j h hj dv hdv t t0 t1 hteq).2
      linarith
    · have := (F.cross j i h hi' dv hdv (1 - t) (sub_nonneg.2 t1) (by linarith)
        (by linear_combination hteq)).2
      linarith

/-- containment from the loop facts: a convex combination of the `V_j = (j, d_j)` inside the strip has
    its abscissa between `sMin · n` and `sMax · n` -/
theorem ClipFacts.contains {n : ℕ} {d : ℕ → K} {lo hi sMin sMax : K}
    (F : ClipFacts n d lo hi sMin sMax)
    (w : ℕ → K) (hw : ∀ j, j ≤ n → 0 ≤ w j) (hsum : ∑ j ∈ range (n + 1), w j = 1)
    (hlo : lo ≤ ∑ j ∈ range (n + 1), w j * d j) (hhi : ∑ j ∈ range (n + 1), w j * d j ≤ hi) :
    sMin * (n : K) ≤ ∑ j ∈ range (n + 1), w j * (j : K) ∧
    ∑ j ∈ range (n + 1), w j * (j : K) ≤ sMax * (n : K) := by
  constructor
  · exact F.side_min.bound w hw hsum hlo hhi
  · have := F.side_max.bound w hw hsum hlo hhi
    simp only [mul_neg, Finset.sum_neg_distrib] at this
    linarith

/-! ### containment for `clipRange` -/

theorem clipRange_ok_nonempty (nodes1 nodes2 : List (Pt K)) (r : K × K)
    (hclip : clipRange nodes1 nodes2 = .ok r) : 0 < nodes2.length := by
  unfold clipRange at hclip
  cases hfat : computeFatLine nodes1 with
  | error e => rw [hfat] at hclip; cases hclip
  | ok v =>
    obtain ⟨a, b, c, dMin, dMax⟩ := v
    rw [hfat] at hclip
    simp only at hclip
    cases nodes2 with
    | nil => simp at hclip
    | cons p ps => simp

/-- **containment** (`clip_range` never clips away a point of the strip).  With `(a, b, c, dMin, dMax)`
    the fat line of `nodes1`, `d_j = a x_j + b y_j + c` the control distances of `nodes2` and
    `n = len(nodes2) - 1`: every convex combination `Σ w_j (j, d_j)` whose height is in `[dMin, dMax]` has
    its abscissa in `[sMin · n, sMax · n]`. -/
theorem clipRange_contains (nodes1 nodes2 : List (Pt K)) (a b c dMin dMax sMin sMax : K)
    (hfat : computeFatLine nodes1 = .ok (a, b, c, dMin, dMax))
    (hclip : clipRange nodes1 nodes2 = .ok (sMin, sMax))
    (w : ℕ → K) (hw : ∀ j, j < nodes2.length → 0 ≤ w j) (hsum : ∑ j ∈ range nodes2.length, w j = 1)
    (hlo : dMin ≤ ∑ j ∈ range nodes2.length, w j * ctrlDist a b c nodes2 j)
    (hhi : ∑ j ∈ range nodes2.length, w j * ctrlDist a b c nodes2 j ≤ dMax) :
    sMin * ((nodes2.length - 1 : ℕ) : K) ≤ ∑ j ∈ range nodes2.length, w j * (j : K) ∧
    ∑ j ∈ range nodes2.length, w j * (j : K) ≤ sMax * ((nodes2.length - 1 : ℕ) : K) := by
  have F := clipRange_facts nodes1 nodes2 a b c dMin dMax sMin sMax hfat hclip
  have hpos := clipRange_ok_nonempty nodes1 nodes2 _ hclip
  obtain ⟨m, hm⟩ : ∃ m, nodes2.length = m + 1 := ⟨nodes2.length - 1, by omega⟩
  rw [hm] at hw hsum hlo hhi F ⊢
  simp only [Nat.add_sub_cancel] at F ⊢
  exact F.contains w (fun j hj => hw j (by omega)) hsum hlo hhi

/-- the same divided by `n > 0`: the abscissa `Σ w_j · j / n` is in `[sMin, sMax]` -/
theorem clipRange_contains_div (nodes1 nodes2 : List (Pt K)) (a b c dMin dMax sMin sMax : K)
    (hfat : computeFatLine nodes1 = .ok (a, b, c, dMin, dMax))
    (hclip : clipRange nodes1 nodes2 = .ok (sMin, sMax)) (hn : 2 ≤ nodes2.length)
    (w : ℕ → K) (hw : ∀ j, j < nodes2.length → 0 ≤ w j) (hsum : ∑ j ∈ range nodes2.length, w j = 1)
    (hlo : dMin ≤ ∑ j ∈ range nodes2.length, w j * ctrlDist a b c nodes2 j)
    (hhi : ∑ j ∈ range nodes2.length, w j * ctrlDist a b c nodes2 j ≤ dMax) :
    sMin ≤ (∑ j ∈ range nodes2.length, w j * (j : K)) / ((nodes2.length - 1 : ℕ) : K) ∧
    (∑ j ∈ range nodes2.length, w j * (j : K)) / ((nodes2.length - 1 : ℕ) : K) ≤ sMax := by
  have hpos : (0 : K) < ((nodes2.length - 1 : ℕ) : K) := Nat.cast_pos.2 (by omega)
  obtain ⟨h1, h2⟩ := clipRange_contains nodes1 nodes2 a b c dMin dMax sMin sMax hfat hclip w hw hsum hlo hhi
  exact ⟨(le_div_iff₀ hpos).2 h1, (div_le_iff₀ hpos).2 h2⟩

theorem list_sum_eq_range_sum : ∀ w : List K, ∑ j ∈ range w.length, w.getD j 0 = w.sum
  | [] => by simp
  | x :: l => by
    rw [List.length_cons, Finset.sum_range_succ', List.sum_cons]
    simp only [List.getD_cons_succ, List.getD_cons_zero]
    rw [list_sum_eq_range_sum l, add_comm]

/-- containment with the weights given as a list (entry `j` of `w` is the weight of `V_j`) -/
theorem clipRange_contains_list (nodes1 nodes2 : List (Pt K)) (a b c dMin dMax sMin sMax : K)
    (hfat : computeFatLine nodes1 = .ok (a, b, c, dMin, dMax))
    (hclip : clipRange nodes1 nodes2 = .ok (sMin, sMax))
    (w : List K) (hlen : w.length = nodes2.length) (hw : ∀ x ∈ w, 0 ≤ x) (hsum : w.sum = 1)
    (hlo : dMin ≤ ∑ j ∈ range nodes2.length, w.getD j 0 * ctrlDist a b c nodes2 j)
    (hhi : ∑ j ∈ range nodes2.length, w.getD j 0 * ctrlDist a b c nodes2 j ≤ dMax) :
    sMin * ((nodes2.length - 1 : ℕ) : K) ≤ ∑ j ∈ range nodes2.length, w.getD j 0 * (j : K) ∧
    ∑ j ∈ range nodes2.length, w.getD j 0 * (j : K) ≤ sMax * ((nodes2.length - 1 : ℕ) : K) := by
  apply clipRange_contains nodes1 nodes2 a b c dMin dMax sMin sMax hfat hclip (fun j => w.getD j 0)
    _ _ hlo hhi
  · intro j hj
    rw [List.getD_eq_getElem?_getD, List.getElem?_eq_getElem (by omega), Option.getD_some]
    exact hw _ (List.getElem_mem _)
  · rw [← hlen, list_sum_eq_range_sum, hsum]

/-- `sMax < sMin` (in particular the unset markers `(1, 0)`) means "no intersection": no convex
    combination of the `V_j` lies in the strip -/
theorem clipRange_no_intersection (nodes1 nodes2 : List (Pt K)) (a b c dMin dMax sMin sMax : K)
    (hfat : computeFatLine nodes1 = .ok (a, b, c, dMin, dMax))
    (hclip : clipRange nodes1 nodes2 = .ok (sMin, sMax)) (hempty : sMax < sMin)
    (w : ℕ → K) (hw : ∀ j, j < nodes2.length → 0 ≤ w j) (hsum : ∑ j ∈ range nodes2.length, w j = 1) :
    ¬ (dMin ≤ ∑ j ∈ range nodes2.length, w j * ctrlDist a b c nodes2 j ∧
       ∑ j ∈ range nodes2.length, w j * ctrlDist a b c nodes2 j ≤ dMax) := by
  rintro ⟨hlo, hhi⟩
  obtain ⟨h1, h2⟩ := clipRange_contains nodes1 nodes2 a b c dMin dMax sMin sMax hfat hclip w hw hsum hlo hhi
  have F := clipRange_facts nodes1 nodes2 a b c dMin dMax sMin sMax hfat hclip
  have hpos := clipRange_ok_nonempty nodes1 nodes2 _ hclip
  rcases Nat.eq_or_lt_of_le (show 1 ≤ nodes2.length from hpos) with h1len | h1len
  · -- a single node: the only convex combination is `V_0`
    rw [← h1len] at hsum hlo hhi
    simp only [Finset.sum_range_one] at hsum hlo hhi
    rw [hsum, one_mul] at hlo hhi
    have e1 := F.min_first hlo hhi
    have e2 := F.max_last (by rw [← h1len]; exact hlo) (by rw [← h1len]; exact hhi)
    linarith
  · have hn : (0 : K) < ((nodes2.length - 1 : ℕ) : K) := Nat.cast_pos.2 (by omega)
    have e1 := le_trans h1 h2
    have e2 := mul_lt_mul_of_pos_right hempty hn
    linarith

/-! ### the Bernstein corollary: the explicit curve `(t, d(t))` -/

/-- one de Casteljau round moves an arithmetic sequence by `t` -/
theorem T_pow_index (t : K) : ∀ (n : ℕ) (c : K),
    ((T (1 - t) t) ^ n) (fun j : ℕ => (j : K) + c) = fun j : ℕ => (j : K) + (c + n * t)
  | 0, c => by simp
  | n + 1, c => by
    rw [pow_succ, Module.End.mul_apply]
    have : T (1 - t) t (fun j : ℕ => (j : K) + c) = fun j : ℕ => (j : K) + (c + t) := by
      funext j
      rw [T_apply]
      push_cast
      ring
    rw [this, T_pow_index t n (c + t)]
    funext j
    push_cast
    ring

/-- linear precision: `Σ_j j · B_j^n(t) = n t` -/
theorem bern_index (n : ℕ) (t : K) : bern n (1 - t) t (fun j => (j : K)) = n * t := by
  rw [← T_pow_apply_zero]
  have := T_pow_index t n 0
  simp only [add_zero, zero_add] at this
  rw [this]
  simp

/-- the Bernstein weight `C(n, j) (1 - t)^(n - j) t^j` -/
def bweight (n : ℕ) (t : K) (j : ℕ) : K := (n.choose j : K) * (1 - t) ^ (n - j) * t ^ j

theorem bern_eq_weights (n : ℕ) (t : K) (v : ℕ → K) :
    bern n (1 - t) t v = ∑ j ∈ range (n + 1), bweight n t j * v j := rfl

theorem bweight_nonneg (n : ℕ) (t : K) (h0 : 0 ≤ t) (h1 : t ≤ 1) (j : ℕ) : 0 ≤ bweight n t j :=
  mul_nonneg (mul_nonneg (Nat.cast_nonneg _) (pow_nonneg (sub_nonneg.2 h1) _)) (pow_nonneg h0 _)

theorem bweight_sum (n : ℕ) (t : K) : ∑ j ∈ range (n + 1), bweight n t j = 1 := by
  have := bern_const n (1 - t) t (1 : K)
  rw [bern_eq_weights] at this
  simpa using this

/-- **Bernstein corollary**: if the distance polynomial `d(t) = Σ_j B_j^n(t) d_j` of the second curve is
    inside the fat line of the first at a parameter `0 ≤ t ≤ 1`, then `sMin ≤ t ≤ sMax` -/
theorem clipRange_contains_bern (nodes1 nodes2 : List (Pt K)) (a b c dMin dMax sMin sMax : K)
    (hfat : computeFatLine nodes1 = .ok (a, b, c, dMin, dMax))
    (hclip : clipRange nodes1 nodes2 = .ok (sMin, sMax))
    (t : K) (ht0 : 0 ≤ t) (ht1 : t ≤ 1)
    (hlo : dMin ≤ bern (nodes2.length - 1) (1 - t) t (ctrlDist a b c nodes2))
    (hhi : bern (nodes2.length - 1) (1 - t) t (ctrlDist a b c nodes2) ≤ dMax) :
    sMin ≤ t ∧ t ≤ sMax := by
  have F := clipRange_facts nodes1 nodes2 a b c dMin dMax sMin sMax hfat hclip
  rcases Nat.eq_zero_or_pos (nodes2.length - 1) with h0 | hpos
  · rw [h0] at hlo hhi F
    simp only [bern, zero_add, Finset.sum_range_one, Nat.choose_self, Nat.cast_one, pow_zero, one_mul,
      Nat.sub_self] at hlo hhi
    have e1 := F.min_first hlo hhi
    have e2 := F.max_last hlo hhi
    exact ⟨by linarith, by linarith⟩
  · have hn : (0 : K) < ((nodes2.length - 1 : ℕ) : K) := Nat.cast_pos.2 hpos
    rw [bern_eq_weights] at hlo hhi
    obtain ⟨h1, h2⟩ := F.contains (bweight (nodes2.length - 1) t)
      (fun j _ => bweight_nonneg _ t ht0 ht1 j) (bweight_sum _ t) hlo hhi
    rw [← bern_eq_weights, bern_index] at h1 h2
    constructor
    · by_contra hc
      have := mul_lt_mul_of_pos_right (not_le.1 hc) hn
      linarith
    · by_contra hc
      have := mul_lt_mul_of_pos_right (not_le.1 hc) hn
      linarith

theorem seq_map_fst (nodes : List (Pt K)) (j : ℕ) : seq (nodes.map (·.1)) j = (getP nodes j).1 := by
  unfold seq getP
  rw [List.getD_eq_getElem?_getD, List.getD_eq_getElem?_getD, List.getElem?_map]
  cases nodes[j]? <;> rfl

theorem seq_map_snd (nodes : List (Pt K)) (j : ℕ) : seq (nodes.map (·.2)) j = (getP nodes j).2 := by
  unfold seq getP
  rw [List.getD_eq_getElem?_getD, List.getD_eq_getElem?_getD, List.getElem?_map]
  cases nodes[j]? <;> rfl

/-- the implicit-line value of the curve point `B(t)` (coordinates by de Casteljau = `evaluate_multi`,
    C01) is the Bernstein sum of the control distances -/
theorem dist_curve_point (nodes : List (Pt K)) (hne : 0 < nodes.length) (a b c t : K) :
    a * evalDC (1 - t) t (nodes.length - 1) (nodes.map (·.1))
      + b * evalDC (1 - t) t (nodes.length - 1) (nodes.map (·.2)) + c
      = bern (nodes.length - 1) (1 - t) t (ctrlDist a b c nodes) := by
  rw [evalDC_eq_bern _ _ _ _ (by rw [List.length_map]; omega),
    evalDC_eq_bern _ _ _ _ (by rw [List.length_map]; omega)]
  have hx : seq (nodes.map (·.1)) = fun j => (getP nodes j).1 := funext (seq_map_fst nodes)
  have hy : seq (nodes.map (·.2)) = fun j => (getP nodes j).2 := funext (seq_map_snd nodes)
  rw [hx, hy]
  have hc : bern (nodes.length - 1) (1 - t) t (fun _ => c) = c := by
    rw [bern_const]; simp
  unfold ctrlDist
  rw [bern_add, bern_add, bern_smul, bern_smul, hc]

/-- **containment for the curve**: if the point `B₂(t)`, `0 ≤ t ≤ 1`, of the second curve lies in the fat
    line of the first (`dMin ≤ a x + b y + c ≤ dMax`), then `sMin ≤ t ≤ sMax` -/
theorem clipRange_contains_curve (nodes1 nodes2 : List (Pt K)) (a b c dMin dMax sMin sMax : K)
    (hfat : computeFatLine nodes1 = .ok (a, b, c, dMin, dMax))
    (hclip : clipRange nodes1 nodes2 = .ok (sMin, sMax))
    (t : K) (ht0 : 0 ≤ t) (ht1 : t ≤ 1)
    (hlo : dMin ≤ a * evalDC (1 - t) t (nodes2.length - 1) (nodes2.map (·.1))
      + b * evalDC (1 - t) t (nodes2.length - 1) (nodes2.map (·.2)) + c)
    (hhi : a * evalDC (1 - t) t (nodes2.length - 1) (nodes2.map (·.1))
      + b * evalDC (1 - t) t (nodes2.length - 1) (nodes2.map (·.2)) + c ≤ dMax) :
    sMin ≤ t ∧ t ≤ sMax := by
  have hpos := clipRange_ok_nonempty nodes1 nodes2 _ hclip
  rw [dist_curve_point nodes2 hpos] at hlo hhi
  exact clipRange_contains_bern nodes1 nodes2 a b c dMin dMax sMin sMax hfat hclip t ht0 ht1 hlo hhi

/-! ### the fat line contains its curve; common points survive the clipping -/

/-- the `if … elif` update of `compute_fat_line` -/
def fatStep (a b c : K) (acc : K × K) (p : Pt K) : K × K :=
  let currDist := a * p.1 + b * p.2 + c
  if currDist < acc.1 then (currDist, acc.2)
  else if acc.2 < currDist then (acc.1, currDist)
  else acc

theorem fatStep_fold (a b c : K) : ∀ (l : List (Pt K)) (acc : K × K), acc.1 ≤ acc.2 →
    (l.foldl (fatStep a b c) acc).1 ≤ acc.1 ∧ acc.2 ≤ (l.foldl (fatStep a b c) acc).2 ∧
    ∀ p ∈ l, (l.foldl (fatStep a b c) acc).1 ≤ a * p.1 + b * p.2 + c ∧
      a * p.1 + b * p.2 + c ≤ (l.foldl (fatStep a b c) acc).2
  | [], acc, h => ⟨le_rfl, le_rfl, fun p hp => by cases hp⟩
  | x :: l, acc, h => by
    have hstep : (fatStep a b c acc x).1 ≤ acc.1 ∧ acc.2 ≤ (fatStep a b c acc x).2 ∧
        (fatStep a b c acc x).1 ≤ a * x.1 + b * x.2 + c ∧ a * x.1 + b * x.2 + c ≤ (fatStep a b c acc x).2 ∧
        (fatStep a b c acc x).1 ≤ (fatStep a b c acc x).2 := by
      unfold fatStep
      simp only
      split_ifs with c1 c2
      · exact ⟨c1.le, le_rfl, le_rfl, by linarith, by linarith⟩
      · exact ⟨le_rfl, c2.le, by linarith, le_rfl, by linarith⟩
      · exact ⟨le_rfl, le_rfl, not_lt.1 c1, not_lt.1 c2, h⟩
    obtain ⟨s1, s2, s3, s4, s5⟩ := hstep
    obtain ⟨i1, i2, i3⟩ := fatStep_fold a b c l (fatStep a b c acc x) s5
    rw [List.foldl_cons]
    refine ⟨le_trans i1 s1, le_trans s2 i2, ?_⟩
    intro p hp
    rcases List.mem_cons.1 hp with rfl | hp
    · exact ⟨le_trans i1 s3, le_trans s4 i2⟩
    · exact i3 p hp

theorem mem_first_last_interior (first : Pt K) (rest : List (Pt K)) (p : Pt K) (hp : p ∈ first :: rest) :
    p = first ∨ p = (first :: rest).getLastD first ∨ p ∈ ((first :: rest).drop 1).dropLast := by
  rcases List.mem_cons.1 hp with rfl | hp
  · exact Or.inl rfl
  · right
    have hne : rest ≠ [] := List.ne_nil_of_mem hp
    have hlast : (first :: rest).getLastD first = rest.getLast hne := by
      rw [List.getLastD_cons, List.getLastD_eq_getLast?, List.getLast?_eq_some_getLast hne, Option.getD_some]
    rw [hlast]
    simp only [List.drop_succ_cons, List.drop_zero]
    have := List.dropLast_concat_getLast hne
    rw [← this] at hp
    rcases List.mem_append.1 hp with h | h
    · exact Or.inr h
    · left; simpa using h

/-- `compute_fat_line`: `dMin ≤ 0 ≤ dMax` and every control point of the curve has its (un-normalised)
    distance in `[dMin, dMax]` -/
theorem fatLine_contains (nodes : List (Pt K)) (a b c dMin dMax : K)
    (h : computeFatLine nodes = .ok (a, b, c, dMin, dMax)) :
    dMin ≤ 0 ∧ 0 ≤ dMax ∧ ∀ p ∈ nodes, dMin ≤ a * p.1 + b * p.2 + c ∧ a * p.1 + b * p.2 + c ≤ dMax := by
  cases nodes with
  | nil => simp [computeFatLine, computeImplicitLine] at h
  | cons first rest =>
    unfold computeFatLine computeImplicitLine at h
    simp only [Except.ok.injEq, Prod.mk.injEq] at h
    obtain ⟨ha, hb, hc, h1, h2⟩ := h
    have hfold := fatStep_fold a b c ((first :: rest).drop 1).dropLast ((0 : K), (0 : K)) le_rfl
    have e1 : (List.foldl (fatStep a b c) ((0 : K), (0 : K)) ((first :: rest).drop 1).dropLast).1 = dMin := by
      rw [← h1, ← ha, ← hb, ← hc]; rfl
    have e2 : (List.foldl (fatStep a b c) ((0 : K), (0 : K)) ((first :: rest).drop 1).dropLast).2 = dMax := by
      rw [← h2, ← ha, ← hb, ← hc]; rfl
    rw [e1, e2] at hfold
    obtain ⟨f1, f2, f3⟩ := hfold
    refine ⟨f1, f2, ?_⟩
    intro p hp
    rcases mem_first_last_interior first rest p hp with rfl | rfl | hp
    · have : a * p.1 + b * p.2 + c = 0 := by
        rw [← ha, ← hb, ← hc]; simp only [psub]; ring
      rw [this]; exact ⟨f1, f2⟩
    · have : a * ((first :: rest).getLastD first).1 + b * ((first :: rest).getLastD first).2 + c = 0 := by
        rw [← ha, ← hb, ← hc]; simp only [psub]; ring
      rw [this]; exact ⟨f1, f2⟩
    · exact f3 p hp

/-- the whole curve `B₁(s)`, `0 ≤ s ≤ 1`, lies inside its fat line -/
theorem fatLine_contains_curve (nodes : List (Pt K)) (a b c dMin dMax : K)
    (h : computeFatLine nodes = .ok (a, b, c, dMin, dMax)) (s : K) (hs0 : 0 ≤ s) (hs1 : s ≤ 1) :
    dMin ≤ a * evalDC (1 - s) s (nodes.length - 1) (nodes.map (·.1))
      + b * evalDC (1 - s) s (nodes.length - 1) (nodes.map (·.2)) + c ∧
    a * evalDC (1 - s) s (nodes.length - 1) (nodes.map (·.1))
      + b * evalDC (1 - s) s (nodes.length - 1) (nodes.map (·.2)) + c ≤ dMax := by
  have hpos : 0 < nodes.length := by
    cases nodes with
    | nil => simp [computeFatLine, computeImplicitLine] at h
    | cons p ps => simp
  obtain ⟨_, _, hall⟩ := fatLine_contains nodes a b c dMin dMax h
  rw [dist_curve_point nodes hpos, bern_eq_weights]
  have hd : ∀ j ∈ range (nodes.length - 1 + 1), dMin ≤ ctrlDist a b c nodes j ∧ ctrlDist a b c nodes j ≤ dMax := by
    intro j hj
    have hj' : j < nodes.length := by have := mem_range.1 hj; omega
    have hmem : getP nodes j ∈ nodes := by
      unfold getP
      rw [List.getD_eq_getElem?_getD, List.getElem?_eq_getElem hj', Option.getD_some]
      exact List.getElem_mem _
    exact hall _ hmem
  constructor
  · calc dMin = ∑ j ∈ range (nodes.length - 1 + 1), bweight (nodes.length - 1) s j * dMin := by
          rw [← Finset.sum_mul, bweight_sum, one_mul]
      _ ≤ _ := Finset.sum_le_sum (fun j hj =>
          mul_le_mul_of_nonneg_left (hd j hj).1 (bweight_nonneg _ s hs0 hs1 j))
  · calc _ ≤ ∑ j ∈ range (nodes.length - 1 + 1), bweight (nodes.length - 1) s j * dMax :=
          Finset.sum_le_sum (fun j hj =>
            mul_le_mul_of_nonneg_left (hd j hj).2 (bweight_nonneg _ s hs0 hs1 j))
      _ = dMax := by rw [← Finset.sum_mul, bweight_sum, one_mul]

/-- **soundness of the clipping step**: a common point `B₁(s) = B₂(t)` of the two curves
    (`0 ≤ s, t ≤ 1`, coordinates by de Casteljau = `evaluate_multi`, C01) has `sMin ≤ t ≤ sMax`;
    in particular the result `sMax < sMin` (unset markers `(1, 0)`) proves that the curves do not meet -/
theorem clipRange_intersection (nodes1 nodes2 : List (Pt K)) (sMin sMax : K)
    (hclip : clipRange nodes1 nodes2 = .ok (sMin, sMax))
    (s t : K) (hs0 : 0 ≤ s) (hs1 : s ≤ 1) (ht0 : 0 ≤ t) (ht1 : t ≤ 1)
    (hx : evalDC (1 - s) s (nodes1.length - 1) (nodes1.map (·.1))
      = evalDC (1 - t) t (nodes2.length - 1) (nodes2.map (·.1)))
    (hy : evalDC (1 - s) s (nodes1.length - 1) (nodes1.map (·.2))
      = evalDC (1 - t) t (nodes2.length - 1) (nodes2.map (·.2))) :
    sMin ≤ t ∧ t ≤ sMax := by
  cases hfat : computeFatLine nodes1 with
  | error e => unfold clipRange at hclip; rw [hfat] at hclip; cases hclip
  | ok v =>
    obtain ⟨a, b, c, dMin, dMax⟩ := v
    obtain ⟨h1, h2⟩ := fatLine_contains_curve nodes1 a b c dMin dMax hfat s hs0 hs1
    rw [hx, hy] at h1 h2
    exact clipRange_contains_curve nodes1 nodes2 a b c dMin dMax sMin sMax hfat hclip t ht0 ht1 h1 h2

/-! ### the error branches -/

/-- `compute_fat_line` fails exactly on an empty node list (the code indexes `nodes[:, 0]`) -/
theorem computeFatLine_error_iff (nodes : List (Pt K)) (e : Err) :
    computeFatLine nodes = .error e ↔ nodes = [] ∧ e = .badInput := by
  cases nodes with
  | nil =>
    simp only [computeFatLine, computeImplicitLine, true_and]
    constructor
    · intro h; cases h; rfl
    · rintro rfl; rfl
  | cons p ps =>
    simp [computeFatLine, computeImplicitLine]

/-- an error of `compute_fat_line` is passed on -/
theorem clipRange_error_fat (nodes1 nodes2 : List (Pt K)) (e : Err)
    (h : computeFatLine nodes1 = .error e) : clipRange nodes1 nodes2 = .error e := by
  unfold clipRange
  rw [h]

theorem update_error (m1 m2 : K) (S0 E0 S1 E1 : Pt K) (e : Err)
    (h : updateParameters m1 m2 S0 E0 S1 E1 = .error e) :
    e = .notImplemented ∧ segmentIntersection S0 E0 S1 E1 = none := by
  unfold updateParameters at h
  cases hseg : segmentIntersection S0 E0 S1 E1 with
  | none => rw [hseg] at h; cases h; exact ⟨rfl, rfl⟩
  | some st =>
    obtain ⟨s, t⟩ := st
    rw [hseg] at h
    simp only at h
    split_ifs at h

theorem clipStep_error (nodes : List (Pt K)) (a b c lo hi : K) (acc : K × K) (i j : ℕ) (e : Err)
    (hij : i < j) (hj : j ≤ nodes.length - 1)
    (h : clipStep (clipRangePolynomial nodes a b c) ((nodes.length - 1 : ℕ) : K) lo hi acc (i, j) = .error e) :
    e = .notImplemented ∧ ctrlDist a b c nodes j = ctrlDist a b c nodes i := by
  have hn : ((nodes.length - 1 : ℕ) : K) ≠ 0 := Nat.cast_ne_zero.2 (by omega)
  unfold clipStep at h
  simp only at h
  rw [getP_polynomial nodes a b c i (by omega), getP_polynomial nodes a b c j (by omega)] at h
  cases h1 : updateParameters acc.1 acc.2 ((0 : K), lo) (((nodes.length - 1 : ℕ) : K), lo)
      ((i : K), ctrlDist a b c nodes i) ((j : K), ctrlDist a b c nodes j) with
  | error e' =>
    rw [h1] at h
    cases h
    obtain ⟨he, hseg⟩ := update_error _ _ _ _ _ _ _ h1
    rcases seg_horizontal_none _ _ _ _ _ _ hseg with h0 | h0
    · exact absurd h0 hn
    · exact ⟨he, h0⟩
  | ok m =>
    obtain ⟨m1, m2⟩ := m
    rw [h1] at h
    simp only at h
    obtain ⟨he, hseg⟩ := update_error _ _ _ _ _ _ _ h
    rcases seg_horizontal_none _ _ _ _ _ _ hseg with h0 | h0
    · exact absurd h0 hn
    · exact ⟨he, h0⟩

/-- **error branches** of `clip_range` (fat line available): `badInput` for an empty second curve;
    `NotImplementedError` exactly when two control distances of the second curve coincide
    (a segment `V_i V_j` parallel to the fat-line boundaries) -/
theorem clipRange_error_iff (nodes1 nodes2 : List (Pt K)) (a b c dMin dMax : K) (e : Err)
    (hfat : computeFatLine nodes1 = .ok (a, b, c, dMin, dMax)) :
    clipRange nodes1 nodes2 = .error e ↔
      (nodes2 = [] ∧ e = .badInput) ∨
      (e = .notImplemented ∧ ∃ i j, i < j ∧ j < nodes2.length ∧
        ctrlDist a b c nodes2 j = ctrlDist a b c nodes2 i) := by
  have fwd : ∀ e', clipRange nodes1 nodes2 = .error e' →
      (nodes2 = [] ∧ e' = .badInput) ∨
      (e' = .notImplemented ∧ ∃ i j, i < j ∧ j < nodes2.length ∧
        ctrlDist a b c nodes2 j = ctrlDist a b c nodes2 i) := by
    intro e' h
    rw [clipRange_eq, hfat] at h
    simp only at h
    by_cases hemp : nodes2.isEmpty = true
    · rw [if_pos hemp] at h
      cases h
      exact Or.inl ⟨List.isEmpty_iff.1 hemp, rfl⟩
    · rw [if_neg hemp] at h
      obtain ⟨⟨i, j⟩, hb, acc, hstep⟩ := foldlM_error _ _ _ _ h
      obtain ⟨hij, hj⟩ := (mem_clipPairs _ _ _).1 hb
      obtain ⟨he, hd⟩ := clipStep_error nodes2 a b c dMin dMax acc i j e' hij hj hstep
      exact Or.inr ⟨he, i, j, hij, by omega, hd⟩
  constructor
  · exact fwd e
  · rintro (⟨rfl, rfl⟩ | ⟨rfl, i, j, hij, hj, hd⟩)
    · rw [clipRange_eq, hfat]; rfl
    · cases hres : clipRange nodes1 nodes2 with
      | ok r =>
        obtain ⟨sMin, sMax⟩ := r
        have F := clipRange_facts nodes1 nodes2 a b c dMin dMax sMin sMax hfat hres
        exact absurd hd (F.nonpar i j hij (by omega))
      | error e' =>
        rcases fwd e' hres with ⟨hnil, _⟩ | ⟨he, _⟩
        · rw [hnil] at hj; simp at hj
        · rw [he]

/-- every failure of `clip_range` has one of the three causes -/
theorem clipRange_error_cases (nodes1 nodes2 : List (Pt K)) (e : Err)
    (h : clipRange nodes1 nodes2 = .error e) :
    (nodes1 = [] ∧ e = .badInput) ∨ (nodes1 ≠ [] ∧ nodes2 = [] ∧ e = .badInput) ∨
    (nodes1 ≠ [] ∧ e = .notImplemented ∧ ∃ a b c dMin dMax, computeFatLine nodes1 = .ok (a, b, c, dMin, dMax) ∧
      ∃ i j, i < j ∧ j < nodes2.length ∧ ctrlDist a b c nodes2 j = ctrlDist a b c nodes2 i) := by
  cases hfat : computeFatLine nodes1 with
  | error e' =>
    rw [clipRange_error_fat nodes1 nodes2 e' hfat] at h
    have he : e' = e := by cases h; rfl
    subst he
    exact Or.inl ((computeFatLine_error_iff nodes1 e').1 hfat)
  | ok v =>
    obtain ⟨a, b, c, dMin, dMax⟩ := v
    have hne : nodes1 ≠ [] := by
      rintro rfl
      simp [computeFatLine, computeImplicitLine] at hfat
    rcases (clipRange_error_iff nodes1 nodes2 a b c dMin dMax e hfat).1 h with ⟨h1, h2⟩ | ⟨h1, h2⟩
    · exact Or.inr (Or.inl ⟨hne, h1, h2⟩)
    · exact Or.inr (Or.inr ⟨hne, h1, a, b, c, dMin, dMax, rfl, h2⟩)

/-! ### non-vacuity -/

/-- the doctest of `clip_range` -/
example : clipRange (K := ℚ) [(2, 0), (9/2, 1), (5/2, 3), (5, 4)] [(-1/4, 25/8), (15/4, 7/8), (7, 25/8)]
    = .ok (1/4, 7/8) := by decide +kernel

example : computeFatLine (K := ℚ) [(2, 0), (9/2, 1), (5/2, 3), (5, 4)] = .ok (-4, 3, 8, -7, 7) := by
  decide +kernel

/-- two equal control distances: `NotImplementedError` -/
example : clipRange (K := ℚ) [(0, 0), (1, 1), (2, 0)] [(0, 1), (1, 1), (2, 3)] = .error .notImplemented := by
  decide +kernel

/-- the second curve misses the fat line: the unset markers `(1, 0)` are returned -/
example : clipRange (K := ℚ) [(0, 0), (1, 1), (2, 0)] [(0, 5), (1, 6), (2, 7)] = .ok (1, 0) := by
  decide +kernel

/-- a single node inside the fat line: `(0, 1)`; empty inputs: `badInput` -/
example : clipRange (K := ℚ) [(0, 0), (1, 1), (2, 0)] [(0, 1)] = .ok (0, 1) := by decide +kernel

example : clipRange (K := ℚ) [] [(0, 1)] = .error .badInput := by decide +kernel

example : clipRange (K := ℚ) [(0, 0), (1, 1), (2, 0)] [] = .error .badInput := by decide +kernel

/-- the containment theorem applied to the doctest: the middle control point `V_1 = (1, -35/8)` is inside
    the strip `[-7, 7]`, and indeed `1/4 · 2 ≤ 1 ≤ 7/8 · 2` -/
example : (1/4 : ℚ) * ((3 - 1 : ℕ) : ℚ) ≤ 1 ∧ (1 : ℚ) ≤ 7/8 * ((3 - 1 : ℕ) : ℚ) := by
  have h := clipRange_contains_list (K := ℚ) [(2, 0), (9/2, 1), (5/2, 3), (5, 4)]
    [(-1/4, 25/8), (15/4, 7/8), (7, 25/8)] (-4) 3 8 (-7) 7 (1/4) (7/8) (by decide +kernel) (by decide +kernel)
    [0, 1, 0] rfl (by decide +kernel) (by decide +kernel)
    (by simp [Finset.sum_range_succ, ctrlDist, getP]; norm_num)
    (by simp [Finset.sum_range_succ, ctrlDist, getP]; norm_num)
  simpa [Finset.sum_range_succ] using h

end BezierVerif.ClipRange
