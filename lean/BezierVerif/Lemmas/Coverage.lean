import BezierVerif.Model.GeometricInst
import BezierVerif.Lemmas.Pipeline
import BezierVerif.Lemmas.Predicates
import BezierVerif.Lemmas.EvalBary
import BezierVerif.Props.C04

/-!
# Lemmas/Coverage — vocabulary and bookkeeping for the coverage invariant of `intersect_one_round`

* `TrueInt`, `Covers`, `Faithful`, `RowsOK`: a true intersection of the original curves, a candidate pair whose
  parameter rectangle contains it, a candidate whose nodes are the reparametrised original, rows with at
  least two nodes;
* `covers_split`, `subdivideCand_covers`, `subdividePairs_covers`: the midpoint split loses no parameter;
* `subdivide_left_eval`, `subdivide_right_eval`: the two halves returned by `Py.subdivide` / `F90.subdivide`
  evaluate to `B(σ/2)` and `B((1+σ)/2)` (from `C04.subdivide_left_correct` / `subdivide_right_correct`);
* `ExactPair`, `exactStep`, `intersectOneRound_exact`: a round in which every pair is decided by the exact
  box test `bbox_intersect` alone (disjoint ⇒ dropped, otherwise subdivided) is a `flatMap`;
* `boxKind_disjoint_sep`: `bbox_intersect = DISJOINT` gives one of the four strict separations.
-/

namespace BezierVerif.Cover

open Model BezierVerif Pipe Predicates

set_option linter.unusedSectionVars false

variable {K : Type} [Field K] [LinearOrder K] [IsStrictOrderedRing K]

/-! ### vocabulary -/

/-- `(s, t)` is a common point of the two ORIGINAL curves with parameters in the unit square -/
def TrueInt (thr : ℕ) (n1 n2 : List (List K)) (s t : K) : Prop :=
  0 ≤ s ∧ s ≤ 1 ∧ 0 ≤ t ∧ t ≤ 1 ∧ evalPoint thr n1 s = evalPoint thr n2 t

/-- the parameter rectangle of the candidate pair contains `(s, t)` (closed intervals) -/
def Covers (c : Cand K × Cand K) (s t : K) : Prop :=
  c.1.sub.start ≤ s ∧ s ≤ c.1.sub.stop ∧ c.2.sub.start ≤ t ∧ t ≤ c.2.sub.stop

/-- the candidate's nodes are the original curve reparametrised to `[start, stop]` -/
def Faithful (thr : ℕ) (orig : List (List K)) (c : Cand K) : Prop :=
  ∀ σ : K, evalPoint thr c.sub.nodes σ = evalPoint thr orig (c.sub.start + σ * (c.sub.stop - c.sub.start))

/-- every row has at least two nodes (degree ≥ 1) -/
def RowsOK (nodes : List (List K)) : Prop := ∀ row ∈ nodes, 2 ≤ row.length

/-- the initial candidate `[0, 1]` is faithful -/
theorem faithful_initial (thr : ℕ) (orig : List (List K)) :
    Faithful thr orig (.curve { nodes := orig, start := 0, stop := 1 }) := by
  intro σ
  simp [Cand.sub]

theorem faithful_fromShape (P : Prims K) (G : GeoConsts K) (thr : ℕ) (orig : List (List K)) (c : Cand K)
    (h : Faithful thr orig c) : Faithful thr orig (fromShape P G c) := by
  unfold Faithful
  rw [fromShape_sub]
  exact h

/-! ### the midpoint split -/

theorem covers_split (a b s : K) (h : a ≤ s ∧ s ≤ b) :
    (a ≤ s ∧ s ≤ 1 / (1 + 1) * (a + b)) ∨ (1 / (1 + 1) * (a + b) ≤ s ∧ s ≤ b) := by
  rcases le_total s (1 / (1 + 1) * (a + b)) with h1 | h1
  · exact Or.inl ⟨h.1, h1⟩
  · exact Or.inr ⟨h1, h.2⟩

/-- `subdivide()` of a candidate: some piece still contains the parameter -/
theorem subdivideCand_covers (P : Prims K) (G : GeoConsts K) (c : Cand K) (s : K)
    (h : c.sub.start ≤ s ∧ s ≤ c.sub.stop) :
    ∃ d ∈ subdivideCand P G c, d.sub.start ≤ s ∧ s ≤ d.sub.stop := by
  cases c with
  | lin c e => exact ⟨.lin c e, by simp [subdivideCand], h⟩
  | curve c =>
    simp only [Cand.sub] at h
    rcases covers_split c.start c.stop s h with h1 | h1
    · refine ⟨_, by simp only [subdivideCand]; exact List.mem_cons_self, ?_⟩
      rw [fromShape_sub]; exact h1
    · refine ⟨_, by simp only [subdivideCand]; exact List.mem_cons_of_mem _ List.mem_cons_self, ?_⟩
      rw [fromShape_sub]; exact h1

theorem mem_subdividePairs (P : Prims K) (G : GeoConsts K) (a b : Cand K) (pr : Cand K × Cand K) :
    pr ∈ subdividePairs P G a b ↔ pr.1 ∈ subdivideCand P G a ∧ pr.2 ∈ subdivideCand P G b := by
  simp only [subdividePairs, List.mem_flatMap, List.mem_map]
  constructor
  · rintro ⟨x, hx, y, hy, rfl⟩; exact ⟨hx, hy⟩
  · rintro ⟨h1, h2⟩; exact ⟨pr.1, h1, pr.2, h2, rfl⟩

theorem subdividePairs_covers (P : Prims K) (G : GeoConsts K) (a b : Cand K) (s t : K)
    (h : Covers (a, b) s t) : ∃ pr ∈ subdividePairs P G a b, Covers pr s t := by
  obtain ⟨d1, hd1, c1⟩ := subdivideCand_covers P G a s ⟨h.1, h.2.1⟩
  obtain ⟨d2, hd2, c2⟩ := subdivideCand_covers P G b t ⟨h.2.2.1, h.2.2.2⟩
  exact ⟨(d1, d2), (mem_subdividePairs P G a b _).mpr ⟨hd1, hd2⟩, c1.1, c1.2, c2.1, c2.2⟩

/-! ### the halves of `subdivide_nodes` as curves -/

theorem evalBary_unit_bern (thr : ℕ) (row : List K) (h : 1 ≤ row.length) (s : K) :
    evalBary thr row (1 - s) s = bern (row.length - 1) (1 - s) s (seq row) := by
  rw [Geo.evalBary_eq_evalDC_unit thr row h, evalDC_eq_bern _ _ _ row (by omega)]

theorem py_subdivideRow_length (row : List K) (h : 1 ≤ row.length) :
    (Py.subdivideRow row).1.length = row.length ∧ (Py.subdivideRow row).2.length = row.length := by
  rw [C04.subdivide_is_specialize row h]
  exact ⟨C04.specialize_length _ _ _, C04.specialize_length _ _ _⟩

theorem py_subdivideRow_left_eval (thr : ℕ) (row : List K) (h : 1 ≤ row.length) (σ : K) :
    evalBary thr (Py.subdivideRow row).1 (1 - σ) σ = evalBary thr row (1 - σ / 2) (σ / 2) := by
  have hl := (py_subdivideRow_length row h).1
  rw [evalBary_unit_bern thr _ (by omega), evalBary_unit_bern thr row h, hl]
  exact C04.subdivide_left_correct row h σ

theorem py_subdivideRow_right_eval (thr : ℕ) (row : List K) (h : 1 ≤ row.length) (σ : K) :
    evalBary thr (Py.subdivideRow row).2 (1 - σ) σ = evalBary thr row (1 - (1 + σ) / 2) ((1 + σ) / 2) := by
  have hl := (py_subdivideRow_length row h).2
  rw [evalBary_unit_bern thr _ (by omega), evalBary_unit_bern thr row h, hl]
  exact C04.subdivide_right_correct row h σ

/-- the routine `concretePrims py C` calls -/
def subdivideOf (py : Bool) : List (List K) → List (List K) × List (List K) :=
  if py then Py.subdivide else F90.subdivide

theorem subdivideOf_eq_py (py : Bool) (nodes : List (List K)) (h : RowsOK nodes) :
    subdivideOf py nodes = Py.subdivide nodes := by
  cases py
  · simp only [subdivideOf, Bool.false_eq_true, if_false, F90.subdivide, Py.subdivide]
    congr 1 <;> apply List.map_congr_left <;> intro r hr <;>
      rw [C04.subdivide_variants_agree r (by have := h r hr; omega)]
  · rfl

theorem subdivide_left_eval (py : Bool) (thr : ℕ) (nodes : List (List K)) (h : RowsOK nodes) (σ : K) :
    evalPoint thr (subdivideOf py nodes).1 σ = evalPoint thr nodes (σ / 2) := by
  rw [subdivideOf_eq_py py nodes h]
  simp only [evalPoint, Py.subdivide, List.map_map]
  apply List.map_congr_left
  intro r hr
  exact py_subdivideRow_left_eval thr r (by have := h r hr; omega) σ

theorem subdivide_right_eval (py : Bool) (thr : ℕ) (nodes : List (List K)) (h : RowsOK nodes) (σ : K) :
    evalPoint thr (subdivideOf py nodes).2 σ = evalPoint thr nodes ((1 + σ) / 2) := by
  rw [subdivideOf_eq_py py nodes h]
  simp only [evalPoint, Py.subdivide, List.map_map]
  apply List.map_congr_left
  intro r hr
  exact py_subdivideRow_right_eval thr r (by have := h r hr; omega) σ

theorem subdivide_rowsOK (py : Bool) (nodes : List (List K)) (h : RowsOK nodes) :
    RowsOK (subdivideOf py nodes).1 ∧ RowsOK (subdivideOf py nodes).2 := by
  rw [subdivideOf_eq_py py nodes h]
  constructor <;> intro row hrow <;> simp only [Py.subdivide, List.mem_map] at hrow <;>
    obtain ⟨r, hr, rfl⟩ := hrow <;> have := h r hr
  · rw [(py_subdivideRow_length r (by omega)).1]; exact this
  · rw [(py_subdivideRow_length r (by omega)).2]; exact this

/-! ### rounds decided by the exact box test alone -/

/-- the pair is decided by `bbox_intersect` of the two node arrays alone: two un-linearised candidates whose
    boxes are not tangent (disjoint ⇒ dropped, intersecting ⇒ both subdivided), or two linearised candidates
    with disjoint boxes (dropped).  Excluded: `tangent_bbox_intersection`, `bbox_line_intersect` (mixed pairs),
    `from_linearized`. -/
inductive ExactPair (P : Prims K) : Cand K × Cand K → Prop
  | curves (c1 c2 : SubCurve K) : P.bboxIntersect c1.nodes c2.nodes ≠ .tangent →
      ExactPair P (.curve c1, .curve c2)
  | lines (c1 : SubCurve K) (e1 : K) (c2 : SubCurve K) (e2 : K) :
      P.bboxIntersect c1.nodes c2.nodes = .disjoint → ExactPair P (.lin c1 e1, .lin c2 e2)

/-- what such a pair contributes to the next round -/
def exactStep (P : Prims K) (G : GeoConsts K) (pr : Cand K × Cand K) : List (Cand K × Cand K) :=
  if P.bboxIntersect pr.1.sub.nodes pr.2.sub.nodes = .disjoint then [] else subdividePairs P G pr.1 pr.2

theorem intersectPair_exact (P : Prims K) (G : GeoConsts K) (o1 o2 : List (List K)) (pr : Cand K × Cand K)
    (acc : List (K × K)) (h : ExactPair P pr) :
    intersectPair P G o1 o2 pr.1 pr.2 acc = .ok (exactStep P G pr, acc) := by
  rw [intersectPair_eq]
  cases h with
  | curves c1 c2 hnt =>
    have hb : pairBox P (Cand.curve c1, Cand.curve c2).1 (Cand.curve c1, Cand.curve c2).2
        = P.bboxIntersect c1.nodes c2.nodes := rfl
    have hs : exactStep P G (Cand.curve c1, Cand.curve c2)
        = if P.bboxIntersect c1.nodes c2.nodes = .disjoint then []
          else subdividePairs P G (Cand.curve c1) (Cand.curve c2) := rfl
    rw [hb, hs]
    by_cases hd : P.bboxIntersect c1.nodes c2.nodes = .disjoint
    · rw [if_pos hd, if_pos hd]
    · rw [if_neg hd, if_neg hd, if_neg (fun hh => hnt hh.1)]
  | lines c1 e1 c2 e2 hd =>
    have hb : pairBox P (Cand.lin c1 e1, Cand.lin c2 e2).1 (Cand.lin c1 e1, Cand.lin c2 e2).2
        = P.bboxIntersect c1.nodes c2.nodes := rfl
    have hs : exactStep P G (Cand.lin c1 e1, Cand.lin c2 e2)
        = if P.bboxIntersect c1.nodes c2.nodes = .disjoint then []
          else subdividePairs P G (Cand.lin c1 e1) (Cand.lin c2 e2) := rfl
    rw [hb, hs, if_pos hd, if_pos hd]

theorem foldl_roundStep_exact (P : Prims K) (G : GeoConsts K) (o1 o2 : List (List K)) :
    ∀ (cands next : List (Cand K × Cand K)) (acc : List (K × K)), (∀ pr ∈ cands, ExactPair P pr) →
      cands.foldl (roundStep P G o1 o2) (.ok (next, acc)) = .ok (next ++ cands.flatMap (exactStep P G), acc) := by
  intro cands
  induction cands with
  | nil => intro next acc _; simp
  | cons pr rest ih =>
    intro next acc h
    rw [List.foldl_cons]
    have e : roundStep P G o1 o2 (.ok (next, acc)) pr = .ok (next ++ exactStep P G pr, acc) := by
      simp only [roundStep]
      rw [intersectPair_exact P G o1 o2 pr acc (h pr List.mem_cons_self)]
    rw [e, ih _ _ (fun q hq => h q (List.mem_cons_of_mem _ hq)), List.flatMap_cons, List.append_assoc]

/-- a round of exact pairs never fails, leaves the accumulator alone and is a `flatMap` -/
theorem intersectOneRound_exact (P : Prims K) (G : GeoConsts K) (o1 o2 : List (List K))
    (cands : List (Cand K × Cand K)) (acc : List (K × K)) (h : ∀ pr ∈ cands, ExactPair P pr) :
    intersectOneRound P G o1 o2 cands acc = .ok (cands.flatMap (exactStep P G), acc) := by
  rw [intersectOneRound_eq, foldl_roundStep_exact P G o1 o2 cands [] acc h, List.nil_append]

/-! ### `bbox_intersect = DISJOINT` -/

/-- the concrete box test answers `disjoint` on two planar nets with non-empty rows only if one of the four
    strict separations of `bbox_intersect` holds (written with a separating value) -/
theorem boxKind_disjoint_sep (x1 y1 x2 y2 : List K)
    (hx1 : 1 ≤ x1.length) (hy1 : 1 ≤ y1.length) (hx2 : 1 ≤ x2.length) (hy2 : 1 ≤ y2.length)
    (h : boxKindOf (bboxIntersect [x1, y1] [x2, y2]) = .disjoint) :
    (∃ c, (∀ v ∈ x1, v ≤ c) ∧ (∀ w ∈ x2, c < w)) ∨ (∃ c, (∀ w ∈ x2, w ≤ c) ∧ (∀ v ∈ x1, c < v)) ∨
    (∃ c, (∀ v ∈ y1, v ≤ c) ∧ (∀ w ∈ y2, c < w)) ∨ (∃ c, (∀ w ∈ y2, w ≤ c) ∧ (∀ v ∈ y1, c < v)) := by
  match x1, hx1, y1, hy1, x2, hx2, y2, hy2 with
  | a :: as, _, b :: bs, _, c :: cs, _, d :: ds, _ =>
    unfold bboxIntersect at h
    rw [bbox_rows, bbox_rows] at h
    simp only [boxRelation, boxKindOf] at h
    split_ifs at h with hd ht
    · rcases hd with hd | hd | hd | hd
      · exact Or.inr (Or.inl ⟨maxOf c cs, fun w hw => le_maxOf_of_mem cs c w hw,
          fun v hv => lt_of_lt_of_le hd (minOf_le_of_mem as a v hv)⟩)
      · exact Or.inl ⟨maxOf a as, fun v hv => le_maxOf_of_mem as a v hv,
          fun w hw => lt_of_lt_of_le hd (minOf_le_of_mem cs c w hw)⟩
      · exact Or.inr (Or.inr (Or.inr ⟨maxOf d ds, fun w hw => le_maxOf_of_mem ds d w hw,
          fun v hv => lt_of_lt_of_le hd (minOf_le_of_mem bs b v hv)⟩))
      · exact Or.inr (Or.inr (Or.inl ⟨maxOf b bs, fun v hv => le_maxOf_of_mem bs b v hv,
          fun w hw => lt_of_lt_of_le hd (minOf_le_of_mem ds d w hw)⟩))

/-- the reparametrisation `σ` with `start + σ·(stop − start) = s`, in `[0, 1]` -/
theorem local_param (a b s : K) (h : a ≤ s ∧ s ≤ b) :
    ∃ σ : K, 0 ≤ σ ∧ σ ≤ 1 ∧ a + σ * (b - a) = s := by
  rcases eq_or_lt_of_le (le_trans h.1 h.2) with hab | hab
  · refine ⟨0, le_refl _, zero_le_one, ?_⟩
    have : s = a := le_antisymm (hab ▸ h.2) h.1
    rw [this]; ring
  · have hpos : 0 < b - a := sub_pos.mpr hab
    refine ⟨(s - a) / (b - a), div_nonneg (sub_nonneg.mpr h.1) hpos.le, ?_, ?_⟩
    · rw [div_le_one hpos]; linarith [h.2]
    · field_simp; ring

/-! ### planar nets, invariant of a candidate, constants for examples -/

/-- a planar net: two rows (x, y) with at least two nodes each -/
def Planar (nodes : List (List K)) : Prop := nodes.length = 2 ∧ RowsOK nodes

theorem planar_shape (nodes : List (List K)) (h : Planar nodes) :
    ∃ x y, nodes = [x, y] ∧ 2 ≤ x.length ∧ 2 ≤ y.length := by
  obtain ⟨hl, hr⟩ := h
  match nodes, hl with
  | [x, y], _ => exact ⟨x, y, rfl, hr x (by simp), hr y (by simp)⟩

theorem planar_pair (x y : List K) (hx : 2 ≤ x.length) (hy : 2 ≤ y.length) : Planar [x, y] := by
  refine ⟨rfl, ?_⟩
  intro r hr
  simp only [List.mem_cons, List.not_mem_nil, or_false] at hr
  rcases hr with rfl | rfl <;> assumption

theorem subdivide_planar (py : Bool) (nodes : List (List K)) (h : Planar nodes) :
    Planar (subdivideOf py nodes).1 ∧ Planar (subdivideOf py nodes).2 := by
  obtain ⟨h1, h2⟩ := subdivide_rowsOK py nodes h.2
  refine ⟨⟨?_, h1⟩, ⟨?_, h2⟩⟩ <;> rw [subdivideOf_eq_py py nodes h.2] <;>
    simp only [Py.subdivide, List.length_map] <;> exact h.1

/-- the invariant carried by a candidate of curve `orig`: faithful reparametrisation, planar nodes -/
def CandInv (thr : ℕ) (orig : List (List K)) (c : Cand K) : Prop :=
  Faithful thr orig c ∧ Planar c.sub.nodes

/-- the library's constants, exact arithmetic (for non-vacuity examples) -/
def exConsts : PipelineConsts ℚ where
  geo := stubConsts 20 64
  vsThr := 55
  wiggle := 1 / 2 ^ 44
  epsSq := 1 / 2 ^ 80
  newtonFuel := 10
  locateRounds := 21
  locateCapSq := 1 / 2 ^ 40
  rnd := id

end BezierVerif.Cover
