import BezierVerif.Lemmas.Coverage
import BezierVerif.Lemmas.BoxLine
import BezierVerif.Props.C01

/-!
# Lemmas/CoverageBoxLine — what `bbox_line_intersect = DISJOINT` says about the TRUE linearised piece

`intersect_one_round` classifies a mixed pair (one linearised piece, one curve) by
`bbox_line_intersect(curve.nodes, chord start, chord end)`: the CHORD of the linearised piece against the control box
of the other piece.  `BoxLine.bboxLineIntersect_disjoint_iff` says that on a box with interior `DISJOINT` means exactly
"the closed chord misses the closed box".  The true piece is only NEAR its chord:

* `ChordWithin thr δ nodes`: every point of the piece (parameter in `[0,1]`) is within `δ` (max-norm) of a point of its
  chord (the classical bound gives `δ = linearization_error(nodes)`, which the pipeline requires to be `< _ERROR_VAL`);
* `boxLine_disjoint_collar`: if the answer is `DISJOINT`, a common point of the two pieces lies in the control box of the
  curve piece and within `δ` of its boundary (in the `δ`-collar);
* `chordWithin_line`: a degree-1 net is its own chord (`δ = 0`).
-/

namespace BezierVerif.Cover

open Model BezierVerif Pipe Predicates

set_option linter.unusedSectionVars false
set_option linter.unusedVariables false

variable {K : Type} [Field K] [LinearOrder K] [IsStrictOrderedRing K]

/-- chord start / end as passed to `bbox_line_intersect` by `intersect_one_round` -/
def chordS (nodes : List (List K)) : Pt K := ptOf (firstNode nodes)
def chordE (nodes : List (List K)) : Pt K := ptOf (lastNode nodes)

/-- every point of the piece is within `δ` (in each coordinate) of some point of its chord -/
def ChordWithin (thr : ℕ) (δ : K) (nodes : List (List K)) : Prop :=
  ∀ σ : K, 0 ≤ σ → σ ≤ 1 → ∃ u : K, 0 ≤ u ∧ u ≤ 1 ∧ ∃ px py : K, evalPoint thr nodes σ = [px, py] ∧
    |px - ((chordS nodes).1 + u * ((chordE nodes).1 - (chordS nodes).1))| ≤ δ ∧
    |py - ((chordS nodes).2 + u * ((chordE nodes).2 - (chordS nodes).2))| ≤ δ

/-- the `δ`-collar of a box: points of the box within `δ` of its boundary -/
def InCollar (box : K × K × K × K) (δ : K) (p : K × K) : Prop :=
  InBox box p ∧ (p.1 < box.1 + δ ∨ box.2.1 - δ < p.1 ∨ p.2 < box.2.2.1 + δ ∨ box.2.2.2 - δ < p.2)

/-- on a net with a box, `boxKindOf (bbox_line_intersect …) = disjoint` is the answer `DISJOINT` -/
theorem boxKind_boxLine_disjoint (nodes : List (List K)) (S E : Pt K) (l r b t : K)
    (hb : bbox nodes = .ok (l, r, b, t)) (h : boxKindOf (bboxLineIntersect nodes S E) = .disjoint) :
    bboxLineIntersect nodes S E = .ok .disjoint := by
  rcases BoxLine.bboxLineIntersect_ok_cases nodes S E l r b t hb with h' | h'
  · rw [h'] at h; simp [boxKindOf] at h
  · exact h'

/-- a point of a planar net with parameter in `[0,1]` lies in the box returned by `bbox` -/
theorem point_in_bbox (thr : ℕ) (nodes : List (List K)) (hp : Planar nodes) (l r b t : K)
    (hb : bbox nodes = .ok (l, r, b, t)) (τ : K) (h0 : 0 ≤ τ) (h1 : τ ≤ 1) :
    ∃ px py : K, evalPoint thr nodes τ = [px, py] ∧ InBox (l, r, b, t) (px, py) := by
  obtain ⟨x, xs, y, ys, rfl, hbox⟩ := bbox_ok_shape nodes _ hb
  simp only [Prod.mk.injEq] at hbox
  obtain ⟨rfl, rfl, rfl, rfl⟩ := hbox
  have hx := hp.2 (x :: xs) (by simp)
  have hy := hp.2 (y :: ys) (by simp)
  refine ⟨_, _, rfl, ?_⟩
  have bx := C01.in_box thr (x :: xs) hx τ (minOf x xs) (maxOf x xs) h0 h1
    (fun v hv => minOf_le_of_mem xs x v hv) (fun v hv => le_maxOf_of_mem xs x v hv)
  have by' := C01.in_box thr (y :: ys) hy τ (minOf y ys) (maxOf y ys) h0 h1
    (fun v hv => minOf_le_of_mem ys y v hv) (fun v hv => le_maxOf_of_mem ys y v hv)
  exact ⟨bx.1, bx.2, by'.1, by'.2⟩

/-- **`DISJOINT` and the true piece**: `cur` a planar net whose box has interior, `lin` a net within `δ` of its chord,
    `bbox_line_intersect(cur, chord of lin) = DISJOINT`.  Then a common point of the two pieces (parameters in
    `[0,1]²`) lies in the `δ`-collar of the box of `cur`. -/
theorem boxLine_disjoint_collar (thr : ℕ) (lin cur : List (List K)) (hpc : Planar cur) (l r b t : K)
    (hb : bbox cur = .ok (l, r, b, t)) (hlr : l < r) (hbt : b < t)
    (hdis : boxKindOf (bboxLineIntersect cur (chordS lin) (chordE lin)) = .disjoint)
    (δ : K) (hch : ChordWithin thr δ lin) (σ τ : K) (hσ0 : 0 ≤ σ) (hσ1 : σ ≤ 1) (hτ0 : 0 ≤ τ) (hτ1 : τ ≤ 1)
    (hmeet : evalPoint thr lin σ = evalPoint thr cur τ) :
    ∃ px py : K, evalPoint thr cur τ = [px, py] ∧ InCollar (l, r, b, t) δ (px, py) := by
  have hd := boxKind_boxLine_disjoint cur _ _ l r b t hb hdis
  rw [BoxLine.bboxLineIntersect_disjoint_iff cur _ _ l r b t hb hlr hbt] at hd
  obtain ⟨u, hu0, hu1, px, py, hpt, hx, hy⟩ := hch σ hσ0 hσ1
  obtain ⟨qx, qy, hq, hin⟩ := point_in_bbox thr cur hpc l r b t hb τ hτ0 hτ1
  have e : [px, py] = [qx, qy] := by rw [← hpt, ← hq]; exact hmeet
  simp only [List.cons.injEq, and_true] at e
  obtain ⟨rfl, rfl⟩ := e
  refine ⟨px, py, hq, hin, ?_⟩
  have hout : ¬ InBox (l, r, b, t) ((chordS lin).1 + u * ((chordE lin).1 - (chordS lin).1),
      (chordS lin).2 + u * ((chordE lin).2 - (chordS lin).2)) := fun hc => hd ⟨u, hu0, hu1, hc⟩
  rw [abs_le] at hx hy
  simp only [InBox, not_and_or, not_le] at hout
  rcases hout with h | h | h | h
  · left; show px < l + δ; linarith [hx.2]
  · right; left; show r - δ < px; linarith [hx.1]
  · right; right; left; show py < b + δ; linarith [hy.2]
  · right; right; right; show t - δ < py; linarith [hy.1]

/-- a degree-1 net is its own chord -/
theorem chordWithin_line (thr : ℕ) (x0 x1 y0 y1 : K) : ChordWithin thr 0 [[x0, x1], [y0, y1]] := by
  intro σ _ _
  have hx : evalBary thr [x0, x1] (1 - σ) σ = x0 + σ * (x1 - x0) := by
    rw [evalBary_unit_bern thr [x0, x1] (by simp) σ]
    simp [seq, bern, Finset.sum_range_succ]
    ring
  have hy : evalBary thr [y0, y1] (1 - σ) σ = y0 + σ * (y1 - y0) := by
    rw [evalBary_unit_bern thr [y0, y1] (by simp) σ]
    simp [seq, bern, Finset.sum_range_succ]
    ring
  refine ⟨σ, ‹_›, ‹_›, x0 + σ * (x1 - x0), y0 + σ * (y1 - y0), ?_, ?_, ?_⟩
  · simp [evalPoint, hx, hy]
  · simp [chordS, chordE, firstNode, lastNode, ptOf, seq]
  · simp [chordS, chordE, firstNode, lastNode, ptOf, seq]

end BezierVerif.Cover
