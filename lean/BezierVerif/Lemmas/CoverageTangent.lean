import BezierVerif.Lemmas.Coverage
import BezierVerif.Lemmas.SelfCover
import BezierVerif.Lemmas.Overlap
import BezierVerif.Lemmas.Equivariance
import BezierVerif.Props.C03
import BezierVerif.Props.C03Coverage

/-!
# Lemmas/CoverageTangent — the coverage invariant through `tangent_bbox_intersection`

Helpers for `Props/C03Tangent.lean`:

* `RowVaries`, `CoordVaries`, `NoConstCoord`: a row with two different control values, a coordinate FUNCTION that
  is not constant on `K`, a net none of whose coordinate functions is constant; `coordVaries_iff_rowVaries`
  (Bernstein coefficients are unique: `Overlap.bern_zero`), `noConstCoord_inherit` (a faithful candidate of
  non-zero width inherits the side condition from the original curve);
* `RowsTouch`, `TangentSide`: the ranges of one coordinate of the two nets are weakly separated; the side condition
  of `tangent_bbox_intersection` (some touching coordinate varies in both nets); `boxKind_tangent_touch`: what
  `bbox_intersect = TANGENT` gives; `tangentSide_of_tangent`;
* `touch_only_endpoints`: the one-coordinate core (from `C03.tangent_only_endpoints`);
* `Accum`: the pair is represented in the accumulator (equal to a stored pair or dropped by `add_intersection`
  because of it); `endpointCheck_accum`, `tangentBbox_prefix`, `tangentBbox_accum`;
* `TanPair`, `intersectPair_tangent`, `concrete_boxLine_not_tangent`: which candidate pairs reach `tangentBbox`;
* `CandInvW` (candidate invariant + positive width), `subdivideCand_width`;
* `common_point_is_endpoint`, `tangentBbox_covers_core`, `intersectPair_cover`, `foldl_roundStep_cover`: the pair step
  and the fold of `intersect_one_round` over pairs that are `ExactPair` or `TanPair`.
-/

namespace BezierVerif.Cover

open Model BezierVerif Pipe Predicates SelfCover

set_option linter.unusedSectionVars false
set_option linter.unusedVariables false

variable {K : Type} [Field K] [LinearOrder K] [IsStrictOrderedRing K]

/-! ### constant and varying coordinates -/

/-- the row has two different control values -/
def RowVaries (row : List K) : Prop := ∃ a ∈ row, ∃ b ∈ row, a ≠ b

instance (row : List K) : Decidable (RowVaries row) := by unfold RowVaries; infer_instance

/-- the coordinate function `s ↦ Σ b_{j,n}(s) row_j` is not constant on `K` -/
def CoordVaries (thr : ℕ) (row : List K) : Prop :=
  ∃ a b : K, evalBary thr row (1 - a) a ≠ evalBary thr row (1 - b) b

/-- no coordinate function of the curve is constant -/
def NoConstCoord (thr : ℕ) (nodes : List (List K)) : Prop := ∀ row ∈ nodes, CoordVaries thr row

theorem getElem_eq_seq (l : List K) (j : ℕ) (hj : j < l.length) : l[j] = seq l j := by
  unfold seq
  rw [List.getD_eq_getElem?_getD, List.getElem?_eq_getElem hj]
  rfl

/-- a non-constant coordinate function has two different control values (easy direction) -/
theorem rowVaries_of_coordVaries (thr : ℕ) (row : List K) (h : 2 ≤ row.length) (hv : CoordVaries thr row) :
    RowVaries row := by
  by_contra hn
  have heq : ∀ a ∈ row, ∀ b ∈ row, a = b := by
    intro a ha b hb
    by_contra hab
    exact hn ⟨a, ha, b, hb, hab⟩
  obtain ⟨a, b, hab⟩ := hv
  apply hab
  apply const_of_zero_diffs thr row h
  intro x hx
  obtain ⟨j, hj, rfl⟩ := List.getElem_of_mem hx
  have hl := Lipschitz.diffs_length row
  rw [getElem_eq_seq _ j hj, Lipschitz.seq_diffs row j (by omega)]
  unfold Lipschitz.fdiff
  rw [heq (seq row (j + 1)) (seq_mem row _ (by omega)) (seq row j) (seq_mem row _ (by omega)), sub_self]

/-- two different control values make the coordinate function non-constant (the Bernstein coefficients of a
    polynomial are unique) -/
theorem coordVaries_of_rowVaries (thr : ℕ) (row : List K) (h : 1 ≤ row.length) (hv : RowVaries row) :
    CoordVaries thr row := by
  by_contra hn
  have hconst : ∀ σ : K, evalBary thr row (1 - σ) σ = evalBary thr row (1 - 0) 0 := by
    intro σ
    by_contra hne
    exact hn ⟨σ, 0, hne⟩
  set c := evalBary thr row (1 - 0) 0 with hc
  have hz := Overlap.bern_zero (row.length - 1) (fun j => seq row j + -c) (by
    intro σ
    rw [Equivariance.bern_translate, ← evalBary_unit_bern thr row h σ, hconst σ]
    ring)
  have hall : ∀ x ∈ row, x = c := by
    intro x hx
    obtain ⟨j, hj, rfl⟩ := List.getElem_of_mem hx
    have := hz j (by omega)
    rw [getElem_eq_seq row j hj]
    linarith
  obtain ⟨a, ha, b, hb, hab⟩ := hv
  exact hab ((hall a ha).trans (hall b hb).symm)

theorem coordVaries_iff_rowVaries (thr : ℕ) (row : List K) (h : 2 ≤ row.length) :
    CoordVaries thr row ↔ RowVaries row :=
  ⟨rowVaries_of_coordVaries thr row h, coordVaries_of_rowVaries thr row (by omega)⟩

/-- on a net: no coordinate function is constant iff every row has two different control values -/
theorem noConstCoord_iff_rows (thr : ℕ) (nodes : List (List K)) (h : RowsOK nodes) :
    NoConstCoord thr nodes ↔ ∀ row ∈ nodes, RowVaries row := by
  constructor
  · intro hn row hr; exact rowVaries_of_coordVaries thr row (h row hr) (hn row hr)
  · intro hn row hr; exact coordVaries_of_rowVaries thr row (by have := h row hr; omega) (hn row hr)

/-- **the side condition is inherited**: a faithful candidate of non-zero width of a curve without constant
    coordinate has no constant coordinate (`σ ↦ start + σ·(stop − start)` is onto `K`) -/
theorem noConstCoord_inherit (thr : ℕ) (orig : List (List K)) (c : Cand K) (hf : Faithful thr orig c)
    (hw : c.sub.start ≠ c.sub.stop) (h : NoConstCoord thr orig) : NoConstCoord thr c.sub.nodes := by
  intro row hrow
  obtain ⟨i, hi, rfl⟩ := List.getElem_of_mem hrow
  have hlen : c.sub.nodes.length = orig.length := by
    have := congrArg List.length (hf 0)
    simpa [evalPoint] using this
  have hio : i < orig.length := hlen ▸ hi
  obtain ⟨A, B, hAB⟩ := h orig[i] (List.getElem_mem hio)
  have hw' : c.sub.stop - c.sub.start ≠ 0 := sub_ne_zero.mpr (Ne.symm hw)
  have key : ∀ u : K, evalBary thr c.sub.nodes[i] (1 - (u - c.sub.start) / (c.sub.stop - c.sub.start))
      ((u - c.sub.start) / (c.sub.stop - c.sub.start)) = evalBary thr orig[i] (1 - u) u := by
    intro u
    have := hf ((u - c.sub.start) / (c.sub.stop - c.sub.start))
    have e : c.sub.start + (u - c.sub.start) / (c.sub.stop - c.sub.start) * (c.sub.stop - c.sub.start) = u := by
      field_simp; ring
    rw [e] at this
    have h2 := congrArg (fun l => l[i]?) this
    simp only [evalPoint, List.getElem?_map, List.getElem?_eq_getElem hi, List.getElem?_eq_getElem hio,
      Option.map_some, Option.some.injEq] at h2
    exact h2
  refine ⟨(A - c.sub.start) / (c.sub.stop - c.sub.start), (B - c.sub.start) / (c.sub.stop - c.sub.start), ?_⟩
  rw [key A, key B]
  exact hAB

/-! ### touching ranges -/

/-- the ranges of the two rows are weakly separated by a value `c` -/
def RowsTouch (r1 r2 : List K) : Prop :=
  ∃ c, ((∀ v ∈ r1, v ≤ c) ∧ (∀ w ∈ r2, c ≤ w)) ∨ ((∀ w ∈ r2, w ≤ c) ∧ (∀ v ∈ r1, c ≤ v))

/-- the side condition of `tangent_bbox_intersection` on two nets: in some coordinate the ranges touch and the
    coordinate is not constant in either net (its failure is the finding `tangent-bbox:curve-on-axis-parallel-line`) -/
def TangentSide (n1 n2 : List (List K)) : Prop :=
  ∃ p ∈ List.zip n1 n2, RowsTouch p.1 p.2 ∧ RowVaries p.1 ∧ RowVaries p.2

/-- a varying row below (above) `c` has a value strictly below (above) `c` -/
theorem exists_lt_of_varies (r : List K) (c : K) (hle : ∀ v ∈ r, v ≤ c) (hv : RowVaries r) : ∃ v ∈ r, v < c := by
  obtain ⟨a, ha, b, hb, hab⟩ := hv
  by_cases h : a = c
  · exact ⟨b, hb, lt_of_le_of_ne (hle b hb) (fun hbc => hab (h.trans hbc.symm))⟩
  · exact ⟨a, ha, lt_of_le_of_ne (hle a ha) h⟩

theorem exists_gt_of_varies (r : List K) (c : K) (hge : ∀ v ∈ r, c ≤ v) (hv : RowVaries r) : ∃ v ∈ r, c < v := by
  obtain ⟨a, ha, b, hb, hab⟩ := hv
  by_cases h : a = c
  · exact ⟨b, hb, lt_of_le_of_ne (hge b hb) (fun hbc => hab (h.trans hbc))⟩
  · exact ⟨a, ha, lt_of_le_of_ne (hge a ha) (Ne.symm h)⟩

/-- one coordinate: touching ranges, both rows varying ⇒ a common value on `[0,1]²` is taken at end points -/
theorem touch_only_endpoints (thr : ℕ) (r1 r2 : List K) (h1 : 2 ≤ r1.length) (h2 : 2 ≤ r2.length)
    (ht : RowsTouch r1 r2) (hv1 : RowVaries r1) (hv2 : RowVaries r2)
    (σ τ : K) (hσ0 : 0 ≤ σ) (hσ1 : σ ≤ 1) (hτ0 : 0 ≤ τ) (hτ1 : τ ≤ 1)
    (hmeet : evalBary thr r1 (1 - σ) σ = evalBary thr r2 (1 - τ) τ) : (σ = 0 ∨ σ = 1) ∧ (τ = 0 ∨ τ = 1) := by
  obtain ⟨c, ⟨hle, hge⟩ | ⟨hle, hge⟩⟩ := ht
  · exact C03.tangent_boxes_only_endpoints thr r1 r2 h1 h2 c hle hge (exists_lt_of_varies r1 c hle hv1)
      (exists_gt_of_varies r2 c hge hv2) σ τ hσ0 hσ1 hτ0 hτ1 hmeet
  · exact (C03.tangent_boxes_only_endpoints thr r2 r1 h2 h1 c hle hge (exists_lt_of_varies r2 c hle hv2)
      (exists_gt_of_varies r1 c hge hv1) τ σ hτ0 hτ1 hσ0 hσ1 hmeet.symm).symm

/-- `bbox_intersect = TANGENT` on two planar nets with non-empty rows: the x-ranges or the y-ranges touch
    (`right2 = left1`, `right1 = left2`, `top2 = bottom1` or `top1 = bottom2`, none of the strict separations) -/
theorem boxKind_tangent_touch (x1 y1 x2 y2 : List K)
    (hx1 : 1 ≤ x1.length) (hy1 : 1 ≤ y1.length) (hx2 : 1 ≤ x2.length) (hy2 : 1 ≤ y2.length)
    (h : boxKindOf (bboxIntersect [x1, y1] [x2, y2]) = .tangent) : RowsTouch x1 x2 ∨ RowsTouch y1 y2 := by
  match x1, hx1, y1, hy1, x2, hx2, y2, hy2 with
  | a :: as, _, b :: bs, _, c :: cs, _, d :: ds, _ =>
    unfold bboxIntersect at h
    rw [bbox_rows, bbox_rows] at h
    simp only [boxRelation, boxKindOf] at h
    split_ifs at h with hd ht
    rcases ht with ht | ht | ht | ht
    · exact Or.inl ⟨maxOf c cs, Or.inr ⟨fun w hw => le_maxOf_of_mem cs c w hw,
        fun v hv => ht ▸ minOf_le_of_mem as a v hv⟩⟩
    · exact Or.inl ⟨maxOf a as, Or.inl ⟨fun v hv => le_maxOf_of_mem as a v hv,
        fun w hw => ht ▸ minOf_le_of_mem cs c w hw⟩⟩
    · exact Or.inr ⟨maxOf d ds, Or.inr ⟨fun w hw => le_maxOf_of_mem ds d w hw,
        fun v hv => ht ▸ minOf_le_of_mem bs b v hv⟩⟩
    · exact Or.inr ⟨maxOf b bs, Or.inl ⟨fun v hv => le_maxOf_of_mem bs b v hv,
        fun w hw => ht ▸ minOf_le_of_mem ds d w hw⟩⟩

/-- tangent boxes of two planar nets all of whose rows vary satisfy the side condition -/
theorem tangentSide_of_tangent (py : Bool) (C : PipelineConsts K) (n1 n2 : List (List K))
    (hp1 : Planar n1) (hp2 : Planar n2) (hv1 : ∀ row ∈ n1, RowVaries row) (hv2 : ∀ row ∈ n2, RowVaries row)
    (h : (concretePrims py C).bboxIntersect n1 n2 = .tangent) : TangentSide n1 n2 := by
  obtain ⟨x1, y1, rfl, hx1, hy1⟩ := planar_shape _ hp1
  obtain ⟨x2, y2, rfl, hx2, hy2⟩ := planar_shape _ hp2
  rcases boxKind_tangent_touch x1 y1 x2 y2 (by omega) (by omega) (by omega) (by omega) h with ht | ht
  · exact ⟨(x1, x2), by simp, ht, hv1 x1 (by simp), hv2 x2 (by simp)⟩
  · exact ⟨(y1, y2), by simp, ht, hv1 y1 (by simp), hv2 y2 (by simp)⟩

/-- planar nets: under the side condition every common point on `[0,1]²` is a pair of end points -/
theorem tangentSide_only_endpoints (thr : ℕ) (n1 n2 : List (List K)) (hp1 : Planar n1) (hp2 : Planar n2)
    (hside : TangentSide n1 n2) (σ τ : K) (hσ0 : 0 ≤ σ) (hσ1 : σ ≤ 1) (hτ0 : 0 ≤ τ) (hτ1 : τ ≤ 1)
    (hmeet : evalPoint thr n1 σ = evalPoint thr n2 τ) : (σ = 0 ∨ σ = 1) ∧ (τ = 0 ∨ τ = 1) := by
  obtain ⟨x1, y1, rfl, hx1, hy1⟩ := planar_shape _ hp1
  obtain ⟨x2, y2, rfl, hx2, hy2⟩ := planar_shape _ hp2
  simp only [evalPoint, List.map_cons, List.map_nil, List.cons.injEq, and_true] at hmeet
  obtain ⟨p, hp, ht, hv1, hv2⟩ := hside
  simp only [List.zip_cons_cons, List.zip_nil_right, List.mem_cons, List.not_mem_nil, or_false] at hp
  rcases hp with rfl | rfl
  · exact touch_only_endpoints thr x1 x2 hx1 hx2 ht hv1 hv2 σ τ hσ0 hσ1 hτ0 hτ1 hmeet.1
  · exact touch_only_endpoints thr y1 y2 hy1 hy2 ht hv1 hv2 σ τ hσ0 hσ1 hτ0 hτ1 hmeet.2

/-! ### the accumulator -/

/-- `(s, t)` is represented in the accumulator: equal to a stored pair, or within the relative distance at which
    `add_intersection` drops it because of a stored pair (`SelfCover.Near`) -/
def Accum (G : GeoConsts K) (acc : List (K × K)) (s t : K) : Prop := ∃ q ∈ acc, Near G q (s, t)

theorem accum_mono (G : GeoConsts K) {acc acc' : List (K × K)} (h : acc <+: acc') (s t : K)
    (ha : Accum G acc s t) : Accum G acc' s t := by
  obtain ⟨q, hq, hn⟩ := ha
  exact ⟨q, h.subset hq, hn⟩

theorem endpointCheck_prefix (P : Prims K) (G : GeoConsts K) (first : SubCurve K) (nf : List K) (σ : K)
    (second : SubCurve K) (ns : List K) (τ : K) (acc : List (K × K)) : acc <+: endpointCheck P G first nf σ second ns τ acc := by
  unfold endpointCheck
  split
  · exact addIntersection_prefix G _ _ acc
  · exact List.prefix_refl acc

/-- an accepted end-point pair is represented afterwards -/
theorem endpointCheck_accum (P : Prims K) (G : GeoConsts K) (first : SubCurve K) (nf : List K) (σ : K)
    (second : SubCurve K) (ns : List K) (τ : K) (acc : List (K × K)) (h : P.vectorClose nf ns = true) :
    Accum G (endpointCheck P G first nf σ second ns τ acc)
      ((1 - σ) * first.start + σ * first.stop) ((1 - τ) * second.start + τ * second.stop) := by
  unfold endpointCheck
  rw [if_pos h]
  exact addIntersection_covers G _ _ acc

theorem tangentBbox_eq (P : Prims K) (G : GeoConsts K) (first second : SubCurve K) (acc : List (K × K)) :
    tangentBbox P G first second acc =
      endpointCheck P G first (lastNode first.nodes) 1 second (lastNode second.nodes) 1
        (endpointCheck P G first (lastNode first.nodes) 1 second (firstNode second.nodes) 0
          (endpointCheck P G first (firstNode first.nodes) 0 second (lastNode second.nodes) 1
            (endpointCheck P G first (firstNode first.nodes) 0 second (firstNode second.nodes) 0 acc))) := rfl

theorem tangentBbox_prefix (P : Prims K) (G : GeoConsts K) (first second : SubCurve K) (acc : List (K × K)) :
    acc <+: tangentBbox P G first second acc := by
  rw [tangentBbox_eq]
  exact ((((endpointCheck_prefix P G first _ 0 second _ 0 acc).trans
    (endpointCheck_prefix P G first _ 0 second _ 1 _)).trans
    (endpointCheck_prefix P G first _ 1 second _ 0 _)).trans
    (endpointCheck_prefix P G first _ 1 second _ 1 _))

theorem lerp_zero (a b : K) : (1 - 0) * a + 0 * b = a := by ring
theorem lerp_one (a b : K) : (1 - 1) * a + 1 * b = b := by ring

/-- `tangent_bbox_intersection` with a `vector_close` that accepts equal vectors: each of the four end-point pairs
    that coincide is represented in the accumulator afterwards, with the ORIGINAL parameters -/
theorem tangentBbox_accum (P : Prims K) (G : GeoConsts K) (first second : SubCurve K) (acc : List (K × K))
    (hclose : ∀ u, P.vectorClose u u = true) :
    (firstNode first.nodes = firstNode second.nodes →
      Accum G (tangentBbox P G first second acc) first.start second.start) ∧
    (firstNode first.nodes = lastNode second.nodes →
      Accum G (tangentBbox P G first second acc) first.start second.stop) ∧
    (lastNode first.nodes = firstNode second.nodes →
      Accum G (tangentBbox P G first second acc) first.stop second.start) ∧
    (lastNode first.nodes = lastNode second.nodes →
      Accum G (tangentBbox P G first second acc) first.stop second.stop) := by
  rw [tangentBbox_eq]
  refine ⟨fun h => ?_, fun h => ?_, fun h => ?_, fun h => ?_⟩
  · have := endpointCheck_accum P G first (firstNode first.nodes) 0 second (firstNode second.nodes) 0 acc
      (by rw [h]; exact hclose _)
    rw [lerp_zero, lerp_zero] at this
    exact accum_mono G (((endpointCheck_prefix P G first _ 0 second _ 1 _).trans
      (endpointCheck_prefix P G first _ 1 second _ 0 _)).trans (endpointCheck_prefix P G first _ 1 second _ 1 _)) _ _ this
  · have := endpointCheck_accum P G first (firstNode first.nodes) 0 second (lastNode second.nodes) 1
      (endpointCheck P G first (firstNode first.nodes) 0 second (firstNode second.nodes) 0 acc)
      (by rw [h]; exact hclose _)
    rw [lerp_zero, lerp_one] at this
    exact accum_mono G ((endpointCheck_prefix P G first _ 1 second _ 0 _).trans
      (endpointCheck_prefix P G first _ 1 second _ 1 _)) _ _ this
  · have := endpointCheck_accum P G first (lastNode first.nodes) 1 second (firstNode second.nodes) 0
      (endpointCheck P G first (firstNode first.nodes) 0 second (lastNode second.nodes) 1
        (endpointCheck P G first (firstNode first.nodes) 0 second (firstNode second.nodes) 0 acc))
      (by rw [h]; exact hclose _)
    rw [lerp_one, lerp_zero] at this
    exact accum_mono G (endpointCheck_prefix P G first _ 1 second _ 1 _) _ _ this
  · have := endpointCheck_accum P G first (lastNode first.nodes) 1 second (lastNode second.nodes) 1
      (endpointCheck P G first (lastNode first.nodes) 1 second (firstNode second.nodes) 0
        (endpointCheck P G first (firstNode first.nodes) 0 second (lastNode second.nodes) 1
          (endpointCheck P G first (firstNode first.nodes) 0 second (firstNode second.nodes) 0 acc)))
      (by rw [h]; exact hclose _)
    rw [lerp_one, lerp_one] at this
    exact this

/-! ### which candidate pairs reach `tangent_bbox_intersection` -/

/-- two un-linearised candidates whose boxes are classified `TANGENT` by `bbox_intersect` -/
inductive TanPair (P : Prims K) : Cand K × Cand K → Prop
  | curves (c1 c2 : SubCurve K) : P.bboxIntersect c1.nodes c2.nodes = .tangent → TanPair P (.curve c1, .curve c2)

theorem intersectPair_tangent (P : Prims K) (G : GeoConsts K) (o1 o2 : List (List K)) (pr : Cand K × Cand K)
    (acc : List (K × K)) (h : TanPair P pr) :
    intersectPair P G o1 o2 pr.1 pr.2 acc = .ok ([], tangentBbox P G pr.1.sub pr.2.sub acc) := by
  rw [intersectPair_eq]
  cases h with
  | curves c1 c2 ht =>
    have hb : pairBox P (Cand.curve c1, Cand.curve c2).1 (Cand.curve c1, Cand.curve c2).2
        = P.bboxIntersect c1.nodes c2.nodes := rfl
    rw [hb, ht, if_neg (by decide), if_pos ⟨rfl, rfl⟩]

/-- `bbox_line_intersect` only answers `INTERSECTION` or `DISJOINT` -/
theorem boxLine_not_tangent (nodes : List (List K)) (s e : Pt K) :
    boxKindOf (bboxLineIntersect nodes s e) ≠ .tangent := by
  unfold bboxLineIntersect
  split
  · simp [boxKindOf]
  · dsimp only
    split_ifs <;> simp [boxKindOf]

/-- with the library's primitives the `tangent ∧ ¬ both linearised` branch of `intersect_one_round` is taken
    exactly by the pairs `TanPair`: a mixed pair is classified by `bbox_line_intersect`, which never says
    `TANGENT`, and a pair of linearisations is excluded by the guard -/
theorem tangent_branch_iff (py : Bool) (C : PipelineConsts K) (a b : Cand K) :
    (pairBox (concretePrims py C) a b = .tangent ∧ (!(a.isLin && b.isLin)) = true) ↔
      TanPair (concretePrims py C) (a, b) := by
  constructor
  · rintro ⟨hb, hl⟩
    cases a with
    | lin c1 e1 =>
      cases b with
      | lin c2 e2 => simp [Cand.isLin] at hl
      | curve c2 => exact absurd hb (boxLine_not_tangent _ _ _)
    | curve c1 =>
      cases b with
      | lin c2 e2 => exact absurd hb (boxLine_not_tangent _ _ _)
      | curve c2 => exact TanPair.curves c1 c2 hb
  · intro h
    cases h with
    | curves c1 c2 ht => exact ⟨ht, rfl⟩

/-! ### candidates of positive width -/

/-- the candidate invariant of `Lemmas/Coverage` together with a parameter interval of positive width -/
def CandInvW (thr : ℕ) (orig : List (List K)) (c : Cand K) : Prop :=
  CandInv thr orig c ∧ c.sub.start < c.sub.stop

theorem subdivideCand_width (P : Prims K) (G : GeoConsts K) (c : Cand K) (h : c.sub.start < c.sub.stop) :
    ∀ d ∈ subdivideCand P G c, d.sub.start < d.sub.stop := by
  cases c with
  | lin c e =>
    intro d hd
    simp only [subdivideCand, List.mem_singleton] at hd
    subst hd; exact h
  | curve c =>
    simp only [Cand.sub] at h
    intro d hd
    simp only [subdivideCand, List.mem_cons, List.not_mem_nil, or_false] at hd
    rcases hd with hd | hd <;> subst hd <;> rw [fromShape_sub] <;> simp only [Cand.sub, half_eq] <;> linarith

/-- the initial candidate `[0, 1]` -/
theorem candInvW_initial (thr : ℕ) (orig : List (List K)) (h : Planar orig) :
    CandInvW thr orig (.curve { nodes := orig, start := 0, stop := 1 }) :=
  ⟨⟨faithful_initial thr orig, h⟩, by simp [Cand.sub]⟩

/-! ### a common point of a pair with touching boxes -/

/-- faithful planar candidates under the side condition: a true intersection in their rectangle is a pair of end
    points of the two pieces -/
theorem common_point_is_endpoint (thr : ℕ) (orig1 orig2 : List (List K)) (a b : Cand K)
    (ha : CandInv thr orig1 a) (hb : CandInv thr orig2 b) (hside : TangentSide a.sub.nodes b.sub.nodes)
    (s t : K) (hc : Covers (a, b) s t) (hi : TrueInt thr orig1 orig2 s t) :
    ((s = a.sub.start ∧ evalPoint thr orig1 s = firstNode a.sub.nodes) ∨
      (s = a.sub.stop ∧ evalPoint thr orig1 s = lastNode a.sub.nodes)) ∧
    ((t = b.sub.start ∧ evalPoint thr orig2 t = firstNode b.sub.nodes) ∨
      (t = b.sub.stop ∧ evalPoint thr orig2 t = lastNode b.sub.nodes)) := by
  obtain ⟨σ, hσ0, hσ1, hσ⟩ := local_param a.sub.start a.sub.stop s ⟨hc.1, hc.2.1⟩
  obtain ⟨τ, hτ0, hτ1, hτ⟩ := local_param b.sub.start b.sub.stop t ⟨hc.2.2.1, hc.2.2.2⟩
  have e1 : evalPoint thr a.sub.nodes σ = evalPoint thr orig1 s := by rw [ha.1 σ, hσ]
  have e2 : evalPoint thr b.sub.nodes τ = evalPoint thr orig2 t := by rw [hb.1 τ, hτ]
  have hmeet : evalPoint thr a.sub.nodes σ = evalPoint thr b.sub.nodes τ := by
    rw [e1, e2]; exact hi.2.2.2.2
  obtain ⟨h1, h2⟩ := tangentSide_only_endpoints thr _ _ ha.2 hb.2 hside σ τ hσ0 hσ1 hτ0 hτ1 hmeet
  constructor
  · rcases h1 with rfl | rfl
    · left
      refine ⟨by rw [← hσ]; ring, ?_⟩
      rw [← e1, Overlap.firstNode_eq thr _ ha.2.2]
    · right
      refine ⟨by rw [← hσ]; ring, ?_⟩
      rw [← e1, Overlap.lastNode_eq thr _ ha.2.2]
  · rcases h2 with rfl | rfl
    · left
      refine ⟨by rw [← hτ]; ring, ?_⟩
      rw [← e2, Overlap.firstNode_eq thr _ hb.2.2]
    · right
      refine ⟨by rw [← hτ]; ring, ?_⟩
      rw [← e2, Overlap.lastNode_eq thr _ hb.2.2]

/-- `tangent_bbox_intersection` on such a pair: the accumulator is extended, and every true intersection in the
    rectangle of the pair is represented afterwards -/
theorem tangentBbox_covers_core (P : Prims K) (G : GeoConsts K) (thr : ℕ) (orig1 orig2 : List (List K)) (a b : Cand K)
    (acc : List (K × K)) (hclose : ∀ u, P.vectorClose u u = true)
    (ha : CandInv thr orig1 a) (hb : CandInv thr orig2 b) (hside : TangentSide a.sub.nodes b.sub.nodes)
    (s t : K) (hi : TrueInt thr orig1 orig2 s t) (hc : Covers (a, b) s t) :
    Accum G (tangentBbox P G a.sub b.sub acc) s t := by
  obtain ⟨h00, h01, h10, h11⟩ := tangentBbox_accum P G a.sub b.sub acc hclose
  have hpt := hi.2.2.2.2
  obtain ⟨hs, ht⟩ := common_point_is_endpoint thr orig1 orig2 a b ha hb hside s t hc hi
  rcases hs with ⟨rfl, es⟩ | ⟨rfl, es⟩ <;> rcases ht with ⟨rfl, et⟩ | ⟨rfl, et⟩
  · exact h00 (by rw [← es, ← et]; exact hpt)
  · exact h01 (by rw [← es, ← et]; exact hpt)
  · exact h10 (by rw [← es, ← et]; exact hpt)
  · exact h11 (by rw [← es, ← et]; exact hpt)

/-! ### one pair, one round -/

/-- the rows of a candidate of positive width of a curve without constant coordinate all vary -/
theorem cand_rows_vary (thr : ℕ) (orig : List (List K)) (c : Cand K) (h : CandInvW thr orig c)
    (hn : NoConstCoord thr orig) : ∀ row ∈ c.sub.nodes, RowVaries row := by
  intro row hrow
  exact rowVaries_of_coordVaries thr row (h.1.2.2 row hrow)
    (noConstCoord_inherit thr orig c h.1.1 (ne_of_lt h.2) hn row hrow)

/-- **one candidate pair** of `intersect_one_round` (library primitives, `vector_close` accepting equal vectors,
    original curves without constant coordinate): a pair decided by the exact box test (`ExactPair`) or handed to
    `tangent_bbox_intersection` (`TanPair`) never fails, only extends the accumulator, produces candidates satisfying
    the invariant, and every true intersection in its rectangle is in the rectangle of a produced pair or
    represented in the new accumulator -/
theorem intersectPair_cover (py : Bool) (C : PipelineConsts K) (G : GeoConsts K) (thr : ℕ)
    (orig1 orig2 : List (List K)) (hclose : ∀ u, (concretePrims py C).vectorClose u u = true)
    (hn1 : NoConstCoord thr orig1) (hn2 : NoConstCoord thr orig2) (pr : Cand K × Cand K) (acc : List (K × K))
    (hk : ExactPair (concretePrims py C) pr ∨ TanPair (concretePrims py C) pr)
    (hinv : CandInvW thr orig1 pr.1 ∧ CandInvW thr orig2 pr.2) :
    ∃ more acc', intersectPair (concretePrims py C) G orig1 orig2 pr.1 pr.2 acc = .ok (more, acc') ∧ acc <+: acc' ∧
      (∀ q ∈ more, CandInvW thr orig1 q.1 ∧ CandInvW thr orig2 q.2) ∧
      ∀ s t, TrueInt thr orig1 orig2 s t → Covers pr s t → (∃ q ∈ more, Covers q s t) ∨ Accum G acc' s t := by
  rcases hk with hk | hk
  · refine ⟨exactStep (concretePrims py C) G pr, acc, intersectPair_exact _ G orig1 orig2 pr acc hk,
      List.prefix_refl acc, ?_, ?_⟩
    · intro q hq
      unfold exactStep at hq
      split_ifs at hq with hd
      · cases hq
      · obtain ⟨h1, h2⟩ := (mem_subdividePairs _ G pr.1 pr.2 q).mp hq
        exact ⟨⟨C03.subdivision_faithful py C G thr orig1 pr.1 hinv.1.1 q.1 h1,
            subdivideCand_width _ G pr.1 hinv.1.2 q.1 h1⟩,
          ⟨C03.subdivision_faithful py C G thr orig2 pr.2 hinv.2.1 q.2 h2,
            subdivideCand_width _ G pr.2 hinv.2.2 q.2 h2⟩⟩
    · intro s t hi hcov
      left
      have hnd := C03.box_disjoint_sound py C thr orig1 orig2 pr.1 pr.2 hinv.1.1 hinv.2.1 s t hcov hi
      obtain ⟨q, hq, hqc⟩ := C03.subdivision_covers (concretePrims py C) G pr.1 pr.2 s t hcov
      refine ⟨q, ?_, hqc⟩
      unfold exactStep
      rw [if_neg hnd]
      exact hq
  · refine ⟨[], tangentBbox (concretePrims py C) G pr.1.sub pr.2.sub acc,
      intersectPair_tangent _ G orig1 orig2 pr acc hk, tangentBbox_prefix _ G _ _ acc,
      (by intro q hq; cases hq), ?_⟩
    intro s t hi hcov
    right
    have hside : TangentSide pr.1.sub.nodes pr.2.sub.nodes := by
      cases hk with
      | curves c1 c2 ht =>
        exact tangentSide_of_tangent py C _ _ hinv.1.1.2 hinv.2.1.2 (cand_rows_vary thr orig1 _ hinv.1 hn1)
          (cand_rows_vary thr orig2 _ hinv.2 hn2) ht
    exact tangentBbox_covers_core _ G thr orig1 orig2 pr.1 pr.2 acc hclose hinv.1.1 hinv.2.1 hside s t hi hcov

/-- the fold of `intersect_one_round` over such pairs, from any state -/
theorem foldl_roundStep_cover (py : Bool) (C : PipelineConsts K) (G : GeoConsts K) (thr : ℕ)
    (orig1 orig2 : List (List K)) (hclose : ∀ u, (concretePrims py C).vectorClose u u = true)
    (hn1 : NoConstCoord thr orig1) (hn2 : NoConstCoord thr orig2) :
    ∀ (cands next : List (Cand K × Cand K)) (acc : List (K × K)),
      (∀ pr ∈ cands, ExactPair (concretePrims py C) pr ∨ TanPair (concretePrims py C) pr) →
      (∀ pr ∈ cands, CandInvW thr orig1 pr.1 ∧ CandInvW thr orig2 pr.2) →
      ∃ more acc', cands.foldl (roundStep (concretePrims py C) G orig1 orig2) (.ok (next, acc)) = .ok (next ++ more, acc') ∧
        acc <+: acc' ∧ (∀ q ∈ more, CandInvW thr orig1 q.1 ∧ CandInvW thr orig2 q.2) ∧
        ∀ s t, TrueInt thr orig1 orig2 s t → (∃ pr ∈ cands, Covers pr s t) →
          (∃ q ∈ more, Covers q s t) ∨ Accum G acc' s t := by
  intro cands
  induction cands with
  | nil =>
    intro next acc _ _
    refine ⟨[], acc, by simp, List.prefix_refl acc, (by intro q hq; cases hq), ?_⟩
    rintro s t _ ⟨pr, hpr, _⟩
    cases hpr
  | cons pr rest ih =>
    intro next acc hk hinv
    obtain ⟨m1, a1, e1, p1, i1, c1⟩ := intersectPair_cover py C G thr orig1 orig2 hclose hn1 hn2 pr acc
      (hk pr List.mem_cons_self) (hinv pr List.mem_cons_self)
    obtain ⟨m2, a2, e2, p2, i2, c2⟩ := ih (next ++ m1) a1 (fun q hq => hk q (List.mem_cons_of_mem _ hq))
      (fun q hq => hinv q (List.mem_cons_of_mem _ hq))
    have hstep : roundStep (concretePrims py C) G orig1 orig2 (.ok (next, acc)) pr = .ok (next ++ m1, a1) := by
      simp only [roundStep]
      rw [e1]
    refine ⟨m1 ++ m2, a2, ?_, p1.trans p2, ?_, ?_⟩
    · rw [List.foldl_cons, hstep, e2, List.append_assoc]
    · intro q hq
      rcases List.mem_append.mp hq with h | h
      · exact i1 q h
      · exact i2 q h
    · rintro s t hi ⟨q, hq, hcov⟩
      rcases List.mem_cons.mp hq with rfl | hq'
      · rcases c1 s t hi hcov with ⟨r, hr, hrc⟩ | hacc
        · exact Or.inl ⟨r, List.mem_append_left _ hr, hrc⟩
        · exact Or.inr (accum_mono G p2 s t hacc)
      · rcases c2 s t hi ⟨q, hq', hcov⟩ with ⟨r, hr, hrc⟩ | hacc
        · exact Or.inl ⟨r, List.mem_append_right _ hr, hrc⟩
        · exact Or.inr hacc

end BezierVerif.Cover
