import BezierVerif.Lemmas.Bridge
import BezierVerif.Lemmas.VS
import BezierVerif.Lemmas.Elevate
import BezierVerif.Lemmas.Subdivide
import Mathlib.RingTheory.Polynomial.Bernstein
import Mathlib.Tactic.Ring
import Mathlib.Tactic.Linarith

/-!
# Lemmas/Deriv — the curve as a Mathlib polynomial; hodograph / concavity are its derivatives

`curvePoly row` is the polynomial map of one coordinate row of a Bézier curve, written in the
Bernstein basis.  The library's hodograph (`(N-1) ·` evaluation of the forward differences) is
`Polynomial.derivative` of it, the concavity vector is the second derivative.
-/

set_option linter.unusedSectionVars false

namespace BezierVerif.Deriv

open Polynomial Finset Model BezierVerif

variable {K : Type} [Field K]

/-! ## sequence level (re-homed from `seeds/Hodograph_is_polynomial_derivative.lean`) -/

/-- Bernstein form as a polynomial in `X` -/
noncomputable def bernPoly (n : ℕ) (v : ℕ → K) : K[X] :=
  ∑ j ∈ range (n+1), C (v j) * bernsteinPolynomial K n j

theorem eval_bernPoly (n : ℕ) (v : ℕ → K) (s : K) : (bernPoly n v).eval s = bern n (1-s) s v := by
  unfold bernPoly bern
  rw [eval_finsetSum]
  apply Finset.sum_congr rfl
  intro j _
  simp [bernsteinPolynomial]
  ring

/-- d/dX of the degree-(n+1) curve = (n+1) · curve of degree n on the forward differences -/
theorem derivative_bernPoly (n : ℕ) (v : ℕ → K) :
    derivative (bernPoly (n+1) v) = ((n+1 : ℕ) : K[X]) * bernPoly n (fun j => v (j+1) - v j) := by
  unfold bernPoly
  rw [derivative_sum]
  rw [Finset.sum_range_succ' _ (n+1)]
  simp only [derivative_mul, derivative_C, zero_mul, zero_add,
    bernsteinPolynomial.derivative_succ, bernsteinPolynomial.derivative_zero, Nat.add_sub_cancel]
  rw [Finset.mul_sum]
  have hz : bernsteinPolynomial K n (n+1) = 0 := bernsteinPolynomial.eq_zero_of_lt K (by omega)
  have L : ∑ j ∈ range (n+1), C (v (j+1)) * (((n+1 : ℕ) : K[X]) * (bernsteinPolynomial K n j - bernsteinPolynomial K n (j+1)))
      = ((n+1 : ℕ) : K[X]) * (∑ j ∈ range (n+1), C (v (j+1)) * bernsteinPolynomial K n j)
        - ((n+1 : ℕ) : K[X]) * (∑ j ∈ range (n+1), C (v (j+1)) * bernsteinPolynomial K n (j+1)) := by
    rw [Finset.mul_sum, Finset.mul_sum, ← Finset.sum_sub_distrib]
    apply Finset.sum_congr rfl; intro j _; ring
  have Sft : ∑ j ∈ range (n+1), C (v (j+1)) * bernsteinPolynomial K n (j+1)
      = (∑ j ∈ range (n+1), C (v j) * bernsteinPolynomial K n j) - C (v 0) * bernsteinPolynomial K n 0 := by
    have := Finset.sum_range_succ' (fun j => C (v j) * bernsteinPolynomial K n j) (n+1)
    rw [Finset.sum_range_succ (fun j => C (v j) * bernsteinPolynomial K n j) (n+1), hz, mul_zero, add_zero] at this
    rw [this]; ring
  push_cast at L ⊢
  rw [L, Sft]
  have R : ∑ j ∈ range (n+1), ((n:K[X]) + 1) * (C (v (j+1) - v j) * bernsteinPolynomial K n j)
      = ((n:K[X]) + 1) * (∑ j ∈ range (n+1), C (v (j+1)) * bernsteinPolynomial K n j)
        - ((n:K[X]) + 1) * (∑ j ∈ range (n+1), C (v j) * bernsteinPolynomial K n j) := by
    rw [Finset.mul_sum, Finset.mul_sum, ← Finset.sum_sub_distrib]
    apply Finset.sum_congr rfl; intro j _; rw [C_sub]; ring
  rw [R]; ring

theorem derivative_bernPoly_zero (v : ℕ → K) : derivative (bernPoly 0 v) = 0 := by
  simp [bernPoly, bernsteinPolynomial]

/-- `bernPoly n` only reads the indices `0..n` -/
theorem bernPoly_congr (n : ℕ) (u w : ℕ → K) (h : ∀ j ≤ n, u j = w j) :
    bernPoly n u = bernPoly n w := by
  unfold bernPoly
  apply Finset.sum_congr rfl
  intro j hj
  rw [h j (by have := mem_range.mp hj; omega)]

/-! ## list level -/

/-- the polynomial map of one coordinate row:
    `Σ_{j ≤ n} C(n,j) • (1 - X)^(n-j) X^j v_j`, `n = row.length - 1` -/
noncomputable def curvePoly (row : List K) : K[X] :=
  ∑ j ∈ range (row.length - 1 + 1),
    ((row.length - 1).choose j) • ((1 - X)^(row.length - 1 - j) * X^j * C (seq row j))

theorem curvePoly_eq_bernPoly (row : List K) : curvePoly row = bernPoly (row.length - 1) (seq row) := by
  unfold curvePoly bernPoly
  apply Finset.sum_congr rfl
  intro j _
  simp only [bernsteinPolynomial, nsmul_eq_mul]
  ring

/-- evaluating the polynomial gives the Bernstein sum at weights `(1 - s, s)` -/
theorem eval_curvePoly (row : List K) (s : K) :
    (curvePoly row).eval s = bern (row.length - 1) (1 - s) s (seq row) := by
  rw [curvePoly_eq_bernPoly, eval_bernPoly]

theorem diffs_length : ∀ l : List K, (diffs l).length = l.length - 1
  | [] => rfl
  | [_] => rfl
  | x :: y :: rest => by
    simp only [diffs, List.length_cons]
    rw [diffs_length (y :: rest)]; simp

theorem seq_diffs : ∀ (l : List K) (j : ℕ), j + 1 < l.length →
    seq (diffs l) j = seq l (j+1) - seq l j
  | [], j, h => by simp at h
  | [_], j, h => by simp at h
  | x :: y :: rest, 0, _ => by simp [diffs, seq]
  | x :: y :: rest, j+1, h => by
    have ih := seq_diffs (y :: rest) j (by simpa using h)
    simp only [diffs, seq, List.getD_cons_succ] at ih ⊢
    exact ih

/-- **derivative as a polynomial identity**: `d/dX curvePoly row = n • curvePoly (diffs row)`,
    `n = row.length - 1` (every row, also the degenerate lengths 0 and 1 where both sides are 0) -/
theorem derivative_curvePoly (row : List K) :
    derivative (curvePoly row) = C (((row.length - 1 : ℕ)) : K) * curvePoly (diffs row) := by
  rw [curvePoly_eq_bernPoly, curvePoly_eq_bernPoly, diffs_length]
  rcases Nat.lt_or_ge row.length 2 with h | h
  · have h0 : row.length - 1 = 0 := by omega
    rw [h0, derivative_bernPoly_zero]; simp
  · obtain ⟨m, hm⟩ : ∃ m, row.length - 1 = m + 1 := ⟨row.length - 2, by omega⟩
    rw [hm, derivative_bernPoly, Nat.add_sub_cancel, map_natCast]
    congr 1
    apply bernPoly_congr
    intro j hj
    rw [seq_diffs row j (by omega)]

/-- second derivative as a polynomial identity -/
theorem derivative2_curvePoly (row : List K) :
    derivative (derivative (curvePoly row))
      = C ((((row.length - 1 : ℕ)) : K) * (((row.length - 2 : ℕ)) : K)) * curvePoly (diffs (diffs row)) := by
  rw [derivative_curvePoly, derivative_C_mul, derivative_curvePoly, diffs_length, C_mul, mul_assoc]
  rfl

/-! ## the model's evaluation at weights `(1 - s, s)`, every non-empty row -/

/-- for weights summing to one the dispatcher is the Bernstein sum also on a one-node row
    (where the VS branch computes `(1-s) * v₀ + s * 1 * v₀`) -/
theorem evalBary_one_sub [CharZero K] (thr : ℕ) (row : List K) (h : 1 ≤ row.length) (s : K) :
    evalBary thr row (1 - s) s = bern (row.length - 1) (1 - s) s (seq row) := by
  by_cases h2 : 2 ≤ row.length
  · exact evalBary_eq_bern thr row h2 _ _
  · have h1 : row.length = 1 := by omega
    match row, h1 with
    | [x], _ =>
      unfold evalBary
      split
      · simp [evalDC, bern, seq]
      · simp [evalVS, vsLoop, bern, seq]; ring

theorem evalBary_eq_eval_curvePoly [CharZero K] (thr : ℕ) (row : List K) (h : 1 ≤ row.length) (s : K) :
    evalBary thr row (1 - s) s = (curvePoly row).eval s := by
  rw [eval_curvePoly, evalBary_one_sub thr row h]

/-- `hodographRow` is the derivative (needs two nodes: the difference row must be non-empty) -/
theorem hodographRow_eq [CharZero K] (thr : ℕ) (row : List K) (h : 2 ≤ row.length) (s : K) :
    hodographRow thr row s = (derivative (curvePoly row)).eval s := by
  unfold hodographRow
  rw [derivative_curvePoly, eval_mul, eval_C,
    evalBary_eq_eval_curvePoly thr (diffs row) (by rw [diffs_length]; omega)]

/-- `concavityRow` is the second derivative (needs three nodes) -/
theorem concavityRow_eq [CharZero K] (thr : ℕ) (row : List K) (h : 3 ≤ row.length) (s : K) :
    concavityRow thr row s = (derivative (derivative (curvePoly row))).eval s := by
  unfold concavityRow
  rw [derivative2_curvePoly, eval_mul, eval_C,
    evalBary_eq_eval_curvePoly thr (diffs (diffs row)) (by rw [diffs_length, diffs_length]; omega)]

/-! ## list helpers for `dot`, `subRow`, `map` -/

theorem seq_map {α : Type} (l : List α) (f : α → K) (d : α) (i : ℕ) (hi : i < l.length) :
    seq (l.map f) i = f (l.getD i d) := by
  simp [seq, List.getD_eq_getElem?_getD, hi]

theorem seq_subRow (x y : List K) (i : ℕ) (hx : i < x.length) (hy : i < y.length) :
    seq (subRow x y) i = seq x i - seq y i := by
  simp [subRow, seq, List.getD_eq_getElem?_getD, hx, hy]

theorem subRow_length (x y : List K) : (subRow x y).length = min x.length y.length := by
  simp [subRow]

theorem dot_pair (a b c d : K) : dot [a, b] [c, d] = a * c + b * d := by
  simp [dot]

end BezierVerif.Deriv
