import BezierVerif.Model.Curve
import BezierVerif.Lemmas.Shift
import BezierVerif.Lemmas.Bridge
import BezierVerif.Lemmas.VS
import Mathlib.Tactic.NormNum
import Mathlib.Algebra.BigOperators.Intervals
import Mathlib.Tactic.FieldSimp
import Mathlib.Tactic.LinearCombination
import Mathlib.Algebra.CharZero.Defs
import Mathlib.Data.Nat.Cast.Field

/-!
# Lemmas/Elevate — degree elevation on the list model

* entries of `Model.elevateRow` as a sequence (`seq_elevateRow`);
* the sequence-level elevation `elevSeq` and the coefficient identity
  `C(n+1,j) w_j = C(n,j-1) v_{j-1} + C(n,j) v_j`, hence `bern (n+1) a b w = (a+b) · bern n a b v`;
* the two implementations' formulas agree over a field;
* what is needed for reduction: `reductionMat` is `none` outside `{2,3,4,5}`; reduction undoes
  elevation and the projection fixes an elevated row, on explicit nets of 1–4 nodes;
* a row fixed by the projection has projection error exactly `0` (`canReduce_of_fixed`).
-/

set_option linter.unusedSectionVars false

namespace BezierVerif

open Finset Model

/-! ### no arithmetic laws: list facts only -/
section Raw
variable {K : Type} [Add K] [Sub K] [Mul K] [Div K] [Neg K] [OfNat K 0] [OfNat K 1] [NatCast K]

theorem getD_map_range (n : ℕ) (f : ℕ → K) (d : K) (j : ℕ) (hj : j < n) :
    ((List.range n).map f).getD j d = f j := by
  simp [List.getD_eq_getElem?_getD, hj]

theorem seq_map_range (n : ℕ) (f : ℕ → K) (j : ℕ) (hj : j < n) :
    seq ((List.range n).map f) j = f j := getD_map_range n f 0 j hj

theorem elevateRow_length (row : List K) : (elevateRow row).length = row.length + 1 := by
  simp [elevateRow]

theorem F90.elevateRow_length (row : List K) : (F90.elevateRow row).length = row.length + 1 := by
  simp [F90.elevateRow]

theorem headD_eq_getD_zero (l : List K) (d : K) : l.headD d = l.getD 0 d := by
  cases l <;> rfl

theorem elevateRow_headD (row : List K) : (elevateRow row).headD 0 = row.headD 0 := by
  rw [headD_eq_getD_zero, headD_eq_getD_zero, elevateRow, getD_map_range _ _ _ _ (by omega)]
  simp [seq]

theorem elevateRow_getD_last (row : List K) :
    (elevateRow row).getD row.length 0 = row.getD (row.length - 1) 0 := by
  rw [elevateRow, getD_map_range _ _ _ _ (by omega)]
  by_cases h : row.length = 0
  · simp [h, seq]
  · simp [h, seq]

theorem F90.elevateRow_headD (row : List K) : (F90.elevateRow row).headD 0 = row.headD 0 := by
  rw [headD_eq_getD_zero, headD_eq_getD_zero, F90.elevateRow, getD_map_range _ _ _ _ (by omega)]
  simp [seq]

theorem F90.elevateRow_getD_last (row : List K) :
    (F90.elevateRow row).getD row.length 0 = row.getD (row.length - 1) 0 := by
  rw [F90.elevateRow, getD_map_range _ _ _ _ (by omega)]
  by_cases h : row.length = 0
  · simp [h, seq]
  · simp [h, seq]

/-- outside the four supported sizes there is no reduction matrix -/
theorem reductionMat_none (n : ℕ) (h2 : n ≠ 2) (h3 : n ≠ 3) (h4 : n ≠ 4) (h5 : n ≠ 5) :
    reductionMat (K := K) n = none := by
  match n, h2, h3, h4, h5 with
  | 0, _, _, _, _ => rfl
  | 1, _, _, _, _ => rfl
  | n+6, _, _, _, _ => rfl

theorem projectionMat_none (n : ℕ) (h2 : n ≠ 2) (h3 : n ≠ 3) (h4 : n ≠ 4) (h5 : n ≠ 5) :
    projectionMat (K := K) n = none := by
  unfold projectionMat
  rw [reductionMat_none n h2 h3 h4 h5]

end Raw

/-! ### field facts -/
section Field
variable {K : Type} [Field K] [CharZero K]

/-- entries of the elevated row, all indices `≤ N` at once -/
theorem seq_elevateRow (row : List K) (j : ℕ) (hj : j ≤ row.length) :
    seq (elevateRow row) j =
      if j = 0 then seq row 0 else if j = row.length then seq row (row.length - 1)
      else ((j : K) * seq row (j - 1) + ((row.length : K) - j) * seq row j) / row.length := by
  rw [elevateRow, seq_map_range _ _ _ (by omega)]

/-- the two implementations compute the same weights (`N - j` as an integer or as a real) -/
theorem F90_elevateRow_eq (row : List K) : F90.elevateRow row = elevateRow row := by
  unfold F90.elevateRow elevateRow
  apply List.map_congr_left
  intro j hj
  have hj' : j ≤ row.length := by have := List.mem_range.mp hj; omega
  rw [Nat.cast_sub hj']

/-- the library's elevation formula on sequences, degree `n → n+1`:
    `w_j = (j v_{j-1} + (n+1-j) v_j)/(n+1)` (with `w_0 = v_0`, `w_{n+1} = v_n`) -/
def elevSeq (n : ℕ) (v : ℕ → K) : ℕ → K := fun j =>
  ((j : K) * v (j-1) + ((n+1-j : ℕ) : K) * v j) / ((n+1 : ℕ) : K)

/-- key coefficient identity: `C(n+1,j) w_j = C(n,j-1) v_{j-1} + C(n,j) v_j` -/
theorem choose_elevate (n j : ℕ) (hj : j ≤ n+1) (v : ℕ → K) :
    ((n+1).choose j : K) * elevSeq n v j
      = (if j = 0 then 0 else (n.choose (j-1) : K) * v (j-1)) + (n.choose j : K) * v j := by
  unfold elevSeq
  have hn : ((n+1 : ℕ) : K) ≠ 0 := Nat.cast_ne_zero.mpr (Nat.succ_ne_zero n)
  rcases Nat.eq_zero_or_pos j with rfl | hpos
  · simp; field_simp
  · obtain ⟨i, rfl⟩ : ∃ i, j = i + 1 := ⟨j - 1, by omega⟩
    simp only [Nat.add_sub_cancel, Nat.succ_ne_zero, if_false]
    have h1 : ((n+1).choose (i+1) : K) * ((i+1 : ℕ) : K) = ((n+1 : ℕ) : K) * (n.choose i : K) := by
      exact_mod_cast (Nat.add_one_mul_choose_eq n i).symm
    have h2 : ((n+1).choose (i+1) : K) * ((n + 1 - (i+1) : ℕ) : K)
        = ((n+1 : ℕ) : K) * (n.choose (i+1) : K) := by
      have e : n + 1 - (i+1) = n - i := by omega
      rw [e]
      have := Nat.choose_succ_right_eq n i
      have h3 : (n+1).choose (i+1) = n.choose i + n.choose (i+1) := Nat.choose_succ_succ' n i
      have key : (n+1).choose (i+1) * (n - i) = (n+1) * n.choose (i+1) := by
        rw [h3, add_mul, ← this]
        have hi : i ≤ n := by omega
        have : n.choose (i+1) * (i+1) + n.choose (i+1) * (n-i) = n.choose (i+1) * (n+1) := by
          rw [← mul_add]; congr 1; omega
        linarith [this, Nat.mul_comm (n+1) (n.choose (i+1))]
      exact_mod_cast key
    field_simp
    linear_combination (v i) * h1 + (v (i+1)) * h2

/-- the elevated control sequence defines `(a+b) ·` (the same map); with `a+b=1` the same map -/
theorem elevSeq_same_map (n : ℕ) (a b : K) (v : ℕ → K) :
    bern (n+1) a b (elevSeq n v) = (a + b) * bern n a b v := by
  unfold bern
  have step : ∀ j ∈ range (n+1+1),
      ((n+1).choose j : K) * a^(n+1-j) * b^j * elevSeq n v j
        = a^(n+1-j) * b^j * ((if j = 0 then 0 else (n.choose (j-1) : K) * v (j-1))
            + (n.choose j : K) * v j) := by
    intro j hj
    have hj' : j ≤ n+1 := by have := mem_range.mp hj; omega
    rw [← choose_elevate n j hj' v]; ring
  rw [Finset.sum_congr rfl step]
  simp only [mul_add, Finset.sum_add_distrib]
  rw [Finset.sum_range_succ' (fun j => a^(n+1-j) * b^j *
    (if j = 0 then 0 else (n.choose (j-1) : K) * v (j-1))) (n+1)]
  rw [Finset.sum_range_succ (fun j => a^(n+1-j) * b^j * ((n.choose j : K) * v j)) (n+1)]
  simp only [Nat.choose_succ_self, Nat.cast_zero, zero_mul, mul_zero, add_zero, if_true,
    Nat.succ_ne_zero, if_false, Nat.add_sub_cancel, Nat.add_sub_add_right]
  rw [add_mul, Finset.mul_sum, Finset.mul_sum, add_comm]
  congr 1
  · apply Finset.sum_congr rfl
    intro j hj
    have : n + 1 - j = (n - j) + 1 := by have := mem_range.mp hj; omega
    rw [this]; ring
  · apply Finset.sum_congr rfl
    intro j _
    ring

/-- `bern n` only reads the indices `0..n` -/
theorem bern_congr (n : ℕ) (a b : K) (u w : ℕ → K) (h : ∀ j ≤ n, u j = w j) :
    bern n a b u = bern n a b w := by
  unfold bern
  apply Finset.sum_congr rfl
  intro j hj
  rw [h j (by have := mem_range.mp hj; omega)]

/-- the list model's elevated row is the sequence-level elevation, on every index that exists -/
theorem seq_elevateRow_eq_elevSeq (row : List K) (n : ℕ) (hn : row.length = n + 1) (j : ℕ)
    (hj : j ≤ n + 1) : seq (elevateRow row) j = elevSeq n (seq row) j := by
  rw [seq_elevateRow row j (by omega), hn]
  unfold elevSeq
  have hN : ((n+1 : ℕ) : K) ≠ 0 := Nat.cast_ne_zero.mpr (Nat.succ_ne_zero n)
  by_cases h0 : j = 0
  · subst h0; simp; field_simp
  · by_cases h1 : j = n + 1
    · subst h1; simp; field_simp
    · simp only [h0, h1, if_false]
      rw [Nat.cast_sub hj]

/-- both evaluation algorithms are the Bernstein sum (restated from C01 for use here) -/
theorem evalBary_eq_bern (thr : ℕ) (row : List K) (h : 2 ≤ row.length) (a b : K) :
    evalBary thr row a b = bern (row.length - 1) a b (seq row) := by
  unfold evalBary
  split
  · exact evalDC_eq_bern a b _ row (by omega)
  · rw [evalVS_eq_bern (row.length - 1) (by omega)]; rfl

/-! ### reduction undoes elevation: explicit nets with 1, 2, 3, 4 nodes -/

theorem reducePinv_elevate1 (a : K) : reducePinv [elevateRow [a]] = .ok [[a]] := by
  simp [reducePinv, ncols, elevateRow, reductionMat, matMul, rowMul, dot, col, q, seq,
    List.range_succ]
  ring

theorem reducePinv_elevate2 (a b : K) : reducePinv [elevateRow [a, b]] = .ok [[a, b]] := by
  simp [reducePinv, ncols, elevateRow, reductionMat, matMul, rowMul, dot, col, q, seq,
    List.range_succ]
  constructor <;> ring

theorem reducePinv_elevate3 (a b c : K) :
    reducePinv [elevateRow [a, b, c]] = .ok [[a, b, c]] := by
  simp [reducePinv, ncols, elevateRow, reductionMat, matMul, rowMul, dot, col, q, seq,
    List.range_succ]
  refine ⟨?_, ?_, ?_⟩ <;> ring

theorem reducePinv_elevate4 (a b c d : K) :
    reducePinv [elevateRow [a, b, c, d]] = .ok [[a, b, c, d]] := by
  simp [reducePinv, ncols, elevateRow, reductionMat, matMul, rowMul, dot, col, q, seq,
    List.range_succ]
  refine ⟨?_, ?_, ?_, ?_⟩ <;> ring

/-! ### the projection `P = R · E` fixes every elevated row -/

theorem project_elevate1 (a : K) (p : List (List K)) (hp : projectionMat (K := K) 2 = some p) :
    rowMul (elevateRow [a]) p = elevateRow [a] := by
  simp [projectionMat, reductionMat] at hp
  subst hp
  simp [elevMat, unitVec, ncols, elevateRow, matMul, rowMul, dot, col, q, seq, List.range_succ]
  ring

theorem project_elevate2 (a b : K) (p : List (List K)) (hp : projectionMat (K := K) 3 = some p) :
    rowMul (elevateRow [a, b]) p = elevateRow [a, b] := by
  simp [projectionMat, reductionMat] at hp
  subst hp
  simp [elevMat, unitVec, ncols, elevateRow, matMul, rowMul, dot, col, q, seq, List.range_succ]
  refine ⟨?_, ?_, ?_⟩ <;> ring

theorem project_elevate3 (a b c : K) (p : List (List K))
    (hp : projectionMat (K := K) 4 = some p) :
    rowMul (elevateRow [a, b, c]) p = elevateRow [a, b, c] := by
  simp [projectionMat, reductionMat] at hp
  subst hp
  simp [elevMat, unitVec, ncols, elevateRow, matMul, rowMul, dot, col, q, seq, List.range_succ]
  refine ⟨?_, ?_, ?_, ?_⟩ <;> ring

theorem project_elevate4 (a b c d : K) (p : List (List K))
    (hp : projectionMat (K := K) 5 = some p) :
    rowMul (elevateRow [a, b, c, d]) p = elevateRow [a, b, c, d] := by
  simp [projectionMat, reductionMat] at hp
  subst hp
  simp [elevMat, unitVec, ncols, elevateRow, matMul, rowMul, dot, col, q, seq, List.range_succ]
  refine ⟨?_, ?_, ?_, ?_, ?_⟩ <;> ring

/-- all four sizes at once -/
theorem project_elevate (row : List K) (h1 : 1 ≤ row.length) (h4 : row.length ≤ 4)
    (p : List (List K)) (hp : projectionMat (K := K) (row.length + 1) = some p) :
    rowMul (elevateRow row) p = elevateRow row := by
  match row, h1, h4, hp with
  | [a], _, _, hp => exact project_elevate1 a p hp
  | [a, b], _, _, hp => exact project_elevate2 a b p hp
  | [a, b, c], _, _, hp => exact project_elevate3 a b c p hp
  | [a, b, c, d], _, _, hp => exact project_elevate4 a b c d p hp

end Field

/-! ### ordered field: a fixed row has projection error exactly zero -/
section Ordered
variable {K : Type} [Field K] [LinearOrder K] [IsStrictOrderedRing K]

theorem foldl_sq_sub_self (l : List K) (acc : K) :
    (List.zipWith (· - ·) l l).foldl (fun a x => a + x * x) acc = acc := by
  induction l generalizing acc with
  | nil => rfl
  | cons x rest ih =>
    simp only [List.zipWith_cons_cons, List.foldl_cons, sub_self, mul_zero, add_zero]
    exact ih acc

/-- if the projection returns the row itself the error is `0`, so `can_reduce` says yes whatever
    the threshold is -/
theorem canReduce_of_fixed (thrSq : K) (e : List K) (p : List (List K)) (hn : 2 ≤ e.length)
    (hp : projectionMat (K := K) e.length = some p) (hfix : rowMul e p = e) :
    canReduce thrSq [e] = .ok true := by
  have hnc : ncols [e] = e.length := rfl
  unfold canReduce
  simp only [hnc, hp]
  rw [if_neg (by omega)]
  have herr : frobSq (List.zipWith subRow [e] (matMul [e] p)) = 0 := by
    simp only [matMul, List.map_cons, List.map_nil, hfix, List.zipWith_cons_cons,
      List.zipWith_nil_right, frobSq, List.foldl_cons, List.foldl_nil, subRow]
    exact foldl_sq_sub_self e 0
  rw [herr]
  simp

/-- the squared Frobenius norm of `m - m` is the accumulator it started from -/
theorem frob_fold_sub_self (m : List (List K)) (acc : K) :
    (List.zipWith subRow m m).foldl (fun acc r => r.foldl (fun a x => a + x * x) acc) acc = acc := by
  induction m generalizing acc with
  | nil => rfl
  | cons r rest ih =>
    simp only [List.zipWith_cons_cons, List.foldl_cons, subRow]
    rw [foldl_sq_sub_self r acc]
    exact ih acc

/-- a net every row of which is fixed by the projection is accepted for reduction -/
theorem canReduce_of_fixed_nodes (thrSq : K) (nodes : List (List K)) (p : List (List K))
    (hn : 2 ≤ ncols nodes) (hp : projectionMat (K := K) (ncols nodes) = some p)
    (hfix : ∀ row ∈ nodes, rowMul row p = row) :
    canReduce thrSq nodes = .ok true := by
  unfold canReduce
  simp only [hp]
  rw [if_neg (by omega)]
  have hm : matMul nodes p = nodes := by
    unfold matMul
    conv_rhs => rw [← List.map_id nodes]
    exact List.map_congr_left (fun row hrow => hfix row hrow)
  have herr : frobSq (List.zipWith subRow nodes (matMul nodes p)) = 0 := by
    rw [hm]; unfold frobSq; exact frob_fold_sub_self nodes 0
  rw [herr]
  simp

theorem canReduce_unsupported (thrSq : K) (nodes : List (List K)) (h : 5 < ncols nodes) :
    canReduce thrSq nodes = .error .unsupportedDegree := by
  unfold canReduce
  simp only
  rw [if_neg (by omega),
    projectionMat_none _ (by omega) (by omega) (by omega) (by omega)]

end Ordered

end BezierVerif
