import BezierVerif.Model.Curve
import BezierVerif.Lemmas.Shift
import BezierVerif.Lemmas.Bridge
import BezierVerif.Lemmas.VS
import BezierVerif.Lemmas.Elevate
import BezierVerif.Lemmas.Subdivide
import Mathlib.Algebra.BigOperators.Intervals
import Mathlib.Algebra.Order.Field.Basic
import Mathlib.Order.Monotone.Basic
import Mathlib.Tactic.Ring
import Mathlib.Tactic.Linarith

/-!
# Lemmas/Equivariance — presenting the same geometry differently

Specification-level facts behind C17.  A *presentation* of a curve is another control net (or
another parameter convention) for the same point set:

* reversal of the node order            — `B_rev(s) = B(1 - s)`            (`bern_reflect`)
* translation / scaling / mirror        — evaluation is affine-equivariant, coordinate by
                                           coordinate (`bern_affine`, uses `Σ_j b_{j,n}(s) = 1`)
* axis swap                             — a permutation of the rows        (`evalPoint_swapAxes`)

and the bounding-box decision of two nets (`bboxRel2`, the model of `bbox_intersect`) only sees
the order of the coordinates, hence is invariant under strictly monotone maps applied to both nets.

The definitions `reverseNodes`, `translate`, `scale`, `mirrorX`, `swapAxes` are the list-model
transcriptions of what `harness/props/c17.py` does to the arrays.
-/

set_option linter.unusedSectionVars false
set_option linter.unusedVariables false

namespace BezierVerif.Equivariance

open Finset Model BezierVerif

/-! ## the presentations, on the list model (no arithmetic laws needed to *define* them) -/
section Defs
variable {K : Type} [Add K] [Sub K] [Mul K] [Div K] [Neg K] [OfNat K 0] [OfNat K 1] [NatCast K]

/-- the same curve traversed backwards: every row in reverse order (`nodes[:, ::-1]`) -/
def reverseNodes (nodes : List (List K)) : List (List K) := nodes.map List.reverse

/-- translation by the vector `c` (one entry per coordinate) -/
def translate (c : List K) (nodes : List (List K)) : List (List K) :=
  List.zipWith (fun ci row => row.map (fun x => x + ci)) c nodes

/-- the same translation applied to a point -/
def translatePt (c : List K) (p : List K) : List K := List.zipWith (fun ci x => x + ci) c p

/-- scaling of every coordinate by `k` -/
def scale (k : K) (nodes : List (List K)) : List (List K) := nodes.map (fun row => row.map (fun x => k * x))

def scalePt (k : K) (p : List K) : List K := p.map (fun x => k * x)

/-- mirror `x ↦ -x` (first coordinate) -/
def mirrorX : List (List K) → List (List K)
  | [] => []
  | r :: rest => r.map (fun x => -x) :: rest

def mirrorXPt : List K → List K
  | [] => []
  | x :: rest => -x :: rest

/-- axis swap `(x, y) ↦ (y, x)`: the rows in the other order (a permutation of the rows) -/
def swapAxes {α : Type} (rows : List α) : List α := rows.reverse

end Defs

/-! ## Bernstein sums -/
section Field
variable {K : Type} [Field K]

/-- reflecting the control sequence exchanges the two weights -/
theorem bern_reflect (n : ℕ) (a b : K) (v : ℕ → K) :
    bern n a b (fun j => v (n - j)) = bern n b a v := by
  unfold bern
  rw [← Finset.sum_flip (fun j => (n.choose j : K) * b^(n-j) * a^j * v j)]
  apply Finset.sum_congr rfl
  intro j hj
  have hj' : j ≤ n := by have := mem_range.mp hj; omega
  rw [Nat.choose_symm hj', Nat.sub_sub_self hj']
  ring

/-- the Bernstein weights sum to `(a+b)^n` -/
theorem bern_const (n : ℕ) (a b c : K) : bern n a b (fun _ => c) = (a + b)^n * c := by
  unfold bern
  rw [add_comm a b, add_pow, Finset.sum_mul]
  apply Finset.sum_congr rfl
  intro j _
  ring

theorem bern_add (n : ℕ) (a b : K) (u w : ℕ → K) :
    bern n a b (fun j => u j + w j) = bern n a b u + bern n a b w := by
  unfold bern
  rw [← Finset.sum_add_distrib]
  apply Finset.sum_congr rfl
  intro j _
  ring

theorem bern_smul (n : ℕ) (a b k : K) (v : ℕ → K) :
    bern n a b (fun j => k * v j) = k * bern n a b v := by
  unfold bern
  rw [Finset.mul_sum]
  apply Finset.sum_congr rfl
  intro j _
  ring

/-- **affine equivariance** of the Bernstein form with weights `1-s`, `s` (which sum to one) -/
theorem bern_affine (n : ℕ) (s k c : K) (v : ℕ → K) :
    bern n (1 - s) s (fun j => k * v j + c) = k * bern n (1 - s) s v + c := by
  rw [bern_add n (1 - s) s (fun j => k * v j) (fun _ => c), bern_smul, bern_const, sub_add_cancel,
    one_pow, one_mul]

/-- translation -/
theorem bern_translate (n : ℕ) (s c : K) (v : ℕ → K) :
    bern n (1 - s) s (fun j => v j + c) = bern n (1 - s) s v + c := by
  have h := bern_affine n s 1 c v
  simpa using h

/-- negation (mirror) -/
theorem bern_neg (n : ℕ) (a b : K) (v : ℕ → K) :
    bern n a b (fun j => - v j) = - bern n a b v := by
  have h := bern_smul n a b (-1) v
  simpa using h

/-! ## list model: rows -/

/-- `bern n` only reads the indices `0..n` (no assumption on the characteristic) -/
theorem bern_congr' (n : ℕ) (a b : K) (u w : ℕ → K) (h : ∀ j, j ≤ n → u j = w j) :
    bern n a b u = bern n a b w := by
  unfold bern
  apply Finset.sum_congr rfl
  intro j hj
  rw [h j (by have := Finset.mem_range.mp hj; omega)]

theorem seq_reverse (l : List K) (j : ℕ) (hj : j < l.length) :
    seq l.reverse j = seq l (l.length - 1 - j) := by
  unfold seq
  rw [List.getD_eq_getElem?_getD, List.getD_eq_getElem?_getD, List.getElem?_reverse hj]

theorem seq_map (f : K → K) (l : List K) (j : ℕ) (hj : j < l.length) :
    seq (l.map f) j = f (seq l j) := by
  unfold seq
  rw [List.getD_eq_getElem?_getD, List.getD_eq_getElem?_getD, List.getElem?_map,
    List.getElem?_eq_getElem hj]
  rfl

/-- the reversed row is the reflected sequence: its Bernstein form has the weights exchanged -/
theorem bern_reverse_row (row : List K) (h : 1 ≤ row.length) (a b : K) :
    bern (row.length - 1) a b (seq row.reverse) = bern (row.length - 1) b a (seq row) := by
  rw [← bern_reflect (row.length - 1) a b (seq row)]
  apply bern_congr'
  intro j hj
  exact seq_reverse row j (by omega)

theorem bern_map_affine_row (row : List K) (h : 1 ≤ row.length) (s k c : K) :
    bern (row.length - 1) (1 - s) s (seq (row.map (fun x => k * x + c)))
      = k * bern (row.length - 1) (1 - s) s (seq row) + c := by
  rw [← bern_affine (row.length - 1) s k c (seq row)]
  apply bern_congr'
  intro j hj
  exact seq_map _ row j (by omega)

end Field

/-! ## list model: the evaluation routine and points -/
section CharZero
variable {K : Type} [Field K] [CharZero K]

/-- reversal on the evaluation routine (either side of the algorithm switch) -/
theorem evalBary_reverse (thr thr' : ℕ) (row : List K) (h : 2 ≤ row.length) (a b : K) :
    evalBary thr row.reverse a b = evalBary thr' row b a := by
  rw [evalBary_eq_bern thr _ (by rw [List.length_reverse]; exact h), evalBary_eq_bern thr' row h,
    List.length_reverse, bern_reverse_row row (by omega)]

theorem evalBary_map_affine (thr thr' : ℕ) (row : List K) (h : 2 ≤ row.length) (s k c : K) :
    evalBary thr (row.map (fun x => k * x + c)) (1 - s) s = k * evalBary thr' row (1 - s) s + c := by
  rw [evalBary_eq_bern thr _ (by rw [List.length_map]; exact h), evalBary_eq_bern thr' row h,
    List.length_map, bern_map_affine_row row (by omega)]

theorem evalBary_map_add (thr thr' : ℕ) (row : List K) (h : 2 ≤ row.length) (s c : K) :
    evalBary thr (row.map (fun x => x + c)) (1 - s) s = evalBary thr' row (1 - s) s + c := by
  have e : (fun x : K => x + c) = (fun x => 1 * x + c) := by funext x; ring
  rw [e, evalBary_map_affine thr thr' row h s 1 c, one_mul]

theorem evalBary_map_mul (thr thr' : ℕ) (row : List K) (h : 2 ≤ row.length) (s k : K) :
    evalBary thr (row.map (fun x => k * x)) (1 - s) s = k * evalBary thr' row (1 - s) s := by
  have e : (fun x : K => k * x) = (fun x => k * x + 0) := by funext x; ring
  rw [e, evalBary_map_affine thr thr' row h s k 0, add_zero]

theorem evalBary_map_neg (thr thr' : ℕ) (row : List K) (h : 2 ≤ row.length) (s : K) :
    evalBary thr (row.map (fun x => -x)) (1 - s) s = - evalBary thr' row (1 - s) s := by
  have e : (fun x : K => -x) = (fun x => (-1) * x + 0) := by funext x; ring
  rw [e, evalBary_map_affine thr thr' row h s (-1) 0]; ring

/-- **reversal**: `B_rev(s) = B(1 - s)` for the whole net -/
theorem evalPoint_reverseNodes (thr thr' : ℕ) (nodes : List (List K))
    (h : ∀ row ∈ nodes, 2 ≤ row.length) (s : K) :
    evalPoint thr (reverseNodes nodes) s = evalPoint thr' nodes (1 - s) := by
  unfold evalPoint reverseNodes
  rw [List.map_map]
  apply List.map_congr_left
  intro row hrow
  simp only [Function.comp]
  rw [evalBary_reverse thr thr' row (h row hrow), sub_sub_cancel]

/-- **translation** -/
theorem evalPoint_translate (thr thr' : ℕ) (s : K) : ∀ (c : List K) (nodes : List (List K)),
    (∀ row ∈ nodes, 2 ≤ row.length) →
    evalPoint thr (translate c nodes) s = translatePt c (evalPoint thr' nodes s)
  | [], _, _ => by simp [translate, translatePt, evalPoint]
  | _ :: _, [], _ => by simp [translate, translatePt, evalPoint]
  | ci :: c, row :: nodes, h => by
    have ih := evalPoint_translate thr thr' s c nodes (fun r hr => h r (List.mem_cons_of_mem _ hr))
    unfold evalPoint translate translatePt at ih ⊢
    simp only [List.zipWith_cons_cons, List.map_cons]
    rw [ih, evalBary_map_add thr thr' row (h row List.mem_cons_self)]

/-- **scaling** -/
theorem evalPoint_scale (thr thr' : ℕ) (k : K) (nodes : List (List K))
    (h : ∀ row ∈ nodes, 2 ≤ row.length) (s : K) :
    evalPoint thr (scale k nodes) s = scalePt k (evalPoint thr' nodes s) := by
  unfold evalPoint scale scalePt
  rw [List.map_map, List.map_map]
  apply List.map_congr_left
  intro row hrow
  simp only [Function.comp]
  exact evalBary_map_mul thr thr' row (h row hrow) s k

/-- **mirror** `x ↦ -x` -/
theorem evalPoint_mirrorX (thr : ℕ) (nodes : List (List K))
    (h : ∀ row ∈ nodes, 2 ≤ row.length) (s : K) :
    evalPoint thr (mirrorX nodes) s = mirrorXPt (evalPoint thr nodes s) := by
  cases nodes with
  | nil => rfl
  | cons r rest =>
    unfold evalPoint mirrorX mirrorXPt
    simp only [List.map_cons]
    rw [evalBary_map_neg thr thr r (h r List.mem_cons_self)]

end CharZero

/-- **axis swap**: evaluation acts row by row, so permuting rows permutes coordinates (no law of
    arithmetic is used) -/
theorem evalPoint_swapAxes {K : Type} [Add K] [Sub K] [Mul K] [Div K] [Neg K] [OfNat K 0]
    [OfNat K 1] [NatCast K] (thr : ℕ) (nodes : List (List K)) (s : K) :
    evalPoint thr (swapAxes nodes) s = swapAxes (evalPoint thr nodes s) := by
  unfold evalPoint swapAxes
  rw [List.map_reverse]

/-! ## the two halves of a subdivision have as many nodes as the curve (list facts only) -/
section Lengths
variable {K : Type} [Field K]

theorem subdivideRow_fst_length (row : List K) (h : 1 ≤ row.length) :
    (Py.subdivideRow row).1.length = row.length := by
  unfold Py.subdivideRow rowMul
  simp only [List.length_map, List.length_range]
  rw [Subdivide.ncols_leftMat]; omega

theorem subdivideRow_snd_length (row : List K) (h : 1 ≤ row.length) :
    (Py.subdivideRow row).2.length = row.length := by
  unfold Py.subdivideRow rowMul
  simp only [List.length_map, List.length_range]
  rw [Subdivide.ncols_rightMat]; omega

end Lengths

/-! ## the point maps are injective (so equations between points are preserved both ways) -/
section Inj
variable {K : Type} [Field K]

theorem translatePt_inj : ∀ (c p q : List K), p.length = c.length → q.length = c.length →
    (translatePt c p = translatePt c q ↔ p = q)
  | [], p, q, hp, hq => by
    have h1 : p = [] := List.length_eq_zero_iff.mp hp
    have h2 : q = [] := List.length_eq_zero_iff.mp hq
    subst h1 h2; simp
  | ci :: c, [], q, hp, _ => by simp at hp
  | ci :: c, _ :: _, [], _, hq => by simp at hq
  | ci :: c, x :: p, y :: q, hp, hq => by
    have ih := translatePt_inj c p q (by simpa using hp) (by simpa using hq)
    unfold translatePt at ih ⊢
    simp only [List.zipWith_cons_cons, List.cons.injEq, add_left_inj]
    rw [ih]

theorem scalePt_inj (k : K) (hk : k ≠ 0) (p q : List K) : scalePt k p = scalePt k q ↔ p = q := by
  unfold scalePt
  constructor
  · intro h
    exact List.map_injective_iff.mpr (mul_right_injective₀ hk) h
  · intro h; rw [h]

theorem mirrorXPt_inj : ∀ (p q : List K), mirrorXPt p = mirrorXPt q ↔ p = q
  | [], [] => by simp
  | [], _ :: _ => by simp [mirrorXPt]
  | _ :: _, [] => by simp [mirrorXPt]
  | x :: p, y :: q => by simp [mirrorXPt]

theorem swapAxes_inj {α : Type} (p q : List α) : swapAxes p = swapAxes q ↔ p = q := by
  unfold swapAxes; exact List.reverse_inj

theorem evalPoint_length {K : Type} [Add K] [Sub K] [Mul K] [Div K] [Neg K] [OfNat K 0]
    [OfNat K 1] [NatCast K] (thr : ℕ) (nodes : List (List K)) (s : K) :
    (evalPoint thr nodes s).length = nodes.length := by
  unfold evalPoint; rw [List.length_map]

end Inj

/-! ## bounding boxes: the decision of `bbox_intersect` only sees the order -/
section Ordered
variable {K : Type} [Field K] [LinearOrder K] [IsStrictOrderedRing K]

/-- `min` of a row (`np.min` / `minval`), `0` for the empty row -/
def rowMin : List K → K
  | [] => 0
  | x :: xs => xs.foldl min x

/-- `max` of a row -/
def rowMax : List K → K
  | [] => 0
  | x :: xs => xs.foldl max x

/-- `BoxIntersectionType` -/
inductive BoxRel where
  | intersection | tangent | disjoint
  deriving DecidableEq, Repr

/-- `bbox_intersect` for planar nets `[x1, y1]`, `[x2, y2]`
    (`left = min x`, `right = max x`, `bottom = min y`, `top = max y`) -/
def bboxRel2 (x1 y1 x2 y2 : List K) : BoxRel :=
  if rowMax x2 < rowMin x1 ∨ rowMax x1 < rowMin x2 ∨ rowMax y2 < rowMin y1 ∨ rowMax y1 < rowMin y2 then
    .disjoint
  else if rowMax x2 = rowMin x1 ∨ rowMax x1 = rowMin x2 ∨ rowMax y2 = rowMin y1 ∨ rowMax y1 = rowMin y2 then
    .tangent
  else .intersection

theorem foldl_min_map (f : K → K) (hf : Monotone f) : ∀ (l : List K) (a : K),
    (l.map f).foldl min (f a) = f (l.foldl min a)
  | [], a => rfl
  | x :: xs, a => by
    simp only [List.map_cons, List.foldl_cons]
    rw [← hf.map_min, foldl_min_map f hf xs]

theorem foldl_max_map (f : K → K) (hf : Monotone f) : ∀ (l : List K) (a : K),
    (l.map f).foldl max (f a) = f (l.foldl max a)
  | [], a => rfl
  | x :: xs, a => by
    simp only [List.map_cons, List.foldl_cons]
    rw [← hf.map_max, foldl_max_map f hf xs]

theorem foldl_min_map_anti (f : K → K) (hf : Antitone f) : ∀ (l : List K) (a : K),
    (l.map f).foldl min (f a) = f (l.foldl max a)
  | [], a => rfl
  | x :: xs, a => by
    simp only [List.map_cons, List.foldl_cons]
    rw [← hf.map_max, foldl_min_map_anti f hf xs]

theorem foldl_max_map_anti (f : K → K) (hf : Antitone f) : ∀ (l : List K) (a : K),
    (l.map f).foldl max (f a) = f (l.foldl min a)
  | [], a => rfl
  | x :: xs, a => by
    simp only [List.map_cons, List.foldl_cons]
    rw [← hf.map_min, foldl_max_map_anti f hf xs]

theorem rowMin_map (f : K → K) (hf : Monotone f) (l : List K) (h : l ≠ []) :
    rowMin (l.map f) = f (rowMin l) := by
  cases l with
  | nil => exact absurd rfl h
  | cons x xs => exact foldl_min_map f hf xs x

theorem rowMax_map (f : K → K) (hf : Monotone f) (l : List K) (h : l ≠ []) :
    rowMax (l.map f) = f (rowMax l) := by
  cases l with
  | nil => exact absurd rfl h
  | cons x xs => exact foldl_max_map f hf xs x

theorem rowMin_map_anti (f : K → K) (hf : Antitone f) (l : List K) (h : l ≠ []) :
    rowMin (l.map f) = f (rowMax l) := by
  cases l with
  | nil => exact absurd rfl h
  | cons x xs => exact foldl_min_map_anti f hf xs x

theorem rowMax_map_anti (f : K → K) (hf : Antitone f) (l : List K) (h : l ≠ []) :
    rowMax (l.map f) = f (rowMin l) := by
  cases l with
  | nil => exact absurd rfl h
  | cons x xs => exact foldl_max_map_anti f hf xs x

/-- the bounding-box decision is invariant under a strictly increasing map of the abscissae and
    another one of the ordinates, applied to both nets -/
theorem bboxRel2_map_strictMono (f g : K → K) (hf : StrictMono f) (hg : StrictMono g)
    (x1 y1 x2 y2 : List K) (hx1 : x1 ≠ []) (hy1 : y1 ≠ []) (hx2 : x2 ≠ []) (hy2 : y2 ≠ []) :
    bboxRel2 (x1.map f) (y1.map g) (x2.map f) (y2.map g) = bboxRel2 x1 y1 x2 y2 := by
  unfold bboxRel2
  rw [rowMin_map f hf.monotone x1 hx1, rowMin_map f hf.monotone x2 hx2,
    rowMax_map f hf.monotone x1 hx1, rowMax_map f hf.monotone x2 hx2,
    rowMin_map g hg.monotone y1 hy1, rowMin_map g hg.monotone y2 hy2,
    rowMax_map g hg.monotone y1 hy1, rowMax_map g hg.monotone y2 hy2]
  simp only [hf.lt_iff_lt, hg.lt_iff_lt, hf.injective.eq_iff, hg.injective.eq_iff]

/-- … and under a strictly decreasing map of the abscissae (mirror): `left`/`right` exchange
    their roles, the two x-tests are exchanged -/
theorem bboxRel2_map_strictAnti_x (f : K → K) (hf : StrictAnti f)
    (x1 y1 x2 y2 : List K) (hx1 : x1 ≠ []) (hx2 : x2 ≠ []) :
    bboxRel2 (x1.map f) y1 (x2.map f) y2 = bboxRel2 x1 y1 x2 y2 := by
  unfold bboxRel2
  rw [rowMin_map_anti f hf.antitone x1 hx1, rowMin_map_anti f hf.antitone x2 hx2,
    rowMax_map_anti f hf.antitone x1 hx1, rowMax_map_anti f hf.antitone x2 hx2]
  simp only [hf.lt_iff_gt, hf.injective.eq_iff]
  have e1 : (rowMax x1 < rowMin x2 ∨ rowMax x2 < rowMin x1 ∨ rowMax y2 < rowMin y1 ∨ rowMax y1 < rowMin y2)
      ↔ (rowMax x2 < rowMin x1 ∨ rowMax x1 < rowMin x2 ∨ rowMax y2 < rowMin y1 ∨ rowMax y1 < rowMin y2) := by
    tauto
  have e2 : (rowMin x2 = rowMax x1 ∨ rowMin x1 = rowMax x2 ∨ rowMax y2 = rowMin y1 ∨ rowMax y1 = rowMin y2)
      ↔ (rowMax x2 = rowMin x1 ∨ rowMax x1 = rowMin x2 ∨ rowMax y2 = rowMin y1 ∨ rowMax y1 = rowMin y2) := by
    constructor <;> (intro h; rcases h with h | h | h | h) <;> simp [h]
  simp only [e1, e2]

/-- exchanging the two axes -/
theorem bboxRel2_swapAxes (x1 y1 x2 y2 : List K) : bboxRel2 y1 x1 y2 x2 = bboxRel2 x1 y1 x2 y2 := by
  unfold bboxRel2
  have e1 : (rowMax y2 < rowMin y1 ∨ rowMax y1 < rowMin y2 ∨ rowMax x2 < rowMin x1 ∨ rowMax x1 < rowMin x2)
      ↔ (rowMax x2 < rowMin x1 ∨ rowMax x1 < rowMin x2 ∨ rowMax y2 < rowMin y1 ∨ rowMax y1 < rowMin y2) := by
    tauto
  have e2 : (rowMax y2 = rowMin y1 ∨ rowMax y1 = rowMin y2 ∨ rowMax x2 = rowMin x1 ∨ rowMax x1 = rowMin x2)
      ↔ (rowMax x2 = rowMin x1 ∨ rowMax x1 = rowMin x2 ∨ rowMax y2 = rowMin y1 ∨ rowMax y1 = rowMin y2) := by
    tauto
  simp only [e1, e2]

/-- exchanging the two arguments -/
theorem bboxRel2_swapArgs (x1 y1 x2 y2 : List K) : bboxRel2 x2 y2 x1 y1 = bboxRel2 x1 y1 x2 y2 := by
  unfold bboxRel2
  have e1 : (rowMax x1 < rowMin x2 ∨ rowMax x2 < rowMin x1 ∨ rowMax y1 < rowMin y2 ∨ rowMax y2 < rowMin y1)
      ↔ (rowMax x2 < rowMin x1 ∨ rowMax x1 < rowMin x2 ∨ rowMax y2 < rowMin y1 ∨ rowMax y1 < rowMin y2) := by
    tauto
  have e2 : (rowMax x1 = rowMin x2 ∨ rowMax x2 = rowMin x1 ∨ rowMax y1 = rowMin y2 ∨ rowMax y2 = rowMin y1)
      ↔ (rowMax x2 = rowMin x1 ∨ rowMax x1 = rowMin x2 ∨ rowMax y2 = rowMin y1 ∨ rowMax y1 = rowMin y2) := by
    tauto
  simp only [e1, e2]

/-! `min` / `max` of a row do not depend on the order of the entries (reversal) -/

theorem foldl_min_le_init : ∀ (l : List K) (a : K), l.foldl min a ≤ a
  | [], a => le_rfl
  | x :: xs, a => le_trans (foldl_min_le_init xs (min a x)) (min_le_left a x)

theorem foldl_min_le_mem : ∀ (l : List K) (a : K), ∀ y ∈ l, l.foldl min a ≤ y
  | [], _, y, hy => by simp at hy
  | x :: xs, a, y, hy => by
    rcases List.mem_cons.mp hy with h | h
    · subst h; exact le_trans (foldl_min_le_init xs (min a y)) (min_le_right a y)
    · exact foldl_min_le_mem xs (min a x) y h

theorem foldl_min_mem : ∀ (l : List K) (a : K), l.foldl min a = a ∨ l.foldl min a ∈ l
  | [], a => Or.inl rfl
  | x :: xs, a => by
    simp only [List.foldl_cons, List.mem_cons]
    rcases foldl_min_mem xs (min a x) with h | h
    · rw [h]
      rcases min_choice a x with h' | h'
      · exact Or.inl h'
      · exact Or.inr (Or.inl h')
    · exact Or.inr (Or.inr h)

theorem foldl_max_ge_init : ∀ (l : List K) (a : K), a ≤ l.foldl max a
  | [], a => le_rfl
  | x :: xs, a => le_trans (le_max_left a x) (foldl_max_ge_init xs (max a x))

theorem foldl_max_ge_mem : ∀ (l : List K) (a : K), ∀ y ∈ l, y ≤ l.foldl max a
  | [], _, y, hy => by simp at hy
  | x :: xs, a, y, hy => by
    rcases List.mem_cons.mp hy with h | h
    · subst h; exact le_trans (le_max_right a y) (foldl_max_ge_init xs (max a y))
    · exact foldl_max_ge_mem xs (max a x) y h

theorem foldl_max_mem : ∀ (l : List K) (a : K), l.foldl max a = a ∨ l.foldl max a ∈ l
  | [], a => Or.inl rfl
  | x :: xs, a => by
    simp only [List.foldl_cons, List.mem_cons]
    rcases foldl_max_mem xs (max a x) with h | h
    · rw [h]
      rcases max_choice a x with h' | h'
      · exact Or.inl h'
      · exact Or.inr (Or.inl h')
    · exact Or.inr (Or.inr h)

theorem rowMin_le (l : List K) : ∀ y ∈ l, rowMin l ≤ y := by
  cases l with
  | nil => intro y hy; simp at hy
  | cons x xs =>
    intro y hy
    rcases List.mem_cons.mp hy with h | h
    · subst h; exact foldl_min_le_init xs y
    · exact foldl_min_le_mem xs x y h

theorem rowMin_mem (l : List K) (h : l ≠ []) : rowMin l ∈ l := by
  cases l with
  | nil => exact absurd rfl h
  | cons x xs =>
    rcases foldl_min_mem xs x with h' | h'
    · exact List.mem_cons.mpr (Or.inl h')
    · exact List.mem_cons.mpr (Or.inr h')

theorem le_rowMax (l : List K) : ∀ y ∈ l, y ≤ rowMax l := by
  cases l with
  | nil => intro y hy; simp at hy
  | cons x xs =>
    intro y hy
    rcases List.mem_cons.mp hy with h | h
    · subst h; exact foldl_max_ge_init xs y
    · exact foldl_max_ge_mem xs x y h

theorem rowMax_mem (l : List K) (h : l ≠ []) : rowMax l ∈ l := by
  cases l with
  | nil => exact absurd rfl h
  | cons x xs =>
    rcases foldl_max_mem xs x with h' | h'
    · exact List.mem_cons.mpr (Or.inl h')
    · exact List.mem_cons.mpr (Or.inr h')

/-- `rowMin` only depends on the set of entries -/
theorem rowMin_congr (l l' : List K) (h : ∀ y, y ∈ l ↔ y ∈ l') : rowMin l = rowMin l' := by
  by_cases hl : l = []
  · subst hl
    have : l' = [] := by
      cases l' with
      | nil => rfl
      | cons x xs => exact absurd ((h x).mpr List.mem_cons_self) (by simp)
    rw [this]
  · have hl' : l' ≠ [] := by
      intro e; subst e
      exact absurd ((h _).mp (rowMin_mem l hl)) (by simp)
    exact le_antisymm (rowMin_le l _ ((h _).mpr (rowMin_mem l' hl')))
      (rowMin_le l' _ ((h _).mp (rowMin_mem l hl)))

theorem rowMax_congr (l l' : List K) (h : ∀ y, y ∈ l ↔ y ∈ l') : rowMax l = rowMax l' := by
  by_cases hl : l = []
  · subst hl
    have : l' = [] := by
      cases l' with
      | nil => rfl
      | cons x xs => exact absurd ((h x).mpr List.mem_cons_self) (by simp)
    rw [this]
  · have hl' : l' ≠ [] := by
      intro e; subst e
      exact absurd ((h _).mp (rowMax_mem l hl)) (by simp)
    exact le_antisymm (le_rowMax l' _ ((h _).mp (rowMax_mem l hl)))
      (le_rowMax l _ ((h _).mpr (rowMax_mem l' hl')))

theorem rowMin_reverse (l : List K) : rowMin l.reverse = rowMin l :=
  rowMin_congr _ _ (fun y => List.mem_reverse)

theorem rowMax_reverse (l : List K) : rowMax l.reverse = rowMax l :=
  rowMax_congr _ _ (fun y => List.mem_reverse)

/-- reversing the node order of either curve does not change the bounding-box decision -/
theorem bboxRel2_reverse_first (x1 y1 x2 y2 : List K) :
    bboxRel2 x1.reverse y1.reverse x2 y2 = bboxRel2 x1 y1 x2 y2 := by
  unfold bboxRel2
  rw [rowMin_reverse, rowMin_reverse, rowMax_reverse, rowMax_reverse]

end Ordered

end BezierVerif.Equivariance
