import BezierVerif.Lemmas.Bridge
import BezierVerif.Lemmas.VS

/-!
# Lemmas/EvalBary — the dispatching evaluator equals de Casteljau

`Model.evalBary thr` (the transcription of `evaluate_multi_barycentric`: VS/Horner form up to `thr`
nodes, de Casteljau above) computes the same value as `Model.evalDC` on every row with at least two
entries, whatever the threshold: both are the Bernstein sum.  This lets geometric statements proved
for `evalDC` (bounding box, Lipschitz, end-point lemmas) be stated for the function the intersection
code actually calls.
-/

namespace BezierVerif.Geo

open Model BezierVerif

variable {K : Type} [Field K] [CharZero K]

theorem evalBary_eq_evalDC (thr : ℕ) (row : List K) (h : 2 ≤ row.length) (a b : K) :
    evalBary thr row a b = evalDC a b (row.length - 1) row := by
  unfold evalBary
  split
  · rfl
  · rw [evalVS_eq_bern (row.length - 1) (by omega), evalDC_eq_bern a b _ row (by omega)]; rfl

/-- with barycentric weights `(1 - s, s)` the same holds for a single control value (degree 0), which
    is what `evaluate_hodograph` evaluates for a line -/
theorem evalBary_eq_evalDC_unit (thr : ℕ) (row : List K) (h : 1 ≤ row.length) (s : K) :
    evalBary thr row (1 - s) s = evalDC (1 - s) s (row.length - 1) row := by
  by_cases h2 : 2 ≤ row.length
  · exact evalBary_eq_evalDC thr row h2 _ _
  · match row, h, h2 with
    | [d], _, _ =>
      unfold evalBary
      split
      · rfl
      · simp [evalVS, vsLoop, seq, evalDC]; ring
    | _ :: _ :: _, _, h2 => exact absurd (by simp) h2

/-- `evaluate_hodograph` is `n` times the de Casteljau value of the forward differences -/
theorem hodographRow_eq (thr : ℕ) (row : List K) (h : 2 ≤ row.length) (s : K) :
    hodographRow thr row s =
      ((row.length - 1 : ℕ) : K) * evalDC (1 - s) s (row.length - 1 - 1) (diffs row) := by
  have hl : (diffs row).length = row.length - 1 := by
    match row, h with
    | x :: y :: rest, _ =>
      have aux : ∀ l : List K, (diffs l).length = l.length - 1 := by
        intro l
        induction l with
        | nil => rfl
        | cons a t ih =>
          cases t with
          | nil => rfl
          | cons b t' => simp only [diffs, List.length_cons] at ih ⊢; omega
      exact aux _
  unfold hodographRow
  rw [evalBary_eq_evalDC_unit thr (diffs row) (by omega), hl]

/-- `Model.evalPoint` on a planar net (two rows) is the pair of de Casteljau values -/
theorem evalPoint_pair (thr : ℕ) (xs ys : List K) (hx : 2 ≤ xs.length) (hy : 2 ≤ ys.length) (s : K) :
    evalPoint thr [xs, ys] s =
      [evalDC (1 - s) s (xs.length - 1) xs, evalDC (1 - s) s (ys.length - 1) ys] := by
  simp [evalPoint, evalBary_eq_evalDC thr xs hx, evalBary_eq_evalDC thr ys hy]

end BezierVerif.Geo
