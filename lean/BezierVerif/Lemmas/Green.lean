import BezierVerif.Model.Area
import Mathlib.Algebra.Field.Basic
import Mathlib.Tactic.Ring
import Mathlib.Tactic.FieldSimp
import Mathlib.Tactic.NormNum
import Mathlib.Algebra.CharZero.Defs
import Mathlib.Data.Nat.Cast.Field

/-!
# Lemmas/Green — formal Green-theorem boundary integral on power-basis coefficient lists
-/

namespace BezierVerif.Green

variable {K : Type} [Field K] [CharZero K]

/-- power-basis polynomial arithmetic on coefficient lists -/
def padd : List K → List K → List K
  | [], q => q
  | p, [] => p
  | a :: p, b :: q => (a + b) :: padd p q
def psmul (c : K) (p : List K) : List K := p.map (c * ·)
def pmul : List K → List K → List K
  | [], _ => []
  | a :: p, q => padd (psmul a q) (0 :: pmul p q)
def pderiv : List K → List K
  | [] => []
  | _ :: p => (List.zipWith (fun (k : ℕ) c => ((k+1 : ℕ) : K) * c) (List.range p.length) p)
/-- ∫₀¹ -/
def pint (p : List K) : K := ((List.zipWith (fun (k : ℕ) c => c / ((k+1 : ℕ) : K)) (List.range p.length) p)).sum

/-- Bernstein → power basis, degrees 1..4 (explicit binomial expansion) -/
def toPow1 (c0 c1 : K) : List K := [c0, c1 - c0]
def toPow2 (c0 c1 c2 : K) : List K := [c0, 2*(c1-c0), c2 - 2*c1 + c0]
def toPow3 (c0 c1 c2 c3 : K) : List K := [c0, 3*(c1-c0), 3*(c2-2*c1+c0), c3-3*c2+3*c1-c0]
def toPow4 (c0 c1 c2 c3 c4 : K) : List K :=
  [c0, 4*(c1-c0), 6*(c2-2*c1+c0), 4*(c3-3*c2+3*c1-c0), c4-4*c3+6*c2-4*c1+c0]

/-- ½ ∫ (x y' − y x') ds -/
def green (x y : List K) : K := (pint (pmul x (pderiv y)) - pint (pmul y (pderiv x))) / 2

end BezierVerif.Green
