import BezierVerif.Lemmas.HullCorrect
import Mathlib.Analysis.Convex.Combination
import Mathlib.Tactic.FieldSimp

/-!
# Lemmas/HullConvex — the polygon returned by `simple_convex_hull` spans the Mathlib convex hull

`HullCorrect` shows that every input point is on or to the left of every edge of the returned
polygon.  Here: such a point is a convex combination of three vertices (fan triangulation from the
first vertex), hence `convexHull K (vertices) = convexHull K (input points)`.

* strict transitivity of the angular order in the two cones;
* the first (resp. last) point of a strictly convex chain is strictly to the left of every chain edge
  not incident to it  ⇒  every fan triangle `v₀ v_k v_{k+1}` is non-degenerate;
* discrete intermediate value argument: the point lies in one of the fan wedges;
* barycentric coordinates.
-/

set_option linter.unusedSectionVars false
set_option linter.unusedVariables false

namespace BezierVerif.HullConvex

open BezierVerif Model PredicatesHull HullCorrect

variable {K : Type} [Field K] [LinearOrder K] [IsStrictOrderedRing K]

/-! ### strict angular order -/

/-- strict transitivity of the angular order of a cone -/
def AngLt (Pos : Pt K → Prop) : Prop :=
  ∀ u v w : Pt K, Pos u → Pos v → Pos w → 0 < cross u v → 0 < cross v w → 0 < cross u w

theorem angLt_lexPos : AngLt (LexPos (K := K)) := by
  intro u v w hu hv hw h1 h2
  have hu1 := lexPos_fst (Or.inr hu)
  have hw1 := lexPos_fst (Or.inr hw)
  have key : cross u w * v.1 = cross u v * w.1 + cross v w * u.1 := by
    simp only [cross]; ring
  rcases hv with hv | ⟨hv1, hv2⟩
  · have hpos : 0 < cross u v * w.1 + cross v w * u.1 := by
      rcases lt_or_eq_of_le hw1 with hw0 | hw0
      · exact add_pos_of_pos_of_nonneg (mul_pos h1 hw0) (mul_nonneg (le_of_lt h2) hu1)
      · rcases lt_or_eq_of_le hu1 with hu0 | hu0
        · exact add_pos_of_nonneg_of_pos (mul_nonneg (le_of_lt h1) hw1) (mul_pos h2 hu0)
        · exfalso
          have hu2 : 0 < u.2 := by
            rcases hu with h | h
            · rw [← hu0] at h; exact absurd h (lt_irrefl _)
            · exact h.2
          have : cross u v = - (u.2 * v.1) := by simp only [cross, ← hu0]; ring
          rw [this] at h1
          have := mul_pos hu2 hv
          linarith
    rw [← key] at hpos
    exact (mul_pos_iff_of_pos_right hv).1 hpos
  · exfalso
    have : cross v w = - (v.2 * w.1) := by simp only [cross, hv1]; ring
    rw [this] at h2
    have := mul_nonneg (le_of_lt hv2) hw1
    linarith

theorem angLt_lexNeg : AngLt (LexNeg (K := K)) := by
  intro u v w hu hv hw h1 h2
  have := angLt_lexPos (-u.1, -u.2) (-v.1, -v.2) (-w.1, -w.2) ((lexNeg_iff u).1 hu)
    ((lexNeg_iff v).1 hv) ((lexNeg_iff w).1 hw)
    (by simp only [cross] at h1 ⊢; linarith) (by simp only [cross] at h2 ⊢; linarith)
  simp only [cross] at this ⊢
  linarith

/-! ### the ends of a strictly convex chain are strictly to the left of the other edges -/

section Chain
variable {Pos : Pt K → Prop} (hC : Cone Pos) (hA : AngLt Pos)
include hC hA

/-- the last point `z` of the chain is strictly to the left of every edge but the last -/
theorem last_strict (l : List (Pt K)) (hp : l.Pairwise (Rel Pos)) (ht : TurnsOK l) :
    ∀ d j, j + 3 + d = l.length →
      0 < crossProductCompare (getP l j) (getP l (j + 1)) (getP l (l.length - 1)) := by
  intro d
  induction d with
  | zero =>
    intro j hj
    have := ht j (by omega)
    rwa [show j + 2 = l.length - 1 by omega] at this
  | succ d ih =>
    intro j hj
    have h1 := ht j (by omega)
    have h2 := ih (j + 1) (by omega)
    have r01 : Rel Pos (getP l j) (getP l (j + 1)) := pairwise_getP hp j (j + 1) (by omega) (by omega)
    have r12 : Rel Pos (getP l (j + 1)) (getP l (j + 2)) :=
      pairwise_getP hp (j + 1) (j + 2) (by omega) (by omega)
    have r1z : Rel Pos (getP l (j + 1)) (getP l (l.length - 1)) :=
      pairwise_getP hp (j + 1) (l.length - 1) (by omega) (by omega)
    have := hA (((getP l (j + 1)).1 - (getP l j).1, (getP l (j + 1)).2 - (getP l j).2))
      (((getP l (j + 2)).1 - (getP l (j + 1)).1, (getP l (j + 2)).2 - (getP l (j + 1)).2))
      (((getP l (l.length - 1)).1 - (getP l (j + 1)).1, (getP l (l.length - 1)).2 - (getP l (j + 1)).2))
      r01 r12 r1z
      (by rw [cpc_def] at h1; simp only [cross]; linarith)
      (by rw [show j + 1 + 1 = j + 2 by omega, cpc_def] at h2; simp only [cross]; linarith)
    rw [cpc_def]; simp only [cross] at this; linarith

/-- the first point of the chain is strictly to the left of every edge but the first -/
theorem first_strict (l : List (Pt K)) (hp : l.Pairwise (Rel Pos)) (ht : TurnsOK l) :
    ∀ k, k + 2 < l.length →
      0 < crossProductCompare (getP l (k + 1)) (getP l (k + 2)) (getP l 0) := by
  intro k
  induction k with
  | zero =>
    intro hk
    have := ht 0 (by omega)
    rw [cpc_cyc]
    exact this
  | succ k ih =>
    intro hk
    have h1 := ih (by omega)
    have h2 := ht (k + 1) (by omega)
    have rz : Rel Pos (getP l 0) (getP l (k + 2)) := pairwise_getP hp 0 (k + 2) (by omega) (by omega)
    have r12 : Rel Pos (getP l (k + 1)) (getP l (k + 2)) :=
      pairwise_getP hp (k + 1) (k + 2) (by omega) (by omega)
    have r23 : Rel Pos (getP l (k + 2)) (getP l (k + 3)) :=
      pairwise_getP hp (k + 2) (k + 3) (by omega) (by omega)
    have := hA (((getP l (k + 2)).1 - (getP l 0).1, (getP l (k + 2)).2 - (getP l 0).2))
      (((getP l (k + 2)).1 - (getP l (k + 1)).1, (getP l (k + 2)).2 - (getP l (k + 1)).2))
      (((getP l (k + 3)).1 - (getP l (k + 2)).1, (getP l (k + 3)).2 - (getP l (k + 2)).2))
      rz r12 r23
      (by rw [cpc_def] at h1; simp only [cross]; linarith)
      (by rw [show k + 1 + 1 = k + 2 by omega, show k + 1 + 2 = k + 3 by omega, cpc_def] at h2
          simp only [cross]; linarith)
    rw [show k + 1 + 1 = k + 2 by omega, show k + 1 + 2 = k + 3 by omega, cpc_def]
    simp only [cross] at this; linarith

end Chain

/-! ### a point inside a fan of non-degenerate triangles -/

/-- discrete intermediate value argument -/
theorem sign_change (g : ℕ → K) : ∀ n lo, 0 ≤ g lo → g (lo + n + 1) ≤ 0 →
    ∃ k, lo ≤ k ∧ k ≤ lo + n ∧ 0 ≤ g k ∧ g (k + 1) ≤ 0 := by
  intro n
  induction n with
  | zero => intro lo h1 h2; exact ⟨lo, le_rfl, le_rfl, h1, h2⟩
  | succ n ih =>
    intro lo h1 h2
    by_cases h : g (lo + 1) ≤ 0
    · exact ⟨lo, le_rfl, by omega, h1, h⟩
    · obtain ⟨k, hk1, hk2, hk3, hk4⟩ := ih (lo + 1) (le_of_lt (not_le.1 h))
        (by rwa [show lo + 1 + n + 1 = lo + (n + 1) + 1 by omega])
      exact ⟨k, by omega, by omega, hk3, hk4⟩

/-- barycentric coordinates: a point on or to the left of the three edges of a non-degenerate
    counter-clockwise triangle is a convex combination of its vertices -/
theorem mem_convexHull_triangle (s : Set (Pt K)) (p q r x : Pt K) (hp : p ∈ s) (hq : q ∈ s) (hr : r ∈ s)
    (hΔ : 0 < crossProductCompare p q r)
    (h1 : 0 ≤ crossProductCompare q r x) (h2 : 0 ≤ crossProductCompare r p x)
    (h3 : 0 ≤ crossProductCompare p q x) : x ∈ convexHull K s := by
  have hsum : crossProductCompare q r x + crossProductCompare r p x + crossProductCompare p q x
      = crossProductCompare p q r := by
    simp only [cpc_def]; ring
  have hne : crossProductCompare p q r ≠ 0 := ne_of_gt hΔ
  let w : Fin 3 → K := ![crossProductCompare q r x / crossProductCompare p q r,
    crossProductCompare r p x / crossProductCompare p q r,
    crossProductCompare p q x / crossProductCompare p q r]
  let z : Fin 3 → Pt K := ![p, q, r]
  have hmem := (convex_convexHull K s).sum_mem (t := Finset.univ) (w := w) (z := z)
    (by
      intro i _
      fin_cases i
      · exact div_nonneg h1 (le_of_lt hΔ)
      · exact div_nonneg h2 (le_of_lt hΔ)
      · exact div_nonneg h3 (le_of_lt hΔ))
    (by
      simp only [Fin.sum_univ_three, w, Matrix.cons_val_zero, Matrix.cons_val_one,
        Matrix.cons_val_two, Matrix.head_cons, Matrix.tail_cons]
      rw [← add_div, ← add_div, hsum, div_self hne])
    (by
      intro i _
      fin_cases i
      · exact subset_convexHull K s hp
      · exact subset_convexHull K s hq
      · exact subset_convexHull K s hr)
  have hx : ∑ i : Fin 3, w i • z i = x := by
    simp only [Fin.sum_univ_three, w, z, Matrix.cons_val_zero, Matrix.cons_val_one,
      Matrix.cons_val_two, Matrix.head_cons, Matrix.tail_cons]
    apply Prod.ext
    · simp only [Prod.fst_add, Prod.smul_fst, smul_eq_mul]
      field_simp
      simp only [cpc_def]; ring
    · simp only [Prod.snd_add, Prod.smul_snd, smul_eq_mul]
      field_simp
      simp only [cpc_def]; ring
  rwa [hx] at hmem

/-- fan triangulation: a point on or to the left of every (cyclic) edge of a polygon all of whose fan
    triangles `v₀ v_k v_{k+1}` are non-degenerate lies in the convex hull of the vertices -/
theorem mem_convexHull_polygon (H : List (Pt K)) (x : Pt K) (hN : 3 ≤ H.length)
    (hcont : ∀ i, i < H.length →
      0 ≤ crossProductCompare (getP H i) (getP H ((i + 1) % H.length)) x)
    (hfan : ∀ k, 1 ≤ k → k + 1 < H.length →
      0 < crossProductCompare (getP H 0) (getP H k) (getP H (k + 1))) :
    x ∈ convexHull K {v : Pt K | v ∈ H} := by
  have g1 : 0 ≤ crossProductCompare (getP H 0) (getP H 1) x := by
    have := hcont 0 (by omega)
    rwa [Nat.mod_eq_of_lt (by omega)] at this
  have g2 : crossProductCompare (getP H 0) (getP H (1 + (H.length - 3) + 1)) x ≤ 0 := by
    have := hcont (H.length - 1) (by omega)
    rw [show H.length - 1 + 1 = H.length by omega, Nat.mod_self] at this
    rw [show 1 + (H.length - 3) + 1 = H.length - 1 by omega]
    have e : crossProductCompare (getP H 0) (getP H (H.length - 1)) x
        = - crossProductCompare (getP H (H.length - 1)) (getP H 0) x := by
      simp only [cpc_def]; ring
    rw [e]; linarith
  obtain ⟨k, hk1, hk2, hk3, hk4⟩ :=
    sign_change (fun k => crossProductCompare (getP H 0) (getP H k) x) (H.length - 3) 1 g1 g2
  have hkN : k + 1 < H.length := by omega
  apply mem_convexHull_triangle _ (getP H 0) (getP H k) (getP H (k + 1)) x
    (getP_mem H 0 (by omega)) (getP_mem H k (by omega)) (getP_mem H (k + 1) hkN)
    (hfan k hk1 hkN)
  · have := hcont k (by omega)
    rwa [Nat.mod_eq_of_lt hkN] at this
  · have e : crossProductCompare (getP H (k + 1)) (getP H 0) x
        = - crossProductCompare (getP H 0) (getP H (k + 1)) x := by
      simp only [cpc_def]; ring
    rw [e]; linarith
  · exact hk3

/-! ### the polygon returned by `hullChain` -/

section Hull
variable (pts : List (Pt K)) (hs : pts.Pairwise (Rel LexPos)) (hn : 2 ≤ pts.length)
include hs hn

/-- every fan triangle from the first vertex is non-degenerate -/
theorem hullChain_fan : ∀ k, 1 ≤ k → k + 1 < (hullChain Py.inSorted pts).length →
    0 < crossProductCompare (getP (hullChain Py.inSorted pts) 0) (getP (hullChain Py.inSorted pts) k)
      (getP (hullChain Py.inSorted pts) (k + 1)) := by
  obtain ⟨LM, UM, hL, hU, hH⟩ := hull_structure pts hs hn
  have linv := lst_inv pts hs hn
  have uinv := ust_inv pts hs hn
  have pL : ((getP pts 0 :: LM) ++ [getP pts (pts.length - 1)]).Pairwise (Rel LexPos) := by
    rw [← hL, List.pairwise_reverse]; exact linv.desc
  have pU : ((getP pts (pts.length - 1) :: UM) ++ [getP pts 0]).Pairwise (Rel LexNeg) := by
    rw [← hU, List.pairwise_reverse]; exact uinv.desc
  have tL : TurnsOK ((getP pts 0 :: LM) ++ [getP pts (pts.length - 1)]) := by
    rw [← hL]; exact turnsOK_reverse linv.turns
  have tU : TurnsOK ((getP pts (pts.length - 1) :: UM) ++ [getP pts 0]) := by
    rw [← hU]; exact turnsOK_reverse uinv.turns
  rw [hH]
  intro k hk1 hk2
  have hlen : ((getP pts 0 :: LM) ++ (getP pts (pts.length - 1) :: UM)).length
      = LM.length + UM.length + 2 := by
    simp only [List.length_append, List.length_cons]; omega
  rw [hlen] at hk2
  have h0 : getP ((getP pts 0 :: LM) ++ (getP pts (pts.length - 1) :: UM)) 0 = getP pts 0 := by
    simp [getP]
  have ek : getP ((getP pts 0 :: LM) ++ (getP pts (pts.length - 1) :: UM)) k
      = getP ((getP pts 0 :: LM) ++ (getP pts (pts.length - 1) :: UM)) (k % (LM.length + UM.length + 2)) := by
    rw [Nat.mod_eq_of_lt (by omega)]
  have ek1 : getP ((getP pts 0 :: LM) ++ (getP pts (pts.length - 1) :: UM)) (k + 1)
      = getP ((getP pts 0 :: LM) ++ (getP pts (pts.length - 1) :: UM))
        ((k + 1) % (LM.length + UM.length + 2)) := by
    rw [Nat.mod_eq_of_lt (by omega)]
  rw [h0, ← cpc_cyc, ek, ek1]
  by_cases hc : k + 1 ≤ LM.length + 1
  · rw [getP_cycle_hi _ _ LM UM k (by omega), getP_cycle_hi _ _ LM UM (k + 1) (by omega),
      if_pos (by omega), if_pos hc]
    have := first_strict cone_lexPos angLt_lexPos _ pL tL (k - 1) (by simp; omega)
    rw [show k - 1 + 1 = k by omega, show k - 1 + 2 = k + 1 by omega] at this
    simpa [getP] using this
  · rw [getP_cycle_lo _ _ LM UM k (by omega), getP_cycle_lo _ _ LM UM (k + 1) (by omega),
      if_neg (by omega), if_neg (by omega)]
    have := last_strict cone_lexNeg angLt_lexNeg _ pU tU (UM.length + LM.length - k)
      (k - (LM.length + 1)) (by simp; omega)
    have hlast : getP ((getP pts (pts.length - 1) :: UM) ++ [getP pts 0])
        (((getP pts (pts.length - 1) :: UM) ++ [getP pts 0]).length - 1) = getP pts 0 := by
      rw [getP_append_right _ _ _ (by simp)]; simp [getP]
    rw [hlast, show k - (LM.length + 1) + 1 = k + 1 - (LM.length + 1) by omega] at this
    exact this

/-- generic case: every point is a convex combination of three vertices of the result -/
theorem hullChain_mem_convexHull (hnc : ¬ AllCollinear pts) : ∀ x ∈ pts,
    x ∈ convexHull K {v : Pt K | v ∈ hullChain Py.inSorted pts} := by
  intro x hx
  exact mem_convexHull_polygon _ x (hullChain_convex pts hs hn hnc).1
    (hullChain_contains pts hs hn x hx) (hullChain_fan pts hs hn)

end Hull

/-- a point collinear with `a ≠ b` and lexicographically between them is on the segment -/
theorem mem_convexHull_segment (s : Set (Pt K)) (a b x : Pt K) (ha : a ∈ s) (hb : b ∈ s)
    (hab : a ≠ b) (hcol : crossProductCompare a b x = 0)
    (hax : x = a ∨ Rel LexPos a x) (hxb : b = x ∨ Rel LexPos x b) : x ∈ convexHull K s := by
  obtain ⟨h1, h1'⟩ := lexPos_le hax
  obtain ⟨h2, h2'⟩ := lexPos_le hxb
  have hconv := convex_convexHull K s
  have hA := subset_convexHull K s ha
  have hB := subset_convexHull K s hb
  rw [cpc_def] at hcol
  by_cases hD : b.1 = a.1
  · have e1 : a.1 = x.1 := le_antisymm h1 (by linarith)
    have e2 : x.1 = b.1 := by linarith
    have g1 := h1' e1
    have g2 := h2' e2
    have hE : 0 < b.2 - a.2 := by
      rcases lt_or_eq_of_le (le_trans g1 g2) with h | h
      · linarith
      · exact absurd (Prod.ext hD.symm h) hab
    have hmem := hconv hA hB (a := 1 - (x.2 - a.2) / (b.2 - a.2)) (b := (x.2 - a.2) / (b.2 - a.2))
      (by rw [sub_nonneg, div_le_one hE]; linarith) (div_nonneg (by linarith) (le_of_lt hE))
      (by ring)
    have hx : (1 - (x.2 - a.2) / (b.2 - a.2)) • a + ((x.2 - a.2) / (b.2 - a.2)) • b = x := by
      apply Prod.ext
      · simp only [Prod.fst_add, Prod.smul_fst, smul_eq_mul]
        rw [hD, ← e1]; ring
      · simp only [Prod.snd_add, Prod.smul_snd, smul_eq_mul]
        field_simp
        ring
    rwa [hx] at hmem
  · have hDpos : 0 < b.1 - a.1 := by
      rcases lt_or_eq_of_le (le_trans h1 h2) with h | h
      · linarith
      · exact absurd h.symm hD
    have hmem := hconv hA hB (a := 1 - (x.1 - a.1) / (b.1 - a.1)) (b := (x.1 - a.1) / (b.1 - a.1))
      (by rw [sub_nonneg, div_le_one hDpos]; linarith) (div_nonneg (by linarith) (le_of_lt hDpos))
      (by ring)
    have hx : (1 - (x.1 - a.1) / (b.1 - a.1)) • a + ((x.1 - a.1) / (b.1 - a.1)) • b = x := by
      apply Prod.ext
      · simp only [Prod.fst_add, Prod.smul_fst, smul_eq_mul]
        field_simp
        ring
      · simp only [Prod.snd_add, Prod.smul_snd, smul_eq_mul]
        field_simp
        linear_combination (-1 : K) * hcol
    rwa [hx] at hmem

/-- **the vertices returned by `simple_convex_hull` span the convex hull of the input points** -/
theorem py_hull_convexHull_eq (pts : List (Pt K)) :
    convexHull K {v : Pt K | v ∈ Py.convexHull pts} = convexHull K {v : Pt K | v ∈ pts} := by
  apply le_antisymm
  · exact convexHull_mono (fun v hv => mem_py_convexHull pts v hv)
  · apply convexHull_min _ (convex_convexHull K _)
    intro x hx
    have hx' : x ∈ pts := hx
    by_cases h3 : (Py.sortUnique pts).length < 3
    · apply subset_convexHull
      show x ∈ Py.convexHull pts
      rw [py_hull_small pts h3]
      exact (mem_sortUnique_iff pts x).2 hx'
    have h3' : 3 ≤ (Py.sortUnique pts).length := not_lt.1 h3
    by_cases hc : AllCollinear pts
    · have hH := py_hull_collinear pts h3' hc
      have hsorted := sortUnique_rel pts
      have hab := first_ne_last _ hsorted (by omega)
      obtain ⟨f1, f2⟩ := sorted_first_last _ hsorted (by omega) x ((mem_sortUnique_iff pts x).2 hx')
      have hamem : getP (Py.sortUnique pts) 0 ∈ pts :=
        (mem_sortUnique_iff pts _).1 (getP_mem _ 0 (by omega))
      have hbmem : getP (Py.sortUnique pts) ((Py.sortUnique pts).length - 1) ∈ pts :=
        (mem_sortUnique_iff pts _).1 (getP_mem _ _ (by omega))
      apply mem_convexHull_segment _ (getP (Py.sortUnique pts) 0)
        (getP (Py.sortUnique pts) ((Py.sortUnique pts).length - 1)) x _ _ hab
        (hc _ hamem _ hbmem _ hx') f1 (f2.imp Eq.symm id)
      · show _ ∈ Py.convexHull pts
        rw [hH]; simp
      · show _ ∈ Py.convexHull pts
        rw [hH]; simp
    · rw [py_hull_large pts h3']
      exact hullChain_mem_convexHull _ (sortUnique_rel pts) (by omega)
        (fun h => hc ((allCollinear_sortUnique pts).1 h)) x ((mem_sortUnique_iff pts x).2 hx')

/-- two closed segments without a common point have disjoint convex hulls -/
theorem segments_disjoint (a0 a1 b0 b1 : Pt K)
    (h : ¬ ∃ s t : K, 0 ≤ s ∧ s ≤ 1 ∧ 0 ≤ t ∧ t ≤ 1 ∧
      a0.1 + s * (a1.1 - a0.1) = b0.1 + t * (b1.1 - b0.1) ∧
      a0.2 + s * (a1.2 - a0.2) = b0.2 + t * (b1.2 - b0.2)) :
    Disjoint (convexHull K {x : Pt K | x ∈ [a0, a1]}) (convexHull K {x : Pt K | x ∈ [b0, b1]}) := by
  have e1 : {x : Pt K | x ∈ [a0, a1]} = {a0, a1} := by ext x; simp
  have e2 : {x : Pt K | x ∈ [b0, b1]} = {b0, b1} := by ext x; simp
  rw [e1, e2, convexHull_pair, convexHull_pair, Set.disjoint_left]
  rintro z ⟨u, v, hu, hv, huv, rfl⟩ ⟨u', v', hu', hv', huv', hz⟩
  apply h
  refine ⟨v, v', hv, by linarith, hv', by linarith, ?_, ?_⟩
  · have := congrArg Prod.fst hz
    simp only [Prod.fst_add, Prod.smul_fst, smul_eq_mul] at this
    have hu1 : u = 1 - v := by linarith
    have hu2 : u' = 1 - v' := by linarith
    rw [hu1, hu2] at this
    linarith
  · have := congrArg Prod.snd hz
    simp only [Prod.snd_add, Prod.smul_snd, smul_eq_mul] at this
    have hu1 : u = 1 - v := by linarith
    have hu2 : u' = 1 - v' := by linarith
    rw [hu1, hu2] at this
    linarith

/-- the Fortran routine as well -/
theorem f90_hull_convexHull_eq (pts : List (Pt K)) :
    convexHull K {v : Pt K | v ∈ F90.convexHull pts} = convexHull K {v : Pt K | v ∈ pts} := by
  rw [convexHull_variants_agree]
  exact py_hull_convexHull_eq pts

/-- a polygon with at least two distinct vertices and no repeated vertex has no zero edge direction -/
theorem edgeDirs_ne_zero (poly : List (Pt K)) (hnd : poly.Nodup) (h2 : 2 ≤ poly.length) :
    ((0, 0) : Pt K) ∉ polygonEdgeDirs poly := by
  intro hmem
  unfold polygonEdgeDirs at hmem
  obtain ⟨i, hi, he⟩ := List.mem_iff_getElem.1 hmem
  simp only [List.length_zipWith, List.length_cons] at hi
  rw [List.getElem_zipWith] at he
  have hzero : ∀ p q : Pt K, psub p q = (0, 0) → p = q := by
    intro p q h
    simp only [psub, Prod.mk.injEq] at h
    exact Prod.ext (by linarith [h.1]) (by linarith [h.2])
  have heq := hzero _ _ he
  cases i with
  | zero =>
    simp only [List.getElem_cons_zero] at heq
    have hlast : poly.getLastD (0, 0) = poly[poly.length - 1]'(by omega) := by
      rw [List.getLastD_eq_getLast?, List.getLast?_eq_getElem?]
      simp [List.getElem?_eq_getElem (show poly.length - 1 < poly.length by omega)]
    have := (hnd.getElem_inj_iff).1 (heq.trans hlast)
    omega
  | succ j =>
    simp only [List.getElem_cons_succ] at heq
    have := (hnd.getElem_inj_iff).1 heq
    omega

/-- at least two distinct input points give at least two vertices -/
theorem py_hull_length (pts : List (Pt K)) (h2 : 2 ≤ (Py.sortUnique pts).length) :
    2 ≤ (Py.convexHull pts).length := by
  by_cases h3 : (Py.sortUnique pts).length < 3
  · rw [py_hull_small pts h3]; exact h2
  · by_cases hc : AllCollinear pts
    · rw [py_hull_collinear pts (not_lt.1 h3) hc]; simp
    · have := (py_hull_convex pts hc).2.2.1
      omega

end BezierVerif.HullConvex
