import BezierVerif.Lemmas.PredicatesHull
import Mathlib.Tactic.LinearCombination
import Mathlib.Tactic.NormNum

/-!
# Lemmas/HullCorrect — Andrew's monotone chain (`hullChain`) returns the convex hull

Helper lemmas for `Props/C16More.lean`.

* orientation algebra: `crossProductCompare a b c` (twice the signed area of `a b c`) and an abstract
  *cone* `Pos` of "forward" directions (instances: lexicographically positive / negative vectors) in
  which the angular order is transitive (`Cone.ang`);
* the scan on points (`popP`, `scanP`) with its loop invariant (`ScanInv`): the stack is sorted, makes
  strict left turns, and every point seen so far is on or to the left of every stack edge;
* the bridge from the index stacks of `Model.hullChain` to the point scan (lower chain: all points;
  upper chain: the points that are not interior vertices of the lower chain, in reverse order);
* assembly of the closed polygon `lower[:-1] ++ upper[:-1]`.
-/

set_option linter.unusedSectionVars false
set_option linter.unusedVariables false

namespace BezierVerif.HullCorrect

open BezierVerif Model PredicatesHull

variable {K : Type} [Field K] [LinearOrder K] [IsStrictOrderedRing K]

/-! ### orientation algebra -/

theorem cpc_def (a b c : Pt K) :
    crossProductCompare a b c = (b.1 - a.1) * (c.2 - a.2) - (b.2 - a.2) * (c.1 - a.1) := by
  simp only [crossProductCompare, cross, psub]

theorem cpc_self_left (a c : Pt K) : crossProductCompare a a c = 0 := by
  rw [cpc_def]; ring

theorem cpc_self_right (a b : Pt K) : crossProductCompare a b a = 0 := by
  rw [cpc_def]; ring

theorem cpc_self_mid (a b : Pt K) : crossProductCompare a b b = 0 := by
  rw [cpc_def]; ring

theorem cpc_cyc (a b c : Pt K) : crossProductCompare b c a = crossProductCompare a b c := by
  rw [cpc_def, cpc_def]; ring

theorem cpc_swap (a b c : Pt K) : crossProductCompare a c b = - crossProductCompare a b c := by
  rw [cpc_def, cpc_def]; ring

/-- a cone of "forward" directions: closed under addition and positive scaling, not containing `0`,
    and with a transitive angular order -/
structure Cone (Pos : Pt K → Prop) : Prop where
  add : ∀ u v : Pt K, Pos u → Pos v → Pos (u.1 + v.1, u.2 + v.2)
  smul : ∀ (t : K) (u : Pt K), 0 < t → Pos u → Pos (t * u.1, t * u.2)
  not_zero : ¬ Pos (0, 0)
  ang : ∀ u v w : Pt K, (u = (0, 0) ∨ Pos u) → Pos v → (w = (0, 0) ∨ Pos w) →
    0 ≤ cross u v → 0 ≤ cross v w → 0 ≤ cross u w

/-- lexicographically positive vectors -/
def LexPos (v : Pt K) : Prop := 0 < v.1 ∨ (v.1 = 0 ∧ 0 < v.2)

/-- lexicographically negative vectors -/
def LexNeg (v : Pt K) : Prop := v.1 < 0 ∨ (v.1 = 0 ∧ v.2 < 0)

theorem lexPos_fst {v : Pt K} (h : v = (0, 0) ∨ LexPos v) : 0 ≤ v.1 := by
  rcases h with rfl | h | h
  · exact le_rfl
  · exact le_of_lt h
  · exact le_of_eq h.1.symm

theorem cone_lexPos : Cone (LexPos (K := K)) where
  add u v hu hv := by
    unfold LexPos at *
    simp only
    rcases hu with hu | ⟨hu1, hu2⟩ <;> rcases hv with hv | ⟨hv1, hv2⟩
    · left; linarith
    · left; linarith
    · left; linarith
    · right; exact ⟨by linarith, by linarith⟩
  smul t u ht hu := by
    unfold LexPos at *
    simp only
    rcases hu with hu | ⟨hu1, hu2⟩
    · left; exact mul_pos ht hu
    · right; exact ⟨by rw [hu1, mul_zero], mul_pos ht hu2⟩
  not_zero := by
    unfold LexPos; simp
  ang u v w hu hv hw h1 h2 := by
    have hu1 := lexPos_fst hu
    have hw1 := lexPos_fst hw
    have key : cross u w * v.1 = cross u v * w.1 + cross v w * u.1 := by
      simp only [cross]; ring
    rcases hv with hv | ⟨hv1, hv2⟩
    · have : 0 ≤ cross u w * v.1 := by
        rw [key]; exact add_nonneg (mul_nonneg h1 hw1) (mul_nonneg h2 hu1)
      exact nonneg_of_mul_nonneg_left this hv
    · have hw0 : w.1 = 0 := by
        have : cross v w = - (v.2 * w.1) := by simp only [cross, hv1]; ring
        rw [this] at h2
        have : v.2 * w.1 ≤ 0 := by linarith
        have : w.1 ≤ 0 := by
          by_contra hc
          have := mul_pos hv2 (not_le.1 hc)
          linarith
        linarith
      have hw2 : 0 ≤ w.2 := by
        rcases hw with rfl | hw | hw
        · exact le_rfl
        · rw [hw0] at hw; exact absurd hw (lt_irrefl _)
        · exact le_of_lt hw.2
      have : cross u w = u.1 * w.2 := by simp only [cross, hw0]; ring
      rw [this]; exact mul_nonneg hu1 hw2

theorem lexNeg_iff (v : Pt K) : LexNeg v ↔ LexPos ((-v.1, -v.2) : Pt K) := by
  unfold LexNeg LexPos
  simp only [Left.neg_pos_iff, neg_eq_zero]

theorem cone_lexNeg : Cone (LexNeg (K := K)) where
  add u v hu hv := by
    rw [lexNeg_iff] at *
    have := cone_lexPos.add _ _ hu hv
    simp only at this ⊢
    rwa [← neg_add, ← neg_add] at this
  smul t u ht hu := by
    rw [lexNeg_iff] at *
    have := cone_lexPos.smul t _ ht hu
    simp only at this ⊢
    rwa [mul_neg, mul_neg] at this
  not_zero := by
    unfold LexNeg; simp
  ang u v w hu hv hw h1 h2 := by
    have hu' : ((-u.1, -u.2) : Pt K) = (0, 0) ∨ LexPos ((-u.1, -u.2) : Pt K) := by
      rcases hu with rfl | hu
      · left; simp
      · right; exact (lexNeg_iff u).1 hu
    have hw' : ((-w.1, -w.2) : Pt K) = (0, 0) ∨ LexPos ((-w.1, -w.2) : Pt K) := by
      rcases hw with rfl | hw
      · left; simp
      · right; exact (lexNeg_iff w).1 hw
    have := cone_lexPos.ang _ _ _ hu' ((lexNeg_iff v).1 hv) hw'
      (by simp only [cross]; simp only [cross] at h1; linarith)
      (by simp only [cross]; simp only [cross] at h2; linarith)
    simp only [cross] at this ⊢
    linarith

/-- the strict order induced by a cone -/
def Rel (Pos : Pt K → Prop) (a b : Pt K) : Prop := Pos (b.1 - a.1, b.2 - a.2)

theorem rel_lexPos (a b : Pt K) : Rel LexPos a b ↔ toLex a < toLex b := by
  unfold Rel LexPos
  rw [Prod.Lex.toLex_lt_toLex]
  simp only [sub_pos, sub_eq_zero]
  constructor
  · rintro (h | ⟨h1, h2⟩)
    · exact Or.inl h
    · exact Or.inr ⟨h1.symm, h2⟩
  · rintro (h | ⟨h1, h2⟩)
    · exact Or.inl h
    · exact Or.inr ⟨h1.symm, h2⟩

theorem rel_lexNeg (a b : Pt K) : Rel LexNeg a b ↔ Rel LexPos b a := by
  unfold Rel LexNeg LexPos
  simp only [sub_neg, sub_pos, sub_eq_zero]
  constructor
  · rintro (h | ⟨h1, h2⟩)
    · exact Or.inl h
    · exact Or.inr ⟨h1.symm, h2⟩
  · rintro (h | ⟨h1, h2⟩)
    · exact Or.inl h
    · exact Or.inr ⟨h1.symm, h2⟩

section ConeLemmas
variable {Pos : Pt K → Prop} (hC : Cone Pos)
include hC

theorem rel_trans {a b c : Pt K} (h1 : Rel Pos a b) (h2 : Rel Pos b c) : Rel Pos a c := by
  have := hC.add _ _ h1 h2
  unfold Rel
  simp only at this
  rwa [show b.1 - a.1 + (c.1 - b.1) = c.1 - a.1 by ring,
    show b.2 - a.2 + (c.2 - b.2) = c.2 - a.2 by ring] at this

theorem rel_irrefl (a : Pt K) : ¬ Rel Pos a a := by
  unfold Rel
  rw [sub_self, sub_self]
  exact hC.not_zero

theorem rel_asymm {a b : Pt K} (h1 : Rel Pos a b) (h2 : Rel Pos b a) : False :=
  rel_irrefl hC a (rel_trans hC h1 h2)

/-- `x = a` or `a` before `x`, as a statement on the difference vector -/
theorem vec_of_rle {a x : Pt K} (h : x = a ∨ Rel Pos a x) :
    ((x.1 - a.1, x.2 - a.2) : Pt K) = (0, 0) ∨ Pos (x.1 - a.1, x.2 - a.2) := by
  rcases h with rfl | h
  · left; simp
  · right; exact h

/-- (view from `a`) `b` is to the left of `a → p` and `x` to the left of `a → b`: `x` is to the left of `a → p` -/
theorem L1 {a b p x : Pt K} (hab : Rel Pos a b) (hax : x = a ∨ Rel Pos a x) (hap : Rel Pos a p)
    (h1 : crossProductCompare a b p ≤ 0) (h2 : 0 ≤ crossProductCompare a b x) :
    0 ≤ crossProductCompare a p x := by
  have := hC.ang (p.1 - a.1, p.2 - a.2) (b.1 - a.1, b.2 - a.2) (x.1 - a.1, x.2 - a.2)
    (Or.inr hap) hab (vec_of_rle hC hax)
    (by rw [cpc_def] at h1; simp only [cross]; linarith)
    (by rw [cpc_def] at h2; simp only [cross]; linarith)
  rw [cpc_def]; simp only [cross] at this; linarith

/-- (view from `p`) -/
theorem L2 {a b p x : Pt K} (hbp : Rel Pos b p) (hxp : x = p ∨ Rel Pos x p) (hap : Rel Pos a p)
    (h1 : 0 ≤ crossProductCompare b p x) (h2 : crossProductCompare a b p ≤ 0) :
    0 ≤ crossProductCompare a p x := by
  have hx : ((p.1 - x.1, p.2 - x.2) : Pt K) = (0, 0) ∨ Pos (p.1 - x.1, p.2 - x.2) := by
    rcases hxp with rfl | h
    · left; simp
    · right; exact h
  have := hC.ang (p.1 - x.1, p.2 - x.2) (p.1 - b.1, p.2 - b.2) (p.1 - a.1, p.2 - a.2)
    hx hbp (Or.inr hap)
    (by rw [cpc_def] at h1; simp only [cross]; linarith)
    (by rw [cpc_def] at h2; simp only [cross]; linarith)
  rw [cpc_def]; simp only [cross] at this; linarith

/-- (view from `b`) -/
theorem L3 {a b p x : Pt K} (hxb : x = b ∨ Rel Pos x b) (hab : Rel Pos a b) (hbp : Rel Pos b p)
    (h1 : 0 ≤ crossProductCompare a b x) (h2 : 0 ≤ crossProductCompare a b p) :
    0 ≤ crossProductCompare b p x := by
  have hx : ((b.1 - x.1, b.2 - x.2) : Pt K) = (0, 0) ∨ Pos (b.1 - x.1, b.2 - x.2) := by
    rcases hxb with rfl | h
    · left; simp
    · right; exact h
  have := hC.ang (b.1 - x.1, b.2 - x.2) (b.1 - a.1, b.2 - a.2) (p.1 - b.1, p.2 - b.2)
    hx hab (Or.inr hbp)
    (by rw [cpc_def] at h1; simp only [cross]; linarith)
    (by rw [cpc_def] at h2; simp only [cross]; linarith)
  rw [cpc_def]; simp only [cross] at this; linarith

/-- convexity propagates down the chain -/
theorem L4 {a b c p : Pt K} (hab : Rel Pos a b) (hbc : Rel Pos b c) (hbp : Rel Pos b p)
    (h1 : 0 ≤ crossProductCompare a b c) (h2 : 0 ≤ crossProductCompare b c p) :
    0 ≤ crossProductCompare a b p := by
  have := hC.ang (b.1 - a.1, b.2 - a.2) (c.1 - b.1, c.2 - b.2) (p.1 - b.1, p.2 - b.2)
    (Or.inr hab) hbc (Or.inr hbp)
    (by rw [cpc_def] at h1; simp only [cross]; linarith)
    (by rw [cpc_def] at h2; simp only [cross]; linarith)
  rw [cpc_def]; simp only [cross] at this; linarith

/-- a chain vertex `z` (with predecessor `e`) is on or to the right of the chord `a → b` -/
theorem L5 {a b e z : Pt K} (hez : Rel Pos e z) (hae : a = e ∨ Rel Pos a e)
    (hzb : b = z ∨ Rel Pos z b)
    (h1 : 0 ≤ crossProductCompare e z b) (h2 : 0 ≤ crossProductCompare e z a) :
    crossProductCompare a b z ≤ 0 := by
  have haz : Rel Pos a z := by
    rcases hae with rfl | h
    · exact hez
    · exact rel_trans hC h hez
  have := hC.ang (z.1 - a.1, z.2 - a.2) (z.1 - e.1, z.2 - e.2) (b.1 - z.1, b.2 - z.2)
    (Or.inr haz) hez (vec_of_rle hC hzb)
    (by rw [cpc_def] at h2; simp only [cross]; linarith)
    (by rw [cpc_def] at h1; simp only [cross]; linarith)
  rw [cpc_def]; simp only [cross] at this; linarith

/-- corner lemma: if the two edges `c → b` and `b → d` at `b` (both `c`, `d` before `b`) are collinear,
    a point on or to the left of both lies on their common line -/
theorem corner {c b d x : Pt K} (hcb : Rel Pos c b) (hdb : Rel Pos d b)
    (hcol : crossProductCompare c b d = 0)
    (h1 : 0 ≤ crossProductCompare c b x) (h2 : 0 ≤ crossProductCompare b d x) :
    crossProductCompare c b x = 0 := by
  by_contra hne
  have hpos : 0 < crossProductCompare c b x := lt_of_le_of_ne h1 (Ne.symm hne)
  have e1 : crossProductCompare b d x * (b.1 - c.1) + crossProductCompare c b x * (b.1 - d.1) = 0 := by
    rw [cpc_def] at hcol
    rw [cpc_def, cpc_def]
    linear_combination (-(x.1 - b.1)) * hcol
  have e2 : crossProductCompare b d x * (b.2 - c.2) + crossProductCompare c b x * (b.2 - d.2) = 0 := by
    rw [cpc_def] at hcol
    rw [cpc_def, cpc_def]
    linear_combination (-(x.2 - b.2)) * hcol
  have p1 := hC.smul _ _ hpos hdb
  simp only at p1
  rcases eq_or_lt_of_le h2 with h0 | h0
  · rw [← h0] at e1 e2
    rw [show crossProductCompare c b x * (b.1 - d.1) = 0 by linarith,
      show crossProductCompare c b x * (b.2 - d.2) = 0 by linarith] at p1
    exact hC.not_zero p1
  · have p2 := hC.smul _ _ h0 hcb
    have p3 := hC.add _ _ p2 p1
    simp only at p3
    rw [e1, e2] at p3
    exact hC.not_zero p3

end ConeLemmas

/-- three points on a common line through `c ≠ b` are collinear -/
theorem collinear_of_line {c b x y z : Pt K} (hcb : c ≠ b)
    (hx : crossProductCompare c b x = 0) (hy : crossProductCompare c b y = 0)
    (hz : crossProductCompare c b z = 0) : crossProductCompare x y z = 0 := by
  have hu : (b.1 - c.1) * (b.1 - c.1) + (b.2 - c.2) * (b.2 - c.2) ≠ 0 := by
    intro h0
    have h1 : (b.1 - c.1) * (b.1 - c.1) = 0 ∧ (b.2 - c.2) * (b.2 - c.2) = 0 :=
      (add_eq_zero_iff_of_nonneg (mul_self_nonneg _) (mul_self_nonneg _)).1 h0
    apply hcb
    exact Prod.ext (by have := mul_self_eq_zero.1 h1.1; linarith)
      (by have := mul_self_eq_zero.1 h1.2; linarith)
  have key : ((b.1 - c.1) * (b.1 - c.1) + (b.2 - c.2) * (b.2 - c.2)) * crossProductCompare x y z = 0 := by
    rw [cpc_def] at hx hy hz ⊢
    linear_combination
      ((y.1 - x.1) * (b.1 - c.1) + (y.2 - x.2) * (b.2 - c.2)) * (hz - hx)
      - ((z.1 - x.1) * (b.1 - c.1) + (z.2 - x.2) * (b.2 - c.2)) * (hy - hx)
  exact (mul_eq_zero.1 key).resolve_left hu

/-! ### the scan on points -/

/-- `chainPop` on points: the stack (top first) after the `while … pop()` loop for the new point `p` -/
def popP (p : Pt K) : List (Pt K) → List (Pt K)
  | b :: a :: rest => if 0 < crossProductCompare a b p then b :: a :: rest else popP p (a :: rest)
  | st => st

/-- the scan: every point is pushed after popping -/
def scanP (st : List (Pt K)) (l : List (Pt K)) : List (Pt K) :=
  l.foldl (fun st p => p :: popP p st) st

/-- consecutive triples of the stack (top first) make strict left turns (read from the bottom) -/
def Turns : List (Pt K) → Prop
  | c :: b :: a :: rest => 0 < crossProductCompare a b c ∧ Turns (b :: a :: rest)
  | _ => True

/-- `x` is on or to the left of every edge of the stack (top first; edges run from the bottom up) -/
def LeftOf (x : Pt K) : List (Pt K) → Prop
  | b :: a :: rest => 0 ≤ crossProductCompare a b x ∧ LeftOf x (a :: rest)
  | _ => True

/-- the stack is strictly decreasing from its top -/
def Desc (Pos : Pt K → Prop) (st : List (Pt K)) : Prop := st.Pairwise (fun hi lo => Rel Pos lo hi)

theorem popP_suffix (p : Pt K) : ∀ st : List (Pt K), popP p st <:+ st
  | [] => by simp [popP]
  | [a] => by simp [popP]
  | b :: a :: rest => by
    rw [popP]
    split_ifs with h
    · exact List.suffix_refl _
    · exact (popP_suffix p (a :: rest)).trans (List.suffix_cons _ _)

theorem popP_ne_nil (p : Pt K) : ∀ st : List (Pt K), st ≠ [] → popP p st ≠ []
  | [], h => absurd rfl h
  | [a], _ => by simp [popP]
  | b :: a :: rest, _ => by
    rw [popP]
    split_ifs with h
    · simp
    · exact popP_ne_nil p (a :: rest) (by simp)

theorem popP_getLast? (p : Pt K) : ∀ st : List (Pt K), (popP p st).getLast? = st.getLast?
  | [] => by simp [popP]
  | [a] => by simp [popP]
  | b :: a :: rest => by
    rw [popP]
    split_ifs with h
    · rfl
    · rw [popP_getLast? p (a :: rest), List.getLast?_cons_cons]

theorem turns_tail {c : Pt K} {st : List (Pt K)} (h : Turns (c :: st)) : Turns st := by
  match st, h with
  | [], _ => trivial
  | [b], _ => trivial
  | b :: a :: rest, h => exact h.2

theorem turns_suffix {st st' : List (Pt K)} (h : Turns st) (hs : st' <:+ st) : Turns st' := by
  obtain ⟨t, rfl⟩ := hs
  induction t with
  | nil => exact h
  | cons c t ih => exact ih (turns_tail h)

theorem leftOf_tail {x c : Pt K} {st : List (Pt K)} (h : LeftOf x (c :: st)) : LeftOf x st := by
  match st, h with
  | [], _ => trivial
  | a :: rest, h => exact h.2

theorem leftOf_suffix {x : Pt K} {st st' : List (Pt K)} (h : LeftOf x st) (hs : st' <:+ st) :
    LeftOf x st' := by
  obtain ⟨t, rfl⟩ := hs
  induction t with
  | nil => exact h
  | cons c t ih => exact ih (leftOf_tail h)

section Scan
variable {Pos : Pt K → Prop} (hC : Cone Pos)
include hC

/-- the pop loop: the property "every point seen that is not before the top `t` is on or to the left
    of `t → p`" is maintained, and at the end the top edge and `p` make a strict left turn -/
theorem popP_spec (done : List (Pt K)) (p : Pt K) (hp : ∀ x ∈ done, Rel Pos x p)
    (htri : ∀ x ∈ done, ∀ y ∈ done, x = y ∨ Rel Pos x y ∨ Rel Pos y x) :
    ∀ st : List (Pt K), Desc Pos st → (∀ x ∈ done, LeftOf x st) → (∀ y ∈ st, y ∈ done) →
      (∀ t rest, st = t :: rest → ∀ x ∈ done, (x = t ∨ Rel Pos t x) → 0 ≤ crossProductCompare t p x) →
      (∀ t rest, popP p st = t :: rest → ∀ x ∈ done, (x = t ∨ Rel Pos t x) →
        0 ≤ crossProductCompare t p x) ∧
      (∀ b a rest, popP p st = b :: a :: rest → 0 < crossProductCompare a b p)
  | [], _, _, _, hq => by simp [popP]
  | [a], _, _, _, hq => by
    refine ⟨?_, ?_⟩
    · intro t rest ht
      exact hq t rest (by simpa [popP] using ht)
    · intro b a' rest h
      simp [popP] at h
  | b :: a :: rest, hd, hl, hm, hq => by
    rw [popP]
    split_ifs with h
    · refine ⟨hq, ?_⟩
      intro b' a' rest' he
      simp only [List.cons.injEq] at he
      obtain ⟨rfl, rfl, _⟩ := he
      exact h
    · have hle : crossProductCompare a b p ≤ 0 := not_lt.1 h
      have hab : Rel Pos a b := (List.pairwise_cons.1 hd).1 a (by simp)
      have hbd : b ∈ done := hm b (by simp)
      have had : a ∈ done := hm a (by simp)
      apply popP_spec done p hp htri (a :: rest) (List.pairwise_cons.1 hd).2
        (fun x hx => leftOf_tail (hl x hx)) (fun y hy => hm y (List.mem_cons_of_mem _ hy))
      intro t rest' ht x hx hxt
      simp only [List.cons.injEq] at ht
      obtain ⟨rfl, _⟩ := ht
      rcases htri x hx b hbd with hxb | hxb | hxb
      · exact L1 hC hab hxt (hp _ had) hle (hl x hx).1
      · exact L1 hC hab hxt (hp _ had) hle (hl x hx).1
      · exact L2 hC (hp b hbd) (Or.inr (hp x hx)) (hp _ had)
          (hq b _ rfl x hx (Or.inr hxb)) hle

/-- the new point is on or to the left of every stack edge (convexity propagates down) -/
theorem leftOf_new (p : Pt K) : ∀ st : List (Pt K), Desc Pos st → Turns st →
    (∀ y ∈ st, Rel Pos y p) → (∀ b a rest, st = b :: a :: rest → 0 ≤ crossProductCompare a b p) →
    LeftOf p st
  | [], _, _, _, _ => trivial
  | [a], _, _, _, _ => trivial
  | [b, a], _, _, _, h => ⟨h b a [] rfl, trivial⟩
  | b :: a :: a' :: rest, hd, ht, hy, h => by
    refine ⟨h b a _ rfl, ?_⟩
    apply leftOf_new p (a :: a' :: rest) (List.pairwise_cons.1 hd).2 (turns_tail ht)
      (fun y hy' => hy y (List.mem_cons_of_mem _ hy'))
    intro b' a'' rest' he
    simp only [List.cons.injEq] at he
    obtain ⟨rfl, rfl, _⟩ := he
    have hd2 := (List.pairwise_cons.1 hd).2
    exact L4 hC ((List.pairwise_cons.1 hd2).1 _ (by simp)) ((List.pairwise_cons.1 hd).1 _ (by simp))
      (hy _ (by simp)) (le_of_lt ht.1) (h b _ _ rfl)

/-- loop invariant of the scan: `done` = the points seen so far (first one `q0`), `st` = the stack -/
structure ScanInv (Pos : Pt K → Prop) (q0 : Pt K) (done st : List (Pt K)) : Prop where
  desc : Desc Pos st
  turns : Turns st
  left : ∀ x ∈ done, LeftOf x st
  sub : ∀ y ∈ st, y ∈ done
  bottom : st.getLast? = some q0
  top : ∃ t rest, st = t :: rest ∧ ∀ x ∈ done, x = t ∨ Rel Pos x t
  q0mem : q0 ∈ done
  min : ∀ x ∈ done, x = q0 ∨ Rel Pos q0 x
  tri : ∀ x ∈ done, ∀ y ∈ done, x = y ∨ Rel Pos x y ∨ Rel Pos y x

theorem scanInv_init (q0 : Pt K) : ScanInv Pos q0 [q0] [q0] where
  desc := by simp [Desc]
  turns := trivial
  left := fun _ _ => trivial
  sub := fun y hy => hy
  bottom := rfl
  top := ⟨q0, [], rfl, fun x hx => Or.inl (by simpa using hx)⟩
  q0mem := by simp
  min := fun x hx => Or.inl (by simpa using hx)
  tri := fun x hx y hy => Or.inl (by simp at hx hy; rw [hx, hy])

theorem scanInv_step (q0 p : Pt K) (done st : List (Pt K)) (inv : ScanInv Pos q0 done st)
    (hp : ∀ x ∈ done, Rel Pos x p) : ScanInv Pos q0 (done ++ [p]) (p :: popP p st) := by
  obtain ⟨t, rest0, hst, htop⟩ := inv.top
  have hq : ∀ t' rest, st = t' :: rest → ∀ x ∈ done, (x = t' ∨ Rel Pos t' x) →
      0 ≤ crossProductCompare t' p x := by
    intro t' rest he x hx hxt
    rw [hst] at he
    simp only [List.cons.injEq] at he
    obtain ⟨rfl, _⟩ := he
    rcases hxt with rfl | hxt
    · rw [cpc_self_right]
    · rcases htop x hx with rfl | h2
      · exact absurd hxt (rel_irrefl hC _)
      · exact (rel_asymm hC hxt h2).elim
  obtain ⟨hQ, hturn⟩ := popP_spec hC done p hp inv.tri st inv.desc inv.left inv.sub hq
  have hsuf := popP_suffix p st
  have hne := popP_ne_nil p st (by rw [hst]; simp)
  have hlast := popP_getLast? p st
  rw [inv.bottom] at hlast
  have hdesc' : Desc Pos (popP p st) := List.Pairwise.sublist hsuf.sublist inv.desc
  have hturns' : Turns (popP p st) := turns_suffix inv.turns hsuf
  have hsub' : ∀ y ∈ popP p st, y ∈ done := fun y hy => inv.sub y (hsuf.subset hy)
  generalize popP p st = st' at *
  match st', hne with
  | b :: r, _ =>
    have hbd : b ∈ done := hsub' b (by simp)
    refine ⟨?_, ?_, ?_, ?_, ?_, ?_, ?_, ?_, ?_⟩
    · exact List.pairwise_cons.2 ⟨fun y hy => hp y (hsub' y hy), hdesc'⟩
    · match r, hturn with
      | [], _ => trivial
      | a :: rest, hturn => exact ⟨hturn b a rest rfl, hturns'⟩
    · intro x hx
      rcases List.mem_append.1 hx with hx | hx
      · refine ⟨?_, leftOf_suffix (inv.left x hx) hsuf⟩
        rcases inv.tri x hx b hbd with hxb | hxb | hxb
        · rw [hxb, cpc_self_right]
        · match r, hturn, hlast, hdesc' with
          | [], _, hlast, _ =>
            simp only [List.getLast?_singleton, Option.some.injEq] at hlast
            subst hlast
            rcases inv.min x hx with rfl | h2
            · exact absurd hxb (rel_irrefl hC _)
            · exact (rel_asymm hC hxb h2).elim
          | a :: rest, hturn, _, hdesc' =>
            exact L3 hC (Or.inr hxb) ((List.pairwise_cons.1 hdesc').1 a (by simp)) (hp b hbd)
              (leftOf_suffix (inv.left x hx) hsuf).1 (le_of_lt (hturn b a rest rfl))
        · exact hQ b r rfl x hx (Or.inr hxb)
      · simp only [List.mem_singleton] at hx
        subst hx
        refine ⟨by rw [cpc_self_mid], ?_⟩
        exact leftOf_new hC x (b :: r) hdesc' hturns' (fun y hy => hp y (hsub' y hy))
          (fun b' a' rest' he => le_of_lt (hturn b' a' rest' he))
    · intro y hy
      rcases List.mem_cons.1 hy with rfl | hy
      · simp
      · exact List.mem_append_left _ (hsub' y hy)
    · rw [List.getLast?_cons_cons]; exact hlast
    · refine ⟨p, b :: r, rfl, ?_⟩
      intro x hx
      rcases List.mem_append.1 hx with hx | hx
      · exact Or.inr (hp x hx)
      · exact Or.inl (by simpa using hx)
    · exact List.mem_append_left _ inv.q0mem
    · intro x hx
      rcases List.mem_append.1 hx with hx | hx
      · exact inv.min x hx
      · simp only [List.mem_singleton] at hx
        subst hx
        exact Or.inr (hp q0 inv.q0mem)
    · intro x hx y hy
      rcases List.mem_append.1 hx with hx' | hx' <;> rcases List.mem_append.1 hy with hy' | hy'
      · exact inv.tri x hx' y hy'
      · simp only [List.mem_singleton] at hy'
        rw [hy']
        exact Or.inr (Or.inl (hp x hx'))
      · simp only [List.mem_singleton] at hx'
        rw [hx']
        exact Or.inr (Or.inr (hp y hy'))
      · simp only [List.mem_singleton] at hx' hy'
        exact Or.inl (hx'.trans hy'.symm)

theorem scanInv_fold (q0 : Pt K) : ∀ (rest done st : List (Pt K)), ScanInv Pos q0 done st →
    (done ++ rest).Pairwise (Rel Pos) → ScanInv Pos q0 (done ++ rest) (scanP st rest)
  | [], done, st, inv, _ => by simpa [scanP] using inv
  | p :: rest, done, st, inv, hpw => by
    have hp : ∀ x ∈ done, Rel Pos x p := by
      intro x hx
      exact (List.pairwise_append.1 hpw).2.2 x hx p (by simp)
    have := scanInv_fold q0 rest (done ++ [p]) (p :: popP p st) (scanInv_step hC q0 p done st inv hp)
      (by simpa using hpw)
    simpa [scanP] using this

/-- the scan of a strictly increasing list `q0 :: rest` -/
theorem scanInv_scan (q0 : Pt K) (rest : List (Pt K)) (h : (q0 :: rest).Pairwise (Rel Pos)) :
    ScanInv Pos q0 (q0 :: rest) (scanP [q0] rest) :=
  scanInv_fold hC q0 rest [q0] [q0] (scanInv_init hC q0) h

end Scan

/-! ### from the index stacks of `hullChain` to the scan on points -/

section Bridge

theorem chainPop_map (pts : List (Pt K)) (p : Pt K) : ∀ st : List ℕ,
    (chainPop pts p st).map (getP pts) = popP p (st.map (getP pts))
  | [] => rfl
  | [a] => rfl
  | i1 :: i0 :: rest => by
    rw [chainPop]
    simp only [List.map_cons]
    rw [popP]
    split_ifs with h
    · rfl
    · have := chainPop_map pts p (i0 :: rest)
      simpa using this

theorem foldl_chain_map (pts : List (Pt K)) : ∀ (l st : List ℕ),
    (l.foldl (fun st index => index :: chainPop pts (getP pts index) st) st).map (getP pts)
      = scanP (st.map (getP pts)) (l.map (getP pts))
  | [], st => rfl
  | i :: l, st => by
    rw [List.foldl_cons, foldl_chain_map pts l]
    simp only [List.map_cons, scanP, List.foldl_cons, chainPop_map]

theorem map_getP_range' (pts : List (Pt K)) (s k : ℕ) (h : s + k ≤ pts.length) :
    (List.range' s k).map (getP pts) = (pts.drop s).take k := by
  apply List.ext_getElem
  · simp only [List.length_map, List.length_range', List.length_take, List.length_drop]; omega
  · intro i h1 h2
    simp only [List.length_map, List.length_range'] at h1
    simp only [List.getElem_map, List.getElem_range', List.getElem_take, List.getElem_drop, one_mul]
    exact getP_eq_getElem pts (s + i) (by omega)

theorem scanP_append (st l : List (Pt K)) (p : Pt K) :
    scanP st (l ++ [p]) = p :: popP p (scanP st l) := by
  simp [scanP, List.foldl_append]

/-- the `lower` stack of `hullChain`, as points -/
theorem lower_map (pts : List (Pt K)) (hn : 2 ≤ pts.length) :
    ((List.range' 2 (pts.length - 2)).foldl
      (fun st index => index :: chainPop pts (getP pts index) st) [1, 0]).map (getP pts)
      = scanP [getP pts 0] (pts.drop 1) := by
  rw [foldl_chain_map, map_getP_range' pts 2 _ (by omega),
    List.take_of_length_le (by simp only [List.length_drop]; omega)]
  have h1 : pts.drop 1 = getP pts 1 :: pts.drop 2 := by
    rw [getP_eq_getElem pts 1 (by omega)]
    exact List.drop_eq_getElem_cons (by omega)
  rw [h1]
  simp [scanP, popP]

end Bridge

/-! ### the two chains of `hullChain` as scans -/

section Chains

theorem foldl_skip {α β : Type} (c : β → Bool) (f : α → β → α) : ∀ (l : List β) (st : α),
    l.foldl (fun st i => if c i then st else f st i) st = (l.filter (fun i => !c i)).foldl f st
  | [], st => rfl
  | i :: l, st => by
    rw [List.foldl_cons, List.filter_cons]
    cases hc : c i
    · simp only [Bool.false_eq_true, if_false, Bool.not_false, if_true, List.foldl_cons]
      exact foldl_skip c f l _
    · simp only [if_true, Bool.not_true, Bool.false_eq_true, if_false]
      exact foldl_skip c f l _

/-- the `lower` index stack (top first) of `hullChain` -/
def lowerIdxRev (pts : List (Pt K)) : List ℕ :=
  (List.range' 2 (pts.length - 2)).foldl
    (fun st index => index :: chainPop pts (getP pts index) st) [1, 0]

/-- the `lower` stack as points -/
def Lst (pts : List (Pt K)) : List (Pt K) := scanP [getP pts 0] (pts.drop 1)

/-- the indices visited (not skipped) by the `upper` loop -/
def keepIdx (pts : List (Pt K)) (i : ℕ) : Bool := !(decide (0 < i) && decide (i ∈ lowerIdxRev pts))

/-- the points visited by the `upper` loop, in the order of the loop -/
def Fpts (pts : List (Pt K)) : List (Pt K) :=
  (((List.range (pts.length - 1)).reverse).filter (keepIdx pts)).map (getP pts)

/-- the `upper` stack as points -/
def Ust (pts : List (Pt K)) : List (Pt K) := scanP [getP pts (pts.length - 1)] (Fpts pts)

theorem lowerIdxRev_map (pts : List (Pt K)) (hn : 2 ≤ pts.length) :
    (lowerIdxRev pts).map (getP pts) = Lst pts := lower_map pts hn

theorem lowerIdxRev_lt (pts : List (Pt K)) (hn : 2 ≤ pts.length) :
    ∀ j ∈ lowerIdxRev pts, j < pts.length := by
  unfold lowerIdxRev
  apply foldl_inv (fun st : List ℕ => ∀ j ∈ st, j < pts.length)
  · intro j hj
    simp only [List.mem_cons, List.not_mem_nil, or_false] at hj
    omega
  · intro st b hb hst j hj
    rcases List.mem_cons.1 hj with rfl | hj
    · have := List.mem_range'_1.1 hb; omega
    · exact hst j (mem_chainPop _ _ _ _ hj)

theorem py_inSorted_lower (pts : List (Pt K)) (i : ℕ) :
    Py.inSorted (lowerIdxRev pts).reverse i = decide (i ∈ lowerIdxRev pts) := by
  have hs : ((lowerIdxRev pts).reverse).Pairwise (· < ·) := by
    rw [List.pairwise_reverse]
    exact lowerRev_sorted pts _ 2 [1, 0] (by simp) (by simp)
  rw [Bool.eq_iff_iff, py_inSorted_iff _ (monoL_of_pairwise _ hs)]
  simp

/-- `hullChain` is `lower[:-1] ++ upper[:-1]` of the two point scans -/
theorem hullChain_eq (pts : List (Pt K)) (hn : 2 ≤ pts.length) :
    hullChain Py.inSorted pts = (Lst pts).reverse.dropLast ++ (Ust pts).reverse.dropLast := by
  unfold hullChain
  simp only
  rw [List.map_append, List.map_dropLast, List.map_dropLast, List.map_reverse, List.map_reverse]
  have h1 := lowerIdxRev_map pts hn
  unfold lowerIdxRev at h1
  rw [h1]
  congr 3
  have h2 : ∀ index, (decide (0 < index) && Py.inSorted
      ((List.range' 2 (pts.length - 2)).foldl
        (fun st index => index :: chainPop pts (getP pts index) st) [1, 0]).reverse index)
      = !(keepIdx pts index) := by
    intro index
    have := py_inSorted_lower pts index
    unfold lowerIdxRev at this
    rw [this]
    simp only [keepIdx, lowerIdxRev, Bool.not_not]
    congr
  simp only [h2]
  rw [foldl_skip (fun i => !(keepIdx pts i)), foldl_chain_map]
  simp only [Bool.not_not, List.map_cons, List.map_nil]
  rfl

end Chains

/-! ### the interior vertices of the lower chain are below the chord, hence inside the upper chain -/

section Chord

theorem lexPos_le {a x : Pt K} (h : x = a ∨ Rel LexPos a x) :
    a.1 ≤ x.1 ∧ (a.1 = x.1 → a.2 ≤ x.2) := by
  rcases h with rfl | h | h
  · exact ⟨le_rfl, fun _ => le_rfl⟩
  · simp only [sub_pos] at h
    exact ⟨le_of_lt h, fun he => absurd he (ne_of_lt h)⟩
  · simp only [sub_pos, sub_eq_zero] at h
    exact ⟨le_of_eq h.1.symm, fun _ => le_of_lt h.2⟩

/-- a point lexicographically between `a` and `b` and on or to the right of `a → b` is on or to the
    left of every leftward edge `c → d` that has `a` and `b` on its left -/
theorem below_chord {a b x c d : Pt K} (hax : x = a ∨ Rel LexPos a x) (hxb : b = x ∨ Rel LexPos x b)
    (hx : crossProductCompare a b x ≤ 0) (hdc : d.1 ≤ c.1)
    (ha : 0 ≤ crossProductCompare c d a) (hb : 0 ≤ crossProductCompare c d b) :
    0 ≤ crossProductCompare c d x := by
  obtain ⟨h1, h1'⟩ := lexPos_le hax
  obtain ⟨h2, h2'⟩ := lexPos_le hxb
  have key : (b.1 - a.1) * crossProductCompare c d x
      = (b.1 - x.1) * crossProductCompare c d a + (x.1 - a.1) * crossProductCompare c d b
        + (c.1 - d.1) * (- crossProductCompare a b x) := by
    simp only [cpc_def]; ring
  rcases lt_or_eq_of_le (le_trans h1 h2) with hD | hD
  · have : 0 ≤ (b.1 - a.1) * crossProductCompare c d x := by
      rw [key]
      exact add_nonneg (add_nonneg (mul_nonneg (by linarith) ha) (mul_nonneg (by linarith) hb))
        (mul_nonneg (by linarith) (by linarith))
    exact nonneg_of_mul_nonneg_right this (by linarith)
  · have e1 : a.1 = x.1 := le_antisymm h1 (by linarith)
    have e2 : x.1 = b.1 := le_antisymm h2 (by linarith)
    have g1 := h1' e1
    have g2 := h2' e2
    have key2 : (b.2 - a.2) * crossProductCompare c d x
        = (b.2 - x.2) * crossProductCompare c d a + (x.2 - a.2) * crossProductCompare c d b := by
      simp only [cpc_def, ← e2, ← e1]; ring
    rcases lt_or_eq_of_le (le_trans g1 g2) with hE | hE
    · have : 0 ≤ (b.2 - a.2) * crossProductCompare c d x := by
        rw [key2]
        exact add_nonneg (mul_nonneg (by linarith) ha) (mul_nonneg (by linarith) hb)
      exact nonneg_of_mul_nonneg_right this (by linarith)
    · have : x = a := Prod.ext e1.symm (le_antisymm (by linarith) g1)
      rw [this]; exact ha

variable {Pos : Pt K → Prop} (hC : Cone Pos)
include hC

/-- every vertex of a chain from `a` (bottom) is on or to the right of the chord `a → b`, if `a` and
    `b` are on or to the left of every chain edge -/
theorem chord_of_stack (a b : Pt K) : ∀ st : List (Pt K), Desc Pos st → st.getLast? = some a →
    LeftOf a st → LeftOf b st → (∀ y ∈ st, b = y ∨ Rel Pos y b) →
    ∀ x ∈ st, crossProductCompare a b x ≤ 0
  | [], _, _, _, _, _ => by simp
  | [y], _, hl, _, _, _ => by
    intro x hx
    simp only [List.getLast?_singleton, Option.some.injEq] at hl
    simp only [List.mem_singleton] at hx
    rw [hx, hl, cpc_self_right]
  | z :: e :: rest, hd, hl, hla, hlb, hb => by
    intro x hx
    rw [List.getLast?_cons_cons] at hl
    rcases List.mem_cons.1 hx with rfl | hx
    · have hae : a = e ∨ Rel Pos a e := by
        have hmem : a ∈ e :: rest := List.mem_of_getLast? hl
        rcases List.mem_cons.1 hmem with h | h
        · exact Or.inl h
        · exact Or.inr ((List.pairwise_cons.1 (List.pairwise_cons.1 hd).2).1 a h)
      exact L5 hC ((List.pairwise_cons.1 hd).1 e (by simp)) hae (hb x (by simp)) hlb.1 hla.1
    · exact chord_of_stack a b (e :: rest) (List.pairwise_cons.1 hd).2 hl (leftOf_tail hla)
        (leftOf_tail hlb) (fun y hy => hb y (List.mem_cons_of_mem _ hy)) x hx

end Chord

/-- … hence on or to the left of every edge of a leftward chain that has `a` and `b` on its left -/
theorem leftOf_of_chord {a b x : Pt K} (hax : x = a ∨ Rel LexPos a x) (hxb : b = x ∨ Rel LexPos x b)
    (hx : crossProductCompare a b x ≤ 0) : ∀ st : List (Pt K), Desc LexNeg st →
    LeftOf a st → LeftOf b st → LeftOf x st
  | [], _, _, _ => trivial
  | [y], _, _, _ => trivial
  | d :: c :: rest, hd, ha, hb => by
    refine ⟨?_, leftOf_of_chord hax hxb hx (c :: rest) (List.pairwise_cons.1 hd).2
      (leftOf_tail ha) (leftOf_tail hb)⟩
    have hcd : Rel LexNeg c d := (List.pairwise_cons.1 hd).1 c (by simp)
    have hdc : d.1 ≤ c.1 := by
      rcases hcd with h | h
      · simp only [sub_neg] at h; exact le_of_lt h
      · simp only [sub_eq_zero] at h; exact le_of_eq h.1
    exact below_chord hax hxb hx hdc ha.1 hb.1

/-! ### the two scans of a lexicographically sorted list -/

section Main
variable (pts : List (Pt K)) (hs : pts.Pairwise (Rel LexPos)) (hn : 2 ≤ pts.length)

theorem pts_nodup (hs : pts.Pairwise (Rel LexPos)) : pts.Nodup := by
  unfold List.Nodup
  refine hs.imp ?_
  intro a b h he
  subst he
  exact rel_irrefl cone_lexPos a h

theorem map_getP_range : (List.range pts.length).map (getP pts) = pts := by
  rw [List.range_eq_range', map_getP_range' pts 0 _ (by omega)]
  simp

include hs hn

theorem lst_inv : ScanInv LexPos (getP pts 0) pts (Lst pts) := by
  have h0 : pts = getP pts 0 :: pts.drop 1 := by
    rw [getP_eq_getElem pts 0 (by omega)]
    simpa using (List.drop_eq_getElem_cons (l := pts) (i := 0) (by omega))
  have := scanInv_scan cone_lexPos (getP pts 0) (pts.drop 1) (by rw [← h0]; exact hs)
  rw [← h0] at this
  exact this

theorem fpts_pairwise : (getP pts (pts.length - 1) :: Fpts pts).Pairwise (Rel LexNeg) := by
  have hsub : List.Sublist (getP pts (pts.length - 1) :: Fpts pts) pts.reverse := by
    have h1 : List.Sublist ((pts.length - 1) :: ((List.range (pts.length - 1)).reverse.filter (keepIdx pts)))
        (List.range pts.length).reverse := by
      have : List.range pts.length = List.range (pts.length - 1) ++ [pts.length - 1] := by
        conv_lhs => rw [show pts.length = (pts.length - 1) + 1 by omega]
        rw [List.range_succ]
      rw [this, List.reverse_append, List.reverse_singleton, List.singleton_append]
      exact List.cons_sublist_cons.2 List.filter_sublist
    have h2 := h1.map (getP pts)
    rwa [List.map_reverse, map_getP_range, List.map_cons] at h2
  refine List.Pairwise.sublist hsub ?_
  rw [List.pairwise_reverse]
  exact hs.imp (fun {a b} h => (rel_lexNeg b a).2 h)

theorem ust_inv : ScanInv LexNeg (getP pts (pts.length - 1)) (getP pts (pts.length - 1) :: Fpts pts)
    (Ust pts) :=
  scanInv_scan cone_lexNeg _ _ (fpts_pairwise pts hs hn)

theorem fpts_last : ∃ F', Fpts pts = F' ++ [getP pts 0] := by
  unfold Fpts
  have : List.range (pts.length - 1) = 0 :: List.range' 1 (pts.length - 2) := by
    rw [List.range_eq_range', show pts.length - 1 = (pts.length - 2) + 1 by omega, List.range'_succ]
  rw [this, List.reverse_cons, List.filter_append, List.map_append]
  refine ⟨List.map (getP pts) (List.filter (keepIdx pts) (List.range' 1 (pts.length - 2)).reverse), ?_⟩
  simp [keepIdx]

theorem pts_last : ∃ mid, pts.drop 1 = mid ++ [getP pts (pts.length - 1)] := by
  have hne : pts.drop 1 ≠ [] := by
    apply List.ne_nil_of_length_pos
    simp only [List.length_drop]; omega
  refine ⟨(pts.drop 1).dropLast, ?_⟩
  have h1 : (pts.drop 1).getLast hne = getP pts (pts.length - 1) := by
    rw [List.getLast_eq_getElem, List.getElem_drop, getP_eq_getElem pts _ (by omega)]
    congr 1
    simp only [List.length_drop]; omega
  rw [← h1, List.dropLast_append_getLast]

theorem lst_head : ∃ LT, Lst pts = getP pts (pts.length - 1) :: LT := by
  obtain ⟨mid, hmid⟩ := pts_last pts hs hn
  exact ⟨_, by rw [Lst, hmid, scanP_append]⟩

theorem ust_head : ∃ UT, Ust pts = getP pts 0 :: UT := by
  obtain ⟨F', hF⟩ := fpts_last pts hs hn
  exact ⟨_, by rw [Ust, hF, scanP_append]⟩

/-- every point is visited by the upper loop or is an interior vertex of the lower chain -/
theorem cover : ∀ x ∈ pts, x ∈ getP pts (pts.length - 1) :: Fpts pts ∨
    (x ∈ Lst pts ∧ x ≠ getP pts 0 ∧ x ≠ getP pts (pts.length - 1)) := by
  intro x hx
  obtain ⟨i, hi, rfl⟩ := List.mem_iff_getElem.1 hx
  rw [← getP_eq_getElem pts i hi]
  have hnd := pts_nodup pts hs
  by_cases h1 : i = pts.length - 1
  · left; rw [h1]; simp
  by_cases hk : keepIdx pts i = true
  · left
    refine List.mem_cons_of_mem _ (List.mem_map.2 ⟨i, List.mem_filter.2 ⟨?_, hk⟩, rfl⟩)
    exact List.mem_reverse.2 (List.mem_range.2 (by omega))
  · right
    simp only [keepIdx, Bool.not_eq_true', Bool.not_eq_false, Bool.and_eq_true, decide_eq_true_eq]
      at hk
    refine ⟨?_, ?_, ?_⟩
    · rw [← lowerIdxRev_map pts hn]
      exact List.mem_map.2 ⟨i, hk.2, rfl⟩
    · intro he
      have := getP_inj pts hnd i 0 hi (by omega) he
      omega
    · intro he
      have := getP_inj pts hnd i (pts.length - 1) hi (by omega) he
      omega

/-- a point visited by the upper loop is the first point or not a vertex of the lower chain -/
theorem fpts_notin : ∀ y ∈ Fpts pts, y = getP pts 0 ∨ y ∉ Lst pts := by
  intro y hy
  have hnd := pts_nodup pts hs
  obtain ⟨i, hi, rfl⟩ := List.mem_map.1 hy
  obtain ⟨hir, hk⟩ := List.mem_filter.1 hi
  have hilt : i < pts.length - 1 := List.mem_range.1 (List.mem_reverse.1 hir)
  by_cases h0 : i = 0
  · left; rw [h0]
  · right
    intro hmem
    rw [← lowerIdxRev_map pts hn] at hmem
    obtain ⟨j, hj, hje⟩ := List.mem_map.1 hmem
    have hjl := lowerIdxRev_lt pts hn j hj
    have := getP_inj pts hnd j i hjl (by omega) hje
    subst this
    simp only [keepIdx, Bool.not_eq_true', Bool.and_eq_false_iff, decide_eq_false_iff_not] at hk
    rcases hk with hk | hk
    · omega
    · exact hk hj

end Main

/-! ### index forms and the closed polygon -/

section Assemble

theorem getP_append_left (A B : List (Pt K)) (k : ℕ) (h : k < A.length) :
    getP (A ++ B) k = getP A k := by
  simp [getP, List.getD_eq_getElem?_getD, List.getElem?_append_left h]

theorem getP_append_right (A B : List (Pt K)) (k : ℕ) (h : A.length ≤ k) :
    getP (A ++ B) k = getP B (k - A.length) := by
  simp [getP, List.getD_eq_getElem?_getD, List.getElem?_append_right h]

theorem getP_reverse (l : List (Pt K)) (k : ℕ) (h : k < l.length) :
    getP l.reverse k = getP l (l.length - 1 - k) := by
  rw [getP_eq_getElem _ _ (by simpa using h), getP_eq_getElem _ _ (by omega), List.getElem_reverse]

/-- `x` is on or to the left of every edge of the (forward) chain -/
def EdgesOK (x : Pt K) (l : List (Pt K)) : Prop :=
  ∀ k, k + 1 < l.length → 0 ≤ crossProductCompare (getP l k) (getP l (k + 1)) x

/-- consecutive triples of the (forward) chain make strict left turns -/
def TurnsOK (l : List (Pt K)) : Prop :=
  ∀ k, k + 2 < l.length → 0 < crossProductCompare (getP l k) (getP l (k + 1)) (getP l (k + 2))

theorem leftOf_idx {x : Pt K} : ∀ st : List (Pt K), LeftOf x st → ∀ k, k + 1 < st.length →
    0 ≤ crossProductCompare (getP st (k + 1)) (getP st k) x
  | [], _, k, hk => by simp at hk
  | [a], _, k, hk => by simp at hk
  | b :: a :: rest, h, 0, _ => h.1
  | b :: a :: rest, h, k + 1, hk => by
    have := leftOf_idx (a :: rest) h.2 k (by simpa using hk)
    simpa [getP] using this

theorem turns_idx : ∀ st : List (Pt K), Turns st → ∀ k, k + 2 < st.length →
    0 < crossProductCompare (getP st (k + 2)) (getP st (k + 1)) (getP st k)
  | [], _, k, hk => by simp at hk
  | [a], _, k, hk => by simp at hk
  | [b, a], _, k, hk => by simp at hk
  | c :: b :: a :: rest, h, 0, _ => h.1
  | c :: b :: a :: rest, h, k + 1, hk => by
    have := turns_idx (b :: a :: rest) h.2 k (by simpa using hk)
    simpa [getP] using this

theorem edgesOK_reverse {x : Pt K} {st : List (Pt K)} (h : LeftOf x st) : EdgesOK x st.reverse := by
  intro k hk
  simp only [List.length_reverse] at hk
  rw [getP_reverse _ _ (by omega), getP_reverse _ _ (by omega)]
  have := leftOf_idx st h (st.length - 1 - (k + 1)) (by omega)
  rwa [show st.length - 1 - (k + 1) + 1 = st.length - 1 - k by omega] at this

theorem turnsOK_reverse {st : List (Pt K)} (h : Turns st) : TurnsOK st.reverse := by
  intro k hk
  simp only [List.length_reverse] at hk
  rw [getP_reverse _ _ (by omega), getP_reverse _ _ (by omega), getP_reverse _ _ (by omega)]
  have := turns_idx st h (st.length - 1 - (k + 2)) (by omega)
  rwa [show st.length - 1 - (k + 2) + 2 = st.length - 1 - k by omega,
    show st.length - 1 - (k + 2) + 1 = st.length - 1 - (k + 1) by omega] at this

/-- read-out of the closed polygon `a :: LM ++ b :: UM` through the two chains
    `L = a :: LM ++ [b]`, `U = b :: UM ++ [a]` (form used at and after a chain start) -/
theorem getP_cycle_lo (a b : Pt K) (LM UM : List (Pt K)) (j : ℕ)
    (hj : j ≤ LM.length + UM.length + 2) :
    getP ((a :: LM) ++ (b :: UM)) (j % (LM.length + UM.length + 2)) =
      if j < LM.length + 1 then getP ((a :: LM) ++ [b]) j
      else getP ((b :: UM) ++ [a]) (j - (LM.length + 1)) := by
  by_cases h1 : j < LM.length + 1
  · rw [if_pos h1, Nat.mod_eq_of_lt (by omega), getP_append_left _ _ _ (by simpa using h1),
      getP_append_left _ _ _ (by simpa using h1)]
  rw [if_neg h1]
  by_cases h2 : j < LM.length + UM.length + 2
  · rw [Nat.mod_eq_of_lt h2, getP_append_right _ _ _ (by simp; omega),
      getP_append_left _ _ _ (by simp; omega)]
    simp
  · have : j = LM.length + UM.length + 2 := by omega
    subst this
    have hl : getP ((a :: LM) ++ (b :: UM)) 0 = a := by simp [getP]
    rw [Nat.mod_self, hl, getP_append_right (b :: UM) [a] _ (by simp; omega)]
    have : LM.length + UM.length + 2 - (LM.length + 1) - (b :: UM).length = 0 := by simp; omega
    rw [this]
    simp [getP]

/-- the same, form used up to and at a chain end, and one step beyond the polygon -/
theorem getP_cycle_hi (a b : Pt K) (LM UM : List (Pt K)) (j : ℕ)
    (hj : j ≤ LM.length + UM.length + 3) :
    getP ((a :: LM) ++ (b :: UM)) (j % (LM.length + UM.length + 2)) =
      if j ≤ LM.length + 1 then getP ((a :: LM) ++ [b]) j
      else if j ≤ LM.length + UM.length + 2 then getP ((b :: UM) ++ [a]) (j - (LM.length + 1))
      else getP ((a :: LM) ++ [b]) 1 := by
  by_cases h1 : j ≤ LM.length + 1
  · rw [if_pos h1]
    rcases Nat.lt_or_eq_of_le h1 with h1' | h1'
    · rw [getP_cycle_lo a b LM UM j (by omega), if_pos h1']
    · subst h1'
      have hb : getP ((a :: LM) ++ [b]) (LM.length + 1) = b := by
        rw [getP_append_right _ _ _ (by simp)]; simp [getP]
      rw [getP_cycle_lo a b LM UM _ (by omega), if_neg (by omega), hb, Nat.sub_self]
      simp [getP]
  rw [if_neg h1]
  by_cases h2 : j ≤ LM.length + UM.length + 2
  · rw [if_pos h2, getP_cycle_lo a b LM UM j h2, if_neg (by omega)]
  · rw [if_neg h2]
    have : j = (LM.length + UM.length + 2) + 1 := by omega
    subst this
    rw [Nat.add_mod_left, Nat.mod_eq_of_lt (by omega)]
    cases LM with
    | nil => simp [getP]
    | cons c r => simp [getP]

/-- the cyclic edges of the polygon are the edges of the two chains -/
theorem assemble_edges (a b x : Pt K) (LM UM : List (Pt K))
    (hL : EdgesOK x ((a :: LM) ++ [b])) (hU : EdgesOK x ((b :: UM) ++ [a])) :
    ∀ i, i < ((a :: LM) ++ (b :: UM)).length →
      0 ≤ crossProductCompare (getP ((a :: LM) ++ (b :: UM)) i)
        (getP ((a :: LM) ++ (b :: UM)) ((i + 1) % ((a :: LM) ++ (b :: UM)).length)) x := by
  intro i hi
  have hlen : ((a :: LM) ++ (b :: UM)).length = LM.length + UM.length + 2 := by
    simp only [List.length_append, List.length_cons]; omega
  rw [hlen] at hi ⊢
  have e0 : getP ((a :: LM) ++ (b :: UM)) i
      = getP ((a :: LM) ++ (b :: UM)) (i % (LM.length + UM.length + 2)) := by
    rw [Nat.mod_eq_of_lt hi]
  by_cases h1 : i + 1 ≤ LM.length + 1
  · rw [e0, getP_cycle_hi a b LM UM i (by omega), getP_cycle_hi a b LM UM (i + 1) (by omega),
      if_pos (by omega), if_pos h1]
    exact hL i (by simp; omega)
  · rw [e0, getP_cycle_lo a b LM UM i (by omega), getP_cycle_lo a b LM UM (i + 1) (by omega),
      if_neg (by omega), if_neg (by omega)]
    have := hU (i - (LM.length + 1)) (by simp; omega)
    rwa [show i - (LM.length + 1) + 1 = i + 1 - (LM.length + 1) by omega] at this

/-- the cyclic triples of the polygon are the triples of the two chains and the two corners -/
theorem assemble_turns (a b : Pt K) (LM UM : List (Pt K))
    (hL : TurnsOK ((a :: LM) ++ [b])) (hU : TurnsOK ((b :: UM) ++ [a]))
    (hcb : 0 < crossProductCompare (getP ((a :: LM) ++ [b]) LM.length) b (getP ((b :: UM) ++ [a]) 1))
    (hca : 0 < crossProductCompare (getP ((b :: UM) ++ [a]) UM.length) a (getP ((a :: LM) ++ [b]) 1)) :
    ∀ i, i < ((a :: LM) ++ (b :: UM)).length →
      0 < crossProductCompare (getP ((a :: LM) ++ (b :: UM)) i)
        (getP ((a :: LM) ++ (b :: UM)) ((i + 1) % ((a :: LM) ++ (b :: UM)).length))
        (getP ((a :: LM) ++ (b :: UM)) ((i + 2) % ((a :: LM) ++ (b :: UM)).length)) := by
  intro i hi
  have hlen : ((a :: LM) ++ (b :: UM)).length = LM.length + UM.length + 2 := by
    simp only [List.length_append, List.length_cons]; omega
  rw [hlen] at hi ⊢
  have e0 : getP ((a :: LM) ++ (b :: UM)) i
      = getP ((a :: LM) ++ (b :: UM)) (i % (LM.length + UM.length + 2)) := by
    rw [Nat.mod_eq_of_lt hi]
  have hLb : getP ((a :: LM) ++ [b]) (LM.length + 1) = b := by
    rw [getP_append_right _ _ _ (by simp)]; simp [getP]
  have hUa : getP ((b :: UM) ++ [a]) (UM.length + 1) = a := by
    rw [getP_append_right _ _ _ (by simp)]; simp [getP]
  by_cases h1 : i + 2 ≤ LM.length + 1
  · rw [e0, getP_cycle_hi a b LM UM i (by omega), getP_cycle_hi a b LM UM (i + 1) (by omega),
      getP_cycle_hi a b LM UM (i + 2) (by omega), if_pos (by omega), if_pos (by omega), if_pos h1]
    exact hL i (by simp; omega)
  by_cases h2 : i + 1 = LM.length + 1
  · rw [e0, getP_cycle_hi a b LM UM i (by omega), getP_cycle_hi a b LM UM (i + 1) (by omega),
      getP_cycle_lo a b LM UM (i + 2) (by omega), if_pos (by omega), if_pos (by omega),
      if_neg (by omega)]
    have hi' : i = LM.length := by omega
    subst hi'
    rw [hLb, show LM.length + 2 - (LM.length + 1) = 1 by omega]
    exact hcb
  by_cases h3 : i + 2 ≤ LM.length + UM.length + 2
  · rw [e0, getP_cycle_lo a b LM UM i (by omega), getP_cycle_lo a b LM UM (i + 1) (by omega),
      getP_cycle_lo a b LM UM (i + 2) (by omega), if_neg (by omega), if_neg (by omega),
      if_neg (by omega)]
    have := hU (i - (LM.length + 1)) (by simp; omega)
    rwa [show i - (LM.length + 1) + 1 = i + 1 - (LM.length + 1) by omega,
      show i - (LM.length + 1) + 2 = i + 2 - (LM.length + 1) by omega] at this
  · have hi' : i = LM.length + UM.length + 1 := by omega
    subst hi'
    rw [e0, getP_cycle_lo a b LM UM _ (by omega), getP_cycle_lo a b LM UM _ (by omega),
      getP_cycle_hi a b LM UM (LM.length + UM.length + 1 + 2) (by omega),
      if_neg (by omega), if_neg (by omega), if_neg (by omega), if_neg (by omega),
      show LM.length + UM.length + 1 - (LM.length + 1) = UM.length by omega,
      show LM.length + UM.length + 1 + 1 - (LM.length + 1) = UM.length + 1 by omega, hUa]
    exact hca

end Assemble

/-! ### the result of `hullChain` on a lexicographically sorted list -/

/-- all points on one line -/
def AllCollinear (pts : List (Pt K)) : Prop :=
  ∀ x ∈ pts, ∀ y ∈ pts, ∀ z ∈ pts, crossProductCompare x y z = 0

theorem corner_strict {Pos : Pt K → Prop} (hC : Cone Pos) {c b d : Pt K} (hcb : Rel Pos c b)
    (hdb : Rel Pos d b) (pts : List (Pt K)) (hnc : ¬ AllCollinear pts)
    (h1 : ∀ x ∈ pts, 0 ≤ crossProductCompare c b x) (h2 : ∀ x ∈ pts, 0 ≤ crossProductCompare b d x)
    (hd : d ∈ pts) : 0 < crossProductCompare c b d := by
  by_contra h
  have h0 : crossProductCompare c b d = 0 := le_antisymm (not_lt.1 h) (h1 d hd)
  have hne : c ≠ b := fun he => rel_irrefl hC b (by rw [he] at hcb; exact hcb)
  apply hnc
  intro x hx y hy z hz
  exact collinear_of_line hne (corner hC hcb hdb h0 (h1 x hx) (h2 x hx))
    (corner hC hcb hdb h0 (h1 y hy) (h2 y hy)) (corner hC hcb hdb h0 (h1 z hz) (h2 z hz))

theorem pairwise_getP {R : Pt K → Pt K → Prop} {l : List (Pt K)} (h : l.Pairwise R) (i j : ℕ)
    (hij : i < j) (hj : j < l.length) : R (getP l i) (getP l j) := by
  rw [getP_eq_getElem l i (by omega), getP_eq_getElem l j hj]
  exact (List.pairwise_iff_getElem.1 h) i j (by omega) hj hij

section Final
variable (pts : List (Pt K)) (hs : pts.Pairwise (Rel LexPos)) (hn : 2 ≤ pts.length)
include hs hn

theorem first_ne_last : getP pts 0 ≠ getP pts (pts.length - 1) := by
  intro h
  have := getP_inj pts (pts_nodup pts hs) 0 (pts.length - 1) (by omega) (by omega) h
  omega

/-- every point is on or to the left of every edge of the upper chain -/
theorem upper_left : ∀ x ∈ pts, LeftOf x (Ust pts) := by
  intro x hx
  have linv := lst_inv pts hs hn
  have uinv := ust_inv pts hs hn
  obtain ⟨F', hF⟩ := fpts_last pts hs hn
  have ha : getP pts 0 ∈ getP pts (pts.length - 1) :: Fpts pts := by rw [hF]; simp
  have hb : getP pts (pts.length - 1) ∈ getP pts (pts.length - 1) :: Fpts pts := by simp
  have hamem : getP pts 0 ∈ pts := getP_mem pts 0 (by omega)
  have hbmem : getP pts (pts.length - 1) ∈ pts := getP_mem pts _ (by omega)
  rcases cover pts hs hn x hx with h | ⟨hxl, _, _⟩
  · exact uinv.left x h
  · obtain ⟨LT, hLT⟩ := lst_head pts hs hn
    obtain ⟨t, rest, ht, htop⟩ := linv.top
    have htb : t = getP pts (pts.length - 1) := by
      rw [hLT] at ht; simp only [List.cons.injEq] at ht; exact ht.1.symm
    have hmax : ∀ y ∈ Lst pts, getP pts (pts.length - 1) = y ∨ Rel LexPos y (getP pts (pts.length - 1)) := by
      intro y hy
      rcases htop y (linv.sub y hy) with h | h
      · exact Or.inl (by rw [h, htb])
      · exact Or.inr (by rw [← htb]; exact h)
    have hch := chord_of_stack cone_lexPos (getP pts 0) (getP pts (pts.length - 1)) (Lst pts)
      linv.desc linv.bottom (linv.left _ hamem) (linv.left _ hbmem) hmax x hxl
    exact leftOf_of_chord (linv.min x hx) (hmax x hxl) hch (Ust pts) uinv.desc
      (uinv.left _ ha) (uinv.left _ hb)

/-- shape of the two chains and of the result -/
theorem hull_structure : ∃ LM UM : List (Pt K),
    (Lst pts).reverse = (getP pts 0 :: LM) ++ [getP pts (pts.length - 1)] ∧
    (Ust pts).reverse = (getP pts (pts.length - 1) :: UM) ++ [getP pts 0] ∧
    hullChain Py.inSorted pts = (getP pts 0 :: LM) ++ (getP pts (pts.length - 1) :: UM) := by
  have hab := first_ne_last pts hs hn
  obtain ⟨LT, hLT⟩ := lst_head pts hs hn
  obtain ⟨ys, hys⟩ := List.getLast?_eq_some_iff.1 (lst_inv pts hs hn).bottom
  obtain ⟨UT, hUT⟩ := ust_head pts hs hn
  obtain ⟨zs, hzs⟩ := List.getLast?_eq_some_iff.1 (ust_inv pts hs hn).bottom
  have hL : ∃ LM, (Lst pts).reverse = (getP pts 0 :: LM) ++ [getP pts (pts.length - 1)] := by
    cases ys with
    | nil =>
      rw [hys] at hLT
      simp only [List.nil_append, List.cons.injEq] at hLT
      exact absurd hLT.1 hab
    | cons y ys' =>
      rw [hys] at hLT
      simp only [List.cons_append, List.cons.injEq] at hLT
      refine ⟨ys'.reverse, ?_⟩
      rw [hys, hLT.1]
      simp
  have hU : ∃ UM, (Ust pts).reverse = (getP pts (pts.length - 1) :: UM) ++ [getP pts 0] := by
    cases zs with
    | nil =>
      rw [hzs] at hUT
      simp only [List.nil_append, List.cons.injEq] at hUT
      exact absurd hUT.1.symm hab
    | cons z zs' =>
      rw [hzs] at hUT
      simp only [List.cons_append, List.cons.injEq] at hUT
      refine ⟨zs'.reverse, ?_⟩
      rw [hzs, hUT.1]
      simp
  obtain ⟨LM, hLM⟩ := hL
  obtain ⟨UM, hUM⟩ := hU
  refine ⟨LM, UM, hLM, hUM, ?_⟩
  rw [hullChain_eq pts hn, hLM, hUM, List.dropLast_concat, List.dropLast_concat]

/-- containment: every point is on or to the left of every (cyclic) edge of the result -/
theorem hullChain_contains : ∀ x ∈ pts, ∀ i, i < (hullChain Py.inSorted pts).length →
    0 ≤ crossProductCompare (getP (hullChain Py.inSorted pts) i)
      (getP (hullChain Py.inSorted pts) ((i + 1) % (hullChain Py.inSorted pts).length)) x := by
  intro x hx
  obtain ⟨LM, UM, hL, hU, hH⟩ := hull_structure pts hs hn
  rw [hH]
  apply assemble_edges
  · rw [← hL]; exact edgesOK_reverse ((lst_inv pts hs hn).left x hx)
  · rw [← hU]; exact edgesOK_reverse (upper_left pts hs hn x hx)

/-- no repeated vertex -/
theorem hullChain_nodup : (hullChain Py.inSorted pts).Nodup := by
  obtain ⟨LM, UM, hL, hU, hH⟩ := hull_structure pts hs hn
  have linv := lst_inv pts hs hn
  have uinv := ust_inv pts hs hn
  have ndL : ((getP pts 0 :: LM) ++ [getP pts (pts.length - 1)]).Nodup := by
    rw [← hL, List.nodup_reverse]
    refine linv.desc.imp ?_
    intro p r h he
    subst he
    exact rel_irrefl cone_lexPos _ h
  have ndU : ((getP pts (pts.length - 1) :: UM) ++ [getP pts 0]).Nodup := by
    rw [← hU, List.nodup_reverse]
    refine uinv.desc.imp ?_
    intro p r h he
    subst he
    exact rel_irrefl cone_lexNeg _ h
  rw [hH, List.nodup_append]
  refine ⟨(List.nodup_append.1 ndL).1, (List.nodup_append.1 ndU).1, ?_⟩
  intro y hyL z hzU he
  subst he
  have hyLst : y ∈ Lst pts := by
    rw [← List.mem_reverse, hL]; exact List.mem_append_left _ hyL
  have hyUst : y ∈ Ust pts := by
    rw [← List.mem_reverse, hU]; exact List.mem_append_left _ hzU
  rcases List.mem_cons.1 (uinv.sub y hyUst) with hb | hF
  · exact (List.nodup_append.1 ndL).2.2 y hyL _ (by simp) hb
  · rcases fpts_notin pts hs hn y hF with ha | hno
    · exact (List.nodup_append.1 ndU).2.2 y hzU _ (by simp) ha
    · exact hno hyLst

/-- all points collinear: the result is the segment `[first, last]` -/
theorem hullChain_collinear (hc : AllCollinear pts) :
    hullChain Py.inSorted pts = [getP pts 0, getP pts (pts.length - 1)] := by
  obtain ⟨LM, UM, hL, hU, hH⟩ := hull_structure pts hs hn
  have linv := lst_inv pts hs hn
  have uinv := ust_inv pts hs hn
  have hFsub : ∀ y ∈ getP pts (pts.length - 1) :: Fpts pts, y ∈ pts := by
    intro y hy
    rcases List.mem_cons.1 hy with rfl | hy
    · exact getP_mem pts _ (by omega)
    · obtain ⟨i, hi, rfl⟩ := List.mem_map.1 hy
      have := List.mem_range.1 (List.mem_reverse.1 (List.mem_filter.1 hi).1)
      exact getP_mem pts i (by omega)
  have memL : ∀ k, k < (Lst pts).reverse.length → getP (Lst pts).reverse k ∈ pts := fun k hk =>
    linv.sub _ (List.mem_reverse.1 (getP_mem _ k hk))
  have memU : ∀ k, k < (Ust pts).reverse.length → getP (Ust pts).reverse k ∈ pts := fun k hk =>
    hFsub _ (uinv.sub _ (List.mem_reverse.1 (getP_mem _ k hk)))
  have hLM : LM = [] := by
    by_contra hne
    have hlen : 0 < LM.length := List.length_pos_iff.2 hne
    have hlen' : (Lst pts).reverse.length = LM.length + 2 := by rw [hL]; simp
    have := turnsOK_reverse linv.turns 0 (by omega)
    rw [hc _ (memL 0 (by omega)) _ (memL 1 (by omega)) _ (memL 2 (by omega))] at this
    exact lt_irrefl _ this
  have hUM : UM = [] := by
    by_contra hne
    have hlen : 0 < UM.length := List.length_pos_iff.2 hne
    have hlen' : (Ust pts).reverse.length = UM.length + 2 := by rw [hU]; simp
    have := turnsOK_reverse uinv.turns 0 (by omega)
    rw [hc _ (memU 0 (by omega)) _ (memU 1 (by omega)) _ (memU 2 (by omega))] at this
    exact lt_irrefl _ this
  rw [hH, hLM, hUM]
  rfl

/-- not all points collinear: at least three vertices, every three (cyclically) consecutive vertices
    make a strict left turn -/
theorem hullChain_convex (hnc : ¬ AllCollinear pts) :
    3 ≤ (hullChain Py.inSorted pts).length ∧
    ∀ i, i < (hullChain Py.inSorted pts).length →
      0 < crossProductCompare (getP (hullChain Py.inSorted pts) i)
        (getP (hullChain Py.inSorted pts) ((i + 1) % (hullChain Py.inSorted pts).length))
        (getP (hullChain Py.inSorted pts) ((i + 2) % (hullChain Py.inSorted pts).length)) := by
  obtain ⟨LM, UM, hL, hU, hH⟩ := hull_structure pts hs hn
  have linv := lst_inv pts hs hn
  have uinv := ust_inv pts hs hn
  have eL : ∀ x ∈ pts, EdgesOK x ((getP pts 0 :: LM) ++ [getP pts (pts.length - 1)]) := by
    intro x hx; rw [← hL]; exact edgesOK_reverse (linv.left x hx)
  have eU : ∀ x ∈ pts, EdgesOK x ((getP pts (pts.length - 1) :: UM) ++ [getP pts 0]) := by
    intro x hx; rw [← hU]; exact edgesOK_reverse (upper_left pts hs hn x hx)
  have pL : ((getP pts 0 :: LM) ++ [getP pts (pts.length - 1)]).Pairwise (Rel LexPos) := by
    rw [← hL, List.pairwise_reverse]; exact linv.desc
  have pU : ((getP pts (pts.length - 1) :: UM) ++ [getP pts 0]).Pairwise (Rel LexNeg) := by
    rw [← hU, List.pairwise_reverse]; exact uinv.desc
  have hFsub : ∀ y ∈ getP pts (pts.length - 1) :: Fpts pts, y ∈ pts := by
    intro y hy
    rcases List.mem_cons.1 hy with rfl | hy
    · exact getP_mem pts _ (by omega)
    · obtain ⟨i, hi, rfl⟩ := List.mem_map.1 hy
      have := List.mem_range.1 (List.mem_reverse.1 (List.mem_filter.1 hi).1)
      exact getP_mem pts i (by omega)
  have hLb : getP ((getP pts 0 :: LM) ++ [getP pts (pts.length - 1)]) (LM.length + 1)
      = getP pts (pts.length - 1) := by
    rw [getP_append_right _ _ _ (by simp)]; simp [getP]
  have hUa : getP ((getP pts (pts.length - 1) :: UM) ++ [getP pts 0]) (UM.length + 1) = getP pts 0 := by
    rw [getP_append_right _ _ _ (by simp)]; simp [getP]
  have hL0 : getP ((getP pts 0 :: LM) ++ [getP pts (pts.length - 1)]) 0 = getP pts 0 := by
    simp [getP]
  have hU0 : getP ((getP pts (pts.length - 1) :: UM) ++ [getP pts 0]) 0 = getP pts (pts.length - 1) := by
    simp [getP]
  have lenL : ((getP pts 0 :: LM) ++ [getP pts (pts.length - 1)]).length = LM.length + 2 := by simp
  have lenU : ((getP pts (pts.length - 1) :: UM) ++ [getP pts 0]).length = UM.length + 2 := by simp
  -- the corner at the last point
  have hcb : 0 < crossProductCompare
      (getP ((getP pts 0 :: LM) ++ [getP pts (pts.length - 1)]) LM.length)
      (getP pts (pts.length - 1))
      (getP ((getP pts (pts.length - 1) :: UM) ++ [getP pts 0]) 1) := by
    apply corner_strict cone_lexPos _ _ pts hnc
    · intro x hx
      have := eL x hx LM.length (by omega)
      rwa [hLb] at this
    · intro x hx
      have := eU x hx 0 (by omega)
      rwa [hU0] at this
    · apply hFsub
      apply uinv.sub
      rw [← List.mem_reverse, hU]
      exact getP_mem _ 1 (by omega)
    · have := pairwise_getP pL LM.length (LM.length + 1) (by omega) (by omega)
      rwa [hLb] at this
    · have := pairwise_getP pU 0 1 (by omega) (by omega)
      rw [hU0] at this
      exact (rel_lexNeg _ _).1 this
  -- the corner at the first point
  have hca : 0 < crossProductCompare
      (getP ((getP pts (pts.length - 1) :: UM) ++ [getP pts 0]) UM.length)
      (getP pts 0)
      (getP ((getP pts 0 :: LM) ++ [getP pts (pts.length - 1)]) 1) := by
    apply corner_strict cone_lexNeg _ _ pts hnc
    · intro x hx
      have := eU x hx UM.length (by omega)
      rwa [hUa] at this
    · intro x hx
      have := eL x hx 0 (by omega)
      rwa [hL0] at this
    · apply linv.sub
      rw [← List.mem_reverse, hL]
      exact getP_mem _ 1 (by omega)
    · have := pairwise_getP pU UM.length (UM.length + 1) (by omega) (by omega)
      rwa [hUa] at this
    · have := pairwise_getP pL 0 1 (by omega) (by omega)
      rw [hL0] at this
      exact (rel_lexNeg _ _).2 this
  constructor
  · rw [hH]
    by_contra hlt
    have h3 : LM.length + UM.length + 2 < 3 := by
      simp only [List.length_append, List.length_cons] at hlt; omega
    have hLM : LM = [] := List.length_eq_zero_iff.1 (by omega)
    have hUM : UM = [] := List.length_eq_zero_iff.1 (by omega)
    subst hLM hUM
    simp only [getP, List.cons_append, List.nil_append, List.length_nil, List.getD_cons_zero,
      List.getD_cons_succ] at hcb
    rw [cpc_self_right] at hcb
    exact lt_irrefl _ hcb
  · rw [hH]
    apply assemble_turns _ _ _ _ _ _ hcb hca
    · rw [← hL]; exact turnsOK_reverse linv.turns
    · rw [← hU]; exact turnsOK_reverse uinv.turns

end Final

/-! ### `Py.convexHull` / `F90.convexHull` -/

section PyHull

theorem sortUnique_rel (pts : List (Pt K)) : (Py.sortUnique pts).Pairwise (Rel LexPos) :=
  (sortUnique_sorted pts).imp (fun {a b} h => (rel_lexPos a b).2 h)

theorem allCollinear_sortUnique (pts : List (Pt K)) :
    AllCollinear (Py.sortUnique pts) ↔ AllCollinear pts := by
  unfold AllCollinear
  simp only [mem_sortUnique_iff]

/-- fewer than three distinct points are collinear -/
theorem allCollinear_of_few (pts : List (Pt K)) (h : (Py.sortUnique pts).length < 3) :
    AllCollinear pts := by
  rw [← allCollinear_sortUnique]
  intro x hx y hy z hz
  by_cases hxy : x = y
  · rw [hxy, cpc_self_left]
  by_cases hxz : x = z
  · rw [hxz, cpc_self_right]
  by_cases hyz : y = z
  · rw [hyz, cpc_self_mid]
  exfalso
  have hnd : [x, y, z].Nodup := by simp [hxy, hxz, hyz]
  have hsub : [x, y, z] ⊆ Py.sortUnique pts := by
    intro w hw
    simp only [List.mem_cons, List.not_mem_nil, or_false] at hw
    rcases hw with rfl | rfl | rfl <;> assumption
  have := (List.subperm_of_subset hnd hsub).length_le
  simp only [List.length_cons, List.length_nil] at this
  omega

theorem py_hull_small (pts : List (Pt K)) (h : (Py.sortUnique pts).length < 3) :
    Py.convexHull pts = Py.sortUnique pts := by
  unfold Py.convexHull
  simp only [if_pos h]

theorem py_hull_large (pts : List (Pt K)) (h : 3 ≤ (Py.sortUnique pts).length) :
    Py.convexHull pts = hullChain Py.inSorted (Py.sortUnique pts) := by
  unfold Py.convexHull
  simp only [if_neg (not_lt.2 h)]

/-- the first point of a sorted list is its minimum, the last its maximum -/
theorem sorted_first_last (l : List (Pt K)) (hs : l.Pairwise (Rel LexPos)) (hn : 2 ≤ l.length) :
    ∀ x ∈ l, (x = getP l 0 ∨ Rel LexPos (getP l 0) x) ∧
      (x = getP l (l.length - 1) ∨ Rel LexPos x (getP l (l.length - 1))) := by
  intro x hx
  have linv := lst_inv l hs hn
  refine ⟨linv.min x hx, ?_⟩
  obtain ⟨LT, hLT⟩ := lst_head l hs hn
  obtain ⟨t, rest, ht, htop⟩ := linv.top
  have htb : t = getP l (l.length - 1) := by
    rw [hLT] at ht; simp only [List.cons.injEq] at ht; exact ht.1.symm
  rw [← htb]
  exact htop x hx

/-- containment on every input -/
theorem py_hull_contains (pts : List (Pt K)) : ∀ x ∈ pts, ∀ i, i < (Py.convexHull pts).length →
    0 ≤ crossProductCompare (getP (Py.convexHull pts) i)
      (getP (Py.convexHull pts) ((i + 1) % (Py.convexHull pts).length)) x := by
  intro x hx
  by_cases h : (Py.sortUnique pts).length < 3
  · have hc := allCollinear_of_few pts h
    have hsub : ∀ p ∈ Py.convexHull pts, p ∈ pts := mem_py_convexHull pts
    intro i hi
    rw [hc _ (hsub _ (getP_mem _ _ hi)) _ (hsub _ (getP_mem _ _ (Nat.mod_lt _ (by omega)))) _ hx]
  · rw [py_hull_large pts (not_lt.1 h)]
    exact hullChain_contains _ (sortUnique_rel pts) (by omega) x ((mem_sortUnique_iff pts x).2 hx)

theorem py_hull_nodup (pts : List (Pt K)) : (Py.convexHull pts).Nodup := by
  by_cases h : (Py.sortUnique pts).length < 3
  · rw [py_hull_small pts h]
    exact pts_nodup _ (sortUnique_rel pts)
  · rw [py_hull_large pts (not_lt.1 h)]
    exact hullChain_nodup _ (sortUnique_rel pts) (by omega)

theorem hullChain_head (pts : List (Pt K)) (hs : pts.Pairwise (Rel LexPos)) (hn : 2 ≤ pts.length) :
    getP (hullChain Py.inSorted pts) 0 = getP pts 0 ∧
    getP pts (pts.length - 1) ∈ hullChain Py.inSorted pts := by
  obtain ⟨LM, UM, _, _, hH⟩ := hull_structure pts hs hn
  rw [hH]
  exact ⟨by simp [getP], by simp⟩

/-- `≤` in the lexicographic order from the cone relation -/
theorem toLex_le_of_rel {a x : Pt K} (h : x = a ∨ Rel LexPos a x) : toLex a ≤ toLex x := by
  rcases h with rfl | h
  · exact le_rfl
  · exact le_of_lt ((rel_lexPos a x).1 h)

/-- summary for the generic case: not all input points on a line -/
theorem py_hull_convex (pts : List (Pt K)) (hnc : ¬ AllCollinear pts) :
    3 ≤ (Py.sortUnique pts).length ∧
    Py.convexHull pts = hullChain Py.inSorted (Py.sortUnique pts) ∧
    3 ≤ (Py.convexHull pts).length ∧
    ∀ i, i < (Py.convexHull pts).length →
      0 < crossProductCompare (getP (Py.convexHull pts) i)
        (getP (Py.convexHull pts) ((i + 1) % (Py.convexHull pts).length))
        (getP (Py.convexHull pts) ((i + 2) % (Py.convexHull pts).length)) := by
  have h3 : 3 ≤ (Py.sortUnique pts).length := by
    by_contra h
    exact hnc (allCollinear_of_few pts (not_le.1 h))
  have hl := py_hull_large pts h3
  refine ⟨h3, hl, ?_⟩
  rw [hl]
  exact hullChain_convex _ (sortUnique_rel pts) (by omega)
    (fun hc => hnc ((allCollinear_sortUnique pts).1 hc))

/-- summary for at least three distinct points on a line -/
theorem py_hull_collinear (pts : List (Pt K)) (h3 : 3 ≤ (Py.sortUnique pts).length)
    (hc : AllCollinear pts) :
    Py.convexHull pts = [getP (Py.sortUnique pts) 0,
      getP (Py.sortUnique pts) ((Py.sortUnique pts).length - 1)] := by
  rw [py_hull_large pts h3]
  exact hullChain_collinear _ (sortUnique_rel pts) (by omega) ((allCollinear_sortUnique pts).2 hc)

/-- the first / last of the sorted distinct points bound every input point lexicographically -/
theorem sortUnique_first_last (pts : List (Pt K)) (h2 : 2 ≤ (Py.sortUnique pts).length) :
    ∀ x ∈ pts, toLex (getP (Py.sortUnique pts) 0) ≤ toLex x ∧
      toLex x ≤ toLex (getP (Py.sortUnique pts) ((Py.sortUnique pts).length - 1)) := by
  intro x hx
  obtain ⟨h1, h2'⟩ := sorted_first_last _ (sortUnique_rel pts) h2 x ((mem_sortUnique_iff pts x).2 hx)
  refine ⟨toLex_le_of_rel h1, ?_⟩
  rcases h2' with h | h
  · rw [h]
  · exact le_of_lt ((rel_lexPos _ _).1 h)

end PyHull

end BezierVerif.HullCorrect
