import BezierVerif.Model.Curve

/-!
# Lemmas/Ieee — end points in an arithmetic with only the laws binary64 really has

`IeeeLaws` lists a handful of identities that hold for IEEE-754 binary64 (round to nearest, finite
non-overflowing data) *and* for every field; associativity and distributivity are **not** among
them.  Anything proved from this class holds bit-for-bit in the implementation's arithmetic.
Core Lean only.
-/

set_option linter.unusedSectionVars false

namespace BezierVerif

open Model

class IeeeLaws (K : Type) [Add K] [Mul K] [Sub K] [Div K] [OfNat K 0] [OfNat K 1] : Prop where
  one_mul : ∀ x : K, 1 * x = x
  mul_one : ∀ x : K, x * 1 = x
  zero_mul : ∀ x : K, 0 * x = 0
  mul_zero : ∀ x : K, x * 0 = 0
  add_zero : ∀ x : K, x + 0 = x
  zero_add : ∀ x : K, 0 + x = x
  one_sub_zero : (1 : K) - 0 = 1
  one_sub_one : (1 : K) - 1 = 0

variable {K : Type} [Add K] [Mul K] [Sub K] [Div K] [Neg K] [OfNat K 0] [OfNat K 1] [NatCast K]
  [L : IeeeLaws K]

/-! ### VS algorithm -/

theorem vsLoop_at_zero (n : Nat) (v : Nat → K) : ∀ i,
    (vsLoop n (1:K) 0 v i).result = v 0 ∧ (i ≥ 1 → (vsLoop n (1:K) 0 v i).pow = 0) := by
  intro i
  induction i with
  | zero => exact ⟨by simp [vsLoop, L.one_mul], by intro h; omega⟩
  | succ i ih =>
    obtain ⟨hr, _⟩ := ih
    have hp : (vsLoop n (1:K) 0 v (i+1)).pow = 0 := by simp [vsLoop, vsStep, L.mul_zero]
    refine ⟨?_, fun _ => hp⟩
    show ((vsLoop n (1:K) 0 v i).result + _ * ((vsLoop n (1:K) 0 v i).pow * 0) * v (i+1)) * 1 = v 0
    rw [L.mul_zero, L.mul_zero, L.zero_mul, L.add_zero, L.mul_one, hr]

theorem evalVS_at_zero (n : Nat) (v : Nat → K) : evalVS n (1 - (0:K)) 0 v = v 0 := by
  unfold evalVS
  rw [L.one_sub_zero]
  obtain ⟨hr, _⟩ := vsLoop_at_zero (L := L) n v (n-1)
  simp only [hr, L.zero_mul, L.add_zero]

theorem vsLoop_at_one (n : Nat) (v : Nat → K) : ∀ i,
    (vsLoop n (0:K) 1 v i).result = 0 ∧ (vsLoop n (0:K) 1 v i).pow = 1 := by
  intro i
  induction i with
  | zero => exact ⟨by simp [vsLoop, L.zero_mul], rfl⟩
  | succ i ih =>
    obtain ⟨_, hp⟩ := ih
    refine ⟨?_, by simp [vsLoop, vsStep, hp, L.mul_one]⟩
    show (_ + _) * (0:K) = 0
    exact L.mul_zero _

theorem evalVS_at_one (n : Nat) (v : Nat → K) : evalVS n (1 - (1:K)) 1 v = v n := by
  unfold evalVS
  rw [L.one_sub_one]
  obtain ⟨hr, hp⟩ := vsLoop_at_one (L := L) n v (n-1)
  simp only [hr, hp, L.mul_one, L.one_mul, L.zero_add]

/-! ### de Casteljau algorithm -/

theorem dcRound_one_zero : ∀ l : List K, dcRound (1:K) 0 l = l.dropLast
  | [] => rfl
  | [_] => rfl
  | x :: y :: rest => by
    rw [dcRound, dcRound_one_zero (y :: rest), L.one_mul, L.zero_mul, L.add_zero]
    rfl

theorem dcRound_zero_one : ∀ l : List K, dcRound (0:K) 1 l = l.tail
  | [] => rfl
  | [_] => rfl
  | x :: y :: rest => by
    rw [dcRound, dcRound_zero_one (y :: rest), L.zero_mul, L.one_mul, L.zero_add]
    rfl

theorem evalDC_at_zero : ∀ (n : Nat) (l : List K), l.length = n + 1 →
    evalDC (1 - (0:K)) 0 n l = l.headD 0 := by
  rw [L.one_sub_zero]
  intro n
  induction n with
  | zero => intro l _; rfl
  | succ n ih =>
    intro l hl
    rw [evalDC, dcRound_one_zero (L := L), ih _ (by simp [hl])]
    match l, hl with
    | x :: y :: rest, _ => rfl

theorem evalDC_at_one : ∀ (n : Nat) (l : List K), l.length = n + 1 →
    evalDC (1 - (1:K)) 1 n l = l.getD n 0 := by
  rw [L.one_sub_one]
  intro n
  induction n with
  | zero =>
    intro l hl
    match l, hl with
    | [x], _ => rfl
  | succ n ih =>
    intro l hl
    rw [evalDC, dcRound_zero_one (L := L), ih _ (by simp [hl])]
    match l, hl with
    | x :: rest, _ => simp

end BezierVerif
