import BezierVerif.Lemmas.Deriv
import BezierVerif.Lemmas.NormReal
import BezierVerif.Lemmas.Equivariance
import BezierVerif.Model.Area
import BezierVerif.Props.C04
import BezierVerif.Props.C08
import Mathlib.Analysis.InnerProductSpace.PiL2
import Mathlib.MeasureTheory.Integral.IntervalIntegral.FundThmCalculus
import Mathlib.Analysis.SpecialFunctions.Integrals.Basic
import Mathlib.Algebra.BigOperators.Fin
import Mathlib.Analysis.Calculus.Deriv.Polynomial
import Mathlib.Topology.Algebra.Polynomial

/-!
# Lemmas/LengthReal — the defining integral of the arc length, over `ℝ`

`speed thr nodes s = √(Model.lengthIntegrandSq thr nodes s)` is the integrand of `compute_length`
(`vec_size(evaluate_hodograph(s))`, an exact square root), `arcLength thr nodes = ∫₀¹ speed`
(Mathlib's interval integral).  The file provides the real-analysis layer:

* `hodographRow_eq_all`: the model's hodograph is the polynomial derivative on *every* row
  (Lemmas/Deriv needs two nodes; with fewer both sides vanish);
* a list `P : List ℝ[X]` of coordinate polynomials has speed `pspeed P s = ‖P'(s)‖₂`; the list
  is packed into `EuclideanSpace ℝ (Fin P.length)` (`lvec`, `norm_lvec`) so that Mathlib's
  `norm_integral_le_integral_norm`, `norm_sum_le` apply;
* `chord_le_plen` (fundamental theorem + norm of the integral), `plen_comp_affine` (chain rule +
  substitution), `pspeed_le_polygon` / `plen_le_polygon` (Bernstein weights are non-negative on
  `[0,1]`; the bound is itself the derivative of the Bernstein polynomial of the cumulative polygon
  length, so its integral telescopes — no Beta integral is needed);
* the model glue: the coordinate polynomials of the subdivision halves, the elevated and the
  reversed net are `p ∘ (s/2)`, `p ∘ ((1+s)/2)`, `p`, `p ∘ (1-s)`.
-/

set_option linter.unusedSectionVars false
set_option linter.unusedVariables false

namespace BezierVerif.LengthReal

open Polynomial Finset Model BezierVerif BezierVerif.Deriv BezierVerif.NormReal

/-! ## the model's hodograph is the derivative, every row -/

theorem hodographRow_eq_all (thr : ℕ) (row : List ℝ) (s : ℝ) :
    hodographRow thr row s = (derivative (curvePoly row)).eval s := by
  by_cases h : 2 ≤ row.length
  · exact hodographRow_eq thr row h s
  · have h0 : row.length - 1 = 0 := by omega
    rw [derivative_curvePoly]
    unfold hodographRow
    rw [h0]
    simp

theorem evalBary_eq_all (thr : ℕ) (row : List ℝ) (s : ℝ) :
    evalBary thr row (1 - s) s = (curvePoly row).eval s := by
  by_cases h : 1 ≤ row.length
  · exact evalBary_eq_eval_curvePoly thr row h s
  · have h0 : row = [] := by
      cases row with
      | nil => rfl
      | cons x xs => simp at h
    subst h0
    simp [evalBary, evalVS, vsLoop, curvePoly, seq]

/-! ## Euclidean norm of a list as a norm in `EuclideanSpace` -/

/-- the list `P.map f` as a vector of `EuclideanSpace ℝ (Fin P.length)` -/
noncomputable def lvec {α : Type} (P : List α) (f : α → ℝ) : EuclideanSpace ℝ (Fin P.length) :=
  WithLp.toLp 2 (fun i : Fin P.length => f P[i])

@[simp] theorem lvec_apply {α : Type} (P : List α) (f : α → ℝ) (i : Fin P.length) :
    lvec P f i = f P[i] := rfl

theorem norm_lvec {α : Type} (P : List α) (f : α → ℝ) : ‖lvec P f‖ = norm2 (P.map f) := by
  rw [EuclideanSpace.norm_eq, norm2, normSq_eq_sum, List.map_map]
  congr 1
  rw [← Fin.sum_univ_fun_getElem]
  apply Finset.sum_congr rfl
  intro i _
  simp [Real.norm_eq_abs, sq]

theorem lvec_smul {α : Type} (P : List α) (f : α → ℝ) (c : ℝ) :
    lvec P (fun a => c * f a) = c • lvec P f := by
  ext i; simp

theorem lvec_sub {α : Type} (P : List α) (f g : α → ℝ) :
    lvec P (fun a => f a - g a) = lvec P f - lvec P g := by
  ext i; simp

theorem lvec_sum {α : Type} (P : List α) (m : ℕ) (f : ℕ → α → ℝ) :
    lvec P (fun a => ∑ j ∈ range m, f j a) = ∑ j ∈ range m, lvec P (f j) := by
  ext i; simp

theorem continuous_lvec {α : Type} (P : List α) (f : α → ℝ → ℝ) (hf : ∀ a ∈ P, Continuous (f a)) :
    Continuous (fun s => lvec P (fun a => f a s)) := by
  unfold lvec
  apply (PiLp.continuous_toLp 2 _).comp
  apply continuous_pi
  intro i
  exact hf _ (List.getElem_mem _)

/-! ## polynomial curves: speed, length, chord bound, affine reparametrisation -/

/-- speed `‖P'(s)‖₂` of the curve with coordinate polynomials `P` -/
noncomputable def pspeed (P : List ℝ[X]) (s : ℝ) : ℝ :=
  norm2 (P.map (fun p => (derivative p).eval s))

/-- velocity vector -/
noncomputable def pvel (P : List ℝ[X]) (s : ℝ) : EuclideanSpace ℝ (Fin P.length) :=
  lvec P (fun p => (derivative p).eval s)

theorem norm_pvel (P : List ℝ[X]) (s : ℝ) : ‖pvel P s‖ = pspeed P s := norm_lvec _ _

theorem continuous_pvel (P : List ℝ[X]) : Continuous (pvel P) :=
  continuous_lvec P (fun p s => (derivative p).eval s) (fun p _ => (derivative p).continuous)

theorem continuous_pspeed (P : List ℝ[X]) : Continuous (pspeed P) := by
  have : pspeed P = fun s => ‖pvel P s‖ := by funext s; rw [norm_pvel]
  rw [this]
  exact (continuous_pvel P).norm

theorem pspeed_nonneg (P : List ℝ[X]) (s : ℝ) : 0 ≤ pspeed P s := norm2_nonneg _

/-- fundamental theorem of calculus, all coordinates at once -/
theorem integral_pvel (P : List ℝ[X]) (a b : ℝ) :
    ∫ s in a..b, pvel P s = lvec P (fun p => p.eval b - p.eval a) := by
  have hint : IntervalIntegrable (pvel P) MeasureTheory.volume a b :=
    (continuous_pvel P).intervalIntegrable a b
  ext i
  have h := (EuclideanSpace.proj (𝕜 := ℝ) i).intervalIntegral_comp_comm hint
  simp only [EuclideanSpace.proj, PiLp.proj_apply] at h
  rw [← h]
  simp only [pvel, lvec_apply]
  rw [intervalIntegral.integral_eq_sub_of_hasDerivAt (f := fun s => (P[i]).eval s)]
  · intro x _
    exact (P[i]).hasDerivAt x
  · exact ((derivative P[i]).continuous).intervalIntegrable a b

/-- **chord ≤ length** for polynomial curves, on any parameter interval -/
theorem chord_le_plen (P : List ℝ[X]) (a b : ℝ) (hab : a ≤ b) :
    norm2 (P.map (fun p => p.eval b - p.eval a)) ≤ ∫ s in a..b, pspeed P s := by
  rw [← norm_lvec, ← integral_pvel]
  have := intervalIntegral.norm_integral_le_integral_norm (f := pvel P) (μ := MeasureTheory.volume) hab
  simpa only [norm_pvel] using this

/-- chain rule for an affine reparametrisation `s ↦ c s + d` -/
theorem pspeed_comp_affine (P : List ℝ[X]) (c d s : ℝ) :
    pspeed (P.map (fun p => p.comp (C c * X + C d))) s = |c| * pspeed P (c * s + d) := by
  unfold pspeed
  rw [List.map_map]
  have : ((fun p : ℝ[X] => (derivative p).eval s) ∘ fun p => p.comp (C c * X + C d))
      = fun p => c * (derivative p).eval (c * s + d) := by
    funext p
    simp [derivative_comp, eval_comp]
  rw [this, ← norm_lvec, lvec_smul, norm_smul, Real.norm_eq_abs, norm_lvec]

/-- substitution: the length of `s ↦ P(c s + d)` over `[0,1]` is the length of `P` over the image
    interval (`c > 0`) -/
theorem plen_comp_affine (P : List ℝ[X]) (c d : ℝ) (hc : 0 < c) :
    ∫ s in (0:ℝ)..1, pspeed (P.map (fun p => p.comp (C c * X + C d))) s
      = ∫ s in d..(c + d), pspeed P s := by
  simp_rw [pspeed_comp_affine, abs_of_pos hc]
  rw [intervalIntegral.integral_const_mul,
    intervalIntegral.integral_comp_mul_add (fun s => pspeed P s) hc.ne' d]
  simp only [mul_zero, zero_add, mul_one, smul_eq_mul]
  rw [← mul_assoc, mul_inv_cancel₀ hc.ne', one_mul]

/-- reversal `s ↦ 1 - s` keeps the length -/
theorem plen_comp_reverse (P : List ℝ[X]) :
    ∫ s in (0:ℝ)..1, pspeed (P.map (fun p => p.comp (C (-1) * X + C 1))) s
      = ∫ s in (0:ℝ)..1, pspeed P s := by
  simp_rw [pspeed_comp_affine]
  have : ∀ s : ℝ, |(-1:ℝ)| * pspeed P (-1 * s + 1) = pspeed P (1 - s) := by
    intro s; rw [abs_neg, abs_one, one_mul]; congr 1; ring
  simp_rw [this]
  rw [intervalIntegral.integral_comp_sub_left (fun s => pspeed P s) 1]
  simp

/-! ## the model's integrand -/

/-- the integrand of `compute_length`: `vec_size(evaluate_hodograph(s))`, with an exact root -/
noncomputable def speed (thr : ℕ) (nodes : List (List ℝ)) (s : ℝ) : ℝ :=
  Real.sqrt (lengthIntegrandSq thr nodes s)

/-- the defining integral `∫₀¹ ‖B'(s)‖ ds` -/
noncomputable def arcLength (thr : ℕ) (nodes : List (List ℝ)) : ℝ :=
  ∫ s in (0:ℝ)..1, speed thr nodes s

theorem speed_eq_norm2 (thr : ℕ) (nodes : List (List ℝ)) (s : ℝ) :
    speed thr nodes s = norm2 (nodes.map (fun r => (derivative (curvePoly r)).eval s)) := by
  have : hodograph thr nodes s = nodes.map (fun r => (derivative (curvePoly r)).eval s) := by
    unfold hodograph
    exact List.map_congr_left (fun r _ => hodographRow_eq_all thr r s)
  unfold speed lengthIntegrandSq
  rw [this]
  rfl

theorem speed_eq_pspeed (thr : ℕ) (nodes : List (List ℝ)) (s : ℝ) :
    speed thr nodes s = pspeed (nodes.map curvePoly) s := by
  rw [speed_eq_norm2, pspeed, List.map_map]
  rfl

theorem arcLength_eq_plen (thr : ℕ) (nodes : List (List ℝ)) :
    arcLength thr nodes = ∫ s in (0:ℝ)..1, pspeed (nodes.map curvePoly) s := by
  unfold arcLength
  simp_rw [speed_eq_pspeed]

theorem continuous_speed (thr : ℕ) (nodes : List (List ℝ)) : Continuous (speed thr nodes) := by
  have : speed thr nodes = pspeed (nodes.map curvePoly) := funext (speed_eq_pspeed thr nodes)
  rw [this]
  exact continuous_pspeed _

/-! ## control polygon bound -/

/-- `‖v_{j+1} − v_j‖₂`, the `j`-th leg of the control polygon -/
noncomputable def leg (nodes : List (List ℝ)) (j : ℕ) : ℝ :=
  norm2 (nodes.map (fun r => seq r (j+1) - seq r j))

theorem leg_nonneg (nodes : List (List ℝ)) (j : ℕ) : 0 ≤ leg nodes j := norm2_nonneg _

/-- cumulative polygon length up to node `j` -/
noncomputable def cumLeg (nodes : List (List ℝ)) (j : ℕ) : ℝ := ∑ i ∈ range j, leg nodes i

/-- Bernstein weight of the hodograph: `(m+1) C(m,j) (1-s)^(m-j) s^j` -/
noncomputable def hw (m j : ℕ) (s : ℝ) : ℝ := ((m+1 : ℕ) : ℝ) * (m.choose j : ℝ) * (1-s)^(m-j) * s^j

theorem hw_nonneg (m j : ℕ) (s : ℝ) (h0 : 0 ≤ s) (h1 : s ≤ 1) : 0 ≤ hw m j s := by
  unfold hw
  have : 0 ≤ 1 - s := by linarith
  positivity

theorem lvec_congr {α : Type} (P : List α) (f g : α → ℝ) (h : ∀ a ∈ P, f a = g a) :
    lvec P f = lvec P g := by
  ext i
  simp only [lvec_apply]
  exact h _ (List.getElem_mem _)

/-- `B' = Σ_j (m+1) b_{j,m} Δv_j` on one row with `m+2` nodes -/
theorem deriv_eval_eq_sum (row : List ℝ) (m : ℕ) (h : row.length = m + 2) (s : ℝ) :
    (derivative (curvePoly row)).eval s
      = ∑ j ∈ range (m+1), hw m j s * (seq row (j+1) - seq row j) := by
  rw [derivative_curvePoly, eval_mul, eval_C, Deriv.eval_curvePoly, diffs_length, h]
  have e1 : m + 2 - 1 = m + 1 := by omega
  have e2 : m + 1 - 1 = m := by omega
  rw [e1, e2]
  unfold bern
  rw [Finset.mul_sum]
  apply Finset.sum_congr rfl
  intro j hj
  have hj' := Finset.mem_range.mp hj
  rw [seq_diffs row j (by omega)]
  unfold hw
  ring

/-- triangle inequality with the non-negative Bernstein weights -/
theorem velocity_le_weighted_legs (nodes : List (List ℝ)) (m : ℕ)
    (hN : ∀ row ∈ nodes, row.length = m + 2) (s : ℝ) (h0 : 0 ≤ s) (h1 : s ≤ 1) :
    norm2 (nodes.map (fun r => (derivative (curvePoly r)).eval s))
      ≤ ∑ j ∈ range (m+1), hw m j s * leg nodes j := by
  rw [← norm_lvec,
    lvec_congr nodes _ (fun r => ∑ j ∈ range (m+1), hw m j s * (seq r (j+1) - seq r j))
      (fun r hr => deriv_eval_eq_sum r m (hN r hr) s),
    lvec_sum]
  refine (norm_sum_le _ _).trans (le_of_eq ?_)
  apply Finset.sum_congr rfl
  intro j _
  rw [lvec_smul, norm_smul, Real.norm_eq_abs, abs_of_nonneg (hw_nonneg m j s h0 h1), norm_lvec]
  rfl

theorem bern_at_one (n : ℕ) (v : ℕ → ℝ) : bern n 0 1 v = v n := by
  rw [← T_pow_apply_zero, Subdivide.T_zero_one, S_pow_apply, zero_add]

theorem bern_at_zero (n : ℕ) (v : ℕ → ℝ) : bern n 1 0 v = v 0 := by
  rw [← T_pow_apply_zero, Subdivide.T_one_zero, one_pow]
  rfl

/-- the weighted sum of the legs is the derivative of the Bernstein polynomial of the cumulative
    polygon length -/
theorem weighted_legs_eq_deriv (nodes : List (List ℝ)) (m : ℕ) (s : ℝ) :
    ∑ j ∈ range (m+1), hw m j s * leg nodes j
      = (derivative (bernPoly (m+1) (cumLeg nodes))).eval s := by
  rw [derivative_bernPoly, eval_mul, eval_natCast, eval_bernPoly]
  unfold bern
  rw [Finset.mul_sum]
  apply Finset.sum_congr rfl
  intro j _
  have : cumLeg nodes (j+1) - cumLeg nodes j = leg nodes j := by
    unfold cumLeg; rw [Finset.sum_range_succ]; ring
  beta_reduce
  rw [this]
  unfold hw
  ring

theorem integral_weighted_legs (nodes : List (List ℝ)) (m : ℕ) :
    ∫ s in (0:ℝ)..1, ∑ j ∈ range (m+1), hw m j s * leg nodes j
      = ∑ j ∈ range (m+1), leg nodes j := by
  simp_rw [weighted_legs_eq_deriv]
  rw [intervalIntegral.integral_eq_sub_of_hasDerivAt
    (f := fun s => (bernPoly (m+1) (cumLeg nodes)).eval s)]
  · rw [eval_bernPoly, eval_bernPoly]
    simp only [sub_self, sub_zero]
    rw [bern_at_one, bern_at_zero]
    simp [cumLeg]
  · intro x _
    exact (bernPoly (m+1) (cumLeg nodes)).hasDerivAt x
  · exact ((derivative (bernPoly (m+1) (cumLeg nodes))).continuous).intervalIntegrable 0 1

/-- **length ≤ control polygon**, every number of nodes `N` (all rows of that length) -/
theorem arcLength_le_polygon (thr : ℕ) (nodes : List (List ℝ)) (N : ℕ)
    (hN : ∀ row ∈ nodes, row.length = N) :
    arcLength thr nodes ≤ ∑ j ∈ range (N - 1), leg nodes j := by
  rcases Nat.lt_or_ge N 2 with h | h
  · -- at most one node: the hodograph vanishes
    have hz : ∀ s, speed thr nodes s = 0 := by
      intro s
      rw [speed_eq_norm2, ← norm_lvec,
        lvec_congr nodes _ (fun _ => (0:ℝ)) (fun r hr => by
          rw [derivative_curvePoly, hN r hr]
          have : N - 1 = 0 := by omega
          rw [this]; simp)]
      rw [norm_eq_zero]
      ext i; simp
    unfold arcLength
    simp_rw [hz]
    rw [intervalIntegral.integral_zero]
    exact Finset.sum_nonneg (fun j _ => leg_nonneg nodes j)
  · obtain ⟨m, rfl⟩ : ∃ m, N = m + 2 := ⟨N - 2, by omega⟩
    have e : m + 2 - 1 = m + 1 := by omega
    rw [e, ← integral_weighted_legs nodes m]
    unfold arcLength
    apply intervalIntegral.integral_mono_on (by norm_num)
    · exact (continuous_speed thr nodes).intervalIntegrable 0 1
    · apply Continuous.intervalIntegrable
      simp_rw [weighted_legs_eq_deriv]
      exact (derivative (bernPoly (m+1) (cumLeg nodes))).continuous
    · intro s hs
      rw [speed_eq_norm2]
      exact velocity_le_weighted_legs nodes m hN s hs.1 hs.2

theorem speed_nonneg (thr : ℕ) (nodes : List (List ℝ)) (s : ℝ) : 0 ≤ speed thr nodes s :=
  Real.sqrt_nonneg _

theorem arcLength_nonneg (thr : ℕ) (nodes : List (List ℝ)) : 0 ≤ arcLength thr nodes :=
  intervalIntegral.integral_nonneg (by norm_num) (fun s _ => speed_nonneg thr nodes s)

/-! ## model glue: end points, subdivision, elevation, reversal as polynomial identities -/

theorem subRow_map_map {α : Type} (l : List α) (f g : α → ℝ) :
    subRow (l.map f) (l.map g) = l.map (fun a => f a - g a) := by
  unfold subRow
  induction l with
  | nil => rfl
  | cons x xs ih => simp only [List.map_cons, List.zipWith_cons_cons, ih]

/-- the difference of two points of the curve, as the model computes them -/
theorem subRow_evalPoint (thr : ℕ) (nodes : List (List ℝ)) (a b : ℝ) :
    subRow (evalPoint thr nodes b) (evalPoint thr nodes a)
      = (nodes.map curvePoly).map (fun p => p.eval b - p.eval a) := by
  unfold evalPoint
  rw [subRow_map_map, List.map_map]
  exact List.map_congr_left (fun r _ => by
    simp only [Function.comp]
    rw [evalBary_eq_all, evalBary_eq_all])

theorem eval_one_curvePoly (row : List ℝ) : (curvePoly row).eval 1 = seq row (row.length - 1) := by
  rw [Deriv.eval_curvePoly, sub_self, bern_at_one]

theorem eval_zero_curvePoly (row : List ℝ) : (curvePoly row).eval 0 = seq row 0 := by
  rw [Deriv.eval_curvePoly, sub_zero, bern_at_zero]

theorem curvePoly_nil : curvePoly ([] : List ℝ) = 0 := by
  simp [curvePoly, seq]

theorem curvePoly_subdivide_left (row : List ℝ) (h : 1 ≤ row.length) :
    curvePoly (Py.subdivideRow row).1 = (curvePoly row).comp (C (1/2) * X + C 0) := by
  apply Polynomial.funext
  intro s
  rw [eval_comp, Deriv.eval_curvePoly, Deriv.eval_curvePoly,
    Equivariance.subdivideRow_fst_length row h, C04.subdivide_left_correct row h]
  simp only [eval_add, eval_mul, eval_C, eval_X]
  congr 1 <;> ring

theorem curvePoly_subdivide_right (row : List ℝ) (h : 1 ≤ row.length) :
    curvePoly (Py.subdivideRow row).2 = (curvePoly row).comp (C (1/2) * X + C (1/2)) := by
  apply Polynomial.funext
  intro s
  rw [eval_comp, Deriv.eval_curvePoly, Deriv.eval_curvePoly,
    Equivariance.subdivideRow_snd_length row h, C04.subdivide_right_correct row h]
  simp only [eval_add, eval_mul, eval_C, eval_X]
  congr 1 <;> ring

theorem map_curvePoly_subdivide_left (nodes : List (List ℝ)) (h : ∀ row ∈ nodes, 1 ≤ row.length) :
    (Py.subdivide nodes).1.map curvePoly
      = (nodes.map curvePoly).map (fun p => p.comp (C (1/2) * X + C 0)) := by
  unfold Py.subdivide
  simp only [List.map_map]
  exact List.map_congr_left (fun r hr => curvePoly_subdivide_left r (h r hr))

theorem map_curvePoly_subdivide_right (nodes : List (List ℝ)) (h : ∀ row ∈ nodes, 1 ≤ row.length) :
    (Py.subdivide nodes).2.map curvePoly
      = (nodes.map curvePoly).map (fun p => p.comp (C (1/2) * X + C (1/2))) := by
  unfold Py.subdivide
  simp only [List.map_map]
  exact List.map_congr_left (fun r hr => curvePoly_subdivide_right r (h r hr))

theorem f90_subdivide_eq (nodes : List (List ℝ)) (h : ∀ row ∈ nodes, 1 ≤ row.length) :
    F90.subdivide nodes = Py.subdivide nodes := by
  unfold F90.subdivide Py.subdivide
  congr 1 <;>
    exact List.map_congr_left (fun r hr => by rw [C04.subdivide_variants_agree r (h r hr)])

/-- elevation does not change the polynomial (every row, also the empty one) -/
theorem curvePoly_elevateRow (row : List ℝ) : curvePoly (elevateRow row) = curvePoly row := by
  by_cases h : 1 ≤ row.length
  · apply Polynomial.funext
    intro s
    rw [Deriv.eval_curvePoly, Deriv.eval_curvePoly, elevateRow_length, Nat.add_sub_cancel,
      C08.elevate_same_point row h]
  · have h0 : row = [] := by
      cases row with
      | nil => rfl
      | cons x xs => simp at h
    subst h0
    simp [elevateRow, curvePoly, seq]

theorem curvePoly_f90_elevateRow (row : List ℝ) : curvePoly (F90.elevateRow row) = curvePoly row := by
  rw [C08.elevate_variants_agree, curvePoly_elevateRow]

/-- reversal is the reparametrisation `s ↦ 1 - s` (every row) -/
theorem curvePoly_reverse (row : List ℝ) :
    curvePoly row.reverse = (curvePoly row).comp (C (-1) * X + C 1) := by
  by_cases h : 1 ≤ row.length
  · apply Polynomial.funext
    intro s
    rw [eval_comp, Deriv.eval_curvePoly, Deriv.eval_curvePoly, List.length_reverse,
      Equivariance.bern_reverse_row row h]
    simp only [eval_add, eval_mul, eval_C, eval_X]
    congr 1 <;> ring
  · have h0 : row = [] := by
      cases row with
      | nil => rfl
      | cons x xs => simp at h
    subst h0
    simp [curvePoly_nil]

/-- a two-node row has the constant derivative `v₁ − v₀` -/
theorem deriv_eval_line (row : List ℝ) (h : row.length = 2) (s : ℝ) :
    (derivative (curvePoly row)).eval s = seq row 1 - seq row 0 := by
  rw [deriv_eval_eq_sum row 0 h s]
  simp [hw]

theorem speed_line (thr : ℕ) (nodes : List (List ℝ)) (h : ∀ row ∈ nodes, row.length = 2) (s : ℝ) :
    speed thr nodes s = leg nodes 0 := by
  rw [speed_eq_norm2, leg]
  congr 1
  exact List.map_congr_left (fun r hr => deriv_eval_line r (h r hr) s)

theorem foldl_sq_map {α : Type} (l : List α) (f : α → ℝ) (a : ℝ) :
    l.foldl (fun acc r => acc + f r * f r) a = (l.map f).foldl (fun acc x => acc + x * x) a := by
  rw [List.foldl_map]

end BezierVerif.LengthReal
