import BezierVerif.Lemmas.Bridge
import Mathlib.Algebra.Ring.GeomSum
import Mathlib.Algebra.Order.BigOperators.Ring.Finset
import Mathlib.Algebra.Order.BigOperators.Group.Finset
import Mathlib.Tactic.Positivity

/-!
# Lemmas/Lipschitz — Lipschitz constant of a Bézier coordinate from its control polygon

`B(a) - B(b) = (a-b) · Σ_{k<n} blossom(Δv)(a^k, b^{n-1-k})` (telescoping of commuting powers,
`Commute.geom_sum₂_mul`), every blossom value of `Δv` with arguments in `[0,1]` lies between the bounds
of `Δv`; hence `|B(a) - B(b)| ≤ |a-b| · n · max|Δv_j|`.  Stated for sequences (shift-operator calculus)
and for the executable list model (`Model.evalDC`, `Model.diffs`).
-/

namespace BezierVerif.Lipschitz

open Finset Model BezierVerif

section Field
variable {K : Type} [Field K]

/-- the coordinate function of degree `n` with control sequence `v` -/
def curve (n : ℕ) (v : ℕ → K) (s : K) : K := (((T (1-s) s)^n) v) 0

/-- forward difference of a sequence -/
def fdiff (v : ℕ → K) : ℕ → K := fun j => v (j+1) - v j

theorem T_sub (a b : K) (v : ℕ → K) : (T (1-a) a - T (1-b) b) v = (a - b) • fdiff v := by
  ext j; simp [T_apply, fdiff]; ring

/-- telescoping: `B(a) - B(b) = (a-b) * Σ_{k<n} blossom(Δv)(a^k, b^{n-1-k})` -/
theorem curve_sub (n : ℕ) (v : ℕ → K) (a b : K) :
    curve n v a - curve n v b =
      (a - b) * ∑ k ∈ range n, (((T (1-a) a)^k * (T (1-b) b)^(n-1-k)) (fdiff v)) 0 := by
  unfold curve
  have h := (T_commute (1-a) a (1-b) b).geom_sum₂_mul n
  have : ((T (1-a) a)^n - (T (1-b) b)^n) v =
      (∑ i ∈ range n, (T (1-a) a)^i * (T (1-b) b)^(n-1-i)) ((T (1-a) a - T (1-b) b) v) := by
    rw [← h]; rfl
  have e : (((T (1-a) a)^n) v) 0 - (((T (1-b) b)^n) v) 0 = (((T (1-a) a)^n - (T (1-b) b)^n) v) 0 := by simp
  rw [e, this, T_sub, map_smul]
  simp [LinearMap.sum_apply, Finset.sum_apply]

/-- the forward difference commutes with a de Casteljau round (`fdiff = S - 1` as an operator) -/
theorem fdiff_T (c d : K) (u : ℕ → K) : fdiff (T c d u) = T c d (fdiff u) := by
  ext j; simp only [fdiff, T_apply]; ring

theorem fdiff_T_pow (c d : K) (m : ℕ) : ∀ u : ℕ → K, fdiff (((T c d)^m) u) = ((T c d)^m) (fdiff u) := by
  induction m with
  | zero => intro u; simp
  | succ m ih =>
    intro u
    rw [pow_succ, Module.End.mul_apply, ih, fdiff_T, Module.End.mul_apply]

/-- `A^k - B^k = (A - B) Σ_{j<k} A^j B^{k-1-j}` applied to a sequence -/
theorem pow_sub_apply (a b : K) (k : ℕ) (w : ℕ → K) :
    ((T (1-a) a)^k - (T (1-b) b)^k) w =
      (a - b) • (∑ j ∈ range k, (T (1-a) a)^j * (T (1-b) b)^(k-1-j)) (fdiff w) := by
  have h := (T_commute (1-a) a (1-b) b).geom_sum₂_mul k
  rw [← h, Module.End.mul_apply, T_sub, map_smul]

/-- second-order telescoping: `B(a) - B(b) - (a-b) B'(b) = (a-b)² Σ_{k<n} Σ_{j<k} blossom(Δ²v)(a^j, b^{n-2-j})`,
    `B'(b) = n · (degree n-1 curve of Δv)(b)` -/
theorem curve_taylor (n : ℕ) (v : ℕ → K) (a b : K) :
    curve n v a - curve n v b - (a - b) * (n * curve (n-1) (fdiff v) b) =
      (a - b)^2 * ∑ k ∈ range n, ∑ j ∈ range k,
        (((T (1-a) a)^j * (T (1-b) b)^(k-1-j)) (((T (1-b) b)^(n-1-k)) (fdiff (fdiff v)))) 0 := by
  have hk : ∀ k ∈ range n,
      (((T (1-a) a)^k * (T (1-b) b)^(n-1-k)) (fdiff v)) 0 - (((T (1-b) b)^(n-1)) (fdiff v)) 0 =
        (a - b) * ∑ j ∈ range k,
          (((T (1-a) a)^j * (T (1-b) b)^(k-1-j)) (((T (1-b) b)^(n-1-k)) (fdiff (fdiff v)))) 0 := by
    intro k hk
    have hkn := mem_range.mp hk
    have e : (T (1-b) b)^(n-1) = (T (1-b) b)^k * (T (1-b) b)^(n-1-k) := by
      rw [← pow_add]; congr 1; omega
    have h1 := congrFun (pow_sub_apply a b k (((T (1-b) b)^(n-1-k)) (fdiff v))) 0
    simp only [LinearMap.sub_apply, Pi.sub_apply, Pi.smul_apply, smul_eq_mul, LinearMap.sum_apply,
      Finset.sum_apply] at h1
    rw [e, Module.End.mul_apply, Module.End.mul_apply, h1, fdiff_T_pow]
  have first : (n : K) * curve (n-1) (fdiff v) b = ∑ _k ∈ range n, (((T (1-b) b)^(n-1)) (fdiff v)) 0 := by
    simp [curve]
  rw [curve_sub, first, ← mul_sub, ← Finset.sum_sub_distrib, Finset.sum_congr rfl hk, ← Finset.mul_sum]
  ring

/-- the sequence of `Model.diffs` is the forward difference of the sequence, below the length -/
theorem seq_diffs : ∀ (l : List K) (j : ℕ), j + 1 < l.length → seq (diffs l) j = fdiff (seq l) j
  | [], j, h => by simp at h
  | [_], j, h => by simp at h
  | x :: y :: rest, 0, _ => by simp [diffs, seq, fdiff]
  | x :: y :: rest, j+1, h => by
    have ih := seq_diffs (y :: rest) j (by simpa using h)
    simp only [diffs, seq, fdiff, List.getD_cons_succ] at ih ⊢
    exact ih

theorem diffs_length : ∀ l : List K, (diffs l).length = l.length - 1
  | [] => rfl
  | [_] => rfl
  | x :: y :: rest => by
    simp only [diffs, List.length_cons]
    rw [diffs_length (y :: rest)]; simp

end Field

section Ordered
variable {K : Type} [Field K] [LinearOrder K] [IsStrictOrderedRing K]

/-- one round with `t ∈ [0,1]` keeps upper bounds (on a shrinking index range) -/
theorem T_le (t M : K) (ht0 : 0 ≤ t) (ht1 : t ≤ 1) (m : ℕ) (u : ℕ → K)
    (hu : ∀ j ≤ m+1, u j ≤ M) : ∀ j ≤ m, T (1-t) t u j ≤ M := by
  intro j hj
  rw [T_apply]
  have h1 := hu j (by omega); have h2 := hu (j+1) (by omega)
  nlinarith [mul_le_mul_of_nonneg_left h1 (sub_nonneg.mpr ht1), mul_le_mul_of_nonneg_left h2 ht0]

theorem T_ge (t M : K) (ht0 : 0 ≤ t) (ht1 : t ≤ 1) (m : ℕ) (u : ℕ → K)
    (hu : ∀ j ≤ m+1, M ≤ u j) : ∀ j ≤ m, M ≤ T (1-t) t u j := by
  intro j hj
  rw [T_apply]
  have h1 := hu j (by omega); have h2 := hu (j+1) (by omega)
  nlinarith [mul_le_mul_of_nonneg_left h1 (sub_nonneg.mpr ht1), mul_le_mul_of_nonneg_left h2 ht0]

/-- `k` rounds at `a` then `l` rounds at `b` (a blossom value) stay below an upper bound of the data -/
theorem blossom_le (a b M : K) (ha0 : 0 ≤ a) (ha1 : a ≤ 1) (hb0 : 0 ≤ b) (hb1 : b ≤ 1) :
    ∀ (k l m : ℕ) (u : ℕ → K), (∀ j ≤ m + k + l, u j ≤ M) →
      ∀ j ≤ m, ((T (1-a) a)^k * (T (1-b) b)^l) u j ≤ M := by
  intro k
  induction k with
  | zero =>
    intro l
    induction l with
    | zero => intro m u hu j hj; simpa using hu j (by omega)
    | succ l ih =>
      intro m u hu j hj
      rw [pow_zero, one_mul, pow_succ, Module.End.mul_apply]
      have := ih m (T (1-b) b u) (T_le b M hb0 hb1 (m+0+l) u (by intro j hj; exact hu j (by omega)))
      simpa using this j hj
  | succ k ih =>
    intro l m u hu j hj
    rw [pow_succ', mul_assoc, Module.End.mul_apply]
    exact T_le a M ha0 ha1 m _ (fun j hj => ih l (m+1) u (by intro j hj; exact hu j (by omega)) j hj) j hj

theorem blossom_ge (a b M : K) (ha0 : 0 ≤ a) (ha1 : a ≤ 1) (hb0 : 0 ≤ b) (hb1 : b ≤ 1) :
    ∀ (k l m : ℕ) (u : ℕ → K), (∀ j ≤ m + k + l, M ≤ u j) →
      ∀ j ≤ m, M ≤ ((T (1-a) a)^k * (T (1-b) b)^l) u j := by
  intro k
  induction k with
  | zero =>
    intro l
    induction l with
    | zero => intro m u hu j hj; simpa using hu j (by omega)
    | succ l ih =>
      intro m u hu j hj
      rw [pow_zero, one_mul, pow_succ, Module.End.mul_apply]
      have := ih m (T (1-b) b u) (T_ge b M hb0 hb1 (m+0+l) u (by intro j hj; exact hu j (by omega)))
      simpa using this j hj
  | succ k ih =>
    intro l m u hu j hj
    rw [pow_succ', mul_assoc, Module.End.mul_apply]
    exact T_ge a M ha0 ha1 m _ (fun j hj => ih l (m+1) u (by intro j hj; exact hu j (by omega)) j hj) j hj

/-- Lipschitz bound from the control polygon: `|B(a)-B(b)| ≤ |a-b| * (n * max|Δv|)` -/
theorem curve_lipschitz (n : ℕ) (v : ℕ → K) (a b D : K)
    (ha0 : 0 ≤ a) (ha1 : a ≤ 1) (hb0 : 0 ≤ b) (hb1 : b ≤ 1)
    (hD : ∀ j < n, |fdiff v j| ≤ D) :
    |curve n v a - curve n v b| ≤ |a - b| * (n * D) := by
  rw [curve_sub, abs_mul]
  apply mul_le_mul_of_nonneg_left _ (abs_nonneg _)
  calc |∑ k ∈ range n, (((T (1-a) a)^k * (T (1-b) b)^(n-1-k)) (fdiff v)) 0|
      ≤ ∑ k ∈ range n, |(((T (1-a) a)^k * (T (1-b) b)^(n-1-k)) (fdiff v)) 0| := Finset.abs_sum_le_sum_abs _ _
    _ ≤ ∑ _k ∈ range n, D := by
        apply Finset.sum_le_sum
        intro k hk
        have hk' := mem_range.mp hk
        rw [abs_le]
        constructor
        · exact blossom_ge a b (-D) ha0 ha1 hb0 hb1 k (n-1-k) 0 (fdiff v)
            (fun j hj => (abs_le.mp (hD j (by omega))).1) 0 le_rfl
        · exact blossom_le a b D ha0 ha1 hb0 hb1 k (n-1-k) 0 (fdiff v)
            (fun j hj => (abs_le.mp (hD j (by omega))).2) 0 le_rfl
    _ = n * D := by simp

/-- the same for the executable list model: `l` a row of `n+1` control values, the bound `D` on the
    entries of `Model.diffs l` (= `nodes[:, 1:] - nodes[:, :-1]`) -/
theorem evalDC_lipschitz (l : List K) (n : ℕ) (hl : l.length = n + 1) (a b D : K)
    (ha0 : 0 ≤ a) (ha1 : a ≤ 1) (hb0 : 0 ≤ b) (hb1 : b ≤ 1)
    (hD : ∀ d ∈ diffs l, |d| ≤ D) :
    |evalDC (1-a) a n l - evalDC (1-b) b n l| ≤ |a - b| * (n * D) := by
  rw [evalDC_eq _ _ n l hl, evalDC_eq _ _ n l hl]
  apply curve_lipschitz n (seq l) a b D ha0 ha1 hb0 hb1
  intro j hj
  rw [← seq_diffs l j (by omega)]
  apply hD
  exact seq_mem (diffs l) j (by rw [diffs_length]; omega)

/-- second-order remainder: `|B(a) - B(b) - (a-b) B'(b)| ≤ (a-b)² · n(n-1)/2 · max|Δ²v|` -/
theorem curve_taylor_bound (n : ℕ) (v : ℕ → K) (a b D2 : K)
    (ha0 : 0 ≤ a) (ha1 : a ≤ 1) (hb0 : 0 ≤ b) (hb1 : b ≤ 1)
    (hD : ∀ j, j + 2 ≤ n → |fdiff (fdiff v) j| ≤ D2) :
    |curve n v a - curve n v b - (a - b) * (n * curve (n-1) (fdiff v) b)| ≤
      (a - b)^2 * (((n * (n - 1) / 2 : ℕ) : K) * D2) := by
  rw [curve_taylor, abs_mul, abs_of_nonneg (sq_nonneg (a - b))]
  apply mul_le_mul_of_nonneg_left _ (sq_nonneg _)
  have term : ∀ k ∈ range n, ∀ j ∈ range k,
      |(((T (1-a) a)^j * (T (1-b) b)^(k-1-j)) (((T (1-b) b)^(n-1-k)) (fdiff (fdiff v)))) 0| ≤ D2 := by
    intro k hk j hj
    have hk' := mem_range.mp hk
    have hj' := mem_range.mp hj
    rw [abs_le]
    constructor
    · apply blossom_ge a b (-D2) ha0 ha1 hb0 hb1 j (k-1-j) 0 _ _ 0 le_rfl
      intro i hi
      exact T_pow_ge b (-D2) hb0 hb1 (n-1-k) (k-1) (fdiff (fdiff v))
        (fun i' hi' => (abs_le.mp (hD i' (by omega))).1) i (by omega)
    · apply blossom_le a b D2 ha0 ha1 hb0 hb1 j (k-1-j) 0 _ _ 0 le_rfl
      intro i hi
      exact T_pow_le b D2 hb0 hb1 (n-1-k) (k-1) (fdiff (fdiff v))
        (fun i' hi' => (abs_le.mp (hD i' (by omega))).2) i (by omega)
  calc |∑ k ∈ range n, ∑ j ∈ range k,
          (((T (1-a) a)^j * (T (1-b) b)^(k-1-j)) (((T (1-b) b)^(n-1-k)) (fdiff (fdiff v)))) 0|
      ≤ ∑ k ∈ range n, |∑ j ∈ range k,
          (((T (1-a) a)^j * (T (1-b) b)^(k-1-j)) (((T (1-b) b)^(n-1-k)) (fdiff (fdiff v)))) 0| :=
        Finset.abs_sum_le_sum_abs _ _
    _ ≤ ∑ k ∈ range n, ∑ j ∈ range k,
          |(((T (1-a) a)^j * (T (1-b) b)^(k-1-j)) (((T (1-b) b)^(n-1-k)) (fdiff (fdiff v)))) 0| :=
        Finset.sum_le_sum (fun k _ => Finset.abs_sum_le_sum_abs _ _)
    _ ≤ ∑ k ∈ range n, ∑ _j ∈ range k, D2 :=
        Finset.sum_le_sum (fun k hk => Finset.sum_le_sum (fun j hj => term k hk j hj))
    _ = ((n * (n - 1) / 2 : ℕ) : K) * D2 := by
        simp only [Finset.sum_const, card_range, nsmul_eq_mul]
        rw [← Finset.sum_mul, ← Nat.cast_sum, Finset.sum_range_id]

/-- list model: first-order Taylor expansion of a coordinate with the remainder bounded by the second
    differences `Model.diffs (Model.diffs l)`; the derivative is `n · evalDC (diffs l)` (`evaluate_hodograph`) -/
theorem evalDC_taylor (l : List K) (n : ℕ) (hn : 1 ≤ n) (hl : l.length = n + 1) (a b D2 : K)
    (ha0 : 0 ≤ a) (ha1 : a ≤ 1) (hb0 : 0 ≤ b) (hb1 : b ≤ 1)
    (hD : ∀ d ∈ diffs (diffs l), |d| ≤ D2) :
    |evalDC (1-a) a n l - evalDC (1-b) b n l - (a - b) * (n * evalDC (1-b) b (n-1) (diffs l))| ≤
      (a - b)^2 * (((n * (n - 1) / 2 : ℕ) : K) * D2) := by
  have hdl : (diffs l).length = (n - 1) + 1 := by rw [diffs_length, hl]; omega
  have hder : evalDC (1-b) b (n-1) (diffs l) = curve (n-1) (fdiff (seq l)) b := by
    rw [evalDC_eq _ _ (n-1) (diffs l) hdl]
    unfold curve
    apply T_pow_local
    intro j _ hj
    exact seq_diffs l j (by omega)
  rw [evalDC_eq _ _ n l hl, evalDC_eq _ _ n l hl, hder]
  apply curve_taylor_bound n (seq l) a b D2 ha0 ha1 hb0 hb1
  intro j hj
  have e : fdiff (fdiff (seq l)) j = seq (diffs (diffs l)) j := by
    rw [seq_diffs (diffs l) j (by rw [diffs_length]; omega)]
    unfold fdiff
    rw [seq_diffs l (j+1) (by omega), seq_diffs l j (by omega)]
    rfl
  rw [e]
  apply hD
  exact seq_mem (diffs (diffs l)) j (by rw [diffs_length, diffs_length]; omega)

end Ordered

end BezierVerif.Lipschitz
