import BezierVerif.Model.Locate
import BezierVerif.Props.C01
import BezierVerif.Props.C04
import Mathlib.Algebra.Order.Field.Basic
import Mathlib.Tactic.Ring
import Mathlib.Tactic.Linarith
import Mathlib.Tactic.FieldSimp

/-!
# Lemmas/Locate — helpers for C10 (curve `locate_point`)

* the closed control-point box test `containsRow` / `containsND` read as inequalities;
* a point of the curve lies in the box of its control points;
* `Halving thr subdiv`: the abstract property of a subdivision routine that the bisection needs
  (both halves keep the row lengths, left half is `σ ↦ B(σ/2)`, right half `σ ↦ B((1+σ)/2)`),
  established for `Py.subdivide` and `F90.subdivide`;
* `IsPiece`: a candidate is the reparametrisation of the original curve over its interval;
  one round keeps a piece that contains the parameter.
-/

set_option linter.unusedSectionVars false
set_option linter.unusedVariables false

namespace BezierVerif.Locate

open Model BezierVerif

variable {K : Type} [Field K] [LinearOrder K] [IsStrictOrderedRing K]

/-! ### the box test -/

theorem containsRow_iff (row : List K) (p : K) :
    containsRow row p = true ↔ (∃ x ∈ row, x ≤ p) ∧ (∃ x ∈ row, p ≤ x) := by
  simp [containsRow, List.any_eq_true]

theorem containsRow_eq_false_iff (row : List K) (p : K) :
    containsRow row p = false ↔ (∀ x ∈ row, p < x) ∨ (∀ x ∈ row, x < p) := by
  rw [← Bool.not_eq_true, containsRow_iff]
  constructor
  · intro h
    by_contra hc
    rw [not_or] at hc
    obtain ⟨h1, h2⟩ := hc
    push Not at h1 h2
    exact h ⟨h1, h2⟩
  · rintro (h | h) ⟨⟨x, hx, hxp⟩, ⟨y, hy, hpy⟩⟩
    · exact absurd (h x hx) (not_lt.mpr hxp)
    · exact absurd (h y hy) (not_lt.mpr hpy)

/-- a non-empty list has a least element -/
theorem exists_min (row : List K) (hne : row ≠ []) : ∃ lo ∈ row, ∀ x ∈ row, lo ≤ x := by
  induction row with
  | nil => exact absurd rfl hne
  | cons a rest ih =>
    by_cases hr : rest = []
    · subst hr; exact ⟨a, by simp, by simp⟩
    · obtain ⟨lo, hlo, hmin⟩ := ih hr
      rcases le_total a lo with h | h
      · refine ⟨a, by simp, ?_⟩
        intro x hx
        rcases List.mem_cons.mp hx with rfl | hx
        · exact le_rfl
        · exact le_trans h (hmin x hx)
      · refine ⟨lo, List.mem_cons_of_mem _ hlo, ?_⟩
        intro x hx
        rcases List.mem_cons.mp hx with rfl | hx
        · exact h
        · exact hmin x hx

/-- a non-empty list has a greatest element -/
theorem exists_max (row : List K) (hne : row ≠ []) : ∃ hi ∈ row, ∀ x ∈ row, x ≤ hi := by
  induction row with
  | nil => exact absurd rfl hne
  | cons a rest ih =>
    by_cases hr : rest = []
    · subst hr; exact ⟨a, by simp, by simp⟩
    · obtain ⟨hi, hhi, hmax⟩ := ih hr
      rcases le_total hi a with h | h
      · refine ⟨a, by simp, ?_⟩
        intro x hx
        rcases List.mem_cons.mp hx with rfl | hx
        · exact le_rfl
        · exact le_trans (hmax x hx) h
      · refine ⟨hi, List.mem_cons_of_mem _ hhi, ?_⟩
        intro x hx
        rcases List.mem_cons.mp hx with rfl | hx
        · exact h
        · exact hmax x hx

/-- min/max reading: `lo`, `hi` are *the* minimum and maximum of the row -/
theorem containsRow_iff_of_min_max (row : List K) (p lo hi : K) (hlo : lo ∈ row) (hhi : hi ∈ row)
    (hmin : ∀ x ∈ row, lo ≤ x) (hmax : ∀ x ∈ row, x ≤ hi) :
    containsRow row p = true ↔ lo ≤ p ∧ p ≤ hi := by
  rw [containsRow_iff]
  constructor
  · rintro ⟨⟨x, hx, hxp⟩, ⟨y, hy, hpy⟩⟩
    exact ⟨le_trans (hmin x hx) hxp, le_trans hpy (hmax y hy)⟩
  · rintro ⟨h1, h2⟩
    exact ⟨⟨lo, hlo, h1⟩, ⟨hi, hhi, h2⟩⟩

theorem containsRow_iff_min_max (row : List K) (hne : row ≠ []) (p : K) :
    containsRow row p = true ↔
      ∃ lo ∈ row, ∃ hi ∈ row, (∀ x ∈ row, lo ≤ x) ∧ (∀ x ∈ row, x ≤ hi) ∧ lo ≤ p ∧ p ≤ hi := by
  constructor
  · intro h
    obtain ⟨lo, hlo, hmin⟩ := exists_min row hne
    obtain ⟨hi, hhi, hmax⟩ := exists_max row hne
    have := (containsRow_iff_of_min_max row p lo hi hlo hhi hmin hmax).mp h
    exact ⟨lo, hlo, hi, hhi, hmin, hmax, this.1, this.2⟩
  · rintro ⟨lo, hlo, hi, hhi, hmin, hmax, h1, h2⟩
    exact (containsRow_iff_of_min_max row p lo hi hlo hhi hmin hmax).mpr ⟨h1, h2⟩

theorem containsND_nil_left (point : List K) : containsND ([] : List (List K)) point = true := by
  simp [containsND]

theorem containsND_nil_right (nodes : List (List K)) : containsND nodes ([] : List K) = true := by
  simp [containsND]

theorem containsND_cons (row : List K) (nodes : List (List K)) (p : K) (point : List K) :
    containsND (row :: nodes) (p :: point) = (containsRow row p && containsND nodes point) := by
  simp [containsND]

/-- `containsND` coordinate by coordinate (coordinates beyond the shorter of the two lists are
    not tested; the library always calls it with `point.length = nodes.length`) -/
theorem containsND_iff (nodes : List (List K)) (point : List K) :
    containsND nodes point = true ↔
      ∀ i, i < nodes.length → i < point.length →
        containsRow (nodes.getD i []) (point.getD i 0) = true := by
  induction nodes generalizing point with
  | nil => simp [containsND]
  | cons row rest ih =>
    cases point with
    | nil => simp [containsND]
    | cons p ps =>
      rw [containsND_cons, Bool.and_eq_true, ih]
      constructor
      · rintro ⟨h0, hr⟩ i hi hp
        cases i with
        | zero => simpa using h0
        | succ i =>
          simp only [List.getD_cons_succ]
          exact hr i (by simpa using hi) (by simpa using hp)
      · intro h
        refine ⟨by simpa using h 0 (by simp) (by simp), ?_⟩
        intro i hi hp
        have := h (i+1) (by simpa using hi) (by simpa using hp)
        simpa only [List.getD_cons_succ] using this

/-! ### a point of the curve is in the box -/

theorem containsRow_eval (thr : ℕ) (row : List K) (h : 2 ≤ row.length) (s : K)
    (hs0 : 0 ≤ s) (hs1 : s ≤ 1) : containsRow row (evalBary thr row (1 - s) s) = true := by
  have hne : row ≠ [] := by intro e; subst e; simp at h
  obtain ⟨lo, hlo, hmin⟩ := exists_min row hne
  obtain ⟨hi, hhi, hmax⟩ := exists_max row hne
  exact (containsRow_iff_of_min_max row _ lo hi hlo hhi hmin hmax).mpr
    (C01.in_box thr row h s lo hi hs0 hs1 hmin hmax)

theorem containsND_evalPoint (thr : ℕ) (nodes : List (List K)) (h : ∀ row ∈ nodes, 2 ≤ row.length)
    (s : K) (hs0 : 0 ≤ s) (hs1 : s ≤ 1) : containsND nodes (evalPoint thr nodes s) = true := by
  induction nodes with
  | nil => simp [containsND]
  | cons row rest ih =>
    have e : evalPoint thr (row :: rest) s = evalBary thr row (1 - s) s :: evalPoint thr rest s := rfl
    rw [e, containsND_cons, Bool.and_eq_true]
    exact ⟨containsRow_eval thr row (h row (by simp)) s hs0 hs1,
      ih (fun r hr => h r (List.mem_cons_of_mem _ hr))⟩

/-! ### what the bisection needs from the subdivision routine -/

theorem evalPoint_eq (thr : ℕ) (nodes : List (List K)) (h : ∀ row ∈ nodes, 2 ≤ row.length) (s : K) :
    evalPoint thr nodes s = nodes.map (fun row => bern (row.length - 1) (1 - s) s (seq row)) := by
  unfold evalPoint
  apply List.map_congr_left
  intro row hrow
  exact C01.dispatch_seamless thr row (h row hrow) (1 - s) s

/-- the two halves keep the row lengths and are the curve over `[0,½]` resp. `[½,1]` -/
structure Halving (thr : ℕ) (subdiv : List (List K) → List (List K) × List (List K)) : Prop where
  rows_left : ∀ nodes : List (List K), (∀ row ∈ nodes, 2 ≤ row.length) →
    ∀ row ∈ (subdiv nodes).1, 2 ≤ row.length
  rows_right : ∀ nodes : List (List K), (∀ row ∈ nodes, 2 ≤ row.length) →
    ∀ row ∈ (subdiv nodes).2, 2 ≤ row.length
  left : ∀ nodes : List (List K), (∀ row ∈ nodes, 2 ≤ row.length) → ∀ σ : K,
    evalPoint thr (subdiv nodes).1 σ = evalPoint thr nodes (σ / 2)
  right : ∀ nodes : List (List K), (∀ row ∈ nodes, 2 ≤ row.length) → ∀ σ : K,
    evalPoint thr (subdiv nodes).2 σ = evalPoint thr nodes ((1 + σ) / 2)

theorem subdivideRow_fst_length (row : List K) (h : 1 ≤ row.length) :
    (Py.subdivideRow row).1.length = row.length := by
  rw [C04.subdivide_is_specialize row h]; exact C04.specialize_length row _ _

theorem subdivideRow_snd_length (row : List K) (h : 1 ≤ row.length) :
    (Py.subdivideRow row).2.length = row.length := by
  rw [C04.subdivide_is_specialize row h]; exact C04.specialize_length row _ _

theorem halving_py (thr : ℕ) : Halving (K := K) thr Py.subdivide where
  rows_left := by
    intro nodes h row hrow
    obtain ⟨r, hr, rfl⟩ := List.mem_map.mp hrow
    rw [subdivideRow_fst_length r (by have := h r hr; omega)]; exact h r hr
  rows_right := by
    intro nodes h row hrow
    obtain ⟨r, hr, rfl⟩ := List.mem_map.mp hrow
    rw [subdivideRow_snd_length r (by have := h r hr; omega)]; exact h r hr
  left := by
    intro nodes h σ
    have hl : ∀ row ∈ (Py.subdivide nodes).1, 2 ≤ row.length := by
      intro row hrow
      obtain ⟨r, hr, rfl⟩ := List.mem_map.mp hrow
      rw [subdivideRow_fst_length r (by have := h r hr; omega)]; exact h r hr
    rw [evalPoint_eq thr _ hl, evalPoint_eq thr nodes h]
    show List.map _ (List.map _ nodes) = _
    rw [List.map_map]
    apply List.map_congr_left
    intro r hr
    have h1 : 1 ≤ r.length := by have := h r hr; omega
    simp only [Function.comp]
    rw [subdivideRow_fst_length r h1]
    exact C04.subdivide_left_correct r h1 σ
  right := by
    intro nodes h σ
    have hl : ∀ row ∈ (Py.subdivide nodes).2, 2 ≤ row.length := by
      intro row hrow
      obtain ⟨r, hr, rfl⟩ := List.mem_map.mp hrow
      rw [subdivideRow_snd_length r (by have := h r hr; omega)]; exact h r hr
    rw [evalPoint_eq thr _ hl, evalPoint_eq thr nodes h]
    show List.map _ (List.map _ nodes) = _
    rw [List.map_map]
    apply List.map_congr_left
    intro r hr
    have h1 : 1 ≤ r.length := by have := h r hr; omega
    simp only [Function.comp]
    rw [subdivideRow_snd_length r h1]
    exact C04.subdivide_right_correct r h1 σ

/-- on nets whose rows are non-empty the Fortran routine is the Python routine -/
theorem f90_subdivide_eq (nodes : List (List K)) (h : ∀ row ∈ nodes, 1 ≤ row.length) :
    F90.subdivide nodes = Py.subdivide nodes := by
  unfold F90.subdivide Py.subdivide
  refine Prod.ext ?_ ?_ <;>
  · apply List.map_congr_left
    intro r hr
    rw [C04.subdivide_variants_agree r (h r hr)]

theorem halving_f90 (thr : ℕ) : Halving (K := K) thr F90.subdivide := by
  have e : ∀ nodes : List (List K), (∀ row ∈ nodes, 2 ≤ row.length) →
      F90.subdivide nodes = Py.subdivide nodes :=
    fun nodes h => f90_subdivide_eq nodes (fun r hr => by have := h r hr; omega)
  have hp := halving_py (K := K) thr
  exact {
    rows_left := fun nodes h => by rw [e nodes h]; exact hp.rows_left nodes h
    rows_right := fun nodes h => by rw [e nodes h]; exact hp.rows_right nodes h
    left := fun nodes h σ => by rw [e nodes h]; exact hp.left nodes h σ
    right := fun nodes h σ => by rw [e nodes h]; exact hp.right nodes h σ }

/-! ### rounds -/

theorem half_eq : (1 / (1 + 1) : K) = 1 / 2 := by norm_num

theorem mem_locateRound (subdiv : List (List K) → List (List K) × List (List K)) (point : List K)
    (cands : List (LocCand K)) (c' : LocCand K) :
    c' ∈ locateRound subdiv point cands ↔
      ∃ c ∈ cands, containsND c.nodes point = true ∧
        (c' = ⟨c.start, (1 / 2) * (c.start + c.stop), (subdiv c.nodes).1⟩ ∨
         c' = ⟨(1 / 2) * (c.start + c.stop), c.stop, (subdiv c.nodes).2⟩) := by
  unfold locateRound
  rw [List.mem_flatMap]
  constructor
  · rintro ⟨c, hc, hmem⟩
    by_cases hb : containsND c.nodes point = true
    · rw [if_pos hb] at hmem
      simp only [half_eq, List.mem_cons, List.not_mem_nil, or_false] at hmem
      exact ⟨c, hc, hb, hmem⟩
    · rw [if_neg hb] at hmem; simp at hmem
  · rintro ⟨c, hc, hb, hmem⟩
    refine ⟨c, hc, ?_⟩
    rw [if_pos hb]
    simp only [half_eq, List.mem_cons, List.not_mem_nil, or_false]
    exact hmem

theorem locateRound_nil (subdiv : List (List K) → List (List K) × List (List K)) (point : List K) :
    locateRound subdiv point [] = [] := rfl

theorem iter_locateRound_nil (subdiv : List (List K) → List (List K) × List (List K))
    (point : List K) : ∀ r, iter (locateRound subdiv point) r [] = []
  | 0 => rfl
  | r+1 => by rw [iter, locateRound_nil, iter_locateRound_nil subdiv point r]

/-- the candidate list after `r` rounds -/
abbrev candsAfter (subdiv : List (List K) → List (List K) × List (List K)) (point : List K)
    (nodes : List (List K)) (r : ℕ) : List (LocCand K) :=
  iter (locateRound subdiv point) r [{ start := 0, stop := 1, nodes := nodes }]

theorem candsAfter_succ (subdiv : List (List K) → List (List K) × List (List K)) (point : List K)
    (nodes : List (List K)) (r : ℕ) :
    candsAfter subdiv point nodes (r + 1) = locateRound subdiv point (candsAfter subdiv point nodes r) :=
  Subdivide.iter_succ' _ r _

/-- `locatePoint` misses exactly when no candidate is left -/
theorem locatePoint_eq_miss_iff (subdiv : List (List K) → List (List K) × List (List K))
    (thr rounds : ℕ) (capSq : K) (nodes : List (List K)) (point : List K) :
    locatePoint subdiv thr rounds capSq nodes point = .miss ↔
      candsAfter subdiv point nodes rounds = [] := by
  unfold locatePoint candsAfter
  simp only
  constructor
  · intro h
    split at h
    · rename_i he; simpa using he
    · split at h
      · cases h
      · split at h
        · cases h
        · split at h <;> cases h
  · intro h
    rw [h]; rfl

/-- a candidate that is the piece of the original curve over `[start, stop]` -/
structure IsPiece (thr : ℕ) (nodes : List (List K)) (c : LocCand K) : Prop where
  rows : ∀ row ∈ c.nodes, 2 ≤ row.length
  repar : ∀ σ : K, evalPoint thr c.nodes σ = evalPoint thr nodes (c.start + σ * (c.stop - c.start))

theorem isPiece_init (thr : ℕ) (nodes : List (List K)) (h : ∀ row ∈ nodes, 2 ≤ row.length) :
    IsPiece thr nodes { start := 0, stop := 1, nodes := nodes } where
  rows := h
  repar := by intro σ; simp

theorem isPiece_left (thr : ℕ) (subdiv : List (List K) → List (List K) × List (List K))
    (hsub : Halving thr subdiv) (nodes : List (List K)) (c : LocCand K) (hc : IsPiece thr nodes c) :
    IsPiece thr nodes ⟨c.start, (1 / 2) * (c.start + c.stop), (subdiv c.nodes).1⟩ where
  rows := hsub.rows_left c.nodes hc.rows
  repar := by
    intro σ
    show evalPoint thr (subdiv c.nodes).1 σ = _
    rw [hsub.left c.nodes hc.rows, hc.repar]
    congr 1; ring

theorem isPiece_right (thr : ℕ) (subdiv : List (List K) → List (List K) × List (List K))
    (hsub : Halving thr subdiv) (nodes : List (List K)) (c : LocCand K) (hc : IsPiece thr nodes c) :
    IsPiece thr nodes ⟨(1 / 2) * (c.start + c.stop), c.stop, (subdiv c.nodes).2⟩ where
  rows := hsub.rows_right c.nodes hc.rows
  repar := by
    intro σ
    show evalPoint thr (subdiv c.nodes).2 σ = _
    rw [hsub.right c.nodes hc.rows, hc.repar]
    congr 1; ring

/-- a piece whose interval contains `s` is never rejected by the box test -/
theorem piece_contains (thr : ℕ) (nodes : List (List K)) (c : LocCand K) (hc : IsPiece thr nodes c)
    (hw : c.start < c.stop) (s : K) (h0 : c.start ≤ s) (h1 : s ≤ c.stop) :
    containsND c.nodes (evalPoint thr nodes s) = true := by
  have hpos : 0 < c.stop - c.start := sub_pos.mpr hw
  have e : s = c.start + (s - c.start) / (c.stop - c.start) * (c.stop - c.start) := by
    field_simp; ring
  rw [e, ← hc.repar]
  apply containsND_evalPoint thr c.nodes hc.rows
  · exact div_nonneg (sub_nonneg.mpr h0) hpos.le
  · rw [div_le_one hpos]; linarith

/-- one round: a piece containing `s` survives and one of its halves is a piece containing `s` -/
theorem locateRound_keeps (thr : ℕ) (subdiv : List (List K) → List (List K) × List (List K))
    (hsub : Halving thr subdiv) (nodes : List (List K)) (s : K)
    (cands : List (LocCand K)) (c : LocCand K) (hmem : c ∈ cands) (hc : IsPiece thr nodes c)
    (hw : c.start < c.stop) (h0 : c.start ≤ s) (h1 : s ≤ c.stop) :
    ∃ c' ∈ locateRound subdiv (evalPoint thr nodes s) cands,
      IsPiece thr nodes c' ∧ c'.start < c'.stop ∧ c'.start ≤ s ∧ s ≤ c'.stop ∧
        c'.stop - c'.start = (1 / 2) * (c.stop - c.start) := by
  have hb := piece_contains thr nodes c hc hw s h0 h1
  rcases le_total s ((1 / 2) * (c.start + c.stop)) with hm | hm
  · refine ⟨⟨c.start, (1 / 2) * (c.start + c.stop), (subdiv c.nodes).1⟩, ?_, ?_, ?_, h0, hm, ?_⟩
    · exact (mem_locateRound _ _ _ _).mpr ⟨c, hmem, hb, Or.inl rfl⟩
    · exact isPiece_left thr subdiv hsub nodes c hc
    · show c.start < (1 / 2) * (c.start + c.stop); linarith
    · show (1 / 2) * (c.start + c.stop) - c.start = _; ring
  · refine ⟨⟨(1 / 2) * (c.start + c.stop), c.stop, (subdiv c.nodes).2⟩, ?_, ?_, ?_, hm, h1, ?_⟩
    · exact (mem_locateRound _ _ _ _).mpr ⟨c, hmem, hb, Or.inr rfl⟩
    · exact isPiece_right thr subdiv hsub nodes c hc
    · show (1 / 2) * (c.start + c.stop) < c.stop; linarith
    · show c.stop - (1 / 2) * (c.start + c.stop) = _; ring

/-- bookkeeping of the intervals, any subdivision routine, any point -/
theorem candsAfter_grid (subdiv : List (List K) → List (List K) × List (List K)) (point : List K)
    (nodes : List (List K)) : ∀ r, ∀ c ∈ candsAfter subdiv point nodes r,
      c.stop - c.start = (1 / 2) ^ r ∧ 0 ≤ c.start ∧ c.stop ≤ 1 := by
  intro r
  induction r with
  | zero =>
    intro c hc
    simp only [candsAfter, iter, List.mem_singleton] at hc
    subst hc; simp
  | succ r ih =>
    intro c' hc'
    rw [candsAfter_succ, mem_locateRound] at hc'
    obtain ⟨c, hc, -, rfl | rfl⟩ := hc'
    · obtain ⟨hw, h0, h1⟩ := ih c hc
      have hp : (0:K) ≤ (1/2)^r := by positivity
      refine ⟨?_, h0, ?_⟩
      · show (1 / 2) * (c.start + c.stop) - c.start = _
        rw [pow_succ, ← hw]; ring
      · show (1 / 2) * (c.start + c.stop) ≤ 1
        linarith
    · obtain ⟨hw, h0, h1⟩ := ih c hc
      have hp : (0:K) ≤ (1/2)^r := by positivity
      refine ⟨?_, ?_, h1⟩
      · show c.stop - (1 / 2) * (c.start + c.stop) = _
        rw [pow_succ, ← hw]; ring
      · show 0 ≤ (1 / 2) * (c.start + c.stop)
        linarith

/-- every candidate ever produced is the piece of the original curve over its interval -/
theorem candsAfter_pieces (thr : ℕ) (subdiv : List (List K) → List (List K) × List (List K))
    (hsub : Halving thr subdiv) (point : List K) (nodes : List (List K))
    (h : ∀ row ∈ nodes, 2 ≤ row.length) :
    ∀ r, ∀ c ∈ candsAfter subdiv point nodes r, IsPiece thr nodes c := by
  intro r
  induction r with
  | zero =>
    intro c hc
    simp only [candsAfter, iter, List.mem_singleton] at hc
    subst hc; exact isPiece_init thr nodes h
  | succ r ih =>
    intro c' hc'
    rw [candsAfter_succ, mem_locateRound] at hc'
    obtain ⟨c, hc, -, rfl | rfl⟩ := hc'
    · exact isPiece_left thr subdiv hsub nodes c (ih c hc)
    · exact isPiece_right thr subdiv hsub nodes c (ih c hc)

/-- completeness of the filter: a piece containing `s` is present after every round -/
theorem candsAfter_complete (thr : ℕ) (subdiv : List (List K) → List (List K) × List (List K))
    (hsub : Halving thr subdiv) (nodes : List (List K)) (h : ∀ row ∈ nodes, 2 ≤ row.length)
    (s : K) (hs0 : 0 ≤ s) (hs1 : s ≤ 1) :
    ∀ r, ∃ c ∈ candsAfter subdiv (evalPoint thr nodes s) nodes r,
      IsPiece thr nodes c ∧ c.start < c.stop ∧ c.start ≤ s ∧ s ≤ c.stop := by
  intro r
  induction r with
  | zero =>
    exact ⟨_, List.mem_singleton.mpr rfl, isPiece_init thr nodes h, zero_lt_one, hs0, hs1⟩
  | succ r ih =>
    obtain ⟨c, hc, hp, hw, h0, h1⟩ := ih
    obtain ⟨c', hc', hp', hw', h0', h1', -⟩ :=
      locateRound_keeps thr subdiv hsub nodes s _ c hc hp hw h0 h1
    rw [candsAfter_succ]
    exact ⟨c', hc', hp', hw', h0', h1'⟩

/-! ### the estimate before the Newton step -/

/-- the buffer of interval end points, its mean and variance, exactly as in `locatePoint` -/
def params (cands : List (LocCand K)) : List K := cands.map (·.start) ++ cands.map (·.stop)

def mean (cands : List (LocCand K)) : K :=
  (params cands).foldl (· + ·) 0 / (((params cands).length : ℕ) : K)

def var (cands : List (LocCand K)) : K :=
  ((params cands).foldl (fun acc p => acc + (p - mean cands) * (p - mean cands)) 0)
    / (((params cands).length : ℕ) : K)

/-- the `found` branch: candidates left, spread below the cap, one Newton step from the mean,
    clamped -/
theorem locatePoint_found (subdiv : List (List K) → List (List K) × List (List K))
    (thr rounds : ℕ) (capSq : K) (nodes : List (List K)) (point : List K) (t : K)
    (h : locatePoint subdiv thr rounds capSq nodes point = .found t) :
    candsAfter subdiv point nodes rounds ≠ [] ∧
    var (candsAfter subdiv point nodes rounds) ≤ capSq ∧
    t = max 0 (min 1 (newtonRefine thr nodes point (mean (candsAfter subdiv point nodes rounds)))) := by
  unfold locatePoint at h
  simp only at h
  split at h
  · cases h
  · rename_i hne
    split at h
    · cases h
    · rename_i hv
      refine ⟨by simpa using hne, not_lt.mp hv, ?_⟩
      split at h
      · rename_i h0
        cases h
        change newtonRefine thr nodes point (mean (candsAfter subdiv point nodes rounds)) < 0 at h0
        rw [min_eq_right (by linarith), max_eq_left h0.le]
      · rename_i h0
        split at h
        · rename_i h1
          cases h
          change 1 < newtonRefine thr nodes point (mean (candsAfter subdiv point nodes rounds)) at h1
          rw [min_eq_left h1.le, max_eq_right zero_le_one]
        · rename_i h1
          cases h
          change ¬ newtonRefine thr nodes point (mean (candsAfter subdiv point nodes rounds)) < 0 at h0
          change ¬ 1 < newtonRefine thr nodes point (mean (candsAfter subdiv point nodes rounds)) at h1
          rw [min_eq_right (not_lt.mp h1), max_eq_right (not_lt.mp h0)]
          rfl

theorem foldl_sq_mono (m : K) (l : List K) (a : K) :
    a ≤ l.foldl (fun acc p => acc + (p - m) * (p - m)) a := by
  induction l generalizing a with
  | nil => exact le_rfl
  | cons x rest ih =>
    rw [List.foldl_cons]
    exact le_trans (by nlinarith [mul_self_nonneg (x - m)]) (ih _)

theorem foldl_sq_ge (m : K) (l : List K) (a x : K) (hx : x ∈ l) :
    a + (x - m) * (x - m) ≤ l.foldl (fun acc p => acc + (p - m) * (p - m)) a := by
  induction l generalizing a with
  | nil => simp at hx
  | cons y rest ih =>
    rw [List.foldl_cons]
    rcases List.mem_cons.mp hx with rfl | hx
    · exact foldl_sq_mono m rest _
    · exact le_trans (by nlinarith [mul_self_nonneg (y - m)]) (ih _ hx)

/-- every end point is within `√(count · variance)` of the mean -/
theorem param_near_mean (cands : List (LocCand K)) (p : K) (hp : p ∈ params cands) :
    (p - mean cands) ^ 2 ≤ (((params cands).length : ℕ) : K) * var cands := by
  have hpos : (0 : K) < (((params cands).length : ℕ) : K) := by
    exact_mod_cast List.length_pos_of_mem hp
  have h := foldl_sq_ge (mean cands) (params cands) 0 p hp
  unfold var
  rw [mul_div_cancel₀ _ hpos.ne']
  rw [zero_add] at h
  rw [sq]; exact h

/-- if some candidate interval contains `s`, the mean is within `√(count · variance)` of `s` -/
theorem mean_near (cands : List (LocCand K)) (c : LocCand K) (hc : c ∈ cands) (s : K)
    (h0 : c.start ≤ s) (h1 : s ≤ c.stop) :
    (mean cands - s) ^ 2 ≤ (((params cands).length : ℕ) : K) * var cands := by
  have ha := param_near_mean cands c.start
    (List.mem_append_left _ (List.mem_map.mpr ⟨c, hc, rfl⟩))
  have hb := param_near_mean cands c.stop
    (List.mem_append_right _ (List.mem_map.mpr ⟨c, hc, rfl⟩))
  rcases le_total (mean cands) s with hm | hm
  · refine le_trans ?_ hb
    nlinarith
  · refine le_trans ?_ ha
    nlinarith

theorem params_length (cands : List (LocCand K)) : (params cands).length = 2 * cands.length := by
  simp [params]; ring

/-! ### the Newton step does not move an exact parameter -/

theorem foldl_zero_terms (p d : List K) (a : K) :
    (List.zipWith (· * ·) (List.zipWith (· - ·) p p) d).foldl (· + ·) a = a := by
  induction p generalizing d a with
  | nil => simp
  | cons x rest ih =>
    cases d with
    | nil => simp
    | cons y ds =>
      simp only [List.zipWith_cons_cons, List.foldl_cons, sub_self, zero_mul, add_zero]
      exact ih ds a

theorem newtonRefine_fixed (thr : ℕ) (nodes : List (List K)) (s : K) :
    newtonRefine thr nodes (evalPoint thr nodes s) s = s := by
  unfold newtonRefine dot subRow
  simp only
  rw [foldl_zero_terms, zero_div, add_zero]

/-- locating `B(s)`: in the `found` branch the result is one clamped Newton step from an estimate
    `m` with `(m - s)² ≤ count · cap²` -/
theorem found_estimate (thr : ℕ) (subdiv : List (List K) → List (List K) × List (List K))
    (hsub : Halving thr subdiv) (rounds : ℕ) (capSq : K) (nodes : List (List K))
    (h : ∀ row ∈ nodes, 2 ≤ row.length) (s : K) (hs0 : 0 ≤ s) (hs1 : s ≤ 1) (t : K)
    (hf : locatePoint subdiv thr rounds capSq nodes (evalPoint thr nodes s) = .found t) :
    ∃ m : K,
      (m - s) ^ 2 ≤ ((2 * (candsAfter subdiv (evalPoint thr nodes s) nodes rounds).length : ℕ) : K) * capSq ∧
      t = max 0 (min 1 (newtonRefine thr nodes (evalPoint thr nodes s) m)) := by
  obtain ⟨-, hv, ht⟩ := locatePoint_found subdiv thr rounds capSq nodes _ t hf
  obtain ⟨c, hc, -, -, h0, h1⟩ := candsAfter_complete thr subdiv hsub nodes h s hs0 hs1 rounds
  refine ⟨_, ?_, ht⟩
  have hm := mean_near _ c hc s h0 h1
  rw [params_length] at hm
  exact le_trans hm (mul_le_mul_of_nonneg_left hv (Nat.cast_nonneg _))

end BezierVerif.Locate
