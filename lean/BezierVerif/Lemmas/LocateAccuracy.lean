import BezierVerif.Lemmas.Locate
import BezierVerif.Lemmas.Lipschitz
import BezierVerif.Lemmas.EvalBary
import BezierVerif.Lemmas.Deriv
import BezierVerif.Lemmas.RoundingDeriv
import Mathlib.Algebra.Order.BigOperators.Ring.Finset
import Mathlib.Algebra.Order.BigOperators.Group.Finset
import Mathlib.Tactic.Positivity

/-!
# Lemmas/LocateAccuracy — quantitative round trip of `locate_point` (curve), exact arithmetic

* the Gauss–Newton step `s + ⟨p − B(s), B'(s)⟩/⟨B'(s), B'(s)⟩` for `p = B(s*)`: error identity
  `s_new − s* = ⟨R, B'(s)⟩ / ⟨B'(s), B'(s)⟩` with the Taylor remainders
  `R_r = B_r(s*) − B_r(s) − (s* − s) B_r'(s)`, `|R_r| ≤ (s* − s)² · C(n,2) · max|Δ²v|`
  (`Lipschitz.evalDC_taylor`); two ways of bounding it (`ℓ¹`: through `Σ_r |B_r'(s)| ≤ dim · n ·
  max|Δv|`; Cauchy–Schwarz: `err² · |B'(s)|² ≤ dim · ρ²`);
* the estimate of `locatePoint` (the mean of the interval end points) is the mean of the candidate
  midpoints: it lies in `[0,1]` and within `η` of `s*` as soon as every surviving midpoint does;
* the surviving candidates are pairwise ordered cells of the grid; the spread test bounds their
  number: `N · w² ≤ 4 · cap²` (`w = 2^-rounds`);
* the clamp to `[0,1]` does not move the result away from a parameter of the domain.
-/

set_option linter.unusedSectionVars false
set_option linter.unusedVariables false

namespace BezierVerif.LocateAcc

open Finset Model BezierVerif

variable {K : Type} [Field K] [LinearOrder K] [IsStrictOrderedRing K]

/-! ### the abstract Gauss–Newton step -/

theorem newton_abstract_error (d : ℕ) (f h : ℕ → K) (s sstar : K)
    (hden : (∑ r ∈ range d, h r * h r) ≠ 0) :
    s + (∑ r ∈ range d, f r * h r) / (∑ r ∈ range d, h r * h r) - sstar
      = (∑ r ∈ range d, (f r - (sstar - s) * h r) * h r) / (∑ r ∈ range d, h r * h r) := by
  have e : ∑ r ∈ range d, (f r - (sstar - s) * h r) * h r
      = (∑ r ∈ range d, f r * h r) - (sstar - s) * ∑ r ∈ range d, h r * h r := by
    rw [Finset.mul_sum, ← Finset.sum_sub_distrib]
    apply Finset.sum_congr rfl
    intro r _; ring
  rw [e]
  generalize (∑ r ∈ range d, h r * h r) = D at hden ⊢
  generalize (∑ r ∈ range d, f r * h r) = N
  field_simp
  ring

/-- `ℓ¹` bound of the remainder term -/
theorem sum_remainder_l1 (d : ℕ) (R h : ℕ → K) (ρ : K) (hR : ∀ r < d, |R r| ≤ ρ) :
    |∑ r ∈ range d, R r * h r| ≤ ρ * ∑ r ∈ range d, |h r| := by
  calc |∑ r ∈ range d, R r * h r| ≤ ∑ r ∈ range d, |R r * h r| := Finset.abs_sum_le_sum_abs _ _
    _ ≤ ∑ r ∈ range d, ρ * |h r| := by
        apply Finset.sum_le_sum
        intro r hr
        rw [abs_mul]
        exact mul_le_mul_of_nonneg_right (hR r (mem_range.mp hr)) (abs_nonneg _)
    _ = ρ * ∑ r ∈ range d, |h r| := by rw [Finset.mul_sum]

/-- Cauchy–Schwarz bound of the remainder term -/
theorem sum_remainder_cs (d : ℕ) (R h : ℕ → K) (ρ : K) (hρ : 0 ≤ ρ) (hR : ∀ r < d, |R r| ≤ ρ) :
    (∑ r ∈ range d, R r * h r) ^ 2 ≤ ((d : K) * ρ ^ 2) * ∑ r ∈ range d, h r * h r := by
  have h1 := Finset.sum_mul_sq_le_sq_mul_sq (range d) R h
  have h2 : ∑ r ∈ range d, R r ^ 2 ≤ (d : K) * ρ ^ 2 := by
    calc ∑ r ∈ range d, R r ^ 2 ≤ ∑ _r ∈ range d, ρ ^ 2 := by
          apply Finset.sum_le_sum
          intro r hr
          have := hR r (mem_range.mp hr)
          rw [← sq_abs]
          exact pow_le_pow_left₀ (abs_nonneg _) this 2
      _ = (d : K) * ρ ^ 2 := by simp
  have h3 : ∑ r ∈ range d, h r ^ 2 = ∑ r ∈ range d, h r * h r := by
    apply Finset.sum_congr rfl; intro r _; ring
  rw [h3] at h1
  refine le_trans h1 (mul_le_mul_of_nonneg_right h2 ?_)
  exact Finset.sum_nonneg (fun r _ => mul_self_nonneg _)

/-! ### the model's Newton step in sum form -/

theorem getD_mem {α : Type} (l : List α) (r : ℕ) (d : α) (hr : r < l.length) : l.getD r d ∈ l := by
  rw [List.getD_eq_getElem?_getD, List.getElem?_eq_getElem hr]
  exact List.getElem_mem hr

theorem newtonDen_eq_sum (thr : ℕ) (nodes : List (List K)) (s : K) :
    newtonDen thr nodes s
      = ∑ r ∈ range nodes.length,
          hodographRow thr (nodes.getD r []) s * hodographRow thr (nodes.getD r []) s := by
  unfold newtonDen
  rw [Subdivide.dot_eq_sum _ _ rfl]
  simp only [hodograph, List.length_map]
  apply Finset.sum_congr rfl
  intro r hr
  rw [Deriv.seq_map nodes _ [] r (mem_range.mp hr)]

theorem newtonNum_eq_sum (thr : ℕ) (nodes : List (List K)) (sstar s : K) :
    newtonNum thr nodes (evalPoint thr nodes sstar) s
      = ∑ r ∈ range nodes.length,
          (evalBary thr (nodes.getD r []) (1 - sstar) sstar - evalBary thr (nodes.getD r []) (1 - s) s)
            * hodographRow thr (nodes.getD r []) s := by
  unfold newtonNum
  rw [Subdivide.dot_eq_sum _ _ (by simp [Deriv.subRow_length, evalPoint, hodograph])]
  simp only [Deriv.subRow_length, evalPoint, hodograph, List.length_map, Nat.min_self]
  apply Finset.sum_congr rfl
  intro r hr
  have hr' := mem_range.mp hr
  rw [Deriv.seq_subRow _ _ r (by simpa using hr') (by simpa using hr'),
    Deriv.seq_map nodes _ [] r hr', Deriv.seq_map nodes _ [] r hr', Deriv.seq_map nodes _ [] r hr']

/-- **error identity** of the Newton step towards `p = B(s*)` -/
theorem newtonRefine_sub (thr : ℕ) (nodes : List (List K)) (sstar s : K)
    (hden : newtonDen thr nodes s ≠ 0) :
    newtonRefine thr nodes (evalPoint thr nodes sstar) s - sstar
      = (∑ r ∈ range nodes.length,
          (evalBary thr (nodes.getD r []) (1 - sstar) sstar - evalBary thr (nodes.getD r []) (1 - s) s
              - (sstar - s) * hodographRow thr (nodes.getD r []) s)
            * hodographRow thr (nodes.getD r []) s) / newtonDen thr nodes s := by
  rw [newtonRefine_eq, newtonNum_eq_sum]
  rw [newtonDen_eq_sum] at hden ⊢
  exact newton_abstract_error nodes.length _ _ s sstar hden

/-- Taylor remainder of one coordinate (`a = s*`, `b = s`), rows of `n + 1` nodes -/
theorem row_taylor (thr n : ℕ) (hn : 1 ≤ n) (row : List K) (hrow : row.length = n + 1)
    (sstar s D2 : K) (h0 : 0 ≤ sstar) (h1 : sstar ≤ 1) (hs0 : 0 ≤ s) (hs1 : s ≤ 1)
    (hD : ∀ d ∈ diffs (diffs row), |d| ≤ D2) :
    |evalBary thr row (1 - sstar) sstar - evalBary thr row (1 - s) s
        - (sstar - s) * hodographRow thr row s|
      ≤ (sstar - s) ^ 2 * (((n * (n - 1) / 2 : ℕ) : K) * D2) := by
  have h2 : 2 ≤ row.length := by omega
  rw [Geo.evalBary_eq_evalDC thr row h2, Geo.evalBary_eq_evalDC thr row h2,
    Geo.hodographRow_eq thr row h2]
  have := Lipschitz.evalDC_taylor row (row.length - 1) (by omega) (by omega) sstar s D2 h0 h1 hs0 hs1 hD
  have e : row.length - 1 = n := by omega
  rw [e] at this
  rw [e]
  exact this

/-- the hodograph is bounded by the control polygon: `|B_r'(s)| ≤ n · max|Δv|` on `[0,1]` -/
theorem hodographRow_abs_le (thr n : ℕ) (hn : 1 ≤ n) (row : List K) (hrow : row.length = n + 1)
    (s D1 : K) (hs0 : 0 ≤ s) (hs1 : s ≤ 1) (hD : ∀ d ∈ diffs row, |d| ≤ D1) :
    |hodographRow thr row s| ≤ (n : K) * D1 := by
  have h2 : 2 ≤ row.length := by omega
  rw [Geo.hodographRow_eq thr row h2]
  have e : row.length - 1 = n := by omega
  rw [e, abs_mul, abs_of_nonneg (Nat.cast_nonneg n)]
  apply mul_le_mul_of_nonneg_left _ (Nat.cast_nonneg n)
  have hl : (diffs row).length = (n - 1) + 1 := by rw [Lipschitz.diffs_length, hrow]; omega
  have hb := evalDC_in_bounds (diffs row) (n - 1) hl s (-D1) D1 hs0 hs1
    (fun x hx => (abs_le.mp (hD x hx)).1) (fun x hx => (abs_le.mp (hD x hx)).2)
  exact abs_le.mpr hb

/-! ### quadratic convergence of one Newton step towards a point of the curve -/

/-- **`ℓ¹` form**: `|s_new − s*| ≤ dim · (C(n,2) D₂) · (n D₁) / m₂ · (s* − s)²` -/
theorem newton_quadratic_l1 (thr n : ℕ) (hn : 1 ≤ n) (nodes : List (List K))
    (hN : ∀ row ∈ nodes, row.length = n + 1) (sstar s : K)
    (h0 : 0 ≤ sstar) (h1 : sstar ≤ 1) (hs0 : 0 ≤ s) (hs1 : s ≤ 1) (D1 D2 : K)
    (hD1 : ∀ row ∈ nodes, ∀ d ∈ diffs row, |d| ≤ D1)
    (hD2 : ∀ row ∈ nodes, ∀ d ∈ diffs (diffs row), |d| ≤ D2)
    (m2 : K) (hm : 0 < m2) (hden : m2 ≤ newtonDen thr nodes s) :
    |newtonRefine thr nodes (evalPoint thr nodes sstar) s - sstar|
      ≤ ((nodes.length : K) * (((n * (n - 1) / 2 : ℕ) : K) * D2) * ((n : K) * D1) / m2)
          * (sstar - s) ^ 2 := by
  have hpos : 0 < newtonDen thr nodes s := lt_of_lt_of_le hm hden
  rw [newtonRefine_sub thr nodes sstar s hpos.ne', abs_div, abs_of_pos hpos]
  set ρ := (sstar - s) ^ 2 * (((n * (n - 1) / 2 : ℕ) : K) * D2) with hρ
  have hR : ∀ r < nodes.length,
      |evalBary thr (nodes.getD r []) (1 - sstar) sstar - evalBary thr (nodes.getD r []) (1 - s) s
        - (sstar - s) * hodographRow thr (nodes.getD r []) s| ≤ ρ := by
    intro r hr
    have hmem := getD_mem nodes r [] hr
    exact row_taylor thr n hn _ (hN _ hmem) sstar s D2 h0 h1 hs0 hs1 (hD2 _ hmem)
  have hlen : 0 < nodes.length := by
    rcases Nat.eq_zero_or_pos nodes.length with hz | hp
    · have : nodes = [] := List.length_eq_zero_iff.mp hz
      subst this
      simp [newtonDen, hodograph, dot] at hpos
    · exact hp
  have hρ0 : 0 ≤ ρ := le_trans (abs_nonneg _) (hR 0 hlen)
  have hH : ∑ r ∈ range nodes.length, |hodographRow thr (nodes.getD r []) s|
      ≤ (nodes.length : K) * ((n : K) * D1) := by
    calc ∑ r ∈ range nodes.length, |hodographRow thr (nodes.getD r []) s|
        ≤ ∑ _r ∈ range nodes.length, (n : K) * D1 := by
          apply Finset.sum_le_sum
          intro r hr
          have hmem := getD_mem nodes r [] (mem_range.mp hr)
          exact hodographRow_abs_le thr n hn _ (hN _ hmem) s D1 hs0 hs1 (hD1 _ hmem)
      _ = (nodes.length : K) * ((n : K) * D1) := by simp
  have hS := sum_remainder_l1 nodes.length _ (fun r => hodographRow thr (nodes.getD r []) s) ρ hR
  have hS2 : |∑ r ∈ range nodes.length,
      (evalBary thr (nodes.getD r []) (1 - sstar) sstar - evalBary thr (nodes.getD r []) (1 - s) s
        - (sstar - s) * hodographRow thr (nodes.getD r []) s) * hodographRow thr (nodes.getD r []) s|
      ≤ ρ * ((nodes.length : K) * ((n : K) * D1)) :=
    le_trans hS (mul_le_mul_of_nonneg_left hH hρ0)
  have hnn : 0 ≤ ρ * ((nodes.length : K) * ((n : K) * D1)) := le_trans (abs_nonneg _) hS2
  calc _ ≤ ρ * ((nodes.length : K) * ((n : K) * D1)) / newtonDen thr nodes s :=
        div_le_div_of_nonneg_right hS2 hpos.le
    _ ≤ ρ * ((nodes.length : K) * ((n : K) * D1)) / m2 :=
        div_le_div_of_nonneg_left hnn hm hden
    _ = _ := by rw [hρ]; ring

/-- **Cauchy–Schwarz form** (no first-derivative bound): `err² · |B'(s)|² ≤ dim · (C(n,2) D₂ (s*−s)²)²` -/
theorem newton_quadratic_cs (thr n : ℕ) (hn : 1 ≤ n) (nodes : List (List K))
    (hN : ∀ row ∈ nodes, row.length = n + 1) (sstar s : K)
    (h0 : 0 ≤ sstar) (h1 : sstar ≤ 1) (hs0 : 0 ≤ s) (hs1 : s ≤ 1) (D2 : K)
    (hD2 : ∀ row ∈ nodes, ∀ d ∈ diffs (diffs row), |d| ≤ D2)
    (hpos : 0 < newtonDen thr nodes s) :
    (newtonRefine thr nodes (evalPoint thr nodes sstar) s - sstar) ^ 2 * newtonDen thr nodes s
      ≤ (nodes.length : K) * ((sstar - s) ^ 2 * (((n * (n - 1) / 2 : ℕ) : K) * D2)) ^ 2 := by
  rw [newtonRefine_sub thr nodes sstar s hpos.ne']
  set ρ := (sstar - s) ^ 2 * (((n * (n - 1) / 2 : ℕ) : K) * D2) with hρ
  have hR : ∀ r < nodes.length,
      |evalBary thr (nodes.getD r []) (1 - sstar) sstar - evalBary thr (nodes.getD r []) (1 - s) s
        - (sstar - s) * hodographRow thr (nodes.getD r []) s| ≤ ρ := by
    intro r hr
    have hmem := getD_mem nodes r [] hr
    exact row_taylor thr n hn _ (hN _ hmem) sstar s D2 h0 h1 hs0 hs1 (hD2 _ hmem)
  have hlen : 0 < nodes.length := by
    rcases Nat.eq_zero_or_pos nodes.length with hz | hp
    · have : nodes = [] := List.length_eq_zero_iff.mp hz
      subst this
      simp [newtonDen, hodograph, dot] at hpos
    · exact hp
  have hρ0 : 0 ≤ ρ := le_trans (abs_nonneg _) (hR 0 hlen)
  have hcs := sum_remainder_cs nodes.length _ (fun r => hodographRow thr (nodes.getD r []) s) ρ hρ0 hR
  rw [← newtonDen_eq_sum] at hcs
  rw [div_pow, div_mul_eq_mul_div, div_le_iff₀ (by positivity)]
  calc _ ≤ ((nodes.length : K) * ρ ^ 2 * newtonDen thr nodes s) * newtonDen thr nodes s :=
        mul_le_mul_of_nonneg_right hcs hpos.le
    _ = _ := by ring

/-- **speed form**: with `0 < g`, `g² ≤ |B'(s)|²` and `dim ≤ d²`:
    `|s_new − s*| ≤ d · C(n,2) D₂ / g · (s* − s)²` -/
theorem newton_quadratic_speed (thr n : ℕ) (hn : 1 ≤ n) (nodes : List (List K))
    (hN : ∀ row ∈ nodes, row.length = n + 1) (sstar s : K)
    (h0 : 0 ≤ sstar) (h1 : sstar ≤ 1) (hs0 : 0 ≤ s) (hs1 : s ≤ 1) (D2 : K)
    (hD2 : ∀ row ∈ nodes, ∀ d ∈ diffs (diffs row), |d| ≤ D2)
    (g d : K) (hg : 0 < g) (hgd : g ^ 2 ≤ newtonDen thr nodes s) (hd : 0 ≤ d)
    (hdim : (nodes.length : K) ≤ d ^ 2) :
    |newtonRefine thr nodes (evalPoint thr nodes sstar) s - sstar|
      ≤ (d * (((n * (n - 1) / 2 : ℕ) : K) * D2) / g) * (sstar - s) ^ 2 := by
  have hpos : 0 < newtonDen thr nodes s := lt_of_lt_of_le (by positivity) hgd
  have hcs := newton_quadratic_cs thr n hn nodes hN sstar s h0 h1 hs0 hs1 D2 hD2 hpos
  set e := newtonRefine thr nodes (evalPoint thr nodes sstar) s - sstar with he
  set ρ := (sstar - s) ^ 2 * (((n * (n - 1) / 2 : ℕ) : K) * D2) with hρ
  have hρ2 : 0 ≤ ρ ^ 2 := sq_nonneg _
  -- ρ ≥ 0 : from a row (there is one since den > 0)
  have hlen : 0 < nodes.length := by
    rcases Nat.eq_zero_or_pos nodes.length with hz | hp
    · have : nodes = [] := List.length_eq_zero_iff.mp hz
      subst this
      simp [newtonDen, hodograph, dot] at hpos
    · exact hp
  have hρ0 : 0 ≤ ρ := by
    have hmem := getD_mem nodes 0 [] hlen
    exact le_trans (abs_nonneg _)
      (row_taylor thr n hn _ (hN _ hmem) sstar s D2 h0 h1 hs0 hs1 (hD2 _ hmem))
  have h2 : (g * |e|) ^ 2 ≤ (d * ρ) ^ 2 := by
    calc (g * |e|) ^ 2 = e ^ 2 * g ^ 2 := by rw [mul_pow, sq_abs]; ring
      _ ≤ e ^ 2 * newtonDen thr nodes s := mul_le_mul_of_nonneg_left hgd (sq_nonneg _)
      _ ≤ (nodes.length : K) * ρ ^ 2 := hcs
      _ ≤ d ^ 2 * ρ ^ 2 := mul_le_mul_of_nonneg_right hdim hρ2
      _ = (d * ρ) ^ 2 := by ring
  have h3 : g * |e| ≤ d * ρ :=
    (pow_le_pow_iff_left₀ (by positivity) (by positivity) (by norm_num)).mp h2
  calc |e| = g * |e| / g := by field_simp
    _ ≤ d * ρ / g := div_le_div_of_nonneg_right h3 hg.le
    _ = _ := by rw [hρ]; ring

/-! ### the clamp -/

theorem clamp_near (x sstar : K) (h0 : 0 ≤ sstar) (h1 : sstar ≤ 1) :
    |max 0 (min 1 x) - sstar| ≤ |x - sstar| := by
  rcases le_total x 0 with hx | hx
  · rw [min_eq_right (by linarith), max_eq_left hx, abs_le]
    constructor
    · have := neg_abs_le (x - sstar); linarith
    · have := neg_abs_le (x - sstar); have := le_abs_self (x - sstar)
      rw [abs_of_nonpos (by linarith : x - sstar ≤ 0)]; linarith
  · rcases le_total x 1 with hx1 | hx1
    · rw [min_eq_right hx1, max_eq_right hx]
    · rw [min_eq_left hx1, max_eq_right zero_le_one, abs_of_nonneg (by linarith),
        abs_of_nonneg (by linarith)]
      linarith

/-! ### the estimate: mean of the interval end points = mean of the candidate midpoints -/

theorem foldl_add_sum (l : List K) (a : K) : l.foldl (· + ·) a = a + l.sum := by
  induction l generalizing a with
  | nil => simp
  | cons x rest ih => rw [List.foldl_cons, ih, List.sum_cons]; ring

theorem params_sum (cands : List (LocCand K)) :
    (Locate.params cands).foldl (· + ·) 0 = (cands.map (fun c => c.start + c.stop)).sum := by
  rw [foldl_add_sum, zero_add]
  unfold Locate.params
  rw [List.sum_append]
  induction cands with
  | nil => simp
  | cons c rest ih =>
    simp only [List.map_cons, List.sum_cons] at ih ⊢
    linarith

theorem mid_sum_bounds (cands : List (LocCand K)) (lo hi : K)
    (h : ∀ c ∈ cands, 2 * lo ≤ c.start + c.stop ∧ c.start + c.stop ≤ 2 * hi) :
    (cands.length : K) * (2 * lo) ≤ (cands.map (fun c => c.start + c.stop)).sum ∧
      (cands.map (fun c => c.start + c.stop)).sum ≤ (cands.length : K) * (2 * hi) := by
  induction cands with
  | nil => simp
  | cons c rest ih =>
    obtain ⟨a, b⟩ := ih (fun c' hc' => h c' (List.mem_cons_of_mem _ hc'))
    obtain ⟨a', b'⟩ := h c (List.mem_cons_self)
    simp only [List.map_cons, List.sum_cons, List.length_cons, Nat.cast_add, Nat.cast_one]
    constructor <;> linarith

/-- the mean lies between any bounds of the candidate midpoints -/
theorem mean_bounds (cands : List (LocCand K)) (hne : cands ≠ []) (lo hi : K)
    (h : ∀ c ∈ cands, 2 * lo ≤ c.start + c.stop ∧ c.start + c.stop ≤ 2 * hi) :
    lo ≤ Locate.mean cands ∧ Locate.mean cands ≤ hi := by
  have hN : (0 : K) < (cands.length : K) := by
    exact_mod_cast List.length_pos_iff.mpr hne
  obtain ⟨a, b⟩ := mid_sum_bounds cands lo hi h
  unfold Locate.mean
  rw [params_sum, Locate.params_length]
  have hc : (0 : K) < ((2 * cands.length : ℕ) : K) := by push_cast; linarith
  constructor
  · rw [le_div_iff₀ hc]; push_cast; linarith
  · rw [div_le_iff₀ hc]; push_cast; linarith

/-- … in particular within `η` of `s*` when every midpoint is -/
theorem mean_near_local (cands : List (LocCand K)) (hne : cands ≠ []) (sstar η : K)
    (h : ∀ c ∈ cands, |c.start + c.stop - 2 * sstar| ≤ 2 * η) :
    |Locate.mean cands - sstar| ≤ η := by
  obtain ⟨a, b⟩ := mean_bounds cands hne (sstar - η) (sstar + η) (by
    intro c hc
    have := abs_le.mp (h c hc)
    constructor <;> linarith [this.1, this.2])
  rw [abs_le]; constructor <;> linarith

/-! ### the last round: the final candidates are the two halves of the cells that passed the last test -/

theorem locateRound_mid_sum (subdiv : List (List K) → List (List K) × List (List K))
    (point : List K) (cands : List (LocCand K)) :
    ((locateRound subdiv point cands).map (fun c => c.start + c.stop)).sum
        = 2 * ((cands.filter (fun c => containsND c.nodes point)).map (fun c => c.start + c.stop)).sum ∧
      (locateRound subdiv point cands).length
        = 2 * (cands.filter (fun c => containsND c.nodes point)).length := by
  induction cands with
  | nil => simp [locateRound]
  | cons c rest ih =>
    have e : locateRound subdiv point (c :: rest)
        = (if containsND c.nodes point then
            [{ start := c.start, stop := (1 / (1 + 1) : K) * (c.start + c.stop), nodes := (subdiv c.nodes).1 },
             { start := (1 / (1 + 1) : K) * (c.start + c.stop), stop := c.stop, nodes := (subdiv c.nodes).2 }]
           else []) ++ locateRound subdiv point rest := by
      simp [locateRound]
    obtain ⟨ih1, ih2⟩ := ih
    rw [e]
    by_cases hb : containsND c.nodes point = true
    · rw [if_pos hb, List.filter_cons_of_pos (by simpa using hb)]
      simp only [List.cons_append, List.nil_append, List.map_cons, List.sum_cons, List.length_cons,
        ih1, ih2, Locate.half_eq]
      constructor
      · ring
      · omega
    · rw [if_neg hb, List.filter_cons_of_neg (by simpa using hb), List.nil_append]
      exact ⟨ih1, ih2⟩

/-- the mean after a round lies between any bounds of the midpoints of the cells that passed the
    box test of that round -/
theorem mean_bounds_parents (subdiv : List (List K) → List (List K) × List (List K))
    (point : List K) (cands : List (LocCand K)) (hne : locateRound subdiv point cands ≠ [])
    (lo hi : K)
    (h : ∀ c ∈ cands, containsND c.nodes point = true →
      2 * lo ≤ c.start + c.stop ∧ c.start + c.stop ≤ 2 * hi) :
    lo ≤ Locate.mean (locateRound subdiv point cands) ∧
      Locate.mean (locateRound subdiv point cands) ≤ hi := by
  obtain ⟨hs, hl⟩ := locateRound_mid_sum subdiv point cands
  set P := cands.filter (fun c => containsND c.nodes point) with hP
  have hPpos : 0 < P.length := by
    have : 0 < (locateRound subdiv point cands).length := List.length_pos_iff.mpr hne
    omega
  have hN : (0 : K) < (P.length : K) := by exact_mod_cast hPpos
  obtain ⟨a, b⟩ := mid_sum_bounds P lo hi (by
    intro c hc
    obtain ⟨hc1, hc2⟩ := List.mem_filter.mp hc
    exact h c hc1 (by simpa using hc2))
  unfold Locate.mean
  rw [params_sum, Locate.params_length, hs, hl]
  have hc : (0 : K) < ((2 * (2 * P.length) : ℕ) : K) := by push_cast; linarith
  constructor
  · rw [le_div_iff₀ hc]; push_cast; linarith
  · rw [div_le_iff₀ hc]; push_cast; linarith

/-! ### the surviving candidates are ordered grid cells; the spread test bounds their number -/

/-- `c` lies to the left of `c'` -/
def Before (c c' : LocCand K) : Prop := c.stop ≤ c'.start

theorem locateRound_pairwise (subdiv : List (List K) → List (List K) × List (List K))
    (point : List K) (cands : List (LocCand K)) (hp : cands.Pairwise Before)
    (hw : ∀ c ∈ cands, c.start ≤ c.stop) :
    (locateRound subdiv point cands).Pairwise Before := by
  unfold locateRound
  rw [List.pairwise_flatMap]
  constructor
  · intro c hc
    split
    · simp only [List.pairwise_cons, List.mem_singleton, List.not_mem_nil, forall_eq,
        IsEmpty.forall_iff, implies_true, List.Pairwise.nil, and_true]
      show (1 / (1 + 1) : K) * (c.start + c.stop) ≤ (1 / (1 + 1) : K) * (c.start + c.stop)
      exact le_rfl
    · exact List.Pairwise.nil
  · refine List.Pairwise.imp_of_mem ?_ hp
    intro a b ha hb hab x hx y hy
    have hwa := hw a ha
    have hwb := hw b hb
    have hx' : x.stop ≤ a.stop := by
      split at hx
      · simp only [Locate.half_eq, List.mem_cons, List.not_mem_nil, or_false] at hx
        rcases hx with rfl | rfl
        · show (1 / 2 : K) * (a.start + a.stop) ≤ a.stop; linarith
        · exact le_rfl
      · simp at hx
    have hy' : b.start ≤ y.start := by
      split at hy
      · simp only [Locate.half_eq, List.mem_cons, List.not_mem_nil, or_false] at hy
        rcases hy with rfl | rfl
        · exact le_rfl
        · show b.start ≤ (1 / 2 : K) * (b.start + b.stop); linarith
      · simp at hy
    exact le_trans hx' (le_trans hab hy')

theorem candsAfter_pairwise (subdiv : List (List K) → List (List K) × List (List K))
    (point : List K) (nodes : List (List K)) (r : ℕ) :
    (Locate.candsAfter subdiv point nodes r).Pairwise Before := by
  induction r with
  | zero => simp [Locate.candsAfter, iter]
  | succ r ih =>
    rw [Locate.candsAfter_succ]
    apply locateRound_pairwise _ _ _ ih
    intro c hc
    have := (Locate.candsAfter_grid subdiv point nodes r c hc).1
    have hp : (0:K) ≤ (1/2)^r := by positivity
    linarith

/-- `N` ordered cells of width `w` span at least `N·w` -/
theorem span_of_pairwise (w : K) : ∀ (c : LocCand K) (rest : List (LocCand K)),
    (c :: rest).Pairwise Before → (∀ x ∈ c :: rest, x.stop - x.start = w) →
    ∃ b ∈ c :: rest, (((c :: rest).length : ℕ) : K) * w ≤ b.stop - c.start := by
  intro c rest
  induction rest generalizing c with
  | nil =>
    intro _ hw
    refine ⟨c, List.mem_cons_self, ?_⟩
    have := hw c List.mem_cons_self
    simp only [List.length_singleton, Nat.cast_one, one_mul]
    linarith
  | cons c2 rest ih =>
    intro hp hw
    have hp2 : (c2 :: rest).Pairwise Before := (List.pairwise_cons.mp hp).2
    obtain ⟨b, hb, hspan⟩ := ih c2 hp2 (fun x hx => hw x (List.mem_cons_of_mem _ hx))
    refine ⟨b, List.mem_cons_of_mem _ hb, ?_⟩
    have h12 : c.stop ≤ c2.start := (List.pairwise_cons.mp hp).1 c2 List.mem_cons_self
    have hwc := hw c List.mem_cons_self
    have e : (((c :: c2 :: rest).length : ℕ) : K) = (((c2 :: rest).length : ℕ) : K) + 1 := by
      simp
    rw [e]
    linarith

/-- the sum of squared deviations dominates one start and one stop -/
theorem spread_two (cands : List (LocCand K)) (a b : LocCand K) (ha : a ∈ cands) (hb : b ∈ cands) :
    (a.start - Locate.mean cands) ^ 2 + (b.stop - Locate.mean cands) ^ 2
      ≤ (((Locate.params cands).length : ℕ) : K) * Locate.var cands := by
  have hpos : (0 : K) < (((Locate.params cands).length : ℕ) : K) := by
    have : 0 < (Locate.params cands).length := by
      rw [Locate.params_length]
      have := List.length_pos_of_mem ha
      omega
    exact_mod_cast this
  unfold Locate.var
  rw [mul_div_cancel₀ _ hpos.ne']
  unfold Locate.params
  rw [List.foldl_append]
  have h1 := Locate.foldl_sq_ge (Locate.mean cands) (cands.map (·.start)) 0 a.start
    (List.mem_map.mpr ⟨a, ha, rfl⟩)
  have h2 := Locate.foldl_sq_ge (Locate.mean cands) (cands.map (·.stop))
    ((cands.map (·.start)).foldl (fun acc p => acc + (p - Locate.mean cands) * (p - Locate.mean cands)) 0)
    b.stop (List.mem_map.mpr ⟨b, hb, rfl⟩)
  rw [sq, sq]
  linarith

/-- **the spread test bounds the number of surviving candidates**: `N · w² ≤ 4 · cap²` -/
theorem count_bound (subdiv : List (List K) → List (List K) × List (List K))
    (point : List K) (nodes : List (List K)) (r : ℕ) (capSq : K)
    (hv : Locate.var (Locate.candsAfter subdiv point nodes r) ≤ capSq) :
    (((Locate.candsAfter subdiv point nodes r).length : ℕ) : K) * ((1 / 2) ^ r) ^ 2 ≤ 4 * capSq := by
  set cands := Locate.candsAfter subdiv point nodes r with hc
  rcases hcs : cands with _ | ⟨c, rest⟩
  · simp only [List.length_nil, Nat.cast_zero, zero_mul]
    have : 0 ≤ Locate.var cands := by
      rw [hcs]; simp [Locate.var, Locate.params]
    linarith
  · have hpw : (c :: rest).Pairwise Before := by
      rw [← hcs]; exact candsAfter_pairwise subdiv point nodes r
    have hw : ∀ x ∈ c :: rest, x.stop - x.start = (1 / 2 : K) ^ r := by
      intro x hx
      rw [← hcs] at hx
      exact (Locate.candsAfter_grid subdiv point nodes r x hx).1
    obtain ⟨b, hb, hspan⟩ := span_of_pairwise ((1 / 2 : K) ^ r) c rest hpw hw
    have hsp := spread_two (c :: rest) c b List.mem_cons_self hb
    rw [Locate.params_length] at hsp
    rw [hcs] at hv
    set m := Locate.mean (c :: rest)
    set N : K := (((c :: rest).length : ℕ) : K) with hNdef
    have hNpos : 0 < N := by rw [hNdef]; simp only [List.length_cons]; positivity
    have hwpos : (0:K) < (1/2)^r := by positivity
    have h2N : ((2 * (c :: rest).length : ℕ) : K) = 2 * N := by rw [hNdef]; push_cast; ring
    rw [h2N] at hsp
    have h1 : (N * (1/2)^r) ^ 2 ≤ (b.stop - c.start) ^ 2 :=
      pow_le_pow_left₀ (by positivity) hspan 2
    have h2 : (b.stop - c.start) ^ 2 ≤ 2 * ((c.start - m) ^ 2 + (b.stop - m) ^ 2) := by
      nlinarith [sq_nonneg ((c.start - m) + (b.stop - m))]
    have h3 : 2 * N * Locate.var (c :: rest) ≤ 2 * N * capSq :=
      mul_le_mul_of_nonneg_left hv (by positivity)
    have h4 : N * (N * ((1/2)^r)^2) ≤ N * (4 * capSq) := by
      have : N * (N * ((1/2:K)^r)^2) = (N * (1/2)^r)^2 := by ring
      rw [this]; linarith
    exact le_of_mul_le_mul_left h4 hNpos

/-! ### what the `found` branch says about the estimate -/

/-- the estimate lies in the domain -/
theorem mean_in_domain (subdiv : List (List K) → List (List K) × List (List K))
    (point : List K) (nodes : List (List K)) (r : ℕ)
    (hne : Locate.candsAfter subdiv point nodes r ≠ []) :
    0 ≤ Locate.mean (Locate.candsAfter subdiv point nodes r) ∧
      Locate.mean (Locate.candsAfter subdiv point nodes r) ≤ 1 := by
  apply mean_bounds _ hne 0 1
  intro c hc
  obtain ⟨hw, h0, h1⟩ := Locate.candsAfter_grid subdiv point nodes r c hc
  have hp : (0:K) ≤ (1/2)^r := by positivity
  constructor <;> linarith

/-- locating `B(s*)`, `found t`: the estimate `m` (mean of the end points) is in `[0,1]`,
    `(m − s*)² ≤ 2N·cap²`, `N·w² ≤ 4·cap²`, and `t` is the clamped Newton step from `m` -/
theorem found_mean (thr : ℕ) (subdiv : List (List K) → List (List K) × List (List K))
    (hsub : Locate.Halving thr subdiv) (rounds : ℕ) (capSq : K) (nodes : List (List K))
    (h : ∀ row ∈ nodes, 2 ≤ row.length) (sstar : K) (hs0 : 0 ≤ sstar) (hs1 : sstar ≤ 1) (t : K)
    (hf : locatePoint subdiv thr rounds capSq nodes (evalPoint thr nodes sstar) = .found t) :
    Locate.candsAfter subdiv (evalPoint thr nodes sstar) nodes rounds ≠ [] ∧
    0 ≤ Locate.mean (Locate.candsAfter subdiv (evalPoint thr nodes sstar) nodes rounds) ∧
    Locate.mean (Locate.candsAfter subdiv (evalPoint thr nodes sstar) nodes rounds) ≤ 1 ∧
    (Locate.mean (Locate.candsAfter subdiv (evalPoint thr nodes sstar) nodes rounds) - sstar) ^ 2
      ≤ ((2 * (Locate.candsAfter subdiv (evalPoint thr nodes sstar) nodes rounds).length : ℕ) : K)
          * capSq ∧
    (((Locate.candsAfter subdiv (evalPoint thr nodes sstar) nodes rounds).length : ℕ) : K)
        * ((1 / 2) ^ rounds) ^ 2 ≤ 4 * capSq ∧
    t = max 0 (min 1 (newtonRefine thr nodes (evalPoint thr nodes sstar)
          (Locate.mean (Locate.candsAfter subdiv (evalPoint thr nodes sstar) nodes rounds)))) := by
  obtain ⟨hne, hv, ht⟩ := Locate.locatePoint_found subdiv thr rounds capSq nodes _ t hf
  obtain ⟨c, hc, -, -, h0, h1⟩ := Locate.candsAfter_complete thr subdiv hsub nodes h sstar hs0 hs1 rounds
  obtain ⟨hm0, hm1⟩ := mean_in_domain subdiv _ nodes rounds hne
  refine ⟨hne, hm0, hm1, ?_, count_bound subdiv _ nodes rounds capSq hv, ht⟩
  have hm := Locate.mean_near _ c hc sstar h0 h1
  rw [Locate.params_length] at hm
  exact le_trans hm (mul_le_mul_of_nonneg_left hv (Nat.cast_nonneg _))

/-! ### nets with an increasing coordinate: only cells containing `s*` pass the box test -/

/-- the control values of the row increase by at least `μ` from one to the next -/
def IncRow (μ : K) (row : List K) : Prop := ∀ d ∈ diffs row, μ ≤ d

theorem fdiff_ge_of_incRow (μ : K) (row : List K) (h : IncRow μ row) (j : ℕ)
    (hj : j + 1 < row.length) : μ ≤ Lipschitz.fdiff (seq row) j := by
  rw [← Lipschitz.seq_diffs row j hj]
  exact h _ (seq_mem (diffs row) j (by rw [Lipschitz.diffs_length]; omega))

theorem mem_seq (l : List K) (d : K) (hd : d ∈ l) : ∃ j, j < l.length ∧ seq l j = d := by
  obtain ⟨j, hj, e⟩ := List.mem_iff_getElem.mp hd
  refine ⟨j, hj, ?_⟩
  unfold seq
  rw [List.getD_eq_getElem?_getD, List.getElem?_eq_getElem hj]
  simpa using e

/-- a coordinate with increasing control values is strictly increasing on `[0,1]` -/
theorem evalBary_strictMono (thr : ℕ) (row : List K) (h2 : 2 ≤ row.length) (μ : K) (hμ : 0 < μ)
    (h : IncRow μ row) (a b : K) (ha0 : 0 ≤ a) (ha1 : a ≤ 1) (hb0 : 0 ≤ b) (hb1 : b ≤ 1)
    (hab : a < b) : evalBary thr row (1 - a) a < evalBary thr row (1 - b) b := by
  rw [Geo.evalBary_eq_evalDC thr row h2, Geo.evalBary_eq_evalDC thr row h2,
    evalDC_eq _ _ (row.length - 1) row (by omega), evalDC_eq _ _ (row.length - 1) row (by omega)]
  have hsub := Lipschitz.curve_sub (row.length - 1) (seq row) b a
  unfold Lipschitz.curve at hsub
  have hsum : ((row.length - 1 : ℕ) : K) * μ ≤ ∑ k ∈ range (row.length - 1),
      (((T (1-b) b)^k * (T (1-a) a)^(row.length - 1 - 1 - k)) (Lipschitz.fdiff (seq row))) 0 := by
    calc ((row.length - 1 : ℕ) : K) * μ = ∑ _k ∈ range (row.length - 1), μ := by simp
      _ ≤ _ := by
        apply Finset.sum_le_sum
        intro k hk
        have hk' := mem_range.mp hk
        exact Lipschitz.blossom_ge b a μ hb0 hb1 ha0 ha1 k (row.length - 1 - 1 - k) 0
          (Lipschitz.fdiff (seq row))
          (fun j hj => fdiff_ge_of_incRow μ row h j (by omega)) 0 le_rfl
  have hnpos : (0 : K) < ((row.length - 1 : ℕ) : K) := by
    have : 0 < row.length - 1 := by omega
    exact_mod_cast this
  have : 0 < (b - a) * ∑ k ∈ range (row.length - 1),
      (((T (1-b) b)^k * (T (1-a) a)^(row.length - 1 - 1 - k)) (Lipschitz.fdiff (seq row))) 0 :=
    mul_pos (sub_pos.mpr hab) (lt_of_lt_of_le (mul_pos hnpos hμ) hsum)
  linarith

/-- the end control values are the end points -/
theorem evalBary_at_zero (thr : ℕ) (row : List K) (h2 : 2 ≤ row.length) :
    evalBary thr row (1 - 0) 0 = seq row 0 := by
  rw [Geo.evalBary_eq_evalDC thr row h2, evalDC_eq _ _ (row.length - 1) row (by omega), sub_zero,
    Subdivide.T_one_zero, one_pow]
  rfl

theorem evalBary_at_one (thr : ℕ) (row : List K) (h2 : 2 ≤ row.length) :
    evalBary thr row (1 - 1) 1 = seq row (row.length - 1) := by
  rw [Geo.evalBary_eq_evalDC thr row h2, evalDC_eq _ _ (row.length - 1) row (by omega), sub_self,
    Subdivide.T_zero_one, S_pow_apply, zero_add]

/-- in a non-decreasing row every entry lies between the first and the last -/
theorem inc_bounds : ∀ (row : List K), (∀ d ∈ diffs row, 0 ≤ d) → ∀ x ∈ row,
    seq row 0 ≤ x ∧ x ≤ seq row (row.length - 1)
  | [], _, x, hx => by simp at hx
  | [a], _, x, hx => by
      simp only [List.mem_singleton] at hx
      subst hx; simp [seq]
  | a :: b :: rest, h, x, hx => by
      have hab : 0 ≤ b - a := h _ (by simp [diffs])
      have ih := inc_bounds (b :: rest) (fun d hd => h d (by simp [diffs]; exact Or.inr hd))
      have e0 : seq (a :: b :: rest) 0 = a := rfl
      have e1 : seq (a :: b :: rest) ((a :: b :: rest).length - 1)
          = seq (b :: rest) ((b :: rest).length - 1) := by
        simp [seq]
      have hb0 : seq (b :: rest) 0 = b := rfl
      rw [e0, e1]
      rcases List.mem_cons.mp hx with rfl | hx'
      · refine ⟨le_rfl, ?_⟩
        have := (ih b (by simp)).2
        linarith
      · obtain ⟨i1, i2⟩ := ih x hx'
        rw [hb0] at i1
        exact ⟨by linarith, i2⟩

/-- the blossom specialisation to `[α, β] ⊆ [0,1]` of an increasing row is increasing -/
theorem specializeRow_inc (row : List K) (h1 : 1 ≤ row.length) (μ : K) (h : IncRow μ row)
    (α β : K) (hα0 : 0 ≤ α) (hα1 : α ≤ 1) (hβ0 : 0 ≤ β) (hβ1 : β ≤ 1) (hαβ : α ≤ β) :
    IncRow ((β - α) * μ) (Py.specializeRow row α β) := by
  intro d hd
  obtain ⟨j, hj, rfl⟩ := mem_seq _ d hd
  rw [Lipschitz.diffs_length, Subdivide.specializeRow_length] at hj
  rw [Lipschitz.seq_diffs _ j (by rw [Subdivide.specializeRow_length]; omega)]
  unfold Lipschitz.fdiff
  rw [Subdivide.seq_specializeRow row α β (j + 1) (by omega),
    Subdivide.seq_specializeRow row α β j (by omega)]
  unfold specPt
  set n := row.length - 1 with hn
  set A := T (1 - α) α with hA
  set B := T (1 - β) β with hB
  obtain ⟨m, hm⟩ : ∃ m, n - j = m + 1 := ⟨n - j - 1, by omega⟩
  have hm' : n - (j + 1) = m := by omega
  rw [hm, hm']
  have hc : Commute B (A ^ m) := (T_commute _ _ _ _).pow_right m
  have key : B ^ (j + 1) * A ^ m - B ^ j * A ^ (m + 1) = (B ^ j * A ^ m) * (B - A) := by
    rw [pow_succ, pow_succ, mul_assoc, hc.eq, mul_sub, mul_assoc, mul_assoc]
  have e : ((B ^ (j + 1) * A ^ m) (seq row)) 0 - ((B ^ j * A ^ (m + 1)) (seq row)) 0
      = ((B ^ (j + 1) * A ^ m - B ^ j * A ^ (m + 1)) (seq row)) 0 := by simp
  rw [e, key, Module.End.mul_apply, hA, hB, Lipschitz.T_sub, map_smul]
  simp only [Pi.smul_apply, smul_eq_mul]
  apply mul_le_mul_of_nonneg_left _ (sub_nonneg.mpr hαβ)
  exact Lipschitz.blossom_ge β α μ hβ0 hβ1 hα0 hα1 j m 0 (Lipschitz.fdiff (seq row))
    (fun i hi => fdiff_ge_of_incRow μ row h i (by omega)) 0 le_rfl

/-- what the bisection needs from the subdivision routine to keep coordinate `r0` increasing -/
structure IncPreserving (r0 : ℕ) (subdiv : List (List K) → List (List K) × List (List K)) : Prop where
  left : ∀ (nodes : List (List K)) (μ : K), (∀ row ∈ nodes, 2 ≤ row.length) → r0 < nodes.length →
    0 < μ → IncRow μ (nodes.getD r0 []) → ∃ μ' : K, 0 < μ' ∧ IncRow μ' ((subdiv nodes).1.getD r0 [])
  right : ∀ (nodes : List (List K)) (μ : K), (∀ row ∈ nodes, 2 ≤ row.length) → r0 < nodes.length →
    0 < μ → IncRow μ (nodes.getD r0 []) → ∃ μ' : K, 0 < μ' ∧ IncRow μ' ((subdiv nodes).2.getD r0 [])

theorem getD_map_list {α β : Type} (l : List α) (f : α → β) (r : ℕ) (da : α) (db : β)
    (hr : r < l.length) : (l.map f).getD r db = f (l.getD r da) := by
  simp [List.getD_eq_getElem?_getD, hr]

theorem incPreserving_py (r0 : ℕ) : IncPreserving (K := K) r0 Py.subdivide where
  left := by
    intro nodes μ h hr hμ hinc
    have hmem := getD_mem nodes r0 [] hr
    have h1 : 1 ≤ (nodes.getD r0 []).length := by have := h _ hmem; omega
    refine ⟨(1 / 2 - 0) * μ, by positivity, ?_⟩
    show IncRow _ ((nodes.map (fun r => (Py.subdivideRow r).1)).getD r0 [])
    rw [getD_map_list nodes _ r0 [] [] hr, C04.subdivide_is_specialize _ h1]
    exact specializeRow_inc _ h1 μ hinc 0 (1 / 2) le_rfl zero_le_one (by norm_num) (by norm_num)
      (by norm_num)
  right := by
    intro nodes μ h hr hμ hinc
    have hmem := getD_mem nodes r0 [] hr
    have h1 : 1 ≤ (nodes.getD r0 []).length := by have := h _ hmem; omega
    refine ⟨(1 - 1 / 2) * μ, by positivity, ?_⟩
    show IncRow _ ((nodes.map (fun r => (Py.subdivideRow r).2)).getD r0 [])
    rw [getD_map_list nodes _ r0 [] [] hr, C04.subdivide_is_specialize _ h1]
    exact specializeRow_inc _ h1 μ hinc (1 / 2) 1 (by norm_num) (by norm_num) zero_le_one le_rfl
      (by norm_num)

theorem incPreserving_f90 (r0 : ℕ) : IncPreserving (K := K) r0 F90.subdivide := by
  have e : ∀ nodes : List (List K), (∀ row ∈ nodes, 2 ≤ row.length) →
      F90.subdivide nodes = Py.subdivide nodes :=
    fun nodes h => Locate.f90_subdivide_eq nodes (fun r hr => by have := h r hr; omega)
  have hp := incPreserving_py (K := K) r0
  exact {
    left := fun nodes μ h hr hμ hinc => by rw [e nodes h]; exact hp.left nodes μ h hr hμ hinc
    right := fun nodes μ h hr hμ hinc => by rw [e nodes h]; exact hp.right nodes μ h hr hμ hinc }

/-- the number of rows of a piece -/
theorem piece_rows_length (thr : ℕ) (nodes : List (List K)) (c : LocCand K)
    (hc : Locate.IsPiece thr nodes c) : c.nodes.length = nodes.length := by
  have := congrArg List.length (hc.repar 0)
  simpa [evalPoint] using this

/-- every candidate keeps coordinate `r0` increasing -/
theorem candsAfter_inc (thr : ℕ) (subdiv : List (List K) → List (List K) × List (List K))
    (hsub : Locate.Halving thr subdiv) (r0 : ℕ) (hinc : IncPreserving r0 subdiv) (point : List K)
    (nodes : List (List K)) (h : ∀ row ∈ nodes, 2 ≤ row.length) (hr0 : r0 < nodes.length)
    (μ : K) (hμ : 0 < μ) (h0 : IncRow μ (nodes.getD r0 [])) :
    ∀ r, ∀ c ∈ Locate.candsAfter subdiv point nodes r,
      ∃ μ' : K, 0 < μ' ∧ IncRow μ' (c.nodes.getD r0 []) := by
  intro r
  induction r with
  | zero =>
    intro c hc
    simp only [Locate.candsAfter, iter, List.mem_singleton] at hc
    subst hc; exact ⟨μ, hμ, h0⟩
  | succ r ih =>
    intro c' hc'
    rw [Locate.candsAfter_succ, Locate.mem_locateRound] at hc'
    obtain ⟨c, hc, -, rfl | rfl⟩ := hc'
    · obtain ⟨μ', hμ', hi⟩ := ih c hc
      have hp := Locate.candsAfter_pieces thr subdiv hsub point nodes h r c hc
      exact hinc.left c.nodes μ' hp.rows (by rw [piece_rows_length thr nodes c hp]; exact hr0) hμ' hi
    · obtain ⟨μ', hμ', hi⟩ := ih c hc
      have hp := Locate.candsAfter_pieces thr subdiv hsub point nodes h r c hc
      exact hinc.right c.nodes μ' hp.rows (by rw [piece_rows_length thr nodes c hp]; exact hr0) hμ' hi

/-- **a net with an increasing coordinate: a cell passes the box test only if it contains `s*`** -/
theorem monotone_contained (thr : ℕ) (subdiv : List (List K) → List (List K) × List (List K))
    (hsub : Locate.Halving thr subdiv) (r0 : ℕ) (hinc : IncPreserving r0 subdiv)
    (nodes : List (List K)) (h : ∀ row ∈ nodes, 2 ≤ row.length) (hr0 : r0 < nodes.length)
    (μ : K) (hμ : 0 < μ) (h0 : IncRow μ (nodes.getD r0 []))
    (sstar : K) (hs0 : 0 ≤ sstar) (hs1 : sstar ≤ 1) (r : ℕ) :
    ∀ c ∈ Locate.candsAfter subdiv (evalPoint thr nodes sstar) nodes r,
      containsND c.nodes (evalPoint thr nodes sstar) = true → c.start ≤ sstar ∧ sstar ≤ c.stop := by
  intro c hc hbox
  have hp := Locate.candsAfter_pieces thr subdiv hsub (evalPoint thr nodes sstar) nodes h r c hc
  obtain ⟨hw, hc0, hc1⟩ := Locate.candsAfter_grid subdiv (evalPoint thr nodes sstar) nodes r c hc
  have hwpos : (0:K) < (1/2)^r := by positivity
  obtain ⟨μ', hμ', hi⟩ := candsAfter_inc thr subdiv hsub r0 hinc _ nodes h hr0 μ hμ h0 r c hc
  have hlen := piece_rows_length thr nodes c hp
  have hr0c : r0 < c.nodes.length := by rw [hlen]; exact hr0
  set rowc := c.nodes.getD r0 [] with hrowc
  set row := nodes.getD r0 [] with hrow
  have hrowc2 : 2 ≤ rowc.length := hp.rows _ (getD_mem c.nodes r0 [] hr0c)
  have hrow2 : 2 ≤ row.length := h _ (getD_mem nodes r0 [] hr0)
  -- the tested coordinate
  have hbox' := (Locate.containsND_iff c.nodes (evalPoint thr nodes sstar)).mp hbox r0 hr0c
    (by simpa [evalPoint] using hr0)
  have hpt : (evalPoint thr nodes sstar).getD r0 0 = evalBary thr row (1 - sstar) sstar :=
    Deriv.seq_map nodes _ [] r0 hr0
  rw [hpt, Locate.containsRow_iff] at hbox'
  obtain ⟨⟨x, hx, hxp⟩, ⟨y, hy, hyp⟩⟩ := hbox'
  have hnonneg : ∀ d ∈ diffs rowc, 0 ≤ d := fun d hd => le_trans hμ'.le (hi d hd)
  obtain ⟨hx0, -⟩ := inc_bounds rowc hnonneg x hx
  obtain ⟨-, hy1⟩ := inc_bounds rowc hnonneg y hy
  -- the end control values are the values at the ends of the interval
  have hfirst : seq rowc 0 = evalBary thr row (1 - c.start) c.start := by
    have e : seq (evalPoint thr c.nodes 0) r0
        = seq (evalPoint thr nodes (c.start + 0 * (c.stop - c.start))) r0 := by rw [hp.repar 0]
    unfold evalPoint at e
    rw [Deriv.seq_map c.nodes _ [] r0 hr0c, Deriv.seq_map nodes _ [] r0 hr0] at e
    rw [← evalBary_at_zero thr rowc hrowc2, e]
    congr 1 <;> ring
  have hlast : seq rowc (rowc.length - 1) = evalBary thr row (1 - c.stop) c.stop := by
    have e : seq (evalPoint thr c.nodes 1) r0
        = seq (evalPoint thr nodes (c.start + 1 * (c.stop - c.start))) r0 := by rw [hp.repar 1]
    unfold evalPoint at e
    rw [Deriv.seq_map c.nodes _ [] r0 hr0c, Deriv.seq_map nodes _ [] r0 hr0] at e
    rw [← evalBary_at_one thr rowc hrowc2, e]
    congr 1 <;> ring
  rw [hfirst] at hx0
  rw [hlast] at hy1
  constructor
  · by_contra hlt
    have hlt' : sstar < c.start := not_le.mp hlt
    have := evalBary_strictMono thr row hrow2 μ hμ h0 sstar c.start hs0 hs1 hc0 (by linarith) hlt'
    linarith
  · by_contra hlt
    have hlt' : c.stop < sstar := not_le.mp hlt
    have := evalBary_strictMono thr row hrow2 μ hμ h0 c.stop sstar (by linarith) hc1 hs0 hs1 hlt'
    linarith

end BezierVerif.LocateAcc
