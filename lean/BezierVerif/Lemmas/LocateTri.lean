import BezierVerif.Model.LocateTri
import BezierVerif.Lemmas.Locate
import BezierVerif.Props.C05
import BezierVerif.Props.C09
import BezierVerif.Props.C11Triangle
import Mathlib.Algebra.Order.Field.Basic
import Mathlib.Tactic.Ring
import Mathlib.Tactic.Linarith
import Mathlib.Tactic.FieldSimp
import Mathlib.Tactic.Positivity

/-!
# Lemmas/LocateTri — helpers for C10 (triangle `locate_point`)

* the convex-hull property of the triangle de Casteljau operator: with weights in the simplex every
  value of `T3^n` lies between the bounds of the net, hence a point of the surface over the closed
  reference triangle passes the closed control-point box test (`containsND_surf`);
* `Quartering d subdiv`: what the search needs from a subdivision routine (the four pieces keep the
  row lengths and are the surface over the four quarters), established for
  `Py.triSubdivideNodes` / `F90.triSubdivideNodes` from Props/C09;
* `IsPiece`: a candidate `(cx, cy, width, nodes)` carries the restriction of the original surface to
  the affine image `(σ,τ) ↦ ((cx - width)/3 + width·σ, (cy - width)/3 + width·τ)` of the reference
  triangle (negative `width`: the middle triangle, rotated by a half turn);
* the round invariant (`rounds_general`), Python loop = Fortran loop with early return.
-/

set_option linter.unusedSectionVars false
set_option linter.unusedVariables false

namespace BezierVerif.LocateTri

open Model BezierVerif BezierVerif.Tri

variable {K : Type} [Field K] [LinearOrder K] [IsStrictOrderedRing K]

/-! ### convex-hull property -/

theorem T3_pow_ge (l1 l2 l3 lo : K) (h1 : 0 ≤ l1) (h2 : 0 ≤ l2) (h3 : 0 ≤ l3) (hs : l1 + l2 + l3 = 1) :
    ∀ (n : ℕ) (w : Net K) (j k : ℕ), (∀ j' k', j' + k' ≤ j + k + n → lo ≤ w j' k') →
      lo ≤ ((T3 l1 l2 l3)^n) w j k := by
  intro n
  induction n with
  | zero => intro w j k h; simpa using h j k (by omega)
  | succ n ih =>
    intro w j k h
    rw [pow_succ', Module.End.mul_apply, T3_apply]
    have a := ih w j k (fun j' k' hh => h j' k' (by omega))
    have b := ih w (j+1) k (fun j' k' hh => h j' k' (by omega))
    have c := ih w j (k+1) (fun j' k' hh => h j' k' (by omega))
    have e : lo = l1 * lo + l2 * lo + l3 * lo := by rw [← add_mul, ← add_mul, hs, one_mul]
    rw [e]
    exact add_le_add (add_le_add (mul_le_mul_of_nonneg_left a h1) (mul_le_mul_of_nonneg_left b h2))
      (mul_le_mul_of_nonneg_left c h3)

theorem T3_pow_le (l1 l2 l3 hi : K) (h1 : 0 ≤ l1) (h2 : 0 ≤ l2) (h3 : 0 ≤ l3) (hs : l1 + l2 + l3 = 1) :
    ∀ (n : ℕ) (w : Net K) (j k : ℕ), (∀ j' k', j' + k' ≤ j + k + n → w j' k' ≤ hi) →
      ((T3 l1 l2 l3)^n) w j k ≤ hi := by
  intro n
  induction n with
  | zero => intro w j k h; simpa using h j k (by omega)
  | succ n ih =>
    intro w j k h
    rw [pow_succ', Module.End.mul_apply, T3_apply]
    have a := ih w j k (fun j' k' hh => h j' k' (by omega))
    have b := ih w (j+1) k (fun j' k' hh => h j' k' (by omega))
    have c := ih w j (k+1) (fun j' k' hh => h j' k' (by omega))
    have e : hi = l1 * hi + l2 * hi + l3 * hi := by rw [← add_mul, ← add_mul, hs, one_mul]
    rw [e]
    exact add_le_add (add_le_add (mul_le_mul_of_nonneg_left a h1) (mul_le_mul_of_nonneg_left b h2))
      (mul_le_mul_of_nonneg_left c h3)

/-- an entry of the net of a full-length row is an element of the row -/
theorem netOf_mem (d : ℕ) (row : List K) (h : row.length = numNodes d) (j k : ℕ) (hjk : j + k ≤ d) :
    netOf d row j k ∈ row := by
  have hk : k ≤ d := by omega
  have hlt : rowStart d k + j < row.length := by
    have := rowStart_add_le d k hk
    rw [h, numNodes_eq_rowStart]; omega
  unfold netOf seq
  rw [List.getD_eq_getElem?_getD, List.getElem?_eq_getElem hlt, Option.getD_some]
  exact List.getElem_mem hlt

/-- **convex-hull property**: the Bernstein value with weights in the simplex lies between any
    lower and upper bound of the control values -/
theorem triBern_bounds (d : ℕ) (row : List K) (h : row.length = numNodes d) (l1 l2 l3 lo hi : K)
    (h1 : 0 ≤ l1) (h2 : 0 ≤ l2) (h3 : 0 ≤ l3) (hs : l1 + l2 + l3 = 1)
    (hlo : ∀ x ∈ row, lo ≤ x) (hhi : ∀ x ∈ row, x ≤ hi) :
    lo ≤ triBern d l1 l2 l3 (netOf d row) ∧ triBern d l1 l2 l3 (netOf d row) ≤ hi := by
  rw [← T3_pow_apply_zero']
  constructor
  · exact T3_pow_ge l1 l2 l3 lo h1 h2 h3 hs d _ 0 0
      (fun j' k' hh => hlo _ (netOf_mem d row h j' k' (by omega)))
  · exact T3_pow_le l1 l2 l3 hi h1 h2 h3 hs d _ 0 0
      (fun j' k' hh => hhi _ (netOf_mem d row h j' k' (by omega)))

theorem numNodes_pos (d : ℕ) : 1 ≤ numNodes d := by
  rw [numNodes_eq_rowStart, rowStart_succ]; omega

/-- … hence it passes the closed box test of its own control values -/
theorem containsRow_triBern (d : ℕ) (row : List K) (h : row.length = numNodes d) (l1 l2 l3 : K)
    (h1 : 0 ≤ l1) (h2 : 0 ≤ l2) (h3 : 0 ≤ l3) (hs : l1 + l2 + l3 = 1) :
    containsRow row (triBern d l1 l2 l3 (netOf d row)) = true := by
  have hne : row ≠ [] := by
    intro e; subst e
    have := numNodes_pos d
    simp at h; omega
  obtain ⟨lo, hlo, hmin⟩ := Locate.exists_min row hne
  obtain ⟨hi, hhi, hmax⟩ := Locate.exists_max row hne
  exact (Locate.containsRow_iff_of_min_max row _ lo hi hlo hhi hmin hmax).mpr
    (triBern_bounds d row h l1 l2 l3 lo hi h1 h2 h3 hs hmin hmax)

/-! ### the surface and the closed reference triangle -/

/-- the closed reference triangle `s ≥ 0, t ≥ 0, s + t ≤ 1` -/
def InRef (s t : K) : Prop := 0 ≤ s ∧ 0 ≤ t ∧ s + t ≤ 1

/-- the point `B(s,t)` of the surface with control net `nodes` (every coordinate row) -/
def surf (d : ℕ) (nodes : List (List K)) (s t : K) : List K :=
  nodes.map (fun row => triBern d (1 - s - t) s t (netOf d row))

theorem surf_cons (d : ℕ) (row : List K) (nodes : List (List K)) (s t : K) :
    surf d (row :: nodes) s t = triBern d (1 - s - t) s t (netOf d row) :: surf d nodes s t := rfl

/-- what `evaluate_barycentric` at Cartesian parameters computes -/
theorem evalBarycentric_eq_surf (thr d : ℕ) (nodes : List (List K))
    (h : ∀ row ∈ nodes, row.length = numNodes d) (s t : K) :
    Py.evalBarycentric thr d nodes (cartesian s t) = surf d nodes s t := by
  unfold Py.evalBarycentric surf
  apply List.map_congr_left
  intro row hrow
  exact C05.eval_eq_bernstein thr d row (h row hrow) (cartesian s t)

/-- a point of the surface over the closed reference triangle passes the box test -/
theorem containsND_surf (d : ℕ) (nodes : List (List K)) (h : ∀ row ∈ nodes, row.length = numNodes d)
    (s t : K) (hst : InRef s t) : containsND nodes (surf d nodes s t) = true := by
  induction nodes with
  | nil => simp [containsND]
  | cons row rest ih =>
    rw [surf_cons, Locate.containsND_cons, Bool.and_eq_true]
    refine ⟨?_, ih (fun r hr => h r (List.mem_cons_of_mem _ hr))⟩
    obtain ⟨h0, h1, h2⟩ := hst
    exact containsRow_triBern d row (h row (by simp)) _ _ _ (by linarith) h0 h1 (by ring)

/-! ### what the search needs from the subdivision routine -/

/-- the four pieces keep the row lengths and are the surface over the four quarters of the
    reference triangle, in the documented order -/
structure Quartering (d : ℕ) (subdiv : List (List K) → Except Err (TriFour K)) : Prop where
  ok : ∀ nodes : List (List K), (∀ row ∈ nodes, row.length = numNodes d) →
    ∃ four, subdiv nodes = .ok four ∧
      (∀ row ∈ four.a, row.length = numNodes d) ∧ (∀ row ∈ four.b, row.length = numNodes d) ∧
      (∀ row ∈ four.c, row.length = numNodes d) ∧ (∀ row ∈ four.d, row.length = numNodes d) ∧
      (∀ σ τ : K, surf d four.a σ τ = surf d nodes (σ/2) (τ/2)) ∧
      (∀ σ τ : K, surf d four.b σ τ = surf d nodes ((1-σ)/2) ((1-τ)/2)) ∧
      (∀ σ τ : K, surf d four.c σ τ = surf d nodes ((1+σ)/2) (τ/2)) ∧
      (∀ σ τ : K, surf d four.d σ τ = surf d nodes (σ/2) ((1+τ)/2))

theorem surf_map (d : ℕ) (nodes : List (List K)) (f : List K → List K) (s t : K) :
    surf d (nodes.map f) s t = nodes.map (fun row => triBern d (1 - s - t) s t (netOf d (f row))) := by
  unfold surf; rw [List.map_map]; rfl

theorem generic_length (d : ℕ) (row : List K) (h : row.length = numNodes d) (qt : Quarter) :
    (F90.triSubdivideGenericRow (subWeights (K := K)) d row qt).length = numNodes d := by
  unfold F90.triSubdivideGenericRow
  exact C09.specialize_length d row h _ _ _

/-- the four generic pieces of a net -/
def genericFour (d : ℕ) (nodes : List (List K)) : TriFour K :=
  ⟨nodes.map (fun r => F90.triSubdivideGenericRow subWeights d r .A),
   nodes.map (fun r => F90.triSubdivideGenericRow subWeights d r .B),
   nodes.map (fun r => F90.triSubdivideGenericRow subWeights d r .C),
   nodes.map (fun r => F90.triSubdivideGenericRow subWeights d r .D)⟩

theorem genericFour_spec (d : ℕ) (nodes : List (List K)) (h : ∀ row ∈ nodes, row.length = numNodes d) :
    (∀ row ∈ (genericFour d nodes).a, row.length = numNodes d) ∧
    (∀ row ∈ (genericFour d nodes).b, row.length = numNodes d) ∧
    (∀ row ∈ (genericFour d nodes).c, row.length = numNodes d) ∧
    (∀ row ∈ (genericFour d nodes).d, row.length = numNodes d) ∧
    (∀ σ τ : K, surf d (genericFour d nodes).a σ τ = surf d nodes (σ/2) (τ/2)) ∧
    (∀ σ τ : K, surf d (genericFour d nodes).b σ τ = surf d nodes ((1-σ)/2) ((1-τ)/2)) ∧
    (∀ σ τ : K, surf d (genericFour d nodes).c σ τ = surf d nodes ((1+σ)/2) (τ/2)) ∧
    (∀ σ τ : K, surf d (genericFour d nodes).d σ τ = surf d nodes (σ/2) ((1+τ)/2)) := by
  have hl : ∀ (qt : Quarter), ∀ row ∈ nodes.map (fun r => F90.triSubdivideGenericRow (subWeights (K := K)) d r qt),
      row.length = numNodes d := by
    intro qt row hrow
    obtain ⟨r, hr, rfl⟩ := List.mem_map.mp hrow
    exact generic_length d r (h r hr) qt
  refine ⟨hl .A, hl .B, hl .C, hl .D, ?_, ?_, ?_, ?_⟩
  · intro σ τ
    show surf d (nodes.map _) σ τ = _
    rw [surf_map]; unfold surf
    apply List.map_congr_left
    intro row hrow
    exact C09.quarter_A d row (h row hrow) σ τ
  · intro σ τ
    show surf d (nodes.map _) σ τ = _
    rw [surf_map]; unfold surf
    apply List.map_congr_left
    intro row hrow
    exact C09.quarter_B d row (h row hrow) σ τ
  · intro σ τ
    show surf d (nodes.map _) σ τ = _
    rw [surf_map]; unfold surf
    apply List.map_congr_left
    intro row hrow
    exact C09.quarter_C d row (h row hrow) σ τ
  · intro σ τ
    show surf d (nodes.map _) σ τ = _
    rw [surf_map]; unfold surf
    apply List.map_congr_left
    intro row hrow
    exact C09.quarter_D d row (h row hrow) σ τ

/-- Fortran `subdivide_nodes` (closed forms of degree 1–4 = model-derived matrices: Tables/C09b) -/
theorem quartering_f90 (forms : ℕ → Quarter → List (List K))
    (hf : ∀ d qt, 1 ≤ d → d ≤ 4 → forms d qt = triSubdivMat subWeights d qt) (d : ℕ) :
    Quartering d (F90.triSubdivideNodes forms subWeights d) where
  ok := by
    intro nodes h
    refine ⟨genericFour d nodes, ?_, genericFour_spec d nodes h⟩
    unfold F90.triSubdivideNodes genericFour
    have e : ∀ qt, nodes.map (fun r => F90.triSubdivideNodesRow forms subWeights d r qt)
        = nodes.map (fun r => F90.triSubdivideGenericRow subWeights d r qt) := by
      intro qt
      apply List.map_congr_left
      intro row hrow
      exact C09.subdivide_nodes_f90 forms subWeights hf d row (h row hrow) qt
    rw [e .A, e .B, e .C, e .D]

/-- Python `subdivide_nodes` (tables of degree 1–4 = model-derived matrices: Tables/C09a);
    degree 0 is the `KeyError` branch -/
theorem quartering_py (tables : ℕ → Quarter → List (List K))
    (ht : ∀ d qt, 1 ≤ d → d ≤ 4 → tables d qt = triSubdivMat subWeights d qt) (d : ℕ) (hd : 1 ≤ d) :
    Quartering d (Py.triSubdivideNodes tables subWeights d) where
  ok := by
    intro nodes h
    refine ⟨genericFour d nodes, ?_, genericFour_spec d nodes h⟩
    have e : ∀ qt, triMapE (fun r => Py.triSubdivideNodesRow tables subWeights d r qt) nodes
        = .ok (nodes.map (fun r => F90.triSubdivideGenericRow subWeights d r qt)) := by
      intro qt
      apply mapE_ok
      intro row hrow
      exact C09.subdivide_nodes_py tables subWeights ht d hd row (h row hrow) qt
    unfold Py.triSubdivideNodes genericFour
    rw [e .A, e .B, e .C, e .D]

/-- the generic path (four `specialize_triangle` calls per row) as a subdivision routine -/
theorem quartering_generic (d : ℕ) :
    Quartering (K := K) d (fun nodes => .ok (genericFour d nodes)) where
  ok := fun nodes h => ⟨genericFour d nodes, rfl, genericFour_spec d nodes h⟩

/-! ### candidates as pieces of the original surface -/

/-- the affine image of the local parameter `(σ, τ)` under the bookkeeping of a candidate -/
def candS (c : TriCand K) (σ : K) : K := (c.cx - c.width) / 3 + c.width * σ
def candT (c : TriCand K) (τ : K) : K := (c.cy - c.width) / 3 + c.width * τ

/-- a candidate that is the restriction of the original surface to its sub-triangle -/
structure IsPiece (d : ℕ) (nodes : List (List K)) (c : TriCand K) : Prop where
  rows : ∀ row ∈ c.nodes, row.length = numNodes d
  repar : ∀ σ τ : K, surf d c.nodes σ τ = surf d nodes (candS c σ) (candT c τ)

/-- the three vertices of the sub-triangle lie in the closed reference triangle -/
def VerticesInRef (c : TriCand K) : Prop :=
  InRef (candS c 0) (candT c 0) ∧ InRef (candS c 1) (candT c 0) ∧ InRef (candS c 0) (candT c 1)

theorem half_eq : (1 / (1 + 1) : K) = 1 / 2 := by norm_num

theorem isPiece_init (d : ℕ) (nodes : List (List K)) (h : ∀ row ∈ nodes, row.length = numNodes d) :
    IsPiece d nodes { cx := 1, cy := 1, width := 1, nodes := nodes } where
  rows := h
  repar := by intro σ τ; simp [candS, candT]

theorem verticesInRef_init (nodes : List (List K)) :
    VerticesInRef ({ cx := 1, cy := 1, width := 1, nodes := nodes } : TriCand K) := by
  simp [VerticesInRef, InRef, candS, candT]

theorem mem_triSplitCand (c : TriCand K) (four : TriFour K) (c' : TriCand K) :
    c' ∈ triSplitCand c four ↔
      c' = ⟨c.cx - 1/2 * c.width, c.cy - 1/2 * c.width, 1/2 * c.width, four.a⟩ ∨
      c' = ⟨c.cx, c.cy, -(1/2 * c.width), four.b⟩ ∨
      c' = ⟨c.cx + c.width, c.cy - 1/2 * c.width, 1/2 * c.width, four.c⟩ ∨
      c' = ⟨c.cx - 1/2 * c.width, c.cy + c.width, 1/2 * c.width, four.d⟩ := by
  unfold triSplitCand
  simp only [half_eq, List.mem_cons, List.not_mem_nil, or_false]

/-- the children of a piece are pieces (the affine maps compose as the bookkeeping says) -/
theorem isPiece_children (d : ℕ) (subdiv : List (List K) → Except Err (TriFour K))
    (hq : Quartering d subdiv) (nodes : List (List K)) (c : TriCand K) (hc : IsPiece d nodes c)
    (four : TriFour K) (hfour : subdiv c.nodes = .ok four) :
    ∀ c' ∈ triSplitCand c four, IsPiece d nodes c' := by
  obtain ⟨four', h4, ra, rb, rc, rd, sa, sb, sc, sd⟩ := hq.ok c.nodes hc.rows
  rw [hfour] at h4
  cases h4
  intro c' hc'
  rw [mem_triSplitCand] at hc'
  rcases hc' with rfl | rfl | rfl | rfl
  · refine ⟨ra, ?_⟩
    intro σ τ
    show surf d four.a σ τ = _
    rw [sa, hc.repar]
    simp only [candS, candT]
    congr 1 <;> ring
  · refine ⟨rb, ?_⟩
    intro σ τ
    show surf d four.b σ τ = _
    rw [sb, hc.repar]
    simp only [candS, candT]
    congr 1 <;> ring
  · refine ⟨rc, ?_⟩
    intro σ τ
    show surf d four.c σ τ = _
    rw [sc, hc.repar]
    simp only [candS, candT]
    congr 1 <;> ring
  · refine ⟨rd, ?_⟩
    intro σ τ
    show surf d four.d σ τ = _
    rw [sd, hc.repar]
    simp only [candS, candT]
    congr 1 <;> ring

/-- the vertices of the children are vertices or edge midpoints of the parent -/
theorem verticesInRef_children (c : TriCand K) (hc : VerticesInRef c) (four : TriFour K) :
    ∀ c' ∈ triSplitCand c four, VerticesInRef c' := by
  intro c' hc'
  rw [mem_triSplitCand] at hc'
  obtain ⟨⟨a1, a2, a3⟩, ⟨b1, b2, b3⟩, ⟨c1, c2, c3⟩⟩ := hc
  simp only [candS, candT] at a1 a2 a3 b1 b2 b3 c1 c2 c3
  rcases hc' with rfl | rfl | rfl | rfl <;>
    simp only [VerticesInRef, InRef, candS, candT] <;>
    refine ⟨⟨?_, ?_, ?_⟩, ⟨?_, ?_, ?_⟩, ⟨?_, ?_, ?_⟩⟩ <;> linarith

/-- the width is halved in absolute value; only the middle piece changes the sign -/
theorem width_children (c : TriCand K) (four : TriFour K) (n : ℕ)
    (hw : c.width = (1/2)^n ∨ c.width = -(1/2)^n) :
    ∀ c' ∈ triSplitCand c four, c'.width = (1/2)^(n+1) ∨ c'.width = -(1/2)^(n+1) := by
  intro c' hc'
  rw [mem_triSplitCand] at hc'
  rcases hc' with rfl | rfl | rfl | rfl <;> rcases hw with hw | hw <;> simp only [hw, pow_succ] <;>
    first
      | (left; ring; done)
      | (right; ring; done)

/-- a local parameter in the closed reference triangle lies in (at least) one of the four quarters:
    the child and its local parameter -/
theorem holds_children (c : TriCand K) (four : TriFour K) (s t σ τ : K) (hst : InRef σ τ)
    (hs : candS c σ = s) (ht : candT c τ = t) :
    ∃ c' ∈ triSplitCand c four, ∃ σ' τ', InRef σ' τ' ∧ candS c' σ' = s ∧ candT c' τ' = t := by
  obtain ⟨h0, h1, h2⟩ := hst
  simp only [candS, candT] at hs ht
  by_cases hA : σ + τ ≤ 1/2
  · refine ⟨_, (mem_triSplitCand c four _).mpr (Or.inl rfl), 2 * σ, 2 * τ, ⟨by linarith, by linarith, by linarith⟩, ?_, ?_⟩
    · simp only [candS]; rw [← hs]; ring
    · simp only [candT]; rw [← ht]; ring
  · by_cases hC : 1/2 ≤ σ
    · refine ⟨_, (mem_triSplitCand c four _).mpr (Or.inr (Or.inr (Or.inl rfl))), 2 * σ - 1, 2 * τ,
        ⟨by linarith, by linarith, by linarith⟩, ?_, ?_⟩
      · simp only [candS]; rw [← hs]; ring
      · simp only [candT]; rw [← ht]; ring
    · by_cases hD : 1/2 ≤ τ
      · refine ⟨_, (mem_triSplitCand c four _).mpr (Or.inr (Or.inr (Or.inr rfl))), 2 * σ, 2 * τ - 1,
          ⟨by linarith, by linarith, by linarith⟩, ?_, ?_⟩
        · simp only [candS]; rw [← hs]; ring
        · simp only [candT]; rw [← ht]; ring
      · push Not at hA hC hD
        refine ⟨_, (mem_triSplitCand c four _).mpr (Or.inr (Or.inl rfl)), 1 - 2 * σ, 1 - 2 * τ,
          ⟨by linarith, by linarith, by linarith⟩, ?_, ?_⟩
        · simp only [candS]; rw [← hs]; ring
        · simp only [candT]; rw [← ht]; ring

/-- a piece whose sub-triangle contains the pre-image is never rejected by the box test -/
theorem piece_contains (d : ℕ) (nodes : List (List K)) (c : TriCand K) (hc : IsPiece d nodes c)
    (s t σ τ : K) (hst : InRef σ τ) (hs : candS c σ = s) (ht : candT c τ = t) :
    containsND c.nodes (surf d nodes s t) = true := by
  rw [← hs, ← ht, ← hc.repar]
  exact containsND_surf d c.nodes hc.rows σ τ hst

/-! ### one round and the loops -/

theorem triLocateRound_nil (subdiv : List (List K) → Except Err (TriFour K)) (point : List K) :
    triLocateRound subdiv point [] = .ok [] := rfl

/-- if the subdivision succeeds on every candidate that passes the box test, the round succeeds
    and yields exactly the children of the candidates that pass -/
theorem triLocateRound_ok (subdiv : List (List K) → Except Err (TriFour K)) (point : List K) :
    ∀ cands : List (TriCand K),
      (∀ c ∈ cands, containsND c.nodes point = true → ∃ four, subdiv c.nodes = .ok four) →
      ∃ next, triLocateRound subdiv point cands = .ok next ∧
        ∀ c', c' ∈ next ↔ ∃ c ∈ cands, containsND c.nodes point = true ∧
          ∃ four, subdiv c.nodes = .ok four ∧ c' ∈ triSplitCand c four := by
  intro cands
  induction cands with
  | nil => intro _; exact ⟨[], rfl, by simp⟩
  | cons c rest ih =>
    intro h
    obtain ⟨more, hmore, hmem⟩ := ih (fun c' hc' => h c' (List.mem_cons_of_mem _ hc'))
    by_cases hb : containsND c.nodes point = true
    · obtain ⟨four, hfour⟩ := h c (by simp) hb
      refine ⟨triSplitCand c four ++ more, ?_, ?_⟩
      · simp only [triLocateRound, hb, if_true, hfour, hmore]
      · intro c'
        rw [List.mem_append, hmem]
        constructor
        · rintro (hl | ⟨c0, hc0, hrest⟩)
          · exact ⟨c, by simp, hb, four, hfour, hl⟩
          · exact ⟨c0, List.mem_cons_of_mem _ hc0, hrest⟩
        · rintro ⟨c0, hc0, hb0, four0, hfour0, hin⟩
          rcases List.mem_cons.mp hc0 with rfl | hc0
          · left
            rw [hfour] at hfour0
            cases hfour0
            exact hin
          · exact Or.inr ⟨c0, hc0, hb0, four0, hfour0, hin⟩
    · refine ⟨more, ?_, ?_⟩
      · simp only [triLocateRound, hb, Bool.false_eq_true, if_false, hmore]
      · intro c'
        rw [hmem]
        constructor
        · rintro ⟨c0, hc0, hrest⟩
          exact ⟨c0, List.mem_cons_of_mem _ hc0, hrest⟩
        · rintro ⟨c0, hc0, hb0, hrest⟩
          rcases List.mem_cons.mp hc0 with rfl | hc0
          · exact absurd hb0 hb
          · exact ⟨c0, hc0, hb0, hrest⟩

theorem py_rounds_nil (subdiv : List (List K) → Except Err (TriFour K)) (point : List K) :
    ∀ r, Py.triLocateRounds subdiv point r [] = .ok [] := by
  intro r
  induction r with
  | zero => rfl
  | succ r ih => simp only [Py.triLocateRounds, triLocateRound_nil, ih]

/-- the Fortran loop (early return when a round leaves no candidate) computes what the Python
    loop computes -/
theorem f90_rounds_eq_py (subdiv : List (List K) → Except Err (TriFour K)) (point : List K) :
    ∀ r cands, F90.triLocateRounds subdiv point r cands = Py.triLocateRounds subdiv point r cands := by
  intro r
  induction r with
  | zero => intro cands; rfl
  | succ r ih =>
    intro cands
    simp only [F90.triLocateRounds, Py.triLocateRounds]
    cases hround : triLocateRound subdiv point cands with
    | error e => rfl
    | ok next =>
      simp only
      cases next with
      | nil => simp [py_rounds_nil]
      | cons a rest => simp [ih]

/-- the round invariant: `G n` holds for all candidates of round `n`, `H` for at least one -/
theorem rounds_general (subdiv : List (List K) → Except Err (TriFour K)) (point : List K)
    (G : ℕ → TriCand K → Prop) (H : TriCand K → Prop)
    (hsub : ∀ n c, G n c → ∃ four, subdiv c.nodes = .ok four)
    (hG : ∀ n c four, G n c → subdiv c.nodes = .ok four → ∀ c' ∈ triSplitCand c four, G (n+1) c')
    (hkeep : ∀ n c, G n c → H c → containsND c.nodes point = true)
    (hH : ∀ n c four, G n c → H c → subdiv c.nodes = .ok four → ∃ c' ∈ triSplitCand c four, H c') :
    ∀ r n cands, (∀ c ∈ cands, G n c) →
      ∃ out, Py.triLocateRounds subdiv point r cands = .ok out ∧ (∀ c ∈ out, G (n + r) c) ∧
        ((∃ c ∈ cands, H c) → ∃ c ∈ out, H c) := by
  intro r
  induction r with
  | zero => intro n cands h; exact ⟨cands, rfl, h, id⟩
  | succ r ih =>
    intro n cands h
    obtain ⟨next, hnext, hmem⟩ := triLocateRound_ok subdiv point cands
      (fun c hc _ => hsub n c (h c hc))
    have hGnext : ∀ c' ∈ next, G (n+1) c' := by
      intro c' hc'
      obtain ⟨c, hc, -, four, hfour, hin⟩ := (hmem c').mp hc'
      exact hG n c four (h c hc) hfour c' hin
    obtain ⟨out, hout, hGout, hHout⟩ := ih (n+1) next hGnext
    refine ⟨out, ?_, ?_, ?_⟩
    · simp only [Py.triLocateRounds, hnext, hout]
    · intro c hc
      have := hGout c hc
      rwa [show n + (r + 1) = n + 1 + r by omega]
    · rintro ⟨c, hc, hHc⟩
      apply hHout
      obtain ⟨four, hfour⟩ := hsub n c (h c hc)
      obtain ⟨c', hin, hH'⟩ := hH n c four (h c hc) hHc hfour
      exact ⟨c', (hmem c').mpr ⟨c, hc, hkeep n c (h c hc) hHc, four, hfour, hin⟩, hH'⟩

/-- everything known about a candidate of round `n` -/
structure Good (d : ℕ) (nodes : List (List K)) (n : ℕ) (c : TriCand K) : Prop where
  piece : IsPiece d nodes c
  width : c.width = (1/2)^n ∨ c.width = -(1/2)^n
  verts : VerticesInRef c

/-- the pre-image `(s, t)` lies in the (closed) sub-triangle of the candidate -/
def Holds (s t : K) (c : TriCand K) : Prop :=
  ∃ σ τ, InRef σ τ ∧ candS c σ = s ∧ candT c τ = t

theorem good_init (d : ℕ) (nodes : List (List K)) (h : ∀ row ∈ nodes, row.length = numNodes d) :
    Good d nodes 0 { cx := 1, cy := 1, width := 1, nodes := nodes } :=
  ⟨isPiece_init d nodes h, Or.inl (by simp), verticesInRef_init nodes⟩

theorem holds_init (nodes : List (List K)) (s t : K) (hst : InRef s t) :
    Holds s t ({ cx := 1, cy := 1, width := 1, nodes := nodes } : TriCand K) :=
  ⟨s, t, hst, by simp [candS], by simp [candT]⟩

/-- **the search loop** on a net with full rows, any point: it succeeds, every candidate of the
    result is `Good`; locating `B(s,t)` with `(s,t)` in the closed reference triangle some candidate
    contains the pre-image -/
theorem rounds_spec (d : ℕ) (subdiv : List (List K) → Except Err (TriFour K)) (hq : Quartering d subdiv)
    (nodes : List (List K)) (h : ∀ row ∈ nodes, row.length = numNodes d) (point : List K) (r : ℕ) :
    ∃ out, Py.triLocateRounds subdiv point r [{ cx := 1, cy := 1, width := 1, nodes := nodes }] = .ok out ∧
      (∀ c ∈ out, Good d nodes r c) ∧
      (∀ s t, InRef s t → point = surf d nodes s t → ∃ c ∈ out, Holds s t c) := by
  have hsub : ∀ n c, Good d nodes n c → ∃ four, subdiv c.nodes = .ok four := by
    intro n c hc
    obtain ⟨four, h4, -⟩ := hq.ok c.nodes hc.piece.rows
    exact ⟨four, h4⟩
  have hG : ∀ n c four, Good d nodes n c → subdiv c.nodes = .ok four →
      ∀ c' ∈ triSplitCand c four, Good d nodes (n+1) c' := by
    intro n c four hc hfour c' hc'
    exact ⟨isPiece_children d subdiv hq nodes c hc.piece four hfour c' hc',
      width_children c four n hc.width c' hc', verticesInRef_children c hc.verts four c' hc'⟩
  by_cases hex : ∃ s t, InRef s t ∧ point = surf d nodes s t
  · obtain ⟨s, t, hst, hpt⟩ := hex
    -- one pre-image is enough for `rounds_general`; all pre-images are handled by re-running it
    have key : ∀ s t, InRef s t → point = surf d nodes s t →
        ∃ out, Py.triLocateRounds subdiv point r [{ cx := 1, cy := 1, width := 1, nodes := nodes }] = .ok out ∧
          (∀ c ∈ out, Good d nodes r c) ∧ ∃ c ∈ out, Holds s t c := by
      intro s t hst hpt
      obtain ⟨out, hout, hGout, hHout⟩ := rounds_general subdiv point (Good d nodes) (Holds s t) hsub hG
        (by
          intro n c hc ⟨σ, τ, hστ, hs, ht⟩
          rw [hpt]
          exact piece_contains d nodes c hc.piece s t σ τ hστ hs ht)
        (by
          intro n c four hc ⟨σ, τ, hστ, hs, ht⟩ _
          obtain ⟨c', hin, σ', τ', h1, h2, h3⟩ := holds_children c four s t σ τ hστ hs ht
          exact ⟨c', hin, σ', τ', h1, h2, h3⟩)
        r 0 [{ cx := 1, cy := 1, width := 1, nodes := nodes }]
        (by intro c hc; rw [List.mem_singleton.mp hc]; exact good_init d nodes h)
      refine ⟨out, hout, ?_, hHout ⟨_, List.mem_singleton.mpr rfl, holds_init nodes s t hst⟩⟩
      intro c hc; simpa using hGout c hc
    obtain ⟨out, hout, hGout, -⟩ := key s t hst hpt
    refine ⟨out, hout, hGout, ?_⟩
    intro s' t' hst' hpt'
    obtain ⟨out', hout', -, hH'⟩ := key s' t' hst' hpt'
    rw [hout] at hout'
    cases hout'
    exact hH'
  · obtain ⟨out, hout, hGout, -⟩ := rounds_general subdiv point (Good d nodes) (fun _ => False) hsub hG
      (by intro n c _ hF; exact absurd hF id) (by intro n c four _ hF; exact absurd hF id)
      r 0 [{ cx := 1, cy := 1, width := 1, nodes := nodes }]
      (by intro c hc; rw [List.mem_singleton.mp hc]; exact good_init d nodes h)
    refine ⟨out, hout, ?_, ?_⟩
    · intro c hc; simpa using hGout c hc
    · intro s t hst hpt; exact absurd ⟨s, t, hst, hpt⟩ hex

/-! ### the estimate: mean of the centroids -/

theorem foldl_add_eq {α : Type} (f : α → K) : ∀ (l : List α) (a : K),
    l.foldl (fun acc c => acc + f c) a = a + (l.map f).sum := by
  intro l
  induction l with
  | nil => intro a; simp
  | cons x rest ih => intro a; simp only [List.foldl_cons, ih, List.map_cons, List.sum_cons]; ring

theorem sum_le_mul {α : Type} (g : α → K) (M : K) : ∀ l : List α, (∀ c ∈ l, g c ≤ M) →
    (l.map g).sum ≤ M * (l.length : K) := by
  intro l
  induction l with
  | nil => intro _; simp
  | cons x rest ih =>
    intro h
    have h1 := h x (by simp)
    have h2 := ih (fun c hc => h c (List.mem_cons_of_mem _ hc))
    simp only [List.map_cons, List.sum_cons, List.length_cons, Nat.cast_succ]
    linarith

theorem sum_lt_mul {α : Type} (g : α → K) (M : K) (l : List α) (hne : l ≠ []) (h : ∀ c ∈ l, g c < M) :
    (l.map g).sum < M * (l.length : K) := by
  cases l with
  | nil => exact absurd rfl hne
  | cons x rest =>
    have h1 := h x (by simp)
    have h2 := sum_le_mul g M rest (fun c hc => (h c (List.mem_cons_of_mem _ hc)).le)
    simp only [List.map_cons, List.sum_cons, List.length_cons, Nat.cast_succ]
    linarith

theorem sum_pos' {α : Type} (g : α → K) (l : List α) (hne : l ≠ []) (h : ∀ c ∈ l, 0 < g c) :
    0 < (l.map g).sum := by
  have := sum_lt_mul (fun c => -g c) 0 l hne (fun c hc => by have := h c hc; linarith)
  have e : (l.map (fun c => -g c)).sum = -(l.map g).sum := by
    induction l with
    | nil => simp
    | cons x rest ih =>
      simp only [List.map_cons, List.sum_cons]
      by_cases hr : rest = []
      · subst hr; simp
      · rw [ih hr (fun c hc => h c (List.mem_cons_of_mem _ hc))
          (sum_lt_mul (fun c => -g c) 0 rest hr (fun c hc => by
            have := h c (List.mem_cons_of_mem _ hc); linarith))]
        ring
  rw [e] at this
  linarith

/-- the tripled centroid of a `Good` candidate lies strictly inside the tripled reference triangle -/
theorem good_centroid (d : ℕ) (nodes : List (List K)) (n : ℕ) (c : TriCand K) (hc : Good d nodes n c) :
    0 < c.cx ∧ 0 < c.cy ∧ c.cx + c.cy < 3 := by
  obtain ⟨⟨a1, a2, a3⟩, ⟨b1, b2, b3⟩, ⟨c1, c2, c3⟩⟩ := hc.verts
  simp only [candS, candT] at a1 a2 a3 b1 b2 b3 c1 c2 c3
  have hp : (0:K) < (1/2)^n := by positivity
  rcases hc.width with hw | hw
  · rw [hw] at a1 a2 a3 b1 b2 b3 c1 c2 c3
    refine ⟨by linarith, by linarith, by linarith⟩
  · rw [hw] at a1 a2 a3 b1 b2 b3 c1 c2 c3
    refine ⟨by linarith, by linarith, by linarith⟩

/-- **the estimate handed to the Newton step lies in the open reference triangle** -/
theorem mean_in_ref (d : ℕ) (nodes : List (List K)) (n : ℕ) (cands : List (TriCand K))
    (hne : cands ≠ []) (h : ∀ c ∈ cands, Good d nodes n c) :
    0 < (triMeanCentroid cands).1 ∧ 0 < (triMeanCentroid cands).2 ∧
      (triMeanCentroid cands).1 + (triMeanCentroid cands).2 < 1 := by
  have hlen : (0:K) < (cands.length : K) := by
    have : 0 < cands.length := List.length_pos_of_ne_nil hne
    exact_mod_cast this
  have hden : (0:K) < (1 + 1 + 1 : K) * ((cands.length : ℕ) : K) := by positivity
  have hx := sum_pos' (fun c : TriCand K => c.cx) cands hne (fun c hc => (good_centroid d nodes n c (h c hc)).1)
  have hy := sum_pos' (fun c : TriCand K => c.cy) cands hne (fun c hc => (good_centroid d nodes n c (h c hc)).2.1)
  have hxy := sum_lt_mul (fun c : TriCand K => c.cx + c.cy) 3 cands hne
    (fun c hc => (good_centroid d nodes n c (h c hc)).2.2)
  have esum : (cands.map (fun c : TriCand K => c.cx + c.cy)).sum
      = (cands.map (fun c : TriCand K => c.cx)).sum + (cands.map (fun c : TriCand K => c.cy)).sum := by
    clear hne h hlen hden hx hy hxy
    induction cands with
    | nil => simp
    | cons x rest ih => simp only [List.map_cons, List.sum_cons, ih]; ring
  simp only [triMeanCentroid, foldl_add_eq, zero_add]
  refine ⟨div_pos hx hden, div_pos hy hden, ?_⟩
  rw [← add_div, div_lt_one hden]
  rw [esum] at hxy
  linarith

/-! ### the Newton step and the end of `locate_point` -/

/-- the early-exit branch: an exactly zero residual returns the parameters unchanged -/
theorem newtonRefineTriE_fixed (ev : ℕ → List (List K) → Bary K → List K) (d : ℕ)
    (nodes : List (List K)) (x y s t : K) (h : ev d nodes (cartesian s t) = [x, y]) :
    newtonRefineTriE ev d nodes x y s t = .ok (s, t) := by
  unfold newtonRefineTriE
  simp only [h, seq, List.getD_cons_zero, List.getD_cons_succ, and_self, if_true]

/-- with the Python evaluation routine and a regular system this is `newtonRefineTriangle`
    (Props/C11Triangle: the exact Newton step) -/
theorem newtonRefineTriE_eq (thr d : ℕ) (nodes : List (List K)) (x y s t : K)
    (h : (seq (Py.evalBarycentric thr d nodes (cartesian s t)) 0 = x ∧
          seq (Py.evalBarycentric thr d nodes (cartesian s t)) 1 = y) ∨
      (let jb := Py.evalBarycentric thr (d - 1) (jacobianBoth d nodes) (cartesian s t)
       seq jb 0 * seq jb 3 - seq jb 1 * seq jb 2 ≠ 0)) :
    newtonRefineTriE (fun d n w => Py.evalBarycentric thr d n w) d nodes x y s t
      = .ok (newtonRefineTriangle thr d nodes x y s t) := by
  unfold newtonRefineTriE newtonRefineTriangle
  simp only
  by_cases h0 : seq (Py.evalBarycentric thr d nodes (cartesian s t)) 0 = x ∧
      seq (Py.evalBarycentric thr d nodes (cartesian s t)) 1 = y
  · rw [if_pos h0, if_pos h0]
  · rw [if_neg h0, if_neg h0]
    rcases h with h | h
    · exact absurd h h0
    · simp only at h
      rw [if_neg h]

theorem finish_none_iff (ev : ℕ → List (List K) → Bary K → List K) (close : List K → Bool) (d : ℕ)
    (nodes : List (List K)) (x y : K) (cands : List (TriCand K)) :
    triLocateFinish ev close d nodes x y cands = .ok none ↔ cands = [] := by
  unfold triLocateFinish
  cases cands with
  | nil => simp
  | cons c rest =>
    simp only [List.isEmpty_cons, Bool.false_eq_true, if_false, reduceCtorEq, iff_false]
    intro hh
    split at hh
    · cases hh
    · split at hh
      · cases hh
      · split at hh <;> cases hh

/-- a returned pair is one or two Newton steps from the mean of the centroids -/
theorem finish_some (ev : ℕ → List (List K) → Bary K → List K) (close : List K → Bool) (d : ℕ)
    (nodes : List (List K)) (x y : K) (cands : List (TriCand K)) (st : K × K)
    (h : triLocateFinish ev close d nodes x y cands = .ok (some st)) :
    cands ≠ [] ∧ ∃ st1, newtonRefineTriE ev d nodes x y (triMeanCentroid cands).1 (triMeanCentroid cands).2 = .ok st1 ∧
      ((close (ev d nodes (cartesian st1.1 st1.2)) = true ∧ st = st1) ∨
       (close (ev d nodes (cartesian st1.1 st1.2)) = false ∧ newtonRefineTriE ev d nodes x y st1.1 st1.2 = .ok st)) := by
  unfold triLocateFinish at h
  cases cands with
  | nil => simp at h
  | cons c rest =>
    refine ⟨by simp, ?_⟩
    simp only [List.isEmpty_cons, Bool.false_eq_true, if_false] at h
    split at h
    · cases h
    · rename_i st1 hst1
      refine ⟨st1, hst1, ?_⟩
      split at h
      · rename_i hc
        cases h
        exact Or.inl ⟨hc, rfl⟩
      · rename_i hc
        split at h
        · cases h
        · rename_i st2 hst2
          cases h
          exact Or.inr ⟨by simpa using hc, hst2⟩

/-- if the mean of the centroids is an exact pre-image it is returned unchanged (whatever
    `vector_close` says: the second Newton step is a no-op, too) -/
theorem finish_fixed (ev : ℕ → List (List K) → Bary K → List K) (close : List K → Bool) (d : ℕ)
    (nodes : List (List K)) (x y s t : K) (cands : List (TriCand K)) (hne : cands ≠ [])
    (hm : triMeanCentroid cands = (s, t)) (h : ev d nodes (cartesian s t) = [x, y]) :
    triLocateFinish ev close d nodes x y cands = .ok (some (s, t)) := by
  unfold triLocateFinish
  cases cands with
  | nil => exact absurd rfl hne
  | cons c rest =>
    simp only [List.isEmpty_cons, Bool.false_eq_true, if_false, hm,
      newtonRefineTriE_fixed ev d nodes x y s t h]
    split <;> rfl

/-! ### the two implementations -/

theorem normSq_subRow_comm : ∀ (a b : List K) (acc : K),
    (subRow a b).foldl (fun acc x => acc + x * x) acc = (subRow b a).foldl (fun acc x => acc + x * x) acc := by
  intro a
  induction a with
  | nil => intro b acc; simp [subRow]
  | cons x xs ih =>
    intro b acc
    cases b with
    | nil => simp [subRow]
    | cons y ys =>
      simp only [subRow, List.zipWith_cons_cons, List.foldl_cons]
      have e : acc + (x - y) * (x - y) = acc + (y - x) * (y - x) := by ring
      rw [e]
      exact ih ys _

theorem minK_comm (a b : K) : minK a b = minK b a := by
  unfold minK
  rcases lt_trichotomy a b with h | h | h
  · rw [if_neg (not_lt.mpr h.le), if_pos h]
  · subst h; rfl
  · rw [if_pos h, if_neg (not_lt.mpr h.le)]

/-- `vector_close` does not depend on the order of its two vectors (Python passes
    `actual, expected`, Fortran `point, actual`) -/
theorem vectorCloseSq_comm (a b : List K) (e : K) : vectorCloseSq a b e = vectorCloseSq b a e := by
  unfold vectorCloseSq
  simp only
  have hn : normSq (subRow a b) = normSq (subRow b a) := normSq_subRow_comm a b 0
  by_cases h1 : normSq a = 0 <;> by_cases h2 : normSq b = 0
  · simp [h1, h2]
  · simp [h1, h2]
  · simp [h1, h2]
  · simp [h1, h2, hn, minK_comm]

/-- the Fortran evaluation routine (either declared type of the running binomial) computes what the
    Python routine computes: `real(c_double)` every degree, `integer(c_int)` up to degree 29 -/
theorem evalKind_eq_py (realBinom : Bool) (thr d : ℕ) (nodes : List (List K))
    (h : realBinom = true ∨ (d ≤ 29 ∧ ∀ row ∈ nodes, row.length = numNodes d)) (w : Bary K) :
    F90.evalBarycentricKind realBinom thr d nodes w = Py.evalBarycentric thr d nodes w := by
  unfold F90.evalBarycentricKind Py.evalBarycentric
  cases realBinom with
  | true =>
    simp only [if_true]
    apply List.map_congr_left
    intro row _
    exact C05.f90_real_agrees thr d row w
  | false =>
    rcases h with h | ⟨hd, hrows⟩
    · cases h
    · simp only [Bool.false_eq_true, if_false, F90.evalBarycentric]
      apply List.map_congr_left
      intro row hrow
      exact C05.f90_agrees_below_30 thr d hd row (hrows row hrow) w

theorem jacobianBoth_rows (d : ℕ) (hd : 1 ≤ d) (nodes : List (List K)) :
    ∀ row ∈ jacobianBoth d nodes, row.length = numNodes (d - 1) := by
  intro row hrow
  unfold jacobianBoth at hrow
  rcases List.mem_append.mp hrow with h | h
  · obtain ⟨r, -, rfl⟩ := List.mem_map.mp h
    exact C11.jacobian_s_length d hd r
  · obtain ⟨r, -, rfl⟩ := List.mem_map.mp h
    exact C11.jacobian_t_length d hd r

theorem newtonRefineTriE_congr (ev1 ev2 : ℕ → List (List K) → Bary K → List K) (d : ℕ)
    (nodes : List (List K)) (x y s t : K) (h1 : ∀ w, ev1 d nodes w = ev2 d nodes w)
    (h2 : ∀ w, ev1 (d - 1) (jacobianBoth d nodes) w = ev2 (d - 1) (jacobianBoth d nodes) w) :
    newtonRefineTriE ev1 d nodes x y s t = newtonRefineTriE ev2 d nodes x y s t := by
  unfold newtonRefineTriE
  simp only [h1, h2]

theorem triLocateFinish_congr (ev1 ev2 : ℕ → List (List K) → Bary K → List K)
    (close1 close2 : List K → Bool) (d : ℕ) (nodes : List (List K)) (x y : K) (cands : List (TriCand K))
    (h1 : ∀ w, ev1 d nodes w = ev2 d nodes w)
    (h2 : ∀ w, ev1 (d - 1) (jacobianBoth d nodes) w = ev2 (d - 1) (jacobianBoth d nodes) w)
    (hc : ∀ v, close1 v = close2 v) :
    triLocateFinish ev1 close1 d nodes x y cands = triLocateFinish ev2 close2 d nodes x y cands := by
  unfold triLocateFinish
  have e : ∀ s t, newtonRefineTriE ev1 d nodes x y s t = newtonRefineTriE ev2 d nodes x y s t :=
    fun s t => newtonRefineTriE_congr ev1 ev2 d nodes x y s t h1 h2
  simp only [e, h1, hc]

end BezierVerif.LocateTri
