import BezierVerif.Model.Newton
import BezierVerif.Model.GeometricInst
import BezierVerif.Lemmas.Solve2x2
import BezierVerif.Lemmas.EvalBary
import BezierVerif.Lemmas.Lipschitz

/-!
# Lemmas/NewtonGate — structure of a converged run of `Model.newtonIterate`

* `Reach`: the points visited by the iteration (start point, then `rnd (p − δ)` for every solved step);
* `go_converged`: induction on the fuel of the inner loop `newtonIterate.go` — a `.converged` outcome is
  either the exact-zero exit (`ev = none` at a visited point) or the small-step exit (a visited point
  `p₀`, a solved step `δ` with `‖δ‖² < ratioSq·‖p₀‖²`, result `rnd (p₀ − δ)`);
* `evalRow_derivNet`: the Jacobian entries of `newtonSimple` (`evaluate_multi` of the scaled first-difference
  net) are `Model.hodographRow` (`evaluate_hodograph`), so the analytic statements of `Props/C02.lean`
  apply to the system that `newton_iterate` solves;
* `newtonSimple_some`, `newtonSimple_none_iff`, `newtonDouble_none_iff`: what the two `evaluate_fn`s return;
* `roundBits`: the dyadic rounding used by the driver for the Newton iterates (over `ℚ`).
-/

namespace BezierVerif.Gate

open Model BezierVerif

set_option linter.unusedSectionVars false

variable {K : Type} [Field K] [LinearOrder K] [IsStrictOrderedRing K]

/-! ### the points visited by `newton_iterate` -/

/-- `Reach solve rnd ev s t a b`: `(a, b)` is the start point `(s, t)` or is obtained from it by finitely
    many solved steps `p ↦ rnd (p − δ)`, `δ = solve (ev p)` -/
inductive Reach (solve : Solver K) (rnd : K → K) (ev : NewtonEval K) (s t : K) : K → K → Prop
  | start : Reach solve rnd ev s t s t
  | step {s₀ t₀ ds dt : K} {lhs : K × K × K × K} {rhs : K × K} :
      Reach solve rnd ev s t s₀ t₀ → ev s₀ t₀ = some (lhs, rhs) → solve lhs rhs = some (ds, dt) →
      Reach solve rnd ev s t (rnd (s₀ - ds)) (rnd (t₀ - dt))

/-- the inner loop: how `.converged` can come out (induction on the fuel) -/
theorem go_converged (solve : Solver K) (cut : ℕ → ℕ → Bool) (rnd : K → K) (ratioSq : K) (ev : NewtonEval K)
    (s t : K) : ∀ (remaining index : ℕ) (st : NewtonState K) (s' t' : K),
    Reach solve rnd ev s t st.s st.t →
    newtonIterate.go solve cut rnd ratioSq ev remaining index st = .converged s' t' →
    (ev s' t' = none ∧ Reach solve rnd ev s t s' t') ∨
    ∃ s₀ t₀ lhs rhs ds dt, Reach solve rnd ev s t s₀ t₀ ∧ ev s₀ t₀ = some (lhs, rhs) ∧
      solve lhs rhs = some (ds, dt) ∧ s' = rnd (s₀ - ds) ∧ t' = rnd (t₀ - dt) ∧
      ds * ds + dt * dt < ratioSq * (s₀ * s₀ + t₀ * t₀) := by
  intro remaining
  induction remaining with
  | zero =>
    intro index st s' t' _ h
    rw [newtonIterate.go] at h
    cases h
  | succ r ih =>
    intro index st s' t' hr h
    rw [newtonIterate.go] at h
    split at h
    · rename_i hev
      cases h
      exact Or.inl ⟨hev, hr⟩
    · rename_i lhs rhs hev
      split at h
      · cases h
      · rename_i ds dt hsol
        dsimp only at h
        split_ifs at h with hc hlt
        · cases h
          exact Or.inr ⟨st.s, st.t, lhs, rhs, ds, dt, hr, hev, hsol, rfl, rfl, hlt⟩
        · exact ih _ _ s' t' (Reach.step hr hev hsol) h

/-- a failed run stops at a visited point -/
theorem go_failed (solve : Solver K) (cut : ℕ → ℕ → Bool) (rnd : K → K) (ratioSq : K) (ev : NewtonEval K)
    (s t : K) : ∀ (remaining index : ℕ) (st : NewtonState K) (s' t' : K),
    Reach solve rnd ev s t st.s st.t →
    newtonIterate.go solve cut rnd ratioSq ev remaining index st = .failed s' t' →
    Reach solve rnd ev s t s' t' := by
  intro remaining
  induction remaining with
  | zero =>
    intro index st s' t' hr h
    rw [newtonIterate.go] at h
    cases h
    exact hr
  | succ r ih =>
    intro index st s' t' hr h
    rw [newtonIterate.go] at h
    split at h
    · cases h
    · rename_i lhs rhs hev
      split at h
      · cases h; exact hr
      · rename_i ds dt hsol
        dsimp only at h
        split_ifs at h with hc hlt
        · cases h; exact hr
        · exact ih _ _ s' t' (Reach.step hr hev hsol) h

/-! ### the Jacobian of `newtonSimple` is the hodograph -/

theorem dcRound_map_mul (c a b : K) : ∀ l : List K,
    dcRound a b (l.map (fun x => c * x)) = (dcRound a b l).map (fun x => c * x)
  | [] => rfl
  | [_] => rfl
  | x :: y :: rest => by
    have ih := dcRound_map_mul c a b (y :: rest)
    simp only [List.map_cons, dcRound] at ih ⊢
    rw [ih]
    congr 1
    ring

theorem evalDC_map_mul (c a b : K) : ∀ (n : ℕ) (l : List K),
    evalDC a b n (l.map (fun x => c * x)) = c * evalDC a b n l
  | 0, [] => by simp [evalDC]
  | 0, x :: _ => by simp [evalDC]
  | n + 1, l => by
    simp only [evalDC]
    rw [dcRound_map_mul, evalDC_map_mul c a b n]

/-- `evaluate_multi(first_deriv, s)` with `first_deriv = (N−1)·Δnodes` is `evaluate_hodograph(s)` -/
theorem evalRow_derivNet (thr : ℕ) (row : List K) (h : 2 ≤ row.length) (s : K) :
    evalRow thr (derivNet row) s = hodographRow thr row s := by
  have hl : (diffs row).length = row.length - 1 := Lipschitz.diffs_length row
  unfold evalRow derivNet hodographRow
  rw [Geo.evalBary_eq_evalDC_unit thr _ (by rw [List.length_map, hl]; omega),
    Geo.evalBary_eq_evalDC_unit thr (diffs row) (by omega), List.length_map, evalDC_map_mul]

/-! ### what the two `evaluate_fn`s return -/

/-- `NewtonSimpleRoot.__call__` on planar nets: the system handed to `solve2x2` -/
theorem newtonSimple_some (thr : ℕ) (x1 y1 x2 y2 : List K)
    (hx1 : 2 ≤ x1.length) (hy1 : 2 ≤ y1.length) (hx2 : 2 ≤ x2.length) (hy2 : 2 ≤ y2.length)
    (s t : K) (lhs : K × K × K × K) (rhs : K × K)
    (h : newtonSimple thr [x1, y1] [x2, y2] s t = some (lhs, rhs)) :
    lhs = (hodographRow thr x1 s, -(hodographRow thr x2 t), hodographRow thr y1 s, -(hodographRow thr y2 t)) ∧
    rhs = (evalBary thr x1 (1 - s) s - evalBary thr x2 (1 - t) t,
           evalBary thr y1 (1 - s) s - evalBary thr y2 (1 - t) t) := by
  unfold newtonSimple at h
  simp only [List.getD_cons_zero, List.getD_cons_succ] at h
  split_ifs at h with h0
  simp only [Option.some.injEq, Prod.mk.injEq] at h
  obtain ⟨⟨rfl, rfl, rfl, rfl⟩, rfl, rfl⟩ := h
  rw [evalRow_derivNet thr x1 hx1, evalRow_derivNet thr x2 hx2, evalRow_derivNet thr y1 hy1,
    evalRow_derivNet thr y2 hy2]
  exact ⟨rfl, rfl⟩

/-- the exact-zero exit of the simple system: `F(s,t) = 0` in both coordinates -/
theorem newtonSimple_none_iff (thr : ℕ) (x1 y1 x2 y2 : List K) (s t : K) :
    newtonSimple thr [x1, y1] [x2, y2] s t = none ↔
      evalBary thr x1 (1 - s) s = evalBary thr x2 (1 - t) t ∧
      evalBary thr y1 (1 - s) s = evalBary thr y2 (1 - t) t := by
  unfold newtonSimple
  simp only [List.getD_cons_zero, List.getD_cons_succ, evalRow]
  split_ifs with h0
  · simp only [true_iff]
    exact ⟨sub_eq_zero.mp h0.1, sub_eq_zero.mp h0.2⟩
  · simp only [false_iff]
    intro h
    exact h0 ⟨sub_eq_zero.mpr h.1, sub_eq_zero.mpr h.2⟩

/-- the exact-zero exit of the double-root system: `F(s,t) = 0` and parallel tangents -/
theorem newtonDouble_none_imp (thr : ℕ) (x1 y1 x2 y2 : List K) (s t : K)
    (h : newtonDouble thr [x1, y1] [x2, y2] s t = none) :
      evalBary thr x1 (1 - s) s = evalBary thr x2 (1 - t) t ∧
      evalBary thr y1 (1 - s) s = evalBary thr y2 (1 - t) t := by
  unfold newtonDouble at h
  simp only [List.getD_cons_zero, List.getD_cons_succ, evalRow] at h
  split_ifs at h with h0
  exact ⟨sub_eq_zero.mp h0.1, sub_eq_zero.mp h0.2.1⟩

/-- a quadratic coordinate written out (for the decided counter-examples) -/
theorem evalBary_quadratic (thr : ℕ) (a b c s : K) :
    evalBary thr [a, b, c] (1 - s) s = (1 - s) ^ 2 * a + 2 * (1 - s) * s * b + s ^ 2 * c := by
  rw [Geo.evalBary_eq_evalDC thr _ (by simp)]
  simp only [List.length_cons, List.length_nil, evalDC, dcRound, List.headD_cons]
  ring

/-! ### the driver's rounding of Newton iterates -/

/-- round to `bits` fractional bits (half up); the driver's `roundBits` -/
def roundBits (bits : ℕ) (x : ℚ) : ℚ :=
  let sc : ℚ := ((2 ^ bits : ℕ) : ℚ)
  ((x * sc + 1 / 2).floor : ℚ) / sc

end BezierVerif.Gate
