import BezierVerif.Model.Helpers
import BezierVerif.Lemmas.Predicates
import Mathlib.Analysis.Real.Sqrt
import Mathlib.Tactic.Ring
import Mathlib.Tactic.Linarith
import Mathlib.Tactic.Positivity
import Mathlib.Tactic.NormNum
import Mathlib.Tactic.SplitIfs

/-!
# Lemmas/NormReal — the squared formulations of the model are the norm formulations of the code (K = ℝ)

The executable model never takes a square root: `Model.vectorCloseSq` receives `eps²` and compares
squared norms, `Model.linearizationErrorSq` returns the square of the error (Model/Helpers.lean).
The code (`hazmat/helpers.py: vector_close`, `hazmat/geometric_intersection.py: linearization_error`)
works with `np.linalg.norm(·, ord=2)`.

Here the polymorphic model is instantiated at `K := ℝ` (with the instances Lean finds for ℝ:
`Real.decidableEq`, `Real.decidableLT`, `Real.decidableLE`), the code is transcribed literally with
`norm2 v = √(normSq v)` (`Real.sqrt`, an exact square root), and the two are proved equivalent:

* `normSq_eq_sum`, `normSq_nonneg`, `normSq_eq_zero_iff`: `normSq` is the sum of squares;
* `vectorCloseSq_eq_vectorCloseNorm` / `vectorCloseSq_iff_vectorCloseNorm`: for `0 ≤ eps`,
  `vectorCloseSq vec1 vec2 (eps²) = vectorCloseNorm vec1 vec2 eps` (all three branches; arbitrary
  lists, `vec1 - vec2` is the model's `subRow` on both sides);
* `vectorClose_neg_eps_counterexample`: the hypothesis `0 ≤ eps` cannot be dropped;
* `linearizationErrorSq_eq_map`: `linearizationErrorSq nodes = (linearizationErrorNorm nodes).map (· ^ 2)`,
  `linearizationErrorNorm_nonneg`, and the derived `…_ok_iff`, `…_error_iff`, `…_ok_sqrt`.

What is *not* said here: binary64 rounding of `norm` (the model is exact; the comparison of the
code with the model in floating point is the business of the scripts, regime E/T).
-/

namespace BezierVerif.NormReal

open BezierVerif Model

/-! ## `normSq` is the sum of squares -/

/-- the accumulator form of the left fold -/
theorem foldl_sq_acc (v : List ℝ) (a : ℝ) :
    v.foldl (fun acc x => acc + x * x) a = a + (v.map (fun x => x * x)).sum := by
  induction v generalizing a with
  | nil => simp
  | cons x xs ih => simp only [List.foldl_cons, List.map_cons, List.sum_cons, ih]; ring

/-- `normSq v = Σ xᵢ²` (the model sums left to right from `0`; over ℝ the order is immaterial) -/
theorem normSq_eq_sum (v : List ℝ) : normSq v = (v.map (fun x => x * x)).sum := by
  unfold normSq
  rw [foldl_sq_acc]; ring

@[simp] theorem normSq_nil : normSq ([] : List ℝ) = 0 := by simp [normSq]

theorem normSq_cons (x : ℝ) (xs : List ℝ) : normSq (x :: xs) = x * x + normSq xs := by
  simp [normSq_eq_sum]

theorem normSq_nonneg (v : List ℝ) : 0 ≤ normSq v := by
  induction v with
  | nil => simp
  | cons x xs ih => rw [normSq_cons]; nlinarith [mul_self_nonneg x]

/-- the squared norm vanishes exactly for the zero vector -/
theorem normSq_eq_zero_iff (v : List ℝ) : normSq v = 0 ↔ ∀ x ∈ v, x = 0 := by
  induction v with
  | nil => simp
  | cons x xs ih =>
    rw [normSq_cons]
    have h1 := mul_self_nonneg x
    have h2 := normSq_nonneg xs
    constructor
    · intro h
      have hx : x * x = 0 := by linarith
      have hxs : normSq xs = 0 := by linarith
      intro y hy
      rcases List.mem_cons.mp hy with rfl | hy
      · exact mul_self_eq_zero.mp hx
      · exact ih.mp hxs y hy
    · intro h
      have hx : x = 0 := h x (List.mem_cons_self ..)
      have hxs : normSq xs = 0 := ih.mpr (fun y hy => h y (List.mem_cons_of_mem _ hy))
      rw [hx, hxs]; ring

/-! ## the Euclidean norm of a 1D array -/

/-- `np.linalg.norm(v, ord=2)` of a 1D array with an exact square root -/
noncomputable def norm2 (v : List ℝ) : ℝ := Real.sqrt (normSq v)

theorem norm2_nonneg (v : List ℝ) : 0 ≤ norm2 v := Real.sqrt_nonneg _

theorem norm2_sq (v : List ℝ) : norm2 v ^ 2 = normSq v := Real.sq_sqrt (normSq_nonneg v)

theorem norm2_eq_zero_iff (v : List ℝ) : norm2 v = 0 ↔ normSq v = 0 :=
  Real.sqrt_eq_zero (normSq_nonneg v)

/-- `‖v‖ ≤ c ⇔ ‖v‖² ≤ c²` for `0 ≤ c` -/
theorem norm2_le_iff (v : List ℝ) {c : ℝ} (hc : 0 ≤ c) : norm2 v ≤ c ↔ normSq v ≤ c ^ 2 :=
  Real.sqrt_le_left hc

/-- `min(‖a‖, ‖b‖)² = min(‖a‖², ‖b‖²)` -/
theorem min_norm2_sq (a b : List ℝ) : (min (norm2 a) (norm2 b)) ^ 2 = min (normSq a) (normSq b) := by
  rcases le_total (normSq a) (normSq b) with h | h
  · have h' : norm2 a ≤ norm2 b := Real.sqrt_le_sqrt h
    rw [min_eq_left h, min_eq_left h', norm2_sq]
  · have h' : norm2 b ≤ norm2 a := Real.sqrt_le_sqrt h
    rw [min_eq_right h, min_eq_right h', norm2_sq]

/-! ## `vector_close` -/

/-- `vector_close(vec1, vec2, eps)` of `hazmat/helpers.py`, literally:
```
size1 = norm(vec1); size2 = norm(vec2)
if size1 == 0: return size2 <= eps
elif size2 == 0: return size1 <= eps
else: return norm(vec1 - vec2) <= eps * min(size1, size2)
```
(`vec1 - vec2` is the model's `subRow`; the builtin `min(a, b)` is `Model.minK a b`, which is `min a b`
on a linear order: `vectorCloseNorm_minK`) -/
noncomputable def vectorCloseNorm (vec1 vec2 : List ℝ) (eps : ℝ) : Bool :=
  let size1 := norm2 vec1
  let size2 := norm2 vec2
  if size1 = 0 then decide (size2 ≤ eps)
  else if size2 = 0 then decide (size1 ≤ eps)
  else decide (norm2 (subRow vec1 vec2) ≤ eps * min size1 size2)

/-- the same with the Python builtin `min` written as the model's `minK` (`b if b < a else a`) -/
theorem vectorCloseNorm_minK (vec1 vec2 : List ℝ) (eps : ℝ) :
    vectorCloseNorm vec1 vec2 eps =
      (if norm2 vec1 = 0 then decide (norm2 vec2 ≤ eps)
       else if norm2 vec2 = 0 then decide (norm2 vec1 ≤ eps)
       else decide (norm2 (subRow vec1 vec2) ≤ eps * minK (norm2 vec1) (norm2 vec2))) := by
  simp only [vectorCloseNorm, Predicates.minK_eq_min]

/-- **`vectorCloseSq` with `eps²` is `vector_close` with `eps`**, for `0 ≤ eps`, on arbitrary lists
    (every branch, including both zero-vector branches) -/
theorem vectorCloseSq_eq_vectorCloseNorm (vec1 vec2 : List ℝ) (eps : ℝ) (heps : 0 ≤ eps) :
    vectorCloseSq vec1 vec2 (eps ^ 2) = vectorCloseNorm vec1 vec2 eps := by
  unfold vectorCloseSq vectorCloseNorm
  dsimp only
  by_cases h1 : normSq vec1 = 0
  · have h1' : norm2 vec1 = 0 := (norm2_eq_zero_iff vec1).mpr h1
    rw [if_pos h1, if_pos h1']
    exact decide_eq_decide.mpr (norm2_le_iff vec2 heps).symm
  · have h1' : ¬ norm2 vec1 = 0 := fun h => h1 ((norm2_eq_zero_iff vec1).mp h)
    rw [if_neg h1, if_neg h1']
    by_cases h2 : normSq vec2 = 0
    · have h2' : norm2 vec2 = 0 := (norm2_eq_zero_iff vec2).mpr h2
      rw [if_pos h2, if_pos h2']
      exact decide_eq_decide.mpr (norm2_le_iff vec1 heps).symm
    · have h2' : ¬ norm2 vec2 = 0 := fun h => h2 ((norm2_eq_zero_iff vec2).mp h)
      rw [if_neg h2, if_neg h2']
      apply decide_eq_decide.mpr
      have hm : 0 ≤ min (norm2 vec1) (norm2 vec2) := le_min (norm2_nonneg _) (norm2_nonneg _)
      rw [norm2_le_iff _ (mul_nonneg heps hm), mul_pow, min_norm2_sq, Predicates.minK_eq_min]

/-- the same as an equivalence of the two answers -/
theorem vectorCloseSq_iff_vectorCloseNorm (vec1 vec2 : List ℝ) (eps : ℝ) (heps : 0 ≤ eps) :
    vectorCloseSq vec1 vec2 (eps ^ 2) = true ↔ vectorCloseNorm vec1 vec2 eps = true := by
  rw [vectorCloseSq_eq_vectorCloseNorm vec1 vec2 eps heps]

/-- `0 ≤ eps` cannot be dropped: with `eps = -1` and `vec1 = vec2 = [1]` the code answers
    `‖0‖ ≤ -1 · min(1, 1)`, i.e. `False`, whereas the squared form with `eps² = 1` answers `True` -/
theorem vectorClose_neg_eps_counterexample :
    vectorCloseSq [1] [1] ((-1 : ℝ) ^ 2) = true ∧ vectorCloseNorm [1] [1] (-1 : ℝ) = false := by
  have hn1 : normSq [(1 : ℝ)] = 1 := by simp [normSq]
  have hs : subRow [(1 : ℝ)] [1] = [0] := by simp [subRow]
  have hn0 : normSq [(0 : ℝ)] = 0 := by simp [normSq]
  constructor
  · simp [vectorCloseSq, hn1, hs, hn0, minK]
  · simp [vectorCloseNorm, norm2, hn1, hs, hn0]

/-! ## `linearization_error` -/

/-- `np.max(np.abs(row))` really is the largest absolute value of the row -/
theorem maxAbs?_spec (x : ℝ) (xs : List ℝ) :
    ∃ m, maxAbs? (x :: xs) = some m ∧ (∀ y ∈ x :: xs, |y| ≤ m) ∧ (∃ y ∈ x :: xs, m = |y|) := by
  refine ⟨maxOf (absK x) (xs.map absK), rfl, ?_, ?_⟩
  · intro y hy
    rw [← Predicates.absK_eq_abs]
    apply Predicates.le_maxOf_of_mem
    rcases List.mem_cons.mp hy with rfl | hy
    · exact List.mem_cons_self ..
    · exact List.mem_cons_of_mem _ (List.mem_map_of_mem hy)
  · have h := Predicates.maxOf_mem (xs.map absK) (absK x)
    rcases List.mem_cons.mp h with h | h
    · exact ⟨x, List.mem_cons_self .., by rw [h, Predicates.absK_eq_abs]⟩
    · obtain ⟨y, hy, hy'⟩ := List.mem_map.mp h
      exact ⟨y, List.mem_cons_of_mem _ hy, by rw [← hy', Predicates.absK_eq_abs]⟩

/-- `linearization_error(nodes)` of `hazmat/geometric_intersection.py`, literally:
```
_, num_nodes = nodes.shape;  degree = num_nodes - 1
if degree == 1: return 0.0
second_deriv = nodes[:, :-2] - 2.0 * nodes[:, 1:-1] + nodes[:, 2:]
worst_case = np.max(np.abs(second_deriv), axis=1)
multiplier = 0.125 * degree * (degree - 1)
return multiplier * np.linalg.norm(worst_case, ord=2)
```
with the error branches of `Model.linearizationErrorSq` (fewer than 2 nodes: `np.max` of a
zero-size array raises `ValueError`; ragged rows: `badInput`).  `degree - 1` is the subtraction of
Python integers, here with `degree ≥ 2`. -/
noncomputable def linearizationErrorNorm (nodes : List (List ℝ)) : Except Err ℝ :=
  let numNodes := ncols nodes
  if numNodes = 2 then .ok 0
  else if numNodes < 3 then .error .valueError
  else
    match nodes.mapM (fun r => maxAbs? (secondDiffs r)) with
    | none => .error .badInput
    | some worst =>
      let degree := numNodes - 1
      let multiplier : ℝ := 0.125 * ((degree : Nat) : ℝ) * (((degree - 1 : Nat)) : ℝ)
      .ok (multiplier * norm2 worst)

/-- the model's literal `q 1 8` is the code's `0.125` -/
theorem q_one_eight : (q 1 8 : ℝ) = 0.125 := by
  simp [q]; norm_num

/-- **`linearizationErrorSq` is the square of `linearization_error`**, error branches included -/
theorem linearizationErrorSq_eq_map (nodes : List (List ℝ)) :
    linearizationErrorSq nodes = (linearizationErrorNorm nodes).map (· ^ 2) := by
  unfold linearizationErrorSq linearizationErrorNorm
  dsimp only
  split_ifs with h2 h3
  · simp [Except.map]
  · rfl
  · cases nodes.mapM (fun r => maxAbs? (secondDiffs r)) with
    | none => rfl
    | some worst =>
      simp only [Except.map, q_one_eight]
      congr 1
      rw [mul_pow, norm2_sq]; ring

/-- the returned error is nonnegative -/
theorem linearizationErrorNorm_nonneg (nodes : List (List ℝ)) (e : ℝ)
    (h : linearizationErrorNorm nodes = .ok e) : 0 ≤ e := by
  unfold linearizationErrorNorm at h
  dsimp only at h
  split_ifs at h with h2 h3
  · cases h; exact le_refl _
  · cases hm : nodes.mapM (fun r => maxAbs? (secondDiffs r)) with
    | none => rw [hm] at h; cases h
    | some worst =>
      rw [hm] at h
      cases h
      have := norm2_nonneg worst
      positivity

/-- value branch: the model returns `e2` iff the code returns some `e ≥ 0` with `e2 = e²` -/
theorem linearizationErrorSq_ok_iff (nodes : List (List ℝ)) (e2 : ℝ) :
    linearizationErrorSq nodes = .ok e2 ↔
      ∃ e, linearizationErrorNorm nodes = .ok e ∧ 0 ≤ e ∧ e2 = e ^ 2 := by
  rw [linearizationErrorSq_eq_map]
  constructor
  · intro h
    cases hn : linearizationErrorNorm nodes with
    | error x => rw [hn] at h; cases h
    | ok e =>
      rw [hn] at h
      simp only [Except.map, Except.ok.injEq] at h
      exact ⟨e, rfl, linearizationErrorNorm_nonneg nodes e hn, h.symm⟩
  · rintro ⟨e, he, _, rfl⟩
    rw [he]; rfl

/-- value branch, solved for the code's value: it is the square root of the model's value -/
theorem linearizationErrorSq_ok_sqrt (nodes : List (List ℝ)) (e2 : ℝ)
    (h : linearizationErrorSq nodes = .ok e2) :
    linearizationErrorNorm nodes = .ok (Real.sqrt e2) := by
  obtain ⟨e, he, h0, rfl⟩ := (linearizationErrorSq_ok_iff nodes e2).mp h
  rw [Real.sqrt_sq h0]; exact he

/-- error branches agree -/
theorem linearizationErrorSq_error_iff (nodes : List (List ℝ)) (x : Err) :
    linearizationErrorSq nodes = .error x ↔ linearizationErrorNorm nodes = .error x := by
  rw [linearizationErrorSq_eq_map]
  cases linearizationErrorNorm nodes with
  | error y => simp [Except.map]
  | ok e => simp [Except.map]

/-! ## non-vacuity (the doctest values of the library, evaluated over ℝ) -/

/-- `[3, 4]` and `[3, 4 + 5·2⁻⁴¹]` are close for `eps = 2⁻⁴⁰` … -/
example : vectorCloseNorm [3, 4] [3, 4 + 5 / 2 ^ 41] (1 / 2 ^ 40) = true := by
  rw [← vectorCloseSq_eq_vectorCloseNorm _ _ _ (by positivity)]
  have hm : ∀ a b : ℝ, minK a b = min a b := Predicates.minK_eq_min
  simp only [vectorCloseSq, normSq, subRow, hm, List.foldl_cons, List.foldl_nil, List.zipWith_cons_cons,
    List.zipWith_nil_right]
  norm_num

/-- … the zero-vector branch: `[0, 0]` against `[2⁻⁴¹, 0]` is close, against `[2⁻³⁹, 0]` it is not -/
example : vectorCloseNorm [0, 0] [1 / 2 ^ 41, 0] (1 / 2 ^ 40) = true
    ∧ vectorCloseNorm [0, 0] [1 / 2 ^ 39, 0] (1 / 2 ^ 40) = false := by
  rw [← vectorCloseSq_eq_vectorCloseNorm _ _ _ (by positivity),
    ← vectorCloseSq_eq_vectorCloseNorm _ _ _ (by positivity)]
  simp only [vectorCloseSq, normSq, List.foldl_cons, List.foldl_nil]
  norm_num

/-- `linearization_error([[0, 5, 10, 30], [0, 12, 24, 72]]) = 29.25`, model: `29.25² = 855.5625` -/
example : linearizationErrorNorm [[0, 5, 10, 30], [0, 12, 24, 72]] = .ok 29.25 := by
  have hm : ∀ a b : ℝ, maxK a b = max a b := Predicates.maxK_eq_max
  have ha : ∀ a : ℝ, absK a = |a| := Predicates.absK_eq_abs
  have hs : Real.sqrt 1521 = 39 := by
    rw [show (1521 : ℝ) = 39 ^ 2 by norm_num]; exact Real.sqrt_sq (by norm_num)
  simp only [linearizationErrorNorm, ncols, List.headD_cons, List.length_cons, List.length_nil,
    List.mapM_cons, List.mapM_nil, secondDiffs, maxAbs?, maxOf, hm, ha, List.map_cons, List.map_nil,
    List.foldl_cons, List.foldl_nil, norm2, normSq]
  norm_num [hs]

example : linearizationErrorSq [[(0 : ℝ), 5, 10, 30], [0, 12, 24, 72]] = .ok 855.5625 := by
  have hm : ∀ a b : ℝ, maxK a b = max a b := Predicates.maxK_eq_max
  have ha : ∀ a : ℝ, absK a = |a| := Predicates.absK_eq_abs
  simp only [linearizationErrorSq, ncols, List.headD_cons, List.length_cons, List.length_nil,
    List.mapM_cons, List.mapM_nil, secondDiffs, maxAbs?, maxOf, hm, ha, List.map_cons, List.map_nil,
    List.foldl_cons, List.foldl_nil, normSq, q_one_eight]
  norm_num

/-- `linearization_error([[0, 3, 9], [0, 1, -2]]) = 1.25` (the other doctest) -/
example : linearizationErrorNorm [[0, 3, 9], [0, 1, -2]] = .ok 1.25 := by
  have ha : ∀ a : ℝ, absK a = |a| := Predicates.absK_eq_abs
  have hs : Real.sqrt 25 = 5 := by
    rw [show (25 : ℝ) = 5 ^ 2 by norm_num]; exact Real.sqrt_sq (by norm_num)
  simp only [linearizationErrorNorm, ncols, List.headD_cons, List.length_cons, List.length_nil,
    List.mapM_cons, List.mapM_nil, secondDiffs, maxAbs?, maxOf, ha, List.map_nil,
    List.foldl_nil, norm2, normSq]
  norm_num [hs]

/-- a degree-1 curve has error `0`, fewer than two nodes raise -/
example : linearizationErrorNorm [[0, 1], [2, 5]] = .ok 0 := by simp [linearizationErrorNorm, ncols]

example : linearizationErrorNorm [[1], [2]] = .error .valueError := by
  simp [linearizationErrorNorm, ncols]

end BezierVerif.NormReal
