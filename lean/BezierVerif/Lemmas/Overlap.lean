import BezierVerif.Lemmas.PipelineInst
import BezierVerif.Lemmas.Coverage
import BezierVerif.Props.C08
import Mathlib.Algebra.Polynomial.Roots
import Mathlib.Order.Interval.Set.Infinite

/-!
# Lemmas/Overlap — `coincident_parameters` on arcs of one curve under exact primitives; the candidate-budget exit

* `bern_zero`, `row_unique`, `net_unique`: the Bernstein coefficients of a curve are unique (a polynomial with
  infinitely many roots vanishes), so two nets of one shape defining the same curve are EQUAL;
* `firstNode_eq`, `lastNode_eq`: the end columns are the points at `0` and `1`;
* `coincidentFrom`, `coincidentParameters_of_locate`: `coincident_parameters` as a function of the four answers of
  `locate_point`;
* `ExactPrims` (the contract), `InjNet`, `InjUnit`, `IsArc`, `locOpt`, `locate_arc`: exact point location on an arc
  of an injective parent returns the local parameter or `None`;
* `ArcPair`, `cp_eval`, `cp_second_inside`, `cp_first_inside`, `cp_partial_first`, `cp_partial_second`,
  `cp_partial_opposite_upper`, `cp_partial_opposite_lower`, `cp_disjoint`: every branch of the case analysis;
* `Presents`, `makeSameDegree_presents`, `presents_py_specialize`, `SubArcs`, `subArcs_elevated`: specialised and
  degree-elevated nets present the arcs (C04, C08), `make_same_degree` keeps them;
* `concrete_specialize_eval`, `concrete_specialize_shape`, `vectorCloseSq_refl`, `idealPrims_exact`: the library's
  routines satisfy their part of the contract; the contract is satisfiable;
* `DepthInv`, `RunSound`, `fold_round`, `round_depth`, `depth_count`, `rounds_reach_budget`,
  `allIntersections_budget`: a family of tracked common points that the filters keep forces the candidate-budget
  exit; `greedyPrims_runSound`: satisfiability.
-/

namespace BezierVerif.Overlap

open Model BezierVerif Pipe PipeInst Cover Finset

set_option linter.unusedSectionVars false
set_option linter.unusedVariables false
set_option linter.unusedSimpArgs false
set_option linter.unnecessarySeqFocus false

variable {K : Type} [Field K] [LinearOrder K] [IsStrictOrderedRing K]

/-! ### the Bernstein coefficients of a curve are unique -/

/-- a Bernstein form vanishing for every parameter has vanishing coefficients -/
theorem bern_zero (n : ℕ) (u : ℕ → K) (h : ∀ σ : K, bern n (1 - σ) σ u = 0) : ∀ j ≤ n, u j = 0 := by
  classical
  let p : Polynomial K := ∑ j ∈ range (n + 1), Polynomial.C ((n.choose j : K) * u j) * Polynomial.X ^ j
  have hroot : ∀ t : K, 0 < t → p.IsRoot t := by
    intro t ht
    have h1t : (1 + t) ≠ 0 := by positivity
    have hσ := h (t / (1 + t))
    have e1 : 1 - t / (1 + t) = 1 / (1 + t) := by field_simp; ring
    rw [e1] at hσ
    unfold bern at hσ
    show Polynomial.eval t p = 0
    simp only [p, Polynomial.eval_finsetSum, Polynomial.eval_mul, Polynomial.eval_C, Polynomial.eval_pow,
      Polynomial.eval_X]
    have : ∑ j ∈ range (n + 1), (n.choose j : K) * u j * t ^ j
        = (1 + t) ^ n * ∑ j ∈ range (n + 1), (n.choose j : K) * (1 / (1 + t)) ^ (n - j) * (t / (1 + t)) ^ j * u j := by
      rw [Finset.mul_sum]
      apply Finset.sum_congr rfl
      intro j hj
      have hjn : j ≤ n := by have := mem_range.mp hj; omega
      have : (1 + t) ^ n = (1 + t) ^ (n - j) * (1 + t) ^ j := by rw [← pow_add]; congr 1; omega
      rw [this, div_pow, div_pow, one_pow]
      field_simp
    rw [this, hσ, mul_zero]
  have hp : p = 0 := by
    apply Polynomial.eq_zero_of_infinite_isRoot
    exact (Set.Ioi_infinite (0 : K)).mono (fun t ht => hroot t ht)
  intro j hj
  have hc : p.coeff j = (n.choose j : K) * u j := by
    simp only [p, Polynomial.finsetSum_coeff, Polynomial.coeff_C_mul_X_pow]
    rw [Finset.sum_eq_single j]
    · simp
    · intro b _ hb; rw [if_neg (Ne.symm hb)]
    · intro hj'; exact absurd (mem_range.mpr (by omega)) hj'
  rw [hp, Polynomial.coeff_zero] at hc
  have hch : (n.choose j : K) ≠ 0 := by
    exact_mod_cast (Nat.choose_pos hj).ne'
  rcases mul_eq_zero.mp hc.symm with h0 | h0
  · exact absurd h0 hch
  · exact h0


/-- a row with at least one node is determined by the curve it defines -/
theorem row_unique (thr : ℕ) (r r' : List K) (hl : r.length = r'.length) (h1 : 1 ≤ r.length)
    (h : ∀ σ : K, evalBary thr r (1 - σ) σ = evalBary thr r' (1 - σ) σ) : r = r' := by
  have hz := bern_zero (r.length - 1) (fun j => seq r j - seq r' j) (by
    intro σ
    have := h σ
    rw [evalBary_unit_bern thr r h1, evalBary_unit_bern thr r' (hl ▸ h1), ← hl] at this
    unfold bern at this ⊢
    rw [← sub_eq_zero, ← Finset.sum_sub_distrib] at this
    rw [← this]
    apply Finset.sum_congr rfl
    intro j _
    ring)
  apply List.ext_getElem hl
  intro i hi hi'
  have := hz i (by omega)
  simp only [seq, List.getD_eq_getElem?_getD, List.getElem?_eq_getElem hi, List.getElem?_eq_getElem hi',
    Option.getD_some] at this
  exact sub_eq_zero.mp this

/-- two nets of the same shape (rows with at least one node) that define the same curve are equal -/
theorem net_unique (thr : ℕ) : ∀ (m m' : List (List K)), m.map List.length = m'.map List.length →
    (∀ row ∈ m, 1 ≤ row.length) → (∀ σ : K, evalPoint thr m σ = evalPoint thr m' σ) → m = m' := by
  intro m
  induction m with
  | nil =>
    intro m' hs _ _
    cases m' with
    | nil => rfl
    | cons _ _ => simp at hs
  | cons r rs ih =>
    intro m' hs hr he
    cases m' with
    | nil => simp at hs
    | cons r' rs' =>
      simp only [List.map_cons, List.cons.injEq] at hs
      have h1 : r = r' := row_unique thr r r' hs.1 (hr r List.mem_cons_self) (fun σ => by
        have := he σ
        simp only [evalPoint, List.map_cons, List.cons.injEq] at this
        exact this.1)
      have h2 : rs = rs' := ih rs' hs.2 (fun row hrow => hr row (List.mem_cons_of_mem _ hrow)) (fun σ => by
        have := he σ
        simp only [evalPoint, List.map_cons, List.cons.injEq] at this
        exact this.2)
      rw [h1, h2]

/-! ### end points -/

theorem bern_at_zero (n : ℕ) (v : ℕ → K) : bern n (1 - 0) 0 v = v 0 := by
  unfold bern
  rw [Finset.sum_eq_single 0]
  · simp
  · intro j _ hj; simp [zero_pow hj]
  · intro h; exact absurd (mem_range.mpr (by omega)) h

theorem bern_at_one (n : ℕ) (v : ℕ → K) : bern n (1 - 1) 1 v = v n := by
  unfold bern
  rw [Finset.sum_eq_single n]
  · simp
  · intro j hj hjn
    have : n - j ≠ 0 := by have := mem_range.mp hj; omega
    simp [zero_pow this]
  · intro h; exact absurd (mem_range.mpr (by omega)) h

/-- `nodes[:, 0]` is the point at parameter `0` -/
theorem firstNode_eq (thr : ℕ) (m : List (List K)) (h : RowsOK m) : firstNode m = evalPoint thr m 0 := by
  unfold firstNode evalPoint
  apply List.map_congr_left
  intro r hr
  have hl := h r hr
  rw [evalBary_unit_bern thr r (by omega) 0, bern_at_zero]
  cases r with
  | nil => simp at hl
  | cons x xs => simp [seq]

/-- `nodes[:, -1]` is the point at parameter `1` -/
theorem lastNode_eq (thr : ℕ) (m : List (List K)) (h : RowsOK m) : lastNode m = evalPoint thr m 1 := by
  unfold lastNode evalPoint
  apply List.map_congr_left
  intro r hr
  have hl := h r hr
  rw [evalBary_unit_bern thr r (by omega) 1, bern_at_one]
  rfl


/-! ### `coincident_parameters` as a function of the four `locate_point` answers -/

/-- the pure part of `coincident_parameters` (after `make_same_degree`): the case analysis on the four
    located parameters, the width test and the `vector_close` comparisons -/
def coincidentFrom (P : Prims K) (G : GeoConsts K) (m1 m2 : List (List K)) (sI sF tI tF : Option K) :
    Option (List (K × K)) :=
  match sI, sF with
  | some si, some sf =>
    if P.vectorClose (flatten (P.specialize m1 si sf)) (flatten m2) then some [(si, 0), (sf, 1)] else none
  | _, _ =>
    match tI, tF with
    | none, none => none
    | some ti, some tf =>
      if P.vectorClose (flatten m1) (flatten (P.specialize m2 ti tf)) then some [(0, ti), (1, tf)] else none
    | _, _ =>
      if sI.isNone ∧ sF.isNone then none
      else
        let quad : K × K × K × K :=
          match sI, tI with
          | none, none => (sF.getD 0, 1, 1, tF.getD 0)
          | none, some ti => (0, sF.getD 0, ti, 1)
          | some si, none => (si, 1, 0, tF.getD 0)
          | some si, some ti => (0, si, ti, 0)
        if absDiff quad.1 quad.2.1 < G.minWidth ∧ absDiff quad.2.2.1 quad.2.2.2 < G.minWidth then none
        else if P.vectorClose (flatten (P.specialize m1 quad.1 quad.2.1))
            (flatten (P.specialize m2 quad.2.2.1 quad.2.2.2))
        then some [(quad.1, quad.2.2.1), (quad.2.1, quad.2.2.2)] else none

theorem coincidentParameters_of_locate (P : Prims K) (G : GeoConsts K) (n1 n2 : List (List K))
    (sI sF tI tF : Option K)
    (h1 : P.locate (makeSameDegree n1 n2).1 (firstNode (makeSameDegree n1 n2).2) = .ok sI)
    (h2 : P.locate (makeSameDegree n1 n2).1 (lastNode (makeSameDegree n1 n2).2) = .ok sF)
    (h3 : P.locate (makeSameDegree n1 n2).2 (firstNode (makeSameDegree n1 n2).1) = .ok tI)
    (h4 : P.locate (makeSameDegree n1 n2).2 (lastNode (makeSameDegree n1 n2).1) = .ok tF) :
    coincidentParameters P G n1 n2
      = .ok (coincidentFrom P G (makeSameDegree n1 n2).1 (makeSameDegree n1 n2).2 sI sF tI tF) := by
  unfold coincidentParameters coincidentFrom
  dsimp only
  rw [h1, h2]
  dsimp only
  rcases sI with _ | si <;> rcases sF with _ | sf <;> dsimp only
  case some.some => split_ifs <;> rfl
  all_goals
    rw [h3, h4]
    rcases tI with _ | ti <;> rcases tF with _ | tf <;> dsimp only [Option.getD] <;>
      (try split_ifs) <;> rfl


/-! ### exact primitives -/

/-- the curve of the net is injective on `[0,1]` -/
def InjNet (thr : ℕ) (m : List (List K)) : Prop :=
  ∀ x y : K, 0 ≤ x → x ≤ 1 → 0 ≤ y → y ≤ 1 → evalPoint thr m x = evalPoint thr m y → x = y

/-- **the exact primitives** assumed by the overlap theorems (`RowsOK m`: every row has at least two nodes):
    * `locate_point` on an injective curve returns THE parameter of a point of the curve and `None` for a point
      off the curve (never an error),
    * `specialize_curve` returns a net of the same shape whose curve is the restriction,
    * `vector_close` accepts equal vectors (nothing is assumed about unequal ones). -/
structure ExactPrims (thr : ℕ) (P : Prims K) : Prop where
  locate_found : ∀ m s, RowsOK m → InjNet thr m → 0 ≤ s → s ≤ 1 →
    P.locate m (evalPoint thr m s) = .ok (some s)
  locate_miss : ∀ m p, RowsOK m → (∀ s, 0 ≤ s → s ≤ 1 → evalPoint thr m s ≠ p) → P.locate m p = .ok none
  specialize_eval : ∀ m x y σ, RowsOK m →
    evalPoint thr (P.specialize m x y) σ = evalPoint thr m (x + σ * (y - x))
  specialize_shape : ∀ m x y, RowsOK m → (P.specialize m x y).map List.length = m.map List.length
  close_refl : ∀ u, P.vectorClose u u = true

/-- the iff-form of the `locate_point` contract -/
theorem ExactPrims.locate_some_iff {thr : ℕ} {P : Prims K} (hP : ExactPrims thr P) (m : List (List K))
    (hm : RowsOK m) (hi : InjNet thr m) (p : List K) (s : K) :
    P.locate m p = .ok (some s) ↔ 0 ≤ s ∧ s ≤ 1 ∧ evalPoint thr m s = p := by
  constructor
  · intro h
    by_cases hex : ∃ s', 0 ≤ s' ∧ s' ≤ 1 ∧ evalPoint thr m s' = p
    · obtain ⟨s', h0, h1, he⟩ := hex
      have := hP.locate_found m s' hm hi h0 h1
      rw [he, h] at this
      cases this
      exact ⟨h0, h1, he⟩
    · have := hP.locate_miss m p hm (fun s' h0 h1 he => hex ⟨s', h0, h1, he⟩)
      rw [h] at this; cases this
  · rintro ⟨h0, h1, rfl⟩
    exact hP.locate_found m s hm hi h0 h1

theorem ExactPrims.locate_none_iff {thr : ℕ} {P : Prims K} (hP : ExactPrims thr P) (m : List (List K))
    (hm : RowsOK m) (hi : InjNet thr m) (p : List K) :
    P.locate m p = .ok none ↔ ∀ s, 0 ≤ s → s ≤ 1 → evalPoint thr m s ≠ p := by
  constructor
  · intro h s h0 h1 he
    have := hP.locate_found m s hm hi h0 h1
    rw [he, h] at this; cases this
  · exact hP.locate_miss m p hm

/-! ### arcs of one parent curve -/

/-- `B` is injective on `[0,1]` -/
def InjUnit (B : K → List K) : Prop :=
  ∀ x y : K, 0 ≤ x → x ≤ 1 → 0 ≤ y → y ≤ 1 → B x = B y → x = y

/-- the net `m` presents the arc `[a, b]` of `B` (`b < a`: traversed backwards) -/
def IsArc (thr : ℕ) (B : K → List K) (m : List (List K)) (a b : K) : Prop :=
  ∀ σ : K, evalPoint thr m σ = B (a + σ * (b - a))

theorem IsArc.congr {thr : ℕ} {B : K → List K} {m : List (List K)} {a b a' b' : K}
    (h : IsArc thr B m a b) (ha : a = a') (hb : b = b') : IsArc thr B m a' b' := by
  subst ha hb; exact h

theorem seg_unit (a b σ : K) (ha : 0 ≤ a ∧ a ≤ 1) (hb : 0 ≤ b ∧ b ≤ 1) (h0 : 0 ≤ σ) (h1 : σ ≤ 1) :
    0 ≤ a + σ * (b - a) ∧ a + σ * (b - a) ≤ 1 := by
  have e : a + σ * (b - a) = (1 - σ) * a + σ * b := by ring
  rw [e]
  have := convex_unit σ a b ⟨h0, h1⟩ ha hb
  exact this

theorem IsArc.injNet {thr : ℕ} {B : K → List K} {m : List (List K)} {a b : K}
    (h : IsArc thr B m a b) (hB : InjUnit B) (ha : 0 ≤ a ∧ a ≤ 1) (hb : 0 ≤ b ∧ b ≤ 1) (hab : a ≠ b) :
    InjNet thr m := by
  intro x y x0 x1 y0 y1 he
  rw [h x, h y] at he
  obtain ⟨p0, p1⟩ := seg_unit a b x ha hb x0 x1
  obtain ⟨q0, q1⟩ := seg_unit a b y ha hb y0 y1
  have := hB _ _ p0 p1 q0 q1 he
  have hne : b - a ≠ 0 := sub_ne_zero.mpr (Ne.symm hab)
  have : (x - y) * (b - a) = 0 := by linear_combination this
  rcases mul_eq_zero.mp this with h' | h'
  · exact sub_eq_zero.mp h'
  · exact absurd h' hne

/-- the local parameter of `x` on the arc `[a, b]`, when `x` lies on it -/
def locOpt (a b x : K) : Option K :=
  if 0 ≤ (x - a) / (b - a) ∧ (x - a) / (b - a) ≤ 1 then some ((x - a) / (b - a)) else none

/-- exact `locate_point` on an arc of an injective parent: the local parameter of `B x` or `None` -/
theorem locate_arc {thr : ℕ} {P : Prims K} (hP : ExactPrims thr P) {B : K → List K} (hB : InjUnit B)
    {m : List (List K)} (hm : RowsOK m) {a b : K} (h : IsArc thr B m a b) (ha : 0 ≤ a ∧ a ≤ 1)
    (hb : 0 ≤ b ∧ b ≤ 1) (hab : a ≠ b) (x : K) (hx : 0 ≤ x ∧ x ≤ 1) :
    P.locate m (B x) = .ok (locOpt a b x) := by
  have hne : b - a ≠ 0 := sub_ne_zero.mpr (Ne.symm hab)
  unfold locOpt
  split_ifs with hin
  · have e : B x = evalPoint thr m ((x - a) / (b - a)) := by
      rw [h]; congr 1; field_simp; ring
    rw [e]
    exact hP.locate_found m _ hm (h.injNet hB ha hb hab) hin.1 hin.2
  · apply hP.locate_miss m _ hm
    intro s s0 s1 he
    rw [h s] at he
    obtain ⟨p0, p1⟩ := seg_unit a b s ha hb s0 s1
    have := hB _ _ p0 p1 hx.1 hx.2 he
    apply hin
    have es : s = (x - a) / (b - a) := by rw [← this]; field_simp; ring
    rw [← es]; exact ⟨s0, s1⟩

theorem locOpt_lt (a b x : K) (hab : a < b) :
    locOpt a b x = if a ≤ x ∧ x ≤ b then some ((x - a) / (b - a)) else none := by
  unfold locOpt
  have hpos : 0 < b - a := sub_pos.mpr hab
  have : (0 ≤ (x - a) / (b - a) ∧ (x - a) / (b - a) ≤ 1) ↔ (a ≤ x ∧ x ≤ b) := by
    rw [le_div_iff₀ hpos, div_le_one hpos] <;> constructor <;> rintro ⟨h1, h2⟩ <;>
      constructor <;> linarith
  simp only [this]

theorem locOpt_gt (a b x : K) (hab : b < a) :
    locOpt a b x = if b ≤ x ∧ x ≤ a then some ((x - a) / (b - a)) else none := by
  unfold locOpt
  have hneg : b - a < 0 := sub_neg.mpr hab
  have : (0 ≤ (x - a) / (b - a) ∧ (x - a) / (b - a) ≤ 1) ↔ (b ≤ x ∧ x ≤ a) := by
    rw [div_nonneg_iff, div_le_one_of_neg hneg]
    constructor
    · rintro ⟨h1 | h1, h2⟩
      · exact absurd h1.2 (not_le.mpr hneg)
      · constructor <;> linarith [h1.1]
    · rintro ⟨h1, h2⟩
      exact ⟨Or.inr ⟨by linarith, hneg.le⟩, by linarith⟩
  simp only [this]


/-! ### two arcs of one injective parent, presented by nets of the same shape -/

theorem rowsOK_of_shape (m m' : List (List K)) (hs : m.map List.length = m'.map List.length) (h : RowsOK m) :
    RowsOK m' := by
  intro row hrow
  have : row.length ∈ m'.map List.length := List.mem_map.mpr ⟨row, hrow, rfl⟩
  rw [← hs] at this
  obtain ⟨r, hr, e⟩ := List.mem_map.mp this
  rw [← e]; exact h r hr

/-- the standing hypotheses of the overlap theorems: exact primitives, an injective parent `B`, `m1` the arc
    `[a, b]` (`a < b`), `m2` the arc from `c` to `d` (`c ≠ d`, either direction), both nets of the same shape -/
structure ArcPair (thr : ℕ) (P : Prims K) (B : K → List K) (m1 m2 : List (List K)) (a b c d : K) : Prop where
  exact : ExactPrims thr P
  inj : InjUnit B
  arc1 : IsArc thr B m1 a b
  arc2 : IsArc thr B m2 c d
  rows : RowsOK m1
  shape : m1.map List.length = m2.map List.length
  ha : 0 ≤ a
  hab : a < b
  hb : b ≤ 1
  hc : 0 ≤ c ∧ c ≤ 1
  hd : 0 ≤ d ∧ d ≤ 1
  hcd : c ≠ d

namespace ArcPair

variable {thr : ℕ} {P : Prims K} {B : K → List K} {m1 m2 : List (List K)} {a b c d : K}

theorem rows2 (h : ArcPair thr P B m1 m2 a b c d) : RowsOK m2 := rowsOK_of_shape m1 m2 h.shape h.rows

theorem ha' (h : ArcPair thr P B m1 m2 a b c d) : 0 ≤ a ∧ a ≤ 1 := ⟨h.ha, by linarith [h.hab, h.hb]⟩
theorem hb' (h : ArcPair thr P B m1 m2 a b c d) : 0 ≤ b ∧ b ≤ 1 := ⟨by linarith [h.hab, h.ha], h.hb⟩

end ArcPair

theorem specialize_arc {thr : ℕ} {P : Prims K} (hP : ExactPrims thr P) {B : K → List K} {m : List (List K)}
    (hm : RowsOK m) {a b : K} (h : IsArc thr B m a b) (x y : K) :
    IsArc thr B (P.specialize m x y) (a + x * (b - a)) (a + y * (b - a)) := by
  intro σ
  rw [hP.specialize_eval m x y σ hm, h]
  congr 1; ring

/-- two nets of the same shape presenting the same arc are equal -/
theorem arc_unique {thr : ℕ} {B : K → List K} {m m' : List (List K)} {a b : K}
    (h : IsArc thr B m a b) (h' : IsArc thr B m' a b) (hs : m.map List.length = m'.map List.length)
    (hm : RowsOK m) : m = m' :=
  net_unique thr m m' hs (fun row hrow => by have := hm row hrow; omega) (fun σ => by rw [h σ, h' σ])

namespace ArcPair

variable {thr : ℕ} {P : Prims K} {B : K → List K} {m1 m2 : List (List K)} {a b c d : K}

theorem close1 (h : ArcPair thr P B m1 m2 a b c d) (x y : K) (hx : a + x * (b - a) = c) (hy : a + y * (b - a) = d) :
    P.vectorClose (flatten (P.specialize m1 x y)) (flatten m2) = true := by
  have e : P.specialize m1 x y = m2 :=
    arc_unique ((specialize_arc h.exact h.rows h.arc1 x y).congr hx hy) h.arc2
      ((h.exact.specialize_shape m1 x y h.rows).trans h.shape)
      (rowsOK_of_shape _ _ (h.exact.specialize_shape m1 x y h.rows).symm h.rows)
  rw [e]; exact h.exact.close_refl _

theorem close2 (h : ArcPair thr P B m1 m2 a b c d) (x y : K) (hx : c + x * (d - c) = a) (hy : c + y * (d - c) = b) :
    P.vectorClose (flatten m1) (flatten (P.specialize m2 x y)) = true := by
  have e : P.specialize m2 x y = m1 :=
    arc_unique ((specialize_arc h.exact h.rows2 h.arc2 x y).congr hx hy) h.arc1
      ((h.exact.specialize_shape m2 x y h.rows2).trans h.shape.symm)
      (rowsOK_of_shape _ _ (h.exact.specialize_shape m2 x y h.rows2).symm h.rows2)
  rw [e]; exact h.exact.close_refl _

theorem close3 (h : ArcPair thr P B m1 m2 a b c d) (x y x' y' : K)
    (hx : a + x * (b - a) = c + x' * (d - c)) (hy : a + y * (b - a) = c + y' * (d - c)) :
    P.vectorClose (flatten (P.specialize m1 x y)) (flatten (P.specialize m2 x' y')) = true := by
  have e : P.specialize m1 x y = P.specialize m2 x' y' :=
    arc_unique ((specialize_arc h.exact h.rows h.arc1 x y).congr hx hy) (specialize_arc h.exact h.rows2 h.arc2 x' y')
      (((h.exact.specialize_shape m1 x y h.rows).trans h.shape).trans (h.exact.specialize_shape m2 x' y' h.rows2).symm)
      (rowsOK_of_shape _ _ (h.exact.specialize_shape m1 x y h.rows).symm h.rows)
  rw [e]; exact h.exact.close_refl _

theorem arc1_zero (h : ArcPair thr P B m1 m2 a b c d) : firstNode m1 = B a := by
  rw [firstNode_eq thr m1 h.rows, h.arc1 0]; congr 1; ring
theorem arc1_one (h : ArcPair thr P B m1 m2 a b c d) : lastNode m1 = B b := by
  rw [lastNode_eq thr m1 h.rows, h.arc1 1]; congr 1; ring
theorem arc2_zero (h : ArcPair thr P B m1 m2 a b c d) : firstNode m2 = B c := by
  rw [firstNode_eq thr m2 h.rows2, h.arc2 0]; congr 1; ring
theorem arc2_one (h : ArcPair thr P B m1 m2 a b c d) : lastNode m2 = B d := by
  rw [lastNode_eq thr m2 h.rows2, h.arc2 1]; congr 1; ring

end ArcPair

/-- **`coincident_parameters` on two arcs of an injective parent under exact primitives**: the four
    `locate_point` calls return the local parameters of the end points lying on the other arc, the result is the
    code's case analysis on them -/
theorem cp_eval {thr : ℕ} {P : Prims K} (G : GeoConsts K) {B : K → List K} {n1 n2 : List (List K)} {a b c d : K}
    (h : ArcPair thr P B (makeSameDegree n1 n2).1 (makeSameDegree n1 n2).2 a b c d) :
    coincidentParameters P G n1 n2
      = .ok (coincidentFrom P G (makeSameDegree n1 n2).1 (makeSameDegree n1 n2).2
          (locOpt a b c) (locOpt a b d) (locOpt c d a) (locOpt c d b)) := by
  apply coincidentParameters_of_locate
  · rw [h.arc2_zero]
    exact locate_arc h.exact h.inj h.rows h.arc1 h.ha' h.hb' (ne_of_lt h.hab) c h.hc
  · rw [h.arc2_one]
    exact locate_arc h.exact h.inj h.rows h.arc1 h.ha' h.hb' (ne_of_lt h.hab) d h.hd
  · rw [h.arc1_zero]
    exact locate_arc h.exact h.inj h.rows2 h.arc2 h.hc h.hd h.hcd a h.ha'
  · rw [h.arc1_one]
    exact locate_arc h.exact h.inj h.rows2 h.arc2 h.hc h.hd h.hcd b h.hb'


theorem absDiff_of_le (x y : K) (h : x ≤ y) : absDiff x y = y - x := by
  unfold absDiff
  split_ifs with h'
  · rfl
  · have : x = y := le_antisymm h (not_lt.mp h')
    rw [this]

theorem absDiff_of_ge (x y : K) (h : y ≤ x) : absDiff x y = x - y := by
  unfold absDiff
  rw [if_neg (not_lt.mpr h)]

section Cases

variable {thr : ℕ} {P : Prims K} (G : GeoConsts K) {B : K → List K} {n1 n2 : List (List K)} {a b c d : K}

/-- same direction, partial overlap starting with the FIRST curve: `a < c ≤ b < d` -/
theorem cp_partial_first (h : ArcPair thr P B (makeSameDegree n1 n2).1 (makeSameDegree n1 n2).2 a b c d)
    (h1 : a < c) (h2 : c ≤ b) (h3 : b < d) :
    coincidentParameters P G n1 n2 =
      .ok (if 1 - (c - a) / (b - a) < G.minWidth ∧ (b - c) / (d - c) < G.minWidth then none
           else some [((c - a) / (b - a), 0), (1, (b - c) / (d - c))]) := by
  have hcd : c < d := lt_of_le_of_lt h2 h3
  have hba : 0 < b - a := sub_pos.mpr h.hab
  have hdc : 0 < d - c := sub_pos.mpr hcd
  rw [cp_eval G h, locOpt_lt a b c h.hab, locOpt_lt a b d h.hab, locOpt_lt c d a hcd, locOpt_lt c d b hcd,
    if_pos ⟨h1.le, h2⟩, if_neg (fun hh => absurd hh.2 (not_le.mpr h3)), if_neg (fun hh => absurd hh.1 (not_le.mpr h1)),
    if_pos ⟨h2, h3.le⟩]
  have hs1 : (c - a) / (b - a) ≤ 1 := by rw [div_le_one hba]; linarith
  have ht0 : 0 ≤ (b - c) / (d - c) := div_nonneg (by linarith) hdc.le
  simp only [coincidentFrom, Option.isNone_some, Option.isNone_none, Bool.false_eq_true, false_and, if_false,
    Option.getD_some]
  rw [absDiff_of_le _ _ hs1, absDiff_of_le _ _ ht0, sub_zero,
    h.close3 ((c - a) / (b - a)) 1 0 ((b - c) / (d - c)) (by field_simp; ring) (by field_simp; ring), if_pos rfl]


/-- same direction, partial overlap starting with the SECOND curve: `c < a ≤ d < b` -/
theorem cp_partial_second (h : ArcPair thr P B (makeSameDegree n1 n2).1 (makeSameDegree n1 n2).2 a b c d)
    (h1 : c < a) (h2 : a ≤ d) (h3 : d < b) :
    coincidentParameters P G n1 n2 =
      .ok (if (d - a) / (b - a) < G.minWidth ∧ 1 - (a - c) / (d - c) < G.minWidth then none
           else some [(0, (a - c) / (d - c)), ((d - a) / (b - a), 1)]) := by
  have hcd : c < d := lt_of_lt_of_le h1 h2
  have hba : 0 < b - a := sub_pos.mpr h.hab
  have hdc : 0 < d - c := sub_pos.mpr hcd
  rw [cp_eval G h, locOpt_lt a b c h.hab, locOpt_lt a b d h.hab, locOpt_lt c d a hcd, locOpt_lt c d b hcd,
    if_neg (fun hh => absurd hh.1 (not_le.mpr h1)), if_pos ⟨h2, h3.le⟩, if_pos ⟨h1.le, h2⟩,
    if_neg (fun hh => absurd hh.2 (not_le.mpr h3))]
  have hs0 : 0 ≤ (d - a) / (b - a) := div_nonneg (by linarith) hba.le
  have ht1 : (a - c) / (d - c) ≤ 1 := by rw [div_le_one hdc]; linarith
  simp only [coincidentFrom, Option.isNone_some, Option.isNone_none, Bool.false_eq_true, and_false, if_false,
    Option.getD_some]
  rw [absDiff_of_le _ _ hs0, absDiff_of_le _ _ ht1, sub_zero,
    h.close3 0 ((d - a) / (b - a)) ((a - c) / (d - c)) 1 (by field_simp; ring) (by field_simp; ring), if_pos rfl]

/-- OPPOSITE direction, partial overlap `[d, b]`: `a < d ≤ b < c` -/
theorem cp_partial_opposite_upper (h : ArcPair thr P B (makeSameDegree n1 n2).1 (makeSameDegree n1 n2).2 a b c d)
    (h1 : a < d) (h2 : d ≤ b) (h3 : b < c) :
    coincidentParameters P G n1 n2 =
      .ok (if 1 - (d - a) / (b - a) < G.minWidth ∧ 1 - (b - c) / (d - c) < G.minWidth then none
           else some [((d - a) / (b - a), 1), (1, (b - c) / (d - c))]) := by
  have hdc' : d < c := lt_of_le_of_lt h2 h3
  have hba : 0 < b - a := sub_pos.mpr h.hab
  have hdc : d - c < 0 := sub_neg.mpr hdc'
  rw [cp_eval G h, locOpt_lt a b c h.hab, locOpt_lt a b d h.hab, locOpt_gt c d a hdc', locOpt_gt c d b hdc',
    if_neg (fun hh => absurd hh.2 (not_le.mpr h3)), if_pos ⟨h1.le, h2⟩,
    if_neg (fun hh => absurd hh.1 (not_le.mpr h1)), if_pos ⟨h2, h3.le⟩]
  have hs1 : (d - a) / (b - a) ≤ 1 := by rw [div_le_one hba]; linarith
  have ht1 : (b - c) / (d - c) ≤ 1 := by rw [div_le_one_of_neg hdc]; linarith
  simp only [coincidentFrom, Option.isNone_some, Option.isNone_none, Bool.false_eq_true, false_and, and_false,
    if_false, Option.getD_some]
  rw [absDiff_of_le _ _ hs1, absDiff_of_ge _ _ ht1,
    h.close3 ((d - a) / (b - a)) 1 1 ((b - c) / (d - c)) (by field_simp; ring)
      (by have : d - c ≠ 0 := hdc.ne; field_simp; ring), if_pos rfl]

/-- OPPOSITE direction, partial overlap `[a, c]`: `d < a ≤ c < b` -/
theorem cp_partial_opposite_lower (h : ArcPair thr P B (makeSameDegree n1 n2).1 (makeSameDegree n1 n2).2 a b c d)
    (h1 : d < a) (h2 : a ≤ c) (h3 : c < b) :
    coincidentParameters P G n1 n2 =
      .ok (if (c - a) / (b - a) < G.minWidth ∧ (a - c) / (d - c) < G.minWidth then none
           else some [(0, (a - c) / (d - c)), ((c - a) / (b - a), 0)]) := by
  have hdc' : d < c := lt_of_lt_of_le h1 h2
  have hba : 0 < b - a := sub_pos.mpr h.hab
  have hdc : d - c < 0 := sub_neg.mpr hdc'
  rw [cp_eval G h, locOpt_lt a b c h.hab, locOpt_lt a b d h.hab, locOpt_gt c d a hdc', locOpt_gt c d b hdc',
    if_pos ⟨h2, h3.le⟩, if_neg (fun hh => absurd hh.1 (not_le.mpr h1)),
    if_pos ⟨h1.le, h2⟩, if_neg (fun hh => absurd hh.2 (not_le.mpr h3))]
  have hs0 : 0 ≤ (c - a) / (b - a) := div_nonneg (by linarith) hba.le
  have ht0 : 0 ≤ (a - c) / (d - c) := div_nonneg_of_nonpos (by linarith) hdc.le
  simp only [coincidentFrom, Option.isNone_some, Option.isNone_none, Bool.false_eq_true, false_and, and_false,
    if_false, Option.getD_some]
  rw [absDiff_of_le _ _ hs0, absDiff_of_ge _ _ ht0, sub_zero, sub_zero,
    h.close3 0 ((c - a) / (b - a)) ((a - c) / (d - c)) 0 (by have : d - c ≠ 0 := hdc.ne; field_simp; ring)
      (by field_simp; ring), if_pos rfl]

/-- both end points of the second arc lie on the first (either direction): second inside first -/
theorem cp_second_inside (h : ArcPair thr P B (makeSameDegree n1 n2).1 (makeSameDegree n1 n2).2 a b c d)
    (h1 : a ≤ c) (h2 : c ≤ b) (h3 : a ≤ d) (h4 : d ≤ b) :
    coincidentParameters P G n1 n2 = .ok (some [((c - a) / (b - a), 0), ((d - a) / (b - a), 1)]) := by
  have hba : 0 < b - a := sub_pos.mpr h.hab
  rw [cp_eval G h, locOpt_lt a b c h.hab, locOpt_lt a b d h.hab, if_pos ⟨h1, h2⟩, if_pos ⟨h3, h4⟩]
  simp only [coincidentFrom]
  rw [h.close1 ((c - a) / (b - a)) ((d - a) / (b - a)) (by field_simp; ring) (by field_simp; ring), if_pos rfl]

/-- not both end points of the second arc lie on the first, but both end points of the first lie on the second:
    first inside second (either direction) -/
theorem cp_first_inside (h : ArcPair thr P B (makeSameDegree n1 n2).1 (makeSameDegree n1 n2).2 a b c d)
    (hns : ¬ ((a ≤ c ∧ c ≤ b) ∧ (a ≤ d ∧ d ≤ b)))
    (hta : locOpt c d a = some ((a - c) / (d - c))) (htb : locOpt c d b = some ((b - c) / (d - c))) :
    coincidentParameters P G n1 n2 = .ok (some [(0, (a - c) / (d - c)), (1, (b - c) / (d - c))]) := by
  have hdc : d - c ≠ 0 := sub_ne_zero.mpr (Ne.symm h.hcd)
  have hcl := h.close2 ((a - c) / (d - c)) ((b - c) / (d - c)) (by field_simp; ring) (by field_simp; ring)
  rw [cp_eval G h, locOpt_lt a b c h.hab, locOpt_lt a b d h.hab, hta, htb]
  by_cases hc : a ≤ c ∧ c ≤ b <;> by_cases hd : a ≤ d ∧ d ≤ b
  · exact absurd ⟨hc, hd⟩ hns
  · rw [if_pos hc, if_neg hd]; simp only [coincidentFrom, hcl, if_true]
  · rw [if_neg hc, if_pos hd]; simp only [coincidentFrom, hcl, if_true]
  · rw [if_neg hc, if_neg hd]; simp only [coincidentFrom, hcl, if_true]

/-- not both end points of the second arc lie on the first and no end point of the first on the second: `None` -/
theorem cp_disjoint (h : ArcPair thr P B (makeSameDegree n1 n2).1 (makeSameDegree n1 n2).2 a b c d)
    (hns : ¬ ((a ≤ c ∧ c ≤ b) ∧ (a ≤ d ∧ d ≤ b)))
    (hta : locOpt c d a = none) (htb : locOpt c d b = none) :
    coincidentParameters P G n1 n2 = .ok none := by
  rw [cp_eval G h, locOpt_lt a b c h.hab, locOpt_lt a b d h.hab, hta, htb]
  by_cases hc : a ≤ c ∧ c ≤ b <;> by_cases hd : a ≤ d ∧ d ≤ b
  · exact absurd ⟨hc, hd⟩ hns
  · rw [if_pos hc, if_neg hd]; simp only [coincidentFrom]
  · rw [if_neg hc, if_pos hd]; simp only [coincidentFrom]
  · rw [if_neg hc, if_neg hd]; simp only [coincidentFrom]

end Cases


/-! ### presentations of an arc: specialised nets, elevated nets, `make_same_degree` -/

/-- `n` presents the arc from `a` to `b` of `B` as a net of `D` rows with `N ≥ 2` nodes each (degree `N − 1`) -/
structure Presents (thr : ℕ) (B : K → List K) (n : List (List K)) (a b : K) (D N : ℕ) : Prop where
  arc : IsArc thr B n a b
  dim : n.length = D
  cols : ∀ row ∈ n, row.length = N
  deg : 2 ≤ N

namespace Presents

variable {thr : ℕ} {B : K → List K} {n : List (List K)} {a b : K} {D N : ℕ}

theorem rowsOK (h : Presents thr B n a b D N) : RowsOK n := fun row hrow => by rw [h.cols row hrow]; exact h.deg

theorem shape (h : Presents thr B n a b D N) : n.map List.length = List.replicate D N := by
  rw [List.eq_replicate_iff]
  refine ⟨by rw [List.length_map, h.dim], ?_⟩
  intro x hx
  obtain ⟨row, hrow, rfl⟩ := List.mem_map.mp hx
  exact h.cols row hrow

theorem ncols_eq (h : Presents thr B n a b D N) (hD : 1 ≤ D) : ncols n = N := by
  cases n with
  | nil => have := h.dim; simp at this; omega
  | cons r rs => exact h.cols r List.mem_cons_self

/-- `elevate_nodes` presents the same arc with one more node per row (`C08.elevate_nodes_same_point`) -/
theorem elevate (h : Presents thr B n a b D N) : Presents thr B (Model.elevate n) a b D (N + 1) where
  arc := fun σ => by rw [C08.elevate_nodes_same_point thr thr n h.rowsOK σ]; exact h.arc σ
  dim := by rw [Model.elevate, List.length_map]; exact h.dim
  cols := fun row hrow => by
    obtain ⟨r, hr, rfl⟩ := List.mem_map.mp hrow
    rw [elevateRow_length, h.cols r hr]
  deg := by have := h.deg; omega

theorem iter_elevate (k : ℕ) : ∀ {n : List (List K)} {N : ℕ}, Presents thr B n a b D N →
    Presents thr B (iter Model.elevate k n) a b D (N + k) := by
  induction k with
  | zero => intro n N h; exact h
  | succ k ih =>
    intro n N h
    have := ih h.elevate
    rw [show N + (k + 1) = N + 1 + k by omega]
    exact this

end Presents

/-- **`make_same_degree`** brings two presentations to the common degree without changing the arcs -/
theorem makeSameDegree_presents {thr : ℕ} {B : K → List K} {n1 n2 : List (List K)} {a b c d : K} {D N1 N2 : ℕ}
    (h1 : Presents thr B n1 a b D N1) (h2 : Presents thr B n2 c d D N2) (hD : 1 ≤ D) :
    Presents thr B (makeSameDegree n1 n2).1 a b D (max N1 N2) ∧
    Presents thr B (makeSameDegree n1 n2).2 c d D (max N1 N2) := by
  unfold makeSameDegree
  dsimp only
  rw [h1.ncols_eq hD, h2.ncols_eq hD]
  have e1 : max N1 N2 = N1 + (N2 - N1) := by omega
  have e2 : max N1 N2 = N2 + (N1 - N2) := by omega
  constructor
  · rw [e1]; exact Presents.iter_elevate _ h1
  · rw [e2]; exact Presents.iter_elevate _ h2

/-- two presentations of arcs of an injective parent, exact primitives ⇒ the standing hypotheses hold for the
    nets produced by `make_same_degree` -/
theorem arcPair_of_presents {thr : ℕ} {P : Prims K} (hP : ExactPrims thr P) {B : K → List K} (hB : InjUnit B)
    {n1 n2 : List (List K)} {a b c d : K} {D N1 N2 : ℕ}
    (h1 : Presents thr B n1 a b D N1) (h2 : Presents thr B n2 c d D N2) (hD : 1 ≤ D)
    (ha : 0 ≤ a) (hab : a < b) (hb : b ≤ 1) (hc : 0 ≤ c ∧ c ≤ 1) (hd : 0 ≤ d ∧ d ≤ 1) (hcd : c ≠ d) :
    ArcPair thr P B (makeSameDegree n1 n2).1 (makeSameDegree n1 n2).2 a b c d := by
  obtain ⟨p1, p2⟩ := makeSameDegree_presents h1 h2 hD
  exact { exact := hP, inj := hB, arc1 := p1.arc, arc2 := p2.arc, rows := p1.rowsOK,
          shape := p1.shape.trans p2.shape.symm, ha := ha, hab := hab, hb := hb, hc := hc, hd := hd, hcd := hcd }

/-! ### the sub-arcs produced by `specialize_curve` (C04) -/

/-- a parent net: `D ≥ 1` rows of `N ≥ 2` nodes -/
structure ParentNet (parent : List (List K)) (D N : ℕ) : Prop where
  dim : parent.length = D
  cols : ∀ row ∈ parent, row.length = N
  deg : 2 ≤ N

theorem ParentNet.rowsOK {parent : List (List K)} {D N : ℕ} (h : ParentNet parent D N) : RowsOK parent :=
  fun row hrow => by rw [h.cols row hrow]; exact h.deg

/-- `Py.specialize parent a b` is the restriction of the parent to `[a, b]` (`C04.specialize_correct`) -/
theorem py_specialize_eval (thr : ℕ) (parent : List (List K)) (hp : RowsOK parent) (a b σ : K) :
    evalPoint thr (Py.specialize parent a b) σ = evalPoint thr parent (a + σ * (b - a)) := by
  simp only [evalPoint, Py.specialize, List.map_map]
  apply List.map_congr_left
  intro r hr
  have hl := hp r hr
  show evalBary thr (Py.specializeRow r a b) (1 - σ) σ = _
  rw [evalBary_unit_bern thr _ (by rw [C04.specialize_length]; omega), C04.specialize_length,
    C04.specialize_correct r (by omega), evalBary_unit_bern thr r (by omega)]
  have e : (1 - σ) * a + σ * b = a + σ * (b - a) := by ring
  rw [e]

theorem f90_specialize_eq (parent : List (List K)) (hp : RowsOK parent) (a b : K) :
    F90.specialize parent a b = Py.specialize parent a b := by
  unfold F90.specialize Py.specialize
  apply List.map_congr_left
  intro r hr
  exact C04.specialize_variants_agree r (hp r hr) a b

theorem presents_py_specialize (thr : ℕ) {parent : List (List K)} {D N : ℕ} (hp : ParentNet parent D N) (a b : K) :
    Presents thr (evalPoint thr parent) (Py.specialize parent a b) a b D N where
  arc := fun σ => py_specialize_eval thr parent hp.rowsOK a b σ
  dim := by rw [Py.specialize, List.length_map]; exact hp.dim
  cols := fun row hrow => by
    obtain ⟨r, hr, rfl⟩ := List.mem_map.mp hrow
    rw [C04.specialize_length, hp.cols r hr]
  deg := hp.deg

theorem presents_f90_specialize (thr : ℕ) {parent : List (List K)} {D N : ℕ} (hp : ParentNet parent D N) (a b : K) :
    Presents thr (evalPoint thr parent) (F90.specialize parent a b) a b D N := by
  rw [f90_specialize_eq parent hp.rowsOK]; exact presents_py_specialize thr hp a b

/-! ### the concrete primitives: what they satisfy of `ExactPrims`, and an idealised record -/

theorem concrete_specialize_eq (py : Bool) (C : PipelineConsts K) (m : List (List K)) (hm : RowsOK m) (x y : K) :
    (concretePrims py C).specialize m x y = Py.specialize m x y := by
  cases py
  · exact f90_specialize_eq m hm x y
  · rfl

theorem concrete_specialize_eval (py : Bool) (C : PipelineConsts K) (thr : ℕ) (m : List (List K)) (x y σ : K)
    (hm : RowsOK m) :
    evalPoint thr ((concretePrims py C).specialize m x y) σ = evalPoint thr m (x + σ * (y - x)) := by
  rw [concrete_specialize_eq py C m hm, py_specialize_eval thr m hm]

theorem concrete_specialize_shape (py : Bool) (C : PipelineConsts K) (m : List (List K)) (x y : K) (hm : RowsOK m) :
    ((concretePrims py C).specialize m x y).map List.length = m.map List.length := by
  rw [concrete_specialize_eq py C m hm, Py.specialize, List.map_map]
  apply List.map_congr_left
  intro r _
  exact C04.specialize_length r x y

theorem foldl_sq_nonneg : ∀ (v : List K) (acc : K), 0 ≤ acc → 0 ≤ v.foldl (fun acc x => acc + x * x) acc := by
  intro v
  induction v with
  | nil => intro acc h; exact h
  | cons x xs ih => intro acc h; exact ih _ (by nlinarith [mul_self_nonneg x])

theorem foldl_sq_subRow_self : ∀ (v : List K) (acc : K),
    (subRow v v).foldl (fun acc x => acc + x * x) acc = acc := by
  intro v
  induction v with
  | nil => intro acc; rfl
  | cons x xs ih =>
    intro acc
    show (subRow xs xs).foldl (fun acc x => acc + x * x) (acc + (x - x) * (x - x)) = acc
    rw [ih]; ring

/-- `vector_close` accepts equal vectors (`eps ≥ 0`) -/
theorem vectorCloseSq_refl (u : List K) (e : K) (he : 0 ≤ e) : vectorCloseSq u u e = true := by
  unfold vectorCloseSq
  dsimp only
  have hn : 0 ≤ Model.normSq u := foldl_sq_nonneg u 0 le_rfl
  split_ifs with h0
  · rw [h0]; exact decide_eq_true he
  · have hz : Model.normSq (subRow u u) = 0 := foldl_sq_subRow_self u 0
    rw [hz]
    apply decide_eq_true
    rw [Predicates.minK_eq_min, min_self]
    exact mul_nonneg he hn

theorem concrete_close_refl (py : Bool) (C : PipelineConsts K) (he : 0 ≤ C.epsSq) (u : List K) :
    (concretePrims py C).vectorClose u u = true := vectorCloseSq_refl u C.epsSq he

open Classical in
/-- the concrete primitives with `locate_point` replaced by the exact point location (non-computable; shows that
    `ExactPrims` is satisfiable together with the library's `specialize_curve` and `vector_close`) -/
noncomputable def idealPrims (thr : ℕ) (py : Bool) (C : PipelineConsts K) : Prims K :=
  { concretePrims py C with
    locate := fun m p =>
      if h : ∃ s : K, 0 ≤ s ∧ s ≤ 1 ∧ evalPoint thr m s = p then .ok (some (Classical.choose h)) else .ok none }

open Classical in
theorem idealPrims_exact (thr : ℕ) (py : Bool) (C : PipelineConsts K) (he : 0 ≤ C.epsSq) :
    ExactPrims thr (idealPrims thr py C) where
  locate_found := fun m s hm hi h0 h1 => by
    have hex : ∃ s' : K, 0 ≤ s' ∧ s' ≤ 1 ∧ evalPoint thr m s' = evalPoint thr m s := ⟨s, h0, h1, rfl⟩
    show (if h : ∃ s' : K, 0 ≤ s' ∧ s' ≤ 1 ∧ evalPoint thr m s' = evalPoint thr m s then
      Except.ok (some (Classical.choose h)) else .ok none) = _
    rw [dif_pos hex]
    obtain ⟨c0, c1, ce⟩ := Classical.choose_spec hex
    rw [hi _ _ c0 c1 h0 h1 ce]
  locate_miss := fun m p hm hno => by
    show (if h : ∃ s' : K, 0 ≤ s' ∧ s' ≤ 1 ∧ evalPoint thr m s' = p then
      Except.ok (some (Classical.choose h)) else .ok none) = _
    rw [dif_neg (fun ⟨s, h0, h1, he⟩ => hno s h0 h1 he)]
  specialize_eval := fun m x y σ hm => concrete_specialize_eval py C thr m x y σ hm
  specialize_shape := fun m x y hm => concrete_specialize_shape py C m x y hm
  close_refl := fun u => concrete_close_refl py C he u


/-! ### the round loop on curves that keep colliding: the candidate budget is exceeded

A family `tr 0, …, tr M` (`M = maxCandidates`) of common points of the two original curves is tracked through the
rounds.  Hypotheses (`RunSound`): during the first `R` rounds no piece of either curve is linearised, the
candidate pairs covering a tracked point have properly intersecting boxes (not merely tangent) and colliding
hulls, and `subdivide_nodes` is faithful.  The `s`-parameters of the tracked points are more than `2^-R` apart, so
that at depth `R` they need `M + 1` different candidate pairs. -/

/-- round-`r` invariant of a candidate: not linearised, faithful planar piece of `orig`, of width `2^-r` -/
def DepthInv (thr : ℕ) (orig : List (List K)) (r : ℕ) (c : Cand K) : Prop :=
  c.isLin = false ∧ CandInv thr orig c ∧ c.sub.stop - c.sub.start = (1 / 2) ^ r

structure RunSound (thr : ℕ) (P : Prims K) (G : GeoConsts K) (n1 n2 : List (List K)) (R : ℕ) (tr : ℕ → K × K) :
    Prop where
  /-- the tracked points are common points of the original curves -/
  tracked : ∀ i ≤ G.maxCandidates, TrueInt thr n1 n2 (tr i).1 (tr i).2
  /-- … whose `s`-parameters are more than `2^-R` apart -/
  spaced : ∀ i j, i < j → j ≤ G.maxCandidates → (1 / 2 : K) ^ R < (tr j).1 - (tr i).1
  planar1 : Planar n1
  planar2 : Planar n2
  /-- `subdivide_nodes` returns the two halves (holds for `concretePrims`: `C03.subdivision_faithful`) -/
  sub1 : ∀ c, CandInv thr n1 c → ∀ d ∈ subdivideCand P G c, CandInv thr n1 d
  sub2 : ∀ c, CandInv thr n2 c → ∀ d ∈ subdivideCand P G c, CandInv thr n2 d
  /-- no piece of width `≥ 2^-R` is replaced by its linearisation -/
  nolin1 : ∀ r ≤ R, ∀ c : Cand K, CandInv thr n1 c → c.sub.stop - c.sub.start = (1 / 2) ^ r →
    ¬ P.linErrSq c.sub.nodes < G.errValSq
  nolin2 : ∀ r ≤ R, ∀ c : Cand K, CandInv thr n2 c → c.sub.stop - c.sub.start = (1 / 2) ^ r →
    ¬ P.linErrSq c.sub.nodes < G.errValSq
  /-- the boxes of a pair covering a tracked point intersect properly (`≠ DISJOINT` is automatic for the exact
      box test: `C03.box_disjoint_sound`; the hypothesis is `≠ TANGENT`) -/
  box : ∀ r < R, ∀ c1 c2 : Cand K, DepthInv thr n1 r c1 → DepthInv thr n2 r c2 → ∀ i ≤ G.maxCandidates,
    Covers (c1, c2) (tr i).1 (tr i).2 → P.bboxIntersect c1.sub.nodes c2.sub.nodes = .intersection
  /-- the hulls of a pair covering a tracked point collide (pruning keeps it) -/
  hull : ∀ r ≤ R, ∀ c1 c2 : Cand K, DepthInv thr n1 r c1 → DepthInv thr n2 r c2 → ∀ i ≤ G.maxCandidates,
    Covers (c1, c2) (tr i).1 (tr i).2 → P.hullCollide c1.sub.nodes c2.sub.nodes = true

section Run

variable {thr : ℕ} {P : Prims K} {G : GeoConsts K} {n1 n2 : List (List K)} {R : ℕ} {tr : ℕ → K × K}

theorem cand_of_not_lin (c : Cand K) (h : c.isLin = false) : c = .curve c.sub := by
  cases c with
  | curve s => rfl
  | lin s e => simp [Cand.isLin] at h

/-- the pieces of a round-`r` candidate are round-`(r+1)` candidates -/
theorem subdivideCand_depth (orig : List (List K))
    (hsub : ∀ c, CandInv thr orig c → ∀ d ∈ subdivideCand P G c, CandInv thr orig d)
    (hnolin : ∀ r ≤ R, ∀ c : Cand K, CandInv thr orig c → c.sub.stop - c.sub.start = (1 / 2) ^ r →
      ¬ P.linErrSq c.sub.nodes < G.errValSq)
    (r : ℕ) (hr : r < R) (c : Cand K) (hc : DepthInv thr orig r c) :
    ∀ d ∈ subdivideCand P G c, DepthInv thr orig (r + 1) d := by
  obtain ⟨hl, hinv, hw⟩ := hc
  intro d hd
  have hdinv := hsub c hinv d hd
  cases c with
  | lin sc e => simp [Cand.isLin] at hl
  | curve sc =>
    simp only [Cand.sub] at hw
    simp only [subdivideCand, List.mem_cons, List.not_mem_nil, or_false] at hd
    have hwid : d.sub.stop - d.sub.start = (1 / 2) ^ (r + 1) := by
      rcases hd with rfl | rfl <;> rw [fromShape_sub] <;> simp only [Cand.sub] <;> rw [half_eq, pow_succ, ← hw] <;> ring
    refine ⟨?_, hdinv, hwid⟩
    have hnl := hnolin (r + 1) (by omega) d hdinv hwid
    rcases hd with rfl | rfl
    · rw [fromShape_sub] at hnl
      simp only [Cand.sub] at hnl
      simp only [fromShape]
      rw [if_neg hnl]; rfl
    · rw [fromShape_sub] at hnl
      simp only [Cand.sub] at hnl
      simp only [fromShape]
      rw [if_neg hnl]; rfl

/-- one pair of two un-linearised candidates: never an error; dropped or subdivided; subdivided when the boxes
    intersect properly -/
theorem intersectPair_curves (c1 c2 : Cand K) (h1 : c1.isLin = false) (h2 : c2.isLin = false) (acc : List (K × K)) :
    ∃ more acc', intersectPair P G n1 n2 c1 c2 acc = .ok (more, acc') ∧
      (more = [] ∨ more = subdividePairs P G c1 c2) ∧
      (P.bboxIntersect c1.sub.nodes c2.sub.nodes = .intersection → more = subdividePairs P G c1 c2) := by
  cases c1 with
  | lin s1 e1 => simp [Cand.isLin] at h1
  | curve s1 =>
    cases c2 with
    | lin s2 e2 => simp [Cand.isLin] at h2
    | curve s2 =>
      rw [intersectPair_eq]
      have hb : pairBox P (Cand.curve s1) (Cand.curve s2) = P.bboxIntersect s1.nodes s2.nodes := rfl
      rw [hb]
      simp only [Cand.sub]
      split_ifs with hd ht
      · exact ⟨_, _, rfl, Or.inl rfl, fun h => by rw [h] at hd; cases hd⟩
      · exact ⟨_, _, rfl, Or.inl rfl, fun h => by rw [h] at ht; cases ht.1⟩
      · exact ⟨_, _, rfl, Or.inr rfl, fun _ => rfl⟩

theorem fold_round (hS : RunSound thr P G n1 n2 R tr) (r : ℕ) (hr : r < R) :
    ∀ (l nx : List (Cand K × Cand K)) (ac : List (K × K)),
      (∀ pr ∈ l, DepthInv thr n1 r pr.1 ∧ DepthInv thr n2 r pr.2) →
      (∀ pr ∈ nx, DepthInv thr n1 (r + 1) pr.1 ∧ DepthInv thr n2 (r + 1) pr.2) →
      ∃ nx' ac', l.foldl (roundStep P G n1 n2) (.ok (nx, ac)) = .ok (nx', ac') ∧
        (∀ pr ∈ nx', DepthInv thr n1 (r + 1) pr.1 ∧ DepthInv thr n2 (r + 1) pr.2) ∧
        (∀ pr ∈ nx, pr ∈ nx') ∧
        (∀ i ≤ G.maxCandidates, (∃ pr ∈ l, Covers pr (tr i).1 (tr i).2) → ∃ q ∈ nx', Covers q (tr i).1 (tr i).2) := by
  intro l
  induction l with
  | nil =>
    intro nx ac _ hnx
    exact ⟨nx, ac, rfl, hnx, fun _ h => h, fun i _ ⟨pr, hpr, _⟩ => by cases hpr⟩
  | cons pr rest ih =>
    intro nx ac hl hnx
    obtain ⟨hp1, hp2⟩ := hl pr List.mem_cons_self
    obtain ⟨more, acc', hpair, hmore, hbox⟩ := intersectPair_curves (P := P) (G := G) (n1 := n1) (n2 := n2)
      pr.1 pr.2 hp1.1 hp2.1 ac
    have hsubInv : ∀ q ∈ subdividePairs P G pr.1 pr.2,
        DepthInv thr n1 (r + 1) q.1 ∧ DepthInv thr n2 (r + 1) q.2 := by
      intro q hq
      obtain ⟨q1, q2⟩ := (mem_subdividePairs P G pr.1 pr.2 q).mp hq
      exact ⟨subdivideCand_depth n1 hS.sub1 hS.nolin1 r hr pr.1 hp1 q.1 q1,
        subdivideCand_depth n2 hS.sub2 hS.nolin2 r hr pr.2 hp2 q.2 q2⟩
    have hmoreInv : ∀ q ∈ more, DepthInv thr n1 (r + 1) q.1 ∧ DepthInv thr n2 (r + 1) q.2 := by
      rcases hmore with rfl | rfl
      · intro q hq; cases hq
      · exact hsubInv
    have hstep : roundStep P G n1 n2 (.ok (nx, ac)) pr = .ok (nx ++ more, acc') := by
      simp only [roundStep]; rw [hpair]
    obtain ⟨nx', ac', hfold, hinv', hsub', hcov'⟩ := ih (nx ++ more) acc'
      (fun q hq => hl q (List.mem_cons_of_mem _ hq))
      (fun q hq => by
        rcases List.mem_append.mp hq with h | h
        · exact hnx q h
        · exact hmoreInv q h)
    refine ⟨nx', ac', by rw [List.foldl_cons, hstep]; exact hfold, hinv',
      fun q hq => hsub' q (List.mem_append_left _ hq), ?_⟩
    rintro i hi ⟨q, hq, hqc⟩
    rcases List.mem_cons.mp hq with rfl | hq'
    · have hb := hS.box r hr q.1 q.2 hp1 hp2 i hi hqc
      have hm := hbox hb
      obtain ⟨q', hq', hq'c⟩ := subdividePairs_covers P G q.1 q.2 _ _ hqc
      exact ⟨q', hsub' q' (List.mem_append_right _ (hm ▸ hq')), hq'c⟩
    · exact hcov' i hi ⟨q, hq', hqc⟩

/-- one round at depth `r < R`: succeeds; the next candidates (also after pruning) are depth-`(r+1)` candidates and
    still cover every tracked point -/
theorem round_depth (hS : RunSound thr P G n1 n2 R tr) (r : ℕ) (hr : r < R)
    (cands : List (Cand K × Cand K)) (acc : List (K × K))
    (hinv : ∀ pr ∈ cands, DepthInv thr n1 r pr.1 ∧ DepthInv thr n2 r pr.2)
    (hcov : ∀ i ≤ G.maxCandidates, ∃ pr ∈ cands, Covers pr (tr i).1 (tr i).2) :
    ∃ next acc', intersectOneRound P G n1 n2 cands acc = .ok (next, acc') ∧
      (∀ pr ∈ afterPrune P G next, DepthInv thr n1 (r + 1) pr.1 ∧ DepthInv thr n2 (r + 1) pr.2) ∧
      (∀ i ≤ G.maxCandidates, ∃ pr ∈ afterPrune P G next, Covers pr (tr i).1 (tr i).2) := by
  obtain ⟨next, acc', hfold, hinv', -, hcov'⟩ := fold_round hS r hr cands [] acc hinv (fun pr hpr => by cases hpr)
  refine ⟨next, acc', by rw [intersectOneRound_eq]; exact hfold,
    fun pr hpr => hinv' pr (afterPrune_sub P G next pr hpr), ?_⟩
  intro i hi
  obtain ⟨q, hq, hqc⟩ := hcov' i hi (hcov i hi)
  refine ⟨q, ?_, hqc⟩
  unfold afterPrune
  split_ifs
  · unfold pruneCandidates
    rw [List.mem_filter]
    exact ⟨hq, hS.hull (r + 1) (by omega) q.1 q.2 (hinv' q hq).1 (hinv' q hq).2 i hi hqc⟩
  · exact hq

/-- at depth `R` the tracked points need more than `maxCandidates` pairs -/
theorem depth_count (hS : RunSound thr P G n1 n2 R tr) (cands : List (Cand K × Cand K))
    (hinv : ∀ pr ∈ cands, DepthInv thr n1 R pr.1 ∧ DepthInv thr n2 R pr.2)
    (hcov : ∀ i ≤ G.maxCandidates, ∃ pr ∈ cands, Covers pr (tr i).1 (tr i).2) :
    G.maxCandidates < cands.length := by
  classical
  have hidx : ∀ i : Fin (G.maxCandidates + 1), ∃ k : Fin cands.length, Covers (cands.get k) (tr i).1 (tr i).2 := by
    intro i
    obtain ⟨pr, hpr, hc⟩ := hcov i (by omega)
    obtain ⟨k, hk⟩ := List.mem_iff_get.mp hpr
    exact ⟨k, hk ▸ hc⟩
  choose f hf using hidx
  have hinj : Function.Injective f := by
    intro i j hij
    by_contra hne
    have hw := (hinv _ (List.get_mem cands (f i))).1.2.2
    have ci := hf i
    have cj := hf j
    rw [← hij] at cj
    have hlt : (i : ℕ) < j ∨ (j : ℕ) < i := by
      rcases lt_trichotomy (i : ℕ) j with h | h | h
      · exact Or.inl h
      · exact absurd (Fin.ext h) hne
      · exact Or.inr h
    rcases hlt with h | h
    · have := hS.spaced i j h (by omega)
      linarith [ci.1, ci.2.1, cj.1, cj.2.1]
    · have := hS.spaced j i h (by omega)
      linarith [ci.1, ci.2.1, cj.1, cj.2.1]
  have := Fintype.card_le_of_injective f hinj
  simp only [Fintype.card_fin] at this
  omega

/-- the answer of the candidate-budget exit -/
def budgetExit (P : Prims K) (G : GeoConsts K) (n1 n2 : List (List K)) : Except Err (List (K × K) × Bool) :=
  match coincidentParameters P G n1 n2 with
  | .error e => .error e
  | .ok none => .error .notImplemented
  | .ok (some params) => .ok (params, true)

/-- from depth `r < R` with enough fuel the loop ends in the candidate-budget exit -/
theorem rounds_reach_budget (hS : RunSound thr P G n1 n2 R tr) :
    ∀ (fuel r : ℕ) (cands : List (Cand K × Cand K)) (acc : List (K × K)), r < R → R - r ≤ fuel →
      (∀ pr ∈ cands, DepthInv thr n1 r pr.1 ∧ DepthInv thr n2 r pr.2) →
      (∀ i ≤ G.maxCandidates, ∃ pr ∈ cands, Covers pr (tr i).1 (tr i).2) →
      allIntersections.rounds P G n1 n2 fuel cands acc = budgetExit P G n1 n2 := by
  intro fuel
  induction fuel with
  | zero => intro r cands acc hr hf; omega
  | succ f ih =>
    intro r cands acc hr hf hinv hcov
    obtain ⟨next, acc', hround, hinv', hcov'⟩ := round_depth hS r hr cands acc hinv hcov
    rw [rounds_succ, hround]
    dsimp only
    split_ifs with hmany hempty
    · rfl
    · obtain ⟨q, hq, -⟩ := hcov' 0 (Nat.zero_le _)
      rw [List.isEmpty_iff] at hempty
      rw [hempty] at hq; cases hq
    · by_cases hR : r + 1 = R
      · exact absurd (depth_count hS _ (hR ▸ hinv') hcov') hmany
      · exact ih (r + 1) _ _ (by omega) (by omega) hinv' hcov'

/-- **the candidate budget is exceeded**: under `RunSound` (with `1 ≤ R ≤ maxRounds`) `all_intersections` ends in
    the candidate-budget exit, i.e. its answer is decided by `coincident_parameters` alone -/
theorem allIntersections_budget (hS : RunSound thr P G n1 n2 R tr) (hR1 : 1 ≤ R) (hR : R ≤ G.maxRounds) :
    allIntersections P G n1 n2 = budgetExit P G n1 n2 := by
  have hc1 : CandInv thr n1 (.curve { nodes := n1, start := 0, stop := 1 }) := ⟨faithful_initial thr n1, hS.planar1⟩
  have hc2 : CandInv thr n2 (.curve { nodes := n2, start := 0, stop := 1 }) := ⟨faithful_initial thr n2, hS.planar2⟩
  have hw : ∀ n : List (List K), (Cand.curve ({ nodes := n, start := 0, stop := 1 } : SubCurve K)).sub.stop
      - (Cand.curve ({ nodes := n, start := 0, stop := 1 } : SubCurve K)).sub.start = (1 / 2) ^ 0 := by
    intro n; simp [Cand.sub]
  have e1 : fromShape P G (.curve { nodes := n1, start := 0, stop := 1 }) = .curve { nodes := n1, start := 0, stop := 1 } := by
    have := hS.nolin1 0 (Nat.zero_le _) _ hc1 (hw n1)
    simp only [Cand.sub] at this
    simp only [fromShape]; rw [if_neg this]
  have e2 : fromShape P G (.curve { nodes := n2, start := 0, stop := 1 }) = .curve { nodes := n2, start := 0, stop := 1 } := by
    have := hS.nolin2 0 (Nat.zero_le _) _ hc2 (hw n2)
    simp only [Cand.sub] at this
    simp only [fromShape]; rw [if_neg this]
  unfold allIntersections
  dsimp only
  rw [e1, e2]
  have hcl : checkLines P (.curve { nodes := n1, start := 0, stop := 1 }) (.curve { nodes := n2, start := 0, stop := 1 })
      = none := rfl
  rw [hcl]
  dsimp only
  apply rounds_reach_budget hS G.maxRounds 0 _ _ (by omega) (by omega)
  · intro pr hpr
    rw [List.mem_singleton] at hpr
    subst hpr
    exact ⟨⟨rfl, hc1, hw n1⟩, ⟨rfl, hc2, hw n2⟩⟩
  · intro i hi
    obtain ⟨s0, s1, t0, t1, -⟩ := hS.tracked i hi
    exact ⟨_, List.mem_singleton.mpr rfl, s0, s1, t0, t1⟩

end Run


/-! ### the bundle of hypotheses of the property theorems -/

/-- `n1`, `n2` present the arcs `[a, b]` (`a < b`) and `c → d` (`c ≠ d`) of the parent net, possibly at different
    degrees; the parent is injective on `[0,1]`; the primitives are exact -/
structure SubArcs (thr : ℕ) (P : Prims K) (parent n1 n2 : List (List K)) (a b c d : K) : Prop where
  exact : ExactPrims thr P
  inj : InjNet thr parent
  pres : ∃ D N1 N2, 1 ≤ D ∧ Presents thr (evalPoint thr parent) n1 a b D N1 ∧
    Presents thr (evalPoint thr parent) n2 c d D N2
  ha : 0 ≤ a
  hab : a < b
  hb : b ≤ 1
  hc : 0 ≤ c ∧ c ≤ 1
  hd : 0 ≤ d ∧ d ≤ 1
  hcd : c ≠ d

theorem SubArcs.arcPair {thr : ℕ} {P : Prims K} {parent n1 n2 : List (List K)} {a b c d : K}
    (h : SubArcs thr P parent n1 n2 a b c d) :
    ArcPair thr P (evalPoint thr parent) (makeSameDegree n1 n2).1 (makeSameDegree n1 n2).2 a b c d := by
  obtain ⟨D, N1, N2, hD, p1, p2⟩ := h.pres
  exact arcPair_of_presents h.exact h.inj p1 p2 hD h.ha h.hab h.hb h.hc h.hd h.hcd

/-- sub-arcs cut out by `specialize_curve` and then degree-elevated `k` resp. `l` times (`k = l = 0`: plain) -/
theorem subArcs_elevated {thr : ℕ} {P : Prims K} (hP : ExactPrims thr P) {parent : List (List K)} {D N : ℕ}
    (hp : ParentNet parent D N) (hD : 1 ≤ D) (hinj : InjNet thr parent) (k l : ℕ) {a b c d : K}
    (ha : 0 ≤ a) (hab : a < b) (hb : b ≤ 1) (hc : 0 ≤ c ∧ c ≤ 1) (hd : 0 ≤ d ∧ d ≤ 1) (hcd : c ≠ d) :
    SubArcs thr P parent (iter elevate k (Py.specialize parent a b)) (iter elevate l (Py.specialize parent c d))
      a b c d where
  exact := hP
  inj := hinj
  pres := ⟨D, N + k, N + l, hD, Presents.iter_elevate k (presents_py_specialize thr hp a b),
    Presents.iter_elevate l (presents_py_specialize thr hp c d)⟩
  ha := ha
  hab := hab
  hb := hb
  hc := hc
  hd := hd
  hcd := hcd


/-! ### satisfiability of `RunSound` together with `ExactPrims` (an idealised record) -/

/-- `subdivide_nodes` of either implementation is faithful, for any record that uses it (the argument of
    `C03.subdivision_faithful`, which is the instance `P = concretePrims py C`) -/
theorem subdivideCand_faithful_of (P : Prims K) (py : Bool) (hsub : P.subdivide = subdivideOf py) (G : GeoConsts K)
    (thr : ℕ) (orig : List (List K)) (c : Cand K) (h : CandInv thr orig c) :
    ∀ d ∈ subdivideCand P G c, CandInv thr orig d := by
  obtain ⟨hf, hp⟩ := h
  cases c with
  | lin c e =>
    intro d hd
    simp only [subdivideCand, List.mem_singleton] at hd
    subst hd
    exact ⟨hf, hp⟩
  | curve c =>
    simp only [Cand.sub] at hp
    have hsub' : P.subdivide c.nodes = subdivideOf py c.nodes := by rw [hsub]
    obtain ⟨pl, pr⟩ := subdivide_planar py c.nodes hp
    intro d hd
    simp only [subdivideCand, List.mem_cons, List.not_mem_nil, or_false] at hd
    rcases hd with rfl | rfl
    · refine ⟨faithful_fromShape _ _ thr orig _ ?_, by rw [fromShape_sub]; exact hsub' ▸ pl⟩
      intro σ
      simp only [Cand.sub]
      rw [hsub', subdivide_left_eval py thr c.nodes hp.2 σ]
      have := hf (σ / 2)
      simp only [Cand.sub] at this
      rw [this]
      congr 1
      rw [half_eq]; ring
    · refine ⟨faithful_fromShape _ _ thr orig _ ?_, by rw [fromShape_sub]; exact hsub' ▸ pr⟩
      intro σ
      simp only [Cand.sub]
      rw [hsub', subdivide_right_eval py thr c.nodes hp.2 σ]
      have := hf ((1 + σ) / 2)
      simp only [Cand.sub] at this
      rw [this]
      congr 1
      rw [half_eq]; ring

/-- exact point location, the library's `subdivide_nodes` / `specialize_curve` / `vector_close`, and the most
    generous filters: nothing is linearised, every box test says `INTERSECTION`, every hull test "collide" -/
noncomputable def greedyPrims (thr : ℕ) (py : Bool) (C : PipelineConsts K) : Prims K :=
  { idealPrims thr py C with
    linErrSq := fun _ => C.geo.errValSq
    bboxIntersect := fun _ _ => .intersection
    hullCollide := fun _ _ => true }

theorem greedyPrims_exact (thr : ℕ) (py : Bool) (C : PipelineConsts K) (he : 0 ≤ C.epsSq) :
    ExactPrims thr (greedyPrims thr py C) where
  locate_found := (idealPrims_exact thr py C he).locate_found
  locate_miss := (idealPrims_exact thr py C he).locate_miss
  specialize_eval := (idealPrims_exact thr py C he).specialize_eval
  specialize_shape := (idealPrims_exact thr py C he).specialize_shape
  close_refl := (idealPrims_exact thr py C he).close_refl

theorem greedyPrims_runSound (thr : ℕ) (py : Bool) (C : PipelineConsts K) (n1 n2 : List (List K)) (R : ℕ)
    (tr : ℕ → K × K) (tracked : ∀ i ≤ C.geo.maxCandidates, TrueInt thr n1 n2 (tr i).1 (tr i).2)
    (spaced : ∀ i j, i < j → j ≤ C.geo.maxCandidates → (1 / 2 : K) ^ R < (tr j).1 - (tr i).1)
    (planar1 : Planar n1) (planar2 : Planar n2) :
    RunSound thr (greedyPrims thr py C) C.geo n1 n2 R tr where
  tracked := tracked
  spaced := spaced
  planar1 := planar1
  planar2 := planar2
  sub1 := fun c hc => subdivideCand_faithful_of _ py (by cases py <;> rfl) C.geo thr n1 c hc
  sub2 := fun c hc => subdivideCand_faithful_of _ py (by cases py <;> rfl) C.geo thr n2 c hc
  nolin1 := fun _ _ _ _ _ => lt_irrefl _
  nolin2 := fun _ _ _ _ _ => lt_irrefl _
  box := fun _ _ _ _ _ _ _ _ _ => rfl
  hull := fun _ _ _ _ _ _ _ _ _ => rfl

theorem Presents.planar {thr : ℕ} {B : K → List K} {n : List (List K)} {a b : K} {N : ℕ}
    (h : Presents thr B n a b 2 N) : Planar n := ⟨h.dim, h.rowsOK⟩


/-! ### the parabola `(2x, 4x(1−x))` used by the non-vacuity examples -/

theorem parabola_parentNet : ParentNet ([[0, 1, 2], [0, 2, 0]] : List (List ℚ)) 2 3 :=
  ⟨rfl, by
    intro row hrow
    simp only [List.mem_cons, List.not_mem_nil, or_false] at hrow
    rcases hrow with rfl | rfl <;> rfl, by norm_num⟩

theorem parabola_eval (z : ℚ) : evalPoint 55 ([[0, 1, 2], [0, 2, 0]] : List (List ℚ)) z = [2 * z, 4 * z * (1 - z)] := by
  rw [Geo.evalPoint_pair 55 _ _ (by decide) (by decide)]
  simp [evalDC, dcRound]
  constructor <;> ring

theorem parabola_injNet : InjNet 55 ([[0, 1, 2], [0, 2, 0]] : List (List ℚ)) := by
  intro x y _ _ _ _ he
  rw [parabola_eval, parabola_eval] at he
  simp only [List.cons.injEq, and_true] at he
  linarith [he.1]

end BezierVerif.Overlap
